(* Run/DlRun.v — executable rendering of the DataLayer blob model (stream `dl`).
   dl.hist OP OP ...  runs the history on the L2 mirror (Dl/Blob.v with SHA-256) and prints after
   EVERY operation  RESULT|BLOB|KV|IR  (+ |ROOT|PROOFS after `h`), exactly what harness vh_dl prints.
   The last token "@flags" is model-only: per operation, whether the abstraction link holds
   (a = abs(s') equals the L1 operation applied to abs(s), results agree at L0/L1/L2, the executable
   invariant holds and reloading the bytes gives an equivalent blob; X = link broken). *)
From Coq Require Import String.
From ChiaV.Base Require Import Bytes Sha256.
From ChiaV.Gen Require Import Dl.
From ChiaV.Dl Require Import Format Map Tree Blob Abs History.
From ChiaV.Run Require Import RunBase.
Open Scope N_scope.

Definition fields (tok : bytes) : list bytes := split_on x3a tok [].
Definition num8 (t : bytes) : N := be2n (hx t).
Definition side_of (t : bytes) : side := if dec t =? 0 then SLeft else SRight.

Fixpoint parse_items (fs : list bytes) : list item :=
  match fs with
  | k :: v :: h :: r => (num8 k, num8 v, hx h) :: parse_items r
  | _ => []
  end.

Definition parse_op (tok : bytes) : option op :=
  match fields tok with
  | c :: args =>
      if bytes_eqb c (str "i") then
        let k := num8 (arg 0 args) in
        let v := num8 (arg 1 args) in
        let h := hx (arg 2 args) in
        let l := arg 3 args in
        if bytes_eqb l (str "a") then Some (OInsert k v h RAuto)
        else if bytes_eqb l (str "r") then Some (OInsert k v h RRoot)
        else if bytes_eqb l (str "k") then Some (OInsert k v h (RKey (num8 (arg 4 args)) (side_of (arg 5 args))))
        else if bytes_eqb l (str "x") then Some (OInsert k v h (RIndex (dec (arg 4 args)) (side_of (arg 5 args))))
        else None
      else if bytes_eqb c (str "d") then Some (ODelete (num8 (arg 0 args)))
      else if bytes_eqb c (str "u") then Some (OUpsert (num8 (arg 0 args)) (num8 (arg 1 args)) (hx (arg 2 args)))
      else if bytes_eqb c (str "b") then Some (OBatch (parse_items args))
      else if bytes_eqb c (str "h") then Some OHash
      else if bytes_eqb c (str "l") then Some OReload
      else None
  | [] => None
  end.

(* ---------- printing ---------- *)
Definition k16 (k : N) : bytes := to_hex (n2be 8 k).
Definition bar : bytes := str "|".
Definition BLOB_HEX_MAX : N := 55 * 200.

Definition blob_text (s : mblob) : bytes :=
  let b := bytes_of_blocks (blocks s) in
  match b with
  | [] => str "-"
  | _ => if BLOB_HEX_MAX <? nlen b then str "#" ++ to_hex (sha256 b) else to_hex b
  end.

Fixpoint ins_sorted (x : N * N) (l : list (N * N)) : list (N * N) :=
  match l with
  | [] => [x]
  | y :: r => if fst x <=? fst y then x :: l else y :: ins_sorted x r
  end.
Definition sort_kv (l : list (N * N)) : list (N * N) := fold_right ins_sorted [] l.

Definition kv_text (s : mblob) : bytes :=
  match get_keys_values s with
  | Ok [] => str "-"
  | Ok l => join (str ",") (map (fun '(k, v) => k16 k ++ str "=" ++ k16 v) (sort_kv l))
  | Err _ => str "E"
  | Panic => str "P"
  | OutOfFuel => str "F"
  end.

Definition verdict {A} (r : res A) : bytes :=
  match r with Ok _ => str "1" | Err _ => str "0" | Panic => str "P" | OutOfFuel => str "F" end.

Definition integrity_text (s : mblob) : bytes :=
  verdict (check_integrity sha256 s) ++ verdict (reload (bytes_of_blocks (blocks s))).

Definition side_digit (sd : side) : bytes := match sd with SLeft => to_dec SIDE_LEFT | SRight => to_dec SIDE_RIGHT end.

Definition proof_text (p : proof) : bytes :=
  boolo (proof_valid sha256 p) ++ str ":" ++ to_hex (p_node_hash p) ++ str ":" ++ to_hex (proof_root_hash p)
  ++ concat (map (fun l => str ":" ++ side_digit (other_hash_side l) ++ str "." ++ to_hex (other_hash l)
                           ++ str "." ++ to_hex (combined_hash l)) (p_layers p)).

Definition hash_report (s : mblob) : bytes :=
  (match get_hash_at_index s 0 with
   | Ok None => str "-"
   | Ok (Some h) => to_hex h
   | Err _ => str "E"
   | Panic => str "P"
   | OutOfFuel => str "F"
   end) ++ bar ++
  (match get_keys_values s with
   | Ok [] => str "-"
   | Ok l => join (str ",")
               (map (fun '(k, _) =>
                       k16 k ++ str "=" ++
                       match get_proof_of_inclusion s k with
                       | Ok p => proof_text p
                       | Err _ => str "E"
                       | Panic => str "P"
                       | OutOfFuel => str "F"
                       end) (sort_kv l))
   | Err _ => str "E"
   | Panic => str "P"
   | OutOfFuel => str "F"
   end).

Definition res_text (r : res (option N)) : bytes :=
  match r with
  | Ok None => str "ok"
  | Ok (Some i) => str "ok:" ++ to_dec i
  | Err _ => str "err"
  | Panic => str "PANIC"
  | OutOfFuel => str "FUEL"
  end.

(* ---------- the model-only link check ---------- *)
Fixpoint tree_eqb (a b : tree) : bool :=
  match a, b with
  | TLeaf k v h, TLeaf k' v' h' => (k =? k') && (v =? v') && bytes_eqb h h'
  | TNode h d l r, TNode h' d' l' r' => bytes_eqb h h' && Bool.eqb d d' && tree_eqb l l' && tree_eqb r r'
  | _, _ => false
  end.
Definition otree_eqb (a b : option tree) : bool :=
  match a, b with
  | None, None => true
  | Some x, Some y => tree_eqb x y
  | _, _ => false
  end.

Definition sub_nmap (a b : list (N * N)) : bool :=
  forallb (fun '(k, i) => opt_N_eqb (amap_get N.eqb k b) (Some i)) a.
Definition sub_hmap (a b : list (bytes * N)) : bool :=
  forallb (fun '(k, i) => opt_N_eqb (amap_get bytes_eqb k b) (Some i)) a.
Definition sub_list (a b : list N) : bool := forallb (fun i => nmem i b) a.

(* reload (bytes s) is a blob with the same bytes and set-equal caches and free list *)
Definition reload_equiv (s : mblob) : bool :=
  match reload (bytes_of_blocks (blocks s)) with
  | Ok s' =>
      forallb (fun '(x, y) => bytes_eqb x y) (combine (blocks s) (blocks s'))
      && (length (blocks s) =? length (blocks s'))%nat
      && sub_nmap (k2i s) (k2i s') && sub_nmap (k2i s') (k2i s)
      && sub_hmap (h2i s) (h2i s') && sub_hmap (h2i s') (h2i s)
      && sub_list (free s) (free s') && sub_list (free s') (free s)
  | _ => false
  end.

(* [deep]: also evaluate the hash part of the invariant (every clean internal hash recomputed): done after
   hashing operations and after the last operation; in between it follows from the L1 theorems *)
Definition link_flag (deep : bool) (o : op) (s : mblob) (m : kvmap) (x : res (option N)) (s' : mblob) : byte * kvmap :=
  let t := op_to_top s o in
  let m' := snd (step0 t m) in
  match abs s with
  | Some ot =>
      let '(ok1, ot1) := step1 sha256 t ot in
      let good :=
        match abs s' with
        | Some ot2 => otree_eqb ot1 ot2
        | None => false
        end
        && Bool.eqb ok1 (is_ok x) && Bool.eqb ok1 (fst (step0 t m))
        && inv_b s' && (negb deep || wf_b sha256 s') && reload_equiv s' in
      ((if good then x61 else x58), m')
  | None => (x58, m')
  end.

(* [tainted] is never set any more (there are no known classes after the repairs) *)
Fixpoint run_hist (toks : list bytes) (s : mblob) (m : kvmap) (tainted : bool) (outs : list bytes) (flags : bytes)
  : list bytes * bytes :=
  match toks with
  | [] => (fast_rev outs, fast_rev flags)
  | tok :: r =>
      match tok with
      | [] => run_hist r s m tainted outs flags
      | _ =>
          match parse_op tok with
          | None => (fast_rev (str "ERR-BAD-OP" :: outs), fast_rev flags)
          | Some o =>
              let '(x, s') := step2 sha256 o s in
              if stops x then (fast_rev (res_text x :: outs), fast_rev flags)
              else
                let line := res_text x ++ bar ++ blob_text s' ++ bar ++ kv_text s' ++ bar ++ integrity_text s'
                            ++ (match o with OHash => bar ++ hash_report s' | _ => [] end) in
                let '(f, m') := if tainted then (x2e, m)
                                else link_flag (match o, r with OHash, _ => true | _, [] => true | _, _ => false end) o s m x s' in
                let tainted' := tainted || byte_eqb f x4b || byte_eqb f x53 in
                run_hist r s' m' tainted' (line :: outs) (f :: flags)
          end
      end
  end.

Definition h_hist (args : list bytes) : bytes :=
  let '(outs, flags) := run_hist args empty_blob [] false [] [] in
  match outs with
  | [] => str "- @"
  | _ => words outs ++ str " @" ++ flags
  end.

Definition dl_handlers : list (bytes * handler) := [ (str "dl.hist", h_hist) ].

Definition dispatch_n (line : list N) : list N :=
  map b2n (dispatch_table dl_handlers (map n2b line)).
