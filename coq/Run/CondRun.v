(* Run/CondRun.v — executable rendering of the conditions mirror (stream `cond`). *)
From Coq Require Import String.
From ChiaV.Base Require Import Bytes Sha256.
From ChiaV.Clvm Require Import Sexp Ints.
From ChiaV.Gen Require Import Opcodes Ladders.
From ChiaV.Cond Require Import Model Render.
From ChiaV.Run Require Import RunBase.
Open Scope N_scope.

Fixpoint chunks (fuel : nat) (n : nat) (b : bytes) : list bytes :=
  match fuel with
  | O => []
  | S f => match b with [] => [] | _ => firstn n b :: chunks f n (skipn n b) end
  end.

Definition consts_of (b : bytes) : consts :=
  let c := chunks 8 32 b in
  {| c_me := nth 0 c []; c_parent := nth 1 c []; c_puzzle := nth 2 c []; c_amount := nth 3 c [];
     c_puzzle_amount := nth 4 c []; c_parent_amount := nth 5 c []; c_parent_puzzle := nth 6 c [] |}.

(* cond.parse FLAGS VISITOR MAXCOST CLVMCOST CONSTS VALIDKEYS TREE *)
Definition h_parse (args : list bytes) : bytes :=
  let fl := flags_of_bits (dec (arg 0 args)) in
  let V := if dec (arg 1 args) =? 1 then VMempool else VEmpty in
  let max_cost := dec (arg 2 args) in
  let clvm_cost := dec (arg 3 args) in
  let K := consts_of (hx (arg 4 args)) in
  let keys := let kb := hx (arg 5 args) in chunks (S (length kb)) 48 kb in
  match node_from_bytes (hx (arg 6 args)) with
  | None => str "ERR-DESER"
  | Some t =>
      render_result (parse_spends (fun pk => mem_bytes pk keys) sha256 K fl V t max_cost clvm_cost)
  end.

(* cond.ucost OP : compute_unknown_condition_cost *)
Definition h_ucost (args : list bytes) : bytes := to_dec (compute_unknown_condition_cost (dec (arg 0 args))).

(* cond.opcode ATOM : parse_opcode on an atom *)
Definition h_opcode (args : list bytes) : bytes :=
  match parse_opcode (Atom (hx (arg 0 args))) with Some op => to_dec op | None => str "none" end.

(* cond.finalmsg OP MSG PARENT PH AMOUNT CONSTS : message an AGG_SIG condition commits to *)
Definition h_finalmsg (args : list bytes) : bytes :=
  let op := dec (arg 0 args) in
  let msg := hx (arg 1 args) in
  let parent := hx (arg 2 args) in
  let ph := hx (arg 3 args) in
  let amount := dec (arg 4 args) in
  let K := consts_of (hx (arg 5 args)) in
  let s := new_spend parent amount ph (sha256 (parent ++ ph ++ coin_amount_bytes amount)) 0 in
  hexo (msg ++ agg_sig_suffix K op s).

(* cond.coinid PARENT PH AMOUNT : Coin::coin_id through the translated ladder *)
Definition h_coinid (args : list bytes) : bytes :=
  to_hex (sha256 (hx (arg 0 args) ++ hx (arg 1 args) ++ coin_amount_bytes (dec (arg 2 args)))).

Definition cond_handlers : list (bytes * handler) :=
  [ (str "cond.parse", h_parse); (str "cond.ucost", h_ucost); (str "cond.opcode", h_opcode);
    (str "cond.finalmsg", h_finalmsg); (str "cond.coinid", h_coinid) ].

Definition dispatch_n (line : list N) : list N :=
  map b2n (dispatch_table cond_handlers (map n2b line)).
