(* Run/LocksRun.v — executable rendering of the time-lock model (stream `locks`).
   model = Cond.Model.parse_spends on the serialized bundle, then the check_time_locks mirror
   (Locks/TimeLocks.v) on the result with the chain state given on the case line. *)
From Coq Require Import String.
From ChiaV.Base Require Import Bytes Sha256.
From ChiaV.Clvm Require Import Sexp Ints.
From ChiaV.Gen Require Import Opcodes Ladders.
From ChiaV.Cond Require Import Model Render.
From ChiaV.Locks Require Import TimeLocks.
From ChiaV.Run Require Import RunBase.
Open Scope N_scope.

Definition no_consts : consts :=
  {| c_me := []; c_parent := []; c_puzzle := []; c_amount := []; c_puzzle_amount := [];
     c_parent_amount := []; c_parent_puzzle := [] |}.

(* ID CBI TS triples *)
Fixpoint recs_of_args (n : nat) (args : list bytes) : list (bytes * (N * N)) :=
  match n, args with
  | S n', id :: cbi :: ts :: r => (hx id, (dec cbi, dec ts)) :: recs_of_args n' r
  | _, _ => []
  end.

(* what the property says about a parse rejection: impossible constraints / relative condition on an
   ephemeral coin / anything else *)
Definition perr_class (e : ecode) : bytes :=
  match e with
  | ImpossibleSecondsRelativeConstraints | ImpossibleHeightRelativeConstraints
  | ImpossibleHeightAbsoluteConstraints | ImpossibleSecondsAbsoluteConstraints => str "P-ERR:IMPOSSIBLE"
  | EphemeralRelativeCondition => str "P-ERR:EPHREL"
  | _ => str "P-ERR"
  end.

Definition render_spend_locks (s : spend) : bytes :=
  join semi [ to_hex (sp_coin_id s); opt_dec (sp_height_relative s); opt_dec (sp_seconds_relative s);
              opt_dec (sp_before_height_relative s); opt_dec (sp_before_seconds_relative s);
              opt_dec (sp_birth_height s); opt_dec (sp_birth_seconds s) ].

Definition render_locks (b : bundle) (spends : list spend) : bytes :=
  join [sp]
    [ kv "ha" (to_dec (b_height_absolute b)); kv "sa" (to_dec (b_seconds_absolute b));
      kv "bha" (opt_dec (b_before_height_absolute b)); kv "bsa" (opt_dec (b_before_seconds_absolute b));
      kv "spends" (match spends with [] => [x2d] | _ => join [x7c] (map render_spend_locks spends) end) ].

(* locks.check FLAGS VISITOR NOWRAP H T TREE NRECS (ID CBI TS)*
   -> "P-ERR[:class]" | "L-OK <summary>" | "L-ERR <summary>" *)
Definition h_check (args : list bytes) : bytes :=
  let fl := flags_of_bits (dec (arg 0 args)) in
  let V := if dec (arg 1 args) =? 1 then VMempool else VEmpty in
  let nowrap := dec (arg 2 args) =? 1 in
  let h := dec (arg 3 args) in
  let t := dec (arg 4 args) in
  let recs := recs_of_list (recs_of_args (N.to_nat (dec (arg 6 args))) (skipn 7 args)) in
  match node_from_bytes (hx (arg 5 args)) with
  | None => str "ERR-DESER"
  | Some tree =>
      match parse_spends (fun _ => false) sha256 no_consts fl V tree 11000000000 0 with
      | Err e => perr_class e
      | Ok (b, spends, _) =>
          match check_time_locks recs b spends h t nowrap with
          | Ok _ => str "L-OK " ++ render_locks b spends
          | Err _ => str "L-ERR " ++ render_locks b spends
          end
      end
  end.

(* locks.code ... : same arguments, the error code of either stage (information only) *)
Definition h_code (args : list bytes) : bytes :=
  let fl := flags_of_bits (dec (arg 0 args)) in
  let V := if dec (arg 1 args) =? 1 then VMempool else VEmpty in
  let nowrap := dec (arg 2 args) =? 1 in
  let h := dec (arg 3 args) in
  let t := dec (arg 4 args) in
  let recs := recs_of_list (recs_of_args (N.to_nat (dec (arg 6 args))) (skipn 7 args)) in
  match node_from_bytes (hx (arg 5 args)) with
  | None => str "ERR-DESER"
  | Some tree =>
      match parse_spends (fun _ => false) sha256 no_consts fl V tree 11000000000 0 with
      | Err e => str "P " ++ ecode_name e
      | Ok (b, spends, _) =>
          match check_time_locks recs b spends h t nowrap with
          | Ok _ => str "L OK"
          | Err e => str "L " ++ ecode_name e
          end
      end
  end.

Definition locks_handlers : list (bytes * handler) :=
  [ (str "locks.check", h_check); (str "locks.code", h_code) ].

Definition dispatch_n (line : list N) : list N :=
  map b2n (dispatch_table locks_handlers (map n2b line)).
