(* Run/MsetRun.v — executable rendering of the Merkle set model (stream `mset`, property C12),
   instantiated with the Gallina SHA-256. *)
From Coq Require Import String.
From ChiaV.Base Require Import Bytes Sha256.
From ChiaV.Gen Require Import Mset.
From ChiaV.Merkle Require Import MerkleSpec MerkleSet MerkleTree.
From ChiaV.Run Require Import RunBase.
Open Scope N_scope.

(* a line is PANIC / FUEL as a whole if any part panics / runs out of fuel (the implementation
   side catches a panic per line); Err(SetError) is an ordinary value rendered as E *)
Inductive part := PV (b : bytes) | PPanic | PFuel.

Definition part_of {A} (r : A -> bytes) (o : outcome A) : part :=
  match o with Ok a => PV (r a) | Err => PV (str "E") | Panic => PPanic | OutOfFuel => PFuel end.

Fixpoint render (ps : list part) (acc : list bytes) : bytes :=
  match ps with
  | [] => words (fast_rev acc)
  | PV b :: r => render r (b :: acc)
  | PPanic :: _ => str "PANIC"
  | PFuel :: _ => str "FUEL"
  end.

Definition colon : bytes := str ":".

Definition proof_o (r : bool * bytes) : bytes := boolo (fst r) ++ colon ++ hexo (snd r).

(* set NQ item*NQ leaf* : both root computations, then per item the generated proof and its validation *)
Definition h_set (args : list bytes) : bytes :=
  let nq := N.to_nat (dec (arg 0 args)) in
  let items := map hx (firstn nq (skipn 1 args)) in
  let leafs := map hx (skipn (S nq) args) in
  let root := compute_merkle_set_root sha256 leafs in
  let tree := from_leafs sha256 leafs in
  let root2 := match tree with Ok t => get_root sha256 t | Err => Err | Panic => Panic | OutOfFuel => OutOfFuel end in
  let per_item (x : bytes) : list part :=
    match tree, root with
    | Ok t, Ok r =>
        let g := generate_proof t x in
        [ part_of proof_o g;
          match g with
          | Ok (_, p) => part_of boolo (validate_merkle_proof sha256 p x r)
          | _ => PV (str "-")
          end ]
    | _, _ => [PV (str "-")]
    end in
  render (part_of hexo root :: part_of hexo root2 :: flat_map per_item items) [].

(* validate PROOF ITEM ROOT : validate_merkle_proof *)
Definition h_validate (args : list bytes) : bytes :=
  render [part_of boolo (validate_merkle_proof sha256 (hx (arg 0 args)) (hx (arg 1 args)) (hx (arg 2 args)))] [].

(* fromproof PROOF ITEM : MerkleSet::from_proof, get_root, generate_proof on the resulting tree *)
Definition h_fromproof (args : list bytes) : bytes :=
  match from_proof sha256 (hx (arg 0 args)) with
  | Ok t => render [part_of hexo (get_root sha256 t); part_of proof_o (generate_proof t (hx (arg 1 args)))] []
  | o => render [part_of (fun _ : merkle_set => []) o] []
  end.

Definition mset_handlers : list (bytes * handler) :=
  [ (str "mset.set", h_set); (str "mset.validate", h_validate); (str "mset.fromproof", h_fromproof) ].

Definition dispatch_n (line : list N) : list N :=
  map b2n (dispatch_table mset_handlers (map n2b line)).
