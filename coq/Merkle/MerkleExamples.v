(* Merkle/MerkleExamples.v — closed instances checked by the kernel's VM with the executable SHA-256:
   the hypotheses of the C12 theorems are satisfiable and the conclusions are not vacuous. *)
From ChiaV.Base Require Import Bytes Sha256.
From ChiaV.Gen Require Import Mset.
From ChiaV.Merkle Require Import MerkleSpec MerkleSet MerkleTree.
Open Scope N_scope.

Definition ex_a : bytes := repeat_byte 32 x11.                  (* 0001 0001 ... *)
Definition ex_b : bytes := x10 :: repeat_byte 31 x00.           (* shares 7 bits with ex_a *)
Definition ex_c : bytes := repeat_byte 32 x91.                  (* first bit 1 *)
Definition ex_x : bytes := x10 :: repeat_byte 31 xff.           (* not a member *)
Definition ex_set : list bytes := [ex_c; ex_a; ex_b; ex_a].

Definition ex_run (item : bytes) : option (bool * bool) :=
  match from_leafs sha256 ex_set, compute_merkle_set_root sha256 ex_set with
  | Ok t, Ok root =>
      match generate_proof t item with
      | Ok (incl, proof) =>
          match validate_merkle_proof sha256 proof item root with
          | Ok b => Some (incl, b)
          | _ => None
          end
      | _ => None
      end
  | _, _ => None
  end.

(* a member: the generated proof validates and states inclusion; a non-member: exclusion *)
Lemma example_member : ex_run ex_a = Some (true, true).
Proof. vm_compute. reflexivity. Qed.

Lemma example_non_member : ex_run ex_x = Some (false, false).
Proof. vm_compute. reflexivity. Qed.

Lemma example_leaves : Forall leaf32 (ex_x :: ex_set).
Proof. repeat constructor. Qed.

(* the root does not depend on order / duplicates (instance), and both computations agree *)
Lemma example_roots :
  compute_merkle_set_root sha256 ex_set = compute_merkle_set_root sha256 [ex_a; ex_b; ex_c] /\
  (match from_leafs sha256 ex_set with Ok t => get_root sha256 t | _ => Err end) = compute_merkle_set_root sha256 ex_set.
Proof. vm_compute. split; reflexivity. Qed.
