(* Merkle/MerkleTreeProofs.v — proofs about merkle_tree.rs, part 1: node vectors denote trees;
   generate_merkle_tree_recurse builds the tree of the set and returns the trie summary
   (theorem 2: get_root (from_leafs l) = compute_merkle_set_root l); generate_proof_impl on a
   node vector is the tree-level s_proof. *)
From Coq Require Import ZifyBool ZifyNat ZifyN.
From ChiaV.Base Require Import Bytes.
From ChiaV.Gen Require Import Mset.
From ChiaV.Merkle Require Import MerkleSpec MerkleSet MerkleTree MerkleSetProofs MerkleProofSpec.
Open Scope N_scope.
Ltac Zify.zify_post_hook ::= Z.div_mod_to_equations.


(* ---------- node vectors ---------- *)
Lemma nlength_app {A} (a b : list A) : nlength (a ++ b) = nlength a + nlength b.
Proof. unfold nlength. rewrite app_length. lia. Qed.

Lemma nlength_one {A} (x : A) : nlength [x] = 1.
Proof. reflexivity. Qed.

Lemma node_at_app_l nv m i x : node_at nv i = Some x -> node_at (nv ++ m) i = Some x.
Proof.
  unfold node_at. intros E. rewrite nth_error_app1; [exact E|]. apply nth_error_Some. congruence.
Qed.

Lemma node_at_last nv x : node_at (nv ++ [x]) (nlength nv) = Some x.
Proof.
  unfold node_at, nlength. rewrite Nat2N.id, nth_error_app2 by lia. now rewrite Nat.sub_diag.
Qed.

Lemma node_at_last' nv x i : i = nlength nv -> node_at (nv ++ [x]) i = Some x.
Proof. intros ->. apply node_at_last. Qed.

Lemma rep_app nv m i t : rep nv i t -> rep (nv ++ m) i t.
Proof.
  induction 1.
  - apply rep_leaf. now apply node_at_app_l.
  - apply rep_empty. now apply node_at_app_l.
  - apply rep_trunc. now apply node_at_app_l.
  - eapply rep_mid; [apply node_at_app_l; eassumption|assumption|assumption|assumption|assumption].
Qed.

Lemma last_map_some {A} (l : list A) x : last (map Some (l ++ [x])) None = Some x.
Proof.
  rewrite map_app. cbn [map]. induction (map Some l) as [|a r IH]; [reflexivity|].
  cbn [app]. destruct (r ++ [Some x]) eqn:E; [destruct r; discriminate|]. exact IH.
Qed.

Section WithH.
  Variable H : bytes -> bytes.
  Notation trie := (trie H).
  Notation build := (build H).
  Notation sjoin := (sjoin H).
  Notation gen_tree := (gen_tree H).

  (* ---------- the built tree summarises to the trie ---------- *)
  Definition top_ok (t : stree) : Prop :=
    match t with SLeaf _ | SMid _ _ _ => True | _ => False end.

  Lemma sjoin_top z o t : (forall a, z = Some a -> top_ok a) -> (forall a, o = Some a -> top_ok a) ->
    sjoin z o = Some t -> top_ok t.
  Proof.
    intros Hz Ho. destruct z as [a|], o as [b|]; cbn.
    - intros [= <-]. exact I.
    - destruct (node_type_eqb (stype a) NtMid); intros [= <-]; [exact I|now apply Hz].
    - destruct (node_type_eqb (stype b) NtMid); intros [= <-]; [exact I|now apply Ho].
    - discriminate.
  Qed.

  Lemma build_top k : forall d l t, build k d l = Some t -> top_ok t.
  Proof.
    induction k as [|k IH]; intros d l t; destruct l as [|x r]; cbn [MerkleProofSpec.build]; try discriminate.
    - intros [= <-]. exact I.
    - apply sjoin_top; intros a Ea; eapply IH; eauto.
  Qed.

  Lemma top_type t : top_ok t -> stype t <> NtEmpty.
  Proof. destruct t as [x|h|h|h [] []]; cbn; intros; try discriminate; contradiction. Qed.

  Lemma sjoin_sum z o : (forall a, z = Some a -> top_ok a) -> (forall a, o = Some a -> top_ok a) ->
    osum (sjoin z o) = combine H (osum z) (osum o).
  Proof.
    intros Hz Ho. destruct z as [a|], o as [b|]; cbn [MerkleProofSpec.sjoin osum].
    - specialize (Hz a eq_refl). specialize (Ho b eq_refl).
      destruct a as [x|h|h|h la ra], b as [y|g|g|g lb rb]; try contradiction; cbn; try reflexivity.
      + destruct lb, rb; reflexivity.
      + destruct la, ra; reflexivity.
      + destruct la, ra, lb, rb; reflexivity.
    - specialize (Hz a eq_refl).
      destruct a as [x|h|h|h [] []]; try contradiction; reflexivity.
    - specialize (Ho b eq_refl).
      destruct b as [x|h|h|h [] []]; try contradiction; reflexivity.
    - reflexivity.
  Qed.

  Lemma build_sum k : forall d l, osum (build k d l) = trie k d l.
  Proof.
    induction k as [|k IH]; intros d l; destruct l as [|x r]; cbn [MerkleProofSpec.build MerkleSpec.trie]; try reflexivity.
    rewrite sjoin_sum, !IH; [reflexivity| |]; intros a Ea; eapply build_top; eauto.
  Qed.

  Lemma build_ext k : forall d l l', d + N.of_nat k = 256 ->
    Forall leaf32 l -> agree d l -> same_set l l' -> build k d l = build k d l'.
  Proof.
    induction k as [|k IH]; intros d l l' Hd F A E.
    - destruct l as [|x r].
      + apply same_set_nil in E. now subst.
      + destruct l' as [|y r']; [apply same_set_sym, same_set_nil in E; discriminate|].
        cbn [MerkleProofSpec.build]. f_equal. f_equal.
        replace d with 256 in A by lia.
        apply (agree_all_eq _ F A); [now left|]. apply E. now left.
    - destruct l as [|x r].
      + apply same_set_nil in E. now subst.
      + destruct l' as [|y r']; [apply same_set_sym, same_set_nil in E; discriminate|].
        cbn [MerkleProofSpec.build]. f_equal.
        * apply IH; [lia|now apply Forall_filter|now apply agree_filter0|now apply same_set_filter].
        * apply IH; [lia|now apply Forall_filter|now apply agree_filter1|now apply same_set_filter].
  Qed.

  Lemma build_nil k d : build k d [] = None.
  Proof. destruct k; reflexivity. Qed.

  Lemma build_some k d l : l <> [] -> exists t, build k d l = Some t.
  Proof.
    intros Hl. pose proof (build_sum k d l) as E. pose proof (trie_nonempty H k d l Hl) as NE.
    destruct (build k d l) as [t|]; [eauto|]. cbn in E. rewrite <- E in NE. now cbn in NE.
  Qed.

  Lemma build_step k d l : l <> [] ->
    build (S k) d l = sjoin (build k (d + 1) (filter (bit0 d) l)) (build k (d + 1) (filter (bit1 d) l)).
  Proof. destruct l; [congruence|reflexivity]. Qed.

  Lemma build_zero d l : l <> [] -> build 0 d l = Some (SLeaf (nth 0 l [])).
  Proof. destruct l; [congruence|reflexivity]. Qed.

  Lemma build_singleton k d x : build k d [x] = Some (SLeaf x).
  Proof.
    revert d; induction k as [|k IH]; intros d; [reflexivity|].
    cbn [MerkleProofSpec.build filter]. unfold bit0, bit1. destruct (get_bit x d); cbn [negb]; rewrite IH, build_nil; reflexivity.
  Qed.
End WithH.


Section WithH.
  Variable H : bytes -> bytes.
  Notation trie := (trie H).
  Notation build := (build H).
  Notation sjoin := (sjoin H).
  Notation gen_tree := (gen_tree H).

  (* result of generate_merkle_tree_recurse: nodes are appended, the last one is the root of the
     sub-tree, and it denotes [t] *)
  Definition built (nv : nodes) (t : stree) (res : outcome (nodes * (bytes * node_type))) : Prop :=
    exists new0 n, res = Ok ((nv ++ new0) ++ [n], ssum t) /\ rep ((nv ++ new0) ++ [n]) (nlength (nv ++ new0)) t.

  Lemma stype_term_leaf t : top_ok t -> (node_type_eqb (stype t) NtTerm = true <-> exists x, t = SLeaf x).
  Proof.
    destruct t as [x|h|h|h [] []]; cbn; intros T; try contradiction; split; intros E; try discriminate; eauto;
      destruct E as [y E]; discriminate.
  Qed.

  Lemma gen_tree_spec : forall fuel k d range nv,
    d + N.of_nat k = 256 -> (1 <= k)%nat -> (k <= fuel)%nat ->
    range <> [] -> Forall leaf32 range -> agree d range ->
    exists t, build k d range = Some t /\ built nv t (gen_tree fuel nv range d).
  Proof.
    induction fuel as [|f IH]; intros k d range nv Hd Hk Hf Hne F A; [lia|].
    destruct k as [|k']; [lia|].
    cbn [MerkleTree.gen_tree].
    destruct range as [|x [|y r]]; [congruence| |].
    { exists (SLeaf x). split; [apply build_singleton|]. exists [], (ALeaf, x). rewrite app_nil_r.
      split; [reflexivity|]. apply rep_leaf. apply node_at_last. }
    set (range := x :: y :: r) in *.
    destruct (partition_split d range) as (range' & lft & rgt & EP & PS). rewrite EP.
    destruct PS as [HL HS Hl Hr SZ SO LZ LO].
    assert (Hlen : (2 <= length range)%nat) by (unfold range; cbn; lia).
    assert (Hne' : range' <> []) by (apply length_nonempty; lia).
    assert (F' : Forall leaf32 range') by (apply (Forall_same_set _ range); [now apply same_set_sym|assumption]).
    rewrite (build_step H k' d range Hne).
    set (zs := filter (bit0 d) range) in *. set (os := filter (bit1 d) range) in *.
    assert (Fz : Forall leaf32 zs) by now apply Forall_filter.
    assert (Fo : Forall leaf32 os) by now apply Forall_filter.
    assert (Az : agree (d + 1) zs) by now apply agree_filter0.
    assert (Ao : agree (d + 1) os) by now apply agree_filter1.
    destruct (Z.eqb_spec lft 0) as [L0|L0]; [|destruct (Z.eqb_spec rgt (Z.of_nat (length range) - 1)) as [R0|R0]]; cbn [orb].
    - (* left bucket empty *)
      assert (Ez : zs = []) by (apply same_set_nil; rewrite L0 in SZ; exact SZ).
      assert (So : same_set range' os) by (rewrite L0 in SO; exact SO).
      assert (Hos : os <> []) by (apply (same_set_nonempty range'); assumption).
      rewrite Ez, build_nil.
      destruct (N.eqb_spec d last_depth) as [D|D].
      + unfold last_depth in D. assert (k' = 0%nat) by lia. subst k'.
        rewrite (build_zero H _ os Hos). cbn [MerkleProofSpec.sjoin stype node_type_eqb node_type_u8].
        replace (1 =? 2) with false by reflexivity.
        assert (E0 : nth 0 range' [] = nth 0 os []).
        { replace (d + 1) with 256 in Ao by lia. apply (agree_all_eq os Fo Ao); [|now apply nth0_in].
          apply So. now apply nth0_in. }
        rewrite E0. eexists. split; [reflexivity|]. exists [], (ALeaf, nth 0 os []). rewrite app_nil_r.
        split; [reflexivity|]. apply rep_leaf, node_at_last.
      + unfold last_depth in D.
        assert (Ar : agree (d + 1) range') by (apply (agree_same_set _ os); [now apply same_set_sym|assumption]).
        destruct (IH k' (d + 1) range' nv) as (t' & Bt & new0 & n & G & R); try lia; try assumption.
        rewrite (build_ext H k' (d + 1) range' os) in Bt; try lia; try assumption.
        rewrite G, Bt. cbn [MerkleProofSpec.sjoin ssum].
        pose proof (build_top H _ _ _ _ Bt) as T.
        destruct (node_type_eqb (stype t') NtMid) eqn:EM.
        * assert (ET : stype t' = NtMid) by (destruct (stype t'); try discriminate; reflexivity).
          eexists. split; [reflexivity|].
          set (nv1 := (nv ++ new0) ++ [n]) in *.
          exists (new0 ++ [n; (AEmpty, EMPTY_NODE_HASH)]), (AMiddle (nlength (nv1 ++ [(AEmpty, EMPTY_NODE_HASH)]) - 1) (nlength (nv1 ++ [(AEmpty, EMPTY_NODE_HASH)]) - 2), node_hash H NtEmpty NtMid BLANK (shash t')).
          replace (nv ++ new0 ++ [n; (AEmpty, EMPTY_NODE_HASH)]) with (nv1 ++ [(AEmpty, EMPTY_NODE_HASH)])
            by (unfold nv1; rewrite <- !app_assoc; reflexivity).
          rewrite ET. split; [reflexivity|].
          eapply rep_mid; [apply node_at_last|unfold nv1; rewrite !nlength_app, !nlength_one; lia|unfold nv1; rewrite !nlength_app, !nlength_one; lia| |].
          -- apply rep_app. apply rep_empty. apply node_at_last'. rewrite nlength_app, nlength_one. lia.
          -- apply rep_app, rep_app.
             replace (nlength (nv1 ++ [(AEmpty, EMPTY_NODE_HASH)]) - 2) with (nlength (nv ++ new0)); [exact R|].
             unfold nv1. rewrite !nlength_app, !nlength_one. lia.
        * exists t'. split; [reflexivity|]. exists new0, n. split; [reflexivity|exact R].
    - (* right bucket empty *)
      assert (Ll : Z.to_nat lft = length range') by lia.
      assert (Eo : os = []) by (apply same_set_nil; rewrite Ll, skipn_all in SO; exact SO).
      assert (Sz : same_set range' zs) by (rewrite Ll, firstn_all in SZ; exact SZ).
      assert (Hzs : zs <> []) by (apply (same_set_nonempty range'); assumption).
      rewrite Eo, build_nil.
      destruct (N.eqb_spec d last_depth) as [D|D].
      + unfold last_depth in D. assert (k' = 0%nat) by lia. subst k'.
        rewrite (build_zero H _ zs Hzs). cbn [MerkleProofSpec.sjoin stype node_type_eqb node_type_u8].
        replace (1 =? 2) with false by reflexivity.
        assert (E0 : nth 0 range' [] = nth 0 zs []).
        { replace (d + 1) with 256 in Az by lia. apply (agree_all_eq zs Fz Az); [|now apply nth0_in].
          apply Sz. now apply nth0_in. }
        rewrite E0. eexists. split; [reflexivity|]. exists [], (ALeaf, nth 0 zs []). rewrite app_nil_r.
        split; [reflexivity|]. apply rep_leaf, node_at_last.
      + unfold last_depth in D.
        assert (Ar : agree (d + 1) range') by (apply (agree_same_set _ zs); [now apply same_set_sym|assumption]).
        destruct (IH k' (d + 1) range' nv) as (t' & Bt & new0 & n & G & R); try lia; try assumption.
        rewrite (build_ext H k' (d + 1) range' zs) in Bt; try lia; try assumption.
        rewrite G, Bt. cbn [MerkleProofSpec.sjoin ssum].
        pose proof (build_top H _ _ _ _ Bt) as T.
        destruct (node_type_eqb (stype t') NtMid) eqn:EM.
        * assert (ET : stype t' = NtMid) by (destruct (stype t'); try discriminate; reflexivity).
          eexists. split; [reflexivity|].
          set (nv1 := (nv ++ new0) ++ [n]) in *.
          exists (new0 ++ [n; (AEmpty, EMPTY_NODE_HASH)]), (AMiddle (nlength (nv1 ++ [(AEmpty, EMPTY_NODE_HASH)]) - 2) (nlength (nv1 ++ [(AEmpty, EMPTY_NODE_HASH)]) - 1), node_hash H NtMid NtEmpty (shash t') BLANK).
          replace (nv ++ new0 ++ [n; (AEmpty, EMPTY_NODE_HASH)]) with (nv1 ++ [(AEmpty, EMPTY_NODE_HASH)])
            by (unfold nv1; rewrite <- !app_assoc; reflexivity).
          rewrite ET. split; [unfold ssum; cbn [shash]; destruct t'; reflexivity|].
          eapply rep_mid; [apply node_at_last|unfold nv1; rewrite !nlength_app, !nlength_one; lia|unfold nv1; rewrite !nlength_app, !nlength_one; lia| |].
          -- apply rep_app, rep_app.
             replace (nlength (nv1 ++ [(AEmpty, EMPTY_NODE_HASH)]) - 2) with (nlength (nv ++ new0)); [exact R|].
             unfold nv1. rewrite !nlength_app, !nlength_one. lia.
          -- apply rep_app. apply rep_empty. apply node_at_last'. rewrite nlength_app, nlength_one. lia.
        * exists t'. split; [reflexivity|]. exists new0, n. split; [reflexivity|exact R].
    - (* both buckets non-empty *)
      set (m := Z.to_nat lft) in *.
      assert (Hm : (0 < m < length range)%nat) by lia.
      assert (Hfz : firstn m range' <> []) by (apply length_nonempty; lia).
      assert (Hfo : skipn m range' <> []) by (apply length_nonempty; lia).
      assert (Hzs : zs <> []) by (apply (same_set_nonempty (firstn m range')); assumption).
      assert (Hos : os <> []) by (apply (same_set_nonempty (skipn m range')); assumption).
      destruct (N.eqb_spec d last_depth) as [D|D].
      + unfold last_depth in D. assert (k' = 0%nat) by lia. subst k'.
        rewrite (build_zero H _ zs Hzs), (build_zero H _ os Hos). cbn [MerkleProofSpec.sjoin stype shash].
        replace (d + 1) with 256 in Az, Ao by lia.
        assert (E0 : nth 0 range' [] = nth 0 zs []).
        { apply (agree_all_eq zs Fz Az); [|now apply nth0_in].
          apply SZ. rewrite <- (nth0_firstn range' m) by lia. now apply nth0_in. }
        assert (E1 : nth m range' [] = nth 0 os []).
        { apply (agree_all_eq os Fo Ao); [|now apply nth0_in].
          apply SO. rewrite nth_skipn_hd. now apply nth0_in. }
        rewrite E0, E1. eexists. split; [reflexivity|].
        set (l0 := nth 0 zs []). set (l1 := nth 0 os []).
        set (nv2 := (nv ++ [(ALeaf, l0)]) ++ [(ALeaf, l1)]).
        exists [(ALeaf, l0); (ALeaf, l1)], (AMiddle (nlength nv2 - 2) (nlength nv2 - 1), node_hash H NtTerm NtTerm l0 l1).
        replace (nv ++ [(ALeaf, l0); (ALeaf, l1)]) with nv2 by (unfold nv2; rewrite <- app_assoc; reflexivity).
        split; [reflexivity|].
        eapply rep_mid; [apply node_at_last|unfold nv2; rewrite !nlength_app, !nlength_one; lia|unfold nv2; rewrite !nlength_app, !nlength_one; lia| |].
        * apply rep_app. unfold nv2. apply rep_app. apply rep_leaf. apply node_at_last'.
          rewrite !nlength_app, !nlength_one. lia.
        * apply rep_app. apply rep_leaf. unfold nv2. apply node_at_last'.
          rewrite !nlength_app, !nlength_one. lia.
      + unfold last_depth in D.
        assert (Ffz : Forall leaf32 (firstn m range')) by (apply (Forall_same_set _ zs); [now apply same_set_sym|assumption]).
        assert (Ffo : Forall leaf32 (skipn m range')) by (apply (Forall_same_set _ os); [now apply same_set_sym|assumption]).
        assert (Afz : agree (d + 1) (firstn m range')) by (apply (agree_same_set _ zs); [now apply same_set_sym|assumption]).
        assert (Afo : agree (d + 1) (skipn m range')) by (apply (agree_same_set _ os); [now apply same_set_sym|assumption]).
        destruct (IH k' (d + 1) (firstn m range') nv) as (t1 & B1 & a0 & an & G1 & R1); try lia; try assumption.
        rewrite (build_ext H k' (d + 1) (firstn m range') zs) in B1; try lia; try assumption.
        rewrite G1. cbn [ssum].
        set (nv1 := (nv ++ a0) ++ [an]) in *.
        destruct (IH k' (d + 1) (skipn m range') nv1) as (t2 & B2 & b0 & bn & G2 & R2); try lia; try assumption.
        rewrite (build_ext H k' (d + 1) (skipn m range') os) in B2; try lia; try assumption.
        rewrite G2, B1, B2. cbn [ssum MerkleProofSpec.sjoin].
        set (nv2 := (nv1 ++ b0) ++ [bn]) in *.
        pose proof (build_top H _ _ _ _ B1) as T1. pose proof (build_top H _ _ _ _ B2) as T2.
        eexists. split; [reflexivity|].
        exists (a0 ++ [an] ++ b0 ++ [bn]), (AMiddle (nlength nv1 - 1) (nlength nv2 - 1), node_hash H (stype t1) (stype t2) (shash t1) (shash t2)).
        replace (nv ++ a0 ++ [an] ++ b0 ++ [bn]) with nv2
          by (unfold nv2, nv1; rewrite <- !app_assoc; reflexivity).
        split.
        * f_equal. f_equal. unfold ssum. cbn [shash]. f_equal.
          destruct t1 as [x1|?|?|h1 [] []], t2 as [x2|?|?|h2 [] []]; try contradiction; reflexivity.
        * eapply rep_mid; [apply node_at_last|unfold nv2, nv1; rewrite !nlength_app, !nlength_one; lia|unfold nv2, nv1; rewrite !nlength_app, !nlength_one; lia| |].
          -- apply rep_app. unfold nv2. apply rep_app, rep_app.
             replace (nlength nv1 - 1) with (nlength (nv ++ a0)); [exact R1|].
             unfold nv1. rewrite !nlength_app, !nlength_one. lia.
          -- apply rep_app.
             replace (nlength nv2 - 1) with (nlength (nv1 ++ b0)); [exact R2|].
             unfold nv2. rewrite !nlength_app, !nlength_one. lia.
  Qed.
End WithH.


(* ---------- generate_proof_impl on a node vector = s_proof on the denoted tree ---------- *)
Lemma rep_node nv i t : rep nv i t ->
  exists a, node_at nv i = Some (a, shash t) /\
    match t with
    | SLeaf _ => a = ALeaf | SEmpty _ => a = AEmpty | STrunc _ => a = ATruncated
    | SMid _ _ _ => exists l r, a = AMiddle l r
    end.
Proof. destruct 1; eexists; (split; [eassumption|]); eauto. Qed.

Lemma other_included_rep nv i t : rep nv i t -> other_included nv i = Ok (s_other t).
Proof. unfold other_included. destruct 1 as [i x E|i h E|i h E|i l r h tl tr E _ _ _ _]; rewrite E; reflexivity. Qed.

Lemma gen_proof_rep nv i t : rep nv i t -> forall fuel leaf depth, (sheight t < fuel)%nat ->
  gen_proof_impl fuel nv i leaf depth = s_proof t leaf depth.
Proof.
  induction 1 as [i x E|i h E|i h E|i l r h tl tr E Li Ri Rl IHl Rr IHr]; intros fuel leaf depth Hf;
    (destruct fuel as [|f]; [lia|]); cbn [gen_proof_impl]; rewrite E; try reflexivity.
  cbn [sheight] in Hf.
  destruct (rep_node _ _ _ Rl) as (al & El & Sl). destruct (rep_node _ _ _ Rr) as (ar & Er & Sr).
  rewrite El, Er.
  rewrite (other_included_rep _ _ _ Rl), (other_included_rep _ _ _ Rr).
  rewrite (IHl f leaf (u8_succ depth)) by lia. rewrite (IHr f leaf (u8_succ depth)) by lia.
  cbn [s_proof].
  destruct tl as [lx|lh|lh|lh ll lr], tr as [rx|rh|rh|rh rl rr]; cbn in Sl, Sr;
    try (destruct Sl as (? & ? & Sl)); try (destruct Sr as (? & ? & Sr)); subst al ar; cbn [shash];
    try reflexivity;
    (destruct (get_bit leaf depth); [reflexivity|]); destruct (s_proof _ _ _) as [[b p]| | |]; reflexivity.
Qed.


Lemma rep_height nv i t : rep nv i t -> N.of_nat (sheight t) <= i.
Proof. induction 1; cbn [sheight]; lia. Qed.

Lemma rep_in_range nv i t : rep nv i t -> i < nlength nv.
Proof.
  intros R. destruct (rep_node _ _ _ R) as (a & E & _). unfold node_at in E.
  assert (N.to_nat i < length nv)%nat by (apply nth_error_Some; congruence). unfold nlength. lia.
Qed.

Section WithH.
  Variable H : bytes -> bytes.

  Lemma get_root_rep nv0 n t fp : rep (nv0 ++ [n]) (nlength nv0) t ->
    get_root H (MkSet (nv0 ++ [n]) fp) = Ok (sroot H t).
  Proof.
    intros R. unfold get_root. cbn [nodes_vec]. rewrite last_map_some.
    destruct (rep_node _ _ _ R) as (a & E & S). rewrite node_at_last in E. injection E as ->.
    destruct t; cbn in S; try (destruct S as (? & ? & S)); subst a; reflexivity.
  Qed.

  Lemma generate_proof_nonempty (t : merkle_set) leaf : nodes_vec t <> [] ->
    generate_proof t leaf =
      match gen_proof_impl (S (length (nodes_vec t))) (nodes_vec t) (nlength (nodes_vec t) - 1) leaf 0 with
      | Ok (included, proof) => if from_proof_flag t then Ok (included, []) else Ok (included, proof)
      | e => e
      end.
  Proof. unfold generate_proof. destruct (nodes_vec t); [congruence|reflexivity]. Qed.

  Lemma generate_proof_rep nv0 n t fp leaf : rep (nv0 ++ [n]) (nlength nv0) t ->
    generate_proof (MkSet (nv0 ++ [n]) fp) leaf =
      match s_proof t leaf 0 with
      | Ok (b, p) => if fp then Ok (b, []) else Ok (b, p)
      | e => e
      end.
  Proof.
    intros R. rewrite generate_proof_nonempty by (cbn; destruct nv0; discriminate).
    cbn [nodes_vec from_proof_flag].
    replace (nlength (nv0 ++ [n]) - 1) with (nlength nv0) by (rewrite nlength_app, nlength_one; lia).
    rewrite (gen_proof_rep _ _ _ R).
    - destruct (s_proof t leaf 0) as [[b p]| | |]; reflexivity.
    - pose proof (rep_height _ _ _ R). rewrite app_length. cbn [length]. unfold nlength in *. lia.
  Qed.

  (* the tree from_leafs builds *)
  Lemma from_leafs_spec l : Forall leaf32 l ->
    exists nv0 n, from_leafs H l = Ok (MkSet (nv0 ++ [n]) false) /\ rep (nv0 ++ [n]) (nlength nv0) (leafs_tree H l).
  Proof.
    intros F. unfold from_leafs, leafs_tree. destruct l as [|x r].
    - exists [], (AEmpty, BLANK). split; [reflexivity|]. apply rep_empty. reflexivity.
    - destruct (gen_tree_spec H 256 256 0 (x :: r) []) as (t & B & new0 & n & G & R); try lia; try assumption; try discriminate.
      { intros a b _ _ i Hi. lia. }
      rewrite G, B. exists ([] ++ new0), n. split; [reflexivity|exact R].
  Qed.

  Lemma sroot_leafs_tree l : sroot H (leafs_tree H l) = spec_root H l.
  Proof.
    unfold leafs_tree, spec_root. rewrite <- build_sum.
    destruct (build H 256 0 l) as [t|] eqn:B; [|reflexivity].
    pose proof (build_top H _ _ _ _ B) as T.
    destruct t as [x|h|h|h [] []]; try contradiction; reflexivity.
  Qed.

  (* (2) both root computations agree *)
  Lemma from_leafs_root l : Forall leaf32 l ->
    exists t, from_leafs H l = Ok t /\ get_root H t = compute_merkle_set_root H l.
  Proof.
    intros F. destruct (from_leafs_spec l F) as (nv0 & n & E & R).
    eexists. split; [exact E|]. rewrite (get_root_rep _ _ _ _ R), sroot_leafs_tree.
    symmetry. now apply compute_root_spec.
  Qed.
End WithH.
