(* Merkle/MerkleDepth.v — overflow-CHECKED variants of the proof generator: the same functions as in
   MerkleTree.v, except that `depth + 1` on u8 is the debug-build operation (panic on overflow) instead
   of the release-build wrap-around.  Used to state that the u8 depth arithmetic never overflows on the
   paths reachable from honest proof generation.  Definitions only. *)
From ChiaV.Base Require Import Bytes.
From ChiaV.Gen Require Import Mset.
From ChiaV.Merkle Require Import MerkleSpec MerkleSet MerkleTree MerkleProofSpec.
Open Scope N_scope.

(* u8 `depth + 1` with overflow checks: None = "attempt to add with overflow" *)
Definition u8_succ_chk (d : N) : option N := if d =? 255 then None else Some (d + 1).

Fixpoint pad_middles_chk (fuel : nat) (lft rgt : bytes) (depth : N) : outcome bytes :=
  match fuel with
  | O => OutOfFuel
  | S f =>
      let left_bit := get_bit lft depth in
      let right_bit := get_bit rgt depth in
      if negb (Bool.eqb left_bit right_bit) then
        Ok ([tagb TAG_MIDDLE] ++ [tagb TAG_TERMINAL] ++ lft ++ [tagb TAG_TERMINAL] ++ rgt)
      else
        match u8_succ_chk depth with
        | None => Panic
        | Some d' =>
            match pad_middles_chk f lft rgt d' with
            | Ok p => if left_bit then Ok ([tagb TAG_MIDDLE] ++ [tagb TAG_EMPTY] ++ p)
                      else Ok ([tagb TAG_MIDDLE] ++ p ++ [tagb TAG_EMPTY])
            | e => e
            end
        end
  end.

Fixpoint gen_proof_impl_chk (fuel : nat) (nv : nodes) (idx : N) (leaf : bytes) (depth : N)
  : outcome (bool * bytes) :=
  match fuel with
  | O => OutOfFuel
  | S f =>
      match node_at nv idx with
      | None => Panic
      | Some (AEmpty, _) => Ok (false, [tagb TAG_EMPTY])
      | Some (ALeaf, h) => Ok (bytes_eqb h leaf, tagb TAG_TERMINAL :: h)
      | Some (ATruncated, _) => Err
      | Some (AMiddle lft rgt, _) =>
          match node_at nv lft, node_at nv rgt with
          | None, _ | _, None => Panic
          | Some (ALeaf, lh), Some (ALeaf, rh) =>
              match pad_middles_chk 257 lh rh depth with
              | Ok p => Ok (bytes_eqb lh leaf || bytes_eqb rh leaf, p)
              | Err => Err | Panic => Panic | OutOfFuel => OutOfFuel
              end
          | Some _, Some _ =>
              match u8_succ_chk depth with
              | None => Panic
              | Some d' =>
                  if get_bit leaf depth then
                    match other_included nv lft with
                    | Ok po =>
                        match gen_proof_impl_chk f nv rgt leaf d' with
                        | Ok (r, p) => Ok (r, [tagb TAG_MIDDLE] ++ po ++ p)
                        | e => e
                        end
                    | Err => Err | Panic => Panic | OutOfFuel => OutOfFuel
                    end
                  else
                    match gen_proof_impl_chk f nv lft leaf d' with
                    | Ok (r, p) =>
                        match other_included nv rgt with
                        | Ok po => Ok (r, [tagb TAG_MIDDLE] ++ p ++ po)
                        | Err => Err | Panic => Panic | OutOfFuel => OutOfFuel
                        end
                    | e => e
                    end
              end
          end
      end
  end.

Definition generate_proof_chk (t : merkle_set) (leaf : bytes) : outcome (bool * bytes) :=
  match nodes_vec t with
  | [] => Panic
  | nv =>
      match gen_proof_impl_chk (S (length nv)) nv (nlength nv - 1) leaf 0 with
      | Ok (included, proof) => if from_proof_flag t then Ok (included, []) else Ok (included, proof)
      | e => e
      end
  end.

(* a stored tree on which no `depth + 1` can overflow when proofs are generated from depth d:
   ordinary middle nodes lie at depth <= 254, and the two leaves of a double-leaf node first differ at
   some bit m with d <= m <= 255 *)
Fixpoint depth_ok (t : stree) (d : N) : Prop :=
  match t with
  | SMid _ l r =>
      match l, r with
      | SLeaf a, SLeaf b =>
          exists m, d <= m < 256 /\ get_bit a m <> get_bit b m /\ forall i, d <= i < m -> get_bit a i = get_bit b i
      | _, _ => d < 255 /\ depth_ok l (d + 1) /\ depth_ok r (d + 1)
      end
  | _ => True
  end.
