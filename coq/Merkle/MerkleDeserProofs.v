(* Merkle/MerkleDeserProofs.v — proofs about merkle_tree.rs, part 2: deserialize_proof_impl's
   stack machine is the recursive-descent parser pparse (forward simulation deser_sim, converse
   deser_back); hence validate_merkle_proof on bytes = tvalidate on the parsed proof tree. *)
From Coq Require Import ZifyBool ZifyNat ZifyN.
From ChiaV.Base Require Import Bytes.
From ChiaV.Gen Require Import Mset.
From ChiaV.Merkle Require Import MerkleSpec MerkleSet MerkleTree MerkleSetProofs MerkleProofSpec MerkleTreeProofs.
Open Scope N_scope.
Ltac Zify.zify_post_hook ::= Z.div_mod_to_equations.


Section WithH.
  Variable H : bytes -> bytes.
  Notation deser_loop := (deser_loop H).
  Notation pval := (pval H).
  Notation plast := (plast H).

  Lemma rep_atype nv i t : rep nv i t -> exists a, node_at nv i = Some (a, shash t) /\ array_node_type a = satype t.
  Proof.
    intros R. destruct (rep_node _ _ _ R) as (a & E & S). exists a. split; [exact E|].
    destruct t; cbn in S; try (destruct S as (? & ? & S)); subst a; reflexivity.
  Qed.

  (* forward simulation: the stack machine, started on OpNode, consumes one parsed subtree *)
  Lemma deser_sim : forall fuel bits depth input p rest,
    pparse fuel bits depth input = Some (p, rest) ->
    forall nv, exists pn0 n idx,
      rep ((nv ++ pn0) ++ [n]) idx (fst (pval p)) /\
      rep ((nv ++ pn0) ++ [n]) (nlength (nv ++ pn0)) (plast p) /\
      forall mf values ops bs,
        deser_loop (msteps p + mf) input values (OpNode :: ops) depth (bits :: bs) nv =
        deser_loop mf rest ((idx, snd (pval p)) :: values) ops depth bs ((nv ++ pn0) ++ [n]).
  Proof.
    induction fuel as [|f IH]; intros bits depth input p rest P nv; [discriminate|].
    cbn [pparse] in P. destruct input as [|b input]; [discriminate|].
    destruct (b2n b =? TAG_EMPTY) eqn:T0.
    { injection P as <- <-. exists [], (AEmpty, BLANK), (nlength nv). rewrite app_nil_r.
      split; [apply rep_empty, node_at_last|]. split; [apply rep_empty, node_at_last|].
      intros mf values ops bs. cbn [msteps Nat.add MerkleTree.deser_loop]. rewrite T0. reflexivity. }
    destruct (b2n b =? TAG_TERMINAL) eqn:T1.
    { destruct (length input <? 32)%nat eqn:L; [discriminate|].
      destruct (audit bits (firstn 32 input)) eqn:Au; [|discriminate].
      injection P as <- <-. exists [], (ALeaf, firstn 32 input), (nlength nv). rewrite app_nil_r.
      split; [apply rep_leaf, node_at_last|]. split; [apply rep_leaf, node_at_last|].
      intros mf values ops bs. cbn [msteps Nat.add MerkleTree.deser_loop]. rewrite T0, T1, L, Au. reflexivity. }
    destruct (b2n b =? TAG_TRUNCATED) eqn:T3.
    { destruct (length input <? 32)%nat eqn:L; [discriminate|].
      injection P as <- <-. exists [], (ATruncated, firstn 32 input), (nlength nv). rewrite app_nil_r.
      split; [apply rep_trunc, node_at_last|]. split; [apply rep_trunc, node_at_last|].
      intros mf values ops bs. cbn [msteps Nat.add MerkleTree.deser_loop]. rewrite T0, T1, T3, L. reflexivity. }
    destruct (b2n b =? TAG_MIDDLE) eqn:T2; [|discriminate].
    destruct (Z.of_N proof_depth_limit <? depth)%Z eqn:DL; [discriminate|].
    destruct (pparse f (bits ++ [false]) (depth + 1) input) as [[l r1]|] eqn:PL; [|discriminate].
    destruct (pparse f (bits ++ [true]) (depth + 1) r1) as [[r r2]|] eqn:PR; [|discriminate].
    injection P as <- <-.
    destruct (IH _ _ _ _ _ PL nv) as (pl0 & nl & il & Rl & _ & Sl).
    set (nv1 := (nv ++ pl0) ++ [nl]) in *.
    destruct (IH _ _ _ _ _ PR nv1) as (pr0 & nr & ir & Rr & _ & Sr).
    set (nv2 := (nv1 ++ pr0) ++ [nr]) in *.
    assert (Rl2 : rep nv2 il (fst (pval l))) by (unfold nv2; apply rep_app, rep_app; exact Rl).
    destruct (rep_atype _ _ _ Rl2) as (la & El & Al). destruct (rep_atype _ _ _ Rr) as (ra & Er & Ar).
    pose proof (rep_in_range _ _ _ Rl2) as Il. pose proof (rep_in_range _ _ _ Rr) as Ir.
    (* the machine run, up to the Middle op *)
    assert (Run : forall mf values ops bs,
      deser_loop (msteps (PMid l r) + mf) (b :: input) values (OpNode :: ops) depth (bits :: bs) nv =
      deser_loop (S mf) r2 ((ir, snd (pval r)) :: (il, snd (pval l)) :: values) (OpMiddle :: ops) (depth + 1)%Z ([] :: bs) nv2).
    { intros mf values ops bs. cbn [msteps Nat.add MerkleTree.deser_loop]. rewrite T0, T1, T3, T2, DL.
      replace (msteps l + msteps r + 1 + mf)%nat with (msteps l + (msteps r + S mf))%nat by lia.
      rewrite Sl, Sr. reflexivity. }
    exists (pl0 ++ [nl] ++ pr0 ++ [nr]).
    replace (nv ++ pl0 ++ [nl] ++ pr0 ++ [nr]) with nv2 by (unfold nv2, nv1; rewrite <- !app_assoc; reflexivity).
    cbn [MerkleProofSpec.pval MerkleProofSpec.plast].
    destruct (pval l) as [sl tl] eqn:VL. destruct (pval r) as [sr tr] eqn:VR. cbn [fst snd] in *.
    assert (Step : forall mf values ops bs v hh,
       (match tl, tr with
        | NtEmpty, NtMidDbl => v = (ir, tr) /\ hh = shash sr
        | NtMidDbl, NtEmpty => v = (il, tl) /\ hh = shash sl
        | _, _ => v = (nlength nv2, middle_type tl tr) /\ hh = node_hash H (satype sl) (satype sr) (shash sl) (shash sr)
        end) ->
       deser_loop (S mf) r2 ((ir, tr) :: (il, tl) :: values) (OpMiddle :: ops) (depth + 1)%Z ([] :: bs) nv2 =
       deser_loop mf r2 (v :: values) ops depth bs (nv2 ++ [(AMiddle il ir, hh)])).
    { intros mf values ops bs v hh Hv. cbn [MerkleTree.deser_loop fst snd]. rewrite El, Er, Al, Ar.
      replace (depth + 1 - 1)%Z with depth by lia.
      destruct tl, tr; destruct Hv as [-> ->]; reflexivity. }
    destruct tl, tr;
      match goal with
      | |- context [rep _ _ (fst (sr, NtMidDbl))] =>
          exists (AMiddle il ir, shash sr), ir; cbn [fst snd];
          split; [apply rep_app; exact Rr|];
          split; [eapply rep_mid; [apply node_at_last|assumption|assumption|apply rep_app; exact Rl2|apply rep_app; exact Rr]|];
          intros mf values ops bs; rewrite Run; apply Step; split; reflexivity
      | |- context [rep _ _ (fst (sl, NtMidDbl))] =>
          exists (AMiddle il ir, shash sl), il; cbn [fst snd];
          split; [apply rep_app; exact Rl2|];
          split; [eapply rep_mid; [apply node_at_last|assumption|assumption|apply rep_app; exact Rl2|apply rep_app; exact Rr]|];
          intros mf values ops bs; rewrite Run; apply Step; split; reflexivity
      | |- _ =>
          exists (AMiddle il ir, node_hash H (satype sl) (satype sr) (shash sl) (shash sr)), (nlength nv2); cbn [fst snd];
          split; [eapply rep_mid; [apply node_at_last|assumption|assumption|apply rep_app; exact Rl2|apply rep_app; exact Rr]|];
          split; [eapply rep_mid; [apply node_at_last|assumption|assumption|apply rep_app; exact Rl2|apply rep_app; exact Rr]|];
          intros mf values ops bs; rewrite Run; apply Step; split; reflexivity
      end.
  Qed.
End WithH.


Lemma pparse_S f bits depth input : pparse (S f) bits depth input =
  match input with
  | [] => None
  | b :: rest =>
      let t := b2n b in
      if t =? TAG_EMPTY then Some (PEmpty, rest)
      else if t =? TAG_TERMINAL then
        if (length rest <? 32)%nat then None
        else if audit bits (firstn 32 rest) then Some (PTerm (firstn 32 rest), skipn 32 rest) else None
      else if t =? TAG_TRUNCATED then
        if (length rest <? 32)%nat then None
        else Some (PTrunc (firstn 32 rest), skipn 32 rest)
      else if t =? TAG_MIDDLE then
        if (Z.of_N proof_depth_limit <? depth)%Z then None
        else
          match pparse f (bits ++ [false]) (depth + 1) rest with
          | Some (l, r1) =>
              match pparse f (bits ++ [true]) (depth + 1) r1 with
              | Some (r, r2) => Some (PMid l r, r2)
              | None => None
              end
          | None => None
          end
      else None
  end.
Proof. reflexivity. Qed.

Lemma pparse_mono1 : forall f bits depth input r, pparse f bits depth input = Some r -> pparse (S f) bits depth input = Some r.
Proof.
  induction f as [|f IH]; intros bits depth input r P; [discriminate|].
  rewrite pparse_S in P. rewrite (pparse_S (S f)). destruct input as [|b input]; [discriminate|]. cbv zeta in *.
  destruct (b2n b =? TAG_EMPTY); [exact P|]. destruct (b2n b =? TAG_TERMINAL); [exact P|].
  destruct (b2n b =? TAG_TRUNCATED); [exact P|]. destruct (b2n b =? TAG_MIDDLE); [|discriminate].
  destruct (Z.of_N proof_depth_limit <? depth)%Z; [discriminate|].
  destruct (pparse f (bits ++ [false]) (depth + 1) input) as [[l r1]|] eqn:PL; [|discriminate].
  rewrite (IH _ _ _ _ PL).
  destruct (pparse f (bits ++ [true]) (depth + 1) r1) as [[rr r2]|] eqn:PR; [|discriminate].
  rewrite (IH _ _ _ _ PR). exact P.
Qed.

Lemma pparse_mono f f' bits depth input r : (f <= f')%nat -> pparse f bits depth input = Some r -> pparse f' bits depth input = Some r.
Proof. induction 1; [auto|]. intros P. apply pparse_mono1. auto. Qed.

Lemma some_pair_inv {A B} (a c : A) (b d : B) : Some (a, b) = Some (c, d) -> a = c /\ b = d.
Proof. intros E. injection E. auto. Qed.

Lemma tag_byte b t : b2n b =? t = true -> b = tagb t.
Proof. intros E. apply N.eqb_eq in E. subst t. unfold tagb. now rewrite n2b_b2n. Qed.

Lemma pparse_pser_inv : forall f bits depth input p rest,
  pparse f bits depth input = Some (p, rest) -> input = pser p ++ rest.
Proof.
  induction f as [|f IH]; intros bits depth input p rest P; [discriminate|].
  rewrite pparse_S in P. destruct input as [|b input]; [discriminate|]. cbv zeta in P.
  destruct (b2n b =? TAG_EMPTY) eqn:T0; [apply some_pair_inv in P; destruct P as [<- <-]; cbn [pser app]; now rewrite (tag_byte _ _ T0)|].
  destruct (b2n b =? TAG_TERMINAL) eqn:T1.
  { destruct (length input <? 32)%nat; [discriminate|]. destruct (audit _ _); [|discriminate].
    apply some_pair_inv in P; destruct P as [<- <-]. rewrite (tag_byte _ _ T1).
    change (pser (PTerm (firstn 32 input)) ++ skipn 32 input) with (tagb TAG_TERMINAL :: (firstn 32 input ++ skipn 32 input)).
    now rewrite firstn_skipn. }
  destruct (b2n b =? TAG_TRUNCATED) eqn:T3.
  { destruct (length input <? 32)%nat; [discriminate|].
    apply some_pair_inv in P; destruct P as [<- <-]. rewrite (tag_byte _ _ T3).
    change (pser (PTrunc (firstn 32 input)) ++ skipn 32 input) with (tagb TAG_TRUNCATED :: (firstn 32 input ++ skipn 32 input)).
    now rewrite firstn_skipn. }
  destruct (b2n b =? TAG_MIDDLE) eqn:T2; [|discriminate].
  destruct (Z.of_N proof_depth_limit <? depth)%Z; [discriminate|].
  destruct (pparse f (bits ++ [false]) (depth + 1) input) as [[l r1]|] eqn:PL; [|discriminate].
  destruct (pparse f (bits ++ [true]) (depth + 1) r1) as [[rr r2]|] eqn:PR; [|discriminate].
  apply some_pair_inv in P; destruct P as [<- <-]. cbn [pser app]. rewrite (tag_byte _ _ T2). rewrite (IH _ _ _ _ _ PL), (IH _ _ _ _ _ PR).
  now rewrite <- app_assoc.
Qed.

(* what a successful parse guarantees *)
Lemma pparse_valid : forall f bits depth input p rest,
  pparse f bits depth input = Some (p, rest) -> pwf p = true /\ paudit bits p = true /\ pdepth_ok depth p = true.
Proof.
  induction f as [|f IH]; intros bits depth input p rest P; [discriminate|].
  rewrite pparse_S in P. destruct input as [|b input]; [discriminate|]. cbv zeta in P.
  destruct (b2n b =? TAG_EMPTY) eqn:T0; [apply some_pair_inv in P; destruct P as [<- <-]; now cbn|].
  destruct (b2n b =? TAG_TERMINAL) eqn:T1.
  { destruct (length input <? 32)%nat eqn:L; [discriminate|]. destruct (audit _ _) eqn:Au; [|discriminate].
    apply some_pair_inv in P; destruct P as [<- <-]. cbn [pwf paudit pdepth_ok]. rewrite Au. repeat split. apply Nat.eqb_eq. rewrite firstn_length. apply Nat.ltb_ge in L. lia. }
  destruct (b2n b =? TAG_TRUNCATED) eqn:T3.
  { destruct (length input <? 32)%nat eqn:L; [discriminate|].
    apply some_pair_inv in P; destruct P as [<- <-]. cbn [pwf paudit pdepth_ok]. repeat split. apply Nat.eqb_eq. rewrite firstn_length. apply Nat.ltb_ge in L. lia. }
  destruct (b2n b =? TAG_MIDDLE) eqn:T2; [|discriminate].
  destruct (Z.of_N proof_depth_limit <? depth)%Z eqn:DL; [discriminate|].
  destruct (pparse f (bits ++ [false]) (depth + 1) input) as [[l r1]|] eqn:PL; [|discriminate].
  destruct (pparse f (bits ++ [true]) (depth + 1) r1) as [[rr r2]|] eqn:PR; [|discriminate].
  apply some_pair_inv in P; destruct P as [<- <-]. cbn [pwf paudit pdepth_ok].
  destruct (IH _ _ _ _ _ PL) as (A1 & A2 & A3). destruct (IH _ _ _ _ _ PR) as (B1 & B2 & B3).
  rewrite A1, A2, A3, B1, B2, B3, DL. now cbn.
Qed.

Fixpoint pheight (p : ptree) : nat :=
  match p with PMid l r => S (Nat.max (pheight l) (pheight r)) | _ => O end.

Lemma tagb_b2n t : t < 256 -> b2n (tagb t) = t.
Proof. apply b2n_n2b. Qed.

Lemma firstn_app_len {A} (x r : list A) n : length x = n -> firstn n (x ++ r) = x.
Proof. intros <-. rewrite firstn_app, firstn_all, Nat.sub_diag. cbn. apply app_nil_r. Qed.

Lemma skipn_app_len {A} (x r : list A) n : length x = n -> skipn n (x ++ r) = r.
Proof. intros <-. rewrite skipn_app, skipn_all, Nat.sub_diag. reflexivity. Qed.

(* a well-formed, audited, depth-bounded proof tree parses back from its serialisation *)
Lemma pparse_pser : forall p f bits depth rest,
  (pheight p < f)%nat -> pwf p = true -> paudit bits p = true -> pdepth_ok depth p = true ->
  pparse f bits depth (pser p ++ rest) = Some (p, rest).
Proof.
  induction p as [|x|h|l IHl r IHr]; intros f bits depth rest Hf W A D; (destruct f as [|f]; [lia|]);
    rewrite pparse_S; cbn [pser app]; cbv zeta; rewrite tagb_b2n by reflexivity.
  - reflexivity.
  - cbn [pwf paudit] in W, A. apply Nat.eqb_eq in W.
    replace (TAG_TERMINAL =? TAG_EMPTY) with false by reflexivity. rewrite N.eqb_refl.
    replace (length (x ++ rest) <? 32)%nat with false by (symmetry; apply Nat.ltb_ge; rewrite app_length; lia).
    rewrite (firstn_app_len x rest 32 W), (skipn_app_len x rest 32 W), A. reflexivity.
  - cbn [pwf] in W. apply Nat.eqb_eq in W.
    replace (TAG_TRUNCATED =? TAG_EMPTY) with false by reflexivity.
    replace (TAG_TRUNCATED =? TAG_TERMINAL) with false by reflexivity. rewrite N.eqb_refl.
    replace (length (h ++ rest) <? 32)%nat with false by (symmetry; apply Nat.ltb_ge; rewrite app_length; lia).
    rewrite (firstn_app_len h rest 32 W), (skipn_app_len h rest 32 W). reflexivity.
  - replace (TAG_MIDDLE =? TAG_EMPTY) with false by reflexivity.
    replace (TAG_MIDDLE =? TAG_TERMINAL) with false by reflexivity.
    replace (TAG_MIDDLE =? TAG_TRUNCATED) with false by reflexivity. rewrite N.eqb_refl.
    cbn [pwf paudit pdepth_ok pheight] in W, A, D, Hf. apply andb_prop in W, A, D. destruct W as [Wl Wr], A as [Al Ar], D as [D Dr].
    apply andb_prop in D. destruct D as [D Dl]. apply negb_true_iff in D. rewrite D.
    rewrite <- app_assoc. rewrite (IHl f _ _ _) by (assumption || lia).
    rewrite (IHr f _ _ _) by (assumption || lia). reflexivity.
Qed.

Lemma msteps_bound p : (msteps p + 1 <= 2 * length (pser p))%nat.
Proof.
  induction p as [|x|h|l IHl r IHr]; cbn [msteps pser length]; try lia.
  rewrite app_length. lia.
Qed.

Section WithH.
  Variable H : bytes -> bytes.
  Notation deser_loop := (deser_loop H).
  Notation pval := (pval H).
  Notation plast := (plast H).

  (* backward: if the machine finishes with Ok, the input starts with a parsable subtree *)
  Lemma deser_back : forall mf input values ops depth bits bs nv res,
    deser_loop mf input values (OpNode :: ops) depth (bits :: bs) nv = Ok res ->
    exists p rest, pparse mf bits depth input = Some (p, rest) /\ (msteps p <= mf)%nat.
  Proof.
    induction mf as [mf IH] using lt_wf_ind. intros input values ops depth bits bs nv res R.
    destruct mf as [|f]; [discriminate|].
    cbn [MerkleTree.deser_loop] in R. cbn [pparse].
    destruct input as [|b input]; [discriminate|].
    destruct (b2n b =? TAG_EMPTY) eqn:T0.
    { exists PEmpty, input. split; [reflexivity|]. cbn. lia. }
    destruct (b2n b =? TAG_TERMINAL) eqn:T1.
    { destruct (length input <? 32)%nat; [discriminate|]. destruct (audit _ _); [|discriminate].
      eexists _, _. split; [reflexivity|]. cbn. lia. }
    destruct (b2n b =? TAG_TRUNCATED) eqn:T3.
    { destruct (length input <? 32)%nat; [discriminate|].
      eexists _, _. split; [reflexivity|]. cbn. lia. }
    destruct (b2n b =? TAG_MIDDLE) eqn:T2; [|discriminate].
    destruct (Z.of_N proof_depth_limit <? depth)%Z eqn:DL; [discriminate|].
    destruct (IH f (Nat.lt_succ_diag_r f) _ _ _ _ _ _ _ _ R) as (l & r1 & PL & ML).
    rewrite PL.
    destruct (deser_sim H _ _ _ _ _ _ PL nv) as (pl0 & nl & il & _ & _ & Sl).
    replace f with (msteps l + (f - msteps l))%nat in R by lia. rewrite Sl in R.
    assert (Lt : (f - msteps l < S f)%nat) by lia.
    destruct (IH _ Lt _ _ _ _ _ _ _ _ R) as (r & r2 & PR & MR).
    assert (LE : (f - msteps l <= f)%nat) by lia.
    rewrite (pparse_mono _ _ _ _ _ _ LE PR).
    exists (PMid l r), r2. split; [reflexivity|].
    destruct (deser_sim H _ _ _ _ _ _ PR ((nv ++ pl0) ++ [nl])) as (pr0 & nr & ir & _ & _ & Sr).
    assert (EQ : (f - msteps l = msteps r + (f - msteps l - msteps r))%nat) by (clear - MR; lia).
    rewrite EQ in R. rewrite Sr in R.
    destruct (f - msteps l - msteps r)%nat eqn:E; [discriminate|]. cbn [msteps]. lia.
  Qed.

  (* validate_merkle_proof on bytes is tvalidate on the parsed proof tree *)
  Lemma validate_of_parse proof p item root :
    pparse (2 * length proof + 2) [] 0 proof = Some (p, []) ->
    validate_merkle_proof H proof item root = tvalidate H p item root.
  Proof.
    intros P. pose proof (pparse_pser_inv _ _ _ _ _ _ P) as EP. rewrite app_nil_r in EP.
    pose proof (msteps_bound p) as MB. rewrite <- EP in MB.
    destruct (deser_sim H _ _ _ _ _ _ P []) as (pn0 & n & idx & _ & Rl & Sim).
    unfold validate_merkle_proof, from_proof, deserialize_proof.
    replace (2 * length proof + 2)%nat with (msteps p + S (2 * length proof + 1 - msteps p))%nat by lia.
    rewrite Sim. cbn [MerkleTree.deser_loop].
    rewrite (get_root_rep H _ _ _ _ Rl), (generate_proof_rep H _ _ _ _ _ Rl).
    unfold tvalidate. destruct (negb _); [reflexivity|].
    destruct (s_proof (plast p) item 0) as [[b pf]| | |]; reflexivity.
  Qed.

  Lemma validate_parse proof item root b :
    validate_merkle_proof H proof item root = Ok b ->
    exists p, pparse (2 * length proof + 2) [] 0 proof = Some (p, []) /\ tvalidate H p item root = Ok b.
  Proof.
    intros V. assert (exists nv, deserialize_proof H proof = Ok nv) as [nv D].
    { unfold validate_merkle_proof, from_proof in V. destruct (deserialize_proof H proof); try discriminate. eauto. }
    unfold deserialize_proof in D.
    destruct (deser_back _ _ _ _ _ _ _ _ _ D) as (p & rest & P & M).
    destruct (deser_sim H _ _ _ _ _ _ P []) as (pn0 & n & idx & _ & _ & Sim).
    replace (2 * length proof + 2)%nat with (msteps p + (2 * length proof + 2 - msteps p))%nat in D by lia.
    rewrite Sim in D. destruct (2 * length proof + 2 - msteps p)%nat; [discriminate|]. cbn [MerkleTree.deser_loop] in D.
    destruct rest; [|discriminate].
    exists p. split; [exact P|]. rewrite <- (validate_of_parse _ _ _ _ P). exact V.
  Qed.

  (* an honest-format proof tree: serialise, then validate = tvalidate *)
  Lemma validate_pser p item root : pvalid p = true ->
    validate_merkle_proof H (pser p) item root = tvalidate H p item root.
  Proof.
    intros PV. unfold pvalid in PV. apply andb_prop in PV. destruct PV as [PV D]. apply andb_prop in PV. destruct PV as [W A].
    apply validate_of_parse. rewrite <- (app_nil_r (pser p)) at 2. apply pparse_pser; try assumption.
    assert (pheight p < length (pser p))%nat; [|lia].
    clear. induction p as [|x|h|l IHl r IHr]; cbn [pheight pser length]; try lia. rewrite app_length. lia.
  Qed.
End WithH.
