(* Merkle/MerkleTree.v — mirror of crates/chia-consensus/src/merkle_tree.rs:
   MerkleSet (node vector), from_leafs / generate_merkle_tree_recurse, get_root, generate_proof,
   other_included, pad_middles_for_proof_gen, deserialize_proof_impl (ops / bits stacks),
   from_proof, validate_merkle_proof.  Definitions only.

   Representation choices (no behavioural content):
   - `&mut Vec<u8>` proof accumulators are returned as the appended piece;
   - u8 `depth + 1` in generate_proof_impl / pad_middles_for_proof_gen wraps (release build
     semantics, overflow-checks off): [u8_succ];  `pos as u8` in the leaf audit truncates;
   - Vec indexing out of bounds, `expect`, `unwrap` = Panic. *)
From ChiaV.Base Require Import Bytes.
From ChiaV.Gen Require Import Mset.
From ChiaV.Merkle Require Import MerkleSpec MerkleSet.
Open Scope N_scope.

Inductive array_type := ALeaf | AMiddle (l r : N) | AEmpty | ATruncated.

Definition nodes := list (array_type * bytes).

Record merkle_set := MkSet { nodes_vec : nodes; from_proof_flag : bool }.

(* impl From<ArrayTypes> for NodeType *)
Definition array_node_type (a : array_type) : node_type :=
  match a with
  | AEmpty => NtEmpty
  | ALeaf => NtTerm
  | AMiddle _ _ | ATruncated => NtMid
  end.

Definition nlength {A} (l : list A) : N := N.of_nat (length l).
Definition node_at (nv : nodes) (i : N) : option (array_type * bytes) := nth_error nv (N.to_nat i).

Definition u8_succ (d : N) : N := (d + 1) mod 256.

Definition tagb (t : N) : byte := n2b t.

Section WithH.
  Variable H : bytes -> bytes.

  (* fn generate_merkle_tree_recurse(&mut self, range, depth) -> ([u8; 32], NodeType)
     same control flow as radix_sort, additionally pushing nodes *)
  Fixpoint gen_tree (fuel : nat) (nv : nodes) (range : list bytes) (depth : N)
    : outcome (nodes * (bytes * node_type)) :=
    match fuel with
    | O => OutOfFuel
    | S f =>
        match range with
        | [] => Panic
        | [x] => Ok (nv ++ [(ALeaf, x)], (x, NtTerm))
        | _ =>
            match partition depth range with
            | None => OutOfFuel
            | Some (range', lft, rgt) =>
                let left_empty := (lft =? 0)%Z in
                let right_empty := (rgt =? Z.of_nat (length range) - 1)%Z in
                if left_empty || right_empty then
                  if depth =? last_depth then
                    Ok (nv ++ [(ALeaf, nth 0 range' [])], (nth 0 range' [], NtTerm))
                  else
                    match gen_tree f nv range' (depth + 1) with
                    | Ok (nv1, (child_hash, child_type)) =>
                        if node_type_eqb child_type NtMid then
                          let nv2 := nv1 ++ [(AEmpty, EMPTY_NODE_HASH)] in
                          let node_length := nlength nv2 in
                          if left_empty then
                            let node_hash' := node_hash H NtEmpty child_type BLANK child_hash in
                            Ok (nv2 ++ [(AMiddle (node_length - 1) (node_length - 2), node_hash')], (node_hash', NtMid))
                          else
                            let node_hash' := node_hash H child_type NtEmpty child_hash BLANK in
                            Ok (nv2 ++ [(AMiddle (node_length - 2) (node_length - 1), node_hash')], (node_hash', NtMid))
                        else Ok (nv1, (child_hash, child_type))
                    | e => e
                    end
                else if depth =? last_depth then
                  let l0 := nth 0 range' [] in
                  let l1 := nth (Z.to_nat lft) range' [] in
                  let nv2 := (nv ++ [(ALeaf, l0)]) ++ [(ALeaf, l1)] in
                  let nodes_len := nlength nv2 in
                  let node_hash' := node_hash H NtTerm NtTerm l0 l1 in
                  Ok (nv2 ++ [(AMiddle (nodes_len - 2) (nodes_len - 1), node_hash')], (node_hash', NtMidDbl))
                else
                  match gen_tree f nv (firstn (Z.to_nat lft) range') (depth + 1) with
                  | Ok (nv1, (left_hash, left_type)) =>
                      let left_child_index := nlength nv1 - 1 in
                      match gen_tree f nv1 (skipn (Z.to_nat lft) range') (depth + 1) with
                      | Ok (nv2, (right_hash, right_type)) =>
                          let node_hash' := node_hash H left_type right_type left_hash right_hash in
                          let node_type :=
                            if node_type_eqb left_type NtTerm && node_type_eqb right_type NtTerm
                            then NtMidDbl else NtMid in
                          Ok (nv2 ++ [(AMiddle left_child_index (nlength nv2 - 1), node_hash')], (node_hash', node_type))
                      | e => e
                      end
                  | e => e
                  end
            end
        end
    end.

  (* pub fn from_leafs(leafs) -> MerkleSet *)
  Definition from_leafs (leafs : list bytes) : outcome merkle_set :=
    match leafs with
    | [] => Ok (MkSet [(AEmpty, BLANK)] false)
    | _ =>
        match gen_tree 256 [] leafs 0 with
        | Ok (nv, _) => Ok (MkSet nv false)
        | Err => Err | Panic => Panic | OutOfFuel => OutOfFuel
        end
    end.

  (* pub fn get_root(&self) -> [u8; 32] *)
  Definition get_root (t : merkle_set) : outcome bytes :=
    match last (map Some (nodes_vec t)) None with
    | None => Panic                                      (* .last().unwrap() *)
    | Some (ALeaf, h) => Ok (hash_leaf H h)
    | Some (AMiddle _ _, h) | Some (ATruncated, h) => Ok h
    | Some (AEmpty, _) => Ok BLANK
    end.

  (* fn pad_middles_for_proof_gen(proof, lft, rgt, depth) *)
  Fixpoint pad_middles (fuel : nat) (lft rgt : bytes) (depth : N) : option bytes :=
    match fuel with
    | O => None
    | S f =>
        let left_bit := get_bit lft depth in
        let right_bit := get_bit rgt depth in
        if negb (Bool.eqb left_bit right_bit) then
          Some ([tagb TAG_MIDDLE] ++ [tagb TAG_TERMINAL] ++ lft ++ [tagb TAG_TERMINAL] ++ rgt)
        else if left_bit then
          match pad_middles f lft rgt (u8_succ depth) with
          | Some p => Some ([tagb TAG_MIDDLE] ++ [tagb TAG_EMPTY] ++ p)
          | None => None
          end
        else
          match pad_middles f lft rgt (u8_succ depth) with
          | Some p => Some ([tagb TAG_MIDDLE] ++ p ++ [tagb TAG_EMPTY])
          | None => None
          end
    end.

  (* fn other_included(&self, current_node_index, proof) *)
  Definition other_included (nv : nodes) (idx : N) : outcome bytes :=
    match node_at nv idx with
    | None => Panic
    | Some (AEmpty, _) => Ok [tagb TAG_EMPTY]
    | Some (AMiddle _ _, h) | Some (ATruncated, h) => Ok (tagb TAG_TRUNCATED :: h)
    | Some (ALeaf, h) => Ok (tagb TAG_TERMINAL :: h)
    end.

  (* fn generate_proof_impl(&self, current_node_index, leaf, proof, depth) -> Result<bool, SetError>
     returns (included, bytes appended to proof) *)
  Fixpoint gen_proof_impl (fuel : nat) (nv : nodes) (idx : N) (leaf : bytes) (depth : N)
    : outcome (bool * bytes) :=
    match fuel with
    | O => OutOfFuel
    | S f =>
        match node_at nv idx with
        | None => Panic
        | Some (AEmpty, _) => Ok (false, [tagb TAG_EMPTY])
        | Some (ALeaf, h) => Ok (bytes_eqb h leaf, tagb TAG_TERMINAL :: h)
        | Some (ATruncated, _) => Err
        | Some (AMiddle lft rgt, _) =>
            match node_at nv lft, node_at nv rgt with
            | None, _ | _, None => Panic
            | Some (ALeaf, lh), Some (ALeaf, rh) =>
                match pad_middles 257 lh rh depth with
                | Some p => Ok (bytes_eqb lh leaf || bytes_eqb rh leaf, p)
                | None => OutOfFuel
                end
            | Some _, Some _ =>
                if get_bit leaf depth then
                  match other_included nv lft with
                  | Ok po =>
                      match gen_proof_impl f nv rgt leaf (u8_succ depth) with
                      | Ok (r, p) => Ok (r, [tagb TAG_MIDDLE] ++ po ++ p)
                      | e => e
                      end
                  | Err => Err | Panic => Panic | OutOfFuel => OutOfFuel
                  end
                else
                  match gen_proof_impl f nv lft leaf (u8_succ depth) with
                  | Ok (r, p) =>
                      match other_included nv rgt with
                      | Ok po => Ok (r, [tagb TAG_MIDDLE] ++ p ++ po)
                      | Err => Err | Panic => Panic | OutOfFuel => OutOfFuel
                      end
                  | e => e
                  end
            end
        end
    end.

  (* pub fn generate_proof(&self, leaf) -> Result<(bool, Vec<u8>), SetError> *)
  Definition generate_proof (t : merkle_set) (leaf : bytes) : outcome (bool * bytes) :=
    match nodes_vec t with
    | [] => Panic                                        (* len() - 1 underflows, then index out of bounds *)
    | nv =>
        match gen_proof_impl (S (length nv)) nv (nlength nv - 1) leaf 0 with
        | Ok (included, proof) => if from_proof_flag t then Ok (included, []) else Ok (included, proof)
        | e => e
        end
    end.

  (* ---- deserialize_proof_impl ---- *)
  Inductive parse_op := OpNode | OpMiddle.

  (* for (pos, v) in bits.iter().enumerate() { if get_bit(&hash, pos as u8) != *v { return Err } } *)
  Fixpoint audit_from (pos : N) (bits : list bool) (h : bytes) : bool :=
    match bits with
    | [] => true
    | v :: r => if Bool.eqb (get_bit h (pos mod 256)) v then audit_from (pos + 1) r h else false
    end.
  Definition audit (bits : list bool) (h : bytes) : bool := audit_from 0 bits h.

  (* the NodeType propagated by ParseOp::Middle *)
  Definition middle_type (lt rt : node_type) : node_type :=
    match lt, rt with
    | NtTerm, NtTerm | NtEmpty, NtMidDbl | NtMidDbl, NtEmpty => NtMidDbl
    | _, _ => NtMid
    end.

  (* `while let Some(op) = ops.pop() { ... }` ; stacks are lists with the top at the head *)
  Fixpoint deser_loop (fuel : nat) (input : bytes) (values : list (N * node_type)) (ops : list parse_op)
           (depth : Z) (bits_stack : list (list bool)) (nv : nodes) : outcome nodes :=
    match fuel with
    | O => OutOfFuel
    | S f =>
        match ops with
        | [] => match input with [] => Ok nv | _ => Err end      (* trailing bytes are rejected *)
        | op :: ops' =>
            match bits_stack with
            | [] => Err
            | bits :: bs' =>
                match op with
                | OpNode =>
                    match input with
                    | [] => Err
                    | b :: rest =>
                        let t := b2n b in
                        if t =? TAG_EMPTY then
                          deser_loop f rest ((nlength nv, NtEmpty) :: values) ops' depth bs' (nv ++ [(AEmpty, BLANK)])
                        else if t =? TAG_TERMINAL then
                          if (length rest <? 32)%nat then Err
                          else
                            let h := firstn 32 rest in
                            if audit bits h then
                              deser_loop f (skipn 32 rest) ((nlength nv, NtTerm) :: values) ops' depth bs' (nv ++ [(ALeaf, h)])
                            else Err
                        else if t =? TAG_TRUNCATED then
                          if (length rest <? 32)%nat then Err
                          else
                            let h := firstn 32 rest in
                            deser_loop f (skipn 32 rest) ((nlength nv, NtMid) :: values) ops' depth bs' (nv ++ [(ATruncated, h)])
                        else if t =? TAG_MIDDLE then
                          if (Z.of_N proof_depth_limit <? depth)%Z then Err
                          else
                            deser_loop f rest values (OpNode :: OpNode :: OpMiddle :: ops') (depth + 1)%Z
                                       ((bits ++ [false]) :: (bits ++ [true]) :: [] :: bs') nv
                        else Err
                    end
                | OpMiddle =>
                    match values with
                    | rgt :: lft :: values' =>
                        match node_at nv (fst lft), node_at nv (fst rgt) with
                        | Some (la, lh), Some (ra, rh) =>
                            let new_node_type := middle_type (snd lft) (snd rgt) in
                            match snd lft, snd rgt with
                            | NtEmpty, NtMidDbl =>
                                deser_loop f input (rgt :: values') ops' (depth - 1)%Z bs'
                                           (nv ++ [(AMiddle (fst lft) (fst rgt), rh)])
                            | NtMidDbl, NtEmpty =>
                                deser_loop f input (lft :: values') ops' (depth - 1)%Z bs'
                                           (nv ++ [(AMiddle (fst lft) (fst rgt), lh)])
                            | _, _ =>
                                deser_loop f input ((nlength nv, new_node_type) :: values') ops' (depth - 1)%Z bs'
                                           (nv ++ [(AMiddle (fst lft) (fst rgt),
                                                    node_hash H (array_node_type la) (array_node_type ra) lh rh)])
                            end
                        | _, _ => Panic                            (* index out of bounds *)
                        end
                    | _ => Panic                                   (* .expect("internal error") *)
                    end
                end
            end
        end
    end.

  Definition deserialize_proof (proof : bytes) : outcome nodes :=
    deser_loop (2 * length proof + 2) proof [] [OpNode] 0%Z [[]] [].

  (* pub fn from_proof(proof) -> Result<MerkleSet, SetError> *)
  Definition from_proof (proof : bytes) : outcome merkle_set :=
    match deserialize_proof proof with
    | Ok nv => Ok (MkSet nv true)
    | Err => Err | Panic => Panic | OutOfFuel => OutOfFuel
    end.

  (* pub fn validate_merkle_proof(proof, item, root) -> Result<bool, SetError> *)
  Definition validate_merkle_proof (proof item root : bytes) : outcome bool :=
    match from_proof proof with
    | Ok tree =>
        match get_root tree with
        | Ok r =>
            if negb (bytes_eqb r root) then Err
            else
              match generate_proof tree item with
              | Ok (included, _) => Ok included
              | Err => Err | Panic => Panic | OutOfFuel => OutOfFuel
              end
        | Err => Err | Panic => Panic | OutOfFuel => OutOfFuel
        end
    | Err => Err | Panic => Panic | OutOfFuel => OutOfFuel
    end.
End WithH.
