(* Merkle/MerkleSet.v — mirror of crates/chia-consensus/src/merkle_set.rs:
   the in-place two-pointer partition, radix_sort, compute_merkle_set_root.  Definitions only. *)
From ChiaV.Base Require Import Bytes.
From ChiaV.Gen Require Import Mset.
From ChiaV.Merkle Require Import MerkleSpec.
Open Scope N_scope.

(* ---- slices as lists ---- *)
Fixpoint set_nth {A} (n : nat) (v : A) (l : list A) : list A :=
  match l with
  | [] => []
  | x :: r => match n with O => v :: r | S k => x :: set_nth k v r end
  end.

(* range.swap(i, j) *)
Definition swap (l : list bytes) (i j : nat) : list bytes :=
  set_nth j (nth i l []) (set_nth i (nth j l []) l).

(* `while lft <= rgt { ... }` of radix_sort: move 0 bits to the lft and 1 bits to the rgt.
   lft/rgt are i32 in the source (rgt starts at len-1 and may reach -1): Z here.
   Returns the rearranged range and the final (lft, rgt). *)
Fixpoint part_loop (fuel : nat) (d : N) (range : list bytes) (lft rgt : Z) : option (list bytes * Z * Z) :=
  if (lft <=? rgt)%Z then
    match fuel with
    | O => None
    | S f =>
        let lb := get_bit (nth (Z.to_nat lft) range []) d in
        let rb := get_bit (nth (Z.to_nat rgt) range []) d in
        if lb && negb rb then part_loop f d (swap range (Z.to_nat lft) (Z.to_nat rgt)) (lft + 1)%Z (rgt - 1)%Z
        else part_loop f d range (if lb then lft else lft + 1)%Z (if rb then rgt - 1 else rgt)%Z
    end
  else Some (range, lft, rgt).

Definition partition (d : N) (range : list bytes) : option (list bytes * Z * Z) :=
  part_loop (S (length range)) d range 0%Z (Z.of_nat (length range) - 1)%Z.

Section WithH.
  Variable H : bytes -> bytes.

  (* fn radix_sort(range, depth) -> ([u8; 32], NodeType); one unit of fuel per recursion level *)
  Fixpoint radix_sort (fuel : nat) (range : list bytes) (depth : N) : outcome (bytes * node_type) :=
    match fuel with
    | O => OutOfFuel
    | S f =>
        match range with
        | [] => Panic                                   (* assert!(!range.is_empty()) *)
        | [x] => Ok (x, NtTerm)
        | _ =>
            match partition depth range with
            | None => OutOfFuel
            | Some (range', lft, rgt) =>
                let left_empty := (lft =? 0)%Z in
                let right_empty := (rgt =? Z.of_nat (length range) - 1)%Z in
                if left_empty || right_empty then
                  if depth =? last_depth then Ok (nth 0 range' [], NtTerm)
                  else
                    match radix_sort f range' (depth + 1) with
                    | Ok (child_hash, child_type) =>
                        if node_type_eqb child_type NtMid then
                          if left_empty then Ok (node_hash H NtEmpty child_type BLANK child_hash, NtMid)
                          else Ok (node_hash H child_type NtEmpty child_hash BLANK, NtMid)
                        else Ok (child_hash, child_type)
                    | e => e
                    end
                else if depth =? last_depth then
                  Ok (node_hash H NtTerm NtTerm (nth 0 range' []) (nth (Z.to_nat lft) range' []), NtMidDbl)
                else
                  match radix_sort f (firstn (Z.to_nat lft) range') (depth + 1) with
                  | Ok (left_hash, left_type) =>
                      match radix_sort f (skipn (Z.to_nat lft) range') (depth + 1) with
                      | Ok (right_hash, right_type) =>
                          let node_type :=
                            if node_type_eqb left_type NtTerm && node_type_eqb right_type NtTerm
                            then NtMidDbl else NtMid in
                          Ok (node_hash H left_type right_type left_hash right_hash, node_type)
                      | e => e
                      end
                  | e => e
                  end
            end
        end
    end.

  (* pub fn compute_merkle_set_root(leafs) -> [u8; 32] *)
  Definition compute_merkle_set_root (leafs : list bytes) : outcome bytes :=
    match leafs with
    | [] => Ok BLANK
    | _ =>
        match radix_sort 256 leafs 0 with
        | Ok (h, NtTerm) => Ok (hash_leaf H h)
        | Ok (h, NtMid) | Ok (h, NtMidDbl) => Ok h
        | Ok (_, NtEmpty) => Panic                      (* panic!("unexpected") *)
        | Err => Err | Panic => Panic | OutOfFuel => OutOfFuel
        end
    end.
End WithH.
