(* Merkle/MerkleSoundProofs.v — soundness of validate_merkle_proof (theorem 4): hash-input
   injectivity-or-collision, structure of trie summaries, what deserialisation leaves for a proof
   subtree (pval), the leaf-position audit, the traversal against the trie of the queried item's
   bucket (sound_core), tree-level and byte-level soundness. *)
From Coq Require Import ZifyBool ZifyNat ZifyN.
From ChiaV.Base Require Import Bytes.
From ChiaV.Gen Require Import Mset.
From ChiaV.Merkle Require Import MerkleSpec MerkleSet MerkleTree MerkleSetProofs MerkleProofSpec MerkleTreeProofs MerkleDeserProofs.
Open Scope N_scope.
Ltac Zify.zify_post_hook ::= Z.div_mod_to_equations.


Lemma app_inj_len {A} (l l' r r' : list A) : length l = length l' -> l ++ r = l' ++ r' -> l = l' /\ r = r'.
Proof.
  revert l'; induction l as [|x l IH]; intros [|y l'] L E; cbn in *; try discriminate; auto.
  injection E as -> E. destruct (IH l' ltac:(lia) E) as [-> ->]. auto.
Qed.

Lemma bytes_eqb_sym a b : bytes_eqb a b = bytes_eqb b a.
Proof. destruct (bytes_eqb_spec a b), (bytes_eqb_spec b a); congruence. Qed.

Lemma enc_lt t : encode_type t < 256.
Proof. destruct t; reflexivity. Qed.

Lemma enc_term t : encode_type t = encode_type NtTerm -> t = NtTerm.
Proof. destruct t; cbn; intros E; try discriminate; reflexivity. Qed.

Lemma enc_empty t : encode_type t = encode_type NtEmpty -> t = NtEmpty.
Proof. destruct t; cbn; intros E; try discriminate; reflexivity. Qed.

Lemma enc_mid t : encode_type t = encode_type NtMid -> t = NtMid \/ t = NtMidDbl.
Proof. destruct t; cbn; intros E; try discriminate; auto. Qed.

Section WithH.
  Variable H : bytes -> bytes.
  Hypothesis Hlen : forall m, length (H m) = 32%nat.
  Notation trie := (trie H).
  Notation pval := (pval H).
  Notation plast := (plast H).
  Notation node_hash := (node_hash H).
  Notation collision := (collision H).

  Lemma node_hash_len a b l r : length (node_hash a b l r) = 32%nat.
  Proof. apply Hlen. Qed.

  Lemma node_hash_inj t0 t1 l r t0' t1' l' r' : length l = 32%nat -> length l' = 32%nat ->
    node_hash t0 t1 l r = node_hash t0' t1' l' r' ->
    (encode_type t0 = encode_type t0' /\ encode_type t1 = encode_type t1' /\ l = l' /\ r = r') \/ collision.
  Proof.
    intros L L' E. unfold MerkleSpec.node_hash in E.
    match type of E with H ?A = H ?B => destruct (bytes_eqb_spec A B) as [EQ|NE] end.
    - left. apply app_inv_head in EQ. cbn [app] in EQ. injection EQ as E0 E1 E2.
      apply (f_equal b2n) in E0, E1. rewrite !b2n_n2b in E0, E1 by apply enc_lt.
      destruct (app_inj_len l l' r r' ltac:(lia) E2) as [-> ->]. auto.
    - right. eexists _, _. split; [exact NE|exact E].
  Qed.

  Lemma leaf_vs_node x t0 t1 l r : length x = 32%nat -> length l = 32%nat -> length r = 32%nat ->
    hash_leaf H x = node_hash t0 t1 l r -> collision.
  Proof.
    intros Lx Ll Lr E. unfold hash_leaf, MerkleSpec.node_hash in E.
    eexists _, _. split; [|exact E]. intros EQ. apply (f_equal (@length byte)) in EQ.
    cbn [length] in EQ. rewrite !app_length in EQ. cbn [length] in EQ. unfold hash_prefix in EQ. cbn [length] in EQ. lia.
  Qed.

  Lemma hash_leaf_inj x y : hash_leaf H x = hash_leaf H y -> x = y \/ collision.
  Proof.
    intros E. unfold hash_leaf in E. destruct (bytes_eqb_spec x y) as [->|NE]; [now left|].
    right. eexists _, _. split; [|exact E]. intros EQ. injection EQ. exact NE.
  Qed.

  (* ---------- structure of trie summaries ---------- *)
  Lemma combine_len a b : length (fst a) = 32%nat -> length (fst b) = 32%nat -> length (fst (combine H a b)) = 32%nat.
  Proof.
    destruct a as [ha ta], b as [hb tb]. cbn [fst]. intros La Lb.
    destruct ta, tb; cbn; try assumption; try apply Hlen; reflexivity.
  Qed.

  Lemma trie_hash_len k : forall d l, Forall leaf32 l -> length (fst (trie k d l)) = 32%nat.
  Proof.
    induction k as [|k IH]; intros d l F; destruct l as [|x r]; cbn [MerkleSpec.trie]; try reflexivity.
    - cbn. now inversion F.
    - apply combine_len; apply IH; now apply Forall_filter.
  Qed.

  Lemma trie_empty_inv k d l : snd (trie k d l) = NtEmpty -> l = [] /\ trie k d l = (BLANK, NtEmpty).
  Proof.
    intros E. destruct l as [|x r]; [split; [reflexivity|apply trie_nil]|].
    exfalso. apply (trie_nonempty H k d (x :: r)); [discriminate|exact E].
  Qed.

  Lemma trie_term_inv k : forall d l z, d + N.of_nat k = 256 -> Forall leaf32 l -> agree d l ->
    trie k d l = (z, NtTerm) -> In z l /\ forall y, In y l -> y = z.
  Proof.
    clear Hlen.
    induction k as [|k IH]; intros d l z Hd F A T; destruct l as [|x r]; try (rewrite trie_nil in T; discriminate).
    - cbn in T. injection T as <-. split; [now left|]. intros y Iy.
      replace d with 256 in A by lia. apply (agree_all_eq _ F A); [exact Iy|now left].
    - rewrite trie_step in T by discriminate.
      set (l := x :: r) in *.
      set (T0 := trie k (d + 1) (filter (bit0 d) l)) in *. set (T1 := trie k (d + 1) (filter (bit1 d) l)) in *.
      assert (C : (snd T0 = NtEmpty /\ T1 = (z, NtTerm)) \/ (snd T1 = NtEmpty /\ T0 = (z, NtTerm))).
      { destruct T0 as [h0 t0], T1 as [h1 t1]. destruct t0, t1; cbn in T; try discriminate; injection T as <-; auto. }
      destruct C as [[E0 E1]|[E1 E0]].
      + apply trie_empty_inv in E0. destruct E0 as [Z0 _].
        destruct (IH (d + 1) _ z ltac:(lia) (Forall_filter _ _ _ F) (agree_filter1 _ _ A) E1) as [Iz All].
        split; [apply filter_In in Iz; tauto|]. intros y Iy.
        destruct (in_zero_or_one d l y Iy) as [I0|I1]; [rewrite Z0 in I0; contradiction|now apply All].
      + apply trie_empty_inv in E1. destruct E1 as [Z1 _].
        destruct (IH (d + 1) _ z ltac:(lia) (Forall_filter _ _ _ F) (agree_filter0 _ _ A) E0) as [Iz All].
        split; [apply filter_In in Iz; tauto|]. intros y Iy.
        destruct (in_zero_or_one d l y Iy) as [I0|I1]; [now apply All|rewrite Z1 in I1; contradiction].
  Qed.

  Lemma trie_dbl_inv k : forall d l h, d + N.of_nat k = 256 -> Forall leaf32 l -> agree d l ->
    trie k d l = (h, NtMidDbl) ->
    exists a b, h = node_hash NtTerm NtTerm a b /\ In a l /\ In b l /\ forall y, In y l -> y = a \/ y = b.
  Proof.
    clear Hlen.
    induction k as [|k IH]; intros d l h Hd F A T; destruct l as [|x r]; try (rewrite trie_nil in T; discriminate).
    - cbn in T. discriminate.
    - rewrite trie_step in T by discriminate.
      set (l := x :: r) in *.
      set (T0 := trie k (d + 1) (filter (bit0 d) l)) in *. set (T1 := trie k (d + 1) (filter (bit1 d) l)) in *.
      assert (C : (snd T0 = NtEmpty /\ T1 = (h, NtMidDbl)) \/ (snd T1 = NtEmpty /\ T0 = (h, NtMidDbl)) \/
                  (exists a b, T0 = (a, NtTerm) /\ T1 = (b, NtTerm) /\ h = node_hash NtTerm NtTerm a b)).
      { destruct T0 as [h0 t0], T1 as [h1 t1]. destruct t0, t1; cbn in T; try discriminate; injection T as <-; eauto 8. }
      destruct C as [[E0 E1]|[[E1 E0]|(a & b & E0 & E1 & ->)]].
      + apply trie_empty_inv in E0. destruct E0 as [Z0 _].
        destruct (IH (d + 1) _ h ltac:(lia) (Forall_filter _ _ _ F) (agree_filter1 _ _ A) E1) as (a & b & -> & Ia & Ib & All).
        exists a, b. split; [reflexivity|]. apply filter_In in Ia, Ib. repeat split; try tauto. intros y Iy.
        destruct (in_zero_or_one d l y Iy) as [I0|I1]; [rewrite Z0 in I0; contradiction|now apply All].
      + apply trie_empty_inv in E1. destruct E1 as [Z1 _].
        destruct (IH (d + 1) _ h ltac:(lia) (Forall_filter _ _ _ F) (agree_filter0 _ _ A) E0) as (a & b & -> & Ia & Ib & All).
        exists a, b. split; [reflexivity|]. apply filter_In in Ia, Ib. repeat split; try tauto. intros y Iy.
        destruct (in_zero_or_one d l y Iy) as [I0|I1]; [now apply All|rewrite Z1 in I1; contradiction].
      + destruct (trie_term_inv k (d + 1) _ a ltac:(lia) (Forall_filter _ _ _ F) (agree_filter0 _ _ A) E0) as [Ia Alla].
        destruct (trie_term_inv k (d + 1) _ b ltac:(lia) (Forall_filter _ _ _ F) (agree_filter1 _ _ A) E1) as [Ib Allb].
        exists a, b. split; [reflexivity|]. apply filter_In in Ia, Ib. repeat split; try tauto. intros y Iy.
        destruct (in_zero_or_one d l y Iy) as [I0|I1]; [left; now apply Alla|right; now apply Allb].
  Qed.

  Lemma trie_mid_inv k d l h : trie k d l = (h, NtMid) ->
    exists k', k = S k' /\ l <> [] /\
      let T0 := trie k' (d + 1) (filter (bit0 d) l) in
      let T1 := trie k' (d + 1) (filter (bit1 d) l) in
      h = node_hash (snd T0) (snd T1) (fst T0) (fst T1) /\ ~ (snd T0 = NtTerm /\ snd T1 = NtTerm).
  Proof.
    intros T. destruct l as [|x r]; [rewrite trie_nil in T; discriminate|].
    destruct k as [|k]; [cbn in T; discriminate|]. exists k. split; [reflexivity|]. split; [discriminate|].
    rewrite trie_step in T by discriminate. cbv zeta.
    set (T0 := trie k (d + 1) (filter (bit0 d) (x :: r))) in *. set (T1 := trie k (d + 1) (filter (bit1 d) (x :: r))) in *.
    pose proof (trie_empty_inv k (d + 1) (filter (bit0 d) (x :: r))) as Z0. fold T0 in Z0.
    pose proof (trie_empty_inv k (d + 1) (filter (bit1 d) (x :: r))) as Z1. fold T1 in Z1.
    destruct T0 as [h0 t0], T1 as [h1 t1]. cbn [fst snd] in *.
    destruct t0, t1; cbn in T; try discriminate; injection T as <-;
      try (destruct (Z0 eq_refl) as [_ Z]; injection Z as ->);
      try (destruct (Z1 eq_refl) as [_ Z]; injection Z as ->);
      (split; [reflexivity|intros [? ?]; discriminate]).
  Qed.
End WithH.


(* ---------- the leaf-position audit ---------- *)
Lemma audit_from_spec h : forall bits pos, audit_from pos bits h = true ->
  forall j, (j < length bits)%nat -> get_bit h ((pos + N.of_nat j) mod 256) = nth j bits false.
Proof.
  induction bits as [|v r IH]; intros pos A j Hj; cbn in Hj; [lia|].
  cbn [audit_from] in A. destruct (Bool.eqb (get_bit h (pos mod 256)) v) eqn:E; [|discriminate].
  destruct j as [|j].
  - cbn. rewrite N.add_0_r. now apply eqb_prop.
  - cbn [nth]. rewrite <- (IH _ A j ltac:(lia)). f_equal. f_equal. lia.
Qed.

Lemma audit_from_prefix h : forall bits e pos, audit_from pos (bits ++ e) h = true -> audit_from pos bits h = true.
Proof.
  induction bits as [|v r IH]; intros e pos A; [reflexivity|].
  cbn [app audit_from] in *. destruct (Bool.eqb _ v); [|discriminate]. eapply IH; eauto.
Qed.

Lemma audit_prefix bits e h : audit (bits ++ e) h = true -> audit bits h = true.
Proof. apply audit_from_prefix. Qed.

(* the first d bits of x, as the parser's `bits` vector *)
Definition xbits (x : bytes) (d : nat) : list bool := map (fun i => get_bit x (N.of_nat i)) (seq 0 d).

Lemma xbits_length x d : length (xbits x d) = d.
Proof. unfold xbits. now rewrite map_length, seq_length. Qed.

Lemma xbits_S x d : xbits x (S d) = xbits x d ++ [get_bit x (N.of_nat d)].
Proof. unfold xbits. rewrite seq_S, map_app. reflexivity. Qed.

Lemma xbits_nth x d j : (j < d)%nat -> nth j (xbits x d) false = get_bit x (N.of_nat j).
Proof.
  intros Hj. unfold xbits.
  rewrite (nth_indep _ false (get_bit x (N.of_nat 0))) by (rewrite map_length, seq_length; lia).
  rewrite (map_nth (fun i => get_bit x (N.of_nat i))). rewrite seq_nth by lia. reflexivity.
Qed.

Lemma audit_xbits x y d : (d <= 256)%nat -> audit (xbits x d) y = true ->
  forall i, i < N.of_nat d -> get_bit y i = get_bit x i.
Proof.
  intros Hd A i Hi. unfold audit in A.
  pose proof (audit_from_spec y _ 0 A (N.to_nat i)) as E. rewrite xbits_length in E.
  specialize (E ltac:(lia)). rewrite xbits_nth in E by lia. rewrite N2Nat.id in E.
  rewrite N.add_0_l, N.mod_small in E by lia. exact E.
Qed.

Section WithH.
  Variable H : bytes -> bytes.
  Hypothesis Hlen : forall m, length (H m) = 32%nat.
  Notation trie := (trie H).
  Notation pval := (pval H).
  Notation plast := (plast H).
  Notation node_hash := (node_hash H).
  Notation collision := (collision H).

  (* ---------- what deserialisation leaves for a proof subtree ---------- *)
  Lemma pval_cases p :
    match p with
    | PEmpty => pval p = (SEmpty BLANK, NtEmpty)
    | PTerm x => pval p = (SLeaf x, NtTerm)
    | PTrunc h => pval p = (STrunc h, NtMid)
    | PMid l r =>
        (snd (pval l) = NtEmpty /\ snd (pval r) = NtMidDbl /\ pval p = (fst (pval r), NtMidDbl)) \/
        (snd (pval l) = NtMidDbl /\ snd (pval r) = NtEmpty /\ pval p = (fst (pval l), NtMidDbl)) \/
        (~ (snd (pval l) = NtEmpty /\ snd (pval r) = NtMidDbl) /\ ~ (snd (pval l) = NtMidDbl /\ snd (pval r) = NtEmpty) /\
         pval p = (SMid (node_hash (satype (fst (pval l))) (satype (fst (pval r))) (shash (fst (pval l))) (shash (fst (pval r))))
                        (fst (pval l)) (fst (pval r)),
                   middle_type (snd (pval l)) (snd (pval r))))
    end.
  Proof.
    destruct p as [|x|h|l r]; try reflexivity. cbn [MerkleProofSpec.pval].
    destruct (pval l) as [sl tl], (pval r) as [sr tr]. cbn [fst snd].
    destruct tl, tr; auto; right; right; (split; [intros [? ?]; discriminate|split; [intros [? ?]; discriminate|reflexivity]]).
  Qed.

  Lemma pval_type_term p : snd (pval p) = NtTerm -> exists x, p = PTerm x.
  Proof.
    pose proof (pval_cases p) as C. destruct p as [|x|h|l r]; try (rewrite C; cbn; discriminate); eauto.
    destruct C as [(_ & _ & ->)|[(_ & _ & ->)|(_ & _ & ->)]]; cbn; try discriminate.
    destruct (snd (pval l)), (snd (pval r)); discriminate.
  Qed.

  Lemma pval_type_empty p : snd (pval p) = NtEmpty -> p = PEmpty.
  Proof.
    pose proof (pval_cases p) as C. destruct p as [|x|h|l r]; try (rewrite C; cbn; discriminate); eauto.
    destruct C as [(_ & _ & ->)|[(_ & _ & ->)|(_ & _ & ->)]]; cbn; try discriminate.
    destruct (snd (pval l)), (snd (pval r)); discriminate.
  Qed.

  Lemma pval_leaf p x : fst (pval p) = SLeaf x -> p = PTerm x.
  Proof.
    revert x. induction p as [|y|h|l IHl r IHr]; intros x; try (cbn; congruence).
    pose proof (pval_cases (PMid l r)) as C. cbn beta iota in C.
    destruct C as [(_ & Tr & ->)|[(Tl & _ & ->)|(_ & _ & ->)]]; cbn [fst]; try discriminate.
    - intros E. rewrite (IHr _ E) in Tr. discriminate.
    - intros E. rewrite (IHl _ E) in Tl. discriminate.
  Qed.

  (* node kind and value type agree up to encode_type; stored hashes are 32 bytes *)
  Lemma pval_enc p : encode_type (satype (fst (pval p))) = encode_type (snd (pval p)).
  Proof.
    induction p as [|y|h|l IHl r IHr]; try reflexivity.
    pose proof (pval_cases (PMid l r)) as C. cbn beta iota in C.
    destruct C as [(_ & Tr & ->)|[(Tl & _ & ->)|(_ & _ & ->)]]; cbn [fst snd].
    - now rewrite IHr, Tr.
    - now rewrite IHl, Tl.
    - cbn. destruct (snd (pval l)), (snd (pval r)); reflexivity.
  Qed.

  Lemma pval_len p : pwf p = true -> length (shash (fst (pval p))) = 32%nat.
  Proof.
    induction p as [|y|h|l IHl r IHr]; cbn [pwf]; intros W; try reflexivity; try (now apply Nat.eqb_eq).
    apply andb_prop in W. destruct W as [Wl Wr].
    pose proof (pval_cases (PMid l r)) as C. cbn beta iota in C.
    destruct C as [(_ & _ & ->)|[(_ & _ & ->)|(_ & _ & ->)]]; cbn [fst shash]; auto. apply Hlen.
  Qed.

  (* a MidDbl value is a double-leaf node; its two leaves passed the audit of every enclosing prefix *)
  Lemma pval_dbl p : snd (pval p) = NtMidDbl ->
    exists a b, fst (pval p) = SMid (node_hash NtTerm NtTerm a b) (SLeaf a) (SLeaf b) /\
      (pwf p = true -> leaf32 a /\ leaf32 b) /\
      (forall bits, paudit bits p = true -> audit bits a = true /\ audit bits b = true).
  Proof.
    induction p as [|y|h|l IHl r IHr]; try (cbn; discriminate).
    pose proof (pval_cases (PMid l r)) as C. cbn beta iota in C.
    destruct C as [(_ & Tr & ->)|[(Tl & _ & ->)|(N1 & N2 & ->)]]; cbn [fst snd]; intros T.
    - destruct (IHr Tr) as (a & b & E & W & A). exists a, b. split; [exact E|]. split.
      + cbn [pwf]. intros W'. apply andb_prop in W'. now apply W.
      + intros bits P. cbn [paudit] in P. apply andb_prop in P. destruct P as [_ P].
        destruct (A _ P) as [Aa Ab]. split; eapply audit_prefix; eauto.
    - destruct (IHl Tl) as (a & b & E & W & A). exists a, b. split; [exact E|]. split.
      + cbn [pwf]. intros W'. apply andb_prop in W'. now apply W.
      + intros bits P. cbn [paudit] in P. apply andb_prop in P. destruct P as [P _].
        destruct (A _ P) as [Aa Ab]. split; eapply audit_prefix; eauto.
    - assert (Tl : snd (pval l) = NtTerm /\ snd (pval r) = NtTerm).
      { destruct (snd (pval l)), (snd (pval r)); cbn in T; try discriminate; auto;
          exfalso; first [apply N1; split; reflexivity|apply N2; split; reflexivity]. }
      destruct Tl as [Tl Tr]. destruct (pval_type_term _ Tl) as [a ->]. destruct (pval_type_term _ Tr) as [b ->].
      exists a, b. split; [reflexivity|]. split.
      + cbn [pwf]. intros W'. apply andb_prop in W'. destruct W' as [Wa Wb]. split; now apply Nat.eqb_eq.
      + intros bits P. cbn [paudit] in P. apply andb_prop in P. destruct P as [Pa Pb].
        split; eapply audit_prefix; eauto.
  Qed.

  Lemma pval_mid_is_hash l r : exists m, shash (fst (pval (PMid l r))) = H m.
  Proof.
    pose proof (pval_cases (PMid l r)) as C. cbn beta iota in C.
    destruct C as [(_ & Tr & ->)|[(Tl & _ & ->)|(_ & _ & ->)]]; cbn [fst shash].
    - destruct (pval_dbl _ Tr) as (a & b & -> & _). eexists. reflexivity.
    - destruct (pval_dbl _ Tl) as (a & b & -> & _). eexists. reflexivity.
    - eexists. reflexivity.
  Qed.
End WithH.


(* ---------- membership ---------- *)
Lemma mem_In x l : mem x l = true <-> In x l.
Proof.
  unfold mem. rewrite existsb_exists. split.
  - intros (y & Iy & E). apply bytes_eqb_eq in E. now subst.
  - intros I. exists x. split; [exact I|apply bytes_eqb_refl].
Qed.

Lemma bool_eq_iff (a b : bool) : (a = true <-> b = true) -> a = b.
Proof. destruct a, b; intros [A B]; auto. symmetry; auto. Qed.

Lemma mem_all_eq x z l : In z l -> (forall y, In y l -> y = z) -> mem x l = bytes_eqb x z.
Proof.
  intros Iz All. apply bool_eq_iff. rewrite mem_In, bytes_eqb_eq. split.
  - intros I. now apply All.
  - intros ->. exact Iz.
Qed.

Lemma mem_two x a b l : In a l -> In b l -> (forall y, In y l -> y = a \/ y = b) ->
  mem x l = bytes_eqb x a || bytes_eqb x b.
Proof.
  intros Ia Ib All. apply bool_eq_iff. rewrite mem_In, orb_true_iff, !bytes_eqb_eq. split.
  - intros I. now apply All.
  - intros [->| ->]; assumption.
Qed.

Lemma mem_filter0 x d l : get_bit x d = false -> mem x (filter (bit0 d) l) = mem x l.
Proof.
  intros B. apply bool_eq_iff. rewrite !mem_In, filter_In. unfold bit0. rewrite B. cbn. tauto.
Qed.

Lemma mem_filter1 x d l : get_bit x d = true -> mem x (filter (bit1 d) l) = mem x l.
Proof.
  intros B. apply bool_eq_iff. rewrite !mem_In, filter_In. unfold bit1. rewrite B. tauto.
Qed.

Lemma agree_cons_filter0 x d l : agree d (x :: l) -> get_bit x d = false -> agree (d + 1) (x :: filter (bit0 d) l).
Proof.
  intros A B. apply (agree_sub _ (filter (bit0 d) (x :: l))); [|now apply agree_filter0].
  intros y Iy. cbn [filter]. unfold bit0 at 1. rewrite B. exact Iy.
Qed.

Lemma agree_cons_filter1 x d l : agree d (x :: l) -> get_bit x d = true -> agree (d + 1) (x :: filter (bit1 d) l).
Proof.
  intros A B. apply (agree_sub _ (filter (bit1 d) (x :: l))); [|now apply agree_filter1].
  intros y Iy. cbn [filter]. unfold bit1 at 1. rewrite B. exact Iy.
Qed.

Lemma agree_tail d x l : agree d (x :: l) -> agree d l.
Proof. apply agree_sub. intros y Iy. now right. Qed.

Section WithH.
  Variable H : bytes -> bytes.
  Hypothesis Hlen : forall m, length (H m) = 32%nat.
  Notation trie := (trie H).
  Notation pval := (pval H).
  Notation plast := (plast H).
  Notation node_hash := (node_hash H).
  Notation collision := (collision H).

  (* a double-leaf hash against a middle-typed trie summary: the bucket is exactly {a, b} *)
  Lemma dbl_vs_trie k d Sd a b : d + N.of_nat k = 256 -> Forall leaf32 Sd -> agree d Sd -> leaf32 a ->
    fst (trie k d Sd) = node_hash NtTerm NtTerm a b -> encode_type (snd (trie k d Sd)) = encode_type NtMid ->
    (In a Sd /\ In b Sd /\ forall y, In y Sd -> y = a \/ y = b) \/ collision.
  Proof.
    intros Hd F A La Eh Et. destruct (trie k d Sd) as [h' t'] eqn:T. cbn [fst snd] in *. subst h'.
    apply enc_mid in Et. destruct Et as [-> | ->].
    - destruct (trie_mid_inv H k d Sd _ T) as (k' & -> & Hne & E & NT). cbv zeta in E, NT.
      apply (node_hash_inj H Hlen) in E; [|exact La|apply (trie_hash_len H Hlen); now apply Forall_filter].
      destruct E as [(E0 & E1 & _)|C]; [|now right].
      exfalso. apply NT. split; apply enc_term; congruence.
    - destruct (trie_dbl_inv H k d Sd _ Hd F A T) as (a' & b' & E & Ia & Ib & All).
      apply (node_hash_inj H Hlen) in E; [|exact La|rewrite Forall_forall in F; now apply F].
      destruct E as [(_ & _ & -> & ->)|C]; [left; auto|now right].
  Qed.

  Lemma s_proof_dbl h a b x d : s_proof (SMid h (SLeaf a) (SLeaf b)) x d =
    match pad_middles 257 a b d with Some p => Ok (bytes_eqb a x || bytes_eqb b x, p) | None => OutOfFuel end.
  Proof. reflexivity. Qed.

  (* the traversal of generate_proof_impl along x, against the trie of the bucket of x *)
  Lemma sound_core x : leaf32 x -> forall q dn k Sd b pf,
    N.of_nat dn + N.of_nat k = 256 -> Forall leaf32 Sd -> agree (N.of_nat dn) (x :: Sd) ->
    pwf q = true -> paudit (xbits x dn) q = true ->
    shash (fst (pval q)) = fst (trie k (N.of_nat dn) Sd) ->
    encode_type (snd (pval q)) = encode_type (snd (trie k (N.of_nat dn) Sd)) ->
    s_proof (fst (pval q)) x (N.of_nat dn mod 256) = Ok (b, pf) ->
    b = mem x Sd \/ collision.
  Proof.
    intros Lx. induction q as [|y|h|l IHl r IHr]; intros dn k Sd b pf Hd F A W P Eh Et SP.
    - (* Empty *)
      cbn in Et, SP. symmetry in Et. apply enc_empty in Et. apply trie_empty_inv in Et. destruct Et as [-> _].
      injection SP as <- _. now left.
    - (* Terminal *)
      cbn in Eh, Et, SP. symmetry in Et. apply enc_term in Et.
      destruct (trie k (N.of_nat dn) Sd) as [h' t'] eqn:T. cbn [fst snd] in *. subst h' t'.
      destruct (trie_term_inv H k _ Sd y Hd F (agree_tail _ _ _ A) T) as [Iy All].
      injection SP as <- _. left. rewrite (mem_all_eq x y Sd Iy All). apply bytes_eqb_sym.
    - (* Truncated *)
      cbn in SP. discriminate.
    - (* Middle *)
      cbn [pwf paudit] in W, P. apply andb_prop in W, P. destruct W as [Wl Wr], P as [Pl Pr].
      assert (Et2 : encode_type (snd (trie k (N.of_nat dn) Sd)) = encode_type NtMid).
      { rewrite <- Et. pose proof (pval_cases H (PMid l r)) as C. cbn beta iota in C.
        destruct C as [(_ & _ & ->)|[(_ & _ & ->)|(_ & _ & ->)]]; cbn [snd]; try reflexivity.
        destruct (snd (pval l)), (snd (pval r)); reflexivity. }
      assert (Hk : (1 <= k)%nat).
      { destruct k; [|lia]. exfalso. destruct Sd; cbn in Et2; discriminate. }
      assert (Hdn : N.of_nat dn mod 256 = N.of_nat dn) by (apply N.mod_small; lia).
      destruct (snd (pval (PMid l r))) eqn:TQ.
      + exfalso. pose proof (pval_type_empty H _ TQ). discriminate.
      + exfalso. destruct (pval_type_term H _ TQ). discriminate.
      + (* a plain middle node: descend along x *)
        pose proof (pval_cases H (PMid l r)) as C. cbn beta iota in C.
        destruct C as [(_ & _ & E)|[(_ & _ & E)|(N1 & N2 & E)]]; try (rewrite E in TQ; cbn in TQ; discriminate).
        rewrite E in Eh, SP, TQ. cbn [fst snd shash] in Eh, SP, TQ.
        assert (NTT : ~ (snd (pval l) = NtTerm /\ snd (pval r) = NtTerm)).
        { intros [A1 A2]. rewrite A1, A2 in TQ. discriminate. }
        (* the trie side *)
        destruct (trie k (N.of_nat dn) Sd) as [h' t'] eqn:T. cbn [fst snd] in *. subst h'.
        apply enc_mid in Et2. destruct Et2 as [-> | ->].
        2:{ (* trie says double-leaf *)
            destruct (trie_dbl_inv H k _ Sd _ Hd F (agree_tail _ _ _ A) T) as (a' & b' & E2 & Ia & _ & _).
            apply (node_hash_inj H Hlen) in E2; [|now apply (pval_len H Hlen)|rewrite Forall_forall in F; now apply F].
            destruct E2 as [(E0 & E1 & _)|C]; [|now right].
            exfalso. apply NTT. rewrite (pval_enc H l) in E0. rewrite (pval_enc H r) in E1.
            split; apply enc_term; assumption. }
        destruct (trie_mid_inv H k _ Sd _ T) as (k' & -> & Hne & E2 & _). cbv zeta in E2.
        apply (node_hash_inj H Hlen) in E2; [|now apply (pval_len H Hlen)|apply (trie_hash_len H Hlen); now apply Forall_filter].
        destruct E2 as [(E0 & E1 & Hl & Hr)|C]; [|now right].
        rewrite (pval_enc H l) in E0. rewrite (pval_enc H r) in E1.
        (* the proof side: not a double-leaf node, so generate_proof_impl descends *)
        assert (Desc : (if get_bit x (N.of_nat dn mod 256)
                        then match s_proof (fst (pval r)) x (u8_succ (N.of_nat dn mod 256)) with
                             | Ok (b, p) => Ok (b, [tagb TAG_MIDDLE] ++ s_other (fst (pval l)) ++ p) | e => e end
                        else match s_proof (fst (pval l)) x (u8_succ (N.of_nat dn mod 256)) with
                             | Ok (b, p) => Ok (b, [tagb TAG_MIDDLE] ++ p ++ s_other (fst (pval r))) | e => e end)
                       = Ok (b, pf)).
        { cbn [s_proof] in SP.
          destruct (fst (pval l)) as [la| | |] eqn:FL; try exact SP.
          destruct (fst (pval r)) as [ra| | |] eqn:FR; try exact SP.
          exfalso. apply NTT. rewrite (pval_leaf H _ _ FL), (pval_leaf H _ _ FR). split; reflexivity. }
        assert (Succ : u8_succ (N.of_nat dn mod 256) = N.of_nat (S dn) mod 256).
        { unfold u8_succ. rewrite Hdn. f_equal. lia. }
        rewrite Succ, Hdn in Desc.
        destruct (get_bit x (N.of_nat dn)) eqn:B.
        * destruct (s_proof (fst (pval r)) x (N.of_nat (S dn) mod 256)) as [[b' p']| | |] eqn:SR; try discriminate.
          injection Desc as <- _.
          destruct (IHr (S dn) k' (filter (bit1 (N.of_nat dn)) Sd) b' p') as [R|C]; try assumption; try lia.
          -- now apply Forall_filter.
          -- replace (N.of_nat (S dn)) with (N.of_nat dn + 1) by lia. now apply agree_cons_filter1.
          -- rewrite xbits_S, B. exact Pr.
          -- replace (N.of_nat (S dn)) with (N.of_nat dn + 1) by lia. exact Hr.
          -- replace (N.of_nat (S dn)) with (N.of_nat dn + 1) by lia. exact E1.
          -- left. rewrite R. now apply mem_filter1.
          -- now right.
        * destruct (s_proof (fst (pval l)) x (N.of_nat (S dn) mod 256)) as [[b' p']| | |] eqn:SL; try discriminate.
          injection Desc as <- _.
          destruct (IHl (S dn) k' (filter (bit0 (N.of_nat dn)) Sd) b' p') as [R|C]; try assumption; try lia.
          -- now apply Forall_filter.
          -- replace (N.of_nat (S dn)) with (N.of_nat dn + 1) by lia. now apply agree_cons_filter0.
          -- rewrite xbits_S, B. exact Pl.
          -- replace (N.of_nat (S dn)) with (N.of_nat dn + 1) by lia. exact Hl.
          -- replace (N.of_nat (S dn)) with (N.of_nat dn + 1) by lia. exact E0.
          -- left. rewrite R. now apply mem_filter0.
          -- now right.
      + (* a double-leaf node (possibly reached through collapsed levels): compare with both leaves *)
        destruct (pval_dbl H _ TQ) as (a & b0 & E & Wab & _).
        destruct (Wab ltac:(cbn [pwf]; now rewrite Wl, Wr)) as [La Lb].
        rewrite E in Eh, SP. cbn [shash] in Eh. rewrite s_proof_dbl in SP.
        destruct (pad_middles 257 a b0 (N.of_nat dn mod 256)) as [pp|]; [|discriminate].
        injection SP as <- _.
        destruct (dbl_vs_trie k _ Sd a b0 Hd F (agree_tail _ _ _ A) La (eq_sym Eh) Et2) as [(Ia & Ib & All)|C]; [|now right].
        left. rewrite (mem_two x a b0 Sd Ia Ib All). now rewrite (bytes_eqb_sym a x), (bytes_eqb_sym b0 x).
  Qed.
End WithH.


Section WithH.
  Variable H : bytes -> bytes.
  Hypothesis Hlen : forall m, length (H m) = 32%nat.
  Notation trie := (trie H).
  Notation pval := (pval H).
  Notation plast := (plast H).
  Notation node_hash := (node_hash H).
  Notation collision := (collision H).
  Notation zero_preimage := (zero_preimage H).

  Lemma pval_mid_node_hash l r : pwf (PMid l r) = true ->
    exists t0 t1 a b, shash (fst (pval (PMid l r))) = node_hash t0 t1 a b /\ length a = 32%nat /\ length b = 32%nat.
  Proof.
    intros W. cbn [pwf] in W. apply andb_prop in W. destruct W as [Wl Wr].
    pose proof (pval_cases H (PMid l r)) as C. cbn beta iota in C.
    destruct C as [(_ & Tr & ->)|[(Tl & _ & ->)|(_ & _ & ->)]]; cbn [fst shash].
    - destruct (pval_dbl H _ Tr) as (a & b & -> & Wab & _). destruct (Wab Wr). cbn [shash]. eauto 8.
    - destruct (pval_dbl H _ Tl) as (a & b & -> & Wab & _). destruct (Wab Wl). cbn [shash]. eauto 8.
    - eexists _, _, _, _. split; [reflexivity|]. split; now apply (pval_len H Hlen).
  Qed.

  Lemma plast_root l r : sroot H (plast (PMid l r)) = shash (fst (pval (PMid l r))).
  Proof.
    cbn [MerkleProofSpec.plast MerkleProofSpec.pval].
    destruct (pval l) as [sl tl], (pval r) as [sr tr]. destruct tl, tr; reflexivity.
  Qed.

  Lemma plast_mid l r : plast (PMid l r) =
    match snd (pval l), snd (pval r) with
    | NtEmpty, NtMidDbl => SMid (shash (fst (pval r))) (fst (pval l)) (fst (pval r))
    | NtMidDbl, NtEmpty => SMid (shash (fst (pval l))) (fst (pval l)) (fst (pval r))
    | _, _ => fst (pval (PMid l r))
    end.
  Proof.
    cbn [MerkleProofSpec.plast MerkleProofSpec.pval].
    destruct (pval l) as [sl tl], (pval r) as [sr tr]. destruct tl, tr; reflexivity.
  Qed.

  Lemma s_proof_empty_l h e t x d : s_proof (SMid h (SEmpty e) t) x d =
    if get_bit x d
    then match s_proof t x (u8_succ d) with
         | Ok (b, p) => Ok (b, [tagb TAG_MIDDLE] ++ s_other (SEmpty e) ++ p) | e' => e' end
    else Ok (false, [tagb TAG_MIDDLE] ++ [tagb TAG_EMPTY] ++ s_other t).
  Proof. reflexivity. Qed.

  Lemma s_proof_empty_r h e t x d : (forall y, t <> SLeaf y) -> s_proof (SMid h t (SEmpty e)) x d =
    if get_bit x d
    then Ok (false, [tagb TAG_MIDDLE] ++ s_other t ++ [tagb TAG_EMPTY])
    else match s_proof t x (u8_succ d) with
         | Ok (b, p) => Ok (b, [tagb TAG_MIDDLE] ++ p ++ s_other (SEmpty e)) | e' => e' end.
  Proof. intros N. destruct t; try reflexivity. Qed.

  (* the root of a non-empty trie summary is a digest *)
  Lemma trie_root_shape S : Forall leaf32 S ->
    match snd (trie 256 0 S) with
    | NtEmpty => S = []
    | NtTerm => In (fst (trie 256 0 S)) S /\ forall y, In y S -> y = fst (trie 256 0 S)
    | _ => exists t0 t1 a b, fst (trie 256 0 S) = node_hash t0 t1 a b /\ length a = 32%nat /\ length b = 32%nat
    end.
  Proof.
    intros F. assert (A : agree 0 S) by (intros a b _ _ i Hi; lia).
    destruct (trie 256 0 S) as [h t] eqn:T. cbn [fst snd]. destruct t.
    - pose proof (trie_empty_inv H 256 0 S) as E. rewrite T in E. now destruct (E eq_refl).
    - apply (trie_term_inv H 256 0 S h); try assumption; lia.
    - destruct (trie_mid_inv H _ _ _ _ T) as (k' & _ & _ & E & _). cbv zeta in E.
      eexists _, _, _, _. split; [exact E|]. split; apply (trie_hash_len H Hlen); now apply Forall_filter.
    - destruct (trie_dbl_inv H 256 0 S h) as (a & b & E & Ia & Ib & _); try assumption; try lia.
      rewrite Forall_forall in F. eexists _, _, _, _. split; [exact E|]. split; now apply F.
  Qed.

  Lemma audit_first b0 bits y : audit (b0 :: bits) y = true -> get_bit y 0 = b0.
  Proof.
    intros A. unfold audit in A. pose proof (audit_from_spec y _ 0 A 0%nat ltac:(cbn; lia)) as E. exact E.
  Qed.

  Lemma spec_root_eq S : spec_root H S = root_of H (trie 256 0 S).
  Proof. reflexivity. Qed.

  Lemma sound_core_root x q S b pf : leaf32 x -> Forall leaf32 S -> pwf q = true -> paudit [] q = true ->
    shash (fst (pval q)) = fst (trie 256 0 S) ->
    encode_type (snd (pval q)) = encode_type (snd (trie 256 0 S)) ->
    s_proof (fst (pval q)) x 0 = Ok (b, pf) -> b = mem x S \/ collision.
  Proof.
    intros Lx F W P Eh Et SP.
    apply (sound_core H Hlen x Lx q 0%nat 256%nat S b pf); try assumption.
    - reflexivity.
    - intros a c _ _ i Hi. lia.
  Qed.

  (* (4) at tree level *)
  Lemma sound_tree S x p b : Forall leaf32 S -> leaf32 x -> pwf p = true -> paudit [] p = true ->
    tvalidate H p x (spec_root H S) = Ok b -> b = mem x S \/ collision \/ zero_preimage.
  Proof.
    intros F Lx W P V. unfold tvalidate in V.
    destruct (bytes_eqb_spec (sroot H (plast p)) (spec_root H S)) as [ER|]; [|discriminate]. cbn [negb] in V.
    destruct (s_proof (plast p) x 0) as [[b' pf]| | |] eqn:SP; try discriminate. injection V as ->.
    assert (A0 : agree 0 S) by (intros a c _ _ i Hi; lia).
    pose proof (trie_root_shape S F) as TS.
    rewrite spec_root_eq in ER. remember (trie 256 0 S) as T eqn:ET. destruct T as [h t].
    unfold root_of in ER. cbn [fst snd] in ER, TS.
    destruct p as [|y|h0|l r].
    - (* Empty *)
      cbn [MerkleProofSpec.plast MerkleProofSpec.pval fst s_proof sroot] in SP, ER. injection SP as <- _.
      destruct t.
      + subst S. now left.
      + right; right. eexists. symmetry. exact ER.
      + destruct TS as (t0 & t1 & a & c & E & _). right; right. unfold MerkleSpec.node_hash in E. eexists. rewrite ER. symmetry. exact E.
      + destruct TS as (t0 & t1 & a & c & E & _). right; right. unfold MerkleSpec.node_hash in E. eexists. rewrite ER. symmetry. exact E.
    - (* Terminal *)
      cbn [MerkleProofSpec.plast MerkleProofSpec.pval fst s_proof sroot] in SP, ER. injection SP as <- _. cbn [pwf] in W. apply Nat.eqb_eq in W.
      destruct t.
      + right; right. eexists. exact ER.
      + destruct TS as [Iz All]. apply hash_leaf_inj in ER. destruct ER as [ER|C]; [|right; now left].
        left. rewrite (mem_all_eq x _ S Iz All), <- ER. apply bytes_eqb_sym.
      + destruct TS as (t0 & t1 & a & c & E & La & Lc). rewrite E in ER. right; left.
        exact (leaf_vs_node H Hlen y t0 t1 a c W La Lc ER).
      + destruct TS as (t0 & t1 & a & c & E & La & Lc). rewrite E in ER. right; left.
        exact (leaf_vs_node H Hlen y t0 t1 a c W La Lc ER).
    - (* Truncated *)
      cbn [MerkleProofSpec.plast MerkleProofSpec.pval fst s_proof] in SP. discriminate.
    - (* Middle *)
      rewrite plast_root in ER.
      destruct (pval_mid_node_hash l r W) as (u0 & u1 & ua & ub & EH & Lua & Lub).
      assert (TM : h = shash (fst (pval (PMid l r))) /\ encode_type t = encode_type NtMid \/ collision \/ zero_preimage).
      { destruct t.
        - right; right. rewrite EH in ER. eexists. exact ER.
        - right; left. destruct TS as [Iz _]. rewrite EH in ER. symmetry in ER.
          rewrite Forall_forall in F. exact (leaf_vs_node H Hlen h u0 u1 ua ub (F _ Iz) Lua Lub ER).
        - left. split; [now symmetry|reflexivity].
        - left. split; [now symmetry|reflexivity]. }
      destruct TM as [[Eh Et]|C]; [|now right]. clear TS ER.
      assert (Eh' : shash (fst (pval (PMid l r))) = fst (trie 256 0 S)) by (rewrite <- ET; cbn [fst]; now symmetry).
      assert (EtT : encode_type (snd (trie 256 0 S)) = encode_type NtMid) by (rewrite <- ET; cbn [snd]; exact Et).
      assert (Et' : encode_type (snd (pval (PMid l r))) = encode_type (snd (trie 256 0 S))).
      { rewrite EtT. pose proof (pval_cases H (PMid l r)) as C. cbn beta iota in C.
        destruct C as [(_ & _ & ->)|[(_ & _ & ->)|(_ & _ & ->)]]; cbn [snd]; try reflexivity.
        destruct (snd (pval l)), (snd (pval r)); reflexivity. }
      clear ET Eh Et h t.
      pose proof (pval_cases H (PMid l r)) as C. cbn beta iota in C.
      pose proof P as Pall.
      cbn [paudit app] in P. apply andb_prop in P. destruct P as [Pl Pr].
      destruct C as [(Tl & Tr & E)|[(Tl & Tr & E)|(N1 & N2 & E)]].
      + (* root level collapsed, leaves on the right *)
        destruct (pval_dbl H _ Tr) as (a & c & Er & Wab & Aab).
        cbn [pwf] in W. apply andb_prop in W. destruct W as [Wl Wr]. destruct (Wab Wr) as [La Lc].
        destruct (Aab _ Pr) as [Aa Ac]. apply audit_first in Aa, Ac.
        rewrite E in Eh'. cbn [fst] in Eh'. rewrite Er in Eh'. cbn [shash] in Eh'.
        destruct (dbl_vs_trie H Hlen 256 0 S a c ltac:(lia) F A0 La (eq_sym Eh') EtT) as [(Ia & Ic & All)|C]; [|right; now left].
        left. rewrite (mem_two x a c S Ia Ic All).
        rewrite plast_mid, Tl, Tr in SP. pose proof (pval_type_empty H _ Tl) as ->. rewrite Er in SP.
        cbn [MerkleProofSpec.pval fst] in SP. rewrite s_proof_empty_l in SP. destruct (get_bit x 0) eqn:B.
        * rewrite s_proof_dbl in SP. destruct (pad_middles 257 a c (u8_succ 0)); [|discriminate].
          injection SP as <- _. now rewrite (bytes_eqb_sym a x), (bytes_eqb_sym c x).
        * injection SP as <- _. symmetry. apply orb_false_iff. split.
          -- destruct (bytes_eqb_spec x a) as [->|]; [congruence|reflexivity].
          -- destruct (bytes_eqb_spec x c) as [->|]; [congruence|reflexivity].
      + (* root level collapsed, leaves on the left *)
        destruct (pval_dbl H _ Tl) as (a & c & El & Wab & Aab).
        cbn [pwf] in W. apply andb_prop in W. destruct W as [Wl Wr]. destruct (Wab Wl) as [La Lc].
        destruct (Aab _ Pl) as [Aa Ac]. apply audit_first in Aa, Ac.
        rewrite E in Eh'. cbn [fst] in Eh'. rewrite El in Eh'. cbn [shash] in Eh'.
        destruct (dbl_vs_trie H Hlen 256 0 S a c ltac:(lia) F A0 La (eq_sym Eh') EtT) as [(Ia & Ic & All)|C]; [|right; now left].
        left. rewrite (mem_two x a c S Ia Ic All).
        rewrite plast_mid, Tl, Tr in SP. pose proof (pval_type_empty H _ Tr) as ->. rewrite El in SP.
        cbn [MerkleProofSpec.pval fst] in SP. rewrite s_proof_empty_r in SP by discriminate. destruct (get_bit x 0) eqn:B.
        * injection SP as <- _. symmetry. apply orb_false_iff. split.
          -- destruct (bytes_eqb_spec x a) as [->|]; [congruence|reflexivity].
          -- destruct (bytes_eqb_spec x c) as [->|]; [congruence|reflexivity].
        * rewrite s_proof_dbl in SP. destruct (pad_middles 257 a c (u8_succ 0)); [|discriminate].
          injection SP as <- _. now rewrite (bytes_eqb_sym a x), (bytes_eqb_sym c x).
      + (* root is an ordinary node *)
        assert (PL : plast (PMid l r) = fst (pval (PMid l r))).
        { rewrite plast_mid. destruct (snd (pval l)), (snd (pval r)); try reflexivity; exfalso; [apply N1|apply N2]; split; reflexivity. }
        rewrite PL in SP.
        destruct (sound_core_root x (PMid l r) S b pf Lx F W Pall Eh' Et' SP) as [R|C]; [now left|right; now left].
  Qed.

  (* (4) on bytes *)
  Lemma proof_sound_spec S x proof b : Forall leaf32 S -> leaf32 x ->
    validate_merkle_proof H proof x (spec_root H S) = Ok b -> b = mem x S \/ collision \/ zero_preimage.
  Proof.
    intros F Lx V. destruct (validate_parse H _ _ _ _ V) as (p & P & TV).
    destruct (pparse_valid _ _ _ _ _ _ P) as (W & A & _).
    eapply sound_tree; eauto.
  Qed.

  Lemma proof_sound S x proof root b : Forall leaf32 S -> leaf32 x ->
    compute_merkle_set_root H S = Ok root ->
    validate_merkle_proof H proof x root = Ok b -> b = mem x S \/ collision \/ zero_preimage.
  Proof.
    intros F Lx R V. rewrite (compute_root_spec H S F) in R. injection R as <-.
    eapply proof_sound_spec; eauto.
  Qed.
End WithH.

(* the length hypothesis on H is satisfiable: the executable SHA-256 has 32-byte digests *)
From ChiaV.Base Require Import Sha256.
Lemma sha256_len m : length (sha256 m) = 32%nat.
Proof. unfold sha256. rewrite !app_length, !n2be_length. reflexivity. Qed.
