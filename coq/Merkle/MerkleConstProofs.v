(* Merkle/MerkleConstProofs.v — finite facts about the constants translated from the source. *)
From ChiaV.Base Require Import Bytes Sha256.
From ChiaV.Gen Require Import Mset.
From ChiaV.Merkle Require Import MerkleSpec.
Open Scope N_scope.

(* "sha256(bytes([0] * 32))", the hash stored (never hashed) in Empty nodes of from_leafs trees *)
Lemma empty_node_hash_is_sha_blank : EMPTY_NODE_HASH = sha256 BLANK.
Proof. vm_compute. reflexivity. Qed.

Lemma blank_len : length BLANK = 32%nat.
Proof. reflexivity. Qed.

Lemma hash_prefix_len : length hash_prefix = 30%nat.
Proof. reflexivity. Qed.

(* the four proof tags are pairwise distinct bytes *)
Lemma tags_distinct :
  NoDup [TAG_EMPTY; TAG_TERMINAL; TAG_MIDDLE; TAG_TRUNCATED] /\
  Forall (fun t => t < 256) [TAG_EMPTY; TAG_TERMINAL; TAG_MIDDLE; TAG_TRUNCATED].
Proof.
  split.
  - repeat constructor; cbn; intuition discriminate.
  - repeat constructor.
Qed.

(* encode_type separates Empty / Term / middle, and identifies Mid with MidDbl *)
Lemma encode_type_classes :
  encode_type NtEmpty <> encode_type NtTerm /\ encode_type NtEmpty <> encode_type NtMid /\
  encode_type NtTerm <> encode_type NtMid /\ encode_type NtMid = encode_type NtMidDbl /\
  (forall t, encode_type t < 256).
Proof. repeat split; try discriminate. intros []; reflexivity. Qed.
