(* Merkle/MerkleSpec.v — shared vocabulary of the Merkle set model and the DECLARATIVE
   specification of the root: the hash of the collapsed binary trie of a set of 32-byte leaves.
   Definitions only (proofs are in MerkleSetProofs.v). *)
From ChiaV.Base Require Import Bytes.
From ChiaV.Gen Require Import Mset.
Open Scope N_scope.

(* outcome of a mirrored Rust function: value, Err(SetError), a panic, or the model ran out of fuel *)
Inductive outcome (A : Type) : Type := Ok (a : A) | Err | Panic | OutOfFuel.
Arguments Ok {A} a.
Arguments Err {A}.
Arguments Panic {A}.
Arguments OutOfFuel {A}.

Definition leaf32 (x : bytes) : Prop := length x = 32%nat.

(* fn get_bit(val: &[u8; 32], bit: u8): (val[bit / 8] & (0x80 >> (bit & 7))) != 0 *)
Definition get_bit (v : bytes) (bit : N) : bool :=
  negb (N.land (b2n (nth (N.to_nat (bit / 8)) v x00)) (N.shiftr 128 (N.land bit 7)) =? 0).

Definition node_type_eqb (a b : node_type) : bool := node_type_u8 a =? node_type_u8 b.

Section WithH.
  Variable H : bytes -> bytes.

  (* merkle_set::hash *)
  Definition node_hash (lt rt : node_type) (l r : bytes) : bytes :=
    H (hash_prefix ++ [n2b (encode_type lt); n2b (encode_type rt)] ++ l ++ r).

  (* merkle_tree::hash_leaf, and the single-leaf case of compute_merkle_set_root *)
  Definition hash_leaf (x : bytes) : bytes := H (n2b leaf_prefix :: x).

  (* ---- the specification -------------------------------------------------------------
     A trie node is summarised by (hash, type).  [combine] joins the summaries of the 0-subtree
     and the 1-subtree of one level:
       - nothing below: Empty
       - one side empty: the level collapses (the child is forwarded unchanged), EXCEPT when
         the child is a non-double middle node, where an explicit Empty sibling is hashed in
       - two terminals: a double-leaf middle (MidDbl)
       - otherwise a middle node                                                        *)
  Definition combine (a b : bytes * node_type) : bytes * node_type :=
    match snd a, snd b with
    | NtEmpty, NtEmpty => (BLANK, NtEmpty)
    | NtEmpty, NtMid => (node_hash NtEmpty NtMid BLANK (fst b), NtMid)
    | NtEmpty, _ => b
    | NtMid, NtEmpty => (node_hash NtMid NtEmpty (fst a) BLANK, NtMid)
    | _, NtEmpty => a
    | NtTerm, NtTerm => (node_hash NtTerm NtTerm (fst a) (fst b), NtMidDbl)
    | _, _ => (node_hash (snd a) (snd b) (fst a) (fst b), NtMid)
    end.

  Definition bit0 (d : N) (v : bytes) : bool := negb (get_bit v d).
  Definition bit1 (d : N) (v : bytes) : bool := get_bit v d.

  (* [trie k d l]: summary of the sub-trie at depth d (k = 256 - d levels remain) holding the
     leaves l (all of which agree on bits 0..d-1).  Only membership in l matters
     (MerkleSetProofs.trie_ext): order and multiplicity are irrelevant. *)
  Fixpoint trie (k : nat) (d : N) (l : list bytes) : bytes * node_type :=
    match l with
    | [] => (BLANK, NtEmpty)
    | x :: _ =>
        match k with
        | O => (x, NtTerm)
        | S k' => combine (trie k' (d + 1) (filter (bit0 d) l)) (trie k' (d + 1) (filter (bit1 d) l))
        end
    end.

  (* root of a summary: compute_merkle_set_root's final match / MerkleSet::get_root *)
  Definition root_of (s : bytes * node_type) : bytes :=
    match snd s with
    | NtEmpty => BLANK
    | NtTerm => hash_leaf (fst s)
    | NtMid | NtMidDbl => fst s
    end.

  Definition spec_root (l : list bytes) : bytes := root_of (trie 256 0 l).

  (* set membership, decidable *)
  Definition mem (x : bytes) (l : list bytes) : bool := existsb (bytes_eqb x) l.
End WithH.
