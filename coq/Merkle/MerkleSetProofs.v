(* Merkle/MerkleSetProofs.v — proofs about merkle_set.rs: the 256 bits determine a leaf, the
   two-pointer partition is a partition, the trie summary depends only on the set of leaves,
   radix_sort computes the trie summary (theorem 1: root = reference root of the set). *)
From Coq Require Import ZifyBool ZifyNat ZifyN.
From ChiaV.Base Require Import Bytes.
From ChiaV.Gen Require Import Mset.
From ChiaV.Merkle Require Import MerkleSpec MerkleSet.
Open Scope N_scope.
Ltac Zify.zify_post_hook ::= Z.div_mod_to_equations.


(* ---------- get_bit: the 256 bits determine a 32-byte string ---------- *)
Definition byte_bit (x : byte) (k : N) : bool := negb (N.land (b2n x) (N.shiftr 128 k) =? 0).

Lemma get_bit_byte v i : get_bit v i = byte_bit (nth (N.to_nat (i / 8)) v x00) (i mod 8).
Proof.
  unfold get_bit, byte_bit. change 7 with (N.ones 3). rewrite N.land_ones. reflexivity.
Qed.

Definition byte_of_bits (f : N -> bool) : byte :=
  n2b ((if f 0 then 128 else 0) + (if f 1 then 64 else 0) + (if f 2 then 32 else 0) + (if f 3 then 16 else 0) +
       (if f 4 then 8 else 0) + (if f 5 then 4 else 0) + (if f 6 then 2 else 0) + (if f 7 then 1 else 0)).

Lemma byte_of_bits_bit x : byte_of_bits (byte_bit x) = x.
Proof. destruct x; vm_compute; reflexivity. Qed.

Lemma byte_bit_inj x y : (forall k, k < 8 -> byte_bit x k = byte_bit y k) -> x = y.
Proof.
  intros E. rewrite <- (byte_of_bits_bit x), <- (byte_of_bits_bit y). unfold byte_of_bits.
  rewrite !E by lia. reflexivity.
Qed.

Lemma get_bit_ext a b : leaf32 a -> leaf32 b ->
  (forall i, i < 256 -> get_bit a i = get_bit b i) -> a = b.
Proof.
  unfold leaf32. intros La Lb E.
  apply (nth_ext a b x00 x00); [congruence|].
  intros j Hj. apply byte_bit_inj. intros k Hk.
  specialize (E (8 * N.of_nat j + k)). rewrite !get_bit_byte in E.
  replace ((8 * N.of_nat j + k) / 8) with (N.of_nat j) in E by lia.
  replace ((8 * N.of_nat j + k) mod 8) with k in E by lia.
  rewrite Nat2N.id in E. apply E. lia.
Qed.


Definition agree (d : N) (l : list bytes) : Prop :=
  forall a b, In a l -> In b l -> forall i, i < d -> get_bit a i = get_bit b i.

Definition same_set (l l' : list bytes) : Prop := forall x, In x l <-> In x l'.

Lemma same_set_nil l : same_set [] l -> l = [].
Proof. intros E. destruct l as [|x r]; [reflexivity|]. destruct (proj2 (E x) (or_introl eq_refl)). Qed.

Lemma same_set_sym l l' : same_set l l' -> same_set l' l.
Proof. intros E x. symmetry. apply E. Qed.

Lemma same_set_filter f l l' : same_set l l' -> same_set (filter f l) (filter f l').
Proof. intros E x. rewrite !filter_In, (E x). reflexivity. Qed.

Lemma agree_all_eq l : Forall leaf32 l -> agree 256 l -> forall a b, In a l -> In b l -> a = b.
Proof.
  intros F A a b Ia Ib. rewrite Forall_forall in F.
  apply get_bit_ext; [now apply F|now apply F|]. intros i Hi. now apply A.
Qed.

Lemma agree_filter0 d l : agree d l -> agree (d + 1) (filter (bit0 d) l).
Proof.
  intros A x y Ix Iy i Hi. apply filter_In in Ix, Iy. destruct Ix as [Ix Ex], Iy as [Iy Ey].
  destruct (N.eq_dec i d) as [->|Hn].
  - unfold bit0 in *. destruct (get_bit x d), (get_bit y d); cbn in *; congruence.
  - apply A; auto. lia.
Qed.

Lemma agree_filter1 d l : agree d l -> agree (d + 1) (filter (bit1 d) l).
Proof.
  intros A x y Ix Iy i Hi. apply filter_In in Ix, Iy. destruct Ix as [Ix Ex], Iy as [Iy Ey].
  destruct (N.eq_dec i d) as [->|Hn].
  - unfold bit1 in *. congruence.
  - apply A; auto. lia.
Qed.

Lemma agree_same_set d l l' : same_set l l' -> agree d l -> agree d l'.
Proof. intros E A a b Ia Ib. apply A; now apply E. Qed.

Lemma agree_sub d l l' : (forall x, In x l' -> In x l) -> agree d l -> agree d l'.
Proof. intros E A a b Ia Ib. apply A; now apply E. Qed.

Lemma Forall_filter {A} (P : A -> Prop) f l : Forall P l -> Forall P (filter f l).
Proof. rewrite !Forall_forall. intros F x Ix. apply filter_In in Ix. now apply F. Qed.

Lemma filter_all {A} (f : A -> bool) l : (forall y, In y l -> f y = true) -> filter f l = l.
Proof.
  induction l as [|a l IH]; intros E; [reflexivity|]. cbn [filter]. rewrite (E a) by now left.
  f_equal. apply IH. intros y Iy. apply E. now right.
Qed.

Lemma filter_none {A} (f : A -> bool) l : (forall y, In y l -> f y = false) -> filter f l = [].
Proof.
  induction l as [|a l IH]; intros E; [reflexivity|]. cbn [filter]. rewrite (E a) by now left.
  apply IH. intros y Iy. apply E. now right.
Qed.

Section WithH.
  Variable H : bytes -> bytes.
  Notation trie := (trie H).
  Notation combine := (combine H).

  (* the summary of a sub-trie depends only on the SET of leaves below it *)
  Lemma trie_ext k : forall d l l', d + N.of_nat k = 256 ->
    Forall leaf32 l -> agree d l -> same_set l l' -> trie k d l = trie k d l'.
  Proof.
    induction k as [|k IH]; intros d l l' Hd F A E.
    - destruct l as [|x r].
      + apply same_set_nil in E. now subst.
      + destruct l' as [|y r']; [apply same_set_sym, same_set_nil in E; discriminate|].
        cbn [MerkleSpec.trie]. f_equal.
        replace d with 256 in A by lia.
        apply (agree_all_eq _ F A); [now left|]. apply E. now left.
    - destruct l as [|x r].
      + apply same_set_nil in E. now subst.
      + destruct l' as [|y r']; [apply same_set_sym, same_set_nil in E; discriminate|].
        cbn [MerkleSpec.trie]. f_equal.
        * apply IH; [lia|now apply Forall_filter|now apply agree_filter0|now apply same_set_filter].
        * apply IH; [lia|now apply Forall_filter|now apply agree_filter1|now apply same_set_filter].
  Qed.

  Lemma combine_empty_inv a b : snd (combine a b) = NtEmpty -> snd a = NtEmpty /\ snd b = NtEmpty.
  Proof. destruct a as [ha []], b as [hb []]; cbn; intros E; try discriminate; auto. Qed.

  Lemma trie_nonempty k : forall d l, l <> [] -> snd (trie k d l) <> NtEmpty.
  Proof.
    induction k as [|k IH]; intros d l Hl; destruct l as [|x r]; try congruence; cbn [MerkleSpec.trie].
    - cbn. discriminate.
    - intros E. apply combine_empty_inv in E. destruct E as [Ez Eo].
      destruct (get_bit x d) eqn:B.
      + apply (IH (d + 1) (filter (bit1 d) (x :: r))); [|exact Eo]. cbn [filter]. unfold bit1 at 1. rewrite B. discriminate.
      + apply (IH (d + 1) (filter (bit0 d) (x :: r))); [|exact Ez]. cbn [filter]. unfold bit0 at 1. rewrite B. discriminate.
  Qed.

  Lemma trie_nil k d : trie k d [] = (BLANK, NtEmpty).
  Proof. destruct k; reflexivity. Qed.

  Lemma combine_empty_l b : snd b <> NtEmpty -> snd b <> NtMid -> combine (BLANK, NtEmpty) b = b.
  Proof. destruct b as [h []]; cbn; congruence. Qed.

  Lemma combine_empty_r a : snd a <> NtEmpty -> snd a <> NtMid -> combine a (BLANK, NtEmpty) = a.
  Proof. destruct a as [h []]; cbn; congruence. Qed.

  (* all leaves equal: the sub-trie is that terminal *)
  Lemma trie_all_eq k : forall d x l, l <> [] -> (forall y, In y l -> y = x) -> trie k d l = (x, NtTerm).
  Proof.
    induction k as [|k IH]; intros d x l Hl E; destruct l as [|y r]; try congruence; cbn [MerkleSpec.trie].
    - f_equal. apply E. now left.
    - set (l := y :: r) in *.
      destruct (get_bit x d) eqn:B.
      + rewrite (filter_none (bit0 d) l), (filter_all (bit1 d) l).
        * rewrite trie_nil, (IH _ x l Hl E). reflexivity.
        * intros v Iv. rewrite (E v Iv). exact B.
        * intros v Iv. rewrite (E v Iv). unfold bit0. now rewrite B.
      + rewrite (filter_all (bit0 d) l), (filter_none (bit1 d) l).
        * rewrite trie_nil, (IH _ x l Hl E). reflexivity.
        * intros v Iv. rewrite (E v Iv). exact B.
        * intros v Iv. rewrite (E v Iv). unfold bit0. now rewrite B.
  Qed.

  Lemma trie_singleton k d x : trie k d [x] = (x, NtTerm).
  Proof. apply trie_all_eq; [discriminate|]. intros y [->|[]]. reflexivity. Qed.
End WithH.


(* ---------- slices ---------- *)
Lemma set_nth_length {A} n (v : A) l : length (set_nth n v l) = length l.
Proof. revert n; induction l as [|x r IH]; intros [|n]; cbn; auto. Qed.

Lemma nth_set_nth {A} (d : A) n v l k : (n < length l)%nat ->
  nth k (set_nth n v l) d = if Nat.eqb k n then v else nth k l d.
Proof.
  revert n k; induction l as [|x r IH]; intros n k Hn; cbn in Hn; [lia|].
  destruct n as [|n], k as [|k]; cbn; auto. apply IH. lia.
Qed.

Lemma swap_length l i j : length (swap l i j) = length l.
Proof. unfold swap. now rewrite !set_nth_length. Qed.

Lemma nth_swap l i j k : (i < length l)%nat -> (j < length l)%nat ->
  nth k (swap l i j) [] = if Nat.eqb k j then nth i l [] else if Nat.eqb k i then nth j l [] else nth k l [].
Proof.
  intros Hi Hj. unfold swap. rewrite nth_set_nth by now rewrite set_nth_length.
  destruct (Nat.eqb k j); [reflexivity|]. now rewrite nth_set_nth.
Qed.

Lemma In_nth_iff (l : list bytes) x : In x l <-> exists k, (k < length l)%nat /\ nth k l [] = x.
Proof.
  split.
  - intros I. destruct (In_nth l x [] I) as [k [Hk E]]. eauto.
  - intros [k [Hk <-]]. now apply nth_In.
Qed.

Lemma swap_same_set l i j : (i < length l)%nat -> (j < length l)%nat -> same_set (swap l i j) l.
Proof.
  intros Hi Hj x. rewrite !In_nth_iff. rewrite swap_length. split; intros [k [Hk E]].
  - rewrite nth_swap in E by assumption.
    destruct (Nat.eqb k j); [exists i; auto|]. destruct (Nat.eqb k i); [exists j; auto|]. exists k; auto.
  - destruct (Nat.eq_dec k i) as [->|Ni]; [|destruct (Nat.eq_dec k j) as [->|Nj]].
    + exists j. split; [assumption|]. rewrite nth_swap by assumption. rewrite Nat.eqb_refl. exact E.
    + exists i. split; [assumption|]. rewrite nth_swap by assumption.
      destruct (Nat.eqb_spec i j); [congruence|]. rewrite Nat.eqb_refl. exact E.
    + exists k. split; [assumption|]. rewrite nth_swap by assumption.
      destruct (Nat.eqb_spec k j); [congruence|]. destruct (Nat.eqb_spec k i); [congruence|]. exact E.
Qed.

(* ---------- the two-pointer partition ---------- *)
Definition part_post (d : N) (range range' : list bytes) (lft rgt : Z) : Prop :=
  length range' = length range /\ same_set range' range /\
  (0 <= lft <= Z.of_nat (length range))%Z /\ rgt = (lft - 1)%Z /\
  (forall i, (i < Z.to_nat lft)%nat -> get_bit (nth i range' []) d = false) /\
  (forall i, (Z.to_nat lft <= i < length range)%nat -> get_bit (nth i range' []) d = true).

Lemma part_loop_ok d range0 : forall fuel range lft rgt,
  (Z.to_nat (rgt - lft + 1) < fuel)%nat ->
  length range = length range0 -> same_set range range0 ->
  (0 <= lft)%Z -> (rgt < Z.of_nat (length range))%Z -> (lft <= rgt + 1)%Z ->
  (forall i, (i < Z.to_nat lft)%nat -> get_bit (nth i range []) d = false) ->
  (forall i, (rgt < Z.of_nat i)%Z -> (i < length range)%nat -> get_bit (nth i range []) d = true) ->
  exists range' l' r', part_loop fuel d range lft rgt = Some (range', l', r') /\ part_post d range0 range' l' r'.
Proof.
  induction fuel as [|f IH]; intros range lft rgt Hf HL HS H0 Hr Hlr P0 P1; [lia|].
  cbn [part_loop].
  destruct (Z.leb_spec lft rgt) as [Hle|Hgt].
  - set (lb := get_bit (nth (Z.to_nat lft) range []) d).
    set (rb := get_bit (nth (Z.to_nat rgt) range []) d).
    destruct lb eqn:Elb; destruct rb eqn:Erb; cbn [andb negb].
    + (* 1,1: right moves *)
      apply IH; try assumption; try lia.
      intros i Hi Hi2. destruct (Z.eq_dec (Z.of_nat i) rgt) as [E|N].
      * replace i with (Z.to_nat rgt) by lia. exact Erb.
      * apply P1; lia.
    + (* 1,0: swap *)
      assert (lft <> rgt) by (intros ->; unfold lb, rb in *; congruence).
      assert (Hi : (Z.to_nat lft < length range)%nat) by lia.
      assert (Hj : (Z.to_nat rgt < length range)%nat) by lia.
      apply IH; try lia.
      * now rewrite swap_length.
      * intros x. rewrite (swap_same_set range _ _ Hi Hj x). apply HS.
      * rewrite swap_length. lia.
      * intros i Hi2. rewrite nth_swap by assumption.
        destruct (Nat.eqb_spec i (Z.to_nat rgt)); [lia|].
        destruct (Nat.eqb_spec i (Z.to_nat lft)); [exact Erb|]. apply P0. lia.
      * intros i Hi2 Hi3. rewrite swap_length in Hi3. rewrite nth_swap by assumption.
        destruct (Nat.eqb_spec i (Z.to_nat rgt)); [exact Elb|].
        destruct (Nat.eqb_spec i (Z.to_nat lft)); [lia|]. apply P1; lia.
    + (* 0,1: both move *)
      assert (lft <> rgt) by (intros ->; unfold lb, rb in *; congruence).
      apply IH; try assumption; try lia.
      * intros i Hi. destruct (Nat.eq_dec i (Z.to_nat lft)) as [->|N]; [exact Elb|]. apply P0. lia.
      * intros i Hi Hi2. destruct (Z.eq_dec (Z.of_nat i) rgt) as [E|N].
        -- replace i with (Z.to_nat rgt) by lia. exact Erb.
        -- apply P1; lia.
    + (* 0,0: left moves *)
      apply IH; try assumption; try lia.
      intros i Hi. destruct (Nat.eq_dec i (Z.to_nat lft)) as [->|N]; [exact Elb|]. apply P0. lia.
  - exists range, lft, rgt. split; [reflexivity|].
    unfold part_post. repeat split; try assumption; try lia.
    + apply HS.
    + apply HS.
    + intros i Hi. apply P1; lia.
Qed.

Lemma partition_ok d range :
  exists range' l' r', partition d range = Some (range', l', r') /\ part_post d range range' l' r'.
Proof.
  unfold partition. apply part_loop_ok; try lia; try reflexivity.
  intros x; reflexivity.
Qed.

(* consequences in terms of the two sub-slices *)
Record part_split (d : N) (range range' : list bytes) (lft rgt : Z) : Prop := {
  ps_len : length range' = length range;
  ps_set : same_set range' range;
  ps_lft : (0 <= lft <= Z.of_nat (length range))%Z;
  ps_rgt : rgt = (lft - 1)%Z;
  ps_zero : same_set (firstn (Z.to_nat lft) range') (filter (bit0 d) range);
  ps_one : same_set (skipn (Z.to_nat lft) range') (filter (bit1 d) range);
  ps_zlen : length (firstn (Z.to_nat lft) range') = Z.to_nat lft;
  ps_olen : length (skipn (Z.to_nat lft) range') = (length range - Z.to_nat lft)%nat
}.

Lemma part_post_split d range range' lft rgt :
  part_post d range range' lft rgt -> part_split d range range' lft rgt.
Proof.
  intros (HL & HS & Hl & Hr & P0 & P1).
  set (n := Z.to_nat lft) in *.
  assert (Hn : (n <= length range')%nat) by lia.
  assert (Z0 : forall x, In x (firstn n range') -> get_bit x d = false).
  { intros x I. apply In_nth_iff in I. destruct I as [k [Hk E]]. rewrite firstn_length in Hk.
    rewrite <- E. rewrite <- (firstn_skipn n range') in P0.
    specialize (P0 k). rewrite app_nth1 in P0 by (rewrite firstn_length; lia). apply P0. lia. }
  assert (O1 : forall x, In x (skipn n range') -> get_bit x d = true).
  { intros x I. apply In_nth_iff in I. destruct I as [k [Hk E]]. rewrite skipn_length in Hk.
    rewrite <- E. rewrite <- (firstn_skipn n range') in P1.
    specialize (P1 (n + k)%nat). rewrite app_nth2 in P1 by (rewrite firstn_length; lia).
    rewrite firstn_length in P1. replace (n + k - Nat.min n (length range'))%nat with k in P1 by lia.
    apply P1. lia. }
  constructor; try assumption.
  - intros x. rewrite filter_In. split.
    + intros I. split; [apply HS; rewrite <- (firstn_skipn n range'); apply in_or_app; now left|].
      unfold bit0. now rewrite (Z0 x I).
    + intros [I B]. apply HS in I. rewrite <- (firstn_skipn n range') in I. apply in_app_or in I.
      destruct I as [I|I]; [exact I|]. unfold bit0 in B. rewrite (O1 x I) in B. discriminate.
  - intros x. rewrite filter_In. split.
    + intros I. split; [apply HS; rewrite <- (firstn_skipn n range'); apply in_or_app; now right|].
      unfold bit1. now rewrite (O1 x I).
    + intros [I B]. apply HS in I. rewrite <- (firstn_skipn n range') in I. apply in_app_or in I.
      destruct I as [I|I]; [|exact I]. unfold bit1 in B. rewrite (Z0 x I) in B. discriminate.
  - rewrite firstn_length. lia.
  - rewrite skipn_length. lia.
Qed.

Lemma partition_split d range :
  exists range' l' r', partition d range = Some (range', l', r') /\ part_split d range range' l' r'.
Proof.
  destruct (partition_ok d range) as (r' & l & r & E & P). exists r', l, r. split; [exact E|].
  now apply part_post_split.
Qed.


Lemma same_set_nonempty l l' : same_set l l' -> l <> [] -> l' <> [].
Proof. intros E Hl ->. apply Hl. apply same_set_nil. now apply same_set_sym. Qed.

Lemma Forall_same_set (P : bytes -> Prop) l l' : same_set l l' -> Forall P l -> Forall P l'.
Proof. rewrite !Forall_forall. intros E F x Ix. apply F. now apply E. Qed.

Lemma length_nonempty {A} (l : list A) : (0 < length l)%nat -> l <> [].
Proof. destruct l; cbn; [lia|discriminate]. Qed.

Lemma nth0_in {A} (l : list A) d : l <> [] -> In (nth 0 l d) l.
Proof. destruct l; [congruence|]. intros _. now left. Qed.

Lemma nth_skipn_hd {A} (l : list A) n d : nth n l d = nth 0 (skipn n l) d.
Proof. revert n; induction l as [|x r IH]; intros [|n]; cbn; auto. Qed.

Lemma nth0_firstn {A} (l : list A) n d : (0 < n)%nat -> nth 0 (firstn n l) d = nth 0 l d.
Proof. destruct n; [lia|]. destruct l; reflexivity. Qed.

Section WithH.
  Variable H : bytes -> bytes.
  Notation trie := (trie H).
  Notation combine := (combine H).
  Notation radix_sort := (radix_sort H).

  Lemma trie_step k d l : l <> [] ->
    trie (S k) d l = combine (trie k (d + 1) (filter (bit0 d) l)) (trie k (d + 1) (filter (bit1 d) l)).
  Proof. destruct l; [congruence|reflexivity]. Qed.

  Lemma trie_zero d l : l <> [] -> trie 0 d l = (nth 0 l [], NtTerm).
  Proof. destruct l; [congruence|reflexivity]. Qed.

  (* every element lies in the zero part or the one part *)
  Lemma in_zero_or_one d (l : list bytes) x : In x l -> In x (filter (bit0 d) l) \/ In x (filter (bit1 d) l).
  Proof.
    intros I. rewrite !filter_In. unfold bit0, bit1. destruct (get_bit x d); [right|left]; auto.
  Qed.

  Lemma radix_sort_spec : forall fuel k d range,
    d + N.of_nat k = 256 -> (1 <= k)%nat -> (k <= fuel)%nat ->
    range <> [] -> Forall leaf32 range -> agree d range ->
    radix_sort fuel range d = Ok (trie k d range).
  Proof.
    induction fuel as [|f IH]; intros k d range Hd Hk Hf Hne F A; [lia|].
    destruct k as [|k']; [lia|].
    cbn [MerkleSet.radix_sort].
    destruct range as [|x [|y r]]; [congruence|now rewrite trie_singleton|].
    set (range := x :: y :: r) in *.
    destruct (partition_split d range) as (range' & lft & rgt & EP & PS). rewrite EP.
    destruct PS as [HL HS Hl Hr SZ SO LZ LO].
    assert (Hlen : (2 <= length range)%nat) by (unfold range; cbn; lia).
    assert (Hne' : range' <> []) by (apply length_nonempty; lia).
    assert (F' : Forall leaf32 range') by (apply (Forall_same_set _ range); [now apply same_set_sym|assumption]).
    rewrite (trie_step k' d range Hne).
    set (zs := filter (bit0 d) range) in *. set (os := filter (bit1 d) range) in *.
    assert (Fz : Forall leaf32 zs) by now apply Forall_filter.
    assert (Fo : Forall leaf32 os) by now apply Forall_filter.
    assert (Az : agree (d + 1) zs) by now apply agree_filter0.
    assert (Ao : agree (d + 1) os) by now apply agree_filter1.
    destruct (Z.eqb_spec lft 0) as [L0|L0]; [|destruct (Z.eqb_spec rgt (Z.of_nat (length range) - 1)) as [R0|R0]]; cbn [orb].
    - (* left bucket empty *)
      assert (Ez : zs = []).
      { apply same_set_nil. rewrite L0 in SZ. exact SZ. }
      assert (So : same_set range' os) by (rewrite L0 in SO; exact SO).
      assert (Hos : os <> []) by (apply (same_set_nonempty range'); assumption).
      rewrite Ez, trie_nil.
      destruct (N.eqb_spec d last_depth) as [D|D].
      + unfold last_depth in D. assert (k' = 0%nat) by lia. subst k'.
        rewrite (trie_zero _ os Hos). cbn. f_equal. f_equal.
        replace (d + 1) with 256 in Ao by lia.
        apply (agree_all_eq os Fo Ao).
        * apply So. now apply nth0_in.
        * now apply nth0_in.
      + unfold last_depth in D.
        rewrite (IH k' (d + 1) range'); try lia; try assumption.
        2:{ apply (agree_same_set _ os); [now apply same_set_sym|assumption]. }
        rewrite (trie_ext H k' (d + 1) range' os); try lia; try assumption.
        2:{ apply (agree_same_set _ os); [now apply same_set_sym|assumption]. }
        pose proof (trie_nonempty H k' (d + 1) os Hos) as NE.
        destruct (trie k' (d + 1) os) as [ch ct]. cbn in NE.
        destruct ct; try congruence; reflexivity.
    - (* right bucket empty *)
      assert (Ll : Z.to_nat lft = length range') by lia.
      assert (Eo : os = []).
      { apply same_set_nil. rewrite Ll, skipn_all in SO. exact SO. }
      assert (Sz : same_set range' zs) by (rewrite Ll, firstn_all in SZ; exact SZ).
      assert (Hzs : zs <> []) by (apply (same_set_nonempty range'); assumption).
      rewrite Eo, trie_nil.
      destruct (N.eqb_spec d last_depth) as [D|D].
      + unfold last_depth in D. assert (k' = 0%nat) by lia. subst k'.
        rewrite (trie_zero _ zs Hzs). cbn. f_equal. f_equal.
        replace (d + 1) with 256 in Az by lia.
        apply (agree_all_eq zs Fz Az).
        * apply Sz. now apply nth0_in.
        * now apply nth0_in.
      + unfold last_depth in D.
        rewrite (IH k' (d + 1) range'); try lia; try assumption.
        2:{ apply (agree_same_set _ zs); [now apply same_set_sym|assumption]. }
        rewrite (trie_ext H k' (d + 1) range' zs); try lia; try assumption.
        2:{ apply (agree_same_set _ zs); [now apply same_set_sym|assumption]. }
        pose proof (trie_nonempty H k' (d + 1) zs Hzs) as NE.
        destruct (trie k' (d + 1) zs) as [ch ct]. cbn in NE.
        destruct ct; try congruence; reflexivity.
    - (* both buckets non-empty *)
      set (n := Z.to_nat lft) in *.
      assert (Hn : (0 < n < length range)%nat) by lia.
      assert (Hfz : firstn n range' <> []) by (apply length_nonempty; lia).
      assert (Hfo : skipn n range' <> []) by (apply length_nonempty; lia).
      assert (Hzs : zs <> []) by (apply (same_set_nonempty (firstn n range')); assumption).
      assert (Hos : os <> []) by (apply (same_set_nonempty (skipn n range')); assumption).
      destruct (N.eqb_spec d last_depth) as [D|D].
      + unfold last_depth in D. assert (k' = 0%nat) by lia. subst k'.
        rewrite (trie_zero _ zs Hzs), (trie_zero _ os Hos). cbn. f_equal. f_equal.
        replace (d + 1) with 256 in Az, Ao by lia. f_equal.
        * apply (agree_all_eq zs Fz Az); [|now apply nth0_in].
          apply SZ. rewrite <- (nth0_firstn range' n) by lia. now apply nth0_in.
        * apply (agree_all_eq os Fo Ao); [|now apply nth0_in].
          apply SO. rewrite nth_skipn_hd. now apply nth0_in.
      + unfold last_depth in D.
        assert (Ffz : Forall leaf32 (firstn n range')) by (apply (Forall_same_set _ zs); [now apply same_set_sym|assumption]).
        assert (Ffo : Forall leaf32 (skipn n range')) by (apply (Forall_same_set _ os); [now apply same_set_sym|assumption]).
        assert (Afz : agree (d + 1) (firstn n range')) by (apply (agree_same_set _ zs); [now apply same_set_sym|assumption]).
        assert (Afo : agree (d + 1) (skipn n range')) by (apply (agree_same_set _ os); [now apply same_set_sym|assumption]).
        rewrite (IH k' (d + 1) (firstn n range')); try lia; try assumption.
        rewrite (trie_ext H k' (d + 1) (firstn n range') zs); try lia; try assumption.
        rewrite (IH k' (d + 1) (skipn n range')); try lia; try assumption.
        rewrite (trie_ext H k' (d + 1) (skipn n range') os); try lia; try assumption.
        pose proof (trie_nonempty H k' (d + 1) zs Hzs) as NEz.
        pose proof (trie_nonempty H k' (d + 1) os Hos) as NEo.
        destruct (trie k' (d + 1) zs) as [lh lt], (trie k' (d + 1) os) as [rh rt]. cbn in NEz, NEo.
        destruct lt, rt; try congruence; reflexivity.
  Qed.

  (* (1) the computed root is the reference root *)
  Lemma compute_root_spec l : Forall leaf32 l -> compute_merkle_set_root H l = Ok (spec_root H l).
  Proof.
    intros F. unfold compute_merkle_set_root, spec_root.
    destruct l as [|x r]; [reflexivity|].
    rewrite (radix_sort_spec 256 256 0 (x :: r)); try lia; try assumption; try discriminate.
    2:{ intros a b _ _ i Hi. lia. }
    pose proof (trie_nonempty H 256 0 (x :: r)) as NE.
    destruct (trie 256 0 (x :: r)) as [h t]. cbn in NE. unfold root_of. cbn [fst snd].
    destruct t; try reflexivity. exfalso. apply NE; [discriminate|reflexivity].
  Qed.

  Lemma spec_root_ext l l' : Forall leaf32 l -> same_set l l' -> spec_root H l = spec_root H l'.
  Proof.
    intros F E. unfold spec_root. f_equal. apply trie_ext; try assumption; try lia.
    intros a b _ _ i Hi. lia.
  Qed.

  Lemma compute_root_set_invariant l l' : Forall leaf32 l -> Forall leaf32 l' -> (forall x, In x l <-> In x l') ->
    compute_merkle_set_root H l = compute_merkle_set_root H l'.
  Proof.
    intros F F' E. rewrite !compute_root_spec by assumption. f_equal. now apply spec_root_ext.
  Qed.
End WithH.
