(* Merkle/MerkleProofSpec.v — abstract (tree-level) reading of the node vector and of proofs:
   stored trees denoted by a node vector, the tree built by from_leafs as a function of the set,
   tree-level generate_proof, proof trees and their serialisation, the tree deserialize_proof
   builds from a proof tree, and validation at tree level.  Definitions only. *)
From ChiaV.Base Require Import Bytes.
From ChiaV.Gen Require Import Mset.
From ChiaV.Merkle Require Import MerkleSpec MerkleSet MerkleTree.
Open Scope N_scope.

(* ---- stored trees: what a node index in a node vector denotes ---- *)
Inductive stree := SLeaf (x : bytes) | SEmpty (h : bytes) | STrunc (h : bytes) | SMid (h : bytes) (l r : stree).

Definition shash (t : stree) : bytes :=
  match t with SLeaf x => x | SEmpty h => h | STrunc h => h | SMid h _ _ => h end.

(* NodeType::from(ArrayTypes) of the node *)
Definition satype (t : stree) : node_type :=
  match t with SLeaf _ => NtTerm | SEmpty _ => NtEmpty | STrunc _ | SMid _ _ _ => NtMid end.

(* the NodeType a builder returns together with the node: MidDbl = Middle(Leaf, Leaf) *)
Definition stype (t : stree) : node_type :=
  match t with
  | SLeaf _ => NtTerm
  | SEmpty _ => NtEmpty
  | STrunc _ => NtMid
  | SMid _ (SLeaf _) (SLeaf _) => NtMidDbl
  | SMid _ _ _ => NtMid
  end.

Definition ssum (t : stree) : bytes * node_type := (shash t, stype t).
Definition osum (o : option stree) : bytes * node_type :=
  match o with None => (BLANK, NtEmpty) | Some t => ssum t end.

Inductive rep (nv : nodes) : N -> stree -> Prop :=
| rep_leaf i x : node_at nv i = Some (ALeaf, x) -> rep nv i (SLeaf x)
| rep_empty i h : node_at nv i = Some (AEmpty, h) -> rep nv i (SEmpty h)
| rep_trunc i h : node_at nv i = Some (ATruncated, h) -> rep nv i (STrunc h)
| rep_mid i l r h tl tr : node_at nv i = Some (AMiddle l r, h) -> l < i -> r < i ->
                          rep nv l tl -> rep nv r tr -> rep nv i (SMid h tl tr).

Fixpoint sheight (t : stree) : nat :=
  match t with SMid _ l r => S (Nat.max (sheight l) (sheight r)) | _ => O end.

(* ---- tree-level other_included / generate_proof_impl ---- *)
Definition s_other (t : stree) : bytes :=
  match t with
  | SEmpty _ => [tagb TAG_EMPTY]
  | SMid h _ _ | STrunc h => tagb TAG_TRUNCATED :: h
  | SLeaf h => tagb TAG_TERMINAL :: h
  end.

Fixpoint s_proof (t : stree) (leaf : bytes) (depth : N) : outcome (bool * bytes) :=
  match t with
  | SEmpty _ => Ok (false, [tagb TAG_EMPTY])
  | SLeaf h => Ok (bytes_eqb h leaf, tagb TAG_TERMINAL :: h)
  | STrunc _ => Err
  | SMid _ l r =>
      let descend :=
        if get_bit leaf depth then
          match s_proof r leaf (u8_succ depth) with
          | Ok (b, p) => Ok (b, [tagb TAG_MIDDLE] ++ s_other l ++ p)
          | e => e
          end
        else
          match s_proof l leaf (u8_succ depth) with
          | Ok (b, p) => Ok (b, [tagb TAG_MIDDLE] ++ p ++ s_other r)
          | e => e
          end in
      match l, r with
      | SLeaf lh, SLeaf rh =>
          match pad_middles 257 lh rh depth with
          | Some p => Ok (bytes_eqb lh leaf || bytes_eqb rh leaf, p)
          | None => OutOfFuel
          end
      | _, _ => descend
      end
  end.

Section WithH.
  Variable H : bytes -> bytes.

  (* ---- the tree from_leafs builds, as a function of the set (same recursion as MerkleSpec.trie) ---- *)
  Definition sjoin (z o : option stree) : option stree :=
    match z, o with
    | None, None => None
    | None, Some c =>
        if node_type_eqb (stype c) NtMid
        then Some (SMid (node_hash H NtEmpty NtMid BLANK (shash c)) (SEmpty EMPTY_NODE_HASH) c)
        else Some c
    | Some c, None =>
        if node_type_eqb (stype c) NtMid
        then Some (SMid (node_hash H NtMid NtEmpty (shash c) BLANK) c (SEmpty EMPTY_NODE_HASH))
        else Some c
    | Some a, Some b => Some (SMid (node_hash H (stype a) (stype b) (shash a) (shash b)) a b)
    end.

  Fixpoint build (k : nat) (d : N) (l : list bytes) : option stree :=
    match l with
    | [] => None
    | x :: _ =>
        match k with
        | O => Some (SLeaf x)
        | S k' => sjoin (build k' (d + 1) (filter (bit0 d) l)) (build k' (d + 1) (filter (bit1 d) l))
        end
    end.

  (* the tree denoted by from_leafs(l) (root = last node) *)
  Definition leafs_tree (l : list bytes) : stree :=
    match build 256 0 l with Some t => t | None => SEmpty BLANK end.

  (* ---- proof trees: what a proof byte string denotes ---- *)
  Inductive ptree := PEmpty | PTerm (x : bytes) | PTrunc (h : bytes) | PMid (l r : ptree).

  Fixpoint pser (p : ptree) : bytes :=
    match p with
    | PEmpty => [tagb TAG_EMPTY]
    | PTerm x => tagb TAG_TERMINAL :: x
    | PTrunc h => tagb TAG_TRUNCATED :: h
    | PMid l r => tagb TAG_MIDDLE :: pser l ++ pser r
    end.

  (* what ParseOp::Middle leaves on the `values` stack for a parsed subtree: the node it refers to
     (collapsed one-sided levels above a double-leaf node refer to the node below) and its NodeType *)
  Fixpoint pval (p : ptree) : stree * node_type :=
    match p with
    | PEmpty => (SEmpty BLANK, NtEmpty)
    | PTerm x => (SLeaf x, NtTerm)
    | PTrunc h => (STrunc h, NtMid)
    | PMid l r =>
        let '(sl, tl) := pval l in
        let '(sr, tr) := pval r in
        match tl, tr with
        | NtEmpty, NtMidDbl => (sr, NtMidDbl)
        | NtMidDbl, NtEmpty => (sl, NtMidDbl)
        | _, _ => (SMid (node_hash H (satype sl) (satype sr) (shash sl) (shash sr)) sl sr, middle_type tl tr)
        end
    end.

  (* the LAST node pushed while parsing p: for a collapsed level this is the orphan Middle node
     carrying the copied hash; get_root and generate_proof of a from_proof tree start here *)
  Definition plast (p : ptree) : stree :=
    match p with
    | PMid l r =>
        let '(sl, tl) := pval l in
        let '(sr, tr) := pval r in
        match tl, tr with
        | NtEmpty, NtMidDbl => SMid (shash sr) sl sr
        | NtMidDbl, NtEmpty => SMid (shash sl) sl sr
        | _, _ => fst (pval p)
        end
    | _ => fst (pval p)
    end.

  (* leaf-position audit, nesting limit and field widths of a parsed proof *)
  Fixpoint paudit (bits : list bool) (p : ptree) : bool :=
    match p with
    | PTerm x => audit bits x
    | PMid l r => paudit (bits ++ [false]) l && paudit (bits ++ [true]) r
    | _ => true
    end.

  Fixpoint pdepth_ok (depth : Z) (p : ptree) : bool :=
    match p with
    | PMid l r => negb (Z.of_N proof_depth_limit <? depth)%Z && pdepth_ok (depth + 1) l && pdepth_ok (depth + 1) r
    | _ => true
    end.

  Fixpoint pwf (p : ptree) : bool :=
    match p with
    | PEmpty => true
    | PTerm x => Nat.eqb (length x) 32
    | PTrunc h => Nat.eqb (length h) 32
    | PMid l r => pwf l && pwf r
    end.

  Definition pvalid (p : ptree) : bool := pwf p && paudit [] p && pdepth_ok 0 p.

  (* recursive-descent reading of the proof format: the specification of deserialize_proof_impl's
     stack machine (MerkleDeserProofs.deser_sim).  One unit of fuel per nesting level. *)
  Fixpoint pparse (fuel : nat) (bits : list bool) (depth : Z) (input : bytes) : option (ptree * bytes) :=
    match fuel with
    | O => None
    | S f =>
        match input with
        | [] => None
        | b :: rest =>
            let t := b2n b in
            if t =? TAG_EMPTY then Some (PEmpty, rest)
            else if t =? TAG_TERMINAL then
              if (length rest <? 32)%nat then None
              else if audit bits (firstn 32 rest) then Some (PTerm (firstn 32 rest), skipn 32 rest) else None
            else if t =? TAG_TRUNCATED then
              if (length rest <? 32)%nat then None
              else Some (PTrunc (firstn 32 rest), skipn 32 rest)
            else if t =? TAG_MIDDLE then
              if (Z.of_N proof_depth_limit <? depth)%Z then None
              else
                match pparse f (bits ++ [false]) (depth + 1) rest with
                | Some (l, r1) =>
                    match pparse f (bits ++ [true]) (depth + 1) r1 with
                    | Some (r, r2) => Some (PMid l r, r2)
                    | None => None
                    end
                | None => None
                end
            else None
        end
    end.

  (* iterations of the `while let Some(op) = ops.pop()` loop spent on a subtree *)
  Fixpoint msteps (p : ptree) : nat :=
    match p with PMid l r => S (msteps l + msteps r + 1) | _ => 1%nat end.

  (* get_root of the tree deserialised from p *)
  Definition sroot (t : stree) : bytes :=
    match t with
    | SLeaf x => hash_leaf H x
    | SMid h _ _ | STrunc h => h
    | SEmpty _ => BLANK
    end.

  (* explicit hash anomalies (nothing is assumed about H): two distinct inputs with equal digest,
     or an input whose digest is the all-zero BLANK (the root of the empty set) *)
  Definition collision : Prop := exists a b : bytes, a <> b /\ H a = H b.
  Definition zero_preimage : Prop := exists m : bytes, H m = BLANK.

  (* validate_merkle_proof at tree level *)
  Definition tvalidate (p : ptree) (item root : bytes) : outcome bool :=
    if negb (bytes_eqb (sroot (plast p)) root) then Err
    else match s_proof (plast p) item 0 with
         | Ok (b, _) => Ok b
         | Err => Err | Panic => Panic | OutOfFuel => OutOfFuel
         end.

  (* ---- proof generation at tree level: generate_proof_impl / pad_middles_for_proof_gen producing a
     proof TREE; its serialisation is what the byte-level functions emit (MerkleCompleteProofs.s_proof_ser) ---- *)
  Fixpoint pad_tree (fuel : nat) (lft rgt : bytes) (depth : N) : option ptree :=
    match fuel with
    | O => None
    | S f =>
        let left_bit := get_bit lft depth in
        let right_bit := get_bit rgt depth in
        if negb (Bool.eqb left_bit right_bit) then Some (PMid (PTerm lft) (PTerm rgt))
        else if left_bit then
          match pad_tree f lft rgt (u8_succ depth) with Some p => Some (PMid PEmpty p) | None => None end
        else
          match pad_tree f lft rgt (u8_succ depth) with Some p => Some (PMid p PEmpty) | None => None end
    end.

  Definition s_other_tree (t : stree) : ptree :=
    match t with
    | SEmpty _ => PEmpty
    | SMid h _ _ | STrunc h => PTrunc h
    | SLeaf h => PTerm h
    end.

  Fixpoint s_proof_tree (t : stree) (leaf : bytes) (depth : N) : outcome (bool * ptree) :=
    match t with
    | SEmpty _ => Ok (false, PEmpty)
    | SLeaf h => Ok (bytes_eqb h leaf, PTerm h)
    | STrunc _ => Err
    | SMid _ l r =>
        let descend :=
          if get_bit leaf depth then
            match s_proof_tree r leaf (u8_succ depth) with
            | Ok (b, p) => Ok (b, PMid (s_other_tree l) p)
            | e => e
            end
          else
            match s_proof_tree l leaf (u8_succ depth) with
            | Ok (b, p) => Ok (b, PMid p (s_other_tree r))
            | e => e
            end in
        match l, r with
        | SLeaf lh, SLeaf rh =>
            match pad_tree 257 lh rh depth with
            | Some p => Ok (bytes_eqb lh leaf || bytes_eqb rh leaf, p)
            | None => OutOfFuel
            end
        | _, _ => descend
        end
    end.
End WithH.
