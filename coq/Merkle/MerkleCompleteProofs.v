(* Merkle/MerkleCompleteProofs.v — completeness of proofs (theorem 3): the bytes generate_proof
   emits are the serialisation of a proof tree; that tree passes the audit and the nesting limit,
   deserialises to a tree with the root of the set, and answers the query with the truth. *)
From Coq Require Import ZifyBool ZifyNat ZifyN.
From ChiaV.Base Require Import Bytes.
From ChiaV.Gen Require Import Mset.
From ChiaV.Merkle Require Import MerkleSpec MerkleSet MerkleTree MerkleSetProofs MerkleProofSpec MerkleTreeProofs MerkleDeserProofs MerkleSoundProofs.
Open Scope N_scope.
Ltac Zify.zify_post_hook ::= Z.div_mod_to_equations.


Lemma pad_ser : forall fuel a b d, pad_middles fuel a b d = option_map pser (pad_tree fuel a b d).
Proof.
  induction fuel as [|f IH]; intros a b d; [reflexivity|].
  cbn [pad_middles pad_tree]. destruct (negb (Bool.eqb (get_bit a d) (get_bit b d))).
  - reflexivity.
  - destruct (get_bit a d); rewrite IH; destruct (pad_tree f a b (u8_succ d)); reflexivity.
Qed.

Lemma s_other_ser t : s_other t = pser (s_other_tree t).
Proof. destruct t; reflexivity. Qed.

Lemma s_proof_ser t x : forall d, s_proof t x d =
  match s_proof_tree t x d with Ok (b, p) => Ok (b, pser p) | Err => Err | Panic => Panic | OutOfFuel => OutOfFuel end.
Proof.
  induction t as [y|h|h|h l IHl r IHr]; intros d; try reflexivity.
  assert (D : (if get_bit x d
               then match s_proof r x (u8_succ d) with Ok (b, p) => Ok (b, [tagb TAG_MIDDLE] ++ s_other l ++ p) | e => e end
               else match s_proof l x (u8_succ d) with Ok (b, p) => Ok (b, [tagb TAG_MIDDLE] ++ p ++ s_other r) | e => e end)
              = match (if get_bit x d
                       then match s_proof_tree r x (u8_succ d) with Ok (b, p) => Ok (b, PMid (s_other_tree l) p) | e => e end
                       else match s_proof_tree l x (u8_succ d) with Ok (b, p) => Ok (b, PMid p (s_other_tree r)) | e => e end)
                with Ok (b, p) => Ok (b, pser p) | Err => Err | Panic => Panic | OutOfFuel => OutOfFuel end).
  { destruct (get_bit x d).
    - rewrite IHr. destruct (s_proof_tree r x (u8_succ d)) as [[b p]| | |]; try reflexivity. now rewrite s_other_ser.
    - rewrite IHl. destruct (s_proof_tree l x (u8_succ d)) as [[b p]| | |]; try reflexivity. now rewrite s_other_ser. }
  cbn [s_proof s_proof_tree].
  destruct l as [ly| | |]; try exact D. destruct r as [ry| | |]; try exact D.
  rewrite pad_ser. destruct (pad_tree 257 ly ry d); reflexivity.
Qed.


(* ---------- audit: extension by one bit, and what it means ---------- *)
Lemma audit_from_snoc h : forall bits pos v,
  audit_from pos (bits ++ [v]) h = audit_from pos bits h && Bool.eqb (get_bit h ((pos + N.of_nat (length bits)) mod 256)) v.
Proof.
  induction bits as [|w r IH]; intros pos v.
  - cbn [app audit_from length]. rewrite N.add_0_r. destruct (Bool.eqb _ v); reflexivity.
  - cbn [app audit_from length]. destruct (Bool.eqb (get_bit h (pos mod 256)) w); [|reflexivity].
    rewrite IH. do 3 f_equal. lia.
Qed.

Lemma audit_snoc bits v h : audit (bits ++ [v]) h = audit bits h && Bool.eqb (get_bit h (N.of_nat (length bits) mod 256)) v.
Proof. unfold audit. now rewrite audit_from_snoc. Qed.

Lemma audit_xbits_intro x y : forall d, (d <= 256)%nat ->
  (forall i, i < N.of_nat d -> get_bit y i = get_bit x i) -> audit (xbits x d) y = true.
Proof.
  induction d as [|d IH]; intros Hd E; [reflexivity|].
  rewrite xbits_S, audit_snoc, xbits_length, IH; try lia.
  - rewrite N.mod_small by lia. rewrite E by lia. cbn. apply eqb_reflx.
  - intros i Hi. apply E. lia.
Qed.

(* ---------- the chain re-introduced by pad_middles_for_proof_gen ---------- *)
Section WithH.
  Variable H : bytes -> bytes.
  Notation pval := (pval H).
  Notation node_hash := (node_hash H).

  Lemma pad_tree_spec a b : leaf32 a -> leaf32 b -> forall n dn m fuel bits,
    (m - dn = n)%nat -> (dn <= m < 256)%nat -> (m - dn < fuel)%nat ->
    (forall i, (dn <= i < m)%nat -> get_bit a (N.of_nat i) = get_bit b (N.of_nat i)) ->
    get_bit a (N.of_nat m) = false -> get_bit b (N.of_nat m) = true ->
    length bits = dn -> audit bits a = true -> audit bits b = true ->
    exists P, pad_tree fuel a b (N.of_nat dn) = Some P /\ pwf P = true /\ paudit bits P = true /\
      pdepth_ok (Z.of_nat dn) P = true /\
      pval P = (SMid (node_hash NtTerm NtTerm a b) (SLeaf a) (SLeaf b), NtMidDbl) /\
      (P = PMid (PTerm a) (PTerm b) \/
       (get_bit a (N.of_nat dn) = true /\ get_bit b (N.of_nat dn) = true /\ exists P', P = PMid PEmpty P') \/
       (get_bit a (N.of_nat dn) = false /\ get_bit b (N.of_nat dn) = false /\ exists P', P = PMid P' PEmpty)).
  Proof.
    intros La Lb. induction n as [|n IH]; intros dn m fuel bits Hn Hm Hf Eq Am Bm Lbits Aa Ab;
      (destruct fuel as [|f]; [lia|]); cbn [pad_tree].
    - assert (m = dn) by lia. subst m. rewrite Am, Bm. cbn [Bool.eqb negb].
      eexists. split; [reflexivity|]. cbn [pwf paudit pdepth_ok MerkleProofSpec.pval middle_type satype shash].
      unfold leaf32 in La, Lb. rewrite La, Lb. cbn [Nat.eqb andb].
      rewrite !audit_snoc, Aa, Ab, Lbits, N.mod_small, Am, Bm by lia. cbn [Bool.eqb andb].
      replace (Z.of_N proof_depth_limit <? Z.of_nat dn)%Z with false by (symmetry; apply Z.ltb_ge; unfold proof_depth_limit; lia).
      repeat split; auto.
    - assert (E0 : get_bit a (N.of_nat dn) = get_bit b (N.of_nat dn)) by (apply Eq; lia).
      rewrite E0, eqb_reflx. cbn [negb].
      assert (Hs : u8_succ (N.of_nat dn) = N.of_nat (S dn)) by (unfold u8_succ; rewrite N.mod_small by lia; lia).
      rewrite Hs.
      destruct (get_bit b (N.of_nat dn)) eqn:Bd.
      + destruct (IH (S dn) m f (bits ++ [true])) as (P' & EP & W & A & D & V & _); try assumption; try lia.
        * intros i Hi. apply Eq. lia.
        * rewrite app_length. cbn. lia.
        * rewrite audit_snoc, Aa, Lbits, N.mod_small, E0 by lia. reflexivity.
        * rewrite audit_snoc, Ab, Lbits, N.mod_small, Bd by lia. reflexivity.
        * rewrite EP. eexists. split; [reflexivity|].
          cbn [pwf paudit pdepth_ok MerkleProofSpec.pval]. rewrite W, A, V.
          replace (Z.of_nat dn + 1)%Z with (Z.of_nat (S dn)) by lia. rewrite D.
          replace (Z.of_N proof_depth_limit <? Z.of_nat dn)%Z with false by (symmetry; apply Z.ltb_ge; unfold proof_depth_limit; lia).
          repeat split; auto. right; left. eauto.
      + destruct (IH (S dn) m f (bits ++ [false])) as (P' & EP & W & A & D & V & _); try assumption; try lia.
        * intros i Hi. apply Eq. lia.
        * rewrite app_length. cbn. lia.
        * rewrite audit_snoc, Aa, Lbits, N.mod_small, E0 by lia. reflexivity.
        * rewrite audit_snoc, Ab, Lbits, N.mod_small, Bd by lia. reflexivity.
        * rewrite EP. eexists. split; [reflexivity|].
          cbn [pwf paudit pdepth_ok MerkleProofSpec.pval]. rewrite W, A, V.
          replace (Z.of_nat dn + 1)%Z with (Z.of_nat (S dn)) by lia. rewrite D.
          replace (Z.of_N proof_depth_limit <? Z.of_nat dn)%Z with false by (symmetry; apply Z.ltb_ge; unfold proof_depth_limit; lia).
          repeat split; auto. right; right. eauto.
  Qed.
End WithH.


Lemma node_hash_enc H t0 t1 t0' t1' l r : encode_type t0 = encode_type t0' -> encode_type t1 = encode_type t1' ->
  node_hash H t0 t1 l r = node_hash H t0' t1' l r.
Proof. intros E0 E1. unfold node_hash. now rewrite E0, E1. Qed.

Definition both_leaf (l r : stree) : Prop := exists a b, l = SLeaf a /\ r = SLeaf b.

Lemma s_proof_descend h l r x d : ~ both_leaf l r ->
  s_proof (SMid h l r) x d =
    if get_bit x d
    then match s_proof r x (u8_succ d) with Ok (b, p) => Ok (b, [tagb TAG_MIDDLE] ++ s_other l ++ p) | e => e end
    else match s_proof l x (u8_succ d) with Ok (b, p) => Ok (b, [tagb TAG_MIDDLE] ++ p ++ s_other r) | e => e end.
Proof.
  intros N. destruct l as [a| | |]; try reflexivity. destruct r as [b| | |]; try reflexivity.
  exfalso. apply N. exists a, b. auto.
Qed.

Lemma s_proof_tree_descend h l r x d : ~ both_leaf l r ->
  s_proof_tree (SMid h l r) x d =
    if get_bit x d
    then match s_proof_tree r x (u8_succ d) with Ok (b, p) => Ok (b, PMid (s_other_tree l) p) | e => e end
    else match s_proof_tree l x (u8_succ d) with Ok (b, p) => Ok (b, PMid p (s_other_tree r)) | e => e end.
Proof.
  intros N. destruct l as [a| | |]; try reflexivity. destruct r as [b| | |]; try reflexivity.
  exfalso. apply N. exists a, b. auto.
Qed.

Lemma s_proof_tree_dbl h a b x d : s_proof_tree (SMid h (SLeaf a) (SLeaf b)) x d =
  match pad_tree 257 a b d with Some p => Ok (bytes_eqb a x || bytes_eqb b x, p) | None => OutOfFuel end.
Proof. reflexivity. Qed.

Section WithH.
  Variable H : bytes -> bytes.
  Notation trie := (trie H).
  Notation build := (build H).
  Notation sjoin := (sjoin H).
  Notation pval := (pval H).
  Notation node_hash := (node_hash H).

  Lemma build_none k d l : build k d l = None -> l = [].
  Proof. intros E. destruct l as [|x r]; [reflexivity|]. destruct (build_some H k d (x :: r)) as [t T]; [discriminate|congruence]. Qed.

  Lemma build_leaf_inv k d l z : d + N.of_nat k = 256 -> Forall leaf32 l -> agree d l ->
    build k d l = Some (SLeaf z) -> In z l /\ forall y, In y l -> y = z.
  Proof.
    intros Hd F A B. apply (trie_term_inv H k d l z Hd F A). rewrite <- build_sum, B. reflexivity.
  Qed.

  Lemma stype_dbl t : top_ok t -> stype t <> NtTerm -> stype t <> NtMid -> exists h a b, t = SMid h (SLeaf a) (SLeaf b).
  Proof.
    destruct t as [x|h|h|h [a| | |] [b| | |]]; cbn; intros T N1 N2; try contradiction; try congruence. eauto.
  Qed.

  (* a double-leaf node of the built tree: its hash, the bucket, and where the two leaves split *)
  Lemma build_dbl_inv k : forall d l h a b, d + N.of_nat k = 256 -> Forall leaf32 l -> agree d l ->
    build k d l = Some (SMid h (SLeaf a) (SLeaf b)) ->
    h = node_hash NtTerm NtTerm a b /\ In a l /\ In b l /\ (forall y, In y l -> y = a \/ y = b) /\
    exists m, d <= m < 256 /\ get_bit a m = false /\ get_bit b m = true /\ forall i, d <= i < m -> get_bit a i = get_bit b i.
  Proof.
    induction k as [|k IH]; intros d l h a b Hd F A B; destruct l as [|x r]; try (rewrite build_nil in B; discriminate).
    - cbn in B. discriminate.
    - rewrite build_step in B by discriminate. set (l := x :: r) in *.
      destruct (build k (d + 1) (filter (bit0 d) l)) as [c0|] eqn:B0; destruct (build k (d + 1) (filter (bit1 d) l)) as [c1|] eqn:B1;
        cbn [MerkleProofSpec.sjoin] in B; try discriminate.
      + injection B as Eh E0 E1. subst c0 c1 h. cbn [stype shash].
        destruct (build_leaf_inv k (d + 1) _ a ltac:(lia) (Forall_filter _ _ _ F) (agree_filter0 _ _ A) B0) as [Ia Alla].
        destruct (build_leaf_inv k (d + 1) _ b ltac:(lia) (Forall_filter _ _ _ F) (agree_filter1 _ _ A) B1) as [Ib Allb].
        apply filter_In in Ia, Ib. destruct Ia as [Ia Ba], Ib as [Ib Bb]. unfold bit0, bit1 in Ba, Bb.
        split; [reflexivity|]. repeat split; try assumption.
        * intros y Iy. destruct (in_zero_or_one d l y Iy); [left; now apply Alla|right; now apply Allb].
        * exists d. repeat split; try lia; try assumption. now destruct (get_bit a d).
      + apply build_none in B1.
        destruct (node_type_eqb (stype c0) NtMid); [discriminate|]. injection B as ->.
        destruct (IH (d + 1) _ h a b ltac:(lia) (Forall_filter _ _ _ F) (agree_filter0 _ _ A) B0) as (E & Ia & Ib & All & m & Hm & Am & Bm & Eq).
        apply filter_In in Ia, Ib. destruct Ia as [Ia Ba], Ib as [Ib Bb]. unfold bit0 in Ba, Bb.
        split; [exact E|]. repeat split; try assumption.
        * intros y Iy. destruct (in_zero_or_one d l y Iy) as [I0|I1]; [now apply All|rewrite B1 in I1; contradiction].
        * exists m. repeat split; try lia; try assumption. intros i Hi. destruct (N.eq_dec i d) as [->|]; [|apply Eq; lia].
          destruct (get_bit a d), (get_bit b d); cbn in *; congruence.
      + apply build_none in B0.
        destruct (node_type_eqb (stype c1) NtMid); [discriminate|]. injection B as ->.
        destruct (IH (d + 1) _ h a b ltac:(lia) (Forall_filter _ _ _ F) (agree_filter1 _ _ A) B1) as (E & Ia & Ib & All & m & Hm & Am & Bm & Eq).
        apply filter_In in Ia, Ib. destruct Ia as [Ia Ba], Ib as [Ib Bb]. unfold bit1 in Ba, Bb.
        split; [exact E|]. repeat split; try assumption.
        * intros y Iy. destruct (in_zero_or_one d l y Iy) as [I0|I1]; [rewrite B0 in I0; contradiction|now apply All].
        * exists m. repeat split; try lia; try assumption. intros i Hi. destruct (N.eq_dec i d) as [->|]; [|apply Eq; lia].
          congruence.
  Qed.

  Lemma build_mid_inv k d l h tl tr : build k d l = Some (SMid h tl tr) -> ~ both_leaf tl tr ->
    exists k', k = S k' /\ l <> [] /\
      let bz := build k' (d + 1) (filter (bit0 d) l) in
      let bo := build k' (d + 1) (filter (bit1 d) l) in
      (bz = None /\ bo = Some tr /\ tl = SEmpty EMPTY_NODE_HASH /\ stype tr = NtMid /\ h = node_hash NtEmpty NtMid BLANK (shash tr)) \/
      (bz = Some tl /\ bo = None /\ tr = SEmpty EMPTY_NODE_HASH /\ stype tl = NtMid /\ h = node_hash NtMid NtEmpty (shash tl) BLANK) \/
      (bz = Some tl /\ bo = Some tr /\ h = node_hash (stype tl) (stype tr) (shash tl) (shash tr)).
  Proof.
    intros B N. destruct l as [|x r]; [rewrite build_nil in B; discriminate|].
    destruct k as [|k]; [cbn in B; discriminate|]. exists k. split; [reflexivity|]. split; [discriminate|].
    rewrite build_step in B by discriminate. cbv zeta.
    destruct (build k (d + 1) (filter (bit0 d) (x :: r))) as [c0|] eqn:B0; destruct (build k (d + 1) (filter (bit1 d) (x :: r))) as [c1|] eqn:B1;
      cbn [MerkleProofSpec.sjoin] in B; try discriminate.
    - injection B as <- <- <-. right; right. auto.
    - pose proof (build_top H _ _ _ _ B0) as T0.
      destruct (node_type_eqb (stype c0) NtMid) eqn:EM.
      + injection B as <- <- <-. right; left. repeat split; auto. destruct (stype c0); cbv in EM; try discriminate; reflexivity.
      + injection B as ->. exfalso. apply N.
        destruct tl as [a| | |], tr as [b| | |]; cbv in EM; try discriminate. exists a, b. auto.
    - pose proof (build_top H _ _ _ _ B1) as T1.
      destruct (node_type_eqb (stype c1) NtMid) eqn:EM.
      + injection B as <- <- <-. left. repeat split; auto. destruct (stype c1); cbv in EM; try discriminate; reflexivity.
      + injection B as ->. exfalso. apply N.
        destruct tl as [a| | |], tr as [b| | |]; cbv in EM; try discriminate. exists a, b. auto.
  Qed.
End WithH.


Lemma agree_head d x l y : agree d (x :: l) -> In y l -> forall i, i < d -> get_bit y i = get_bit x i.
Proof. intros A I i Hi. apply A; [now right|now left|exact Hi]. Qed.

Lemma classic_both tl tr : (exists a b, tl = SLeaf a /\ tr = SLeaf b) \/ ~ both_leaf tl tr.
Proof.
  destruct tl as [a| | |]; try (right; intros (a' & b' & E & _); discriminate).
  destruct tr as [b| | |]; try (right; intros (a' & b' & _ & E); discriminate). left. eauto.
Qed.

Lemma xbits_S_true x dn : get_bit x (N.of_nat dn) = true -> xbits x (S dn) = xbits x dn ++ [true].
Proof. intros B. now rewrite xbits_S, B. Qed.

Lemma xbits_S_false x dn : get_bit x (N.of_nat dn) = false -> xbits x (S dn) = xbits x dn ++ [false].
Proof. intros B. now rewrite xbits_S, B. Qed.

Lemma agree_filter0_S dn l : agree (N.of_nat dn) l -> agree (N.of_nat (S dn)) (filter (bit0 (N.of_nat dn)) l).
Proof. intros A. replace (N.of_nat (S dn)) with (N.of_nat dn + 1) by lia. now apply agree_filter0. Qed.

Lemma agree_filter1_S dn l : agree (N.of_nat dn) l -> agree (N.of_nat (S dn)) (filter (bit1 (N.of_nat dn)) l).
Proof. intros A. replace (N.of_nat (S dn)) with (N.of_nat dn + 1) by lia. now apply agree_filter1. Qed.

Section WithH.
  Variable H : bytes -> bytes.
  Hypothesis Hlen : forall m, length (H m) = 32%nat.
  Notation trie := (trie H).
  Notation build := (build H).
  Notation pval := (pval H).
  Notation node_hash := (node_hash H).

  Lemma build_hash_len k d l t : Forall leaf32 l -> build k d l = Some t -> length (shash t) = 32%nat.
  Proof.
    intros F B. pose proof (trie_hash_len H Hlen k d l F) as L. rewrite <- build_sum, B in L. exact L.
  Qed.

  (* what the honest proof for x looks like below a node of the built tree, and that the tree
     deserialised from it has the same summary and answers the query the same way *)
  Definition honest (x : bytes) (dn : nat) (t : stree) (l : list bytes) : Prop :=
    exists P pf,
      s_proof_tree t x (N.of_nat dn mod 256) = Ok (mem x l, P) /\
      pwf P = true /\ paudit (xbits x dn) P = true /\ pdepth_ok (Z.of_nat dn) P = true /\
      shash (fst (pval P)) = shash t /\ snd (pval P) = stype t /\
      s_proof (fst (pval P)) x (N.of_nat dn mod 256) = Ok (mem x l, pf).

  Lemma other_tree_facts t bits : top_ok t -> length (shash t) = 32%nat ->
    (forall a, t = SLeaf a -> audit bits a = true) ->
    pwf (s_other_tree t) = true /\ paudit bits (s_other_tree t) = true /\
    shash (fst (pval (s_other_tree t))) = shash t /\
    encode_type (satype (fst (pval (s_other_tree t)))) = encode_type (stype t) /\
    (snd (pval (s_other_tree t)) = NtTerm \/ snd (pval (s_other_tree t)) = NtMid) /\
    (snd (pval (s_other_tree t)) = NtTerm <-> exists a, t = SLeaf a) /\
    ((exists a, fst (pval (s_other_tree t)) = SLeaf a) <-> exists a, t = SLeaf a) /\
    (forall depth, pdepth_ok depth (s_other_tree t) = true).
  Proof.
    intros T L A. destruct t as [a|h|h|h tl tr]; try contradiction; cbn [s_other_tree pwf paudit MerkleProofSpec.pval fst snd shash satype pdepth_ok] in *.
    - rewrite L, (A a eq_refl). repeat split; auto; eauto.
    - rewrite L. repeat split; auto; try (intros [a E]; discriminate); try discriminate.
      destruct tl as [| | |], tr as [| | |]; reflexivity.
  Qed.

  Lemma complete_core x : leaf32 x -> forall k dn l t,
    N.of_nat dn + N.of_nat k = 256 -> Forall leaf32 l -> agree (N.of_nat dn) (x :: l) ->
    build k (N.of_nat dn) l = Some t -> honest x dn t l.
  Proof.
    intros Lx. unfold honest. induction k as [|k IH]; intros dn l t Hd F A B.
    - (* bottom: a single leaf *)
      destruct l as [|z r]; [discriminate|]. cbn in B. injection B as <-.
      assert (Iz : In z (z :: r)) by now left.
      assert (All : forall y, In y (z :: r) -> y = z).
      { intros y Iy. replace (N.of_nat dn) with 256 in A by lia.
        apply (agree_all_eq (x :: z :: r)); [constructor; assumption|exact A|now right|right; now left]. }
      exists (PTerm z), (tagb TAG_TERMINAL :: z). cbn [s_proof_tree pwf paudit pdepth_ok MerkleProofSpec.pval fst snd shash stype s_proof].
      rewrite (mem_all_eq x z _ Iz All), (bytes_eqb_sym z x).
      inversion F as [|? ? Lz _]; subst. unfold leaf32 in Lz. rewrite Lz.
      repeat split; auto. apply audit_xbits_intro; [lia|]. intros i Hi. apply (agree_head _ _ _ _ A Iz). lia.
    - assert (Hdn : (dn <= 255)%nat) by lia.
      assert (Hd' : N.of_nat (S dn) + N.of_nat k = 256) by lia.
      assert (Emod : N.of_nat dn mod 256 = N.of_nat dn) by (apply N.mod_small; lia).
      assert (Esucc : u8_succ (N.of_nat dn) = N.of_nat (S dn) mod 256) by (unfold u8_succ; f_equal; lia).
      assert (Al : agree (N.of_nat dn) l) by (eapply agree_tail; eauto).
      pose proof (build_top H _ _ _ _ B) as T.
      destruct t as [z|h|h|h tl tr]; try contradiction.
      + (* the level collapsed onto a single leaf *)
        destruct (build_leaf_inv H _ _ _ _ Hd F Al B) as [Iz All].
        exists (PTerm z), (tagb TAG_TERMINAL :: z). cbn [s_proof_tree pwf paudit pdepth_ok MerkleProofSpec.pval fst snd shash stype s_proof].
        rewrite (mem_all_eq x z _ Iz All), (bytes_eqb_sym z x).
        rewrite Forall_forall in F. pose proof (F _ Iz) as Lz. unfold leaf32 in Lz. rewrite Lz.
        repeat split; auto. apply audit_xbits_intro; [lia|]. intros i Hi. apply (agree_head _ _ _ _ A Iz). lia.
      + destruct (classic_both tl tr) as [(a & b & -> & ->)|NB].
        * (* a double-leaf node: the chain is re-expanded from here *)
          destruct (build_dbl_inv H _ _ _ _ _ _ Hd F Al B) as (Eh & Ia & Ib & All & m & Hm & Am & Bm & Eq).
          rewrite Forall_forall in F. pose proof (F _ Ia) as La. pose proof (F _ Ib) as Lb.
          destruct (pad_tree_spec H a b La Lb (N.to_nat m - dn) dn (N.to_nat m) 257%nat (xbits x dn)) as (P & EP & W & Au & D & V & _);
            try lia; try (rewrite N2Nat.id; assumption).
          -- intros i Hi. apply Eq. lia.
          -- apply xbits_length.
          -- apply audit_xbits_intro; [lia|]. intros i Hi. apply (agree_head _ _ _ _ A Ia). lia.
          -- apply audit_xbits_intro; [lia|]. intros i Hi. apply (agree_head _ _ _ _ A Ib). lia.
          -- exists P. eexists. rewrite Emod, s_proof_tree_dbl, EP, V. cbn [fst snd shash stype].
             rewrite s_proof_dbl, pad_ser, EP. cbn [option_map].
             rewrite (mem_two x a b l Ia Ib All), (bytes_eqb_sym a x), (bytes_eqb_sym b x).
             repeat split; auto.
        * (* an ordinary middle node: follow bit dn of x *)
          destruct (build_mid_inv H _ _ _ _ _ _ B NB) as (k' & Ek & Hne & C). injection Ek as <-. cbv zeta in C.
          set (zs := filter (bit0 (N.of_nat dn)) l) in *. set (os := filter (bit1 (N.of_nat dn)) l) in *.
          assert (Fz : Forall leaf32 zs) by now apply Forall_filter.
          assert (Fo : Forall leaf32 os) by now apply Forall_filter.
          assert (ST : stype (SMid h tl tr) = NtMid).
          { destruct tl as [a| | |], tr as [b| | |]; try reflexivity. exfalso. apply NB. exists a, b. auto. }
          assert (DL : (Z.of_N proof_depth_limit <? Z.of_nat dn)%Z = false) by (apply Z.ltb_ge; unfold proof_depth_limit; lia).
          assert (Desc : forall x0, s_proof_tree (SMid h tl tr) x0 (N.of_nat dn mod 256) =
            if get_bit x0 (N.of_nat dn)
            then match s_proof_tree tr x0 (N.of_nat (S dn) mod 256) with Ok (b, p) => Ok (b, PMid (s_other_tree tl) p) | e => e end
            else match s_proof_tree tl x0 (N.of_nat (S dn) mod 256) with Ok (b, p) => Ok (b, PMid p (s_other_tree tr)) | e => e end).
          { intros x0. rewrite Emod, s_proof_tree_descend by exact NB. now rewrite Esucc. }
          replace (N.of_nat dn + 1) with (N.of_nat (S dn)) in C by lia.
          destruct (get_bit x (N.of_nat dn)) eqn:Bx.
          -- (* x goes right *)
             assert (Ao : agree (N.of_nat (S dn)) (x :: os)).
             { replace (N.of_nat (S dn)) with (N.of_nat dn + 1) by lia. now apply agree_cons_filter1. }
             assert (Mo : mem x os = mem x l) by now apply mem_filter1.
             assert (IHo : forall t', build k (N.of_nat (S dn)) os = Some t' -> honest x (S dn) t' os).
             { intros t' B'. unfold honest. apply IH; try assumption; try lia. }
             unfold honest in IHo.
             destruct C as [(Bz & Bo & -> & STr & ->)|[(Bz & Bo & -> & STl & ->)|(Bz & Bo & ->)]].
             ++ (* left bucket empty, explicit Empty sibling *)
                destruct (IHo _ Bo) as (P & pf & SP & W & Au & D & Eh & Et & SV).
                exists (PMid PEmpty P). eexists. rewrite Desc, Bx, SP, Mo. cbn [s_other_tree].
                cbn [pwf paudit pdepth_ok]. rewrite W, DL. rewrite <- xbits_S_true by exact Bx. rewrite Au.
                replace (Z.of_nat dn + 1)%Z with (Z.of_nat (S dn)) by lia. rewrite D.
                assert (V : pval (PMid PEmpty P) = (SMid (node_hash NtEmpty NtMid BLANK (shash tr)) (SEmpty BLANK) (fst (pval P)), NtMid)).
                { cbn [MerkleProofSpec.pval]. rewrite (surjective_pairing (pval P)), Et, STr. cbn [middle_type satype shash].
                  f_equal. f_equal. rewrite Eh. apply node_hash_enc; [reflexivity|]. now rewrite pval_enc, Et, STr. }
                rewrite V. cbn [fst snd shash]. rewrite ?ST.
                rewrite Emod, s_proof_empty_l, Bx, Esucc, SV, Mo.
                repeat split; auto.
             ++ (* right bucket empty: x is not below this node *)
                apply build_none in Bo. fold os in Bo.
                assert (Mx : mem x l = false).
                { rewrite <- Mo, Bo. reflexivity. }
                pose proof (build_top H _ _ _ _ Bz) as Tl. pose proof (build_hash_len _ _ _ _ Fz Bz) as Ll.
                destruct tl as [a|?|?|hl tll tlr]; try contradiction; [cbn in STl; discriminate|].
                exists (PMid (PTrunc hl) PEmpty). eexists. rewrite Desc, Bx. cbn [s_proof_tree]. rewrite Mx.
                cbn [s_other_tree pwf paudit pdepth_ok MerkleProofSpec.pval fst snd shash satype middle_type]. cbn [shash] in Ll.
                rewrite Ll, DL. cbn [Nat.eqb andb negb]. rewrite ?ST.
                rewrite Emod, s_proof_empty_r, Bx by discriminate.
                repeat split; auto.
             ++ (* both buckets non-empty *)
                destruct (IHo _ Bo) as (P & pf & SP & W & Au & D & Eh & Et & SV).
                pose proof (build_top H _ _ _ _ Bz) as Tl. pose proof (build_top H _ _ _ _ Bo) as Tr.
                pose proof (build_hash_len _ _ _ _ Fz Bz) as Ll.
                destruct (other_tree_facts tl (xbits x dn ++ [false]) Tl Ll) as (Wo & Auo & Eho & Eno & Tyo & Tto & Tlo & Do).
                { intros a ->. destruct (build_leaf_inv H _ _ _ _ Hd' Fz (agree_filter0_S _ _ Al) Bz) as [Ia _].
                  apply filter_In in Ia. destruct Ia as [Ia Ba]. unfold bit0 in Ba.
                  rewrite audit_snoc, xbits_length, Emod. rewrite audit_xbits_intro; [|lia|].
                  - now destruct (get_bit a (N.of_nat dn)).
                  - intros i Hi. apply (agree_head _ _ _ _ A Ia). lia. }
                exists (PMid (s_other_tree tl) P). eexists. rewrite Desc, Bx, SP, Mo.
                cbn [pwf paudit pdepth_ok]. rewrite W, Wo, Auo, DL, Do. rewrite <- xbits_S_true by exact Bx. rewrite Au.
                replace (Z.of_nat dn + 1)%Z with (Z.of_nat (S dn)) by lia. rewrite D.
                assert (NC : ~ both_leaf (fst (pval (s_other_tree tl))) (fst (pval P))).
                { intros (a & b & E1 & E2). apply NB. assert (E1' : exists a0, tl = SLeaf a0) by (apply Tlo; eauto). destruct E1' as [a' ->].
                  apply (pval_leaf H) in E2. rewrite E2 in Et. cbn in Et.
                  destruct tr as [b'| | |hr [] []]; try contradiction; cbn in Et; try discriminate; exists a', b'; auto. }
                assert (V : pval (PMid (s_other_tree tl) P) =
                            (SMid (node_hash (stype tl) (stype tr) (shash tl) (shash tr)) (fst (pval (s_other_tree tl))) (fst (pval P)), NtMid)).
                { cbn [MerkleProofSpec.pval]. rewrite (surjective_pairing (pval (s_other_tree tl))), (surjective_pairing (pval P)).
                  assert (TE : snd (pval P) <> NtEmpty) by (rewrite Et; now apply top_type).
                  assert (MT : middle_type (snd (pval (s_other_tree tl))) (snd (pval P)) = NtMid).
                  { destruct Tyo as [Ty|Ty]; rewrite Ty.
                    - destruct (snd (pval P)) eqn:TP; try reflexivity.
                      exfalso. apply NB. apply Tto in Ty. destruct Ty as [a ->]. rewrite Et in TP.
                      destruct tr as [b'| | |hr [] []]; try contradiction; cbn in TP; try discriminate; exists a, b'; auto.
                    - destruct (snd (pval P)); reflexivity. }
                  destruct Tyo as [Ty|Ty]; rewrite Ty in *; destruct (snd (pval P)) eqn:TP; try congruence;
                    rewrite ?MT; f_equal; f_equal; rewrite ?Eho, ?Eh; apply node_hash_enc; auto; rewrite pval_enc, TP, <- Et; reflexivity. }
                rewrite V. cbn [fst snd shash]. rewrite ?ST.
                rewrite Emod, s_proof_descend, Bx, Esucc, SV, Mo by exact NC.
                repeat split; auto.
          -- (* x goes left *)
             assert (Az : agree (N.of_nat (S dn)) (x :: zs)).
             { replace (N.of_nat (S dn)) with (N.of_nat dn + 1) by lia. now apply agree_cons_filter0. }
             assert (Mz : mem x zs = mem x l) by now apply mem_filter0.
             assert (IHz : forall t', build k (N.of_nat (S dn)) zs = Some t' -> honest x (S dn) t' zs).
             { intros t' B'. unfold honest. apply IH; try assumption; try lia. }
             unfold honest in IHz.
             destruct C as [(Bz & Bo & -> & STr & ->)|[(Bz & Bo & -> & STl & ->)|(Bz & Bo & ->)]].
             ++ (* left bucket empty: x is not below this node *)
                apply build_none in Bz. fold zs in Bz.
                assert (Mx : mem x l = false).
                { rewrite <- Mz, Bz. reflexivity. }
                pose proof (build_top H _ _ _ _ Bo) as Tr. pose proof (build_hash_len _ _ _ _ Fo Bo) as Lr.
                destruct tr as [a|?|?|hr trl trr]; try contradiction; [cbn in STr; discriminate|].
                exists (PMid PEmpty (PTrunc hr)). eexists. rewrite Desc, Bx. cbn [s_proof_tree]. rewrite Mx.
                cbn [s_other_tree pwf paudit pdepth_ok MerkleProofSpec.pval fst snd shash satype middle_type]. cbn [shash] in Lr.
                rewrite Lr, DL. cbn [Nat.eqb andb negb]. rewrite ?ST.
                rewrite Emod, s_proof_empty_l, Bx.
                repeat split; auto.
             ++ (* right bucket empty, explicit Empty sibling *)
                destruct (IHz _ Bz) as (P & pf & SP & W & Au & D & Eh & Et & SV).
                exists (PMid P PEmpty). eexists. rewrite Desc, Bx, SP, Mz. cbn [s_other_tree].
                cbn [pwf paudit pdepth_ok]. rewrite W, DL. rewrite <- xbits_S_false by exact Bx. rewrite Au.
                replace (Z.of_nat dn + 1)%Z with (Z.of_nat (S dn)) by lia. rewrite D.
                assert (V : pval (PMid P PEmpty) = (SMid (node_hash NtMid NtEmpty (shash tl) BLANK) (fst (pval P)) (SEmpty BLANK), NtMid)).
                { cbn [MerkleProofSpec.pval]. rewrite (surjective_pairing (pval P)), Et, STl. cbn [middle_type satype shash].
                  f_equal. f_equal. rewrite Eh. apply node_hash_enc; [|reflexivity]. now rewrite pval_enc, Et, STl. }
                rewrite V. cbn [fst snd shash]. rewrite ?ST.
                assert (NL : forall y, fst (pval P) <> SLeaf y).
                { intros y E. apply (pval_leaf H) in E. rewrite E in Et. cbn in Et. congruence. }
                rewrite Emod, s_proof_empty_r, Bx, Esucc, SV, Mz by exact NL.
                repeat split; auto.
             ++ (* both buckets non-empty *)
                destruct (IHz _ Bz) as (P & pf & SP & W & Au & D & Eh & Et & SV).
                pose proof (build_top H _ _ _ _ Bz) as Tl. pose proof (build_top H _ _ _ _ Bo) as Tr.
                pose proof (build_hash_len _ _ _ _ Fo Bo) as Lr.
                destruct (other_tree_facts tr (xbits x dn ++ [true]) Tr Lr) as (Wo & Auo & Eho & Eno & Tyo & Tto & Tlo & Do).
                { intros a ->. destruct (build_leaf_inv H _ _ _ _ Hd' Fo (agree_filter1_S _ _ Al) Bo) as [Ia _].
                  apply filter_In in Ia. destruct Ia as [Ia Ba]. unfold bit1 in Ba.
                  rewrite audit_snoc, xbits_length, Emod. rewrite audit_xbits_intro; [|lia|].
                  - now rewrite Ba.
                  - intros i Hi. apply (agree_head _ _ _ _ A Ia). lia. }
                exists (PMid P (s_other_tree tr)). eexists. rewrite Desc, Bx, SP, Mz.
                cbn [pwf paudit pdepth_ok]. rewrite W, Wo, Auo, DL, Do. rewrite <- xbits_S_false by exact Bx. rewrite Au.
                replace (Z.of_nat dn + 1)%Z with (Z.of_nat (S dn)) by lia. rewrite D.
                assert (NC : ~ both_leaf (fst (pval P)) (fst (pval (s_other_tree tr)))).
                { intros (a & b & E1 & E2). apply NB. assert (E2' : exists b0, tr = SLeaf b0) by (apply Tlo; eauto). destruct E2' as [b' ->].
                  apply (pval_leaf H) in E1. rewrite E1 in Et. cbn in Et.
                  destruct tl as [a'| | |hl [] []]; try contradiction; cbn in Et; try discriminate; exists a', b'; auto. }
                assert (V : pval (PMid P (s_other_tree tr)) =
                            (SMid (node_hash (stype tl) (stype tr) (shash tl) (shash tr)) (fst (pval P)) (fst (pval (s_other_tree tr))), NtMid)).
                { cbn [MerkleProofSpec.pval]. rewrite (surjective_pairing (pval (s_other_tree tr))), (surjective_pairing (pval P)).
                  assert (TE : snd (pval P) <> NtEmpty) by (rewrite Et; now apply top_type).
                  assert (MT : middle_type (snd (pval P)) (snd (pval (s_other_tree tr))) = NtMid).
                  { destruct Tyo as [Ty|Ty]; rewrite Ty.
                    - destruct (snd (pval P)) eqn:TP; try reflexivity.
                      exfalso. apply NB. apply Tto in Ty. destruct Ty as [b ->]. rewrite Et in TP.
                      destruct tl as [a'| | |hl [] []]; try contradiction; cbn in TP; try discriminate; exists a', b; auto.
                    - destruct (snd (pval P)); reflexivity. }
                  destruct Tyo as [Ty|Ty]; rewrite Ty in *; destruct (snd (pval P)) eqn:TP; try congruence;
                    rewrite ?MT; f_equal; f_equal; rewrite ?Eho, ?Eh; apply node_hash_enc; auto; rewrite pval_enc, TP, <- Et; reflexivity. }
                rewrite V. cbn [fst snd shash]. rewrite ?ST.
                rewrite Emod, s_proof_descend, Bx, Esucc, SV, Mz by exact NC.
                repeat split; auto.
  Qed.
End WithH.


Lemma pad_middles_S f a b d : pad_middles (S f) a b d =
  if negb (Bool.eqb (get_bit a d) (get_bit b d)) then Some ([tagb TAG_MIDDLE] ++ [tagb TAG_TERMINAL] ++ a ++ [tagb TAG_TERMINAL] ++ b)
  else if get_bit a d then match pad_middles f a b (u8_succ d) with Some p => Some ([tagb TAG_MIDDLE] ++ [tagb TAG_EMPTY] ++ p) | None => None end
  else match pad_middles f a b (u8_succ d) with Some p => Some ([tagb TAG_MIDDLE] ++ p ++ [tagb TAG_EMPTY]) | None => None end.
Proof. reflexivity. Qed.

Lemma pad_middles_mono : forall f a b d p, pad_middles f a b d = Some p -> pad_middles (S f) a b d = Some p.
Proof.
  induction f as [|f IH]; intros a b d p E; [discriminate|].
  rewrite pad_middles_S in E. rewrite (pad_middles_S (S f)).
  destruct (negb (Bool.eqb (get_bit a d) (get_bit b d))); [exact E|].
  destruct (get_bit a d); destruct (pad_middles f a b (u8_succ d)) as [q|] eqn:Q; try discriminate;
    rewrite (IH _ _ _ _ Q); exact E.
Qed.

Lemma pad_middles_same_bit f a b d : get_bit a d = get_bit b d -> forall pp, pad_middles (S f) a b d = Some pp ->
  exists q, pad_middles (S f) a b (u8_succ d) = Some q.
Proof.
  intros E pp PM. rewrite pad_middles_S in PM. rewrite E, eqb_reflx in PM. cbn [negb] in PM.
  destruct (pad_middles f a b (u8_succ d)) as [q|] eqn:Q.
  - exists q. now apply pad_middles_mono.
  - destruct (get_bit b d); discriminate.
Qed.

Section WithH.
  Variable H : bytes -> bytes.
  Hypothesis Hlen : forall m, length (H m) = 32%nat.
  Notation pval := (pval H).
  Notation plast := (plast H).
  Notation node_hash := (node_hash H).

  (* validation of the honest proof at tree level, given the facts complete_core establishes at the root *)
  Lemma honest_root_validates x t l P pf :
    top_ok t -> pwf P = true -> paudit [] P = true ->
    shash (fst (pval P)) = shash t -> snd (pval P) = stype t ->
    s_proof (fst (pval P)) x 0 = Ok (mem x l, pf) ->
    tvalidate H P x (sroot H t) = Ok (mem x l).
  Proof.
    intros T W Au Eh Et SV. unfold tvalidate.
    assert (Goal : sroot H (plast P) = sroot H t /\ exists pf', s_proof (plast P) x 0 = Ok (mem x l, pf')).
    { destruct P as [|z|h|pl pr].
      - exfalso. cbn in Et. symmetry in Et. now apply (top_type t T).
      - cbn in Eh, Et |- *. destruct t as [z'|?|?|h' [] []]; try contradiction; cbn in Et; try discriminate.
        cbn in Eh. subst z'. split; [reflexivity|]. eexists. exact SV.
      - cbn in SV. discriminate.
      - assert (SR : sroot H t = shash t).
        { pose proof (pval_cases H (PMid pl pr)) as C. cbn beta iota in C.
          assert (TM : snd (pval (PMid pl pr)) = NtMid \/ snd (pval (PMid pl pr)) = NtMidDbl).
          { destruct C as [(_ & _ & ->)|[(_ & _ & ->)|(_ & _ & ->)]]; cbn [snd]; auto.
            destruct (snd (pval pl)), (snd (pval pr)); cbn; auto. }
          rewrite Et in TM. destruct t as [z'|?|?|h' tl tr]; try contradiction; [|reflexivity].
          cbn in TM. destruct TM; discriminate. }
        rewrite SR, <- Eh, plast_root. split; [reflexivity|].
        pose proof (pval_cases H (PMid pl pr)) as C. cbn beta iota in C.
        cbn [paudit app] in Au. apply andb_prop in Au. destruct Au as [Al Ar].
        destruct C as [(Tl & Tr & E)|[(Tl & Tr & E)|(N1 & N2 & E)]].
        + destruct (pval_dbl H _ Tr) as (a & c & Er & _ & Aab). destruct (Aab _ Ar) as [Aa Ac]. apply (audit_first H Hlen) in Aa, Ac.
          rewrite E in SV. cbn [fst] in SV. rewrite Er, s_proof_dbl in SV.
          destruct (pad_middles 257 a c 0) as [pp|] eqn:PM; [|discriminate]. injection SV as SV _.
          rewrite plast_mid, Tl, Tr. pose proof (pval_type_empty H _ Tl) as ->. rewrite Er.
          cbn [MerkleProofSpec.pval fst]. rewrite s_proof_empty_l. destruct (get_bit x 0) eqn:B.
          * rewrite s_proof_dbl.
            assert (PM1 : exists q, pad_middles 257 a c (u8_succ 0) = Some q).
            { apply (pad_middles_same_bit 256 a c 0 ltac:(congruence) pp PM). }
            destruct PM1 as [q ->]. rewrite SV. eauto.
          * rewrite <- SV. eexists. f_equal. f_equal. symmetry. apply orb_false_iff. split.
            -- destruct (bytes_eqb_spec a x) as [->|]; [congruence|reflexivity].
            -- destruct (bytes_eqb_spec c x) as [->|]; [congruence|reflexivity].
        + destruct (pval_dbl H _ Tl) as (a & c & El & _ & Aab). destruct (Aab _ Al) as [Aa Ac]. apply (audit_first H Hlen) in Aa, Ac.
          rewrite E in SV. cbn [fst] in SV. rewrite El, s_proof_dbl in SV.
          destruct (pad_middles 257 a c 0) as [pp|] eqn:PM; [|discriminate]. injection SV as SV _.
          rewrite plast_mid, Tl, Tr. pose proof (pval_type_empty H _ Tr) as ->. rewrite El.
          cbn [MerkleProofSpec.pval fst]. rewrite s_proof_empty_r by discriminate. destruct (get_bit x 0) eqn:B.
          * rewrite <- SV. eexists. f_equal. f_equal. symmetry. apply orb_false_iff. split.
            -- destruct (bytes_eqb_spec a x) as [->|]; [congruence|reflexivity].
            -- destruct (bytes_eqb_spec c x) as [->|]; [congruence|reflexivity].
          * rewrite s_proof_dbl.
            assert (PM1 : exists q, pad_middles 257 a c (u8_succ 0) = Some q).
            { apply (pad_middles_same_bit 256 a c 0 ltac:(congruence) pp PM). }
            destruct PM1 as [q ->]. rewrite SV. eauto.
        + assert (PL : plast (PMid pl pr) = fst (pval (PMid pl pr))).
          { rewrite plast_mid. destruct (snd (pval pl)), (snd (pval pr)); try reflexivity; exfalso; [apply N1|apply N2]; split; reflexivity. }
          rewrite PL. eauto. }
    destruct Goal as [-> (pf' & ->)]. rewrite bytes_eqb_refl. reflexivity.
  Qed.

  Lemma leafs_tree_eq S : leafs_tree H S = match build H 256 0 S with Some t => t | None => SEmpty BLANK end.
  Proof. reflexivity. Qed.

  Lemma complete_core_root x S t : leaf32 x -> Forall leaf32 S -> build H 256 0 S = Some t ->
    exists P pf, s_proof_tree t x 0 = Ok (mem x S, P) /\ pwf P = true /\ paudit [] P = true /\ pdepth_ok 0 P = true /\
      shash (fst (pval P)) = shash t /\ snd (pval P) = stype t /\ s_proof (fst (pval P)) x 0 = Ok (mem x S, pf).
  Proof.
    intros Lx F B.
    apply (complete_core H Hlen x Lx 256 0%nat S t); try assumption.
    - reflexivity.
    - intros a c _ _ i Hi. lia.
  Qed.

  (* (3) completeness *)
  Lemma proof_complete S x : Forall leaf32 S -> leaf32 x ->
    exists t p root, from_leafs H S = Ok t /\ generate_proof t x = Ok (mem x S, p) /\
      compute_merkle_set_root H S = Ok root /\ validate_merkle_proof H p x root = Ok (mem x S).
  Proof.
    intros F Lx. destruct (from_leafs_spec H S F) as (nv0 & n & EF & R).
    pose proof (generate_proof_rep H _ _ _ false x R) as GP. rewrite s_proof_ser in GP.
    pose proof (compute_root_spec H S F) as CR. rewrite <- sroot_leafs_tree in CR.
    rewrite leafs_tree_eq in *. remember (build H 256 0 S) as bt eqn:B. symmetry in B. destruct bt as [t|].
    - destruct (complete_core_root x S t Lx F B) as (P & pf & SP & W & Au & D & Eh & Et & SV).
      rewrite SP in GP.
      eexists _, (pser P), _. split; [exact EF|]. split; [exact GP|]. split; [exact CR|].
      rewrite validate_pser by (unfold pvalid; now rewrite W, Au, D).
      apply (honest_root_validates x t S P pf); try assumption. eapply build_top; eauto.
    - apply build_none in B. subst S. cbn [s_proof_tree] in GP.
      eexists _, (pser PEmpty), _. split; [exact EF|]. split; [exact GP|]. split; [exact CR|].
      rewrite (validate_pser H PEmpty) by reflexivity. reflexivity.
  Qed.
End WithH.
