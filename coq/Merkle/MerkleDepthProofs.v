(* Merkle/MerkleDepthProofs.v — the u8 depth arithmetic never overflows on the paths reachable from
   honest proof generation: on every tree built by from_leafs the overflow-checked generator
   (debug-build semantics, MerkleDepth.v) coincides with the wrapping one (release build). *)
From Coq Require Import ZifyBool ZifyNat ZifyN.
From ChiaV.Base Require Import Bytes.
From ChiaV.Gen Require Import Mset.
From ChiaV.Merkle Require Import MerkleSpec MerkleSet MerkleTree MerkleSetProofs MerkleProofSpec MerkleTreeProofs
  MerkleDeserProofs MerkleSoundProofs MerkleCompleteProofs.
From ChiaV.Merkle Require Import MerkleDepth.
Open Scope N_scope.
Ltac Zify.zify_post_hook ::= Z.div_mod_to_equations.

Lemma u8_succ_chk_small d : d < 255 -> u8_succ_chk d = Some (u8_succ d).
Proof.
  intros Hd. unfold u8_succ_chk, u8_succ. destruct (N.eqb_spec d 255); [lia|]. now rewrite N.mod_small by lia.
Qed.

Lemma pad_chk_ok a b : forall n fuel d m,
  N.to_nat (m - d) = n -> d <= m < 256 -> (n < fuel)%nat ->
  get_bit a m <> get_bit b m -> (forall i, d <= i < m -> get_bit a i = get_bit b i) ->
  exists p, pad_middles fuel a b d = Some p /\ pad_middles_chk fuel a b d = Ok p.
Proof.
  induction n as [|n IH]; intros fuel d m Hn Hm Hf Ne Eq; (destruct fuel as [|f]; [lia|]);
    rewrite pad_middles_S; cbn [pad_middles_chk].
  - assert (m = d) by lia. subst m.
    destruct (Bool.eqb (get_bit a d) (get_bit b d)) eqn:E; [apply eqb_prop in E; contradiction|].
    cbn [negb]. eauto.
  - assert (E : get_bit a d = get_bit b d) by (apply Eq; lia).
    rewrite E, eqb_reflx. cbn [negb]. rewrite u8_succ_chk_small by lia.
    destruct (IH f (u8_succ d) m) as (p & P1 & P2); try assumption; try lia.
    + unfold u8_succ. rewrite N.mod_small by lia. lia.
    + unfold u8_succ. rewrite N.mod_small by lia. lia.
    + intros i Hi. apply Eq. unfold u8_succ in Hi. rewrite N.mod_small in Hi by lia. lia.
    + rewrite P1, P2. destruct (get_bit b d); eauto.
Qed.

Lemma gen_proof_chk_rep nv i t : rep nv i t -> forall fuel leaf depth, (sheight t < fuel)%nat -> depth_ok t depth ->
  gen_proof_impl_chk fuel nv i leaf depth = gen_proof_impl fuel nv i leaf depth.
Proof.
  induction 1 as [i x E|i h E|i h E|i l r h tl tr E Li Ri Rl IHl Rr IHr]; intros fuel leaf depth Hf D;
    (destruct fuel as [|f]; [lia|]); cbn [gen_proof_impl gen_proof_impl_chk]; rewrite E; try reflexivity.
  cbn [sheight] in Hf.
  destruct (rep_node _ _ _ Rl) as (al & El & Sl). destruct (rep_node _ _ _ Rr) as (ar & Er & Sr).
  rewrite El, Er.
  destruct tl as [lx|lh|lh|lh ll lr], tr as [rx|rh|rh|rh rl rr]; cbn in Sl, Sr;
    try (destruct Sl as (? & ? & Sl)); try (destruct Sr as (? & ? & Sr)); subst al ar; cbn [shash];
    try (cbn [depth_ok] in D; destruct D as (Hd & Dl & Dr); rewrite (u8_succ_chk_small _ Hd);
         rewrite (IHl f leaf (u8_succ depth)), (IHr f leaf (u8_succ depth));
         [reflexivity| | | |]; try lia;
         unfold u8_succ; rewrite N.mod_small by lia; assumption).
  cbn [depth_ok] in D. destruct D as (m & Hm & Ne & Eq).
  destruct (pad_chk_ok lx rx (N.to_nat (m - depth)) 257 depth m) as (p & P1 & P2); try assumption; try lia.
  rewrite P1, P2. reflexivity.
Qed.

Lemma generate_proof_chk_nonempty (t : merkle_set) leaf : nodes_vec t <> [] ->
  generate_proof_chk t leaf =
    match gen_proof_impl_chk (S (length (nodes_vec t))) (nodes_vec t) (nlength (nodes_vec t) - 1) leaf 0 with
    | Ok (included, proof) => if from_proof_flag t then Ok (included, []) else Ok (included, proof)
    | e => e
    end.
Proof. unfold generate_proof_chk. destruct (nodes_vec t); [congruence|reflexivity]. Qed.

Section WithH.
  Variable H : bytes -> bytes.
  Notation build := (build H).

  Lemma build_depth_ok : forall k dn l t, N.of_nat dn + N.of_nat k = 256 -> Forall leaf32 l -> agree (N.of_nat dn) l ->
    build k (N.of_nat dn) l = Some t -> depth_ok t (N.of_nat dn).
  Proof.
    induction k as [|k IH]; intros dn l t Hd F A B.
    - destruct l; [discriminate|]. cbn in B. injection B as <-. exact I.
    - pose proof (build_top H _ _ _ _ B) as T.
      destruct t as [z|h|h|h tl tr]; try contradiction; [exact I|].
      destruct (classic_both tl tr) as [(a & b & -> & ->)|NB].
      + destruct (build_dbl_inv H _ _ _ _ _ _ Hd F A B) as (_ & _ & _ & _ & m & Hm & Am & Bm & Eq).
        cbn [depth_ok]. exists m. repeat split; try lia; [congruence|exact Eq].
      + destruct (build_mid_inv H _ _ _ _ _ _ B NB) as (k' & Ek & Hne & C). injection Ek as <-. cbv zeta in C.
        assert (Fz : Forall leaf32 (filter (bit0 (N.of_nat dn)) l)) by now apply Forall_filter.
        assert (Fo : Forall leaf32 (filter (bit1 (N.of_nat dn)) l)) by now apply Forall_filter.
        assert (Az := agree_filter0_S _ _ A). assert (Ao := agree_filter1_S _ _ A).
        replace (N.of_nat dn + 1) with (N.of_nat (S dn)) in C by lia.
        assert (Hlt : N.of_nat dn < 255).
        { destruct k as [|k]; [|lia]. exfalso.
          destruct C as [(_ & Bo & _ & ST & _)|[(Bz & _ & _ & ST & _)|(Bz & Bo & _)]].
          - destruct (filter (bit1 (N.of_nat dn)) l); cbn in Bo; [discriminate|]. injection Bo as <-. cbn in ST. discriminate.
          - destruct (filter (bit0 (N.of_nat dn)) l); cbn in Bz; [discriminate|]. injection Bz as <-. cbn in ST. discriminate.
          - destruct (filter (bit0 (N.of_nat dn)) l); cbn in Bz; [discriminate|]. injection Bz as <-.
            destruct (filter (bit1 (N.of_nat dn)) l); cbn in Bo; [discriminate|]. injection Bo as <-.
            apply NB. eexists _, _. split; reflexivity. }
        assert (Hd' : N.of_nat (S dn) + N.of_nat k = 256) by lia.
        assert (G : depth_ok tl (N.of_nat (S dn)) /\ depth_ok tr (N.of_nat (S dn))).
        { destruct C as [(_ & Bo & -> & _ & _)|[(Bz & _ & -> & _ & _)|(Bz & Bo & _)]].
          - split; [exact I|]. exact (IH (S dn) _ _ Hd' Fo Ao Bo).
          - split; [|exact I]. exact (IH (S dn) _ _ Hd' Fz Az Bz).
          - split; [exact (IH (S dn) _ _ Hd' Fz Az Bz)|exact (IH (S dn) _ _ Hd' Fo Ao Bo)]. }
        replace (N.of_nat (S dn)) with (N.of_nat dn + 1) in G by lia.
        destruct tl as [a| | |], tr as [b| | |]; cbn [depth_ok]; try (split; [exact Hlt|exact G]).
        exfalso. apply NB. exists a, b. auto.
  Qed.

  (* generate_proof with overflow-checked depth arithmetic = generate_proof (wrapping), on from_leafs trees *)
  Lemma depth_never_overflows S x : Forall leaf32 S ->
    exists t, from_leafs H S = Ok t /\ generate_proof_chk t x = generate_proof t x.
  Proof.
    intros F. destruct (from_leafs_spec H S F) as (nv0 & n & EF & R).
    eexists. split; [exact EF|].
    assert (D : depth_ok (leafs_tree H S) 0).
    { rewrite leafs_tree_eq. remember (build 256 0 S) as bt eqn:B. symmetry in B. destruct bt as [t|]; [|exact I].
      apply (build_depth_ok 256 0%nat S t); try assumption; try reflexivity. intros a b _ _ i Hi. lia. }
    rewrite generate_proof_nonempty, generate_proof_chk_nonempty by (cbn; destruct nv0; discriminate).
    cbn [nodes_vec from_proof_flag].
    replace (nlength (nv0 ++ [n]) - 1) with (nlength nv0) by (rewrite nlength_app, nlength_one; lia).
    rewrite (gen_proof_chk_rep _ _ _ R); [reflexivity| |exact D].
    pose proof (rep_height _ _ _ R). rewrite app_length. cbn [length]. unfold nlength in *. lia.
  Qed.
End WithH.
