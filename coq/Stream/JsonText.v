(* Stream/JsonText.v — text form of `json` on the case lines (no spaces):
     z | t | f | INT | -INT | s HEX* (UTF-8 bytes of the string) | [ j , ... ] | { key : j , ... }
   Definitions only. *)
From ChiaV.Base Require Import Bytes.
From ChiaV.Stream Require Import Universe ValText Json.
Open Scope N_scope.

Definition c_z : byte := x7a.   Definition c_s : byte := x73.
Definition c_lbrace : byte := x7b.  Definition c_rbrace : byte := x7d.  Definition c_colon : byte := x3a.

Fixpoint jrender (j : json) : bytes :=
  match j with
  | JNull => [c_z]
  | JBool b => [if b then c_t else c_f]
  | JInt z => if (z <? 0)%Z then c_minus :: to_dec (Z.to_N (- z)) else to_dec (Z.to_N z)
  | JStr s => c_s :: to_hex s
  | JList l =>
      c_lbr :: (fix go (l : list json) : bytes :=
                  match l with
                  | [] => [c_rbr]
                  | [x] => jrender x ++ [c_rbr]
                  | x :: r => jrender x ++ comma :: go r
                  end) l
  | JDict kvs =>
      c_lbrace :: (fix go (l : list (bytes * json)) : bytes :=
                     match l with
                     | [] => [c_rbrace]
                     | [(k, x)] => k ++ c_colon :: jrender x ++ [c_rbrace]
                     | (k, x) :: r => k ++ c_colon :: jrender x ++ comma :: go r
                     end) kvs
  end.

Fixpoint jparse_items (g : nat) (pv : bytes -> option (json * bytes)) (cs : bytes) : option (list json * bytes) :=
  match g with
  | O => None
  | S g' =>
      '(v, r') <- pv cs ;;
      match r' with
      | c3 :: r3 =>
          if byte_eqb c3 comma then '(l, r4) <- jparse_items g' pv r3 ;; Some (v :: l, r4)
          else if byte_eqb c3 c_rbr then Some ([v], r3)
          else None
      | [] => None
      end
  end.

Fixpoint jparse_pairs (g : nat) (pv : bytes -> option (json * bytes)) (cs : bytes) : option (list (bytes * json) * bytes) :=
  match g with
  | O => None
  | S g' =>
      let '(k, r0) := span (fun c => negb (byte_eqb c c_colon)) cs in
      match r0 with
      | _ :: r1 =>
          '(v, r') <- pv r1 ;;
          match r' with
          | c3 :: r3 =>
              if byte_eqb c3 comma then '(l, r4) <- jparse_pairs g' pv r3 ;; Some ((k, v) :: l, r4)
              else if byte_eqb c3 c_rbrace then Some ([(k, v)], r3)
              else None
          | [] => None
          end
      | [] => None
      end
  end.

Fixpoint jparse (fuel : nat) (cs : bytes) : option (json * bytes) :=
  match fuel with
  | O => None
  | S f =>
      match cs with
      | [] => None
      | c :: r =>
          if byte_eqb c c_z then Some (JNull, r)
          else if byte_eqb c c_t then Some (JBool true, r)
          else if byte_eqb c c_f then Some (JBool false, r)
          else if byte_eqb c c_s then let '(h, r') := span is_hex r in b <- of_hex h ;; Some (JStr b, r')
          else if byte_eqb c c_minus then
            let '(d, r') := span is_digit r in n <- of_dec d ;; Some (JInt (- Z.of_N n), r')
          else if is_digit c then
            let '(d, r') := span is_digit cs in n <- of_dec d ;; Some (JInt (Z.of_N n), r')
          else if byte_eqb c c_lbr then
            match r with
            | c2 :: r2 => if byte_eqb c2 c_rbr then Some (JList [], r2)
                          else '(l, r') <- jparse_items (S (length r)) (jparse f) r ;; Some (JList l, r')
            | [] => None
            end
          else if byte_eqb c c_lbrace then
            match r with
            | c2 :: r2 => if byte_eqb c2 c_rbrace then Some (JDict [], r2)
                          else '(l, r') <- jparse_pairs (S (length r)) (jparse f) r ;; Some (JDict l, r')
            | [] => None
            end
          else None
      end
  end.

Definition jparse_all (cs : bytes) : option json :=
  '(j, r) <- jparse (S (length cs)) cs ;; match r with [] => Some j | _ => None end.
