(* Stream/JsonProofs.v — proofs about the JSON-dict representation (C20). *)
From Coq Require Import String.
From ChiaV.Base Require Import Bytes.
From ChiaV.Stream Require Import Universe Versioned Codec CodecProofs Json.
From ChiaV.Gen Require Import StreamTypes.
From Coq Require Import ZifyBool ZifyNat ZifyN.
Open Scope N_scope.

(* ---------- rejection lemmas ---------- *)
Lemma strip0x_0x h : strip0x (x30 :: x78 :: h) = Some h.
Proof. reflexivity. Qed.

Lemma reject_wrong_byte_length O n h b :
  of_hex h = Some b -> length b <> n -> from_json O (BytesN n) (JStr (x30 :: x78 :: h)) = None.
Proof.
  intros Hh Hl. cbn [from_json fj_bytesn]. rewrite strip0x_0x, Hh.
  destruct (Nat.eqb_spec (length b) n); [contradiction|reflexivity].
Qed.

Lemma reject_invalid_hex_fixed O n h :
  of_hex h = None -> from_json O (BytesN n) (JStr (x30 :: x78 :: h)) = None.
Proof. intros Hh. cbn [from_json fj_bytesn]. now rewrite strip0x_0x, Hh. Qed.

Lemma reject_invalid_hex_bytes O h :
  of_hex h = None -> from_json O Bytes (JStr (x30 :: x78 :: h)) = None.
Proof. intros Hh. cbn [from_json fj_bytes]. now rewrite strip0x_0x, Hh. Qed.

Lemma reject_missing_0x O n s :
  strip0x s = None -> from_json O (BytesN n) (JStr s) = None.
Proof. intros Hs. cbn [from_json fj_bytesn]. now rewrite Hs. Qed.

Lemma reject_uint_out_of_range O n z :
  in_range_u n z = false -> from_json O (U n) (JInt z) = None.
Proof.
  intros H. cbn [from_json]. unfold fj_u, fj_int. unfold in_range_u in H.
  destruct ((0 <=? z) && (z <=? Z.of_N (pow256 n) - 1))%Z eqn:E; [lia|reflexivity].
Qed.

Lemma reject_sint_out_of_range O n z :
  in_range_i n z = false -> from_json O (I n) (JInt z) = None.
Proof.
  intros H. cbn [from_json]. unfold fj_i, fj_int.
  destruct ((- Z.of_N (pow256 n) <=? z) && (z <=? Z.of_N (pow256 n)))%Z; [|reflexivity].
  now rewrite H.
Qed.

Lemma fj_seq_length (fj : ty -> json -> option value) ts l vs :
  fj_seq fj ts l = Some vs -> length l = length ts.
Proof.
  revert l vs; induction ts as [|t ts IH]; intros [|j l] vs; cbn [fj_seq]; try discriminate; [reflexivity|].
  destruct (fj t j); [|discriminate]. destruct (fj_seq fj ts l) eqn:E; [|discriminate].
  intros _. cbn [length]. f_equal. eapply IH. exact E.
Qed.

Lemma reject_tuple_wrong_count O ts l :
  length l <> length ts -> from_json O (Tup ts) (JList l) = None.
Proof.
  intros H. cbn [from_json seq_of].
  destruct ((length ts =? 2)%nat || (length ts =? 3)%nat); [|reflexivity].
  destruct (fj_seq (from_json O) ts l) eqn:E; [|reflexivity].
  apply fj_seq_length in E. contradiction.
Qed.

Lemma reject_array_wrong_count O n a l :
  length l <> n -> from_json O (Arr n a) (JList l) = None.
Proof.
  intros H. cbn [from_json seq_of]. destruct (Nat.eqb_spec (length l) n); [contradiction|reflexivity].
Qed.


(* a missing key, for ANY field (Option-typed ones included) *)
Lemma fj_gentail_missing O names kvs k :
  In k (map str names) -> dict_get k kvs = None -> fj_gentail O names (JDict kvs) = None.
Proof.
  intros Hin Hk. unfold fj_gentail.
  destruct names as [|n1 [|n2 [|n3 [|n4 [|n5 r]]]]]; try reflexivity.
  cbn [get_item map In] in *.
  destruct (dict_get (str n1) kvs) as [j1|] eqn:E1; [|reflexivity].
  destruct (fj_opt (fj_prog O) j1); [|reflexivity].
  destruct (dict_get (str n2) kvs) as [j2|] eqn:E2; [|reflexivity].
  destruct (iter_of j2); [|reflexivity]. destruct (fj_intlist 4 l); [|reflexivity].
  destruct (dict_get (str n3) kvs) as [j3|] eqn:E3; [|reflexivity].
  destruct (fj_opt _ j3); [|reflexivity].
  destruct (dict_get (str n4) kvs) as [j4|] eqn:E4; [|reflexivity].
  destruct Hin as [<-|[<-|[<-|[<-|[]]]]]; congruence.
Qed.

Lemma fj_fields_missing (fj : ty -> json -> option value) O fs kvs k :
  In k (keys_of fs) -> dict_get k kvs = None -> fj_fields fj O fs (JDict kvs) = None.
Proof.
  induction fs as [|f fs IH]; intros Hin Hk; [destruct Hin|].
  unfold keys_of in Hin. cbn [flat_map] in Hin. apply in_app_or in Hin.
  cbn [fj_fields].
  assert (Hord : (In k [str (fst f)] \/ In k (keys_of fs)) ->
          (j1 <- get_item (JDict kvs) (str (fst f)) ;; v <- fj (snd f) j1 ;; r <- fj_fields fj O fs (JDict kvs) ;; Some (v :: r)) = None).
  { intros [[<-|[]]|H].
    - cbn [get_item]. now rewrite Hk.
    - destruct (get_item (JDict kvs) (str (fst f))); [|reflexivity].
      destruct (fj (snd f) j); [|reflexivity]. now rewrite (IH H Hk). }
  unfold entry_keys in Hin.
  destruct (snd f) eqn:Et; try (apply Hord; destruct Hin as [Hin|Hin]; [left; exact Hin|right; exact Hin]).
  - (* Opt2 *)
    destruct (split_names (fst f)) as [|n1 [|n2 [|n3 r]]]; try reflexivity.
    cbn [get_item map In] in *.
    destruct (dict_get (str n1) kvs) as [j1|] eqn:E1; [|reflexivity].
    destruct (fj_opt (fj t1) j1); [|reflexivity].
    destruct (dict_get (str n2) kvs) as [j2|] eqn:E2; [|reflexivity].
    destruct (fj_opt (fj t2) j2); [|reflexivity].
    destruct Hin as [[<-|[<-|[]]]|Hin]; try congruence.
    now rewrite (IH Hin Hk).
  - (* GenTail *)
    destruct Hin as [Hin|Hin].
    + now rewrite (fj_gentail_missing O _ kvs k Hin Hk).
    + destruct (fj_gentail O (split_names (fst f)) (JDict kvs)); [|reflexivity]. now rewrite (IH Hin Hk).
Qed.

Lemma reject_missing_key O name fs kvs k :
  In k (keys_of fs) -> dict_get k kvs = None -> from_json O (Struct name SNamed fs) (JDict kvs) = None.
Proof. intros Hin Hk. cbn [from_json]. now rewrite (fj_fields_missing _ O fs kvs k Hin Hk). Qed.

(* a non-dict where a struct is expected (null for a required field, a list, a string) *)
Lemma reject_struct_not_dict O name f fs j :
  (forall kvs, j <> JDict kvs) -> from_json O (Struct name SNamed (f :: fs)) j = None.
Proof.
  intros Hj. cbn [from_json fj_fields].
  assert (Hg : forall k, get_item j k = None) by (intros k; destruct j; try reflexivity; now destruct (Hj kvs)).
  destruct (snd f); rewrite ?Hg; try reflexivity.
  - destruct (split_names (fst f)) as [|n1 [|n2 [|n3 r]]]; try reflexivity. now rewrite Hg.
  - unfold fj_gentail. destruct (split_names (fst f)) as [|n1 [|n2 [|n3 [|n4 [|n5 r]]]]]; try reflexivity. now rewrite Hg.
Qed.

(* ================= part j1 ================= *)

(* ---------- hex ---------- *)
Lemma hexval_hexdigit n : n < 16 -> hexval (hexdigit n) = Some n.
Proof.
  intros H.
  assert (Hc : n = 0 \/ n = 1 \/ n = 2 \/ n = 3 \/ n = 4 \/ n = 5 \/ n = 6 \/ n = 7 \/ n = 8 \/ n = 9 \/
               n = 10 \/ n = 11 \/ n = 12 \/ n = 13 \/ n = 14 \/ n = 15) by lia.
  repeat (destruct Hc as [-> | Hc]; [reflexivity|]). subst. reflexivity.
Qed.

Lemma of_hex_to_hex b : of_hex (to_hex b) = Some b.
Proof.
  induction b as [|x b IH]; [reflexivity|]. cbn [to_hex of_hex].
  pose proof (b2n_lt x) as Hx.
  rewrite !hexval_hexdigit, IH.
  - f_equal. f_equal. rewrite <- (n2b_b2n x) at 3. f_equal.
    pose proof (N.div_mod (b2n x) 16). lia.
  - apply N.mod_lt. lia.
  - apply N.div_lt_upper_bound; lia.
Qed.

(* ================= part j2 ================= *)

Definition jrt (tj : value -> option json) (fj : json -> option value) (chk : value -> bool) : Prop :=
  forall v, chk v = true -> exists j, tj v = Some j /\ fj j = Some v.

(* ---------- dictionaries ---------- *)
Lemma dict_get_app_skip k pre rest : ~ In k (map fst pre) -> dict_get k (pre ++ rest) = dict_get k rest.
Proof.
  induction pre as [|[k' v'] pre IH]; intros H; [reflexivity|]. cbn [app dict_get].
  destruct (bytes_eqb_spec k k') as [->|Hn]; [exfalso; apply H; left; reflexivity|].
  apply IH. intros Hi. apply H. right. exact Hi.
Qed.
Lemma dict_get_here k v rest : dict_get k ((k, v) :: rest) = Some v.
Proof. cbn [dict_get]. now rewrite bytes_eqb_refl. Qed.
Lemma dict_get_next k k' v' rest : k <> k' -> dict_get k ((k', v') :: rest) = dict_get k rest.
Proof. intros H. cbn [dict_get]. destruct (bytes_eqb_spec k k'); [contradiction|reflexivity]. Qed.

Lemma mem_bytes_In k l : mem_bytes k l = true <-> In k l.
Proof.
  induction l as [|x l IH]; cbn [mem_bytes In]; [split; [discriminate|contradiction]|].
  destruct (bytes_eqb_spec k x) as [->|Hn]; cbn [orb].
  - split; auto.
  - rewrite IH. split; [auto|]. intros [H|H]; [congruence|exact H].
Qed.
Lemma nodup_bytes_NoDup l : nodup_bytes l = true -> NoDup l.
Proof.
  induction l as [|x l IH]; cbn [nodup_bytes]; intros H; [constructor|].
  apply andb_prop in H as [H1 H2]. constructor; [|auto].
  intros Hi. apply mem_bytes_In in Hi. rewrite Hi in H1. discriminate.
Qed.

(* ---------- not null ---------- *)
Lemma tj_bytes_not_null b : tj_bytes b <> JNull.
Proof. unfold tj_bytes, hex0x. destruct b; discriminate. Qed.

Lemma to_json_not_null t : forall v j, nullable t = false -> to_json t v = Some j -> j <> JNull.
Proof.
  induction t using ty_ind'; intros v j Hn Hj; cbn [nullable to_json] in *; try discriminate;
    try (destruct v; try discriminate; injection Hj as <-; first [discriminate | apply tj_bytes_not_null]).
  - (* Vec *) destruct v; try discriminate. destruct (tj_list (to_json t) l); [|discriminate]. injection Hj as <-. discriminate.
  - (* Tup *) destruct v; try discriminate. destruct ((length ts =? 2)%nat || (length ts =? 3)%nat); [|discriminate].
    destruct (tj_seq to_json ts l); [|discriminate]. injection Hj as <-. discriminate.
  - (* Arr *) destruct v; try discriminate. destruct (tj_list (to_json t) l); [|discriminate]. injection Hj as <-. discriminate.
  - (* Struct *) destruct sh.
    + destruct v; try discriminate. destruct (tj_fields to_json fs l); [|discriminate]. injection Hj as <-. discriminate.
    + destruct fs as [|f [|g fs]]; try discriminate. destruct v; try discriminate. destruct l as [|x [|y l]]; try discriminate.
      inversion H as [|? ? Hf _]; subst. eapply Hf; eauto.
  - (* PoS *) unfold tj_pos in Hj. destruct v; try discriminate.
    repeat (match type of Hj with match ?l with _ => _ end = _ => destruct l; try discriminate end).
    all: try (match type of Hj with (match ?o with Some _ => _ | None => None end) = _ => destruct o; try discriminate end).
    all: try (match type of Hj with (match ?o with Some _ => _ | None => None end) = _ => destruct o; try discriminate end).
    all: try (injection Hj as <-; discriminate).
Qed.

(* ================= part j3 ================= *)

Lemma fj_bytesn_hex n b : length b = n -> fj_bytesn n (hex0x b) = Some b.
Proof. intros H. unfold fj_bytesn, hex0x. rewrite strip0x_0x, of_hex_to_hex. now rewrite (proj2 (Nat.eqb_eq _ _) H). Qed.

Lemma fj_bytes_tj b : fj_bytes (tj_bytes b) = Some b.
Proof.
  unfold tj_bytes. destruct b as [|x b]; [reflexivity|]. unfold hex0x, fj_bytes. rewrite strip0x_0x. apply of_hex_to_hex.
Qed.

Lemma fj_hexstring_hex n b : length b = n -> fj_hexstring n (hex0x b) = Some b.
Proof. intros H. unfold fj_hexstring, hex0x. rewrite strip0x_0x, of_hex_to_hex. now rewrite (proj2 (Nat.eqb_eq _ _) H). Qed.

Lemma fj_u_ok n z : in_range_u n z = true -> fj_u n (JInt z) = Some z.
Proof. intros H. unfold fj_u, fj_int, in_range_u in *. destruct ((0 <=? z) && (z <=? Z.of_N (pow256 n) - 1))%Z eqn:E; [reflexivity|lia]. Qed.
Lemma fj_i_ok n z : in_range_i n z = true -> fj_i n (JInt z) = Some z.
Proof.
  intros H. unfold fj_i, fj_int. pose proof H as H'. unfold in_range_i in H'.
  destruct ((- Z.of_N (pow256 n) <=? z) && (z <=? Z.of_N (pow256 n)))%Z eqn:E; [now rewrite H|lia].
Qed.

(* ---------- lists ---------- *)
Lemma tj_list_rt tj1 fj1 chk1 : jrt tj1 fj1 chk1 ->
  forall l, forallb chk1 l = true -> exists js, tj_list tj1 l = Some js /\ fj_list fj1 js = Some l /\ length js = length l.
Proof.
  intros Hs. induction l as [|x l IH]; cbn [forallb]; intros H; [exists []; auto|].
  apply andb_prop in H as [Hx Hl]. destruct (Hs x Hx) as (j & Hj & Hf). destruct (IH Hl) as (js & Hjs & Hfs & Hlen).
  exists (j :: js). cbn [tj_list fj_list length]. rewrite Hj, Hjs, Hf, Hfs, Hlen. auto.
Qed.

Lemma tj_seq_rt (tj : ty -> value -> option json) fj chk ts :
  Forall (fun t => jrt (tj t) (fj t) (chk t)) ts ->
  forall l, chk_seq chk ts l = true -> exists js, tj_seq tj ts l = Some js /\ fj_seq fj ts js = Some l.
Proof.
  induction 1 as [|t ts Ht _ IH]; intros [|x l]; cbn [chk_seq]; try discriminate; intros H; [exists []; auto|].
  apply andb_prop in H as [Hx Hl]. destruct (Ht x Hx) as (j & Hj & Hf). destruct (IH l Hl) as (js & Hjs & Hfs).
  exists (j :: js). cbn [tj_seq fj_seq]. rewrite Hj, Hjs, Hf, Hfs. auto.
Qed.

Lemma tj_ints_rt n l : forallb (wf_u n) l = true -> exists js, tj_ints l = Some js /\ fj_intlist n js = Some l.
Proof.
  induction l as [|x l IH]; cbn [forallb]; intros H; [exists []; auto|].
  apply andb_prop in H as [Hx Hl]. destruct x; try discriminate. cbn [wf_u] in Hx.
  destruct (IH Hl) as (js & Hjs & Hfs). exists (JInt z :: js). cbn [tj_ints fj_intlist]. rewrite Hjs, (fj_u_ok n z Hx), Hfs. auto.
Qed.

(* ---------- generator tail ---------- *)
Lemma gentail_json_rt O v n1 n2 n3 n4 d :
  wf_gentail O false v = true ->
  str n1 <> str n2 -> str n1 <> str n3 -> str n1 <> str n4 -> str n2 <> str n3 -> str n2 <> str n4 -> str n3 <> str n4 ->
  exists a b c e, v = VList [a; b; c; e] /\
  exists kvs, tj_gentail [n1; n2; n3; n4] [a; b; c; e] = Some kvs /\ map fst kvs = [str n1; str n2; str n3; str n4] /\
    ((forall k, In k [str n1; str n2; str n3; str n4] -> dict_get k d = dict_get k kvs) ->
     fj_gentail O [n1; n2; n3; n4] (JDict d) = Some [a; b; c; e]).
Proof.
  intros Hw H12 H13 H14 H23 H24 H34.
  apply wf_gentail_inv in Hw as (gn & refs & buf & ver & -> & Hgn & Hok & Hrefs & Hbuf & Hver & Hsh).
  exists gn, (VList refs), buf, (VInt ver). split; [reflexivity|].
  destruct (tj_ints_rt 4 refs Hrefs) as (jr & Hjr & Hfr).
  assert (Hg : exists jg, tj_opt (fun x => match x with VBytes b => Some (tj_bytes b) | _ => None end) gn = Some jg /\
                          fj_opt (fj_prog O) jg = Some gn).
  { destruct Hgn as [-> | (b & -> & Hb)]; [exists JNull; auto|].
    exists (tj_bytes b). split; [reflexivity|]. unfold fj_opt.
    pose proof (tj_bytes_not_null b) as Hnn. destruct (tj_bytes b) eqn:E; try contradiction; rewrite <- E;
      unfold fj_prog; rewrite fj_bytes_tj, Hb, N.eqb_refl; reflexivity. }
  assert (Hb : exists jb, tj_opt (fun x => match x with VList l => l' <- tj_ints l ;; Some (JList l') | _ => None end) buf = Some jb /\
                          fj_opt (fun x => l <- iter_of x ;; b <- fj_intlist 1 l ;; Some (VList b)) jb = Some buf).
  { destruct Hbuf as [-> | (l & -> & Hl)]; [exists JNull; auto|].
    destruct (tj_ints_rt 1 l Hl) as (jl & Hjl & Hfl). exists (JList jl). cbn [tj_opt]. rewrite Hjl. split; [reflexivity|].
    cbn [fj_opt iter_of]. now rewrite Hfl. }
  destruct Hg as (jg & Hjg & Hfg). destruct Hb as (jb & Hjb & Hfb).
  eexists. split; [unfold tj_gentail; rewrite Hjg, Hjr, Hjb; reflexivity|]. split; [reflexivity|].
  intros Hd. unfold fj_gentail. cbn [get_item].
  rewrite (Hd (str n1)) by (cbn; auto). rewrite dict_get_here. rewrite Hfg.
  rewrite (Hd (str n2)) by (cbn; auto). rewrite (dict_get_next _ _ _ _ (not_eq_sym H12)), dict_get_here. cbn [iter_of]. rewrite Hfr.
  rewrite (Hd (str n3)) by (cbn; auto). rewrite (dict_get_next _ _ _ _ (not_eq_sym H13)), (dict_get_next _ _ _ _ (not_eq_sym H23)), dict_get_here. rewrite Hfb.
  rewrite (Hd (str n4)) by (cbn; auto 6).
  rewrite (dict_get_next _ _ _ _ (not_eq_sym H14)), (dict_get_next _ _ _ _ (not_eq_sym H24)), (dict_get_next _ _ _ _ (not_eq_sym H34)), dict_get_here.
  rewrite (fj_u_ok 1 ver Hver). reflexivity.
Qed.

(* ================= part j4 ================= *)

Definition pos_kvs (j1 j2 j3 j4 j5 j6 j7 j8 j9 j10 : json) : list (bytes * json) :=
  [ (str "challenge", j1); (str "pool_public_key", j2); (str "pool_contract_puzzle_hash", j3);
    (str "plot_public_key", j4); (str "version", j5); (str "plot_index", j6); (str "meta_group", j7);
    (str "strength", j8); (str "size", j9); (str "proof", j10) ].

Lemma pos_kvs_get j1 j2 j3 j4 j5 j6 j7 j8 j9 j10 :
  let d := JDict (pos_kvs j1 j2 j3 j4 j5 j6 j7 j8 j9 j10) in
  get_item d (str "challenge") = Some j1 /\ get_item d (str "pool_public_key") = Some j2 /\
  get_item d (str "pool_contract_puzzle_hash") = Some j3 /\ get_item d (str "plot_public_key") = Some j4 /\
  get_item d (str "version") = Some j5 /\ get_item d (str "plot_index") = Some j6 /\
  get_item d (str "meta_group") = Some j7 /\ get_item d (str "strength") = Some j8 /\
  get_item d (str "size") = Some j9 /\ get_item d (str "proof") = Some j10.
Proof. cbv zeta. repeat split; reflexivity. Qed.

Lemma pos_json_rt O : jrt tj_pos (fj_pos O) (wf_pos O false).
Proof.
  intros v Hw.
  apply wf_pos_inv in Hw as (ch & pk & c & ppk & ver & pi & mg & st & sz & pf & -> & Hch & Hpk & Hc & Hppk & Hgp & Hver & Hpi & Hmg & Hst & Hsz & Hpf & Hsh).
  assert (Hjpk : exists jpk, tj_opt (fun x => match x with VBytes b => Some (hex0x b) | _ => None end) pk = Some jpk /\
                             fj_opt (fj_g1 O) jpk = Some pk).
  { destruct Hpk as [-> | (b & -> & Hb & Hg)]; [exists JNull; auto|].
    exists (hex0x b). split; [reflexivity|]. unfold fj_opt, hex0x. fold (hex0x b). unfold fj_g1. rewrite (fj_hexstring_hex 48 b Hb), Hg. reflexivity. }
  assert (Hjc : exists jc, tj_opt (fun x => match x with VBytes b => Some (hex0x b) | _ => None end) c = Some jc /\
                           fj_opt (fun x => b <- fj_bytesn 32 x ;; Some (VBytes b)) jc = Some c).
  { destruct Hc as [-> | (b & -> & Hb)]; [exists JNull; auto|].
    exists (hex0x b). split; [reflexivity|]. unfold fj_opt, hex0x. fold (hex0x b). rewrite (fj_bytesn_hex 32 b Hb). reflexivity. }
  destruct Hjpk as (jpk & Hjpk & Hfpk). destruct Hjc as (jc & Hjc & Hfc).
  exists (JDict (pos_kvs (hex0x ch) jpk jc (hex0x ppk) (JInt ver) (JInt pi) (JInt mg) (JInt st) (JInt sz) (tj_bytes pf))).
  split; [unfold tj_pos; rewrite Hjpk, Hjc; reflexivity|].
  destruct (pos_kvs_get (hex0x ch) jpk jc (hex0x ppk) (JInt ver) (JInt pi) (JInt mg) (JInt st) (JInt sz) (tj_bytes pf))
    as (G1 & G2 & G3 & G4 & G5 & G6 & G7 & G8 & G9 & G10).
  unfold fj_pos. rewrite G1, G2, G3, G4, G5, G6, G7, G8, G9, G10.
  rewrite (fj_bytesn_hex 32 ch Hch), Hfpk, Hfc. unfold fj_g1. rewrite (fj_hexstring_hex 48 ppk Hppk), Hgp.
  rewrite (fj_u_ok 1 ver Hver), (fj_u_ok 2 pi Hpi), (fj_u_ok 1 mg Hmg), (fj_u_ok 1 st Hst), (fj_u_ok 1 sz Hsz), fj_bytes_tj.
  reflexivity.
Qed.

(* ================= part j5 ================= *)

Lemma nodup_app_r {A} (l m : list A) : NoDup (l ++ m) -> NoDup m.
Proof. induction l as [|x l IH]; [auto|]. cbn [app]. intros H. inversion H; subst. auto. Qed.
Lemma nodup_app_l {A} (l m : list A) : NoDup (l ++ m) -> NoDup l.
Proof.
  induction l as [|x l IH]; [constructor|]. cbn [app]. intros H. inversion H as [|? ? Hx Hr]; subst.
  constructor; [|auto]. intros Hi. apply Hx. apply in_or_app. now left.
Qed.

Definition is_multi (t : ty) : bool := match t with Opt2 _ _ | GenTail _ => true | _ => false end.

Lemma tj_fields_ord tj f fs l : is_multi (snd f) = false ->
  tj_fields tj (f :: fs) l = match l with
                             | x :: l' => j <- tj (snd f) x ;; r <- tj_fields tj fs l' ;; Some ((str (fst f), j) :: r)
                             | [] => None
                             end.
Proof. intros H. cbn [tj_fields]. destruct (snd f); try discriminate; reflexivity. Qed.
Lemma fj_fields_ord fj O f fs j : is_multi (snd f) = false ->
  fj_fields fj O (f :: fs) j = (j1 <- get_item j (str (fst f)) ;; v <- fj (snd f) j1 ;; r <- fj_fields fj O fs j ;; Some (v :: r)).
Proof. intros H. cbn [fj_fields]. destruct (snd f); try discriminate; reflexivity. Qed.
Lemma pack_ord t l : is_multi t = false -> pack t l = match l with a :: r => Some (a, r) | [] => None end.
Proof. intros H. destruct t; try discriminate; reflexivity. Qed.
Lemma entry_keys_ord f : is_multi (snd f) = false -> entry_keys f = [str (fst f)].
Proof. intros H. unfold entry_keys. destruct (snd f); try discriminate; reflexivity. Qed.

Section JsonRt.
  Variable O : oracles.

  Definition jrt_t (t : ty) : Prop := jrt (to_json t) (from_json O t) (wf O false t).

  Definition entry_ok (f : string * ty) : Prop :=
    match snd f with
    | Opt2 a b => jrt_t a /\ jrt_t b /\ nullable a = false /\ nullable b = false /\ exists n1 n2, split_names (fst f) = [n1; n2]
    | GenTail _ => exists n1 n2 n3 n4, split_names (fst f) = [n1; n2; n3; n4]
    | t => jrt_t t
    end.

  Lemma fj_opt_some (fj : json -> option value) j x : j <> JNull -> fj j = Some x -> fj_opt fj j = Some (VSome x).
  Proof. intros Hn Hf. unfold fj_opt. destruct j; try contradiction; now rewrite Hf. Qed.

  Lemma opt_json_rt a o : jrt_t a -> nullable a = false -> wf_optval (wf O false a) o = true ->
    exists j, tj_opt (to_json a) o = Some j /\ fj_opt (from_json O a) j = Some o.
  Proof.
    intros Ha Hn Hw. destruct o; try discriminate; cbn [wf_optval] in Hw.
    - exists JNull. auto.
    - destruct (Ha o Hw) as (j & Hj & Hf). exists j. split; [exact Hj|].
      apply fj_opt_some; [eapply to_json_not_null; eauto|exact Hf].
  Qed.

  Lemma fields_rt fs :
    Forall entry_ok fs -> NoDup (keys_of fs) ->
    forall l, chk_fields (wf O false) fs l = true ->
    exists kvs, tj_fields to_json fs l = Some kvs /\ map fst kvs = keys_of fs /\
      forall pre, (forall k, In k (keys_of fs) -> ~ In k (map fst pre)) ->
        fj_fields (from_json O) O fs (JDict (pre ++ kvs)) = Some l.
  Proof.
    induction 1 as [|f fs Hf _ IH]; intros Hnd l Hc.
    - cbn [chk_fields] in Hc. destruct l; [|discriminate]. exists []. repeat split; reflexivity.
    - unfold keys_of in Hnd. cbn [flat_map] in Hnd. fold (keys_of fs) in Hnd.
      pose proof (nodup_app_r _ _ Hnd) as Hnd_fs.
      assert (Hdisj : forall k, In k (entry_keys f) -> ~ In k (keys_of fs)).
      { intros k Hk Hk'. clear - Hnd Hk Hk'. induction (entry_keys f) as [|x xs IHx]; [destruct Hk|].
        cbn [app] in Hnd. inversion Hnd as [|? ? Hx Hrest]; subst. destruct Hk as [->|Hk].
        - apply Hx. apply in_or_app. right. exact Hk'.
        - now apply IHx. }
      cbn [chk_fields] in Hc. destruct (pack (snd f) l) as [[v l']|] eqn:Ep; [|discriminate].
      apply andb_prop in Hc as [Hv Hl'].
      destruct (IH Hnd_fs l' Hl') as (kr & Hkr & Hmr & Hfr).
      unfold entry_ok in Hf.
      destruct (is_multi (snd f)) eqn:Em.
      + destruct (snd f) eqn:Et; try discriminate Em.
        * (* Opt2 *)
          destruct Hf as (Ha & Hb & Hna & Hnb & n1 & n2 & Hnames).
          cbn [pack] in Ep. destruct l as [|oa [|ob l0]]; try discriminate. injection Ep as <- <-.
          cbn [wf] in Hv. apply andb_prop in Hv as [Hwa Hwb].
          destruct (opt_json_rt t1 oa Ha Hna Hwa) as (ja & Hja & Hfa). destruct (opt_json_rt t2 ob Hb Hnb Hwb) as (jb & Hjb & Hfb).
          assert (Hk : entry_keys f = [str n1; str n2]) by (unfold entry_keys; rewrite Et, Hnames; reflexivity).
          rewrite Hk in Hnd, Hdisj. cbn [app] in Hnd.
          assert (H12 : str n1 <> str n2).
          { inversion Hnd as [|? ? Hx _]; subst. intros E. apply Hx. left. now rewrite E. }
          exists ((str n1, ja) :: (str n2, jb) :: kr). split; [|split].
          -- cbn [tj_fields]. rewrite Et, Hnames, Hja, Hjb, Hkr. reflexivity.
          -- cbn [map fst]. rewrite Hmr. unfold keys_of at 2. cbn [flat_map]. rewrite Hk. reflexivity.
          -- intros pre Hpre. cbn [fj_fields]. rewrite Et, Hnames. cbn [get_item].
             assert (Hp1 : ~ In (str n1) (map fst pre)) by (apply Hpre; unfold keys_of; cbn [flat_map]; rewrite Hk; cbn; auto).
             assert (Hp2 : ~ In (str n2) (map fst pre)) by (apply Hpre; unfold keys_of; cbn [flat_map]; rewrite Hk; cbn; auto).
             rewrite (dict_get_app_skip _ _ _ Hp1), dict_get_here, Hfa.
             rewrite (dict_get_app_skip _ _ _ Hp2), (dict_get_next _ _ _ _ (not_eq_sym H12)), dict_get_here, Hfb.
             replace (pre ++ (str n1, ja) :: (str n2, jb) :: kr) with ((pre ++ [(str n1, ja); (str n2, jb)]) ++ kr) by (rewrite <- app_assoc; reflexivity).
             rewrite Hfr; [reflexivity|].
             intros k Hk' Hin. rewrite map_app in Hin. apply in_app_or in Hin as [Hin|Hin].
             ++ apply (Hpre k); [unfold keys_of; cbn [flat_map]; apply in_or_app; right; exact Hk'|exact Hin].
             ++ apply (Hdisj k); [exact Hin|exact Hk'].
        * (* GenTail *)
          destruct Hf as (n1 & n2 & n3 & n4 & Hnames).
          assert (Hk : entry_keys f = [str n1; str n2; str n3; str n4]) by (unfold entry_keys; rewrite Et, Hnames; reflexivity).
          rewrite Hk in Hnd, Hdisj. cbn [app] in Hnd.
          assert (Hd4 : NoDup [str n1; str n2; str n3; str n4]).
          { clear - Hnd. change (str n1 :: str n2 :: str n3 :: str n4 :: keys_of fs) with ([str n1; str n2; str n3; str n4] ++ keys_of fs) in Hnd.
            now apply nodup_app_l in Hnd. }
          assert (H12 : str n1 <> str n2) by (inversion Hd4 as [|? ? Hx _]; subst; intros E; apply Hx; rewrite E; cbn; auto).
          assert (H13 : str n1 <> str n3) by (inversion Hd4 as [|? ? Hx _]; subst; intros E; apply Hx; rewrite E; cbn; auto).
          assert (H14 : str n1 <> str n4) by (inversion Hd4 as [|? ? Hx _]; subst; intros E; apply Hx; rewrite E; cbn; auto).
          inversion Hd4 as [|? ? _ Hd3]; subst.
          assert (H23 : str n2 <> str n3) by (inversion Hd3 as [|? ? Hx _]; subst; intros E; apply Hx; rewrite E; cbn; auto).
          assert (H24 : str n2 <> str n4) by (inversion Hd3 as [|? ? Hx _]; subst; intros E; apply Hx; rewrite E; cbn; auto).
          inversion Hd3 as [|? ? _ Hd2]; subst.
          assert (H34 : str n3 <> str n4) by (inversion Hd2 as [|? ? Hx _]; subst; intros E; apply Hx; rewrite E; cbn; auto).
          cbn [wf] in Hv.
          cbn [pack] in Ep. destruct l as [|a [|b [|c [|e l0]]]]; try discriminate. injection Ep as <- <-.
          destruct (gentail_json_rt O _ n1 n2 n3 n4 ([] : list (bytes * json)) Hv H12 H13 H14 H23 H24 H34)
            as (a' & b' & c' & e' & Heq & kg & Hkg & Hmg & _).
          injection Heq as <- <- <- <-.
          exists (kg ++ kr). split; [|split].
          -- cbn [tj_fields]. rewrite Et, Hnames, Hkg, Hkr. reflexivity.
          -- rewrite map_app, Hmg, Hmr. unfold keys_of at 2. cbn [flat_map]. rewrite Hk. reflexivity.
          -- intros pre Hpre. cbn [fj_fields]. rewrite Et, Hnames.
             destruct (gentail_json_rt O _ n1 n2 n3 n4 (pre ++ kg ++ kr) Hv H12 H13 H14 H23 H24 H34)
               as (a2 & b2 & c2 & e2 & Heq2 & kg2 & Hkg2 & _ & Hfg).
             injection Heq2 as <- <- <- <-. rewrite Hkg in Hkg2. injection Hkg2 as <-.
             rewrite Hfg.
             ++ replace (pre ++ kg ++ kr) with ((pre ++ kg) ++ kr) by now rewrite app_assoc.
                rewrite Hfr; [reflexivity|].
                intros k Hk' Hin. rewrite map_app in Hin. apply in_app_or in Hin as [Hin|Hin].
                ** apply (Hpre k); [unfold keys_of; cbn [flat_map]; apply in_or_app; right; exact Hk'|exact Hin].
                ** rewrite Hmg in Hin. apply (Hdisj k); [exact Hin|exact Hk'].
             ++ intros k Hk'. rewrite dict_get_app_skip.
                ** (* the key is found inside kg, the later pairs are irrelevant *)
                   assert (Hin : In k (map fst kg)) by now rewrite Hmg.
                   clear - Hin. induction kg as [|[k0 v0] kg IHk]; [destruct Hin|].
                   cbn [app dict_get]. destruct (bytes_eqb_spec k k0); [reflexivity|].
                   apply IHk. destruct Hin as [E|Hin]; [cbn in E; congruence|exact Hin].
                ** apply Hpre. unfold keys_of. cbn [flat_map]. rewrite Hk. apply in_or_app. left. exact Hk'.
      + (* ordinary entry *)
        assert (Hj : jrt_t (snd f)) by (destruct (snd f); try discriminate Em; exact Hf).
        rewrite (pack_ord _ _ Em) in Ep. destruct l as [|x l0]; [discriminate|]. injection Ep as <- <-.
        destruct (Hj x Hv) as (j & Hjx & Hfx).
        pose proof (entry_keys_ord f Em) as Hk. rewrite Hk in Hnd, Hdisj. cbn [app] in Hnd.
        exists ((str (fst f), j) :: kr). split; [|split].
        * rewrite (tj_fields_ord _ _ _ _ Em), Hjx, Hkr. reflexivity.
        * cbn [map fst]. rewrite Hmr. unfold keys_of at 2. cbn [flat_map]. rewrite Hk. reflexivity.
        * intros pre Hpre. rewrite (fj_fields_ord _ _ _ _ _ Em). cbn [get_item].
          assert (Hp1 : ~ In (str (fst f)) (map fst pre)) by (apply Hpre; unfold keys_of; cbn [flat_map]; rewrite Hk; cbn; auto).
          rewrite (dict_get_app_skip _ _ _ Hp1), dict_get_here, Hfx.
          replace (pre ++ (str (fst f), j) :: kr) with ((pre ++ [(str (fst f), j)]) ++ kr) by (rewrite <- app_assoc; reflexivity).
          rewrite Hfr; [reflexivity|].
          intros k Hk' Hin. rewrite map_app in Hin. apply in_app_or in Hin as [Hin|Hin].
          -- apply (Hpre k); [unfold keys_of; cbn [flat_map]; apply in_or_app; right; exact Hk'|exact Hin].
          -- apply (Hdisj k); [exact Hin|exact Hk'].
  Qed.
End JsonRt.

(* ================= part j6 ================= *)

Lemma json_ok_not_multi t : json_ok t = true -> is_multi t = false.
Proof. destruct t; try reflexivity; discriminate. Qed.

Section Main.
  Variable O : oracles.

  Definition P (t : ty) : Prop :=
    (json_ok t = true -> jrt_t O t) /\
    match t with
    | Opt2 a b => (json_ok a = true -> jrt_t O a) /\ (json_ok b = true -> jrt_t O b)
    | _ => True
    end.

  Lemma entries_ok fs : Forall (fun f => P (snd f)) fs -> all_field json_ok fs = true -> Forall (entry_ok O) fs.
  Proof.
    induction 1 as [|f fs Hf _ IH]; cbn [all_field]; intros H; [constructor|].
    apply andb_prop in H as [Hh Ht]. constructor; [|auto].
    unfold entry_ok. destruct Hf as [Hf1 Hf2].
    destruct (snd f) eqn:Et; try (apply Hf1; exact Hh).
    - (* Opt2 *) destruct Hf2 as [Ha Hb].
      apply andb_prop in Hh as [Hh Hn]. apply andb_prop in Hh as [Hh Hnb]. apply andb_prop in Hh as [Hh Hna]. apply andb_prop in Hh as [Hoa Hob].
      repeat split; auto; try (now apply negb_true_iff).
      destruct (split_names (fst f)) as [|n1 [|n2 [|? ?]]]; try discriminate. eauto.
    - (* GenTail *) destruct (split_names (fst f)) as [|n1 [|n2 [|n3 [|n4 [|? ?]]]]]; try discriminate. eauto 6.
  Qed.

  Lemma all_ty_forall ts : Forall P ts -> all_ty json_ok ts = true -> Forall (fun t => jrt_t O t) ts.
  Proof.
    induction 1 as [|t ts Ht _ IH]; cbn [all_ty]; intros H; [constructor|].
    apply andb_prop in H as [Hh Hr]. constructor; [apply Ht; exact Hh|auto].
  Qed.

  Theorem json_roundtrip_P t : P t.
  Proof.
    induction t using ty_ind'; (split; [intros Hok v Hw; cbn [json_ok] in Hok; cbn [wf] in Hw | try exact Logic.I]).
    - (* U *) destruct v; try discriminate. cbn [wf_u] in Hw. eexists. split; [reflexivity|]. cbn [from_json]. now rewrite (fj_u_ok n z Hw).
    - (* I *) destruct v; try discriminate. eexists. split; [reflexivity|]. cbn [from_json]. now rewrite (fj_i_ok n z Hw).
    - (* Bool *) destruct v; try discriminate. eexists. split; reflexivity.
    - (* BytesN *) destruct v; try discriminate. cbn [wf_bytes_len] in Hw. apply Nat.eqb_eq in Hw.
      eexists. split; [reflexivity|]. cbn [from_json]. now rewrite (fj_bytesn_hex n b Hw).
    - (* Bytes *) destruct v; try discriminate. eexists. split; [reflexivity|]. cbn [from_json]. now rewrite fj_bytes_tj.
    - (* Str *) destruct v; try discriminate. apply andb_prop in Hw as [_ Hu]. eexists. split; [reflexivity|]. cbn [from_json]. now rewrite Hu.
    - (* Opt *) apply andb_prop in Hok as [Hok Hn]. apply negb_true_iff in Hn.
      destruct IHt as [IH _]. cbn [to_json from_json]. now apply (opt_json_rt O t v (IH Hok) Hn).
    - (* Vec *) destruct IHt as [IH _]. destruct v; try discriminate. apply andb_prop in Hw as [_ Hf].
      destruct (tj_list_rt _ _ _ (IH Hok) l Hf) as (js & Hjs & Hfs & _).
      exists (JList js). cbn [to_json from_json iter_of]. rewrite Hjs, Hfs. auto.
    - (* Tup *) apply andb_prop in Hok as [Hlen Hall]. destruct v; try discriminate.
      destruct (tj_seq_rt to_json (from_json O) (wf O false) ts (all_ty_forall ts H Hall) l Hw) as (js & Hjs & Hfs).
      exists (JList js). cbn [to_json from_json seq_of]. rewrite Hlen, Hjs, Hfs. auto.
    - (* Arr *) destruct IHt as [IH _]. destruct v; try discriminate. apply andb_prop in Hw as [Hl Hf]. apply Nat.eqb_eq in Hl.
      destruct (tj_list_rt _ _ _ (IH Hok) l Hf) as (js & Hjs & Hfs & Hlen).
      exists (JList js). cbn [to_json from_json seq_of]. rewrite Hjs, Hfs. rewrite Hlen, Hl, Nat.eqb_refl. auto.
    - (* Enum *) destruct v; try discriminate. apply andb_prop in Hw as [Hz Hex]. apply andb_prop in Hz as [Hz0 Hz1].
      eexists. split; [reflexivity|]. cbn [from_json].
      assert (Hr : in_range_u 1 z = true) by (unfold in_range_u; change (pow256 1) with 256; lia).
      now rewrite (fj_u_ok 1 z Hr), Hex.
    - (* Struct *) destruct sh.
      + apply andb_prop in Hok as [Hall Hnd]. destruct v; try discriminate.
        destruct (fields_rt O fs (entries_ok fs H Hall) (nodup_bytes_NoDup _ Hnd) l Hw) as (kvs & Hk & _ & Hf).
        exists (JDict kvs). cbn [to_json from_json]. rewrite Hk. split; [reflexivity|].
        specialize (Hf [] (fun _ _ Hi => Hi)). cbn [app] in Hf. now rewrite Hf.
      + destruct fs as [|f [|g fs]]; try discriminate. destruct v; try discriminate.
        cbn [chk_fields] in Hw. rewrite (pack_ord _ _ (json_ok_not_multi _ Hok)) in Hw.
        destruct l as [|x [|y l]]; try discriminate; [|rewrite andb_comm in Hw; discriminate].
        rewrite andb_true_r in Hw.
        inversion H as [|? ? [Hf _] _]; subst. destruct (Hf Hok x Hw) as (j & Hj & Hfj).
        exists j. cbn [to_json from_json]. rewrite Hj, Hfj. auto.
    - (* G1 *) destruct v; try discriminate. apply andb_prop in Hw as [Hl Hg]. apply Nat.eqb_eq in Hl.
      eexists. split; [reflexivity|]. cbn [from_json]. unfold fj_g1. now rewrite (fj_hexstring_hex 48 b Hl), Hg.
    - (* G2 *) destruct v; try discriminate. apply andb_prop in Hw as [Hl Hg]. apply Nat.eqb_eq in Hl.
      eexists. split; [reflexivity|]. cbn [from_json]. now rewrite (fj_hexstring_hex 96 b Hl), Hg.
    - (* Prog *) destruct v; try discriminate. eexists. split; [reflexivity|]. cbn [from_json]. unfold fj_prog. rewrite fj_bytes_tj.
      destruct (prog_len O false b); [|discriminate]. now rewrite Hw.
    - (* Sk *) destruct v; try discriminate. apply andb_prop in Hw as [Hl Hg]. apply Nat.eqb_eq in Hl.
      eexists. split; [reflexivity|]. cbn [from_json]. now rewrite (fj_hexstring_hex 32 b Hl), Hg.
    - (* Opt2: json_ok false *) discriminate.
    - (* Opt2, second component *) destruct IHt1 as [I1 _]. destruct IHt2 as [I2 _]. split; assumption.
    - (* PoS *) cbn [to_json from_json]. now apply pos_json_rt.
    - (* GenTail *) discriminate.
  Qed.

  (* C20: converting a well-formed value to its JSON form and back yields the value *)
  Theorem json_roundtrip t v :
    json_ok t = true -> wf O false t v = true ->
    exists j, to_json t v = Some j /\ from_json O t j = Some v.
  Proof. intros Hok Hw. exact (proj1 (json_roundtrip_P t) Hok v Hw). Qed.
End Main.

(* the value that comes back is the same value, hence it has the same encoding and the same digest input *)
Corollary json_roundtrip_same_bytes_and_hash O t v :
  json_ok t = true -> wf O false t v = true ->
  exists j, to_json t v = Some j /\
    forall v', from_json O t j = Some v' -> v' = v /\ encode t v' = encode t v /\ digest O t v' = digest O t v.
Proof.
  intros Hok Hw. destruct (json_roundtrip O t v Hok Hw) as (j & Hj & Hf). exists j. split; [exact Hj|].
  intros v' Hv'. rewrite Hf in Hv'. injection Hv' as <-. auto.
Qed.

Lemma json_ok_all : forallb (fun p => json_ok (snd p)) stream_types = true.
Proof. vm_compute. reflexivity. Qed.
