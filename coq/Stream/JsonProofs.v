(* Stream/JsonProofs.v — proofs about the JSON-dict representation (C20). *)
From Coq Require Import String.
From ChiaV.Base Require Import Bytes.
From ChiaV.Stream Require Import Universe Versioned Codec Json.
From Coq Require Import ZifyBool ZifyNat ZifyN.
Open Scope N_scope.

(* ---------- rejection lemmas ---------- *)
Lemma strip0x_0x h : strip0x (x30 :: x78 :: h) = Some h.
Proof. reflexivity. Qed.

Lemma reject_wrong_byte_length O n h b :
  of_hex h = Some b -> length b <> n -> from_json O (BytesN n) (JStr (x30 :: x78 :: h)) = None.
Proof.
  intros Hh Hl. cbn [from_json fj_bytesn]. rewrite strip0x_0x, Hh.
  destruct (Nat.eqb_spec (length b) n); [contradiction|reflexivity].
Qed.

Lemma reject_invalid_hex_fixed O n h :
  of_hex h = None -> from_json O (BytesN n) (JStr (x30 :: x78 :: h)) = None.
Proof. intros Hh. cbn [from_json fj_bytesn]. now rewrite strip0x_0x, Hh. Qed.

Lemma reject_invalid_hex_bytes O h :
  of_hex h = None -> from_json O Bytes (JStr (x30 :: x78 :: h)) = None.
Proof. intros Hh. cbn [from_json fj_bytes]. now rewrite strip0x_0x, Hh. Qed.

Lemma reject_missing_0x O n s :
  strip0x s = None -> from_json O (BytesN n) (JStr s) = None.
Proof. intros Hs. cbn [from_json fj_bytesn]. now rewrite Hs. Qed.

Lemma reject_uint_out_of_range O n z :
  in_range_u n z = false -> from_json O (U n) (JInt z) = None.
Proof.
  intros H. cbn [from_json]. unfold fj_u, fj_int. unfold in_range_u in H.
  destruct ((0 <=? z) && (z <=? Z.of_N (pow256 n) - 1))%Z eqn:E; [lia|reflexivity].
Qed.

Lemma reject_sint_out_of_range O n z :
  in_range_i n z = false -> from_json O (I n) (JInt z) = None.
Proof.
  intros H. cbn [from_json]. unfold fj_i, fj_int.
  destruct ((- Z.of_N (pow256 n) <=? z) && (z <=? Z.of_N (pow256 n)))%Z; [|reflexivity].
  now rewrite H.
Qed.

Lemma fj_seq_length (fj : ty -> json -> option value) ts l vs :
  fj_seq fj ts l = Some vs -> length l = length ts.
Proof.
  revert l vs; induction ts as [|t ts IH]; intros [|j l] vs; cbn [fj_seq]; try discriminate; [reflexivity|].
  destruct (fj t j); [|discriminate]. destruct (fj_seq fj ts l) eqn:E; [|discriminate].
  intros _. cbn [length]. f_equal. eapply IH. exact E.
Qed.

Lemma reject_tuple_wrong_count O ts l :
  length l <> length ts -> from_json O (Tup ts) (JList l) = None.
Proof.
  intros H. cbn [from_json seq_of].
  destruct ((length ts =? 2)%nat || (length ts =? 3)%nat); [|reflexivity].
  destruct (fj_seq (from_json O) ts l) eqn:E; [|reflexivity].
  apply fj_seq_length in E. contradiction.
Qed.

Lemma reject_array_wrong_count O n a l :
  length l <> n -> from_json O (Arr n a) (JList l) = None.
Proof.
  intros H. cbn [from_json seq_of]. destruct (Nat.eqb_spec (length l) n); [contradiction|reflexivity].
Qed.


(* a missing key, for ANY field (Option-typed ones included) *)
Lemma fj_gentail_missing O names kvs k :
  In k (map str names) -> dict_get k kvs = None -> fj_gentail O names (JDict kvs) = None.
Proof.
  intros Hin Hk. unfold fj_gentail.
  destruct names as [|n1 [|n2 [|n3 [|n4 [|n5 r]]]]]; try reflexivity.
  cbn [get_item map In] in *.
  destruct (dict_get (str n1) kvs) as [j1|] eqn:E1; [|reflexivity].
  destruct (fj_opt (fj_prog O) j1); [|reflexivity].
  destruct (dict_get (str n2) kvs) as [j2|] eqn:E2; [|reflexivity].
  destruct (iter_of j2); [|reflexivity]. destruct (fj_intlist 4 l); [|reflexivity].
  destruct (dict_get (str n3) kvs) as [j3|] eqn:E3; [|reflexivity].
  destruct (fj_opt _ j3); [|reflexivity].
  destruct (dict_get (str n4) kvs) as [j4|] eqn:E4; [|reflexivity].
  destruct Hin as [<-|[<-|[<-|[<-|[]]]]]; congruence.
Qed.

Lemma fj_fields_missing (fj : ty -> json -> option value) O fs kvs k :
  In k (keys_of fs) -> dict_get k kvs = None -> fj_fields fj O fs (JDict kvs) = None.
Proof.
  induction fs as [|f fs IH]; intros Hin Hk; [destruct Hin|].
  unfold keys_of in Hin. cbn [flat_map] in Hin. apply in_app_or in Hin.
  cbn [fj_fields].
  assert (Hord : (In k [str (fst f)] \/ In k (keys_of fs)) ->
          (j1 <- get_item (JDict kvs) (str (fst f)) ;; v <- fj (snd f) j1 ;; r <- fj_fields fj O fs (JDict kvs) ;; Some (v :: r)) = None).
  { intros [[<-|[]]|H].
    - cbn [get_item]. now rewrite Hk.
    - destruct (get_item (JDict kvs) (str (fst f))); [|reflexivity].
      destruct (fj (snd f) j); [|reflexivity]. now rewrite (IH H Hk). }
  unfold entry_keys in Hin.
  destruct (snd f) eqn:Et; try (apply Hord; destruct Hin as [Hin|Hin]; [left; exact Hin|right; exact Hin]).
  - (* Opt2 *)
    destruct (split_names (fst f)) as [|n1 [|n2 [|n3 r]]]; try reflexivity.
    cbn [get_item map In] in *.
    destruct (dict_get (str n1) kvs) as [j1|] eqn:E1; [|reflexivity].
    destruct (fj_opt (fj t1) j1); [|reflexivity].
    destruct (dict_get (str n2) kvs) as [j2|] eqn:E2; [|reflexivity].
    destruct (fj_opt (fj t2) j2); [|reflexivity].
    destruct Hin as [[<-|[<-|[]]]|Hin]; try congruence.
    now rewrite (IH Hin Hk).
  - (* GenTail *)
    destruct Hin as [Hin|Hin].
    + now rewrite (fj_gentail_missing O _ kvs k Hin Hk).
    + destruct (fj_gentail O (split_names (fst f)) (JDict kvs)); [|reflexivity]. now rewrite (IH Hin Hk).
Qed.

Lemma reject_missing_key O name fs kvs k :
  In k (keys_of fs) -> dict_get k kvs = None -> from_json O (Struct name SNamed fs) (JDict kvs) = None.
Proof. intros Hin Hk. cbn [from_json]. now rewrite (fj_fields_missing _ O fs kvs k Hin Hk). Qed.

(* a non-dict where a struct is expected (null for a required field, a list, a string) *)
Lemma reject_struct_not_dict O name f fs j :
  (forall kvs, j <> JDict kvs) -> from_json O (Struct name SNamed (f :: fs)) j = None.
Proof.
  intros Hj. cbn [from_json fj_fields].
  assert (Hg : forall k, get_item j k = None) by (intros k; destruct j; try reflexivity; now destruct (Hj kvs)).
  destruct (snd f); rewrite ?Hg; try reflexivity.
  - destruct (split_names (fst f)) as [|n1 [|n2 [|n3 r]]]; try reflexivity. now rewrite Hg.
  - unfold fj_gentail. destruct (split_names (fst f)) as [|n1 [|n2 [|n3 [|n4 [|n5 r]]]]]; try reflexivity. now rewrite Hg.
Qed.
