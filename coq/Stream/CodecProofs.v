(* Stream/CodecProofs.v — proofs about the generic codec (C13).
   Main results, each by induction over the whole type universe (custom induction principle
   ty_ind' for the nested type):
     decode_sound   decode bs = Some (v, r)  ->  wf v  /\  exists e, encode v = Some e /\ bs = e ++ r
   Oracle hypotheses are Section hypotheses and appear in the statements. *)
From Coq Require Import String.
From ChiaV.Base Require Import Bytes.
From ChiaV.Stream Require Import Universe Versioned Codec.
From Coq Require Import ZifyBool ZifyNat ZifyN.
Open Scope N_scope.

Lemma from_bytes_gen_decode O tr t bs v :
  from_bytes_gen O tr t bs = Some v -> decode O tr t bs = Some (v, []).
Proof.
  unfold from_bytes_gen. destruct (decode O tr t bs) as [[v' r]|]; [|discriminate].
  destruct r; [|discriminate]. now intros [= ->].
Qed.

(* ================= part p1 ================= *)

(* ---------- induction principle for the nested type ---------- *)
Section TyInd.
  Variable P : ty -> Prop.
  Hypothesis HU : forall n, P (U n).
  Hypothesis HI : forall n, P (I n).
  Hypothesis HBool : P Bool.
  Hypothesis HBytesN : forall n, P (BytesN n).
  Hypothesis HBytes : P Bytes.
  Hypothesis HStr : P Str.
  Hypothesis HOpt : forall a, P a -> P (Opt a).
  Hypothesis HVec : forall a, P a -> P (Vec a).
  Hypothesis HTup : forall ts, Forall P ts -> P (Tup ts).
  Hypothesis HArr : forall n a, P a -> P (Arr n a).
  Hypothesis HEnum : forall ds, P (Enum ds).
  Hypothesis HStruct : forall name sh fs, Forall (fun f => P (snd f)) fs -> P (Struct name sh fs).
  Hypothesis HG1 : P G1.
  Hypothesis HG2 : P G2.
  Hypothesis HProg : P Prog.
  Hypothesis HSk : P Sk.
  Hypothesis HOpt2 : forall a b, P a -> P b -> P (Opt2 a b).
  Hypothesis HPoS : P PoS.
  Hypothesis HGenTail : forall f, P (GenTail f).

  Fixpoint ty_ind' (t : ty) : P t :=
    match t with
    | U n => HU n | I n => HI n | Bool => HBool | BytesN n => HBytesN n | Bytes => HBytes | Str => HStr
    | Opt a => HOpt a (ty_ind' a)
    | Vec a => HVec a (ty_ind' a)
    | Tup ts => HTup ts ((fix go (l : list ty) : Forall P l :=
                            match l with [] => Forall_nil _ | x :: r => Forall_cons _ (ty_ind' x) (go r) end) ts)
    | Arr n a => HArr n a (ty_ind' a)
    | Enum ds => HEnum ds
    | Struct name sh fs => HStruct name sh fs
         ((fix go (l : list (string * ty)) : Forall (fun f => P (snd f)) l :=
             match l with [] => Forall_nil _ | x :: r => Forall_cons _ (ty_ind' (snd x)) (go r) end) fs)
    | G1 => HG1 | G2 => HG2 | Prog => HProg | Sk => HSk
    | Opt2 a b => HOpt2 a b (ty_ind' a) (ty_ind' b)
    | PoS => HPoS | GenTail f => HGenTail f
    end.
End TyInd.

(* ---------- tactics ---------- *)
Ltac inv_bind H :=
  match type of H with
  | match ?x with Some _ => _ | None => None end = Some _ =>
      let E := fresh "E" in destruct x eqn:E; [|discriminate H]
  | (let '(_, _) := ?x in _) = Some _ => destruct x
  | (if ?c then _ else None) = Some _ => let E := fresh "E" in destruct c eqn:E; [|discriminate H]
  | (if ?c then None else _) = Some _ => let E := fresh "E" in destruct c eqn:E; [discriminate H|]
  end.

Ltac inv_bind2 H a b :=
  match type of H with
  | match ?x with Some _ => _ | None => None end = Some _ =>
      let E := fresh "E" in destruct x as [[a b]|] eqn:E; [|discriminate H]
  end.

Ltac inv_as H a b E :=
  match type of H with
  | match ?x with Some _ => _ | None => None end = Some _ =>
      destruct x as [[a b]|] eqn:E; [|discriminate H]
  end.

(* ---------- read_bytes ---------- *)
Lemma read_bytes_spec n bs b r :
  read_bytes n bs = Some (b, r) -> bs = b ++ r /\ length b = n.
Proof.
  unfold read_bytes. destruct (n <=? length bs)%nat eqn:E; [|discriminate].
  intros [= <- <-]. split.
  - symmetry. apply firstn_skipn.
  - apply firstn_length_le. apply Nat.leb_le. exact E.
Qed.

Lemma read_bytes_app n b r : length b = n -> read_bytes n (b ++ r) = Some (b, r).
Proof.
  intros <-. unfold read_bytes.
  replace (length b <=? length (b ++ r))%nat with true
    by (symmetry; apply Nat.leb_le; rewrite app_length; lia).
  rewrite firstn_app, Nat.sub_diag, firstn_all, firstn_O, app_nil_r.
  rewrite skipn_app, Nat.sub_diag, skipn_all, skipn_O. reflexivity.
Qed.

Lemma be2n_bound b n : length b = n -> be2n b < pow256 n.
Proof. intros <-. pose proof (be2n_lt b) as H. exact H. Qed.

Lemma n2be_be2n' b n : length b = n -> n2be n (be2n b) = b.
Proof. intros <-. apply n2be_be2n. Qed.

Lemma pow256_pos n : 0 < pow256 n.
Proof. unfold pow256. apply N.neq_0_lt_0. apply N.pow_nonzero. lia. Qed.

(* ---------- integers ---------- *)
Lemma dec_u_n_spec n bs x r :
  dec_u_n n bs = Some (x, r) -> x < pow256 n /\ bs = n2be n x ++ r.
Proof.
  unfold dec_u_n. intros H. inv_bind2 H b r'. injection H as <- <-.
  apply read_bytes_spec in E as [-> Hl]. split; [now apply be2n_bound|]. now rewrite n2be_be2n'.
Qed.

Lemma dec_u_n_app n x r : x < pow256 n -> dec_u_n n (n2be n x ++ r) = Some (x, r).
Proof.
  intros H. unfold dec_u_n. rewrite read_bytes_app by apply n2be_length.
  rewrite be2n_n2be by exact H. reflexivity.
Qed.

Lemma dec_u_spec n bs v r :
  dec_u n bs = Some (v, r) -> exists z, v = VInt z /\ in_range_u n z = true /\ bs = enc_u n z ++ r.
Proof.
  unfold dec_u. intros H. inv_bind2 H b r'. injection H as <- <-.
  apply read_bytes_spec in E as [-> Hl].
  exists (u_of_bytes b). split; [reflexivity|]. split.
  - unfold in_range_u, u_of_bytes. pose proof (be2n_bound b n Hl) as Hb. clear - Hb. lia.
  - unfold enc_u, u_of_bytes. rewrite N2Z.id. now rewrite n2be_be2n'.
Qed.

Lemma dec_u_app n z r : in_range_u n z = true -> dec_u n (enc_u n z ++ r) = Some (VInt z, r).
Proof.
  intros H. unfold dec_u, enc_u. rewrite read_bytes_app by apply n2be_length.
  unfold u_of_bytes, in_range_u, pow256 in *. rewrite be2n_n2be by lia. rewrite Z2N.id by lia. reflexivity.
Qed.

Lemma dec_i_spec n bs v r :
  dec_i n bs = Some (v, r) -> exists z, v = VInt z /\ in_range_i n z = true /\ bs = enc_i n z ++ r.
Proof.
  unfold dec_i. intros H. inv_bind2 H b r'. injection H as <- <-.
  apply read_bytes_spec in E as [-> Hl].
  exists (i_of_bytes n b). split; [reflexivity|].
  pose proof (be2n_bound b n Hl) as Hb. pose proof (pow256_pos n) as Hp.
  unfold in_range_i, i_of_bytes, enc_i.
  destruct (N.ltb_spec (2 * be2n b) (pow256 n)) as [Hlt|Hge].
  - split; [lia|]. rewrite Z.mod_small by lia. rewrite N2Z.id. now rewrite n2be_be2n'.
  - split; [lia|].
    replace ((Z.of_N (be2n b) - Z.of_N (pow256 n)) mod Z.of_N (pow256 n))%Z with (Z.of_N (be2n b)).
    + rewrite N2Z.id. now rewrite n2be_be2n'.
    + symmetry. rewrite <- (Z.mod_unique_pos (Z.of_N (be2n b) - Z.of_N (pow256 n)) (Z.of_N (pow256 n)) (-1) (Z.of_N (be2n b))); lia.
Qed.

Lemma dec_i_app n z r : in_range_i n z = true -> dec_i n (enc_i n z ++ r) = Some (VInt z, r).
Proof.
  intros H. unfold dec_i, enc_i. rewrite read_bytes_app by apply n2be_length.
  pose proof (pow256_pos n) as Hp. unfold in_range_i in H.
  assert (Hm : (0 <= z mod Z.of_N (pow256 n) < Z.of_N (pow256 n))%Z) by (apply Z.mod_pos_bound; lia).
  unfold i_of_bytes. rewrite be2n_n2be by (change (256 ^ N.of_nat n) with (pow256 n); lia). rewrite Z2N.id by lia.
  destruct (Z_lt_le_dec z 0) as [Hneg|Hpos].
  - assert (Hz : (z mod Z.of_N (pow256 n) = z + Z.of_N (pow256 n))%Z).
    { symmetry. apply (Z.mod_unique_pos z (Z.of_N (pow256 n)) (-1)); lia. }
    destruct (N.ltb_spec (2 * Z.to_N (z mod Z.of_N (pow256 n))) (pow256 n)); [lia|].
    repeat f_equal. lia.
  - rewrite Z.mod_small by lia.
    destruct (N.ltb_spec (2 * Z.to_N z) (pow256 n)); [reflexivity|lia].
Qed.

(* ================= part p2 ================= *)

Lemma nlen_app (a b : bytes) : nlen (a ++ b) = nlen a + nlen b.
Proof. unfold nlen. rewrite app_length. lia. Qed.

Lemma byte1 (b : bytes) : length b = 1%nat -> exists x, b = [x].
Proof. destruct b as [|x [|y r]]; try discriminate. intros _. now exists x. Qed.

Lemma be2n_single x : be2n [x] = b2n x.
Proof. unfold be2n. cbn [fold_left]. lia. Qed.

Lemma n2be_1 n : n < 256 -> n2be 1 n = [n2b n].
Proof. intros H. cbn [n2be]. f_equal. change (256 ^ N.of_nat 0) with 1. now rewrite N.div_1_r. Qed.

(* ---------- bool ---------- *)
Lemma dec_bool_spec bs v r :
  dec_bool bs = Some (v, r) -> exists b, v = VBool b /\ bs = (if b then x01 else x00) :: r.
Proof.
  unfold dec_bool. intros H. inv_bind2 H b r'. apply read_bytes_spec in E as [-> Hl].
  apply byte1 in Hl as [x ->]. rewrite be2n_single in H.
  destruct (b2n x) as [|p] eqn:Ex.
  - injection H as <- <-. exists false. split; [reflexivity|]. cbn. f_equal. apply b2n_inj. now rewrite Ex.
  - destruct p; try discriminate. injection H as <- <-. exists true. split; [reflexivity|]. cbn. f_equal. apply b2n_inj. now rewrite Ex.
Qed.

Lemma dec_bool_app (b : bool) r : dec_bool ((if b then x01 else x00) :: r) = Some (VBool b, r).
Proof. destruct b; reflexivity. Qed.

(* ---------- length-prefixed ---------- *)
Lemma dec_lenpref_spec bs b r :
  dec_lenpref bs = Some (b, r) -> nlen b <= u32_max /\ bs = n2be 4 (nlen b) ++ b ++ r.
Proof.
  unfold dec_lenpref. intros H. inv_bind2 H n r0.
  apply dec_u_n_spec in E as [Hn ->]. apply read_bytes_spec in H as [-> Hl].
  assert (Hb : nlen b = n).
  { unfold nlen in *. rewrite app_length in Hl. lia. }
  rewrite Hb. split; [|reflexivity]. unfold u32_max. change (pow256 4) with 4294967296 in Hn. lia.
Qed.

Lemma dec_lenpref_app b r :
  nlen b <= u32_max -> dec_lenpref (n2be 4 (nlen b) ++ b ++ r) = Some (b, r).
Proof.
  intros H. unfold dec_lenpref. rewrite dec_u_n_app by (change (pow256 4) with 4294967296; unfold u32_max in H; lia).
  replace (N.to_nat (N.min (nlen b) (nlen (b ++ r) + 1))) with (length b).
  - now apply read_bytes_app.
  - rewrite nlen_app. unfold nlen. lia.
Qed.

Lemma enc_lenpref_some b : nlen b <= u32_max -> enc_lenpref b = Some (n2be 4 (nlen b) ++ b).
Proof. intros H. unfold enc_lenpref. destruct (N.leb_spec (nlen b) u32_max); [reflexivity|lia]. Qed.

Lemma enc_lenpref_inv b e : enc_lenpref b = Some e -> nlen b <= u32_max /\ e = n2be 4 (nlen b) ++ b.
Proof. unfold enc_lenpref. destruct (N.leb_spec (nlen b) u32_max); [|discriminate]. intros [= <-]. auto. Qed.

(* ---------- Option prefix ---------- *)
Lemma dec_opt_spec (dec : bytes -> dres) bs v r :
  dec_opt dec bs = Some (v, r) ->
  (v = VNone /\ bs = x00 :: r) \/ (exists x r0, v = VSome x /\ bs = x01 :: r0 /\ dec r0 = Some (x, r)).
Proof.
  unfold dec_opt. intros H. inv_bind2 H b r'. apply read_bytes_spec in E as [-> Hl].
  apply byte1 in Hl as [y ->]. rewrite be2n_single in H.
  destruct (b2n y) as [|p] eqn:Ey.
  - injection H as <- <-. left. split; [reflexivity|]. cbn. f_equal. apply b2n_inj. now rewrite Ey.
  - destruct p; try discriminate. inv_bind2 H x r1. injection H as <- <-.
    right. exists x, r'. split; [reflexivity|]. split; [|exact E]. cbn. f_equal. apply b2n_inj. now rewrite Ey.
Qed.

(* ---------- list helpers ---------- *)
Section Lists.
  Variable enc1 : value -> option bytes.
  Variable dec1 : bytes -> dres.
  Hypothesis Hsound : forall bs v r, dec1 bs = Some (v, r) -> exists e, enc1 v = Some e /\ bs = e ++ r.

  Lemma dec_rep_sound n bs l r :
    dec_rep dec1 n bs = Some (l, r) -> length l = n /\ exists e, enc_list enc1 l = Some e /\ bs = e ++ r.
  Proof.
    revert bs l r; induction n as [|n IH]; intros bs l r; cbn [dec_rep].
    - intros [= <- <-]. split; [reflexivity|]. exists []. auto.
    - intros H. inv_bind2 H v r1. inv_bind2 H l' r2. injection H as <- <-.
      apply Hsound in E as (e1 & He1 & ->). apply IH in E0 as (Hl & e2 & He2 & ->).
      split; [cbn; now rewrite Hl|]. exists (e1 ++ e2). cbn [enc_list]. rewrite He1, He2. split; [reflexivity|]. now rewrite app_assoc.
  Qed.
End Lists.

(* ================= part p3 ================= *)

Definition snd_spec (dec : bytes -> dres) (enc : value -> option bytes) (chk : value -> bool) : Prop :=
  forall bs v r, dec bs = Some (v, r) -> chk v = true /\ exists e, enc v = Some e /\ bs = e ++ r.

Lemma dec_rep_sound' dec1 enc1 chk1 n :
  snd_spec dec1 enc1 chk1 ->
  forall bs l r, dec_rep dec1 n bs = Some (l, r) ->
    length l = n /\ forallb chk1 l = true /\ exists e, enc_list enc1 l = Some e /\ bs = e ++ r.
Proof.
  intros Hs. induction n as [|n IH]; intros bs l r; cbn [dec_rep].
  - intros [= <- <-]. split; [reflexivity|]. split; [reflexivity|]. exists []. auto.
  - intros H. inv_bind2 H v r1. inv_bind2 H l' r2. injection H as <- <-.
    apply Hs in E as (Hc & e1 & He1 & ->). apply IH in E0 as (Hl & Hf & e2 & He2 & ->).
    split; [cbn; now rewrite Hl|]. split; [cbn [forallb]; now rewrite Hc, Hf|].
    exists (e1 ++ e2). cbn [enc_list]. rewrite He1, He2. split; [reflexivity|]. now rewrite app_assoc.
Qed.

Lemma dec_seq_sound (dec : ty -> bytes -> dres) enc chk ts :
  Forall (fun t => snd_spec (dec t) (enc t) (chk t)) ts ->
  forall bs l r, dec_seq dec ts bs = Some (l, r) ->
    chk_seq chk ts l = true /\ exists e, enc_seq enc ts l = Some e /\ bs = e ++ r.
Proof.
  induction 1 as [|t ts Ht _ IH]; intros bs l r; cbn [dec_seq].
  - intros [= <- <-]. split; [reflexivity|]. exists []. auto.
  - intros H0. inv_bind2 H0 v r1. inv_bind2 H0 l' r2. injection H0 as <- <-.
    apply Ht in E as (Hc & e1 & He1 & ->). apply IH in E0 as (Hf & e2 & He2 & ->).
    split; [cbn [chk_seq]; now rewrite Hc, Hf|].
    exists (e1 ++ e2). cbn [enc_seq]. rewrite He1, He2. split; [reflexivity|]. now rewrite app_assoc.
Qed.

Definition shape_spec (dec : bytes -> dres) (t : ty) : Prop :=
  forall bs v r, dec bs = Some (v, r) -> forall vs l, unpack t v = Some vs -> pack t (vs ++ l) = Some (v, l).

Lemma dec_fields_sound (dec : ty -> bytes -> dres) enc chk fs :
  Forall (fun f => snd_spec (dec (snd f)) (enc (snd f)) (chk (snd f)) /\ shape_spec (dec (snd f)) (snd f)) fs ->
  forall bs l r, dec_fields dec fs bs = Some (l, r) ->
    chk_fields chk fs l = true /\ exists e, enc_fields enc fs l = Some e /\ bs = e ++ r.
Proof.
  induction 1 as [|f fs [Hf Hsh] _ IH]; intros bs l r; cbn [dec_fields].
  - intros [= <- <-]. split; [reflexivity|]. exists []. auto.
  - intros H0. inv_bind2 H0 v r1. inv_bind H0. inv_bind2 H0 l' r2. injection H0 as <- <-.
    pose proof (Hsh _ _ _ E _ l' E0) as Hp.
    apply Hf in E as (Hc & e1 & He1 & ->). apply IH in E1 as (Hfs & e2 & He2 & ->).
    split; [cbn [chk_fields]; now rewrite Hp, Hc, Hfs|].
    exists (e1 ++ e2). cbn [enc_fields]. rewrite Hp, He1, He2. split; [reflexivity|]. now rewrite app_assoc.
Qed.

(* ================= part p4 ================= *)

Lemma half0 p : p / 2 = 0 -> p = 0 \/ p = 1.
Proof. intros H. apply N.div_small_iff in H; lia. Qed.
Lemma half1 p : p / 2 = 1 -> p = 2 \/ p = 3.
Proof.
  intros H. pose proof (N.div_mod p 2 ltac:(lia)) as Hd. pose proof (N.mod_lt p 2 ltac:(lia)) as Hm.
  rewrite H in Hd. lia.
Qed.

Lemma dec_bytesn_spec n bs v r :
  dec_bytesn n bs = Some (v, r) -> exists b, v = VBytes b /\ length b = n /\ bs = b ++ r.
Proof.
  unfold dec_bytesn. intros H. inv_bind2 H b r'. injection H as <- <-.
  apply read_bytes_spec in E as [-> Hl]. now exists b.
Qed.

Lemma dec_g1_spec O tr bs v r :
  dec_g1 O tr bs = Some (v, r) -> exists b, v = VBytes b /\ length b = 48%nat /\ g1_ok O tr b = true /\ bs = b ++ r.
Proof.
  unfold dec_g1. intros H. inv_bind2 H b r'. inv_bind H. injection H as <- <-.
  apply read_bytes_spec in E as [-> Hl]. now exists b.
Qed.
Lemma dec_g2_spec O tr bs v r :
  dec_g2 O tr bs = Some (v, r) -> exists b, v = VBytes b /\ length b = 96%nat /\ g2_ok O tr b = true /\ bs = b ++ r.
Proof.
  unfold dec_g2. intros H. inv_bind2 H b r'. inv_bind H. injection H as <- <-.
  apply read_bytes_spec in E as [-> Hl]. now exists b.
Qed.
Lemma dec_sk_spec bs v r :
  dec_sk bs = Some (v, r) -> exists b, v = VBytes b /\ length b = 32%nat /\ sk_ok b = true /\ bs = b ++ r.
Proof.
  unfold dec_sk. intros H. inv_bind2 H b r'. inv_bind H. injection H as <- <-.
  apply read_bytes_spec in E as [-> Hl]. now exists b.
Qed.

Lemma dec_bytes_spec bs v r :
  dec_bytes bs = Some (v, r) -> exists b, v = VBytes b /\ nlen b <= u32_max /\ bs = n2be 4 (nlen b) ++ b ++ r.
Proof.
  unfold dec_bytes. intros H. inv_bind2 H b r'. injection H as <- <-.
  apply dec_lenpref_spec in E as [Hn ->]. now exists b.
Qed.

Lemma dec_u1_spec bs p r : dec_u_n 1 bs = Some (p, r) -> p < 256 /\ bs = n2b p :: r.
Proof.
  intros H. apply dec_u_n_spec in H as [Hp ->]. change (pow256 1) with 256 in Hp. split; [exact Hp|].
  now rewrite n2be_1.
Qed.

Lemma nat_eqb_refl' (a b : nat) : a = b -> (a =? b)%nat = true.
Proof. intros ->. apply Nat.eqb_refl. Qed.

(* ---------- ProofOfSpace ---------- *)
Lemma dec_pos_sound O tr : snd_spec (dec_pos O tr) enc_pos (wf_pos O tr).
Proof.
  intros bs v r H. unfold dec_pos in H.
  inv_as H challenge r1 Ech. apply dec_bytesn_spec in Ech as (ch & -> & Hch & ->).
  inv_as H pool_pk r2 Epk.
  inv_as H pfx r3 Epfx. apply dec_u1_spec in Epfx as (Hp & ->).
  inv_as H contract r4 Econ.
  inv_as H plot_pk r5 Eppk. apply dec_g1_spec in Eppk as (ppk & -> & Hppk & Hgpk & ->).
  assert (Hpool : (pool_pk = VNone /\ r1 = x00 :: n2b pfx :: r3) \/
                  (exists b, pool_pk = VSome (VBytes b) /\ length b = 48%nat /\ g1_ok O tr b = true /\ r1 = x01 :: b ++ n2b pfx :: r3)).
  { apply dec_opt_spec in Epk as [[-> ->]|(x & r0 & -> & -> & Hx)]; [left; auto|].
    apply dec_g1_spec in Hx as (b & -> & Hb & Hg & ->). right. now exists b. }
  assert (Hcon : (N.land pfx 1 =? 1) = false /\ contract = VNone /\ r3 = ppk ++ r5 \/
                 (N.land pfx 1 =? 1) = true /\ exists c, contract = VSome (VBytes c) /\ length c = 32%nat /\ r3 = c ++ ppk ++ r5).
  { destruct (N.land pfx 1 =? 1).
    - inv_as Econ c r' Ec. injection Econ as <- <-. apply dec_bytesn_spec in Ec as (cb & -> & Hc & ->). right. split; [reflexivity|]. now exists cb.
    - injection Econ as <- <-. left. auto. }
  clear Econ Epk.
  destruct (pfx / 2 =? 0) eqn:Ev0.
  - (* version 0 *)
    apply N.eqb_eq in Ev0. apply half0 in Ev0.
    inv_as H size r6 Esz. apply dec_u_spec in Esz as (sz & -> & Hsz & ->).
    inv_as H prf r7 Epf. apply dec_bytes_spec in Epf as (pf & -> & Hpf & ->).
    injection H as <- <-.
    destruct Hpool as [[-> ->]|(pk & -> & Hpk & Hgp & ->)];
    destruct Hcon as [(Hl & -> & ->)|(Hl & c & -> & Hc & ->)];
    destruct Ev0 as [-> | ->]; try discriminate Hl;
    (split;
     [ unfold wf_pos; cbn [wf_bytes_len wf_optval wf_u pos_shape_ok is_some];
       rewrite ?Hgpk, ?Hgp, ?Hsz, ?(nat_eqb_refl' _ _ Hch), ?(nat_eqb_refl' _ _ Hppk), ?(nat_eqb_refl' _ _ Hpk), ?(nat_eqb_refl' _ _ Hc);
       cbn; destruct (N.leb_spec (nlen pf) u32_max); [reflexivity|lia]
     | eexists; split;
       [ unfold enc_pos; cbn [opt_app enc_opt_bytes]; cbn [Z.eqb]; rewrite enc_lenpref_some by exact Hpf; reflexivity
       | cbn [app]; rewrite <- ?app_assoc; cbn [app]; rewrite <- ?app_assoc; reflexivity ] ]).
  - destruct (pfx / 2 =? 1) eqn:Ev1; [|discriminate H].
    apply N.eqb_eq in Ev1. apply half1 in Ev1.
    inv_as H plot_index r6 Epi. apply dec_u_spec in Epi as (pi & -> & Hpi & ->).
    inv_as H meta_group r7 Emg. apply dec_u_spec in Emg as (mg & -> & Hmg & ->).
    inv_as H strength r8 Est. apply dec_u_spec in Est as (st & -> & Hst & ->).
    inv_as H prf r9 Epf. apply dec_bytes_spec in Epf as (pf & -> & Hpf & ->).
    destruct Hpool as [[-> ->]|(pk & -> & Hpk & Hgp & ->)];
    destruct Hcon as [(Hl & -> & ->)|(Hl & c & -> & Hc & ->)];
    destruct Ev1 as [-> | ->]; try discriminate Hl; cbn [is_some Bool.eqb] in H; try discriminate H;
    injection H as <- <-;
    (split;
     [ unfold wf_pos; cbn [wf_bytes_len wf_optval wf_u pos_shape_ok is_some];
       rewrite ?Hgpk, ?Hgp, ?Hpi, ?Hmg, ?Hst, ?(nat_eqb_refl' _ _ Hch), ?(nat_eqb_refl' _ _ Hppk), ?(nat_eqb_refl' _ _ Hpk), ?(nat_eqb_refl' _ _ Hc);
       cbn; destruct (N.leb_spec (nlen pf) u32_max); [reflexivity|lia]
     | eexists; split;
       [ unfold enc_pos; cbn [opt_app enc_opt_bytes]; cbn [Z.eqb]; rewrite enc_lenpref_some by exact Hpf; reflexivity
       | cbn [app]; rewrite <- ?app_assoc; cbn [app]; rewrite <- ?app_assoc; reflexivity ] ]).
Qed.

(* ================= part p5 ================= *)

Lemma ints_of_bytes_back b : bytes_of_ints (ints_of_bytes b) = Some b.
Proof.
  induction b as [|x b IH]; [reflexivity|]. cbn [ints_of_bytes map bytes_of_ints].
  change (map (fun x0 => VInt (Z.of_N (b2n x0))) b) with (ints_of_bytes b). rewrite IH.
  assert (H : in_range_u 1 (Z.of_N (b2n x)) = true).
  { unfold in_range_u. change (pow256 1) with 256. pose proof (b2n_lt x). lia. }
  rewrite H. rewrite N2Z.id, n2b_b2n. reflexivity.
Qed.

Lemma ints_of_bytes_wf b : forallb (wf_u 1) (ints_of_bytes b) = true.
Proof.
  induction b as [|x b IH]; [reflexivity|]. cbn [ints_of_bytes map forallb].
  change (map (fun x0 => VInt (Z.of_N (b2n x0))) b) with (ints_of_bytes b). rewrite IH.
  cbn [wf_u]. unfold in_range_u. change (pow256 1) with 256. pose proof (b2n_lt x). lia.
Qed.

Lemma ints_of_bytes_length b : length (ints_of_bytes b) = length b.
Proof. apply map_length. Qed.

Lemma dec_u32s_sound n bs l r :
  dec_u32s n bs = Some (l, r) ->
  length l = n /\ forallb (wf_u 4) l = true /\ exists e, enc_u32s l = Some e /\ bs = e ++ r.
Proof.
  revert bs l r; induction n as [|n IH]; intros bs l r; cbn [dec_u32s].
  - intros [= <- <-]. split; [reflexivity|]. split; [reflexivity|]. exists []. auto.
  - intros H. inv_as H v r1 Ev. inv_as H l' r2 El. injection H as <- <-.
    apply dec_u_spec in Ev as (z & -> & Hz & ->). apply IH in El as (Hl & Hf & e & He & ->).
    split; [cbn; now rewrite Hl|]. split; [cbn [forallb wf_u]; now rewrite Hz, Hf|].
    exists (enc_u 4 z ++ e). cbn [enc_u32s]. rewrite Hz, He. split; [reflexivity|]. now rewrite app_assoc.
Qed.

Lemma dig_lenpref_small b : nlen b <= u32_max -> dig_lenpref b = n2be 4 (nlen b) ++ b.
Proof. intros H. unfold dig_lenpref. rewrite N.mod_small; [reflexivity|]. unfold u32_max in H. change (2 ^ 32) with 4294967296. lia. Qed.

Local Opaque n2be.

Section Oracle.
  Variable O : oracles.
  (* the CLVM length function only looks at the bytes it counts *)
  Hypothesis prog_len_stable : forall tr b n r,
    prog_len O tr b = Some n -> n <= nlen b -> prog_len O tr (firstn (N.to_nat n) b ++ r) = Some n.

  Lemma dec_prog_spec tr bs v r :
    dec_prog O tr bs = Some (v, r) ->
    exists b, v = VBytes b /\ bs = b ++ r /\ prog_len O tr b = Some (nlen b).
  Proof.
    unfold dec_prog. intros H. destruct (prog_len O tr bs) as [n|] eqn:En; [|discriminate].
    destruct (N.leb_spec n (nlen bs)) as [Hle|]; [|discriminate]. injection H as <- <-.
    exists (firstn (N.to_nat n) bs). split; [reflexivity|]. split; [symmetry; apply firstn_skipn|].
    assert (Hl : nlen (firstn (N.to_nat n) bs) = n).
    { unfold nlen in *. rewrite firstn_length_le by lia. lia. }
    rewrite Hl. pose proof (prog_len_stable tr bs n [] En Hle) as Hs. now rewrite app_nil_r in Hs.
  Qed.

  Lemma dec_gentail_sound tr : snd_spec (dec_gentail O tr) enc_gentail (wf_gentail O tr).
  Proof.
    intros bs v r H. unfold dec_gentail in H.
    inv_as H pfx r1 Epfx. apply dec_u1_spec in Epfx as (Hp & ->).
    destruct (pfx / 2 =? 0) eqn:Ev0.
    - apply N.eqb_eq in Ev0. apply half0 in Ev0.
      inv_as H gn r2 Egen. inv_as H n r3 En. apply dec_u_n_spec in En as (Hn & ->).
      destruct (N.leb_spec (n * 4) (nlen r3)); [|discriminate].
      inv_as H refs r4 Er. injection H as <- <-.
      apply dec_u32s_sound in Er as (Hl & Hf & e & He & ->).
      assert (Hlen : N.of_nat (length refs) = n) by lia.
      assert (Hok : len_ok refs = true).
      { unfold len_ok, u32_max. change (pow256 4) with 4294967296 in Hn. lia. }
      destruct Ev0 as [-> | ->];
        [replace (N.land 0 1 =? 1) with false in Egen by reflexivity
        |replace (N.land 1 1 =? 1) with true in Egen by reflexivity].
      + injection Egen as <- ->. split.
        * unfold wf_gentail. cbn [wf_optval wf_u gentail_shape_ok is_some]. rewrite Hok, Hf. reflexivity.
        * eexists. split.
          -- unfold enc_gentail. cbn [Z.eqb enc_opt_bytes]. rewrite He. unfold len_ok in Hok. rewrite Hok. reflexivity.
          -- rewrite Hlen. cbn [app]. reflexivity.
      + inv_as Egen p r' Ep. injection Egen as <- ->. apply dec_prog_spec in Ep as (b & -> & -> & Hb). split.
        * unfold wf_gentail. cbn [wf_optval wf_u gentail_shape_ok is_some]. rewrite Hb, N.eqb_refl, Hok, Hf. reflexivity.
        * eexists. split.
          -- unfold enc_gentail. cbn [Z.eqb enc_opt_bytes]. rewrite He. unfold len_ok in Hok. rewrite Hok. reflexivity.
          -- rewrite Hlen. cbn [app]. rewrite <- !app_assoc. reflexivity.
    - destruct (pfx / 2 =? 1) eqn:Ev1; [|discriminate H].
      apply N.eqb_eq in Ev1. apply half1 in Ev1.
      inv_as H buf r2 Ebuf. injection H as <- <-.
      destruct Ev1 as [-> | ->];
        [replace (N.land 2 1 =? 1) with false in Ebuf by reflexivity
        |replace (N.land 3 1 =? 1) with true in Ebuf by reflexivity].
      + injection Ebuf as <- <-. split; [reflexivity|]. exists [x02]. split; reflexivity.
      + inv_as Ebuf b r' Eb. injection Ebuf as <- <-. apply dec_lenpref_spec in Eb as (Hb & ->). split.
        * unfold wf_gentail. cbn [wf_optval wf_u gentail_shape_ok is_some forallb len_ok length]. rewrite ints_of_bytes_wf.
          rewrite ints_of_bytes_length. cbn. fold (nlen b). destruct (N.leb_spec (nlen b) u32_max); [reflexivity|lia].
        * eexists. split.
          -- unfold enc_gentail. cbn [Z.eqb]. rewrite ints_of_bytes_back. reflexivity.
          -- rewrite dig_lenpref_small by exact Hb. cbn [app]. rewrite <- !app_assoc. reflexivity.
  Qed.
End Oracle.

(* ================= part p6 ================= *)
Local Opaque n2be.


Section Oracle.
  Variable O : oracles.
  Hypothesis prog_len_stable : forall tr b n r,
    prog_len O tr b = Some n -> n <= nlen b -> prog_len O tr (firstn (N.to_nat n) b ++ r) = Some n.

  Lemma decode_shape tr t : shape_spec (decode O tr t) t.
  Proof.
    intros bs v r H vs l Hu.
    destruct t; try (cbn in Hu; injection Hu as <-; reflexivity).
    - (* Opt2 *)
      cbn [decode] in H. inv_as H p r1 Ep.
      destruct p as [|[[q|q|]|[q|q|]|]]; try discriminate H.
      + injection H as <- <-. cbn in Hu. injection Hu as <-. reflexivity.
      + inv_as H x r2 Ex. inv_as H y r3 Ey. injection H as <- <-. cbn in Hu. injection Hu as <-. reflexivity.
      + inv_as H y r2 Ey. injection H as <- <-. cbn in Hu. injection Hu as <-. reflexivity.
      + inv_as H x r2 Ex. injection H as <- <-. cbn in Hu. injection Hu as <-. reflexivity.
    - (* GenTail *)
      cbn [decode] in H. unfold dec_gentail in H. inv_as H p r1 Ep.
      destruct (p / 2 =? 0).
      + inv_as H g r2 Eg. inv_as H n r3 En. destruct (n * 4 <=? nlen r3); [|discriminate].
        inv_as H refs r4 Er. injection H as <- <-. cbn in Hu. injection Hu as <-. reflexivity.
      + destruct (p / 2 =? 1); [|discriminate]. inv_as H b r2 Eb. injection H as <- <-.
        cbn in Hu. injection Hu as <-. reflexivity.
  Qed.

  Theorem decode_sound tr t : snd_spec (decode O tr t) (encode t) (wf O tr t).
  Proof.
    induction t using ty_ind'; intros bs v r Hd; cbn [decode] in Hd.
    - (* U *) apply dec_u_spec in Hd as (z & -> & Hz & ->). cbn [wf wf_u encode]. rewrite Hz. split; [reflexivity|]. eauto.
    - (* I *) apply dec_i_spec in Hd as (z & -> & Hz & ->). cbn [wf encode]. rewrite Hz. split; [reflexivity|]. eauto.
    - (* Bool *) apply dec_bool_spec in Hd as (b & -> & ->). cbn [wf encode]. split; [reflexivity|]. eauto.
    - (* BytesN *) apply dec_bytesn_spec in Hd as (b & -> & Hl & ->). cbn [wf wf_bytes_len encode].
      rewrite (nat_eqb_refl' _ _ Hl). split; [reflexivity|]. eauto.
    - (* Bytes *) apply dec_bytes_spec in Hd as (b & -> & Hl & ->). cbn [wf encode]. rewrite enc_lenpref_some by exact Hl.
      split; [lia|]. eexists. split; [reflexivity|]. now rewrite app_assoc.
    - (* Str *) unfold dec_str in Hd. inv_as Hd b r' Eb. inv_bind Hd. injection Hd as <- <-.
      apply dec_lenpref_spec in Eb as (Hl & ->). cbn [wf encode]. rewrite enc_lenpref_some by exact Hl. rewrite E.
      split; [lia|]. eexists. split; [reflexivity|]. now rewrite app_assoc.
    - (* Opt *) apply dec_opt_spec in Hd as [[-> ->]|(x & r0 & -> & -> & Hx)].
      + cbn [wf wf_optval encode]. split; [reflexivity|]. exists [x00]. auto.
      + apply IHt in Hx as (Hw & e & He & ->). cbn [wf wf_optval encode]. rewrite He. split; [exact Hw|]. eauto.
    - (* Vec *) inv_as Hd n r1 En. apply dec_u_n_spec in En as (Hn & ->). inv_bind Hd. inv_as Hd l r2 El. injection Hd as <- <-.
      apply (dec_rep_sound' _ (encode t) (wf O tr t) _ IHt) in El as (Hl & Hf & e & He & ->).
      assert (Hlen : N.of_nat (length l) = n) by lia.
      assert (Hok : len_ok l = true) by (unfold len_ok, u32_max; change (pow256 4) with 4294967296 in Hn; lia).
      cbn [wf encode]. rewrite Hok, Hf, He, Hlen. split; [reflexivity|]. eexists. split; [reflexivity|]. now rewrite app_assoc.
    - (* Tup *) inv_as Hd l r1 El. injection Hd as <- <-.
      apply (dec_seq_sound _ encode (wf O tr) ts H) in El as (Hc & e & He & ->).
      cbn [wf encode]. rewrite He. split; [exact Hc|]. eauto.
    - (* Arr *) inv_as Hd l r1 El. injection Hd as <- <-.
      apply (dec_rep_sound' _ (encode t) (wf O tr t) _ IHt) in El as (Hl & Hf & e & He & ->).
      cbn [wf encode]. rewrite (nat_eqb_refl' _ _ Hl), Hf, He. split; [reflexivity|]. eauto.
    - (* Enum *) inv_as Hd n r1 En. apply dec_u1_spec in En as (Hn & ->). inv_bind Hd. injection Hd as <- <-.
      cbn [wf encode]. rewrite N2Z.id, E. replace (0 <=? Z.of_N n)%Z with true by lia.
      split; [reflexivity|]. eexists. split; [reflexivity|]. reflexivity.
    - (* Struct *) inv_as Hd l r1 El. injection Hd as <- <-.
      assert (Hall : Forall (fun f => snd_spec (decode O tr (snd f)) (encode (snd f)) (wf O tr (snd f)) /\
                                      shape_spec (decode O tr (snd f)) (snd f)) fs).
      { eapply Forall_impl; [|exact H]. intros f Hf. split; [exact Hf|apply decode_shape]. }
      apply (dec_fields_sound _ encode (wf O tr) fs Hall) in El as (Hc & e & He & ->).
      cbn [wf encode]. rewrite He. split; [exact Hc|]. eauto.
    - (* G1 *) apply dec_g1_spec in Hd as (b & -> & Hl & Hg & ->). cbn [wf encode]. rewrite (nat_eqb_refl' _ _ Hl), Hg. split; [reflexivity|]. eauto.
    - (* G2 *) apply dec_g2_spec in Hd as (b & -> & Hl & Hg & ->). cbn [wf encode]. rewrite (nat_eqb_refl' _ _ Hl), Hg. split; [reflexivity|]. eauto.
    - (* Prog *) apply (dec_prog_spec O prog_len_stable) in Hd as (b & -> & -> & Hb). cbn [wf encode]. rewrite Hb, N.eqb_refl. split; [reflexivity|]. eauto.
    - (* Sk *) apply dec_sk_spec in Hd as (b & -> & Hl & Hg & ->). cbn [wf encode]. rewrite (nat_eqb_refl' _ _ Hl), Hg. split; [reflexivity|]. eauto.
    - (* Opt2 *) inv_as Hd p r1 Ep. apply dec_u1_spec in Ep as (Hp & ->).
      destruct p as [|[[q|q|]|[q|q|]|]]; try discriminate Hd.
      + injection Hd as <- <-. cbn [wf wf_optval encode enc_optval]. split; [reflexivity|]. eexists. split; reflexivity.
      + inv_as Hd x r2 Ex. inv_as Hd y r3 Ey. injection Hd as <- <-.
        apply IHt1 in Ex as (Hwx & ex & Hex & ->). apply IHt2 in Ey as (Hwy & ey & Hey & ->).
        cbn [wf wf_optval encode enc_optval]. rewrite Hwx, Hwy, Hex, Hey. split; [reflexivity|].
        eexists. split; [reflexivity|]. cbn [opt2_prefix is_some app]. now rewrite <- app_assoc.
      + inv_as Hd y r2 Ey. injection Hd as <- <-. apply IHt2 in Ey as (Hwy & ey & Hey & ->).
        cbn [wf wf_optval encode enc_optval]. rewrite Hwy, Hey. split; [reflexivity|].
        eexists. split; [reflexivity|]. reflexivity.
      + inv_as Hd x r2 Ex. injection Hd as <- <-. apply IHt1 in Ex as (Hwx & ex & Hex & ->).
        cbn [wf wf_optval encode enc_optval]. rewrite Hwx, Hex. split; [reflexivity|].
        eexists. split; [reflexivity|]. cbn [opt2_prefix is_some app]. now rewrite app_nil_r.
    - (* PoS *) apply dec_pos_sound in Hd. exact Hd.
    - (* GenTail *) apply (dec_gentail_sound O prog_len_stable) in Hd. exact Hd.
  Qed.
End Oracle.
