(* Stream/CodecProofs.v — proofs about the generic codec (C13).
   Main results, each by induction over the whole type universe (custom induction principle
   ty_ind' for the nested type):
     decode_sound   decode bs = Some (v, r)  ->  wf v  /\  exists e, encode v = Some e /\ bs = e ++ r
   Oracle hypotheses are Section hypotheses and appear in the statements. *)
From Coq Require Import String.
From ChiaV.Base Require Import Bytes.
From ChiaV.Stream Require Import Universe Versioned Codec.
From Coq Require Import ZifyBool ZifyNat ZifyN.
Open Scope N_scope.

Lemma from_bytes_gen_decode O tr t bs v :
  from_bytes_gen O tr t bs = Some v -> decode O tr t bs = Some (v, []).
Proof.
  unfold from_bytes_gen. destruct (decode O tr t bs) as [[v' r]|]; [|discriminate].
  destruct r; [|discriminate]. now intros [= ->].
Qed.

(* ================= part p1 ================= *)

(* ---------- induction principle for the nested type ---------- *)
Section TyInd.
  Variable P : ty -> Prop.
  Hypothesis HU : forall n, P (U n).
  Hypothesis HI : forall n, P (I n).
  Hypothesis HBool : P Bool.
  Hypothesis HBytesN : forall n, P (BytesN n).
  Hypothesis HBytes : P Bytes.
  Hypothesis HStr : P Str.
  Hypothesis HOpt : forall a, P a -> P (Opt a).
  Hypothesis HVec : forall a, P a -> P (Vec a).
  Hypothesis HTup : forall ts, Forall P ts -> P (Tup ts).
  Hypothesis HArr : forall n a, P a -> P (Arr n a).
  Hypothesis HEnum : forall ds, P (Enum ds).
  Hypothesis HStruct : forall name sh fs, Forall (fun f => P (snd f)) fs -> P (Struct name sh fs).
  Hypothesis HG1 : P G1.
  Hypothesis HG2 : P G2.
  Hypothesis HProg : P Prog.
  Hypothesis HSk : P Sk.
  Hypothesis HOpt2 : forall a b, P a -> P b -> P (Opt2 a b).
  Hypothesis HPoS : P PoS.
  Hypothesis HGenTail : forall f, P (GenTail f).

  Fixpoint ty_ind' (t : ty) : P t :=
    match t with
    | U n => HU n | I n => HI n | Bool => HBool | BytesN n => HBytesN n | Bytes => HBytes | Str => HStr
    | Opt a => HOpt a (ty_ind' a)
    | Vec a => HVec a (ty_ind' a)
    | Tup ts => HTup ts ((fix go (l : list ty) : Forall P l :=
                            match l with [] => Forall_nil _ | x :: r => Forall_cons _ (ty_ind' x) (go r) end) ts)
    | Arr n a => HArr n a (ty_ind' a)
    | Enum ds => HEnum ds
    | Struct name sh fs => HStruct name sh fs
         ((fix go (l : list (string * ty)) : Forall (fun f => P (snd f)) l :=
             match l with [] => Forall_nil _ | x :: r => Forall_cons _ (ty_ind' (snd x)) (go r) end) fs)
    | G1 => HG1 | G2 => HG2 | Prog => HProg | Sk => HSk
    | Opt2 a b => HOpt2 a b (ty_ind' a) (ty_ind' b)
    | PoS => HPoS | GenTail f => HGenTail f
    end.
End TyInd.

(* ---------- tactics ---------- *)
Ltac inv_bind H :=
  match type of H with
  | match ?x with Some _ => _ | None => None end = Some _ =>
      let E := fresh "E" in destruct x eqn:E; [|discriminate H]
  | (let '(_, _) := ?x in _) = Some _ => destruct x
  | (if ?c then _ else None) = Some _ => let E := fresh "E" in destruct c eqn:E; [|discriminate H]
  | (if ?c then None else _) = Some _ => let E := fresh "E" in destruct c eqn:E; [discriminate H|]
  end.

Ltac inv_bind2 H a b :=
  match type of H with
  | match ?x with Some _ => _ | None => None end = Some _ =>
      let E := fresh "E" in destruct x as [[a b]|] eqn:E; [|discriminate H]
  end.

Ltac inv_as H a b E :=
  match type of H with
  | match ?x with Some _ => _ | None => None end = Some _ =>
      destruct x as [[a b]|] eqn:E; [|discriminate H]
  end.

(* ---------- read_bytes ---------- *)
Lemma read_bytes_spec n bs b r :
  read_bytes n bs = Some (b, r) -> bs = b ++ r /\ length b = n.
Proof.
  unfold read_bytes. destruct (n <=? length bs)%nat eqn:E; [|discriminate].
  intros [= <- <-]. split.
  - symmetry. apply firstn_skipn.
  - apply firstn_length_le. apply Nat.leb_le. exact E.
Qed.

Lemma read_bytes_app n b r : length b = n -> read_bytes n (b ++ r) = Some (b, r).
Proof.
  intros <-. unfold read_bytes.
  replace (length b <=? length (b ++ r))%nat with true
    by (symmetry; apply Nat.leb_le; rewrite app_length; lia).
  rewrite firstn_app, Nat.sub_diag, firstn_all, firstn_O, app_nil_r.
  rewrite skipn_app, Nat.sub_diag, skipn_all, skipn_O. reflexivity.
Qed.

Lemma be2n_bound b n : length b = n -> be2n b < pow256 n.
Proof. intros <-. pose proof (be2n_lt b) as H. exact H. Qed.

Lemma n2be_be2n' b n : length b = n -> n2be n (be2n b) = b.
Proof. intros <-. apply n2be_be2n. Qed.

Lemma pow256_pos n : 0 < pow256 n.
Proof. unfold pow256. apply N.neq_0_lt_0. apply N.pow_nonzero. lia. Qed.

(* ---------- integers ---------- *)
Lemma dec_u_n_spec n bs x r :
  dec_u_n n bs = Some (x, r) -> x < pow256 n /\ bs = n2be n x ++ r.
Proof.
  unfold dec_u_n. intros H. inv_bind2 H b r'. injection H as <- <-.
  apply read_bytes_spec in E as [-> Hl]. split; [now apply be2n_bound|]. now rewrite n2be_be2n'.
Qed.

Lemma dec_u_n_app n x r : x < pow256 n -> dec_u_n n (n2be n x ++ r) = Some (x, r).
Proof.
  intros H. unfold dec_u_n. rewrite read_bytes_app by apply n2be_length.
  rewrite be2n_n2be by exact H. reflexivity.
Qed.

Lemma dec_u_spec n bs v r :
  dec_u n bs = Some (v, r) -> exists z, v = VInt z /\ in_range_u n z = true /\ bs = enc_u n z ++ r.
Proof.
  unfold dec_u. intros H. inv_bind2 H b r'. injection H as <- <-.
  apply read_bytes_spec in E as [-> Hl].
  exists (u_of_bytes b). split; [reflexivity|]. split.
  - unfold in_range_u, u_of_bytes. pose proof (be2n_bound b n Hl) as Hb. clear - Hb. lia.
  - unfold enc_u, u_of_bytes. rewrite N2Z.id. now rewrite n2be_be2n'.
Qed.

Lemma dec_u_app n z r : in_range_u n z = true -> dec_u n (enc_u n z ++ r) = Some (VInt z, r).
Proof.
  intros H. unfold dec_u, enc_u. rewrite read_bytes_app by apply n2be_length.
  unfold u_of_bytes, in_range_u, pow256 in *. rewrite be2n_n2be by lia. rewrite Z2N.id by lia. reflexivity.
Qed.

Lemma dec_i_spec n bs v r :
  dec_i n bs = Some (v, r) -> exists z, v = VInt z /\ in_range_i n z = true /\ bs = enc_i n z ++ r.
Proof.
  unfold dec_i. intros H. inv_bind2 H b r'. injection H as <- <-.
  apply read_bytes_spec in E as [-> Hl].
  exists (i_of_bytes n b). split; [reflexivity|].
  pose proof (be2n_bound b n Hl) as Hb. pose proof (pow256_pos n) as Hp.
  unfold in_range_i, i_of_bytes, enc_i.
  destruct (N.ltb_spec (2 * be2n b) (pow256 n)) as [Hlt|Hge].
  - split; [lia|]. rewrite Z.mod_small by lia. rewrite N2Z.id. now rewrite n2be_be2n'.
  - split; [lia|].
    replace ((Z.of_N (be2n b) - Z.of_N (pow256 n)) mod Z.of_N (pow256 n))%Z with (Z.of_N (be2n b)).
    + rewrite N2Z.id. now rewrite n2be_be2n'.
    + symmetry. rewrite <- (Z.mod_unique_pos (Z.of_N (be2n b) - Z.of_N (pow256 n)) (Z.of_N (pow256 n)) (-1) (Z.of_N (be2n b))); lia.
Qed.

Lemma dec_i_app n z r : in_range_i n z = true -> dec_i n (enc_i n z ++ r) = Some (VInt z, r).
Proof.
  intros H. unfold dec_i, enc_i. rewrite read_bytes_app by apply n2be_length.
  pose proof (pow256_pos n) as Hp. unfold in_range_i in H.
  assert (Hm : (0 <= z mod Z.of_N (pow256 n) < Z.of_N (pow256 n))%Z) by (apply Z.mod_pos_bound; lia).
  unfold i_of_bytes. rewrite be2n_n2be by (change (256 ^ N.of_nat n) with (pow256 n); lia). rewrite Z2N.id by lia.
  destruct (Z_lt_le_dec z 0) as [Hneg|Hpos].
  - assert (Hz : (z mod Z.of_N (pow256 n) = z + Z.of_N (pow256 n))%Z).
    { symmetry. apply (Z.mod_unique_pos z (Z.of_N (pow256 n)) (-1)); lia. }
    destruct (N.ltb_spec (2 * Z.to_N (z mod Z.of_N (pow256 n))) (pow256 n)); [lia|].
    repeat f_equal. lia.
  - rewrite Z.mod_small by lia.
    destruct (N.ltb_spec (2 * Z.to_N z) (pow256 n)); [reflexivity|lia].
Qed.

(* ================= part p2 ================= *)

Lemma nlen_app (a b : bytes) : nlen (a ++ b) = nlen a + nlen b.
Proof. unfold nlen. rewrite app_length. lia. Qed.

Lemma byte1 (b : bytes) : length b = 1%nat -> exists x, b = [x].
Proof. destruct b as [|x [|y r]]; try discriminate. intros _. now exists x. Qed.

Lemma be2n_single x : be2n [x] = b2n x.
Proof. unfold be2n. cbn [fold_left]. lia. Qed.

Lemma n2be_1 n : n < 256 -> n2be 1 n = [n2b n].
Proof. intros H. cbn [n2be]. f_equal. change (256 ^ N.of_nat 0) with 1. now rewrite N.div_1_r. Qed.

(* ---------- bool ---------- *)
Lemma dec_bool_spec bs v r :
  dec_bool bs = Some (v, r) -> exists b, v = VBool b /\ bs = (if b then x01 else x00) :: r.
Proof.
  unfold dec_bool. intros H. inv_bind2 H b r'. apply read_bytes_spec in E as [-> Hl].
  apply byte1 in Hl as [x ->]. rewrite be2n_single in H.
  destruct (b2n x) as [|p] eqn:Ex.
  - injection H as <- <-. exists false. split; [reflexivity|]. cbn. f_equal. apply b2n_inj. now rewrite Ex.
  - destruct p; try discriminate. injection H as <- <-. exists true. split; [reflexivity|]. cbn. f_equal. apply b2n_inj. now rewrite Ex.
Qed.

Lemma dec_bool_app (b : bool) r : dec_bool ((if b then x01 else x00) :: r) = Some (VBool b, r).
Proof. destruct b; reflexivity. Qed.

(* ---------- length-prefixed ---------- *)
Lemma dec_lenpref_spec bs b r :
  dec_lenpref bs = Some (b, r) -> nlen b <= u32_max /\ bs = n2be 4 (nlen b) ++ b ++ r.
Proof.
  unfold dec_lenpref. intros H. inv_bind2 H n r0.
  apply dec_u_n_spec in E as [Hn ->]. apply read_bytes_spec in H as [-> Hl].
  assert (Hb : nlen b = n).
  { unfold nlen in *. rewrite app_length in Hl. lia. }
  rewrite Hb. split; [|reflexivity]. unfold u32_max. change (pow256 4) with 4294967296 in Hn. lia.
Qed.

Lemma dec_lenpref_app b r :
  nlen b <= u32_max -> dec_lenpref (n2be 4 (nlen b) ++ b ++ r) = Some (b, r).
Proof.
  intros H. unfold dec_lenpref. rewrite dec_u_n_app by (change (pow256 4) with 4294967296; unfold u32_max in H; lia).
  replace (N.to_nat (N.min (nlen b) (nlen (b ++ r) + 1))) with (length b).
  - now apply read_bytes_app.
  - rewrite nlen_app. unfold nlen. lia.
Qed.

Lemma enc_lenpref_some b : nlen b <= u32_max -> enc_lenpref b = Some (n2be 4 (nlen b) ++ b).
Proof. intros H. unfold enc_lenpref. destruct (N.leb_spec (nlen b) u32_max); [reflexivity|lia]. Qed.

Lemma enc_lenpref_inv b e : enc_lenpref b = Some e -> nlen b <= u32_max /\ e = n2be 4 (nlen b) ++ b.
Proof. unfold enc_lenpref. destruct (N.leb_spec (nlen b) u32_max); [|discriminate]. intros [= <-]. auto. Qed.

(* ---------- Option prefix ---------- *)
Lemma dec_opt_spec (dec : bytes -> dres) bs v r :
  dec_opt dec bs = Some (v, r) ->
  (v = VNone /\ bs = x00 :: r) \/ (exists x r0, v = VSome x /\ bs = x01 :: r0 /\ dec r0 = Some (x, r)).
Proof.
  unfold dec_opt. intros H. inv_bind2 H b r'. apply read_bytes_spec in E as [-> Hl].
  apply byte1 in Hl as [y ->]. rewrite be2n_single in H.
  destruct (b2n y) as [|p] eqn:Ey.
  - injection H as <- <-. left. split; [reflexivity|]. cbn. f_equal. apply b2n_inj. now rewrite Ey.
  - destruct p; try discriminate. inv_bind2 H x r1. injection H as <- <-.
    right. exists x, r'. split; [reflexivity|]. split; [|exact E]. cbn. f_equal. apply b2n_inj. now rewrite Ey.
Qed.

(* ---------- list helpers ---------- *)
Section Lists.
  Variable enc1 : value -> option bytes.
  Variable dec1 : bytes -> dres.
  Hypothesis Hsound : forall bs v r, dec1 bs = Some (v, r) -> exists e, enc1 v = Some e /\ bs = e ++ r.

  Lemma dec_rep_sound n bs l r :
    dec_rep dec1 n bs = Some (l, r) -> length l = n /\ exists e, enc_list enc1 l = Some e /\ bs = e ++ r.
  Proof.
    revert bs l r; induction n as [|n IH]; intros bs l r; cbn [dec_rep].
    - intros [= <- <-]. split; [reflexivity|]. exists []. auto.
    - intros H. inv_bind2 H v r1. inv_bind2 H l' r2. injection H as <- <-.
      apply Hsound in E as (e1 & He1 & ->). apply IH in E0 as (Hl & e2 & He2 & ->).
      split; [cbn; now rewrite Hl|]. exists (e1 ++ e2). cbn [enc_list]. rewrite He1, He2. split; [reflexivity|]. now rewrite app_assoc.
  Qed.
End Lists.

(* ================= part p3 ================= *)

Definition snd_spec (dec : bytes -> dres) (enc : value -> option bytes) (chk : value -> bool) : Prop :=
  forall bs v r, dec bs = Some (v, r) -> chk v = true /\ exists e, enc v = Some e /\ bs = e ++ r.

Lemma dec_rep_sound' dec1 enc1 chk1 n :
  snd_spec dec1 enc1 chk1 ->
  forall bs l r, dec_rep dec1 n bs = Some (l, r) ->
    length l = n /\ forallb chk1 l = true /\ exists e, enc_list enc1 l = Some e /\ bs = e ++ r.
Proof.
  intros Hs. induction n as [|n IH]; intros bs l r; cbn [dec_rep].
  - intros [= <- <-]. split; [reflexivity|]. split; [reflexivity|]. exists []. auto.
  - intros H. inv_bind2 H v r1. inv_bind2 H l' r2. injection H as <- <-.
    apply Hs in E as (Hc & e1 & He1 & ->). apply IH in E0 as (Hl & Hf & e2 & He2 & ->).
    split; [cbn; now rewrite Hl|]. split; [cbn [forallb]; now rewrite Hc, Hf|].
    exists (e1 ++ e2). cbn [enc_list]. rewrite He1, He2. split; [reflexivity|]. now rewrite app_assoc.
Qed.

Lemma dec_seq_sound (dec : ty -> bytes -> dres) enc chk ts :
  Forall (fun t => snd_spec (dec t) (enc t) (chk t)) ts ->
  forall bs l r, dec_seq dec ts bs = Some (l, r) ->
    chk_seq chk ts l = true /\ exists e, enc_seq enc ts l = Some e /\ bs = e ++ r.
Proof.
  induction 1 as [|t ts Ht _ IH]; intros bs l r; cbn [dec_seq].
  - intros [= <- <-]. split; [reflexivity|]. exists []. auto.
  - intros H0. inv_bind2 H0 v r1. inv_bind2 H0 l' r2. injection H0 as <- <-.
    apply Ht in E as (Hc & e1 & He1 & ->). apply IH in E0 as (Hf & e2 & He2 & ->).
    split; [cbn [chk_seq]; now rewrite Hc, Hf|].
    exists (e1 ++ e2). cbn [enc_seq]. rewrite He1, He2. split; [reflexivity|]. now rewrite app_assoc.
Qed.

Definition shape_spec (dec : bytes -> dres) (t : ty) : Prop :=
  forall bs v r, dec bs = Some (v, r) -> forall vs l, unpack t v = Some vs -> pack t (vs ++ l) = Some (v, l).

Lemma dec_fields_sound (dec : ty -> bytes -> dres) enc chk fs :
  Forall (fun f => snd_spec (dec (snd f)) (enc (snd f)) (chk (snd f)) /\ shape_spec (dec (snd f)) (snd f)) fs ->
  forall bs l r, dec_fields dec fs bs = Some (l, r) ->
    chk_fields chk fs l = true /\ exists e, enc_fields enc fs l = Some e /\ bs = e ++ r.
Proof.
  induction 1 as [|f fs [Hf Hsh] _ IH]; intros bs l r; cbn [dec_fields].
  - intros [= <- <-]. split; [reflexivity|]. exists []. auto.
  - intros H0. inv_bind2 H0 v r1. inv_bind H0. inv_bind2 H0 l' r2. injection H0 as <- <-.
    pose proof (Hsh _ _ _ E _ l' E0) as Hp.
    apply Hf in E as (Hc & e1 & He1 & ->). apply IH in E1 as (Hfs & e2 & He2 & ->).
    split; [cbn [chk_fields]; now rewrite Hp, Hc, Hfs|].
    exists (e1 ++ e2). cbn [enc_fields]. rewrite Hp, He1, He2. split; [reflexivity|]. now rewrite app_assoc.
Qed.

(* ================= part p4 ================= *)

Lemma half0 p : p / 2 = 0 -> p = 0 \/ p = 1.
Proof. intros H. apply N.div_small_iff in H; lia. Qed.
Lemma half1 p : p / 2 = 1 -> p = 2 \/ p = 3.
Proof.
  intros H. pose proof (N.div_mod p 2 ltac:(lia)) as Hd. pose proof (N.mod_lt p 2 ltac:(lia)) as Hm.
  rewrite H in Hd. lia.
Qed.

Lemma dec_bytesn_spec n bs v r :
  dec_bytesn n bs = Some (v, r) -> exists b, v = VBytes b /\ length b = n /\ bs = b ++ r.
Proof.
  unfold dec_bytesn. intros H. inv_bind2 H b r'. injection H as <- <-.
  apply read_bytes_spec in E as [-> Hl]. now exists b.
Qed.

Lemma dec_g1_spec O tr bs v r :
  dec_g1 O tr bs = Some (v, r) -> exists b, v = VBytes b /\ length b = 48%nat /\ g1_ok O tr b = true /\ bs = b ++ r.
Proof.
  unfold dec_g1. intros H. inv_bind2 H b r'. inv_bind H. injection H as <- <-.
  apply read_bytes_spec in E as [-> Hl]. now exists b.
Qed.
Lemma dec_g2_spec O tr bs v r :
  dec_g2 O tr bs = Some (v, r) -> exists b, v = VBytes b /\ length b = 96%nat /\ g2_ok O tr b = true /\ bs = b ++ r.
Proof.
  unfold dec_g2. intros H. inv_bind2 H b r'. inv_bind H. injection H as <- <-.
  apply read_bytes_spec in E as [-> Hl]. now exists b.
Qed.
Lemma dec_sk_spec bs v r :
  dec_sk bs = Some (v, r) -> exists b, v = VBytes b /\ length b = 32%nat /\ sk_ok b = true /\ bs = b ++ r.
Proof.
  unfold dec_sk. intros H. inv_bind2 H b r'. inv_bind H. injection H as <- <-.
  apply read_bytes_spec in E as [-> Hl]. now exists b.
Qed.

Lemma dec_bytes_spec bs v r :
  dec_bytes bs = Some (v, r) -> exists b, v = VBytes b /\ nlen b <= u32_max /\ bs = n2be 4 (nlen b) ++ b ++ r.
Proof.
  unfold dec_bytes. intros H. inv_bind2 H b r'. injection H as <- <-.
  apply dec_lenpref_spec in E as [Hn ->]. now exists b.
Qed.

Lemma dec_u1_spec bs p r : dec_u_n 1 bs = Some (p, r) -> p < 256 /\ bs = n2b p :: r.
Proof.
  intros H. apply dec_u_n_spec in H as [Hp ->]. change (pow256 1) with 256 in Hp. split; [exact Hp|].
  now rewrite n2be_1.
Qed.

Lemma nat_eqb_refl' (a b : nat) : a = b -> (a =? b)%nat = true.
Proof. intros ->. apply Nat.eqb_refl. Qed.

(* ---------- ProofOfSpace ---------- *)
Lemma dec_pos_sound O tr : snd_spec (dec_pos O tr) enc_pos (wf_pos O tr).
Proof.
  intros bs v r H. unfold dec_pos in H.
  inv_as H challenge r1 Ech. apply dec_bytesn_spec in Ech as (ch & -> & Hch & ->).
  inv_as H pool_pk r2 Epk.
  inv_as H pfx r3 Epfx. apply dec_u1_spec in Epfx as (Hp & ->).
  inv_as H contract r4 Econ.
  inv_as H plot_pk r5 Eppk. apply dec_g1_spec in Eppk as (ppk & -> & Hppk & Hgpk & ->).
  assert (Hpool : (pool_pk = VNone /\ r1 = x00 :: n2b pfx :: r3) \/
                  (exists b, pool_pk = VSome (VBytes b) /\ length b = 48%nat /\ g1_ok O tr b = true /\ r1 = x01 :: b ++ n2b pfx :: r3)).
  { apply dec_opt_spec in Epk as [[-> ->]|(x & r0 & -> & -> & Hx)]; [left; auto|].
    apply dec_g1_spec in Hx as (b & -> & Hb & Hg & ->). right. now exists b. }
  assert (Hcon : (N.land pfx 1 =? 1) = false /\ contract = VNone /\ r3 = ppk ++ r5 \/
                 (N.land pfx 1 =? 1) = true /\ exists c, contract = VSome (VBytes c) /\ length c = 32%nat /\ r3 = c ++ ppk ++ r5).
  { destruct (N.land pfx 1 =? 1).
    - inv_as Econ c r' Ec. injection Econ as <- <-. apply dec_bytesn_spec in Ec as (cb & -> & Hc & ->). right. split; [reflexivity|]. now exists cb.
    - injection Econ as <- <-. left. auto. }
  clear Econ Epk.
  destruct (pfx / 2 =? 0) eqn:Ev0.
  - (* version 0 *)
    apply N.eqb_eq in Ev0. apply half0 in Ev0.
    inv_as H size r6 Esz. apply dec_u_spec in Esz as (sz & -> & Hsz & ->).
    inv_as H prf r7 Epf. apply dec_bytes_spec in Epf as (pf & -> & Hpf & ->).
    injection H as <- <-.
    destruct Hpool as [[-> ->]|(pk & -> & Hpk & Hgp & ->)];
    destruct Hcon as [(Hl & -> & ->)|(Hl & c & -> & Hc & ->)];
    destruct Ev0 as [-> | ->]; try discriminate Hl;
    (split;
     [ unfold wf_pos; cbn [wf_bytes_len wf_optval wf_u pos_shape_ok is_some];
       rewrite ?Hgpk, ?Hgp, ?Hsz, ?(nat_eqb_refl' _ _ Hch), ?(nat_eqb_refl' _ _ Hppk), ?(nat_eqb_refl' _ _ Hpk), ?(nat_eqb_refl' _ _ Hc);
       cbn; destruct (N.leb_spec (nlen pf) u32_max); [reflexivity|lia]
     | eexists; split;
       [ unfold enc_pos; cbn [opt_app enc_opt_bytes]; cbn [Z.eqb]; rewrite enc_lenpref_some by exact Hpf; reflexivity
       | cbn [app]; rewrite <- ?app_assoc; cbn [app]; rewrite <- ?app_assoc; reflexivity ] ]).
  - destruct (pfx / 2 =? 1) eqn:Ev1; [|discriminate H].
    apply N.eqb_eq in Ev1. apply half1 in Ev1.
    inv_as H plot_index r6 Epi. apply dec_u_spec in Epi as (pi & -> & Hpi & ->).
    inv_as H meta_group r7 Emg. apply dec_u_spec in Emg as (mg & -> & Hmg & ->).
    inv_as H strength r8 Est. apply dec_u_spec in Est as (st & -> & Hst & ->).
    inv_as H prf r9 Epf. apply dec_bytes_spec in Epf as (pf & -> & Hpf & ->).
    destruct Hpool as [[-> ->]|(pk & -> & Hpk & Hgp & ->)];
    destruct Hcon as [(Hl & -> & ->)|(Hl & c & -> & Hc & ->)];
    destruct Ev1 as [-> | ->]; try discriminate Hl; cbn [is_some Bool.eqb] in H; try discriminate H;
    injection H as <- <-;
    (split;
     [ unfold wf_pos; cbn [wf_bytes_len wf_optval wf_u pos_shape_ok is_some];
       rewrite ?Hgpk, ?Hgp, ?Hpi, ?Hmg, ?Hst, ?(nat_eqb_refl' _ _ Hch), ?(nat_eqb_refl' _ _ Hppk), ?(nat_eqb_refl' _ _ Hpk), ?(nat_eqb_refl' _ _ Hc);
       cbn; destruct (N.leb_spec (nlen pf) u32_max); [reflexivity|lia]
     | eexists; split;
       [ unfold enc_pos; cbn [opt_app enc_opt_bytes]; cbn [Z.eqb]; rewrite enc_lenpref_some by exact Hpf; reflexivity
       | cbn [app]; rewrite <- ?app_assoc; cbn [app]; rewrite <- ?app_assoc; reflexivity ] ]).
Qed.

(* ================= part p5 ================= *)

Lemma ints_of_bytes_back b : bytes_of_ints (ints_of_bytes b) = Some b.
Proof.
  induction b as [|x b IH]; [reflexivity|]. cbn [ints_of_bytes map bytes_of_ints].
  change (map (fun x0 => VInt (Z.of_N (b2n x0))) b) with (ints_of_bytes b). rewrite IH.
  assert (H : in_range_u 1 (Z.of_N (b2n x)) = true).
  { unfold in_range_u. change (pow256 1) with 256. pose proof (b2n_lt x). lia. }
  rewrite H. rewrite N2Z.id, n2b_b2n. reflexivity.
Qed.

Lemma ints_of_bytes_wf b : forallb (wf_u 1) (ints_of_bytes b) = true.
Proof.
  induction b as [|x b IH]; [reflexivity|]. cbn [ints_of_bytes map forallb].
  change (map (fun x0 => VInt (Z.of_N (b2n x0))) b) with (ints_of_bytes b). rewrite IH.
  cbn [wf_u]. unfold in_range_u. change (pow256 1) with 256. pose proof (b2n_lt x). lia.
Qed.

Lemma ints_of_bytes_length b : length (ints_of_bytes b) = length b.
Proof. apply map_length. Qed.

Lemma dec_u32s_sound n bs l r :
  dec_u32s n bs = Some (l, r) ->
  length l = n /\ forallb (wf_u 4) l = true /\ exists e, enc_u32s l = Some e /\ bs = e ++ r.
Proof.
  revert bs l r; induction n as [|n IH]; intros bs l r; cbn [dec_u32s].
  - intros [= <- <-]. split; [reflexivity|]. split; [reflexivity|]. exists []. auto.
  - intros H. inv_as H v r1 Ev. inv_as H l' r2 El. injection H as <- <-.
    apply dec_u_spec in Ev as (z & -> & Hz & ->). apply IH in El as (Hl & Hf & e & He & ->).
    split; [cbn; now rewrite Hl|]. split; [cbn [forallb wf_u]; now rewrite Hz, Hf|].
    exists (enc_u 4 z ++ e). cbn [enc_u32s]. rewrite Hz, He. split; [reflexivity|]. now rewrite app_assoc.
Qed.

Lemma dig_lenpref_small b : nlen b <= u32_max -> dig_lenpref b = n2be 4 (nlen b) ++ b.
Proof. intros H. unfold dig_lenpref. rewrite N.mod_small; [reflexivity|]. unfold u32_max in H. change (2 ^ 32) with 4294967296. lia. Qed.

Local Opaque n2be.

Section Oracle.
  Variable O : oracles.
  (* the CLVM length function only looks at the bytes it counts *)
  Hypothesis prog_len_stable : forall tr b n r,
    prog_len O tr b = Some n -> n <= nlen b -> prog_len O tr (firstn (N.to_nat n) b ++ r) = Some n.

  Lemma dec_prog_spec tr bs v r :
    dec_prog O tr bs = Some (v, r) ->
    exists b, v = VBytes b /\ bs = b ++ r /\ prog_len O tr b = Some (nlen b).
  Proof.
    unfold dec_prog. intros H. destruct (prog_len O tr bs) as [n|] eqn:En; [|discriminate].
    destruct (N.leb_spec n (nlen bs)) as [Hle|]; [|discriminate]. injection H as <- <-.
    exists (firstn (N.to_nat n) bs). split; [reflexivity|]. split; [symmetry; apply firstn_skipn|].
    assert (Hl : nlen (firstn (N.to_nat n) bs) = n).
    { unfold nlen in *. rewrite firstn_length_le by lia. lia. }
    rewrite Hl. pose proof (prog_len_stable tr bs n [] En Hle) as Hs. now rewrite app_nil_r in Hs.
  Qed.

  Lemma dec_gentail_sound tr : snd_spec (dec_gentail O tr) enc_gentail (wf_gentail O tr).
  Proof.
    intros bs v r H. unfold dec_gentail in H.
    inv_as H pfx r1 Epfx. apply dec_u1_spec in Epfx as (Hp & ->).
    destruct (pfx / 2 =? 0) eqn:Ev0.
    - apply N.eqb_eq in Ev0. apply half0 in Ev0.
      inv_as H gn r2 Egen. inv_as H n r3 En. apply dec_u_n_spec in En as (Hn & ->).
      destruct (N.leb_spec (n * 4) (nlen r3)); [|discriminate].
      inv_as H refs r4 Er. injection H as <- <-.
      apply dec_u32s_sound in Er as (Hl & Hf & e & He & ->).
      assert (Hlen : N.of_nat (length refs) = n) by lia.
      assert (Hok : len_ok refs = true).
      { unfold len_ok, u32_max. change (pow256 4) with 4294967296 in Hn. lia. }
      destruct Ev0 as [-> | ->];
        [replace (N.land 0 1 =? 1) with false in Egen by reflexivity
        |replace (N.land 1 1 =? 1) with true in Egen by reflexivity].
      + injection Egen as <- ->. split.
        * unfold wf_gentail. cbn [wf_optval wf_u gentail_shape_ok is_some]. rewrite Hok, Hf. reflexivity.
        * eexists. split.
          -- unfold enc_gentail. cbn [Z.eqb enc_opt_bytes]. rewrite He. unfold len_ok in Hok. rewrite Hok. reflexivity.
          -- rewrite Hlen. cbn [app]. reflexivity.
      + inv_as Egen p r' Ep. injection Egen as <- ->. apply dec_prog_spec in Ep as (b & -> & -> & Hb). split.
        * unfold wf_gentail. cbn [wf_optval wf_u gentail_shape_ok is_some]. rewrite Hb, N.eqb_refl, Hok, Hf. reflexivity.
        * eexists. split.
          -- unfold enc_gentail. cbn [Z.eqb enc_opt_bytes]. rewrite He. unfold len_ok in Hok. rewrite Hok. reflexivity.
          -- rewrite Hlen. cbn [app]. rewrite <- !app_assoc. reflexivity.
    - destruct (pfx / 2 =? 1) eqn:Ev1; [|discriminate H].
      apply N.eqb_eq in Ev1. apply half1 in Ev1.
      inv_as H buf r2 Ebuf. injection H as <- <-.
      destruct Ev1 as [-> | ->];
        [replace (N.land 2 1 =? 1) with false in Ebuf by reflexivity
        |replace (N.land 3 1 =? 1) with true in Ebuf by reflexivity].
      + injection Ebuf as <- <-. split; [reflexivity|]. exists [x02]. split; reflexivity.
      + inv_as Ebuf b r' Eb. injection Ebuf as <- <-. apply dec_lenpref_spec in Eb as (Hb & ->). split.
        * unfold wf_gentail. cbn [wf_optval wf_u gentail_shape_ok is_some forallb len_ok length]. rewrite ints_of_bytes_wf.
          rewrite ints_of_bytes_length. cbn. fold (nlen b). destruct (N.leb_spec (nlen b) u32_max); [reflexivity|lia].
        * eexists. split.
          -- unfold enc_gentail. cbn [Z.eqb]. rewrite ints_of_bytes_back. reflexivity.
          -- rewrite dig_lenpref_small by exact Hb. cbn [app]. rewrite <- !app_assoc. reflexivity.
  Qed.
End Oracle.

(* ================= part p6 ================= *)
Local Opaque n2be.


Section Oracle.
  Variable O : oracles.
  Hypothesis prog_len_stable : forall tr b n r,
    prog_len O tr b = Some n -> n <= nlen b -> prog_len O tr (firstn (N.to_nat n) b ++ r) = Some n.

  Lemma decode_shape tr t : shape_spec (decode O tr t) t.
  Proof.
    intros bs v r H vs l Hu.
    destruct t; try (cbn in Hu; injection Hu as <-; reflexivity).
    - (* Opt2 *)
      cbn [decode] in H. inv_as H p r1 Ep.
      destruct p as [|[[q|q|]|[q|q|]|]]; try discriminate H.
      + injection H as <- <-. cbn in Hu. injection Hu as <-. reflexivity.
      + inv_as H x r2 Ex. inv_as H y r3 Ey. injection H as <- <-. cbn in Hu. injection Hu as <-. reflexivity.
      + inv_as H y r2 Ey. injection H as <- <-. cbn in Hu. injection Hu as <-. reflexivity.
      + inv_as H x r2 Ex. injection H as <- <-. cbn in Hu. injection Hu as <-. reflexivity.
    - (* GenTail *)
      cbn [decode] in H. unfold dec_gentail in H. inv_as H p r1 Ep.
      destruct (p / 2 =? 0).
      + inv_as H g r2 Eg. inv_as H n r3 En. destruct (n * 4 <=? nlen r3); [|discriminate].
        inv_as H refs r4 Er. injection H as <- <-. cbn in Hu. injection Hu as <-. reflexivity.
      + destruct (p / 2 =? 1); [|discriminate]. inv_as H b r2 Eb. injection H as <- <-.
        cbn in Hu. injection Hu as <-. reflexivity.
  Qed.

  Theorem decode_sound tr t : snd_spec (decode O tr t) (encode t) (wf O tr t).
  Proof.
    induction t using ty_ind'; intros bs v r Hd; cbn [decode] in Hd.
    - (* U *) apply dec_u_spec in Hd as (z & -> & Hz & ->). cbn [wf wf_u encode]. rewrite Hz. split; [reflexivity|]. eauto.
    - (* I *) apply dec_i_spec in Hd as (z & -> & Hz & ->). cbn [wf encode]. rewrite Hz. split; [reflexivity|]. eauto.
    - (* Bool *) apply dec_bool_spec in Hd as (b & -> & ->). cbn [wf encode]. split; [reflexivity|]. eauto.
    - (* BytesN *) apply dec_bytesn_spec in Hd as (b & -> & Hl & ->). cbn [wf wf_bytes_len encode].
      rewrite (nat_eqb_refl' _ _ Hl). split; [reflexivity|]. eauto.
    - (* Bytes *) apply dec_bytes_spec in Hd as (b & -> & Hl & ->). cbn [wf encode]. rewrite enc_lenpref_some by exact Hl.
      split; [lia|]. eexists. split; [reflexivity|]. now rewrite app_assoc.
    - (* Str *) unfold dec_str in Hd. inv_as Hd b r' Eb. inv_bind Hd. injection Hd as <- <-.
      apply dec_lenpref_spec in Eb as (Hl & ->). cbn [wf encode]. rewrite enc_lenpref_some by exact Hl. rewrite E.
      split; [lia|]. eexists. split; [reflexivity|]. now rewrite app_assoc.
    - (* Opt *) apply dec_opt_spec in Hd as [[-> ->]|(x & r0 & -> & -> & Hx)].
      + cbn [wf wf_optval encode]. split; [reflexivity|]. exists [x00]. auto.
      + apply IHt in Hx as (Hw & e & He & ->). cbn [wf wf_optval encode]. rewrite He. split; [exact Hw|]. eauto.
    - (* Vec *) inv_as Hd n r1 En. apply dec_u_n_spec in En as (Hn & ->). inv_bind Hd. inv_as Hd l r2 El. injection Hd as <- <-.
      apply (dec_rep_sound' _ (encode t) (wf O tr t) _ IHt) in El as (Hl & Hf & e & He & ->).
      assert (Hlen : N.of_nat (length l) = n) by lia.
      assert (Hok : len_ok l = true) by (unfold len_ok, u32_max; change (pow256 4) with 4294967296 in Hn; lia).
      cbn [wf encode]. rewrite Hok, Hf, He, Hlen. split; [reflexivity|]. eexists. split; [reflexivity|]. now rewrite app_assoc.
    - (* Tup *) inv_as Hd l r1 El. injection Hd as <- <-.
      apply (dec_seq_sound _ encode (wf O tr) ts H) in El as (Hc & e & He & ->).
      cbn [wf encode]. rewrite He. split; [exact Hc|]. eauto.
    - (* Arr *) inv_as Hd l r1 El. injection Hd as <- <-.
      apply (dec_rep_sound' _ (encode t) (wf O tr t) _ IHt) in El as (Hl & Hf & e & He & ->).
      cbn [wf encode]. rewrite (nat_eqb_refl' _ _ Hl), Hf, He. split; [reflexivity|]. eauto.
    - (* Enum *) inv_as Hd n r1 En. apply dec_u1_spec in En as (Hn & ->). inv_bind Hd. injection Hd as <- <-.
      cbn [wf encode]. rewrite N2Z.id, E. replace (0 <=? Z.of_N n)%Z with true by lia. replace (Z.of_N n <? 256)%Z with true by lia.
      split; [reflexivity|]. eexists. split; [reflexivity|]. reflexivity.
    - (* Struct *) inv_as Hd l r1 El. injection Hd as <- <-.
      assert (Hall : Forall (fun f => snd_spec (decode O tr (snd f)) (encode (snd f)) (wf O tr (snd f)) /\
                                      shape_spec (decode O tr (snd f)) (snd f)) fs).
      { eapply Forall_impl; [|exact H]. intros f Hf. split; [exact Hf|apply decode_shape]. }
      apply (dec_fields_sound _ encode (wf O tr) fs Hall) in El as (Hc & e & He & ->).
      cbn [wf encode]. rewrite He. split; [exact Hc|]. eauto.
    - (* G1 *) apply dec_g1_spec in Hd as (b & -> & Hl & Hg & ->). cbn [wf encode]. rewrite (nat_eqb_refl' _ _ Hl), Hg. split; [reflexivity|]. eauto.
    - (* G2 *) apply dec_g2_spec in Hd as (b & -> & Hl & Hg & ->). cbn [wf encode]. rewrite (nat_eqb_refl' _ _ Hl), Hg. split; [reflexivity|]. eauto.
    - (* Prog *) apply (dec_prog_spec O prog_len_stable) in Hd as (b & -> & -> & Hb). cbn [wf encode]. rewrite Hb, N.eqb_refl. split; [reflexivity|]. eauto.
    - (* Sk *) apply dec_sk_spec in Hd as (b & -> & Hl & Hg & ->). cbn [wf encode]. rewrite (nat_eqb_refl' _ _ Hl), Hg. split; [reflexivity|]. eauto.
    - (* Opt2 *) inv_as Hd p r1 Ep. apply dec_u1_spec in Ep as (Hp & ->).
      destruct p as [|[[q|q|]|[q|q|]|]]; try discriminate Hd.
      + injection Hd as <- <-. cbn [wf wf_optval encode enc_optval]. split; [reflexivity|]. eexists. split; reflexivity.
      + inv_as Hd x r2 Ex. inv_as Hd y r3 Ey. injection Hd as <- <-.
        apply IHt1 in Ex as (Hwx & ex & Hex & ->). apply IHt2 in Ey as (Hwy & ey & Hey & ->).
        cbn [wf wf_optval encode enc_optval]. rewrite Hwx, Hwy, Hex, Hey. split; [reflexivity|].
        eexists. split; [reflexivity|]. cbn [opt2_prefix is_some app]. now rewrite <- app_assoc.
      + inv_as Hd y r2 Ey. injection Hd as <- <-. apply IHt2 in Ey as (Hwy & ey & Hey & ->).
        cbn [wf wf_optval encode enc_optval]. rewrite Hwy, Hey. split; [reflexivity|].
        eexists. split; [reflexivity|]. reflexivity.
      + inv_as Hd x r2 Ex. injection Hd as <- <-. apply IHt1 in Ex as (Hwx & ex & Hex & ->).
        cbn [wf wf_optval encode enc_optval]. rewrite Hwx, Hex. split; [reflexivity|].
        eexists. split; [reflexivity|]. cbn [opt2_prefix is_some app]. now rewrite app_nil_r.
    - (* PoS *) apply dec_pos_sound in Hd. exact Hd.
    - (* GenTail *) apply (dec_gentail_sound O prog_len_stable) in Hd. exact Hd.
  Qed.
End Oracle.

(* ================= part p7 ================= *)
Local Opaque n2be.

(* ---------- "app" lemmas: decoding a leaf encoding followed by anything ---------- *)
Lemma dec_bytesn_app n b r : length b = n -> dec_bytesn n (b ++ r) = Some (VBytes b, r).
Proof. intros H. unfold dec_bytesn. now rewrite read_bytes_app. Qed.

Lemma dec_g1_app O tr b r : length b = 48%nat -> g1_ok O tr b = true -> dec_g1 O tr (b ++ r) = Some (VBytes b, r).
Proof. intros H Hg. unfold dec_g1. rewrite read_bytes_app by exact H. now rewrite Hg. Qed.
Lemma dec_g2_app O tr b r : length b = 96%nat -> g2_ok O tr b = true -> dec_g2 O tr (b ++ r) = Some (VBytes b, r).
Proof. intros H Hg. unfold dec_g2. rewrite read_bytes_app by exact H. now rewrite Hg. Qed.
Lemma dec_sk_app b r : length b = 32%nat -> sk_ok b = true -> dec_sk (b ++ r) = Some (VBytes b, r).
Proof. intros H Hg. unfold dec_sk. rewrite read_bytes_app by exact H. now rewrite Hg. Qed.

Lemma dec_bytes_app b r : nlen b <= u32_max -> dec_bytes (n2be 4 (nlen b) ++ b ++ r) = Some (VBytes b, r).
Proof. intros H. unfold dec_bytes. now rewrite dec_lenpref_app. Qed.

Lemma dec_u1_app p r : p < 256 -> dec_u_n 1 (n2b p :: r) = Some (p, r).
Proof.
  intros H. change (n2b p :: r) with ([n2b p] ++ r). rewrite <- (n2be_1 p H).
  apply dec_u_n_app. exact H.
Qed.

Lemma dec_opt_none (dec : bytes -> dres) r : dec_opt dec (x00 :: r) = Some (VNone, r).
Proof. reflexivity. Qed.
Lemma dec_opt_some (dec : bytes -> dres) bs x r : dec bs = Some (x, r) -> dec_opt dec (x01 :: bs) = Some (VSome x, r).
Proof. intros H. unfold dec_opt. cbn [read_bytes]. cbn. now rewrite H. Qed.

Lemma pack_unpack t l v l' : pack t l = Some (v, l') -> exists vs, unpack t v = Some vs /\ l = vs ++ l'.
Proof.
  destruct t; cbn [pack unpack]; try (destruct l as [|a r]; [discriminate|]; intros [= <- <-]; exists [a]; auto).
  - destruct l as [|a [|b r]]; try discriminate. intros [= <- <-]. exists [a; b]. auto.
  - destruct l as [|a [|b [|c [|d r]]]]; try discriminate. intros [= <- <-]. exists [a; b; c; d]. auto.
Qed.

(* ---------- generic round-trip helpers ---------- *)
Definition rt_spec (dec : bytes -> dres) (enc : value -> option bytes) (chk : value -> bool) : Prop :=
  forall v, chk v = true -> exists e, enc v = Some e /\ forall r, dec (e ++ r) = Some (v, r).

Lemma enc_list_rt dec1 enc1 chk1 :
  rt_spec dec1 enc1 chk1 ->
  forall l, forallb chk1 l = true ->
    exists e, enc_list enc1 l = Some e /\ forall r, dec_rep dec1 (length l) (e ++ r) = Some (l, r).
Proof.
  intros Hs. induction l as [|x l IH]; cbn [forallb]; intros H.
  - exists []. split; reflexivity.
  - apply andb_prop in H as [Hx Hl]. destruct (Hs x Hx) as (e1 & He1 & Hd1). destruct (IH Hl) as (e2 & He2 & Hd2).
    exists (e1 ++ e2). cbn [enc_list length dec_rep]. rewrite He1, He2. split; [reflexivity|].
    intros r. rewrite <- app_assoc, Hd1, Hd2. reflexivity.
Qed.

Lemma enc_seq_rt (dec : ty -> bytes -> dres) enc chk ts :
  Forall (fun t => rt_spec (dec t) (enc t) (chk t)) ts ->
  forall l, chk_seq chk ts l = true ->
    exists e, enc_seq enc ts l = Some e /\ forall r, dec_seq dec ts (e ++ r) = Some (l, r).
Proof.
  induction 1 as [|t ts Ht _ IH]; intros [|x l]; cbn [chk_seq]; try discriminate; intros H.
  - exists []. split; reflexivity.
  - apply andb_prop in H as [Hx Hl]. destruct (Ht x Hx) as (e1 & He1 & Hd1). destruct (IH l Hl) as (e2 & He2 & Hd2).
    exists (e1 ++ e2). cbn [enc_seq dec_seq]. rewrite He1, He2. split; [reflexivity|].
    intros r. rewrite <- app_assoc, Hd1, Hd2. reflexivity.
Qed.

Lemma enc_fields_rt (dec : ty -> bytes -> dres) enc chk fs :
  Forall (fun f => rt_spec (dec (snd f)) (enc (snd f)) (chk (snd f))) fs ->
  forall l, chk_fields chk fs l = true ->
    exists e, enc_fields enc fs l = Some e /\ forall r, dec_fields dec fs (e ++ r) = Some (l, r).
Proof.
  induction 1 as [|f fs Hf _ IH]; intros l; cbn [chk_fields].
  - destruct l; [|discriminate]. intros _. exists []. split; reflexivity.
  - destruct (pack (snd f) l) as [[v l']|] eqn:Ep; [|discriminate]. intros H.
    apply andb_prop in H as [Hx Hl]. destruct (Hf v Hx) as (e1 & He1 & Hd1). destruct (IH l' Hl) as (e2 & He2 & Hd2).
    apply pack_unpack in Ep as Hu. destruct Hu as (vs & Hu & ->).
    exists (e1 ++ e2). cbn [enc_fields dec_fields]. rewrite Ep, He1, He2. split; [reflexivity|].
    intros r. rewrite <- app_assoc, Hd1, Hu, Hd2. reflexivity.
Qed.

(* ================= part p8 ================= *)
Local Opaque n2be.

Lemma nlen_cons (x : byte) (b : bytes) : nlen (x :: b) = 1 + nlen b.
Proof. unfold nlen. cbn [length]. lia. Qed.
Lemma nlen_n2be n x : nlen (n2be n x) = N.of_nat n.
Proof. unfold nlen. now rewrite n2be_length. Qed.
Lemma nlen_nil : nlen (@nil byte) = 0.
Proof. reflexivity. Qed.

Definition min_spec (enc : value -> option bytes) (chk : value -> bool) (m : N) : Prop :=
  forall v e, chk v = true -> enc v = Some e -> m <= nlen e.

Lemma enc_list_min enc1 chk1 m :
  min_spec enc1 chk1 m ->
  forall l e, forallb chk1 l = true -> enc_list enc1 l = Some e -> N.of_nat (length l) * m <= nlen e.
Proof.
  intros Hs. induction l as [|x l IH]; intros e; cbn [forallb enc_list length].
  - intros _ [= <-]. cbn. lia.
  - intros H He. apply andb_prop in H as [Hx Hl].
    destruct (enc1 x) as [e1|] eqn:E1; [|discriminate]. destruct (enc_list enc1 l) as [e2|] eqn:E2; [|discriminate].
    injection He as <-. rewrite nlen_app. pose proof (Hs x e1 Hx E1). pose proof (IH e2 Hl eq_refl). lia.
Qed.

Lemma enc_seq_min enc chk ts :
  Forall (fun t => min_spec (enc t) (chk t) (min_size t)) ts ->
  forall l e, chk_seq chk ts l = true -> enc_seq enc ts l = Some e ->
    fold_right (fun t acc => min_size t + acc) 0 ts <= nlen e.
Proof.
  induction 1 as [|t ts Ht _ IH]; intros [|x l] e; cbn [chk_seq enc_seq fold_right]; try discriminate.
  - intros _ [= <-]. cbn. lia.
  - intros H He. apply andb_prop in H as [Hx Hl].
    destruct (enc t x) as [e1|] eqn:E1; [|discriminate]. destruct (enc_seq enc ts l) as [e2|] eqn:E2; [|discriminate].
    injection He as <-. rewrite nlen_app. pose proof (Ht x e1 Hx E1). pose proof (IH l e2 Hl E2). lia.
Qed.

Lemma enc_fields_min enc chk fs :
  Forall (fun f => min_spec (enc (snd f)) (chk (snd f)) (min_size (snd f))) fs ->
  forall l e, chk_fields chk fs l = true -> enc_fields enc fs l = Some e ->
    fold_right (fun f acc => min_size (snd f) + acc) 0 fs <= nlen e.
Proof.
  induction 1 as [|f fs Hf _ IH]; intros l e; cbn [chk_fields enc_fields fold_right].
  - destruct l; [|discriminate]. intros _ [= <-]. cbn. lia.
  - destruct (pack (snd f) l) as [[v l']|]; [|discriminate]. intros H He.
    apply andb_prop in H as [Hx Hl].
    destruct (enc (snd f) v) as [e1|] eqn:E1; [|discriminate]. destruct (enc_fields enc fs l') as [e2|] eqn:E2; [|discriminate].
    injection He as <-. rewrite nlen_app. pose proof (Hf v e1 Hx E1). pose proof (IH l' e2 Hl E2). lia.
Qed.

Ltac bool_hyps :=
  repeat match goal with
  | H : (_ && _)%bool = true |- _ => apply andb_prop in H as [? ?]
  end.

Lemma wf_pos_inv O tr v :
  wf_pos O tr v = true ->
  exists ch pk c ppk ver pi mg st sz pf,
    v = VList [VBytes ch; pk; c; VBytes ppk; VInt ver; VInt pi; VInt mg; VInt st; VInt sz; VBytes pf] /\
    length ch = 32%nat /\
    (pk = VNone \/ exists b, pk = VSome (VBytes b) /\ length b = 48%nat /\ g1_ok O tr b = true) /\
    (c = VNone \/ exists b, c = VSome (VBytes b) /\ length b = 32%nat) /\
    length ppk = 48%nat /\ g1_ok O tr ppk = true /\
    in_range_u 1 ver = true /\ in_range_u 2 pi = true /\ in_range_u 1 mg = true /\ in_range_u 1 st = true /\
    in_range_u 1 sz = true /\ nlen pf <= u32_max /\
    pos_shape_ok v = true.
Proof.
  intros Hw. pose proof Hw as Hw0. unfold wf_pos in Hw.
  destruct v as [z|b|b|  |x|l]; try discriminate.
  destruct l as [|v0 l]; [discriminate|]. destruct l as [|v1 l]; [discriminate|].
  destruct l as [|v2 l]; [discriminate|]. destruct l as [|v3 l]; [discriminate|].
  destruct v3 as [z|b|ppk|  |x|l']; try discriminate.
  destruct l as [|v4 l]; [discriminate|]. destruct l as [|v5 l]; [discriminate|].
  destruct l as [|v6 l]; [discriminate|]. destruct l as [|v7 l]; [discriminate|].
  destruct l as [|v8 l]; [discriminate|]. destruct l as [|v9 l]; [discriminate|].
  destruct v9 as [z|b|pf|  |x|l']; try discriminate.
  destruct l; [|discriminate].
  bool_hyps.
  destruct v0 as [z|b|ch|  |x|l']; try discriminate.
  destruct v4 as [ver|b|b|  |x|l']; try discriminate.
  destruct v5 as [pi|b|b|  |x|l']; try discriminate.
  destruct v6 as [mg|b|b|  |x|l']; try discriminate.
  destruct v7 as [st|b|b|  |x|l']; try discriminate.
  destruct v8 as [sz|b|b|  |x|l']; try discriminate.
  exists ch, v1, v2, ppk, ver, pi, mg, st, sz, pf.
  cbn [wf_bytes_len wf_u] in *.
  repeat match goal with H : (_ =? _)%nat = true |- _ => apply Nat.eqb_eq in H end.
  repeat split; auto; try lia.
  - destruct v1 as [z|b|b|  |x|l']; try discriminate; [left; reflexivity|].
    destruct x; try discriminate. cbn [wf_optval] in *. bool_hyps. right. eexists. split; [reflexivity|].
    match goal with H : (_ =? _)%nat = true |- _ => apply Nat.eqb_eq in H end. auto.
  - destruct v2 as [z|b|b|  |x|l']; try discriminate; [left; reflexivity|].
    destruct x; try discriminate. cbn [wf_optval wf_bytes_len] in *. right. eexists. split; [reflexivity|].
    match goal with H : (_ =? _)%nat = true |- _ => apply Nat.eqb_eq in H end. auto.
Qed.

Lemma enc_pos_min O tr : min_spec enc_pos (wf_pos O tr) 87.
Proof.
  intros v e Hw He.
  apply wf_pos_inv in Hw as (ch & pk & c & ppk & ver & pi & mg & st & sz & pf & -> & Hch & Hpk & Hc & Hppk & _ & _ & _ & _ & _ & _ & Hpf & _).
  unfold enc_pos in He. rewrite (enc_lenpref_some pf Hpf) in He.
  assert (L : forall (a b : bytes), nlen (a ++ b) = nlen a + nlen b) by apply nlen_app.
  assert (Lch : nlen ch = 32) by (unfold nlen; lia). assert (Lppk : nlen ppk = 48) by (unfold nlen; lia).
  destruct Hpk as [-> | (b & -> & Hb & _)]; destruct Hc as [-> | (cb & -> & Hcb)];
  cbn [opt_app enc_opt_bytes] in He;
  (destruct (ver =? 0)%Z; [| destruct (ver =? 1)%Z; [|discriminate He]]);
  injection He as <-; unfold enc_u; rewrite ?L, ?nlen_cons, ?L, ?nlen_cons, ?nlen_n2be, ?nlen_nil, ?Lch, ?Lppk; lia.
Qed.

(* ================= part p9 ================= *)
Local Opaque n2be.

Lemma n2b_lit0 : x00 = n2b 0. Proof. reflexivity. Qed.
Lemma n2b_lit1 : x01 = n2b 1. Proof. reflexivity. Qed.
Lemma n2b_lit2 : x02 = n2b 2. Proof. reflexivity. Qed.
Lemma n2b_lit3 : x03 = n2b 3. Proof. reflexivity. Qed.

Lemma in_range_u1_cases ver : in_range_u 1 ver = true -> (ver = 0 \/ ver = 1 \/ (ver =? 0) = false /\ (ver =? 1) = false)%Z.
Proof. intros _. lia. Qed.

Lemma pos_rt O tr : rt_spec (dec_pos O tr) enc_pos (wf_pos O tr).
Proof.
  intros v Hw.
  apply wf_pos_inv in Hw as (ch & pk & c & ppk & ver & pi & mg & st & sz & pf & -> & Hch & Hpk & Hc & Hppk & Hgp & Hver & Hpi & Hmg & Hst & Hsz & Hpf & Hsh).
  unfold enc_pos. rewrite (enc_lenpref_some pf Hpf).
  cbn [pos_shape_ok] in Hsh.
  destruct (in_range_u1_cases ver Hver) as [-> | [-> | [E0 E1]]]; [| |rewrite E0, E1 in Hsh; discriminate].
  - (* v1 proofs (version 0) *)
    change (0 =? 0)%Z with true in Hsh. cbv beta iota in Hsh. bool_hyps. assert (pi = 0%Z) by lia. assert (mg = 0%Z) by lia. assert (st = 0%Z) by lia. subst pi mg st.
    destruct Hpk as [-> | (b & -> & Hb & Hgb)]; destruct Hc as [-> | (cb & -> & Hcb)];
    cbn [opt_app enc_opt_bytes Z.eqb];
    (eexists; split; [reflexivity|]; intros r; unfold dec_pos;
     rewrite <- ?app_assoc; cbn [app]; rewrite <- ?app_assoc;
     rewrite dec_bytesn_app by exact Hch; cbv beta iota;
     first [ rewrite dec_opt_none | rewrite (dec_opt_some _ _ _ _ (dec_g1_app O tr b _ Hb Hgb)) ]; cbv beta iota;
     first [ rewrite n2b_lit0, (dec_u1_app 0) by reflexivity; change (N.land 0 1 =? 1) with false; change (0 / 2 =? 0) with true
           | rewrite n2b_lit1, (dec_u1_app 1) by reflexivity; change (N.land 1 1 =? 1) with true; change (1 / 2 =? 0) with true;
             rewrite dec_bytesn_app by exact Hcb ]; cbv beta iota;
     rewrite dec_g1_app by assumption; cbv beta iota;
     rewrite dec_u_app by exact Hsz; cbv beta iota;
     rewrite dec_bytes_app by exact Hpf; reflexivity).
  - (* v2 proofs (version 1) *)
    change (1 =? 0)%Z with false in Hsh. change (1 =? 1)%Z with true in Hsh. cbv beta iota in Hsh.
    bool_hyps. assert (sz = 0%Z) by lia. subst sz.
    destruct Hpk as [-> | (b & -> & Hb & Hgb)]; destruct Hc as [-> | (cb & -> & Hcb)];
    cbn [is_some Bool.eqb negb] in *; try discriminate;
    cbn [opt_app enc_opt_bytes Z.eqb];
    (eexists; split; [reflexivity|]; intros r; unfold dec_pos;
     rewrite <- ?app_assoc; cbn [app]; rewrite <- ?app_assoc;
     rewrite dec_bytesn_app by exact Hch; cbv beta iota;
     first [ rewrite dec_opt_none | rewrite (dec_opt_some _ _ _ _ (dec_g1_app O tr b _ Hb Hgb)) ]; cbv beta iota;
     first [ rewrite n2b_lit2, (dec_u1_app 2) by reflexivity; change (N.land 2 1 =? 1) with false; change (2 / 2 =? 0) with false; change (2 / 2 =? 1) with true
           | rewrite n2b_lit3, (dec_u1_app 3) by reflexivity; change (N.land 3 1 =? 1) with true; change (3 / 2 =? 0) with false; change (3 / 2 =? 1) with true;
             rewrite dec_bytesn_app by exact Hcb ]; cbv beta iota;
     rewrite dec_g1_app by assumption; cbv beta iota;
     rewrite dec_u_app by exact Hpi; cbv beta iota;
     rewrite dec_u_app by exact Hmg; cbv beta iota;
     rewrite dec_u_app by exact Hst; cbv beta iota;
     rewrite dec_bytes_app by exact Hpf; cbv beta iota; cbn [is_some Bool.eqb]; reflexivity).
Qed.

(* ================= part p10 ================= *)
Local Opaque n2be.

Lemma wf_gentail_inv O tr v :
  wf_gentail O tr v = true ->
  exists gn refs buf ver,
    v = VList [gn; VList refs; buf; VInt ver] /\
    (gn = VNone \/ exists b, gn = VSome (VBytes b) /\ prog_len O tr b = Some (nlen b)) /\
    len_ok refs = true /\ forallb (wf_u 4) refs = true /\
    (buf = VNone \/ exists l, buf = VSome (VList l) /\ forallb (wf_u 1) l = true) /\
    in_range_u 1 ver = true /\ gentail_shape_ok v = true.
Proof.
  intros Hw. unfold wf_gentail in Hw.
  destruct v as [z|b|b|  |x|l]; try discriminate.
  destruct l as [|gn l]; [discriminate|]. destruct l as [|v1 l]; [discriminate|].
  destruct v1 as [z|b|b|  |x|refs]; try discriminate.
  destruct l as [|buf l]; [discriminate|]. destruct l as [|v3 l]; [discriminate|].
  destruct l; [|discriminate].
  bool_hyps. destruct v3 as [ver|b|b|  |x|l']; try discriminate.
  exists gn, refs, buf, ver. repeat split; auto.
  - destruct gn as [z|b|b|  |x|l']; try discriminate; [left; reflexivity|].
    destruct x; try discriminate. cbn [wf_optval] in *. right. eexists. split; [reflexivity|].
    destruct (prog_len O tr b) as [n|]; [|discriminate].
    match goal with H : (n =? nlen b) = true |- _ => apply N.eqb_eq in H; now rewrite H end.
  - destruct buf as [z|b|b|  |x|l']; try discriminate; [left; reflexivity|].
    destruct x; try discriminate. cbn [wf_optval] in *. right. eexists. split; [reflexivity|]. assumption.
Qed.

Lemma enc_u32s_rt refs :
  forallb (wf_u 4) refs = true ->
  exists e, enc_u32s refs = Some e /\ nlen e = 4 * N.of_nat (length refs) /\
            forall r, dec_u32s (length refs) (e ++ r) = Some (refs, r).
Proof.
  induction refs as [|x l IH]; cbn [forallb]; intros H.
  - exists []. repeat split; reflexivity.
  - apply andb_prop in H as [Hx Hl]. destruct x as [z| | | | |]; try discriminate. cbn [wf_u] in Hx.
    destruct (IH Hl) as (e & He & Hn & Hd).
    exists (enc_u 4 z ++ e). cbn [enc_u32s]. rewrite Hx, He. split; [reflexivity|]. split.
    + rewrite nlen_app, Hn. unfold enc_u. rewrite nlen_n2be. cbn [length]. lia.
    + intros r. cbn [length dec_u32s]. rewrite <- app_assoc, dec_u_app by exact Hx. now rewrite Hd.
Qed.

Lemma bytes_of_ints_rt l :
  forallb (wf_u 1) l = true -> exists b, bytes_of_ints l = Some b /\ ints_of_bytes b = l /\ length b = length l.
Proof.
  induction l as [|x l IH]; cbn [forallb]; intros H.
  - exists []. repeat split; reflexivity.
  - apply andb_prop in H as [Hx Hl]. destruct x as [z| | | | |]; try discriminate. cbn [wf_u] in Hx.
    destruct (IH Hl) as (b & Hb & Hi & Hlen).
    exists (n2b (Z.to_N z) :: b). cbn [bytes_of_ints]. rewrite Hx, Hb. split; [reflexivity|]. split.
    + cbn [ints_of_bytes map]. change (map (fun x0 => VInt (Z.of_N (b2n x0))) b) with (ints_of_bytes b). rewrite Hi.
      unfold in_range_u in Hx. change (pow256 1) with 256 in Hx. rewrite b2n_n2b by lia. rewrite Z2N.id by lia. reflexivity.
    + cbn [length]. now rewrite Hlen.
Qed.

Lemma len_ok_spec (l : list value) : len_ok l = true -> N.of_nat (length l) <= u32_max.
Proof. unfold len_ok. intros H. apply N.leb_le. exact H. Qed.
Lemma u32_max_pow : u32_max + 1 = pow256 4.
Proof. reflexivity. Qed.

Section Oracle.
  Variable O : oracles.
  Hypothesis prog_len_stable : forall tr b n r,
    prog_len O tr b = Some n -> n <= nlen b -> prog_len O tr (firstn (N.to_nat n) b ++ r) = Some n.

  Lemma dec_prog_app tr b r : prog_len O tr b = Some (nlen b) -> dec_prog O tr (b ++ r) = Some (VBytes b, r).
  Proof.
    intros H. unfold dec_prog.
    pose proof (prog_len_stable tr b (nlen b) r H (N.le_refl _)) as Hs.
    unfold nlen in Hs at 1. rewrite Nat2N.id, firstn_all in Hs. rewrite Hs.
    rewrite nlen_app. destruct (N.leb_spec (nlen b) (nlen b + nlen r)); [|lia].
    unfold nlen. rewrite Nat2N.id. rewrite firstn_app, Nat.sub_diag, firstn_all, firstn_O, app_nil_r.
    rewrite skipn_app, Nat.sub_diag, skipn_all, skipn_O. reflexivity.
  Qed.

  Lemma dec_gentail_0 tr r :
    dec_gentail O tr (x00 :: r) =
    ('(n, r1) <- dec_u_n 4 r ;;
     if n * 4 <=? nlen r1 then '(refs, r2) <- dec_u32s (N.to_nat n) r1 ;; Some (VList [VNone; VList refs; VNone; VInt 0], r2) else None).
  Proof. reflexivity. Qed.
  Lemma dec_gentail_1 tr r :
    dec_gentail O tr (x01 :: r) =
    ('(p, r0) <- dec_prog O tr r ;; '(n, r1) <- dec_u_n 4 r0 ;;
     if n * 4 <=? nlen r1 then '(refs, r2) <- dec_u32s (N.to_nat n) r1 ;; Some (VList [VSome p; VList refs; VNone; VInt 0], r2) else None).
  Proof. unfold dec_gentail. cbn. destruct (dec_prog O tr r) as [[p r0]|]; reflexivity. Qed.
  Lemma dec_gentail_2 tr r : dec_gentail O tr (x02 :: r) = Some (VList [VNone; VList []; VNone; VInt 1], r).
  Proof. reflexivity. Qed.
  Lemma dec_gentail_3 tr r :
    dec_gentail O tr (x03 :: r) = ('(b, r') <- dec_lenpref r ;; Some (VList [VNone; VList []; VSome (VList (ints_of_bytes b)); VInt 1], r')).
  Proof. unfold dec_gentail. cbn. destruct (dec_lenpref r) as [[b r']|]; reflexivity. Qed.

  Lemma gentail_rt_v0 tr gn refs :
    (gn = VNone \/ exists b, gn = VSome (VBytes b) /\ prog_len O tr b = Some (nlen b)) ->
    len_ok refs = true -> forallb (wf_u 4) refs = true ->
    exists e, enc_gentail (VList [gn; VList refs; VNone; VInt 0]) = Some e /\
              forall r, dec_gentail O tr (e ++ r) = Some (VList [gn; VList refs; VNone; VInt 0], r).
  Proof.
    intros Hgn Hok Hrefs.
    destruct (enc_u32s_rt refs Hrefs) as (e & He & Hn & Hd).
    assert (Hlt : N.of_nat (length refs) < pow256 4).
    { pose proof (len_ok_spec refs Hok) as Hl. rewrite <- u32_max_pow. lia. }
    assert (Hle : forall r, (N.of_nat (length refs) * 4 <=? nlen (e ++ r)) = true) by (intros r; rewrite nlen_app, Hn; lia).
    assert (Henc : forall g, enc_opt_bytes gn = Some g ->
                   enc_gentail (VList [gn; VList refs; VNone; VInt 0]) = Some (g ++ n2be 4 (N.of_nat (length refs)) ++ e)).
    { intros g Hg. unfold enc_gentail. replace (0 =? 0)%Z with true by reflexivity. rewrite Hg, He.
      unfold len_ok in Hok. rewrite Hok. reflexivity. }
    destruct Hgn as [-> | (b & -> & Hb)].
    - exists ([x00] ++ n2be 4 (N.of_nat (length refs)) ++ e). split; [apply Henc; reflexivity|].
      intros r. rewrite <- !app_assoc. change ([x00] ++ ?x) with (x00 :: x). rewrite dec_gentail_0.
      rewrite dec_u_n_app by exact Hlt. rewrite Hle, Nat2N.id, Hd. reflexivity.
    - exists ((x01 :: b) ++ n2be 4 (N.of_nat (length refs)) ++ e). split; [apply Henc; reflexivity|].
      intros r. rewrite <- !app_assoc. rewrite <- app_comm_cons. rewrite dec_gentail_1.
      rewrite dec_prog_app by exact Hb. rewrite dec_u_n_app by exact Hlt. rewrite Hle, Nat2N.id, Hd. reflexivity.
  Qed.

  Lemma gentail_rt_v1 tr buf :
    (buf = VNone \/ exists l, buf = VSome (VList l) /\ forallb (wf_u 1) l = true /\ N.of_nat (length l) <= u32_max) ->
    exists e, enc_gentail (VList [VNone; VList []; buf; VInt 1]) = Some e /\
              forall r, dec_gentail O tr (e ++ r) = Some (VList [VNone; VList []; buf; VInt 1], r).
  Proof.
    intros Hbuf. unfold enc_gentail.
    replace (1 =? 0)%Z with false by reflexivity. replace (1 =? 1)%Z with true by reflexivity.
    destruct Hbuf as [-> | (l & -> & Hl & Hlen')].
    - exists [x02]. split; [reflexivity|]. intros r. cbn [app]. apply dec_gentail_2.
    - destruct (bytes_of_ints_rt l Hl) as (b & Hb & Hi & Hlen). rewrite Hb.
      assert (Hbl : nlen b <= u32_max) by (unfold nlen; rewrite Hlen; lia).
      eexists. split; [reflexivity|]. intros r. cbn [app]. rewrite dec_gentail_3.
      rewrite dig_lenpref_small by exact Hbl. rewrite <- app_assoc, dec_lenpref_app by exact Hbl. rewrite Hi. reflexivity.
  Qed.

  Lemma gentail_rt tr : rt_spec (dec_gentail O tr) enc_gentail (wf_gentail O tr).
  Proof.
    intros v Hw.
    apply wf_gentail_inv in Hw as (gn & refs & buf & ver & -> & Hgn & Hok & Hrefs & Hbuf & Hver & Hsh).
    cbn [gentail_shape_ok] in Hsh.
    destruct (in_range_u1_cases ver Hver) as [-> | [-> | [E0 E1]]]; [| |rewrite E0, E1 in Hsh; discriminate].
    - replace (0 =? 0)%Z with true in Hsh by reflexivity.
      destruct Hbuf as [-> | (lb & -> & _)]; [|discriminate Hsh].
      now apply gentail_rt_v0.
    - replace (1 =? 0)%Z with false in Hsh by reflexivity. replace (1 =? 1)%Z with true in Hsh by reflexivity.
      bool_hyps.
      destruct Hgn as [-> | (pb & -> & _)]; [|discriminate].
      destruct refs; [|discriminate].
      apply gentail_rt_v1.
      destruct Hbuf as [-> | (l & -> & Hl)]; [left; reflexivity|right]. exists l. repeat split; auto. lia.
  Qed.
End Oracle.

(* ================= part p11 ================= *)
Local Opaque n2be.

Section Oracle.
  Variable O : oracles.
  Hypothesis prog_len_stable : forall tr b n r,
    prog_len O tr b = Some n -> n <= nlen b -> prog_len O tr (firstn (N.to_nat n) b ++ r) = Some n.
  Hypothesis prog_len_pos : forall tr b n, prog_len O tr b = Some n -> 1 <= n.

  Theorem enc_min_all tr t : min_spec (encode t) (wf O tr t) (min_size t).
  Proof.
    induction t using ty_ind'; intros v e Hw He; cbn [min_size].
    - (* U *) destruct v; try discriminate. cbn [encode wf wf_u] in *. rewrite Hw in He. injection He as <-. unfold enc_u. rewrite nlen_n2be. lia.
    - (* I *) destruct v; try discriminate. cbn [encode wf] in *. rewrite Hw in He. injection He as <-. unfold enc_i. rewrite nlen_n2be. lia.
    - (* Bool *) destruct v; try discriminate. cbn [encode] in He. injection He as <-. cbn. lia.
    - (* BytesN *) destruct v; try discriminate. cbn [encode wf wf_bytes_len] in *. rewrite Hw in He. injection He as <-.
      apply Nat.eqb_eq in Hw. unfold nlen. lia.
    - (* Bytes *) destruct v; try discriminate. cbn [encode] in He. apply enc_lenpref_inv in He as [_ ->]. rewrite nlen_app, nlen_n2be. lia.
    - (* Str *) destruct v; try discriminate. cbn [encode] in He. apply enc_lenpref_inv in He as [_ ->]. rewrite nlen_app, nlen_n2be. lia.
    - (* Opt *) destruct v; try discriminate; cbn [encode] in He.
      + injection He as <-. cbn. lia.
      + destruct (encode t v); [|discriminate]. injection He as <-. rewrite nlen_cons. lia.
    - (* Vec *) destruct v; try discriminate. cbn [encode] in He. destruct (len_ok l); [|discriminate].
      destruct (enc_list (encode t) l); [|discriminate]. injection He as <-. rewrite nlen_app, nlen_n2be. lia.
    - (* Tup *) destruct v; try discriminate. cbn [encode wf] in *. eapply enc_seq_min; eauto.
    - (* Arr *) destruct v; try discriminate. cbn [encode wf] in *. apply andb_prop in Hw as [Hl Hf].
      rewrite Hl in He. apply Nat.eqb_eq in Hl. subst n.
      eapply (enc_list_min (encode t) (wf O tr t) (min_size t) IHt); eauto.
    - (* Enum *) destruct v; try discriminate. cbn [encode] in He. match type of He with (if ?c then _ else _) = _ => destruct c; [|discriminate] end.
      injection He as <-. cbn. lia.
    - (* Struct *) destruct v; try discriminate. cbn [encode wf] in *. eapply enc_fields_min; eauto.
    - (* G1 *) destruct v; try discriminate. cbn [encode wf] in *. apply andb_prop in Hw as [Hl _]. rewrite Hl in He. injection He as <-.
      apply Nat.eqb_eq in Hl. unfold nlen. lia.
    - (* G2 *) destruct v; try discriminate. cbn [encode wf] in *. apply andb_prop in Hw as [Hl _]. rewrite Hl in He. injection He as <-.
      apply Nat.eqb_eq in Hl. unfold nlen. lia.
    - (* Prog *) destruct v; try discriminate. cbn [encode wf] in *. injection He as <-.
      destruct (prog_len O tr b) as [n|] eqn:En; [|discriminate]. apply N.eqb_eq in Hw. subst n.
      exact (prog_len_pos _ _ _ En).
    - (* Sk *) destruct v; try discriminate. cbn [encode wf] in *. apply andb_prop in Hw as [Hl _]. rewrite Hl in He. injection He as <-.
      apply Nat.eqb_eq in Hl. unfold nlen. lia.
    - (* Opt2 *) destruct v; try discriminate. destruct l as [|oa [|ob [|? ?]]]; try discriminate. cbn [encode] in He.
      destruct (enc_optval (encode t1) oa); [|discriminate]. destruct (enc_optval (encode t2) ob); [|discriminate].
      injection He as <-. rewrite nlen_cons. lia.
    - (* PoS *) cbn [encode wf] in *. eapply enc_pos_min; eauto.
    - (* GenTail *) cbn [encode wf] in *.
      apply wf_gentail_inv in Hw as (gn & refs & buf & ver & -> & Hgn & Hok & Hrefs & Hbuf & Hver & Hsh).
      unfold enc_gentail in He. destruct (ver =? 0)%Z.
      + destruct (enc_opt_bytes gn) as [g|] eqn:Eg; [|discriminate]. destruct (enc_u32s refs); [|discriminate].
        destruct (N.of_nat (length refs) <=? u32_max); [|discriminate]. injection He as <-.
        rewrite !nlen_app, nlen_n2be. lia.
      + destruct (ver =? 1)%Z; [|discriminate]. destruct Hbuf as [-> | (l & -> & _)].
        * injection He as <-. cbn. lia.
        * destruct (bytes_of_ints l); [|discriminate]. injection He as <-. rewrite nlen_cons. lia.
  Qed.

  Theorem encode_decode tr t : rt_spec (decode O tr t) (encode t) (wf O tr t).
  Proof.
    induction t using ty_ind'; intros v Hw; cbn [wf] in Hw.
    - (* U *) destruct v; try discriminate. cbn [wf_u] in Hw. cbn [encode decode]. rewrite Hw. eexists. split; [reflexivity|]. intros r. now apply dec_u_app.
    - (* I *) destruct v; try discriminate. cbn [encode decode]. rewrite Hw. eexists. split; [reflexivity|]. intros r. now apply dec_i_app.
    - (* Bool *) destruct v; try discriminate. cbn [encode decode]. eexists. split; [reflexivity|]. intros r. apply dec_bool_app.
    - (* BytesN *) destruct v; try discriminate. cbn [wf_bytes_len] in Hw. cbn [encode decode]. rewrite Hw. apply Nat.eqb_eq in Hw.
      eexists. split; [reflexivity|]. intros r. now apply dec_bytesn_app.
    - (* Bytes *) destruct v; try discriminate. cbn [encode decode]. apply N.leb_le in Hw. rewrite enc_lenpref_some by exact Hw.
      eexists. split; [reflexivity|]. intros r. rewrite <- app_assoc. now apply dec_bytes_app.
    - (* Str *) destruct v; try discriminate. apply andb_prop in Hw as [Hl Hu]. cbn [encode decode]. apply N.leb_le in Hl.
      rewrite enc_lenpref_some by exact Hl. eexists. split; [reflexivity|]. intros r. rewrite <- app_assoc. unfold dec_str.
      rewrite dec_lenpref_app by exact Hl. now rewrite Hu.
    - (* Opt *) destruct v; try discriminate; cbn [wf_optval] in Hw; cbn [encode decode].
      + exists [x00]. split; [reflexivity|]. intros r. apply dec_opt_none.
      + destruct (IHt v Hw) as (e & He & Hd). rewrite He. eexists. split; [reflexivity|]. intros r. cbn [app]. apply dec_opt_some. apply Hd.
    - (* Vec *) destruct v; try discriminate. apply andb_prop in Hw as [Hok Hf]. cbn [encode decode]. rewrite Hok.
      destruct (enc_list_rt _ _ _ IHt l Hf) as (e & He & Hd). rewrite He.
      pose proof (len_ok_spec l Hok) as Hl.
      assert (Hlt : N.of_nat (length l) < pow256 4) by (rewrite <- u32_max_pow; lia).
      eexists. split; [reflexivity|]. intros r. rewrite <- app_assoc. rewrite dec_u_n_app by exact Hlt.
      pose proof (enc_list_min (encode t) (wf O tr t) (min_size t) (enc_min_all tr t) l e Hf He) as Hm.
      replace ((min_size t =? 0) || (N.of_nat (length l) <=? nlen (e ++ r))) with true.
      + rewrite Nat2N.id, Hd. reflexivity.
      + symmetry. rewrite nlen_app. destruct (N.eqb_spec (min_size t) 0); [reflexivity|]. cbn [orb]. apply N.leb_le. nia.
    - (* Tup *) destruct v; try discriminate. cbn [encode decode].
      destruct (enc_seq_rt _ encode (wf O tr) ts H l Hw) as (e & He & Hd). rewrite He. eexists. split; [reflexivity|]. intros r. now rewrite Hd.
    - (* Arr *) destruct v; try discriminate. apply andb_prop in Hw as [Hl Hf]. cbn [encode decode]. rewrite Hl. apply Nat.eqb_eq in Hl. subst n.
      destruct (enc_list_rt _ _ _ IHt l Hf) as (e & He & Hd). rewrite He. eexists. split; [reflexivity|]. intros r. now rewrite Hd.
    - (* Enum *) destruct v; try discriminate. cbn [encode decode]. rewrite Hw.
      apply andb_prop in Hw as [Hz Hex]. apply andb_prop in Hz as [Hz0 Hz1].
      eexists. split; [reflexivity|]. intros r. cbn [app].
      rewrite dec_u1_app by lia. rewrite Hex. rewrite Z2N.id by lia. reflexivity.
    - (* Struct *) destruct v; try discriminate. cbn [encode decode].
      destruct (enc_fields_rt _ encode (wf O tr) fs H l Hw) as (e & He & Hd). rewrite He. eexists. split; [reflexivity|]. intros r. now rewrite Hd.
    - (* G1 *) destruct v; try discriminate. apply andb_prop in Hw as [Hl Hg]. cbn [encode decode]. rewrite Hl. apply Nat.eqb_eq in Hl.
      eexists. split; [reflexivity|]. intros r. now apply dec_g1_app.
    - (* G2 *) destruct v; try discriminate. apply andb_prop in Hw as [Hl Hg]. cbn [encode decode]. rewrite Hl. apply Nat.eqb_eq in Hl.
      eexists. split; [reflexivity|]. intros r. now apply dec_g2_app.
    - (* Prog *) destruct v; try discriminate. cbn [encode decode]. eexists. split; [reflexivity|]. intros r.
      destruct (prog_len O tr b) as [n|] eqn:En; [|discriminate]. apply N.eqb_eq in Hw. subst n.
      now apply (dec_prog_app O prog_len_stable).
    - (* Sk *) destruct v; try discriminate. apply andb_prop in Hw as [Hl Hg]. cbn [encode decode]. rewrite Hl. apply Nat.eqb_eq in Hl.
      eexists. split; [reflexivity|]. intros r. now apply dec_sk_app.
    - (* Opt2 *) destruct v; try discriminate. destruct l as [|oa [|ob [|? ?]]]; try discriminate.
      apply andb_prop in Hw as [Ha Hb]. cbn [encode decode].
      destruct oa as [| | | |x|]; try discriminate; destruct ob as [| | | |y|]; try discriminate; cbn [wf_optval enc_optval opt2_prefix is_some] in *.
      + eexists. split; [reflexivity|]. intros r. cbn [app]. change (n2b (0 + 0)) with (n2b 0). rewrite dec_u1_app by reflexivity. reflexivity.
      + destruct (IHt2 y Hb) as (ey & Hey & Hdy). rewrite Hey. eexists. split; [reflexivity|]. intros r. cbn [app].
        change (n2b (0 + 2)) with (n2b 2). rewrite dec_u1_app by reflexivity. cbv beta iota. rewrite Hdy. reflexivity.
      + destruct (IHt1 x Ha) as (ex & Hex & Hdx). rewrite Hex. eexists. split; [reflexivity|]. intros r. cbn [app]. rewrite app_nil_r.
        change (n2b (1 + 0)) with (n2b 1). rewrite dec_u1_app by reflexivity. cbv beta iota. rewrite Hdx. reflexivity.
      + destruct (IHt1 x Ha) as (ex & Hex & Hdx). destruct (IHt2 y Hb) as (ey & Hey & Hdy). rewrite Hex, Hey.
        eexists. split; [reflexivity|]. intros r. cbn [app]. rewrite <- app_assoc.
        change (n2b (1 + 2)) with (n2b 3). rewrite dec_u1_app by reflexivity. cbv beta iota. rewrite Hdx, Hdy. reflexivity.
    - (* PoS *) cbn [encode decode]. now apply pos_rt.
    - (* GenTail *) cbn [encode decode]. now apply (gentail_rt O prog_len_stable).
  Qed.
End Oracle.

(* ================= part p12 ================= *)
Local Opaque n2be.

Definition mono (d1 d2 : bytes -> dres) : Prop := forall bs v r, d1 bs = Some (v, r) -> d2 bs = Some (v, r).

Lemma mono_opt d1 d2 : mono d1 d2 -> mono (dec_opt d1) (dec_opt d2).
Proof.
  intros Hm bs v r H. unfold dec_opt in *. destruct (read_bytes 1 bs) as [[b r0]|]; [|discriminate].
  destruct (be2n b) as [|[p|p|]]; try exact H; try discriminate.
  destruct (d1 r0) as [[x r1]|] eqn:E; [|discriminate]. now rewrite (Hm _ _ _ E).
Qed.

Lemma mono_rep d1 d2 n : mono d1 d2 -> forall bs l r, dec_rep d1 n bs = Some (l, r) -> dec_rep d2 n bs = Some (l, r).
Proof.
  intros Hm. induction n as [|n IH]; intros bs l r; cbn [dec_rep]; [auto|].
  intros H. destruct (d1 bs) as [[x r1]|] eqn:E; [|discriminate]. rewrite (Hm _ _ _ E).
  destruct (dec_rep d1 n r1) as [[l' r2]|] eqn:E2; [|discriminate]. now rewrite (IH _ _ _ E2).
Qed.

Lemma mono_seq (d1 d2 : ty -> bytes -> dres) ts :
  Forall (fun t => mono (d1 t) (d2 t)) ts -> forall bs l r, dec_seq d1 ts bs = Some (l, r) -> dec_seq d2 ts bs = Some (l, r).
Proof.
  induction 1 as [|t ts Ht _ IH]; intros bs l r; cbn [dec_seq]; [auto|].
  intros H. destruct (d1 t bs) as [[x r1]|] eqn:E; [|discriminate]. rewrite (Ht _ _ _ E).
  destruct (dec_seq d1 ts r1) as [[l' r2]|] eqn:E2; [|discriminate]. now rewrite (IH _ _ _ E2).
Qed.

Lemma mono_fields (d1 d2 : ty -> bytes -> dres) fs :
  Forall (fun f => mono (d1 (snd f)) (d2 (snd f))) fs ->
  forall bs l r, dec_fields d1 fs bs = Some (l, r) -> dec_fields d2 fs bs = Some (l, r).
Proof.
  induction 1 as [|f fs Hf _ IH]; intros bs l r; cbn [dec_fields]; [auto|].
  intros H. destruct (d1 (snd f) bs) as [[x r1]|] eqn:E; [|discriminate]. rewrite (Hf _ _ _ E).
  destruct (unpack (snd f) x); [|discriminate].
  destruct (dec_fields d1 fs r1) as [[l' r2]|] eqn:E2; [|discriminate]. now rewrite (IH _ _ _ E2).
Qed.

Lemma g1_ok_mono O b : g1_ok O false b = true -> g1_ok O true b = true.
Proof. unfold g1_ok. intros H. apply andb_prop in H as [H1 _]. now rewrite H1. Qed.
Lemma g2_ok_mono O b : g2_ok O false b = true -> g2_ok O true b = true.
Proof. unfold g2_ok. intros H. apply andb_prop in H as [H1 _]. now rewrite H1. Qed.

Lemma mono_g1 O : mono (dec_g1 O false) (dec_g1 O true).
Proof.
  intros bs v r H. unfold dec_g1 in *. destruct (read_bytes 48 bs) as [[b r0]|]; [|discriminate].
  destruct (g1_ok O false b) eqn:E; [|discriminate]. now rewrite (g1_ok_mono O b E).
Qed.
Lemma mono_g2 O : mono (dec_g2 O false) (dec_g2 O true).
Proof.
  intros bs v r H. unfold dec_g2 in *. destruct (read_bytes 96 bs) as [[b r0]|]; [|discriminate].
  destruct (g2_ok O false b) eqn:E; [|discriminate]. now rewrite (g2_ok_mono O b E).
Qed.

Section Oracle.
  Variable O : oracles.
  (* whatever the validating length function accepts, the trusted one measures identically *)
  Hypothesis prog_len_trust : forall b n, prog_len O false b = Some n -> prog_len O true b = Some n.

  Lemma mono_prog : mono (dec_prog O false) (dec_prog O true).
  Proof.
    intros bs v r H. unfold dec_prog in *. destruct (prog_len O false bs) as [n|] eqn:E; [|discriminate].
    now rewrite (prog_len_trust _ _ E).
  Qed.

  Lemma mono_pos : mono (dec_pos O false) (dec_pos O true).
  Proof.
    intros bs v r H. unfold dec_pos in *.
    destruct (dec_bytesn 32 bs) as [[challenge r1]|]; [|discriminate].
    destruct (dec_opt (dec_g1 O false) r1) as [[pk r2]|] eqn:E1; [|discriminate].
    rewrite (mono_opt _ _ (mono_g1 O) _ _ _ E1).
    destruct (dec_u_n 1 r2) as [[pfx r3]|]; [|discriminate].
    match type of H with (match ?c with Some _ => _ | None => None end) = _ => destruct c as [[contract r4]|]; [|discriminate] end.
    destruct (dec_g1 O false r4) as [[ppk r5]|] eqn:E2; [|discriminate]. rewrite (mono_g1 O _ _ _ E2).
    exact H.
  Qed.

  Lemma mono_gentail : mono (dec_gentail O false) (dec_gentail O true).
  Proof.
    intros bs v r H. unfold dec_gentail in *.
    destruct (dec_u_n 1 bs) as [[pfx r1]|]; [|discriminate].
    destruct (pfx / 2 =? 0); [|exact H].
    destruct (N.land pfx 1 =? 1); [|exact H].
    destruct (dec_prog O false r1) as [[p r2]|] eqn:E; [|discriminate]. now rewrite (mono_prog _ _ _ E).
  Qed.

  Theorem untrusted_trusted t : mono (decode O false t) (decode O true t).
  Proof.
    induction t using ty_ind'; intros bs v r Hd; cbn [decode] in *; try exact Hd.
    - (* Opt *) eapply mono_opt; eauto.
    - (* Vec *) destruct (dec_u_n 4 bs) as [[n r1]|]; [|discriminate].
      destruct ((min_size t =? 0) || (n <=? nlen r1)); [|discriminate].
      destruct (dec_rep (decode O false t) (N.to_nat n) r1) as [[l r2]|] eqn:E; [|discriminate].
      now rewrite (mono_rep _ _ _ IHt _ _ _ E).
    - (* Tup *) destruct (dec_seq (decode O false) ts bs) as [[l r2]|] eqn:E; [|discriminate].
      now rewrite (mono_seq _ _ ts H _ _ _ E).
    - (* Arr *) destruct (dec_rep (decode O false t) n bs) as [[l r2]|] eqn:E; [|discriminate].
      now rewrite (mono_rep _ _ _ IHt _ _ _ E).
    - (* Struct *) destruct (dec_fields (decode O false) fs bs) as [[l r2]|] eqn:E; [|discriminate].
      now rewrite (mono_fields _ _ fs H _ _ _ E).
    - (* G1 *) now apply mono_g1.
    - (* G2 *) now apply mono_g2.
    - (* Prog *) now apply mono_prog.
    - (* Opt2 *) destruct (dec_u_n 1 bs) as [[p r1]|]; [|discriminate].
      destruct p as [|[[q|q|]|[q|q|]|]]; try discriminate; try exact Hd.
      + destruct (decode O false t1 r1) as [[x r2]|] eqn:E1; [|discriminate]. rewrite (IHt1 _ _ _ E1).
        destruct (decode O false t2 r2) as [[y r3]|] eqn:E2; [|discriminate]. now rewrite (IHt2 _ _ _ E2).
      + destruct (decode O false t2 r1) as [[y r3]|] eqn:E2; [|discriminate]. now rewrite (IHt2 _ _ _ E2).
      + destruct (decode O false t1 r1) as [[x r2]|] eqn:E1; [|discriminate]. now rewrite (IHt1 _ _ _ E1).
    - (* PoS *) now apply mono_pos.
    - (* GenTail *) now apply mono_gentail.
  Qed.

  Corollary from_bytes_unchecked_superset t bs v :
    from_bytes O t bs = Some v -> from_bytes_unchecked O t bs = Some v.
  Proof.
    unfold from_bytes, from_bytes_unchecked, from_bytes_gen.
    destruct (decode O false t bs) as [[v' r]|] eqn:E; [|discriminate]. now rewrite (untrusted_trusted t _ _ _ E).
  Qed.
End Oracle.

(* ================= part p13 ================= *)
Local Opaque n2be.

(* digest agrees with encode, for well-formed values holding no v2 proof of space;
   for a predicate p on proofs of space:  dg_spec says "when no proof inside satisfies p" *)
Definition dg_spec (dig : value -> digres) (enc : value -> option bytes) (chk : value -> bool) (ex : value -> bool) : Prop :=
  forall v e, chk v = true -> ex v = false -> enc v = Some e -> dig v = DOk e.

Lemma dig_list_spec dig1 enc1 chk1 ex1 :
  dg_spec dig1 enc1 chk1 ex1 ->
  forall l e, forallb chk1 l = true -> existsb ex1 l = false -> enc_list enc1 l = Some e -> dig_list dig1 l = DOk e.
Proof.
  intros Hs. induction l as [|x l IH]; intros e; cbn [forallb existsb enc_list dig_list].
  - intros _ _ [= <-]. reflexivity.
  - intros Hc Hx He. apply andb_prop in Hc as [Hc1 Hc2]. apply orb_false_elim in Hx as [Hx1 Hx2].
    destruct (enc1 x) as [e1|] eqn:E1; [|discriminate]. destruct (enc_list enc1 l) as [e2|] eqn:E2; [|discriminate].
    injection He as <-. rewrite (Hs x e1 Hc1 Hx1 E1), (IH e2 Hc2 Hx2 eq_refl). reflexivity.
Qed.

Lemma dig_seq_spec (dig : ty -> value -> digres) enc chk ex ts :
  Forall (fun t => dg_spec (dig t) (enc t) (chk t) (ex t)) ts ->
  forall l e, chk_seq chk ts l = true -> ex_seq ex ts l = false -> enc_seq enc ts l = Some e -> dig_seq dig ts l = DOk e.
Proof.
  induction 1 as [|t ts Ht _ IH]; intros [|x l] e; cbn [chk_seq ex_seq enc_seq dig_seq]; try discriminate.
  - intros _ _ [= <-]. reflexivity.
  - intros Hc Hx He. apply andb_prop in Hc as [Hc1 Hc2]. apply orb_false_elim in Hx as [Hx1 Hx2].
    destruct (enc t x) as [e1|] eqn:E1; [|discriminate]. destruct (enc_seq enc ts l) as [e2|] eqn:E2; [|discriminate].
    injection He as <-. rewrite (Ht x e1 Hc1 Hx1 E1), (IH l e2 Hc2 Hx2 E2). reflexivity.
Qed.

Lemma dig_fields_spec (dig : ty -> value -> digres) enc chk ex fs :
  Forall (fun f => dg_spec (dig (snd f)) (enc (snd f)) (chk (snd f)) (ex (snd f))) fs ->
  forall l e, chk_fields chk fs l = true -> ex_fields ex fs l = false -> enc_fields enc fs l = Some e -> dig_fields dig fs l = DOk e.
Proof.
  induction 1 as [|f fs Hf _ IH]; intros l e; cbn [chk_fields ex_fields enc_fields dig_fields].
  - destruct l; [|discriminate]. intros _ _ [= <-]. reflexivity.
  - destruct (pack (snd f) l) as [[v l']|]; [|discriminate]. intros Hc Hx He.
    apply andb_prop in Hc as [Hc1 Hc2]. apply orb_false_elim in Hx as [Hx1 Hx2].
    destruct (enc (snd f) v) as [e1|] eqn:E1; [|discriminate]. destruct (enc_fields enc fs l') as [e2|] eqn:E2; [|discriminate].
    injection He as <-. rewrite (Hf v e1 Hc1 Hx1 E1), (IH l' e2 Hc2 Hx2 E2). reflexivity.
Qed.

Lemma len_mod_small l : len_ok l = true -> N.of_nat (length l) mod 2 ^ 32 = N.of_nat (length l).
Proof.
  intros H. apply len_ok_spec in H. apply N.mod_small. replace (2 ^ 32) with (u32_max + 1) by reflexivity. lia.
Qed.

(* ---------- ProofOfSpace ---------- *)
Lemma dig_pos_v1 O tr v e :
  wf_pos O tr v = true -> pos_is_v2 v = false -> enc_pos v = Some e -> dig_pos O v = DOk e.
Proof.
  intros Hw Hv He.
  apply wf_pos_inv in Hw as (ch & pk & c & ppk & ver & pi & mg & st & sz & pf & -> & Hch & Hpk & Hc & Hppk & Hgp & Hver & Hpi & Hmg & Hst & Hsz & Hpf & Hsh).
  cbn [pos_is_v2] in Hv. cbn [pos_shape_ok] in Hsh.
  destruct (in_range_u1_cases ver Hver) as [-> | [-> | [E0 E1]]]; [|discriminate Hv|rewrite E0, E1 in Hsh; discriminate].
  unfold enc_pos in He. unfold dig_pos. rewrite (enc_lenpref_some pf Hpf) in He. rewrite (dig_lenpref_small pf Hpf).
  replace (0 =? 0)%Z with true in * by reflexivity.
  destruct Hpk as [-> | (b & -> & Hb & _)]; destruct Hc as [-> | (cb & -> & Hcb)];
    cbn [opt_app enc_opt_bytes] in *; injection He as <-; rewrite <- ?app_assoc; cbn [app]; rewrite <- ?app_assoc; reflexivity.
Qed.

(* v2 proofs: the digest input is the encoding with the proof replaced by its quality string;
   without a quality string update_digest panics (finding F-C14-1) *)
Lemma dig_pos_v2 O tr v :
  wf_pos O tr v = true -> pos_is_v2 v = true ->
  exists head pf, enc_pos v = Some (head ++ n2be 4 (nlen pf) ++ pf) /\
    dig_pos O v = match quality O (head ++ n2be 4 (nlen pf) ++ pf) with
                  | Some q => DOk (head ++ q)
                  | None => DPanic
                  end.
Proof.
  intros Hw Hv.
  apply wf_pos_inv in Hw as (ch & pk & c & ppk & ver & pi & mg & st & sz & pf & -> & Hch & Hpk & Hc & Hppk & Hgp & Hver & Hpi & Hmg & Hst & Hsz & Hpf & Hsh).
  cbn [pos_is_v2] in Hv. apply Z.eqb_eq in Hv. subst ver.
  set (tl := enc_u 2 pi ++ enc_u 1 mg ++ enc_u 1 st).
  assert (Henc : forall pkb cb, enc_opt_bytes pk = Some pkb ->
            match c with VSome (VBytes c0) => Some (x03 :: c0) | VNone => Some [x02] | _ => None end = Some cb ->
            enc_pos (VList [VBytes ch; pk; c; VBytes ppk; VInt 1; VInt pi; VInt mg; VInt st; VInt sz; VBytes pf])
            = Some ((ch ++ pkb ++ cb ++ ppk ++ tl) ++ n2be 4 (nlen pf) ++ pf)).
  { intros pkb cb Hp Hcb. unfold enc_pos. rewrite Hp. cbn [opt_app].
    replace (1 =? 0)%Z with false by reflexivity. replace (1 =? 1)%Z with true by reflexivity.
    rewrite Hcb, (enc_lenpref_some pf Hpf). unfold tl. rewrite <- !app_assoc. reflexivity. }
  assert (Hdig : forall pkb cb, enc_opt_bytes pk = Some pkb ->
            match c with VSome (VBytes c0) => Some (x03 :: c0) | VNone => Some [x02] | _ => None end = Some cb ->
            match c with VSome (VBytes c0) => x03 :: c0 | _ => [x02] end = cb).
  { intros pkb cb _ Hcb. destruct c as [| | | |x|]; try discriminate; [now injection Hcb|]. destruct x; try discriminate. now injection Hcb. }
  destruct Hpk as [-> | (b & -> & Hb & _)]; destruct Hc as [-> | (cb & -> & Hcb)];
    (eexists _, pf; split; [apply Henc; reflexivity|];
     unfold dig_pos; cbn [enc_opt_bytes];
     replace (1 =? 0)%Z with false by reflexivity; replace (1 =? 1)%Z with true by reflexivity;
     rewrite (Henc _ _ eq_refl eq_refl);
     match goal with |- match quality O ?k with _ => _ end = _ => destruct (quality O k); [|reflexivity] end;
     unfold tl; rewrite <- !app_assoc; reflexivity).
Qed.

Lemma dig_gentail_spec O tr full v e :
  wf_gentail O tr v = true -> enc_gentail v = Some e -> dig_gentail full v = DOk e.
Proof.
  intros Hw He.
  apply wf_gentail_inv in Hw as (gn & refs & buf & ver & -> & Hgn & Hok & Hrefs & Hbuf & Hver & Hsh).
  unfold enc_gentail in He. unfold dig_gentail. cbn [gentail_shape_ok] in Hsh.
  destruct (in_range_u1_cases ver Hver) as [-> | [-> | [E0 E1]]]; [| |rewrite E0, E1 in Hsh; discriminate].
  - replace (0 =? 0)%Z with true in * by reflexivity.
    destruct (enc_opt_bytes gn) as [g|]; [|discriminate]. destruct (enc_u32s refs) as [rs|]; [|discriminate].
    destruct (N.of_nat (length refs) <=? u32_max); [|discriminate]. injection He as <-.
    now rewrite (len_mod_small refs Hok).
  - replace (1 =? 0)%Z with false in * by reflexivity. replace (1 =? 1)%Z with true in * by reflexivity.
    destruct Hbuf as [-> | (l & -> & _)]; [now injection He as <-|].
    destruct (bytes_of_ints l); [|discriminate]. now injection He as <-.
Qed.

Section Digest.
  Variable O : oracles.
  Variable tr : bool.

  Theorem digest_encode t : dg_spec (digest O t) (encode t) (wf O tr t) (has_v2_pos t).
  Proof.
    unfold has_v2_pos.
    induction t using ty_ind'; intros v e Hw Hx He; cbn [wf has_pos encode digest] in *.
    - (* U *) destruct v; try discriminate. cbn [wf_u] in Hw. rewrite Hw in He. now injection He as <-.
    - (* I *) destruct v; try discriminate. rewrite Hw in He. now injection He as <-.
    - (* Bool *) destruct v; try discriminate. now injection He as <-.
    - (* BytesN *) destruct v; try discriminate. cbn [wf_bytes_len] in Hw. rewrite Hw in He. now injection He as <-.
    - (* Bytes *) destruct v; try discriminate. apply N.leb_le in Hw. rewrite (enc_lenpref_some b Hw) in He. injection He as <-.
      now rewrite dig_lenpref_small.
    - (* Str *) destruct v; try discriminate. apply andb_prop in Hw as [Hl _]. apply N.leb_le in Hl.
      rewrite (enc_lenpref_some b Hl) in He. injection He as <-. now rewrite dig_lenpref_small.
    - (* Opt *) destruct v; try discriminate; cbn [wf_optval] in Hw.
      + now injection He as <-.
      + destruct (encode t v) as [e1|] eqn:E1; [|discriminate]. injection He as <-. rewrite (IHt v e1 Hw Hx E1). reflexivity.
    - (* Vec *) destruct v; try discriminate. apply andb_prop in Hw as [Hok Hf]. rewrite Hok in He.
      destruct (enc_list (encode t) l) as [e1|] eqn:E1; [|discriminate]. injection He as <-.
      rewrite (len_mod_small l Hok). rewrite (dig_list_spec _ _ _ _ IHt l e1 Hf Hx E1). reflexivity.
    - (* Tup *) destruct v; try discriminate. eapply dig_seq_spec; eauto.
    - (* Arr *) destruct v; try discriminate. apply andb_prop in Hw as [Hl Hf]. rewrite Hl in He.
      eapply dig_list_spec; eauto.
    - (* Enum *) destruct v; try discriminate. rewrite Hw in He. now injection He as <-.
    - (* Struct *) destruct v; try discriminate. eapply dig_fields_spec; eauto.
    - (* G1 *) destruct v; try discriminate. apply andb_prop in Hw as [Hl _]. rewrite Hl in He. now injection He as <-.
    - (* G2 *) destruct v; try discriminate. apply andb_prop in Hw as [Hl _]. rewrite Hl in He. now injection He as <-.
    - (* Prog *) destruct v; try discriminate. now injection He as <-.
    - (* Sk *) destruct v; try discriminate. apply andb_prop in Hw as [Hl _]. rewrite Hl in He. now injection He as <-.
    - (* Opt2 *) destruct v; try discriminate. destruct l as [|oa [|ob [|? ?]]]; try discriminate.
      apply andb_prop in Hw as [Ha Hb]. apply orb_false_elim in Hx as [Hxa Hxb].
      destruct oa as [| | | |x|]; try discriminate; destruct ob as [| | | |y|]; try discriminate;
        cbn [wf_optval enc_optval dig_optval opt2_prefix is_some] in *.
      + now injection He as <-.
      + destruct (encode t2 y) as [ey|] eqn:Ey; [|discriminate]. injection He as <-. rewrite (IHt2 y ey Hb Hxb Ey). reflexivity.
      + destruct (encode t1 x) as [ex|] eqn:Ex; [|discriminate]. injection He as <-. rewrite (IHt1 x ex Ha Hxa Ex). reflexivity.
      + destruct (encode t1 x) as [ex|] eqn:Ex; [|discriminate]. destruct (encode t2 y) as [ey|] eqn:Ey; [|discriminate].
        injection He as <-. rewrite (IHt1 x ex Ha Hxa Ex), (IHt2 y ey Hb Hxb Ey). reflexivity.
    - (* PoS *) eapply dig_pos_v1; eauto.
    - (* GenTail *) eapply dig_gentail_spec; eauto.
  Qed.

  (* consequently: the streaming hash is H applied to the encoding *)
  Corollary hash_is_hash_of_encoding (H : bytes -> bytes) t v e :
    wf O tr t v = true -> has_v2_pos t v = false -> encode t v = Some e -> hash_of H O t v = Some (H e).
  Proof. intros Hw Hx He. unfold hash_of. now rewrite (digest_encode t v e Hw Hx He). Qed.
End Digest.

(* encoding a vector or byte string of 2^32 or more elements is an error *)
Lemma encode_vec_too_long a l : 2 ^ 32 <= N.of_nat (length l) -> encode (Vec a) (VList l) = None.
Proof.
  intros H. cbn [encode]. unfold len_ok. replace (N.of_nat (length l) <=? u32_max) with false; [reflexivity|].
  symmetry. apply N.leb_gt. replace (2 ^ 32) with (u32_max + 1) in H by reflexivity. lia.
Qed.
Lemma encode_bytes_too_long b : 2 ^ 32 <= nlen b -> encode Bytes (VBytes b) = None.
Proof.
  intros H. cbn [encode]. unfold enc_lenpref. replace (nlen b <=? u32_max) with false; [reflexivity|].
  symmetry. apply N.leb_gt. replace (2 ^ 32) with (u32_max + 1) in H by reflexivity. lia.
Qed.

(* ================= corollaries at the level of from_bytes ================= *)

Lemma from_bytes_canonical O (Hs : prog_len_stable_hyp O) tr t bs v :
  from_bytes_gen O tr t bs = Some v -> wf O tr t v = true /\ encode t v = Some bs.
Proof.
  intros H. apply from_bytes_gen_decode in H. apply (decode_sound O Hs) in H as (Hw & e & He & ->).
  split; [exact Hw|]. now rewrite app_nil_r.
Qed.

(* one encoding per value: two accepted byte strings with the same value are the same bytes *)
Lemma one_encoding_per_value O (Hs : prog_len_stable_hyp O) tr tr' t bs bs' v :
  from_bytes_gen O tr t bs = Some v -> from_bytes_gen O tr' t bs' = Some v -> bs = bs'.
Proof.
  intros H1 H2. apply (from_bytes_canonical O Hs) in H1 as [_ E1]. apply (from_bytes_canonical O Hs) in H2 as [_ E2].
  congruence.
Qed.

Lemma to_bytes_from_bytes O (Hs : prog_len_stable_hyp O) (Hp : prog_len_pos_hyp O) tr t v :
  wf O tr t v = true -> exists e, encode t v = Some e /\ from_bytes_gen O tr t e = Some v.
Proof.
  intros Hw. destruct (encode_decode O Hs Hp tr t v Hw) as (e & He & Hd). exists e. split; [exact He|].
  unfold from_bytes_gen. specialize (Hd []). rewrite app_nil_r in Hd. now rewrite Hd.
Qed.

(* prefix-freeness: trailing bytes and missing bytes are rejected *)
Lemma trailing_rejected O (Hs : prog_len_stable_hyp O) (Hp : prog_len_pos_hyp O) tr t bs v extra :
  from_bytes_gen O tr t bs = Some v -> extra <> [] -> from_bytes_gen O tr t (bs ++ extra) = None.
Proof.
  intros H Hx. apply (from_bytes_canonical O Hs) in H as [Hw He].
  destruct (encode_decode O Hs Hp tr t v Hw) as (e & He' & Hd). rewrite He in He'. injection He' as <-.
  unfold from_bytes_gen. rewrite (Hd extra). destruct extra; [contradiction|reflexivity].
Qed.

Lemma missing_rejected O (Hs : prog_len_stable_hyp O) (Hp : prog_len_pos_hyp O) tr t bs v extra :
  from_bytes_gen O tr t (bs ++ extra) = Some v -> extra <> [] -> from_bytes_gen O tr t bs = None.
Proof.
  intros H Hx. destruct (from_bytes_gen O tr t bs) as [v'|] eqn:E; [|reflexivity].
  rewrite (trailing_rejected O Hs Hp tr t bs v' extra E Hx) in H. discriminate.
Qed.

(* ---------- the hypotheses are satisfiable (non-vacuity) ---------- *)
Example toy_oracles_ok : prog_len_stable_hyp toy_oracles /\ prog_len_pos_hyp toy_oracles /\ prog_len_trust_hyp toy_oracles.
Proof.
  split; [|split].
  - intros tr b n r H _. cbn in *. destruct b; [discriminate|]. injection H as <-. reflexivity.
  - intros tr b n H. cbn in H. destruct b; [discriminate|]. injection H as <-. lia.
  - intros b n H. exact H.
Qed.
