(* Stream/Codec.v — the generic codec over the universe, by recursion on `ty`:
     encode   Streamable::stream          (None = Err)
     decode   Streamable::parse::<TRUSTED>(returns the unread rest; None = Err)
     digest   Streamable::update_digest   (the bytes fed to SHA-256, or DPanic)
     wf       which values inhabit a type and are accepted back by decoding mode `tr`
   plus from_bytes / from_bytes_unchecked / hash of the trait.  Definitions only. *)
From Coq Require Import String.
From ChiaV.Base Require Import Bytes.
From ChiaV.Stream Require Import Universe Versioned.
Open Scope N_scope.

(* ---------- struct entries standing for several Rust fields ---------- *)
Definition pack (t : ty) (vs : list value) : option (value * list value) :=
  match t with
  | Opt2 _ _ => match vs with a :: b :: r => Some (VList [a; b], r) | _ => None end
  | GenTail _ => match vs with a :: b :: c :: d :: r => Some (VList [a; b; c; d], r) | _ => None end
  | _ => match vs with a :: r => Some (a, r) | [] => None end
  end.
Definition unpack (t : ty) (v : value) : option (list value) :=
  match t with
  | Opt2 _ _ | GenTail _ => match v with VList l => Some l | _ => None end
  | _ => Some [v]
  end.

(* the Rust-level fields (JSON keys, `new` arguments) of one struct entry *)
Definition entry_fields (e : string * ty) : list (string * ty) :=
  match snd e with
  | Opt2 a b => combine (split_names (fst e)) [Opt a; Opt b]
  | GenTail _ => combine (split_names (fst e)) gentail_field_tys
  | t => [(fst e, t)]
  end.
Definition rust_fields_of (fs : list (string * ty)) : list (string * ty) := flat_map entry_fields fs.

(* ---------- list helpers (the element function is a parameter, not a fix argument, so that the
   nested recursive calls of encode/decode/... are seen as structural) ---------- *)
Section ListHelpers.
  Variable enc1 : value -> option bytes.
  Fixpoint enc_list (l : list value) : option bytes :=      (* Vec / Arr elements *)
    match l with
    | [] => Some []
    | x :: r => e <- enc1 x ;; t <- enc_list r ;; Some (e ++ t)
    end.
  Variable dec1 : bytes -> dres.
  Fixpoint dec_rep (n : nat) (bs : bytes) : option (list value * bytes) :=
    match n with
    | O => Some ([], bs)
    | S k => '(v, r) <- dec1 bs ;; '(l, r') <- dec_rep k r ;; Some (v :: l, r')
    end.
  Variable dig1 : value -> digres.
  Fixpoint dig_list (l : list value) : digres :=
    match l with
    | [] => DOk []
    | x :: r => dig_app (dig1 x) (dig_list r)
    end.
End ListHelpers.

Section Helpers.
  Context {A : Type}.
  Variable enc : A -> value -> option bytes.
  Fixpoint enc_seq (ts : list A) (l : list value) : option bytes := (* Tup *)
    match ts, l with
    | [], [] => Some []
    | t :: ts', x :: l' => e <- enc t x ;; r <- enc_seq ts' l' ;; Some (e ++ r)
    | _, _ => None
    end.
  Variable dec : A -> bytes -> dres.
  Fixpoint dec_seq (ts : list A) (bs : bytes) : option (list value * bytes) :=
    match ts with
    | [] => Some ([], bs)
    | t :: ts' => '(v, r) <- dec t bs ;; '(l, r') <- dec_seq ts' r ;; Some (v :: l, r')
    end.
  Variable dig : A -> value -> digres.
  Fixpoint dig_seq (ts : list A) (l : list value) : digres :=
    match ts, l with
    | t :: ts', x :: l' => dig_app (dig t x) (dig_seq ts' l')
    | _, _ => DOk []
    end.
  Variable chk : A -> value -> bool.
  Fixpoint chk_seq (ts : list A) (l : list value) : bool :=
    match ts, l with
    | [], [] => true
    | t :: ts', x :: l' => chk t x && chk_seq ts' l'
    | _, _ => false
    end.
End Helpers.

(* struct: entries consume `arity` values *)
Section StructHelpers.
  Variable enc : ty -> value -> option bytes.
  Fixpoint enc_fields (fs : list (string * ty)) (l : list value) : option bytes :=
    match fs with
    | [] => match l with [] => Some [] | _ => None end
    | f :: fs' =>
        '(v, l') <- pack (snd f) l ;;
        e <- enc (snd f) v ;; r <- enc_fields fs' l' ;; Some (e ++ r)
    end.
  Variable dec : ty -> bytes -> dres.
  Fixpoint dec_fields (fs : list (string * ty)) (bs : bytes) : option (list value * bytes) :=
    match fs with
    | [] => Some ([], bs)
    | f :: fs' =>
        '(v, r) <- dec (snd f) bs ;;
        vs <- unpack (snd f) v ;;
        '(l, r') <- dec_fields fs' r ;; Some (vs ++ l, r')
    end.
  Variable dig : ty -> value -> digres.
  Fixpoint dig_fields (fs : list (string * ty)) (l : list value) : digres :=
    match fs with
    | [] => DOk []
    | f :: fs' =>
        match pack (snd f) l with
        | Some (v, l') => dig_app (dig (snd f) v) (dig_fields fs' l')
        | None => DOk []
        end
    end.
  Variable chk : ty -> value -> bool.
  Fixpoint chk_fields (fs : list (string * ty)) (l : list value) : bool :=
    match fs with
    | [] => match l with [] => true | _ => false end
    | f :: fs' =>
        match pack (snd f) l with
        | Some (v, l') => chk (snd f) v && chk_fields fs' l'
        | None => false
        end
    end.
End StructHelpers.

Definition len_ok (l : list value) : bool := N.of_nat (length l) <=? u32_max.

(* ---------- minimal wire size (a Vec of elements with min_size 0 cannot be bounded by the input) ---------- *)
Fixpoint min_size (t : ty) : N :=
  match t with
  | U n | I n | BytesN n => N.of_nat n
  | Bool | Opt _ | Enum _ | Opt2 _ _ | GenTail _ | Prog => 1
  | Bytes | Str | Vec _ => 4
  | Tup ts => fold_right (fun t acc => min_size t + acc) 0 ts
  | Arr n a => N.of_nat n * min_size a
  | Struct _ _ fs => fold_right (fun f acc => min_size (snd f) + acc) 0 fs
  | G1 => 48 | G2 => 96 | Sk => 32
  | PoS => 87
  end.

(* ---------- encode (Streamable::stream) ---------- *)
Definition enc_optval (enc : value -> option bytes) (o : value) : option bytes :=
  match o with VNone => Some [] | VSome x => enc x | _ => None end.

Fixpoint encode (t : ty) (v : value) {struct t} : option bytes :=
  match t with
  | U n => match v with VInt z => if in_range_u n z then Some (enc_u n z) else None | _ => None end
  | I n => match v with VInt z => if in_range_i n z then Some (enc_i n z) else None | _ => None end
  | Bool => match v with VBool b => Some [if b then x01 else x00] | _ => None end
  | BytesN n => match v with VBytes b => if (length b =? n)%nat then Some b else None | _ => None end
  | Bytes | Str => match v with VBytes b => enc_lenpref b | _ => None end
  | Opt a => match v with
             | VNone => Some [x00]
             | VSome x => e <- encode a x ;; Some (x01 :: e)
             | _ => None
             end
  | Vec a => match v with
             | VList l => if len_ok l then e <- enc_list (encode a) l ;; Some (n2be 4 (N.of_nat (length l)) ++ e) else None
             | _ => None
             end
  | Tup ts => match v with VList l => enc_seq encode ts l | _ => None end
  | Arr n a => match v with VList l => if (length l =? n)%nat then enc_list (encode a) l else None | _ => None end
  | Enum ds => match v with
               | VInt z => if (0 <=? z)%Z && (z <? 256)%Z && existsb (N.eqb (Z.to_N z)) ds then Some [n2b (Z.to_N z)] else None
               | _ => None
               end
  | Struct _ _ fs => match v with VList l => enc_fields encode fs l | _ => None end
  | G1 => match v with VBytes b => if (length b =? 48)%nat then Some b else None | _ => None end
  | G2 => match v with VBytes b => if (length b =? 96)%nat then Some b else None | _ => None end
  | Sk => match v with VBytes b => if (length b =? 32)%nat then Some b else None | _ => None end
  | Prog => match v with VBytes b => Some b | _ => None end
  | Opt2 a b => match v with
                | VList [oa; ob] =>
                    ea <- enc_optval (encode a) oa ;; eb <- enc_optval (encode b) ob ;;
                    Some (n2b (opt2_prefix oa ob) :: ea ++ eb)
                | _ => None
                end
  | PoS => enc_pos v
  | GenTail _ => enc_gentail v
  end.

(* ---------- decode (Streamable::parse::<TRUSTED>) ---------- *)
Fixpoint decode (O : oracles) (tr : bool) (t : ty) (bs : bytes) {struct t} : dres :=
  match t with
  | U n => dec_u n bs
  | I n => dec_i n bs
  | Bool => dec_bool bs
  | BytesN n => dec_bytesn n bs
  | Bytes => dec_bytes bs
  | Str => dec_str bs
  | Opt a => dec_opt (decode O tr a) bs
  | Vec a =>
      '(n, r) <- dec_u_n 4 bs ;;
      (* `for _ in 0..len { push(parse?) }`: when every element needs at least one byte a length
         beyond the buffer must end in EndOfBuffer; taken as an early exit here so that the
         model never builds a 2^32-step unary counter *)
      if (min_size a =? 0) || (n <=? nlen r) then
        '(l, r') <- dec_rep (decode O tr a) (N.to_nat n) r ;; Some (VList l, r')
      else None
  | Tup ts => '(l, r) <- dec_seq (decode O tr) ts bs ;; Some (VList l, r)
  | Arr n a => '(l, r) <- dec_rep (decode O tr a) n bs ;; Some (VList l, r)
  | Enum ds =>
      '(n, r) <- dec_u_n 1 bs ;; if existsb (N.eqb n) ds then Some (VInt (Z.of_N n), r) else None
  | Struct _ _ fs => '(l, r) <- dec_fields (decode O tr) fs bs ;; Some (VList l, r)
  | G1 => dec_g1 O tr bs
  | G2 => dec_g2 O tr bs
  | Sk => dec_sk bs
  | Prog => dec_prog O tr bs
  | Opt2 a b =>
      '(p, r) <- dec_u_n 1 bs ;;
      match p with
      | 0 => Some (VList [VNone; VNone], r)
      | 1 => '(x, r1) <- decode O tr a r ;; Some (VList [VSome x; VNone], r1)
      | 2 => '(y, r1) <- decode O tr b r ;; Some (VList [VNone; VSome y], r1)
      | 3 => '(x, r1) <- decode O tr a r ;; '(y, r2) <- decode O tr b r1 ;; Some (VList [VSome x; VSome y], r2)
      | _ => None
      end
  | PoS => dec_pos O tr bs
  | GenTail _ => dec_gentail O tr bs
  end.

(* ---------- digest (Streamable::update_digest) ---------- *)
Definition dig_optval (dig : value -> digres) (o : value) : digres :=
  match o with VSome x => dig x | _ => DOk [] end.

Fixpoint digest (O : oracles) (t : ty) (v : value) {struct t} : digres :=
  match t with
  | U n => match v with VInt z => DOk (enc_u n z) | _ => DOk [] end
  | I n => match v with VInt z => DOk (enc_i n z) | _ => DOk [] end
  | Bool => match v with VBool b => DOk [if b then x01 else x00] | _ => DOk [] end
  | BytesN _ | G1 | G2 | Sk | Prog => match v with VBytes b => DOk b | _ => DOk [] end
  | Bytes | Str => match v with VBytes b => DOk (dig_lenpref b) | _ => DOk [] end
  | Opt a => match v with
             | VSome x => dig_app (DOk [x01]) (digest O a x)
             | _ => DOk [x00]
             end
  | Vec a => match v with
             | VList l => dig_app (DOk (n2be 4 (N.of_nat (length l) mod 2 ^ 32))) (dig_list (digest O a) l)
             | _ => DOk []
             end
  | Tup ts => match v with VList l => dig_seq (digest O) ts l | _ => DOk [] end
  | Arr _ a => match v with VList l => dig_list (digest O a) l | _ => DOk [] end
  | Enum _ => match v with VInt z => DOk [n2b (Z.to_N z)] | _ => DOk [] end
  | Struct _ _ fs => match v with VList l => dig_fields (digest O) fs l | _ => DOk [] end
  | Opt2 a b => match v with
                | VList [oa; ob] =>
                    dig_app (DOk [n2b (opt2_prefix oa ob)])
                            (dig_app (dig_optval (digest O a) oa) (dig_optval (digest O b) ob))
                | _ => DOk []
                end
  | PoS => dig_pos O v
  | GenTail full => dig_gentail full v
  end.

(* ---------- well-formed values ---------- *)
Definition wf_optval (chk : value -> bool) (o : value) : bool :=
  match o with VNone => true | VSome x => chk x | _ => false end.

Definition wf_bytes_len (n : nat) (v : value) : bool :=
  match v with VBytes b => (length b =? n)%nat | _ => false end.
Definition wf_u (n : nat) (v : value) : bool := match v with VInt z => in_range_u n z | _ => false end.

Definition wf_pos (O : oracles) (tr : bool) (v : value) : bool :=
  match v with
  | VList [challenge; pool_pk; contract; VBytes plot_pk; version; plot_index; meta_group; strength; size; VBytes proof] =>
      wf_bytes_len 32 challenge
      && wf_optval (fun x => match x with VBytes b => (length b =? 48)%nat && g1_ok O tr b | _ => false end) pool_pk
      && wf_optval (wf_bytes_len 32) contract
      && (length plot_pk =? 48)%nat && g1_ok O tr plot_pk
      && wf_u 1 version && wf_u 2 plot_index && wf_u 1 meta_group && wf_u 1 strength && wf_u 1 size
      && (nlen proof <=? u32_max) && pos_shape_ok v
  | _ => false
  end.

Definition wf_gentail (O : oracles) (tr : bool) (v : value) : bool :=
  match v with
  | VList [gen; VList refs; buf; version] =>
      wf_optval (fun x => match x with
                          | VBytes b => match prog_len O tr b with Some n => n =? nlen b | None => false end
                          | _ => false end) gen
      && len_ok refs && forallb (wf_u 4) refs
      && wf_optval (fun x => match x with VList l => forallb (wf_u 1) l | _ => false end) buf
      && wf_u 1 version && gentail_shape_ok v
  | _ => false
  end.

Fixpoint wf (O : oracles) (tr : bool) (t : ty) (v : value) {struct t} : bool :=
  match t with
  | U n => wf_u n v
  | I n => match v with VInt z => in_range_i n z | _ => false end
  | Bool => match v with VBool _ => true | _ => false end
  | BytesN n => wf_bytes_len n v
  | Bytes => match v with VBytes b => nlen b <=? u32_max | _ => false end
  | Str => match v with VBytes b => (nlen b <=? u32_max) && utf8_ok b | _ => false end
  | Opt a => wf_optval (wf O tr a) v
  | Vec a => match v with VList l => len_ok l && forallb (wf O tr a) l | _ => false end
  | Tup ts => match v with VList l => chk_seq (wf O tr) ts l | _ => false end
  | Arr n a => match v with VList l => (length l =? n)%nat && forallb (wf O tr a) l | _ => false end
  | Enum ds => match v with VInt z => (0 <=? z)%Z && (z <? 256)%Z && existsb (N.eqb (Z.to_N z)) ds | _ => false end
  | Struct _ _ fs => match v with VList l => chk_fields (wf O tr) fs l | _ => false end
  | G1 => match v with VBytes b => (length b =? 48)%nat && g1_ok O tr b | _ => false end
  | G2 => match v with VBytes b => (length b =? 96)%nat && g2_ok O tr b | _ => false end
  | Sk => match v with VBytes b => (length b =? 32)%nat && sk_ok b | _ => false end
  | Prog => match v with
            | VBytes b => match prog_len O tr b with Some n => n =? nlen b | None => false end
            | _ => false
            end
  | Opt2 a b => match v with
                | VList [oa; ob] => wf_optval (wf O tr a) oa && wf_optval (wf O tr b) ob
                | _ => false
                end
  | PoS => wf_pos O tr v
  | GenTail _ => wf_gentail O tr v
  end.

(* does the value contain a v2 ProofOfSpace whose quality string cannot be computed? (F-C14-1) *)
Section Exists.
  Context {A : Type}.
  Variable p : A -> value -> bool.
  Fixpoint ex_seq (ts : list A) (l : list value) : bool :=
    match ts, l with
    | t :: ts', x :: l' => p t x || ex_seq ts' l'
    | _, _ => false
    end.
End Exists.
Section ExistsF.
  Variable p : ty -> value -> bool.
  Fixpoint ex_fields (fs : list (string * ty)) (l : list value) : bool :=
    match fs with
    | [] => false
    | f :: fs' => match pack (snd f) l with
                  | Some (v, l') => p (snd f) v || ex_fields fs' l'
                  | None => false
                  end
    end.
End ExistsF.

(* does the value contain a ProofOfSpace satisfying p? *)
Fixpoint has_pos (p : value -> bool) (t : ty) (v : value) {struct t} : bool :=
  match t with
  | Opt a => match v with VSome x => has_pos p a x | _ => false end
  | Vec a | Arr _ a => match v with VList l => existsb (has_pos p a) l | _ => false end
  | Tup ts => match v with VList l => ex_seq (has_pos p) ts l | _ => false end
  | Struct _ _ fs => match v with VList l => ex_fields (has_pos p) fs l | _ => false end
  | Opt2 a b => match v with
                | VList [oa; ob] =>
                    (match oa with VSome x => has_pos p a x | _ => false end)
                    || (match ob with VSome y => has_pos p b y | _ => false end)
                | _ => false
                end
  | PoS => p v
  | _ => false
  end.

(* a v2 proof (version field 1): hashed through its quality-string commitment *)
Definition pos_is_v2 (v : value) : bool :=
  match v with
  | VList [_; _; _; _; VInt version; _; _; _; _; _] => (version =? 1)%Z
  | _ => false
  end.
Definition has_v2_pos : ty -> value -> bool := has_pos pos_is_v2.
(* the class of finding F-C14-1: a v2 proof whose quality string cannot be computed *)
Definition has_bad_pos (O : oracles) : ty -> value -> bool := has_pos (pos_bad_quality O).

(* ---------- the convenience functions of the trait ---------- *)
Definition from_bytes_gen (O : oracles) (tr : bool) (t : ty) (bs : bytes) : option value :=
  '(v, r) <- decode O tr t bs ;; match r with [] => Some v | _ => None end.
Definition from_bytes (O : oracles) := from_bytes_gen O false.
Definition from_bytes_unchecked (O : oracles) := from_bytes_gen O true.

Section Hash.
  Variable H : bytes -> bytes.
  Definition hash_of (O : oracles) (t : ty) (v : value) : option bytes :=   (* None = panic *)
    match digest O t v with DOk b => Some (H b) | DPanic => None end.
End Hash.

(* ---------- what the theorems assume about the CLVM length oracle ---------- *)
(* the length function only depends on the bytes it counts *)
Definition prog_len_stable_hyp (O : oracles) : Prop := forall tr b n r,
  prog_len O tr b = Some n -> n <= nlen b -> prog_len O tr (firstn (N.to_nat n) b ++ r) = Some n.
(* a serialization has at least one byte *)
Definition prog_len_pos_hyp (O : oracles) : Prop := forall tr b n, prog_len O tr b = Some n -> 1 <= n.
(* what the validating variant accepts, the trusting variant measures alike *)
Definition prog_len_trust_hyp (O : oracles) : Prop := forall b n, prog_len O false b = Some n -> prog_len O true b = Some n.

(* an oracle satisfying them (non-vacuity of the hypotheses; every point is valid, every program is one byte) *)
Definition toy_oracles : oracles :=
  {| g1_unc := fun _ => true; g1_grp := fun _ => true; g2_unc := fun _ => true; g2_grp := fun _ => true;
     prog_len := fun _ bs => match bs with [] => None | _ :: _ => Some 1 end;
     quality := fun _ => None |}.
