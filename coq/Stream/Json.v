(* Stream/Json.v — the Python JSON-dict representation (C20) over the universe.

   json      what json.loads can produce, minus floats
   to_json   ToJsonDict  (chia-traits/to_json_dict.rs, the PyJsonDict derive, bytes.rs, program.rs,
             chia-bls public_key.rs / signature.rs / secret_key.rs)
   from_json FromJsonDict (from_json_dict.rs, ..., chia-bls parse_hex.rs)
   Python object protocol as far as JSON-shaped inputs go: a bool is an int; Vec<T> iterates its
   argument (a str yields its characters, a dict its keys); tuples/arrays use len() and
   indexing (a str works, a dict does not); struct fields are fetched with o[key].
   Definitions only. *)
From Coq Require Import String.
From ChiaV.Base Require Import Bytes.
From ChiaV.Stream Require Import Universe Versioned Codec.
Open Scope N_scope.

Inductive json :=
| JNull
| JBool (b : bool)
| JInt (z : Z)
| JStr (s : bytes)                       (* UTF-8 *)
| JList (l : list json)
| JDict (kvs : list (bytes * json)).

Definition hex0x (b : bytes) : json := JStr (x30 :: x78 :: to_hex b).     (* "0x" ++ hex *)

(* ---------- to_json ---------- *)
Definition tj_opt (f : value -> option json) (o : value) : option json :=
  match o with VNone => Some JNull | VSome x => f x | _ => None end.

Definition tj_bytes (b : bytes) : json := match b with [] => JStr [] | _ => hex0x b end.

Fixpoint tj_ints (l : list value) : option (list json) :=
  match l with
  | [] => Some []
  | VInt z :: r => t <- tj_ints r ;; Some (JInt z :: t)
  | _ => None
  end.

(* the four Rust fields of the generator tail: Option<Program>, Vec<u32>, Option<Vec<u8>>, u8 *)
Definition tj_gentail (names : list string) (vs : list value) : option (list (bytes * json)) :=
  match names, vs with
  | [n1; n2; n3; n4], [gen; VList refs; buf; VInt ver] =>
      g <- tj_opt (fun x => match x with VBytes b => Some (tj_bytes b) | _ => None end) gen ;;
      rs <- tj_ints refs ;;
      bu <- tj_opt (fun x => match x with VList l => l' <- tj_ints l ;; Some (JList l') | _ => None end) buf ;;
      Some [(str n1, g); (str n2, JList rs); (str n3, bu); (str n4, JInt ver)]
  | _, _ => None
  end.

Definition tj_pos (v : value) : option json :=
  match v with
  | VList [VBytes challenge; pool_pk; contract; VBytes plot_pk; VInt version; VInt plot_index;
           VInt meta_group; VInt strength; VInt size; VBytes proof] =>
      pk <- tj_opt (fun x => match x with VBytes b => Some (hex0x b) | _ => None end) pool_pk ;;
      c <- tj_opt (fun x => match x with VBytes b => Some (hex0x b) | _ => None end) contract ;;
      Some (JDict [ (str "challenge", hex0x challenge); (str "pool_public_key", pk);
                    (str "pool_contract_puzzle_hash", c); (str "plot_public_key", hex0x plot_pk);
                    (str "version", JInt version); (str "plot_index", JInt plot_index);
                    (str "meta_group", JInt meta_group); (str "strength", JInt strength);
                    (str "size", JInt size); (str "proof", tj_bytes proof) ])
  | _ => None
  end.

Section ToJsonHelpers.
  Variable tj1 : value -> option json.
  Fixpoint tj_list (l : list value) : option (list json) :=
    match l with
    | [] => Some []
    | x :: r => j <- tj1 x ;; t <- tj_list r ;; Some (j :: t)
    end.
End ToJsonHelpers.
Section ToJsonSeq.
  Variable tj : ty -> value -> option json.
  Fixpoint tj_seq (ts : list ty) (l : list value) : option (list json) :=
    match ts, l with
    | [], [] => Some []
    | t :: ts', x :: l' => j <- tj t x ;; r <- tj_seq ts' l' ;; Some (j :: r)
    | _, _ => None
    end.
  Fixpoint tj_fields (fs : list (string * ty)) (l : list value) : option (list (bytes * json)) :=
    match fs with
    | [] => match l with [] => Some [] | _ => None end
    | f :: fs' =>
        match snd f with
        | Opt2 a b =>
            match split_names (fst f), l with
            | [n1; n2], oa :: ob :: l' =>
                ja <- tj_opt (tj a) oa ;; jb <- tj_opt (tj b) ob ;;
                r <- tj_fields fs' l' ;; Some ((str n1, ja) :: (str n2, jb) :: r)
            | _, _ => None
            end
        | GenTail _ =>
            match l with
            | a :: b :: c :: d :: l' =>
                g <- tj_gentail (split_names (fst f)) [a; b; c; d] ;;
                r <- tj_fields fs' l' ;; Some (g ++ r)
            | _ => None
            end
        | _ => match l with
               | x :: l' => j <- tj (snd f) x ;; r <- tj_fields fs' l' ;; Some ((str (fst f), j) :: r)
               | [] => None
               end
        end
    end.
End ToJsonSeq.

Fixpoint to_json (t : ty) (v : value) {struct t} : option json :=
  match t with
  | U _ | I _ | Enum _ => match v with VInt z => Some (JInt z) | _ => None end
  | Bool => match v with VBool b => Some (JBool b) | _ => None end
  | BytesN _ | G1 | G2 | Sk => match v with VBytes b => Some (hex0x b) | _ => None end
  | Bytes | Prog => match v with VBytes b => Some (tj_bytes b) | _ => None end
  | Str => match v with VBytes b => Some (JStr b) | _ => None end
  | Opt a => tj_opt (to_json a) v
  | Vec a | Arr _ a => match v with VList l => l' <- tj_list (to_json a) l ;; Some (JList l') | _ => None end
  | Tup ts =>
      match v with
      | VList l => if ((length ts =? 2) || (length ts =? 3))%nat        (* only (T,U) and (T,U,V) have impls *)
                   then l' <- tj_seq to_json ts l ;; Some (JList l') else None
      | _ => None
      end
  | Struct _ SNamed fs => match v with VList l => kvs <- tj_fields to_json fs l ;; Some (JDict kvs) | _ => None end
  | Struct _ STuple fs =>
      match fs, v with
      | [f], VList [x] => to_json (snd f) x          (* single-field tuple struct: transparent *)
      | _, _ => None
      end
  | PoS => tj_pos v
  | Opt2 _ _ | GenTail _ => None                     (* only occur as struct entries *)
  end.

(* ---------- from_json ---------- *)
Definition strip0x (s : bytes) : option bytes :=
  match s with
  | a :: b :: r => if byte_eqb a x30 && byte_eqb b x78 then Some r else None
  | _ => None
  end.

(* BytesImpl<N>::from_json_dict *)
Definition fj_bytesn (n : nat) (j : json) : option bytes :=
  match j with
  | JStr s => h <- strip0x s ;; b <- of_hex h ;; if (length b =? n)%nat then Some b else None
  | _ => None
  end.
(* Bytes::from_json_dict *)
Definition fj_bytes (j : json) : option bytes :=
  match j with
  | JStr [] => Some []
  | JStr s => h <- strip0x s ;; of_hex h
  | _ => None
  end.

Definition fj_int (lo hi : Z) (j : json) : option Z :=          (* o.extract::<uN/iN>() *)
  match j with
  | JInt z => if ((lo <=? z) && (z <=? hi))%Z then Some z else None
  | JBool b => let z := if b then 1%Z else 0%Z in if ((lo <=? z) && (z <=? hi))%Z then Some z else None
  | _ => None
  end.
Definition fj_u (n : nat) (j : json) : option Z := fj_int 0 (Z.of_N (pow256 n) - 1) j.
Definition fj_i (n : nat) (j : json) : option Z :=
  z <- fj_int (- Z.of_N (pow256 n)) (Z.of_N (pow256 n)) j ;; if in_range_i n z then Some z else None.

Fixpoint fj_u8s (l : list json) : option bytes :=
  match l with
  | [] => Some []
  | j :: r => z <- fj_u 1 j ;; t <- fj_u8s r ;; Some (n2b (Z.to_N z) :: t)
  end.

(* chia-bls parse_hex.rs: a str with optional 0x, or a sequence of ints *)
Definition fj_hexstring (n : nat) (j : json) : option bytes :=
  match j with
  | JStr s =>
      let h := match strip0x s with Some r => r | None => s end in
      b <- of_hex h ;; if (length b =? n)%nat then Some b else None
  | JList l => b <- fj_u8s l ;; if (length b =? n)%nat then Some b else None
  | _ => None
  end.

(* characters of a Python str (UTF-8 code points) *)
Definition utf8_width (b : byte) : nat :=
  let n := b2n b in if n <? 128 then 1 else if n <? 224 then 2 else if n <? 240 then 3 else 4.
Fixpoint chars (fuel : nat) (s : bytes) : list json :=
  match fuel with
  | O => []
  | S f => match s with
           | [] => []
           | b :: _ => JStr (firstn (utf8_width b) s) :: chars f (skipn (utf8_width b) s)
           end
  end.

(* o.try_iter(): what iterating a JSON-shaped object yields *)
Definition iter_of (j : json) : option (list json) :=
  match j with
  | JList l => Some l
  | JStr s => Some (chars (length s) s)
  | JDict kvs => Some (map (fun kv => JStr (fst kv)) kvs)
  | _ => None
  end.
(* o.len() and o.get_item(i) with integer i *)
Definition seq_of (j : json) : option (list json) :=
  match j with
  | JList l => Some l
  | JStr s => Some (chars (length s) s)
  | _ => None
  end.

Fixpoint dict_get (k : bytes) (kvs : list (bytes * json)) : option json :=
  match kvs with
  | [] => None
  | (k', v) :: r => if bytes_eqb k k' then Some v else dict_get k r
  end.
Definition get_item (j : json) (k : bytes) : option json :=
  match j with JDict kvs => dict_get k kvs | _ => None end.

Definition fj_opt (f : json -> option value) (j : json) : option value :=
  match j with JNull => Some VNone | _ => v <- f j ;; Some (VSome v) end.

Definition fj_prog (O : oracles) (j : json) : option value :=
  b <- fj_bytes j ;;
  match prog_len O false b with
  | Some n => if n =? nlen b then Some (VBytes b) else None
  | None => None
  end.

Fixpoint fj_intlist (n : nat) (l : list json) : option (list value) :=
  match l with
  | [] => Some []
  | j :: r => z <- fj_u n j ;; t <- fj_intlist n r ;; Some (VInt z :: t)
  end.

Definition fj_gentail (O : oracles) (names : list string) (j : json) : option (list value) :=
  match names with
  | [n1; n2; n3; n4] =>
      j1 <- get_item j (str n1) ;; gen <- fj_opt (fj_prog O) j1 ;;
      j2 <- get_item j (str n2) ;; l2 <- iter_of j2 ;; refs <- fj_intlist 4 l2 ;;
      j3 <- get_item j (str n3) ;;
      buf <- fj_opt (fun x => l <- iter_of x ;; b <- fj_intlist 1 l ;; Some (VList b)) j3 ;;
      j4 <- get_item j (str n4) ;; ver <- fj_u 1 j4 ;;
      Some [gen; VList refs; buf; VInt ver]
  | _ => None
  end.

Definition fj_g1 (O : oracles) (j : json) : option value :=
  b <- fj_hexstring 48 j ;; if g1_ok O false b then Some (VBytes b) else None.

Definition fj_pos (O : oracles) (j : json) : option value :=
  j1 <- get_item j (str "challenge") ;; challenge <- fj_bytesn 32 j1 ;;
  j2 <- get_item j (str "pool_public_key") ;; pk <- fj_opt (fj_g1 O) j2 ;;
  j3 <- get_item j (str "pool_contract_puzzle_hash") ;;
  c <- fj_opt (fun x => b <- fj_bytesn 32 x ;; Some (VBytes b)) j3 ;;
  j4 <- get_item j (str "plot_public_key") ;; ppk <- fj_g1 O j4 ;;
  j5 <- get_item j (str "version") ;; version <- fj_u 1 j5 ;;
  j6 <- get_item j (str "plot_index") ;; plot_index <- fj_u 2 j6 ;;
  j7 <- get_item j (str "meta_group") ;; meta_group <- fj_u 1 j7 ;;
  j8 <- get_item j (str "strength") ;; strength <- fj_u 1 j8 ;;
  j9 <- get_item j (str "size") ;; size <- fj_u 1 j9 ;;
  j10 <- get_item j (str "proof") ;; proof <- fj_bytes j10 ;;
  Some (VList [VBytes challenge; pk; c; ppk; VInt version; VInt plot_index; VInt meta_group;
               VInt strength; VInt size; VBytes proof]).

Section FromJsonHelpers.
  Variable fj1 : json -> option value.
  Fixpoint fj_list (l : list json) : option (list value) :=
    match l with
    | [] => Some []
    | j :: r => v <- fj1 j ;; t <- fj_list r ;; Some (v :: t)
    end.
End FromJsonHelpers.
Section FromJsonSeq.
  Variable fj : ty -> json -> option value.
  Fixpoint fj_seq (ts : list ty) (l : list json) : option (list value) :=
    match ts, l with
    | [], [] => Some []
    | t :: ts', j :: l' => v <- fj t j ;; r <- fj_seq ts' l' ;; Some (v :: r)
    | _, _ => None
    end.
  Variable O : oracles.
  Fixpoint fj_fields (fs : list (string * ty)) (j : json) : option (list value) :=
    match fs with
    | [] => Some []
    | f :: fs' =>
        match snd f with
        | Opt2 a b =>
            match split_names (fst f) with
            | [n1; n2] =>
                j1 <- get_item j (str n1) ;; oa <- fj_opt (fj a) j1 ;;
                j2 <- get_item j (str n2) ;; ob <- fj_opt (fj b) j2 ;;
                r <- fj_fields fs' j ;; Some (oa :: ob :: r)
            | _ => None
            end
        | GenTail _ => g <- fj_gentail O (split_names (fst f)) j ;; r <- fj_fields fs' j ;; Some (g ++ r)
        | _ => j1 <- get_item j (str (fst f)) ;; v <- fj (snd f) j1 ;; r <- fj_fields fs' j ;; Some (v :: r)
        end
    end.
End FromJsonSeq.

Fixpoint from_json (O : oracles) (t : ty) (j : json) {struct t} : option value :=
  match t with
  | U n => z <- fj_u n j ;; Some (VInt z)
  | I n => z <- fj_i n j ;; Some (VInt z)
  | Bool => match j with JBool b => Some (VBool b) | _ => None end
  | BytesN n => b <- fj_bytesn n j ;; Some (VBytes b)
  | Bytes => b <- fj_bytes j ;; Some (VBytes b)
  | Str => match j with JStr s => if utf8_ok s then Some (VBytes s) else None | _ => None end
  | Opt a => fj_opt (from_json O a) j
  | Vec a => l <- iter_of j ;; vs <- fj_list (from_json O a) l ;; Some (VList vs)
  | Tup ts =>
      if ((length ts =? 2) || (length ts =? 3))%nat then
        l <- seq_of j ;; vs <- fj_seq (from_json O) ts l ;; Some (VList vs)
      else None
  | Arr n a =>
      l <- seq_of j ;;
      if (length l =? n)%nat then vs <- fj_list (from_json O a) l ;; Some (VList vs) else None
  | Enum ds => z <- fj_u 1 j ;; if existsb (N.eqb (Z.to_N z)) ds then Some (VInt z) else None
  | Struct _ SNamed fs => vs <- fj_fields (from_json O) O fs j ;; Some (VList vs)
  | Struct _ STuple fs =>
      match fs with
      | [f] => v <- from_json O (snd f) j ;; Some (VList [v])
      | _ => None
      end
  | G1 => fj_g1 O j
  | G2 => b <- fj_hexstring 96 j ;; if g2_ok O false b then Some (VBytes b) else None
  | Sk => b <- fj_hexstring 32 j ;; if sk_ok b then Some (VBytes b) else None
  | Prog => fj_prog O j
  | PoS => fj_pos O j
  | Opt2 _ _ | GenTail _ => None
  end.

(* ---------- side condition of the round trip: no Option whose payload can itself be None ---------- *)
Fixpoint nullable (t : ty) : bool :=      (* can to_json t produce JNull? *)
  match t with
  | Opt _ => true
  | Struct _ STuple [f] => nullable (snd f)
  | _ => false
  end.

Section JsonOk.
  Variable ok : ty -> bool.
  Fixpoint all_ty (ts : list ty) : bool := match ts with [] => true | t :: r => ok t && all_ty r end.
  Fixpoint all_field (fs : list (string * ty)) : bool :=
    match fs with
    | [] => true
    | f :: r =>
        (match snd f with
         | Opt2 a b => ok a && ok b && negb (nullable a) && negb (nullable b)
                       && match split_names (fst f) with [_; _] => true | _ => false end
         | GenTail _ => match split_names (fst f) with [_; _; _; _] => true | _ => false end
         | _ => ok (snd f)
         end) && all_field r
    end.
End JsonOk.

Definition entry_keys (f : string * ty) : list bytes :=
  match snd f with
  | Opt2 _ _ | GenTail _ => map str (split_names (fst f))
  | _ => [str (fst f)]
  end.
Definition keys_of (fs : list (string * ty)) : list bytes := flat_map entry_keys fs.
Fixpoint mem_bytes (k : bytes) (l : list bytes) : bool :=
  match l with [] => false | x :: r => bytes_eqb k x || mem_bytes k r end.
Fixpoint nodup_bytes (l : list bytes) : bool :=
  match l with [] => true | x :: r => negb (mem_bytes x r) && nodup_bytes r end.

(* json_ok t: to_json is defined on every well-formed value and no Option is directly nested *)
Fixpoint json_ok (t : ty) : bool :=
  match t with
  | Opt a => json_ok a && negb (nullable a)
  | Vec a | Arr _ a => json_ok a
  | Tup ts => ((length ts =? 2) || (length ts =? 3))%nat && all_ty json_ok ts
  | Struct _ SNamed fs => all_field json_ok fs && nodup_bytes (keys_of fs)
  | Struct _ STuple fs => match fs with [f] => json_ok (snd f) | _ => false end
  | Opt2 _ _ | GenTail _ => false
  | _ => true
  end.
