(* Stream/Versioned.v — mirrors of the hand-written `impl Streamable` of chia-protocol that are
   not plain field sequences:
     ProofOfSpace (proof_of_space.rs): version bits packed into the Option prefix of
        pool_contract_puzzle_hash;  value = VList of the 10 struct fields in declaration order
     the generator tail of FullBlock / UnfinishedBlock (fullblock.rs, unfinished_block.rs):
        value = VList [transactions_generator; transactions_generator_ref_list;
                       transactions_generator_buffer; version]
     the two-options-in-one-byte helper of utils.rs (used by RewardChainBlock, SubEpochSummary,
        SubEpochData): value = VList [first?; second?]
   The three field-sequence impls themselves are translated from their method bodies into
   Struct descriptors (Gen/StreamTypes.v).  Control flow follows the Rust, including the place
   where v2 proofs are rejected (after all fields were read).  Definitions only. *)
From Coq Require Import String.
From ChiaV.Base Require Import Bytes.
From ChiaV.Stream Require Import Universe.
Open Scope N_scope.

(* digest result: update_digest cannot fail, but it can panic *)
Inductive digres := DOk (b : bytes) | DPanic.

Definition dig_app (a b : digres) : digres :=
  match a, b with DOk x, DOk y => DOk (x ++ y) | _, _ => DPanic end.

Definition opt_app (a b : option bytes) : option bytes :=
  match a, b with Some x, Some y => Some (x ++ y) | _, _ => None end.

(* ------------------------------------------------------------------ ProofOfSpace *)
Definition pos_field_tys : list (string * ty) :=
  [ ("challenge", BytesN 32); ("pool_public_key", Opt G1); ("pool_contract_puzzle_hash", Opt (BytesN 32));
    ("plot_public_key", G1); ("version", U 1); ("plot_index", U 2); ("meta_group", U 1);
    ("strength", U 1); ("size", U 1); ("proof", Bytes) ]%string.

Definition enc_opt_bytes (v : value) : option bytes :=      (* Option<G1Element> / Option<Bytes32> *)
  match v with
  | VNone => Some [x00]
  | VSome (VBytes b) => Some (x01 :: b)
  | _ => None
  end.

(* ProofOfSpace::stream *)
Definition enc_pos (v : value) : option bytes :=
  match v with
  | VList [VBytes challenge; pool_pk; contract; VBytes plot_pk; VInt version; VInt plot_index;
           VInt meta_group; VInt strength; VInt size; VBytes proof] =>
      head <- opt_app (Some challenge) (enc_opt_bytes pool_pk) ;;
      mid <-
        (if (version =? 0)%Z then
           c <- enc_opt_bytes contract ;; Some (c ++ plot_pk ++ enc_u 1 size)
         else if (version =? 1)%Z then
           c <- match contract with
                | VSome (VBytes c) => Some (x03 :: c)
                | VNone => Some [x02]
                | _ => None
                end ;;
           Some (c ++ plot_pk ++ enc_u 2 plot_index ++ enc_u 1 meta_group ++ enc_u 1 strength)
         else None) ;;                                      (* Err(InvalidPoS) *)
      p <- enc_lenpref proof ;;
      Some (head ++ mid ++ p)
  | _ => None
  end.

(* ProofOfSpace::parse::<TRUSTED> *)
Definition dec_pos (O : oracles) (tr : bool) (bs : bytes) : dres :=
  '(challenge, r) <- dec_bytesn 32 bs ;;
  '(pool_pk, r) <- dec_opt (dec_g1 O tr) r ;;
  '(prefix, r) <- dec_u_n 1 r ;;
  let version := prefix / 2 in
  '(contract, r) <- (if N.land prefix 1 =? 1 then '(c, r') <- dec_bytesn 32 r ;; Some (VSome c, r')
                     else Some (VNone, r)) ;;
  '(plot_pk, r) <- dec_g1 O tr r ;;
  if version =? 0 then
    '(size, r) <- dec_u 1 r ;;
    '(proof, r) <- dec_bytes r ;;
    Some (VList [challenge; pool_pk; contract; plot_pk; VInt 0; VInt 0; VInt 0; VInt 0; size; proof], r)
  else if version =? 1 then
    '(plot_index, r) <- dec_u 2 r ;;
    '(meta_group, r) <- dec_u 1 r ;;
    '(strength, r) <- dec_u 1 r ;;
    '(proof, r) <- dec_bytes r ;;
    if Bool.eqb (is_some pool_pk) (is_some contract) then None
    else Some (VList [challenge; pool_pk; contract; plot_pk; VInt 1; plot_index; meta_group; strength;
                      VInt 0; proof], r)
  else None.

(* ProofOfSpace::update_digest.  v2 proofs commit to the quality string instead of the proof;
   `.expect` panics when quality_string() is None; version >= 2 panics *)
Definition dig_pos (O : oracles) (v : value) : digres :=
  match v with
  | VList [VBytes challenge; pool_pk; contract; VBytes plot_pk; VInt version; VInt plot_index;
           VInt meta_group; VInt strength; VInt size; VBytes proof] =>
      match enc_opt_bytes pool_pk with
      | None => DOk []
      | Some pk =>
          if (version =? 0)%Z then
            match enc_opt_bytes contract with
            | Some c => DOk (challenge ++ pk ++ c ++ plot_pk ++ enc_u 1 size ++ dig_lenpref proof)
            | None => DOk []
            end
          else if (version =? 1)%Z then
            let c := match contract with VSome (VBytes c) => x03 :: c | _ => [x02] end in
            match enc_pos v with
            | None => DPanic       (* unreachable for typed values with version 1 and proof < 2^32 *)
            | Some e =>
                match quality O e with
                | Some q => DOk (challenge ++ pk ++ c ++ plot_pk ++ enc_u 2 plot_index
                                 ++ enc_u 1 meta_group ++ enc_u 1 strength ++ q)
                | None => DPanic   (* .expect("internal error. Can't compute hash of invalid ProofOfSpace") *)
                end
            end
          else DPanic              (* panic!("version field must be 0 or 1 ...") *)
      end
  | _ => DOk []
  end.

(* cross-field well-formedness of a ProofOfSpace value (what decoding can produce) *)
Definition pos_shape_ok (v : value) : bool :=
  match v with
  | VList [_; pool_pk; contract; _; VInt version; VInt plot_index; VInt meta_group; VInt strength; VInt size; _] =>
      if (version =? 0)%Z then (plot_index =? 0)%Z && (meta_group =? 0)%Z && (strength =? 0)%Z
      else if (version =? 1)%Z then (size =? 0)%Z && negb (Bool.eqb (is_some pool_pk) (is_some contract))
      else false
  | _ => false
  end.

(* is this value a v2 proof whose quality string cannot be computed?  (finding F-C14-1) *)
Definition pos_bad_quality (O : oracles) (v : value) : bool :=
  match v with
  | VList [_; _; _; _; VInt version; _; _; _; _; _] =>
      (version =? 1)%Z && match enc_pos v with Some e => match quality O e with None => true | Some _ => false end | None => false end
  | _ => false
  end.

(* ------------------------------------------------------------------ generator tail *)
Definition gentail_field_tys : list ty := [Opt Prog; Vec (U 4); Opt (Vec (U 1)); U 1].

Fixpoint bytes_of_ints (l : list value) : option bytes :=
  match l with
  | [] => Some []
  | VInt z :: r => if in_range_u 1 z then t <- bytes_of_ints r ;; Some (n2b (Z.to_N z) :: t) else None
  | _ => None
  end.
Definition ints_of_bytes (b : bytes) : list value := map (fun x => VInt (Z.of_N (b2n x))) b.

Fixpoint enc_u32s (l : list value) : option bytes :=
  match l with
  | [] => Some []
  | VInt z :: r => if in_range_u 4 z then t <- enc_u32s r ;; Some (enc_u 4 z ++ t) else None
  | _ => None
  end.

(* FullBlock::stream / UnfinishedBlock::stream, tail.  Note `(buf.len() as u32).stream`: no length
   check on the raw buffer, the prefix silently truncates for buffers >= 2^32 bytes *)
Definition enc_gentail (v : value) : option bytes :=
  match v with
  | VList [gen; VList refs; buf; VInt version] =>
      if (version =? 0)%Z then
        g <- enc_opt_bytes gen ;;
        rs <- enc_u32s refs ;;
        if N.of_nat (length refs) <=? u32_max then Some (g ++ n2be 4 (N.of_nat (length refs)) ++ rs) else None
      else if (version =? 1)%Z then
        match buf with
        | VNone => Some [x02]
        | VSome (VList l) => b <- bytes_of_ints l ;; Some (x03 :: dig_lenpref b)
        | _ => None
        end
      else None
  | _ => None
  end.

Fixpoint dec_u32s (n : nat) (bs : bytes) : option (list value * bytes) :=
  match n with
  | O => Some ([], bs)
  | S k => '(v, r) <- dec_u 4 bs ;; '(l, r') <- dec_u32s k r ;; Some (v :: l, r')
  end.

Definition dec_gentail (O : oracles) (tr : bool) (bs : bytes) : dres :=
  '(prefix, r) <- dec_u_n 1 bs ;;
  let version := prefix / 2 in
  let has := N.land prefix 1 =? 1 in
  if version =? 0 then
    '(gen, r) <- (if has then '(p, r') <- dec_prog O tr r ;; Some (VSome p, r') else Some (VNone, r)) ;;
    '(n, r) <- dec_u_n 4 r ;;
    if n * 4 <=? nlen r then
      '(refs, r) <- dec_u32s (N.to_nat n) r ;;
      Some (VList [gen; VList refs; VNone; VInt 0], r)
    else None
  else if version =? 1 then
    '(buf, r) <- (if has then '(b, r') <- dec_lenpref r ;; Some (VSome (VList (ints_of_bytes b)), r')
                  else Some (VNone, r)) ;;
    Some (VList [VNone; VList []; buf; VInt 1], r)
  else None.

Definition dig_gentail (full : bool) (v : value) : digres :=
  match v with
  | VList [gen; VList refs; buf; VInt version] =>
      if (version =? 0)%Z then
        match enc_opt_bytes gen, enc_u32s refs with
        | Some g, Some rs => DOk (g ++ n2be 4 (N.of_nat (length refs) mod 2 ^ 32) ++ rs)
        | _, _ => DOk []
        end
      else if (version =? 1)%Z then
        match buf with
        | VNone => DOk [x02]
        | VSome (VList l) => match bytes_of_ints l with Some b => DOk (x03 :: dig_lenpref b) | None => DOk [] end
        | _ => DOk []
        end
      else if full then DPanic                                  (* FullBlock: panic! *)
      else DOk (str "invalid-unfinished-block-version")         (* UnfinishedBlock *)
  | _ => DOk []
  end.

Definition gentail_shape_ok (v : value) : bool :=
  match v with
  | VList [gen; VList refs; buf; VInt version] =>
      if (version =? 0)%Z then negb (is_some buf)
      else if (version =? 1)%Z then
        negb (is_some gen) && match refs with [] => true | _ => false end
        && match buf with VSome (VList l) => N.of_nat (length l) <=? u32_max | _ => true end
      else false
  | _ => false
  end.

(* ------------------------------------------------------------------ two options, one prefix byte *)
Definition opt2_prefix (a b : value) : N :=
  (if is_some a then 1 else 0) + (if is_some b then 2 else 0).
