(* Stream/Total.v — instrumented decoder for C14: outcomes Ok | Err | Panic and an allocation meter.

   Panic branches are written wherever the Rust has a reachable-looking `unwrap` / index / slice:
     read_bytes(..)?.try_into().unwrap()      (integers, BytesImpl, G1, G2, SecretKey)
     read_bytes(input, 1)?[0]                 (bool, Option)
     buf[..len as usize]                      (Program::parse)
   the theorems show they are never taken.  The meter is CUMULATIVE (bytes requested from the
   allocator so far, never decreased), hence an upper bound of the peak:
     Vec<T>::parse     with_capacity(min(2 MiB / size_of::<T>(), len)), then RawVec doubling on push
     Bytes / String    to_vec / String::from: len bytes
     Program           to_vec: len bytes; untrusted: clvmr builds an Allocator (1 MiB + 6 KiB reserve)
                       and one pair per parsed token (charged 64 bytes per examined input byte)
   `mem_size` is an upper bound of size_of::<T>() (C layout, Option without niche); the harness
   checks size_of <= mem_size for every named type on every run.  Definitions only. *)
From Coq Require Import String.
From ChiaV.Base Require Import Bytes.
From ChiaV.Stream Require Import Universe Versioned Codec.
Open Scope N_scope.

Inductive tres := TOk (v : value) (r : bytes) (a : N) | TErr (a : N) | TPanic.

Definition tbind (x : tres) (k : value -> bytes -> N -> tres) : tres :=
  match x with TOk v r a => k v r a | TErr a => TErr a | TPanic => TPanic end.

Definition MiB2 : N := 2097152.
Definition clvm_reserve : N := 1048576 + 6144.
Definition clvm_per_byte : N := 64.

(* ---------- in-memory size upper bound ---------- *)
Definition round_up (x al : N) : N := if al =? 0 then x else ((x + al - 1) / al) * al.

Fixpoint mem_align (t : ty) : N :=
  match t with
  | U n | I n => N.max 1 (N.of_nat n)
  | Bool | BytesN _ | Enum _ | Sk => 1
  | Bytes | Str | Vec _ | Prog | G1 | G2 | PoS | GenTail _ => 8
  | Opt a => mem_align a
  | Arr _ a => mem_align a
  | Tup ts => fold_right (fun t acc => N.max (mem_align t) acc) 1 ts
  | Struct _ _ fs => fold_right (fun f acc => N.max (mem_align (snd f)) acc) 1 fs
  | Opt2 a b => N.max (mem_align a) (mem_align b)
  end.

Definition lay (acc : N) (sz al : N) : N := round_up acc al + sz.

Fixpoint mem_size (t : ty) : N :=
  match t with
  | U n | I n | BytesN n => N.of_nat n
  | Bool | Enum _ => 1
  | Bytes | Str | Vec _ | Prog => 24
  | G1 => 144 | G2 => 288 | Sk => 32
  | Opt a => round_up (mem_size a + mem_align a) (mem_align a)
  | Arr n a => N.of_nat n * mem_size a
  | Tup ts => round_up (fold_left (fun acc t => lay acc (mem_size t) (mem_align t)) ts 0)
                       (fold_right (fun t acc => N.max (mem_align t) acc) 1 ts)
  | Struct _ _ fs => round_up (fold_left (fun acc f => lay acc (mem_size (snd f)) (mem_align (snd f))) fs 0)
                              (fold_right (fun f acc => N.max (mem_align (snd f)) acc) 1 fs)
  | Opt2 a b => round_up (mem_size a + mem_align a) (mem_align a) + round_up (mem_size b + mem_align b) (mem_align b) + 16
  | PoS => 32 + 152 + 33 + 144 + 8 + 24 + 7       (* 10 fields, C layout upper bound = 400 *)
  | GenTail _ => 24 + 24 + 24 + 8
  end.

(* RawVec::grow_amortized *)
Definition min_non_zero_cap (sz : N) : N := if sz =? 1 then 8 else if sz <=? 1024 then 4 else 1.
Definition grow_cap (cap sz : N) : N := N.max (min_non_zero_cap sz) (N.max (2 * cap) (cap + 1)).

(* ---------- leaves ---------- *)
(* read_bytes(input, n)?.try_into().unwrap() *)
Definition t_array (n : nat) (bs : bytes) (a : N) (k : bytes -> bytes -> tres) : tres :=
  match read_bytes n bs with
  | None => TErr a
  | Some (b, r) => if (length b =? n)%nat then k b r else TPanic
  end.
(* read_bytes(input, 1)?[0] *)
Definition t_byte (bs : bytes) (a : N) (k : N -> bytes -> tres) : tres :=
  match read_bytes 1 bs with
  | None => TErr a
  | Some (b, r) => match b with x :: _ => k (b2n x) r | [] => TPanic end
  end.

Definition t_u (n : nat) (bs : bytes) (a : N) : tres := t_array n bs a (fun b r => TOk (VInt (u_of_bytes b)) r a).
Definition t_i (n : nat) (bs : bytes) (a : N) : tres := t_array n bs a (fun b r => TOk (VInt (i_of_bytes n b)) r a).
Definition t_u_n (n : nat) (bs : bytes) (a : N) (k : N -> bytes -> tres) : tres := t_array n bs a (fun b r => k (be2n b) r).

Definition t_bool (bs : bytes) (a : N) : tres :=
  t_byte bs a (fun x r => match x with 0 => TOk (VBool false) r a | 1 => TOk (VBool true) r a | _ => TErr a end).

Definition t_bytesn (n : nat) (bs : bytes) (a : N) : tres := t_array n bs a (fun b r => TOk (VBytes b) r a).

(* u32 length, read_bytes(len), to_vec *)
Definition t_lenpref (bs : bytes) (a : N) (k : bytes -> bytes -> N -> tres) : tres :=
  t_u_n 4 bs a (fun n r =>
    match read_bytes (N.to_nat (N.min n (nlen r + 1))) r with
    | None => TErr a
    | Some (b, r') => k b r' (a + nlen b)
    end).
Definition t_bytes (bs : bytes) (a : N) : tres := t_lenpref bs a (fun b r a' => TOk (VBytes b) r a').
Definition t_str (bs : bytes) (a : N) : tres :=
  t_u_n 4 bs a (fun n r =>
    match read_bytes (N.to_nat (N.min n (nlen r + 1))) r with
    | None => TErr a
    | Some (b, r') => if utf8_ok b then TOk (VBytes b) r' (a + nlen b) else TErr a
    end).

Definition t_g1 (O : oracles) (tr : bool) (bs : bytes) (a : N) : tres :=
  t_array 48 bs a (fun b r => if g1_ok O tr b then TOk (VBytes b) r a else TErr a).
Definition t_g2 (O : oracles) (tr : bool) (bs : bytes) (a : N) : tres :=
  t_array 96 bs a (fun b r => if g2_ok O tr b then TOk (VBytes b) r a else TErr a).
Definition t_sk (bs : bytes) (a : N) : tres :=
  t_array 32 bs a (fun b r => if sk_ok b then TOk (VBytes b) r a else TErr a).

(* the 1 MiB + 6 KiB scratch reserve of clvmr's Allocator is transient (freed when the length is known): at most
   one is alive at a time, so it is added ONCE to the reported peak (`scratch_reserve`) and not to the meter *)
Definition t_prog (O : oracles) (tr : bool) (bs : bytes) (a : N) : tres :=
  match prog_len O tr bs with
  | None => TErr (a + (if tr then 0 else clvm_per_byte * nlen bs))
  | Some n =>
      let a1 := a + (if tr then 0 else clvm_per_byte * N.min n (nlen bs)) in
      if nlen bs <? n then TErr a1
      else if n <=? nlen bs                                  (* buf[..len as usize] *)
           then TOk (VBytes (firstn (N.to_nat n) bs)) (skipn (N.to_nat n) bs) (a1 + n)
           else TPanic
  end.

Definition t_opt (dec : bytes -> N -> tres) (bs : bytes) (a : N) : tres :=
  t_byte bs a (fun x r =>
    match x with
    | 0 => TOk VNone r a
    | 1 => tbind (dec r a) (fun v r' a' => TOk (VSome v) r' a')
    | _ => TErr a
    end).

(* ---------- loops ---------- *)
Section Loops.
  Variable dec1 : bytes -> N -> tres.
  (* Vec<T>::parse push loop: n elements to go, `cnt` pushed so far, capacity `cap`, element size sz *)
  Fixpoint t_vec_loop (n : nat) (sz cap cnt : N) (acc : list value) (bs : bytes) (a : N) : tres :=
    match n with
    | O => TOk (VList (rev_append acc [])) bs a
    | S k =>
        match dec1 bs a with
        | TOk v r a1 =>
            if (sz =? 0) || (cnt <? cap) then t_vec_loop k sz cap (cnt + 1) (v :: acc) r a1
            else let cap' := grow_cap cap sz in t_vec_loop k sz cap' (cnt + 1) (v :: acc) r (a1 + cap' * sz)
        | TErr a1 => TErr a1
        | TPanic => TPanic
        end
    end.
  Fixpoint t_rep (n : nat) (acc : list value) (bs : bytes) (a : N) : tres :=   (* [T; N] *)
    match n with
    | O => TOk (VList (rev_append acc [])) bs a
    | S k => match dec1 bs a with
             | TOk v r a1 => t_rep k (v :: acc) r a1
             | TErr a1 => TErr a1
             | TPanic => TPanic
             end
    end.
End Loops.

Section Seqs.
  Variable dec : ty -> bytes -> N -> tres.
  Fixpoint t_seq (ts : list ty) (acc : list value) (bs : bytes) (a : N) : tres :=
    match ts with
    | [] => TOk (VList (rev_append acc [])) bs a
    | t :: ts' => match dec t bs a with
                  | TOk v r a1 => t_seq ts' (v :: acc) r a1
                  | TErr a1 => TErr a1
                  | TPanic => TPanic
                  end
    end.
  Fixpoint t_fields (fs : list (string * ty)) (acc : list value) (bs : bytes) (a : N) : tres :=
    match fs with
    | [] => TOk (VList (rev_append acc [])) bs a
    | f :: fs' => match dec (snd f) bs a with
                  | TOk v r a1 =>
                      match unpack (snd f) v with
                      | Some vs => t_fields fs' (rev_append vs acc) r a1
                      | None => TPanic          (* the custom codecs always return lists *)
                      end
                  | TErr a1 => TErr a1
                  | TPanic => TPanic
                  end
    end.
End Seqs.

Definition vec_cap0 (sz n : N) : N := if sz =? 0 then 0 else N.min (MiB2 / sz) n.

(* ---------- hand-written codecs ---------- *)
(* ProofOfSpace and the generator tail are sequences of the leaf parsers above; their meter is taken
   conservatively from the plain mirrors of Versioned.v: everything they retain (the proof bytes; the program
   copy, the Vec<u32> of references with its doubling, the raw buffer) is at most `fac` bytes per consumed
   byte, and on an error at most the whole remaining input plus one unbacked 2 MiB reservation *)
Definition gentail_fac : N := clvm_per_byte + 6.
Definition t_pos (O : oracles) (tr : bool) (bs : bytes) (a : N) : tres :=
  match dec_pos O tr bs with
  | Some (v, r) => TOk v r (a + (nlen bs - nlen r))
  | None => TErr (a + nlen bs)
  end.
Definition t_gentail (O : oracles) (tr : bool) (bs : bytes) (a : N) : tres :=
  match dec_gentail O tr bs with
  | Some (v, r) => TOk v r (a + gentail_fac * (nlen bs - nlen r))
  | None => TErr (a + MiB2 + gentail_fac * nlen bs)
  end.

(* ---------- the instrumented generic decoder ---------- *)
Fixpoint tdecode (O : oracles) (tr : bool) (t : ty) (bs : bytes) (a : N) {struct t} : tres :=
  match t with
  | U n => t_u n bs a
  | I n => t_i n bs a
  | Bool => t_bool bs a
  | BytesN n => t_bytesn n bs a
  | Bytes => t_bytes bs a
  | Str => t_str bs a
  | Opt x => t_opt (tdecode O tr x) bs a
  | Vec x =>
      t_u_n 4 bs a (fun n r =>
        let sz := mem_size x in
        let cap := vec_cap0 sz n in
        let a0 := a + cap * sz in                                   (* Vec::with_capacity *)
        (* the push loop runs until an element fails; when every element needs at least one byte
           it cannot get past nlen r + 1 iterations, so the counter is capped there (the elements
           parsed before the failure still allocate, as in the Rust) *)
        let fits := (min_size x =? 0) || (n <=? nlen r) in
        let n' := if fits then n else nlen r + 1 in
        match t_vec_loop (tdecode O tr x) (N.to_nat n') sz cap 0 [] r a0 with
        | TOk v r' a' => if fits then TOk v r' a' else TErr a'
        | other => other
        end)
  | Tup ts => t_seq (tdecode O tr) ts [] bs a
  | Arr n x => t_rep (tdecode O tr x) n [] bs a
  | Enum ds => t_u_n 1 bs a (fun n r => if existsb (N.eqb n) ds then TOk (VInt (Z.of_N n)) r a else TErr a)
  | Struct _ _ fs => t_fields (tdecode O tr) fs [] bs a
  | G1 => t_g1 O tr bs a
  | G2 => t_g2 O tr bs a
  | Sk => t_sk bs a
  | Prog => t_prog O tr bs a
  | Opt2 x y =>
      t_u_n 1 bs a (fun p r =>
        match p with
        | 0 => TOk (VList [VNone; VNone]) r a
        | 1 => tbind (tdecode O tr x r a) (fun v r1 a1 => TOk (VList [VSome v; VNone]) r1 a1)
        | 2 => tbind (tdecode O tr y r a) (fun w r1 a1 => TOk (VList [VNone; VSome w]) r1 a1)
        | 3 => tbind (tdecode O tr x r a) (fun v r1 a1 =>
               tbind (tdecode O tr y r1 a1) (fun w r2 a2 => TOk (VList [VSome v; VSome w]) r2 a2))
        | _ => TErr a
        end)
  | PoS => t_pos O tr bs a
  | GenTail _ => t_gentail O tr bs a
  end.

(* Streamable::from_bytes / from_bytes_unchecked with the meter *)
Inductive fres := FOk (v : value) (a : N) | FErr (a : N) | FPanic.
Definition t_from_bytes (O : oracles) (tr : bool) (t : ty) (bs : bytes) : fres :=
  match tdecode O tr t bs 0 with
  | TOk v [] a => FOk v a
  | TOk _ _ a => FErr a                      (* Error::InputTooLarge *)
  | TErr a => FErr a
  | TPanic => FPanic
  end.

(* ---------- the bound ---------- *)
(* nesting depth of vectors (each may hold one not-yet-backed 2 MiB reservation when parsing fails) *)
Fixpoint vdepth (t : ty) : N :=
  match t with
  | Vec a => 1 + vdepth a
  | Opt a | Arr _ a => vdepth a
  | Tup ts => fold_right (fun t acc => N.max (vdepth t) acc) 0 ts
  | Struct _ _ fs => fold_right (fun f acc => N.max (vdepth (snd f)) acc) 0 fs
  | Opt2 a b => N.max (vdepth a) (vdepth b)
  | GenTail _ => 1
  | _ => 0
  end.

(* bytes of memory per input byte along the most expensive path *)
(* a Vec buffer costs at most 7 element sizes per input byte of the vector: the up-front reservation is at most one
   slot per claimed element, RawVec doubling at most 4 slots per parsed element + 16, and every parsed element
   consumed at least one byte (see vec_ok) *)
Definition vec_ratio (a : ty) : N := 7 * mem_size a.
Fixpoint cfac (t : ty) : N :=
  match t with
  | Vec a => vec_ratio a + cfac a
  | Opt a | Arr _ a => cfac a
  | Tup ts => fold_right (fun t acc => N.max (cfac t) acc) 1 ts
  | Struct _ _ fs => fold_right (fun f acc => N.max (cfac (snd f)) acc) 1 fs
  | Opt2 a b => N.max (cfac a) (cfac b)
  | Prog => 1 + clvm_per_byte
  | GenTail _ => gentail_fac
  | _ => 1
  end.

Section HasProg.
  Variable p : ty -> bool.
  Fixpoint any_t (ts : list ty) : bool := match ts with [] => false | t :: r => p t || any_t r end.
  Fixpoint any_f (fs : list (string * ty)) : bool := match fs with [] => false | f :: r => p (snd f) || any_f r end.
End HasProg.
Fixpoint has_prog (t : ty) : bool :=
  match t with
  | Prog | GenTail _ => true
  | Opt a | Vec a | Arr _ a => has_prog a
  | Tup ts => any_t has_prog ts
  | Struct _ _ fs => any_f has_prog fs
  | Opt2 a b => has_prog a || has_prog b
  | _ => false
  end.
Definition scratch_reserve (tr : bool) (t : ty) : N := if negb tr && has_prog t then clvm_reserve else 0.

(* peak = meter + the one transient scratch reserve;  bound = one 2 MiB reservation per nesting level,
   one for the scratch reserve, and cfac bytes per input byte *)
Definition alloc_bound (t : ty) (len : N) : N := (vdepth t + 1) * MiB2 + cfac t * len.

Definition meter_of (x : tres) : N := match x with TOk _ _ a => a | TErr a => a | TPanic => 0 end.

(* side condition of the bound: every Vec element type either needs at least one input byte or occupies no memory
   (a zero-sized element type: Rust then never allocates, the model's mem_size is 0).  A Vec of an element type
   with an EMPTY encoding but NON-ZERO size would grow without consuming input; no such type exists in the universe
   (min_size t = 0 -> mem_size t = 0), the check below is the per-type computable form *)
Section VecOk.
  Variable p : ty -> bool.
  Fixpoint all_t (ts : list ty) : bool := match ts with [] => true | t :: r => p t && all_t r end.
  Fixpoint all_f (fs : list (string * ty)) : bool := match fs with [] => true | f :: r => p (snd f) && all_f r end.
End VecOk.
Fixpoint vec_ok (t : ty) : bool :=
  match t with
  | Vec a => ((1 <=? min_size a) || (mem_size a =? 0)) && vec_ok a
  | Opt a | Arr _ a => vec_ok a
  | Tup ts => all_t vec_ok ts
  | Struct _ _ fs => all_f vec_ok fs
  | Opt2 a b => vec_ok a && vec_ok b
  | _ => true
  end.

(* every Vec element type needs at least one input byte (otherwise four bytes of input decode to up to 2^32-1
   elements: no memory, but element count and decoding time are not bounded by the input length) *)
Fixpoint vec_elems_consume (t : ty) : bool :=
  match t with
  | Vec a => (1 <=? min_size a) && vec_elems_consume a
  | Opt a | Arr _ a => vec_elems_consume a
  | Tup ts => all_t vec_elems_consume ts
  | Struct _ _ fs => all_f vec_elems_consume fs
  | Opt2 a b => vec_elems_consume a && vec_elems_consume b
  | _ => true
  end.

(* ---------- witness of finding F-C14-1 ---------- *)
(* a v2 ProofOfSpace (prefix byte 0b11: contract puzzle hash present, version 1) with the infinity plot key and a
   one-byte proof: decodable in both modes, re-encodes to itself, and hash() panics when chia-pos2 finds no
   quality string (toy_oracles: quality = None) *)
Definition f_c14_1_witness : bytes :=
  repeat_byte 32 x00 ++ [x00] ++ [x03] ++ repeat_byte 32 x11 ++ (xc0 :: repeat_byte 47 x00)
  ++ [x00; x07; x01; x02] ++ [x00; x00; x00; x01; xaa].

Definition f_c14_1_value : value :=
  VList [VBytes (repeat_byte 32 x00); VNone; VSome (VBytes (repeat_byte 32 x11)); VBytes (xc0 :: repeat_byte 47 x00);
         VInt 1; VInt 7; VInt 1; VInt 2; VInt 0; VBytes [xaa]].

