(* Stream/TotalProofs.v — proofs about the instrumented decoder (C14). *)
From Coq Require Import String.
From ChiaV.Base Require Import Bytes.
From ChiaV.Stream Require Import Universe Versioned Codec Total.
Open Scope N_scope.

Lemma t_from_bytes_ok O tr t bs v a :
  t_from_bytes O tr t bs = FOk v a -> tdecode O tr t bs 0 = TOk v [] a.
Proof.
  unfold t_from_bytes. destruct (tdecode O tr t bs 0) as [v' r a'|a'|]; try discriminate.
  destruct r; [|discriminate]. now intros [= -> ->].
Qed.
