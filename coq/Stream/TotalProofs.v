(* Stream/TotalProofs.v — proofs about the instrumented decoder (C14):
     tdecode_spec          the instrumented decoder never takes a Panic branch, computes exactly what the plain
                           decoder computes, and its meter never decreases (by induction over the universe)
     digest_no_panic       update_digest on a well-formed value panics only for the class F-C14-1
     pos_hash_refuted      ... and that class is inhabited (the finding)
   plus consumed <= length, rejection of trailing / missing bytes, and the allocation facts that are proved. *)
From Coq Require Import String.
From ChiaV.Base Require Import Bytes.
From ChiaV.Stream Require Import Universe Versioned Codec CodecProofs Total ValText.
From ChiaV.Gen Require Import StreamTypes.
From Coq Require Import ZifyBool ZifyNat ZifyN.
Open Scope N_scope.
Local Opaque n2be.

Lemma t_from_bytes_ok O tr t bs v a :
  t_from_bytes O tr t bs = FOk v a -> tdecode O tr t bs 0 = TOk v [] a.
Proof.
  unfold t_from_bytes. destruct (tdecode O tr t bs 0) as [v' r a'|a'|]; try discriminate.
  destruct r; [|discriminate]. now intros [= -> ->].
Qed.

(* ================= part p14 ================= *)

(* the instrumented result refines the plain one, never panics, and the meter never decreases *)
Definition tspec (x : tres) (d : dres) (a : N) : Prop :=
  match x with
  | TOk v r a' => d = Some (v, r) /\ a <= a'
  | TErr a' => d = None /\ a <= a'
  | TPanic => False
  end.

Lemma tspec_bind x d a k (kd : value -> bytes -> dres) :
  tspec x d a ->
  (forall v r a', a <= a' -> tspec (k v r a') (kd v r) a') ->
  tspec (tbind x k) (match d with Some (v, r) => kd v r | None => None end) a.
Proof.
  destruct x as [v r a'|a'|]; cbn [tspec tbind]; [| |contradiction].
  - intros [-> Ha] Hk. specialize (Hk v r a' Ha). destruct (k v r a'); cbn [tspec] in *; intuition lia.
  - intros [-> Ha] _. auto.
Qed.

Lemma t_array_spec n bs a k (kd : bytes -> bytes -> dres) :
  (forall b r, length b = n -> tspec (k b r) (kd b r) a) ->
  tspec (t_array n bs a k) (match read_bytes n bs with Some (b, r) => kd b r | None => None end) a.
Proof.
  intros Hk. unfold t_array. destruct (read_bytes n bs) as [[b r]|] eqn:E; [|cbn; split; [reflexivity|lia]].
  apply read_bytes_spec in E as [_ Hl]. rewrite (proj2 (Nat.eqb_eq _ _) Hl). now apply Hk.
Qed.

Lemma t_byte_spec bs a k (kd : N -> bytes -> dres) :
  (forall x r, tspec (k x r) (kd x r) a) ->
  tspec (t_byte bs a k) (match read_bytes 1 bs with Some (b, r) => kd (be2n b) r | None => None end) a.
Proof.
  intros Hk. unfold t_byte. destruct (read_bytes 1 bs) as [[b r]|] eqn:E; [|cbn; split; [reflexivity|lia]].
  apply read_bytes_spec in E as [_ Hl]. destruct b as [|x [|y b]]; try discriminate. rewrite be2n_single. apply Hk.
Qed.

Lemma tspec_ok v r a : tspec (TOk v r a) (Some (v, r)) a.
Proof. cbn. split; [reflexivity|lia]. Qed.
Lemma tspec_err a : tspec (TErr a) None a.
Proof. cbn. split; [reflexivity|lia]. Qed.
Lemma tspec_weaken x d a a0 : a0 <= a -> tspec x d a -> tspec x d a0.
Proof. destruct x; cbn; intuition lia. Qed.

Lemma t_u_spec n bs a : tspec (t_u n bs a) (dec_u n bs) a.
Proof. unfold t_u, dec_u. apply (t_array_spec n bs a _ (fun b r => Some (VInt (u_of_bytes b), r))). intros. apply tspec_ok. Qed.
Lemma t_i_spec n bs a : tspec (t_i n bs a) (dec_i n bs) a.
Proof. unfold t_i, dec_i. apply (t_array_spec n bs a _ (fun b r => Some (VInt (i_of_bytes n b), r))). intros. apply tspec_ok. Qed.
Lemma t_u_n_spec n bs a k (kd : N -> bytes -> dres) :
  (forall x r, tspec (k x r) (kd x r) a) ->
  tspec (t_u_n n bs a k) (match dec_u_n n bs with Some (x, r) => kd x r | None => None end) a.
Proof.
  intros Hk. unfold t_u_n, dec_u_n. destruct (read_bytes n bs) as [[b r]|] eqn:E.
  - pose proof (t_array_spec n bs a (fun b r => k (be2n b) r) (fun b r => kd (be2n b) r) (fun b r _ => Hk (be2n b) r)) as H.
    now rewrite E in H.
  - pose proof (t_array_spec n bs a (fun b r => k (be2n b) r) (fun b r => kd (be2n b) r) (fun b r _ => Hk (be2n b) r)) as H.
    now rewrite E in H.
Qed.
Lemma t_bool_spec bs a : tspec (t_bool bs a) (dec_bool bs) a.
Proof.
  unfold t_bool, dec_bool.
  apply (t_byte_spec bs a _ (fun x r => match x with 0 => Some (VBool false, r) | 1 => Some (VBool true, r) | _ => None end)).
  intros x r. destruct x as [|[p|p|]]; try apply tspec_err; apply tspec_ok.
Qed.
Lemma t_bytesn_spec n bs a : tspec (t_bytesn n bs a) (dec_bytesn n bs) a.
Proof. unfold t_bytesn, dec_bytesn. apply (t_array_spec n bs a _ (fun b r => Some (VBytes b, r))). intros. apply tspec_ok. Qed.

Lemma t_bytes_spec bs a : tspec (t_bytes bs a) (dec_bytes bs) a.
Proof.
  unfold t_bytes, t_lenpref, dec_bytes, dec_lenpref.
  pose proof (t_u_n_spec 4 bs a
     (fun n r => match read_bytes (N.to_nat (N.min n (nlen r + 1))) r with None => TErr a | Some (b, r') => TOk (VBytes b) r' (a + nlen b) end)
     (fun n r => match read_bytes (N.to_nat (N.min n (nlen r + 1))) r with Some (b, r') => Some (VBytes b, r') | None => None end)) as H.
  destruct (dec_u_n 4 bs) as [[n r]|]; cbn in H |- *.
  - apply H. intros x r0. destruct (read_bytes _ r0) as [[b r']|]; cbn; split; try reflexivity; lia.
  - apply H. intros x r0. destruct (read_bytes _ r0) as [[b r']|]; cbn; split; try reflexivity; lia.
Qed.

Lemma t_str_spec bs a : tspec (t_str bs a) (dec_str bs) a.
Proof.
  unfold t_str, dec_str, dec_lenpref.
  pose proof (t_u_n_spec 4 bs a
     (fun n r => match read_bytes (N.to_nat (N.min n (nlen r + 1))) r with None => TErr a | Some (b, r') => if utf8_ok b then TOk (VBytes b) r' (a + nlen b) else TErr a end)
     (fun n r => match read_bytes (N.to_nat (N.min n (nlen r + 1))) r with Some (b, r') => if utf8_ok b then Some (VBytes b, r') else None | None => None end)) as H.
  destruct (dec_u_n 4 bs) as [[n r]|]; cbn in H |- *.
  - apply H. intros x r0. destruct (read_bytes _ r0) as [[b r']|]; [destruct (utf8_ok b)|]; cbn; split; try reflexivity; lia.
  - apply H. intros x r0. destruct (read_bytes _ r0) as [[b r']|]; [destruct (utf8_ok b)|]; cbn; split; try reflexivity; lia.
Qed.

Lemma t_g1_spec O tr bs a : tspec (t_g1 O tr bs a) (dec_g1 O tr bs) a.
Proof. unfold t_g1, dec_g1. apply (t_array_spec 48 bs a _ (fun b r => if g1_ok O tr b then Some (VBytes b, r) else None)). intros b r _. destruct (g1_ok O tr b); [apply tspec_ok|apply tspec_err]. Qed.
Lemma t_g2_spec O tr bs a : tspec (t_g2 O tr bs a) (dec_g2 O tr bs) a.
Proof. unfold t_g2, dec_g2. apply (t_array_spec 96 bs a _ (fun b r => if g2_ok O tr b then Some (VBytes b, r) else None)). intros b r _. destruct (g2_ok O tr b); [apply tspec_ok|apply tspec_err]. Qed.
Lemma t_sk_spec bs a : tspec (t_sk bs a) (dec_sk bs) a.
Proof. unfold t_sk, dec_sk. apply (t_array_spec 32 bs a _ (fun b r => if sk_ok b then Some (VBytes b, r) else None)). intros b r _. destruct (sk_ok b); [apply tspec_ok|apply tspec_err]. Qed.

Lemma t_prog_spec O tr bs a : tspec (t_prog O tr bs a) (dec_prog O tr bs) a.
Proof.
  unfold t_prog, dec_prog. destruct (prog_len O tr bs) as [n|]; [|cbn; split; [reflexivity|lia]].
  destruct (N.ltb_spec (nlen bs) n) as [Hlt|Hge].
  - destruct (N.leb_spec n (nlen bs)); [lia|]. cbn. split; [reflexivity|lia].
  - destruct (N.leb_spec n (nlen bs)); [|lia]. cbn. split; [reflexivity|lia].
Qed.

Lemma t_opt_spec (dec : bytes -> N -> tres) (d : bytes -> dres) bs a :
  (forall bs a, tspec (dec bs a) (d bs) a) -> tspec (t_opt dec bs a) (dec_opt d bs) a.
Proof.
  intros Hd. unfold t_opt, dec_opt.
  apply (t_byte_spec bs a _ (fun x r => match x with 0 => Some (VNone, r) | 1 => '(v, r') <- d r ;; Some (VSome v, r') | _ => None end)).
  intros x r.
  destruct x as [|[p|p|]]; try apply tspec_err; [apply tspec_ok|].
  pose proof (tspec_bind (dec r a) (d r) a (fun v r' a' => TOk (VSome v) r' a') (fun v r' => Some (VSome v, r')) (Hd r a)) as H.
  apply H. intros. apply tspec_ok.
Qed.

Lemma t_pos_spec O tr bs a : tspec (t_pos O tr bs a) (dec_pos O tr bs) a.
Proof. unfold t_pos. destruct (dec_pos O tr bs) as [[v r]|]; unfold tspec; split; try reflexivity; apply N.le_add_r. Qed.
Lemma t_gentail_spec O tr bs a : tspec (t_gentail O tr bs a) (dec_gentail O tr bs) a.
Proof. unfold t_gentail. destruct (dec_gentail O tr bs) as [[v r]|]; unfold tspec; split; try reflexivity; [apply N.le_add_r|rewrite <- N.add_assoc; apply N.le_add_r]. Qed.

(* ---------- loops ---------- *)
Lemma rev_append_nil {A} (l : list A) : rev_append l [] = rev l.
Proof. rewrite rev_append_rev. apply app_nil_r. Qed.

Definition tspec_l (x : tres) (d : option (list value * bytes)) (acc : list value) (a : N) : Prop :=
  match x with
  | TOk v r a' => exists l, d = Some (l, r) /\ v = VList (rev acc ++ l) /\ a <= a'
  | TErr a' => d = None /\ a <= a'
  | TPanic => False
  end.

Lemma t_vec_loop_spec dec1 d1 :
  (forall bs a, tspec (dec1 bs a) (d1 bs) a) ->
  forall n sz cap cnt acc bs a, tspec_l (t_vec_loop dec1 n sz cap cnt acc bs a) (dec_rep d1 n bs) acc a.
Proof.
  intros Hd. induction n as [|n IH]; intros sz cap cnt acc bs a; cbn [t_vec_loop dec_rep].
  - cbn. exists []. rewrite rev_append_nil, app_nil_r. repeat split; lia.
  - specialize (Hd bs a). destruct (dec1 bs a) as [v r a1|a1|]; cbn [tspec] in Hd; [| |contradiction].
    + destruct Hd as [-> Ha].
      destruct ((sz =? 0) || (cnt <? cap)).
      * specialize (IH sz cap (cnt + 1) (v :: acc) r a1).
        destruct (t_vec_loop dec1 n sz cap (cnt + 1) (v :: acc) r a1) as [v' r' a'|a'|]; cbn [tspec_l] in *; [| |contradiction].
        -- destruct IH as (l & -> & -> & Ha'). exists (v :: l). cbn [rev]. rewrite <- app_assoc. repeat split; lia.
        -- destruct IH as [-> Ha']. split; [reflexivity|lia].
      * specialize (IH sz (grow_cap cap sz) (cnt + 1) (v :: acc) r (a1 + grow_cap cap sz * sz)).
        destruct (t_vec_loop dec1 n sz (grow_cap cap sz) (cnt + 1) (v :: acc) r (a1 + grow_cap cap sz * sz)) as [v' r' a'|a'|]; cbn [tspec_l] in *; [| |contradiction].
        -- destruct IH as (l & -> & -> & Ha'). exists (v :: l). cbn [rev]. rewrite <- app_assoc. repeat split; lia.
        -- destruct IH as [-> Ha']. split; [reflexivity|lia].
    + destruct Hd as [-> Ha]. cbn. split; [reflexivity|lia].
Qed.

Lemma t_rep_spec dec1 d1 :
  (forall bs a, tspec (dec1 bs a) (d1 bs) a) ->
  forall n acc bs a, tspec_l (t_rep dec1 n acc bs a) (dec_rep d1 n bs) acc a.
Proof.
  intros Hd. induction n as [|n IH]; intros acc bs a; cbn [t_rep dec_rep].
  - cbn. exists []. rewrite rev_append_nil, app_nil_r. repeat split; lia.
  - specialize (Hd bs a). destruct (dec1 bs a) as [v r a1|a1|]; cbn [tspec] in Hd; [| |contradiction].
    + destruct Hd as [-> Ha]. specialize (IH (v :: acc) r a1).
      destruct (t_rep dec1 n (v :: acc) r a1) as [v' r' a'|a'|]; cbn [tspec_l] in *; [| |contradiction].
      * destruct IH as (l & -> & -> & Ha'). exists (v :: l). cbn [rev]. rewrite <- app_assoc. repeat split; lia.
      * destruct IH as [-> Ha']. split; [reflexivity|lia].
    + destruct Hd as [-> Ha]. cbn. split; [reflexivity|lia].
Qed.

Lemma t_seq_spec (dec : ty -> bytes -> N -> tres) (d : ty -> bytes -> dres) ts :
  Forall (fun t => forall bs a, tspec (dec t bs a) (d t bs) a) ts ->
  forall acc bs a, tspec_l (t_seq dec ts acc bs a) (dec_seq d ts bs) acc a.
Proof.
  induction 1 as [|t ts Ht _ IH]; intros acc bs a; cbn [t_seq dec_seq].
  - cbn. exists []. rewrite rev_append_nil, app_nil_r. repeat split; lia.
  - specialize (Ht bs a). destruct (dec t bs a) as [v r a1|a1|]; cbn [tspec] in Ht; [| |contradiction].
    + destruct Ht as [-> Ha]. specialize (IH (v :: acc) r a1).
      destruct (t_seq dec ts (v :: acc) r a1) as [v' r' a'|a'|]; cbn [tspec_l] in *; [| |contradiction].
      * destruct IH as (l & -> & -> & Ha'). exists (v :: l). cbn [rev]. rewrite <- app_assoc. repeat split; lia.
      * destruct IH as [-> Ha']. split; [reflexivity|lia].
    + destruct Ht as [-> Ha]. cbn. split; [reflexivity|lia].
Qed.

Lemma t_fields_spec (dec : ty -> bytes -> N -> tres) (d : ty -> bytes -> dres) fs :
  Forall (fun f => (forall bs a, tspec (dec (snd f) bs a) (d (snd f) bs) a) /\
                   (forall bs v r, d (snd f) bs = Some (v, r) -> exists vs, unpack (snd f) v = Some vs)) fs ->
  forall acc bs a, tspec_l (t_fields dec fs acc bs a) (dec_fields d fs bs) acc a.
Proof.
  induction 1 as [|f fs [Hf Hu] _ IH]; intros acc bs a; cbn [t_fields dec_fields].
  - cbn. exists []. rewrite rev_append_nil, app_nil_r. repeat split; lia.
  - specialize (Hf bs a). destruct (dec (snd f) bs a) as [v r a1|a1|]; cbn [tspec] in Hf; [| |contradiction].
    + destruct Hf as [Hd Ha]. rewrite Hd. destruct (Hu _ _ _ Hd) as (vs & Hvs). rewrite Hvs.
      specialize (IH (rev_append vs acc) r a1).
      destruct (t_fields dec fs (rev_append vs acc) r a1) as [v' r' a'|a'|]; cbn [tspec_l] in *; [| |contradiction].
      * destruct IH as (l & -> & -> & Ha'). exists (vs ++ l). rewrite rev_append_rev, rev_app_distr, rev_involutive, <- app_assoc.
        repeat split; lia.
      * destruct IH as [-> Ha']. split; [reflexivity|lia].
    + destruct Hf as [-> Ha]. cbn. split; [reflexivity|lia].
Qed.

(* ================= part p15 ================= *)

Lemma decode_unpack O tr t bs v r : decode O tr t bs = Some (v, r) -> exists vs, unpack t v = Some vs.
Proof.
  intros H. destruct t; try (eexists; reflexivity).
  - cbn [decode] in H. inv_as H p r1 Ep.
    destruct p as [|[[q|q|]|[q|q|]|]]; try discriminate H.
    + injection H as <- <-. eexists; reflexivity.
    + inv_as H x r2 Ex. inv_as H y r3 Ey. injection H as <- <-. eexists; reflexivity.
    + inv_as H y r2 Ey. injection H as <- <-. eexists; reflexivity.
    + inv_as H x r2 Ex. injection H as <- <-. eexists; reflexivity.
  - cbn [decode] in H. unfold dec_gentail in H. inv_as H p r1 Ep.
    destruct (p / 2 =? 0).
    + inv_as H g r2 Eg. inv_as H n r3 En. destruct (n * 4 <=? nlen r3); [|discriminate].
      inv_as H refs r4 Er. injection H as <- <-. eexists; reflexivity.
    + destruct (p / 2 =? 1); [|discriminate]. inv_as H b r2 Eb. injection H as <- <-. eexists; reflexivity.
Qed.

Section Total.
  Variable O : oracles.
  Variable tr : bool.

  Theorem tdecode_spec t : forall bs a, tspec (tdecode O tr t bs a) (decode O tr t bs) a.
  Proof.
    induction t using ty_ind'; intros bs a; cbn [tdecode decode].
    - apply t_u_spec.
    - apply t_i_spec.
    - apply t_bool_spec.
    - apply t_bytesn_spec.
    - apply t_bytes_spec.
    - apply t_str_spec.
    - apply t_opt_spec. exact IHt.
    - (* Vec *)
      apply (t_u_n_spec 4 bs a _ (fun n r => if (min_size t =? 0) || (n <=? nlen r)
                                             then '(l, r') <- dec_rep (decode O tr t) (N.to_nat n) r ;; Some (VList l, r') else None)).
      intros n r.
      set (fits := (min_size t =? 0) || (n <=? nlen r)).
      set (n' := if fits then n else nlen r + 1).
      pose proof (t_vec_loop_spec _ _ IHt (N.to_nat n') (mem_size t) (vec_cap0 (mem_size t) n) 0 [] r
                                  (a + vec_cap0 (mem_size t) n * mem_size t)) as Hl.
      destruct (t_vec_loop (tdecode O tr t) (N.to_nat n') (mem_size t) (vec_cap0 (mem_size t) n) 0 [] r
                           (a + vec_cap0 (mem_size t) n * mem_size t)) as [v r' a'|a'|]; cbn [tspec_l] in Hl; [| |contradiction].
      + destruct Hl as (l & Hd & -> & Ha). cbn [rev app]. unfold n' in Hd.
        destruct fits; [rewrite Hd|]; cbn; split; try reflexivity; lia.
      + destruct Hl as [Hd Ha]. unfold n' in Hd.
        destruct fits; [rewrite Hd|]; cbn; split; try reflexivity; lia.
    - (* Tup *)
      pose proof (t_seq_spec _ _ ts H [] bs a) as Hl.
      destruct (t_seq (tdecode O tr) ts [] bs a) as [v r' a'|a'|]; cbn [tspec_l] in Hl; [| |contradiction].
      + destruct Hl as (l & -> & -> & Ha). cbn. split; [reflexivity|lia].
      + destruct Hl as [-> Ha]. cbn. split; [reflexivity|lia].
    - (* Arr *)
      pose proof (t_rep_spec _ _ IHt n [] bs a) as Hl.
      destruct (t_rep (tdecode O tr t) n [] bs a) as [v r' a'|a'|]; cbn [tspec_l] in Hl; [| |contradiction].
      + destruct Hl as (l & -> & -> & Ha). cbn. split; [reflexivity|lia].
      + destruct Hl as [-> Ha]. cbn. split; [reflexivity|lia].
    - (* Enum *)
      apply (t_u_n_spec 1 bs a _ (fun n r => if existsb (N.eqb n) ds then Some (VInt (Z.of_N n), r) else None)).
      intros n r. destruct (existsb (N.eqb n) ds); [apply tspec_ok|apply tspec_err].
    - (* Struct *)
      assert (Hall : Forall (fun f => (forall bs a, tspec (tdecode O tr (snd f) bs a) (decode O tr (snd f) bs) a) /\
                                      (forall bs v r, decode O tr (snd f) bs = Some (v, r) -> exists vs, unpack (snd f) v = Some vs)) fs).
      { eapply Forall_impl; [|exact H]. intros f Hf. split; [exact Hf|]. intros. eapply decode_unpack; eauto. }
      pose proof (t_fields_spec _ _ fs Hall [] bs a) as Hl.
      destruct (t_fields (tdecode O tr) fs [] bs a) as [v r' a'|a'|]; cbn [tspec_l] in Hl; [| |contradiction].
      + destruct Hl as (l & -> & -> & Ha). cbn. split; [reflexivity|lia].
      + destruct Hl as [-> Ha]. cbn. split; [reflexivity|lia].
    - apply t_g1_spec.
    - apply t_g2_spec.
    - apply t_prog_spec.
    - apply t_sk_spec.
    - (* Opt2 *)
      apply (t_u_n_spec 1 bs a _ (fun p r =>
        match p with
        | 0 => Some (VList [VNone; VNone], r)
        | 1 => '(x, r1) <- decode O tr t1 r ;; Some (VList [VSome x; VNone], r1)
        | 2 => '(y, r1) <- decode O tr t2 r ;; Some (VList [VNone; VSome y], r1)
        | 3 => '(x, r1) <- decode O tr t1 r ;; '(y, r2) <- decode O tr t2 r1 ;; Some (VList [VSome x; VSome y], r2)
        | _ => None
        end)).
      intros p r. destruct p as [|[[q|q|]|[q|q|]|]]; try apply tspec_err.
      + apply tspec_ok.
      + apply (tspec_bind _ _ _ _ (fun x r1 => '(y, r2) <- decode O tr t2 r1 ;; Some (VList [VSome x; VSome y], r2)) (IHt1 r a)).
        intros x r1 a1 Ha1.
        apply (tspec_bind _ _ _ _ (fun y r2 => Some (VList [VSome x; VSome y], r2)) (IHt2 r1 a1)).
        intros. apply tspec_ok.
      + apply (tspec_bind _ _ _ _ (fun y r1 => Some (VList [VNone; VSome y], r1)) (IHt2 r a)). intros. apply tspec_ok.
      + apply (tspec_bind _ _ _ _ (fun x r1 => Some (VList [VSome x; VNone], r1)) (IHt1 r a)). intros. apply tspec_ok.
    - apply t_pos_spec.
    - apply t_gentail_spec.
  Qed.

  (* never a panic *)
  Corollary tdecode_no_panic t bs a : tdecode O tr t bs a <> TPanic.
  Proof. intros H. pose proof (tdecode_spec t bs a) as Hs. rewrite H in Hs. exact Hs. Qed.

  Corollary t_from_bytes_no_panic t bs : t_from_bytes O tr t bs <> FPanic.
  Proof.
    unfold t_from_bytes. pose proof (tdecode_spec t bs 0) as Hs.
    destruct (tdecode O tr t bs 0) as [v r a|a|]; [destruct r; discriminate|discriminate|contradiction].
  Qed.

  (* the instrumented decoder computes what the plain one computes *)
  Corollary tdecode_ok t bs a v r a' : tdecode O tr t bs a = TOk v r a' -> decode O tr t bs = Some (v, r).
  Proof. intros H. pose proof (tdecode_spec t bs a) as Hs. rewrite H in Hs. apply Hs. Qed.
  Corollary tdecode_err t bs a a' : tdecode O tr t bs a = TErr a' -> decode O tr t bs = None.
  Proof. intros H. pose proof (tdecode_spec t bs a) as Hs. rewrite H in Hs. apply Hs. Qed.

  Corollary t_from_bytes_ok_iff t bs v :
    (exists a, t_from_bytes O tr t bs = FOk v a) <-> from_bytes_gen O tr t bs = Some v.
  Proof.
    unfold t_from_bytes, from_bytes_gen. pose proof (tdecode_spec t bs 0) as Hs.
    destruct (tdecode O tr t bs 0) as [v' r a|a|]; cbn [tspec] in Hs; [| |contradiction].
    - destruct Hs as [-> _]. destruct r; split.
      + intros (a0 & [= -> _]). reflexivity.
      + intros [= ->]. now exists a.
      + intros (a0 & H). discriminate.
      + discriminate.
    - destruct Hs as [-> _]. split; [intros (a0 & H); discriminate|discriminate].
  Qed.
End Total.


(* ================= part p16 ================= *)

Definition np_spec (dig : value -> digres) (chk : value -> bool) (ex : value -> bool) : Prop :=
  forall v, chk v = true -> ex v = false -> exists b, dig v = DOk b.

Lemma dig_list_np dig1 chk1 ex1 :
  np_spec dig1 chk1 ex1 -> forall l, forallb chk1 l = true -> existsb ex1 l = false -> exists b, dig_list dig1 l = DOk b.
Proof.
  intros Hs. induction l as [|x l IH]; cbn [forallb existsb dig_list]; intros Hc Hx; [eexists; reflexivity|].
  apply andb_prop in Hc as [Hc1 Hc2]. apply orb_false_elim in Hx as [Hx1 Hx2].
  destruct (Hs x Hc1 Hx1) as (b1 & ->). destruct (IH Hc2 Hx2) as (b2 & ->). eexists; reflexivity.
Qed.

Lemma dig_seq_np (dig : ty -> value -> digres) chk ex ts :
  Forall (fun t => np_spec (dig t) (chk t) (ex t)) ts ->
  forall l, chk_seq chk ts l = true -> ex_seq ex ts l = false -> exists b, dig_seq dig ts l = DOk b.
Proof.
  induction 1 as [|t ts Ht _ IH]; intros [|x l]; cbn [chk_seq ex_seq dig_seq]; try discriminate; intros Hc Hx; try (eexists; reflexivity).
  apply andb_prop in Hc as [Hc1 Hc2]. apply orb_false_elim in Hx as [Hx1 Hx2].
  destruct (Ht x Hc1 Hx1) as (b1 & ->). destruct (IH l Hc2 Hx2) as (b2 & ->). eexists; reflexivity.
Qed.

Lemma dig_fields_np (dig : ty -> value -> digres) chk ex fs :
  Forall (fun f => np_spec (dig (snd f)) (chk (snd f)) (ex (snd f))) fs ->
  forall l, chk_fields chk fs l = true -> ex_fields ex fs l = false -> exists b, dig_fields dig fs l = DOk b.
Proof.
  induction 1 as [|f fs Hf _ IH]; intros l; cbn [chk_fields ex_fields dig_fields]; intros Hc Hx; [eexists; reflexivity|].
  destruct (pack (snd f) l) as [[v l']|]; [|discriminate].
  apply andb_prop in Hc as [Hc1 Hc2]. apply orb_false_elim in Hx as [Hx1 Hx2].
  destruct (Hf v Hc1 Hx1) as (b1 & ->). destruct (IH l' Hc2 Hx2) as (b2 & ->). eexists; reflexivity.
Qed.

Lemma dig_pos_np O tr : np_spec (dig_pos O) (wf_pos O tr) (pos_bad_quality O).
Proof.
  intros v Hw Hx. destruct (pos_is_v2 v) eqn:Ev.
  - destruct (dig_pos_v2 O tr v Hw Ev) as (head & pf & He & Hd). rewrite Hd.
    apply wf_pos_inv in Hw as (ch & pk & c & ppk & ver & pi & mg & st & sz & pf' & -> & _).
    cbn [pos_is_v2] in Ev. unfold pos_bad_quality in Hx. rewrite Ev, He in Hx. cbn [andb] in Hx.
    destruct (quality O (head ++ n2be 4 (nlen pf) ++ pf)); [eexists; reflexivity|discriminate].
  - destruct (pos_rt O tr v Hw) as (e & He & _). rewrite (dig_pos_v1 O tr v e Hw Ev He). eexists; reflexivity.
Qed.

Lemma dig_gentail_np O tr full v : wf_gentail O tr v = true -> exists b, dig_gentail full v = DOk b.
Proof.
  intros Hw.
  apply wf_gentail_inv in Hw as (gn & refs & buf & ver & -> & Hgn & Hok & Hrefs & Hbuf & Hver & Hsh).
  unfold dig_gentail. cbn [gentail_shape_ok] in Hsh.
  destruct (in_range_u1_cases ver Hver) as [-> | [-> | [E0 E1]]]; [| |rewrite E0, E1 in Hsh; discriminate].
  - replace (0 =? 0)%Z with true by reflexivity.
    destruct (enc_opt_bytes gn); [destruct (enc_u32s refs)|]; eexists; reflexivity.
  - replace (1 =? 0)%Z with false by reflexivity. replace (1 =? 1)%Z with true by reflexivity.
    destruct Hbuf as [-> | (l & -> & _)]; [eexists; reflexivity|]. destruct (bytes_of_ints l); eexists; reflexivity.
Qed.

Section Ops.
  Variable O : oracles.
  Variable tr : bool.

  Theorem digest_no_panic t : np_spec (digest O t) (wf O tr t) (has_bad_pos O t).
  Proof.
    unfold has_bad_pos.
    induction t using ty_ind'; intros v Hw Hx; cbn [wf has_pos digest] in *;
      try (destruct v; try discriminate; eexists; reflexivity).
    - (* Opt *) destruct v; try discriminate; cbn [wf_optval] in Hw; try (eexists; reflexivity).
      destruct (IHt v Hw Hx) as (b & ->). eexists; reflexivity.
    - (* Vec *) destruct v; try discriminate. apply andb_prop in Hw as [_ Hf].
      destruct (dig_list_np _ _ _ IHt l Hf Hx) as (b & ->). eexists; reflexivity.
    - (* Tup *) destruct v; try discriminate. eapply dig_seq_np; eauto.
    - (* Arr *) destruct v; try discriminate. apply andb_prop in Hw as [_ Hf]. eapply dig_list_np; eauto.
    - (* Struct *) destruct v; try discriminate. eapply dig_fields_np; eauto.
    - (* Opt2 *) destruct v; try discriminate. destruct l as [|oa [|ob [|? ?]]]; try discriminate.
      apply andb_prop in Hw as [Ha Hb]. apply orb_false_elim in Hx as [Hxa Hxb].
      destruct oa as [| | | |x|]; try discriminate; destruct ob as [| | | |y|]; try discriminate;
        cbn [wf_optval dig_optval] in *.
      + eexists; reflexivity.
      + destruct (IHt2 y Hb Hxb) as (b & ->). eexists; reflexivity.
      + destruct (IHt1 x Ha Hxa) as (b & ->). eexists; reflexivity.
      + destruct (IHt1 x Ha Hxa) as (b1 & ->). destruct (IHt2 y Hb Hxb) as (b2 & ->). eexists; reflexivity.
    - (* PoS *) eapply dig_pos_np; eauto.
    - (* GenTail *) eapply dig_gentail_np; eauto.
  Qed.
End Ops.

Lemma value_eqb_refl v : ValText.value_eqb v v = true.
Proof.
  revert v. fix IH 1. intros [z|b|b| |x|l]; cbn [ValText.value_eqb].
  - apply Z.eqb_refl.
  - now destruct b.
  - apply bytes_eqb_refl.
  - reflexivity.
  - apply IH.
  - induction l as [|x l IHl]; [reflexivity|]. rewrite (IH x). exact IHl.
Qed.

(* every operation a receiver performs on a decoded value completes, except hashing a value of the known class *)
Theorem ops_on_decoded_total O (Hs : prog_len_stable_hyp O) tr t bs v r :
  decode O tr t bs = Some (v, r) ->
  (exists e, encode t v = Some e) /\
  (has_bad_pos O t v = false -> exists b, digest O t v = DOk b) /\
  ValText.value_eqb v v = true.
Proof.
  intros H. apply (decode_sound O Hs) in H as (Hw & e & He & _).
  split; [now exists e|]. split; [|apply value_eqb_refl].
  intros Hx. now apply (digest_no_panic O tr t v Hw Hx).
Qed.

(* the known class is real: a decodable v2 proof of space without a quality string; hashing it panics *)
Lemma pos_hash_refuted :
  from_bytes toy_oracles PoS f_c14_1_witness = Some f_c14_1_value /\
  from_bytes_unchecked toy_oracles PoS f_c14_1_witness = Some f_c14_1_value /\
  encode PoS f_c14_1_value = Some f_c14_1_witness /\
  digest toy_oracles PoS f_c14_1_value = DPanic /\ has_bad_pos toy_oracles PoS f_c14_1_value = true.
Proof. vm_compute. repeat split; reflexivity. Qed.

(* ================= part p17 ================= *)
(* ================= consumed <= length; trailing / missing bytes ================= *)
Lemma consumed_le_length O (Hs : prog_len_stable_hyp O) tr t bs v r :
  decode O tr t bs = Some (v, r) -> nlen r <= nlen bs.
Proof. intros H. apply (decode_sound O Hs) in H as (_ & e & _ & ->). rewrite nlen_app. lia. Qed.

Lemma t_consumed_le_length O (Hs : prog_len_stable_hyp O) tr t bs a v r a' :
  tdecode O tr t bs a = TOk v r a' -> nlen r <= nlen bs.
Proof. intros H. apply tdecode_ok in H. eapply consumed_le_length; eauto. Qed.

Lemma t_trailing_rejected O (Hs : prog_len_stable_hyp O) (Hp : prog_len_pos_hyp O) tr t bs v a extra :
  t_from_bytes O tr t bs = FOk v a -> extra <> [] -> exists a', t_from_bytes O tr t (bs ++ extra) = FErr a'.
Proof.
  intros H Hx. assert (Hf : from_bytes_gen O tr t bs = Some v) by (apply t_from_bytes_ok_iff; eauto).
  pose proof (trailing_rejected O Hs Hp tr t bs v extra Hf Hx) as Hn.
  destruct (t_from_bytes O tr t (bs ++ extra)) as [v' a'|a'|] eqn:E.
  - assert (from_bytes_gen O tr t (bs ++ extra) = Some v') by (apply t_from_bytes_ok_iff; eauto). congruence.
  - eauto.
  - now apply t_from_bytes_no_panic in E.
Qed.

Lemma t_missing_rejected O (Hs : prog_len_stable_hyp O) (Hp : prog_len_pos_hyp O) tr t bs v a extra :
  t_from_bytes O tr t (bs ++ extra) = FOk v a -> extra <> [] -> exists a', t_from_bytes O tr t bs = FErr a'.
Proof.
  intros H Hx. assert (Hf : from_bytes_gen O tr t (bs ++ extra) = Some v) by (apply t_from_bytes_ok_iff; eauto).
  pose proof (missing_rejected O Hs Hp tr t bs v extra Hf Hx) as Hn.
  destruct (t_from_bytes O tr t bs) as [v' a'|a'|] eqn:E.
  - assert (from_bytes_gen O tr t bs = Some v') by (apply t_from_bytes_ok_iff; eauto). congruence.
  - eauto.
  - now apply t_from_bytes_no_panic in E.
Qed.

(* ================= allocation: what is proved ================= *)
(* Vec::with_capacity(min(2 MiB / size_of::<T>(), len)) never reserves more than 2 MiB, whatever length is claimed *)
Lemma vec_prealloc_bounded sz n : vec_cap0 sz n * sz <= MiB2 /\ vec_cap0 sz n <= n.
Proof.
  unfold vec_cap0. destruct (N.eqb_spec sz 0) as [->|Hz]; [split; lia|].
  split; [|lia].
  apply N.le_trans with (MiB2 / sz * sz).
  - apply N.mul_le_mono_r. lia.
  - rewrite N.mul_comm. apply N.mul_div_le. exact Hz.
Qed.

(* the allocating leaves retain at most what they consumed (Program: plus the per-byte scratch charge) *)
Lemma t_bytes_alloc bs a v r a' : t_bytes bs a = TOk v r a' -> a' + nlen r + 4 <= a + nlen bs.
Proof.
  intros H. pose proof (t_bytes_spec bs a) as Hs. rewrite H in Hs. destruct Hs as [Hd _].
  apply dec_bytes_spec in Hd as (b & -> & Hl & ->).
  unfold t_bytes, t_lenpref, t_u_n, t_array in H.
  rewrite read_bytes_app in H by apply n2be_length. rewrite n2be_length, Nat.eqb_refl in H.
  rewrite be2n_n2be in H by (change (256 ^ N.of_nat 4) with (pow256 4); rewrite <- u32_max_pow; lia).
  replace (N.to_nat (N.min (nlen b) (nlen (b ++ r) + 1))) with (length b) in H by (rewrite nlen_app; unfold nlen; lia).
  rewrite read_bytes_app in H by reflexivity. injection H as <-.
  rewrite !nlen_app, nlen_n2be. lia.
Qed.

Lemma t_prog_alloc O tr bs a v r a' :
  t_prog O tr bs a = TOk v r a' -> a' <= a + (1 + clvm_per_byte) * (nlen bs - nlen r) /\ nlen r <= nlen bs.
Proof.
  unfold t_prog. destruct (prog_len O tr bs) as [n|]; [|discriminate].
  destruct (N.ltb_spec (nlen bs) n); [discriminate|]. destruct (N.leb_spec n (nlen bs)); [|discriminate].
  intros [= <- <- <-].
  assert (Hr : nlen (skipn (N.to_nat n) bs) = nlen bs - n) by (unfold nlen; rewrite skipn_length; lia).
  rewrite Hr. split; [|lia]. replace (nlen bs - (nlen bs - n)) with n by lia.
  rewrite N.min_l by lia. destruct tr; lia.
Qed.

(* the 2 MiB of the model is the constant translated from chia-traits/src/streamable.rs on this run *)
Lemma vec_limit_translated : MiB2 = vec_prealloc_limit_bytes.
Proof. reflexivity. Qed.
