(* Stream/TotalProofs.v — proofs about the instrumented decoder (C14):
     tdecode_spec          the instrumented decoder never takes a Panic branch, computes exactly what the plain
                           decoder computes, and its meter never decreases (by induction over the universe)
     digest_no_panic       update_digest on a well-formed value panics only for the class F-C14-1
     pos_hash_refuted      ... and that class is inhabited (the finding)
   plus consumed <= length, rejection of trailing / missing bytes, and the allocation facts that are proved. *)
From Coq Require Import String.
From ChiaV.Base Require Import Bytes.
From ChiaV.Stream Require Import Universe Versioned Codec CodecProofs Total ValText.
From ChiaV.Gen Require Import StreamTypes.
From Coq Require Import ZifyBool ZifyNat ZifyN.
Open Scope N_scope.
Local Opaque n2be.

Lemma t_from_bytes_ok O tr t bs v a :
  t_from_bytes O tr t bs = FOk v a -> tdecode O tr t bs 0 = TOk v [] a.
Proof.
  unfold t_from_bytes. destruct (tdecode O tr t bs 0) as [v' r a'|a'|]; try discriminate.
  destruct r; [|discriminate]. now intros [= -> ->].
Qed.

(* ================= part p14 ================= *)

(* the instrumented result refines the plain one, never panics, and the meter never decreases *)
Definition tspec (x : tres) (d : dres) (a : N) : Prop :=
  match x with
  | TOk v r a' => d = Some (v, r) /\ a <= a'
  | TErr a' => d = None /\ a <= a'
  | TPanic => False
  end.

Lemma tspec_bind x d a k (kd : value -> bytes -> dres) :
  tspec x d a ->
  (forall v r a', a <= a' -> tspec (k v r a') (kd v r) a') ->
  tspec (tbind x k) (match d with Some (v, r) => kd v r | None => None end) a.
Proof.
  destruct x as [v r a'|a'|]; cbn [tspec tbind]; [| |contradiction].
  - intros [-> Ha] Hk. specialize (Hk v r a' Ha). destruct (k v r a'); cbn [tspec] in *; intuition lia.
  - intros [-> Ha] _. auto.
Qed.

Lemma t_array_spec n bs a k (kd : bytes -> bytes -> dres) :
  (forall b r, length b = n -> tspec (k b r) (kd b r) a) ->
  tspec (t_array n bs a k) (match read_bytes n bs with Some (b, r) => kd b r | None => None end) a.
Proof.
  intros Hk. unfold t_array. destruct (read_bytes n bs) as [[b r]|] eqn:E; [|cbn; split; [reflexivity|lia]].
  apply read_bytes_spec in E as [_ Hl]. rewrite (proj2 (Nat.eqb_eq _ _) Hl). now apply Hk.
Qed.

Lemma t_byte_spec bs a k (kd : N -> bytes -> dres) :
  (forall x r, tspec (k x r) (kd x r) a) ->
  tspec (t_byte bs a k) (match read_bytes 1 bs with Some (b, r) => kd (be2n b) r | None => None end) a.
Proof.
  intros Hk. unfold t_byte. destruct (read_bytes 1 bs) as [[b r]|] eqn:E; [|cbn; split; [reflexivity|lia]].
  apply read_bytes_spec in E as [_ Hl]. destruct b as [|x [|y b]]; try discriminate. rewrite be2n_single. apply Hk.
Qed.

Lemma tspec_ok v r a : tspec (TOk v r a) (Some (v, r)) a.
Proof. cbn. split; [reflexivity|lia]. Qed.
Lemma tspec_err a : tspec (TErr a) None a.
Proof. cbn. split; [reflexivity|lia]. Qed.
Lemma tspec_weaken x d a a0 : a0 <= a -> tspec x d a -> tspec x d a0.
Proof. destruct x; cbn; intuition lia. Qed.

Lemma t_u_spec n bs a : tspec (t_u n bs a) (dec_u n bs) a.
Proof. unfold t_u, dec_u. apply (t_array_spec n bs a _ (fun b r => Some (VInt (u_of_bytes b), r))). intros. apply tspec_ok. Qed.
Lemma t_i_spec n bs a : tspec (t_i n bs a) (dec_i n bs) a.
Proof. unfold t_i, dec_i. apply (t_array_spec n bs a _ (fun b r => Some (VInt (i_of_bytes n b), r))). intros. apply tspec_ok. Qed.
Lemma t_u_n_spec n bs a k (kd : N -> bytes -> dres) :
  (forall x r, tspec (k x r) (kd x r) a) ->
  tspec (t_u_n n bs a k) (match dec_u_n n bs with Some (x, r) => kd x r | None => None end) a.
Proof.
  intros Hk. unfold t_u_n, dec_u_n. destruct (read_bytes n bs) as [[b r]|] eqn:E.
  - pose proof (t_array_spec n bs a (fun b r => k (be2n b) r) (fun b r => kd (be2n b) r) (fun b r _ => Hk (be2n b) r)) as H.
    now rewrite E in H.
  - pose proof (t_array_spec n bs a (fun b r => k (be2n b) r) (fun b r => kd (be2n b) r) (fun b r _ => Hk (be2n b) r)) as H.
    now rewrite E in H.
Qed.
Lemma t_bool_spec bs a : tspec (t_bool bs a) (dec_bool bs) a.
Proof.
  unfold t_bool, dec_bool.
  apply (t_byte_spec bs a _ (fun x r => match x with 0 => Some (VBool false, r) | 1 => Some (VBool true, r) | _ => None end)).
  intros x r. destruct x as [|[p|p|]]; try apply tspec_err; apply tspec_ok.
Qed.
Lemma t_bytesn_spec n bs a : tspec (t_bytesn n bs a) (dec_bytesn n bs) a.
Proof. unfold t_bytesn, dec_bytesn. apply (t_array_spec n bs a _ (fun b r => Some (VBytes b, r))). intros. apply tspec_ok. Qed.

Lemma t_bytes_spec bs a : tspec (t_bytes bs a) (dec_bytes bs) a.
Proof.
  unfold t_bytes, t_lenpref, dec_bytes, dec_lenpref.
  pose proof (t_u_n_spec 4 bs a
     (fun n r => match read_bytes (N.to_nat (N.min n (nlen r + 1))) r with None => TErr a | Some (b, r') => TOk (VBytes b) r' (a + nlen b) end)
     (fun n r => match read_bytes (N.to_nat (N.min n (nlen r + 1))) r with Some (b, r') => Some (VBytes b, r') | None => None end)) as H.
  destruct (dec_u_n 4 bs) as [[n r]|]; cbn in H |- *.
  - apply H. intros x r0. destruct (read_bytes _ r0) as [[b r']|]; cbn; split; try reflexivity; lia.
  - apply H. intros x r0. destruct (read_bytes _ r0) as [[b r']|]; cbn; split; try reflexivity; lia.
Qed.

Lemma t_str_spec bs a : tspec (t_str bs a) (dec_str bs) a.
Proof.
  unfold t_str, dec_str, dec_lenpref.
  pose proof (t_u_n_spec 4 bs a
     (fun n r => match read_bytes (N.to_nat (N.min n (nlen r + 1))) r with None => TErr a | Some (b, r') => if utf8_ok b then TOk (VBytes b) r' (a + nlen b) else TErr a end)
     (fun n r => match read_bytes (N.to_nat (N.min n (nlen r + 1))) r with Some (b, r') => if utf8_ok b then Some (VBytes b, r') else None | None => None end)) as H.
  destruct (dec_u_n 4 bs) as [[n r]|]; cbn in H |- *.
  - apply H. intros x r0. destruct (read_bytes _ r0) as [[b r']|]; [destruct (utf8_ok b)|]; cbn; split; try reflexivity; lia.
  - apply H. intros x r0. destruct (read_bytes _ r0) as [[b r']|]; [destruct (utf8_ok b)|]; cbn; split; try reflexivity; lia.
Qed.

Lemma t_g1_spec O tr bs a : tspec (t_g1 O tr bs a) (dec_g1 O tr bs) a.
Proof. unfold t_g1, dec_g1. apply (t_array_spec 48 bs a _ (fun b r => if g1_ok O tr b then Some (VBytes b, r) else None)). intros b r _. destruct (g1_ok O tr b); [apply tspec_ok|apply tspec_err]. Qed.
Lemma t_g2_spec O tr bs a : tspec (t_g2 O tr bs a) (dec_g2 O tr bs) a.
Proof. unfold t_g2, dec_g2. apply (t_array_spec 96 bs a _ (fun b r => if g2_ok O tr b then Some (VBytes b, r) else None)). intros b r _. destruct (g2_ok O tr b); [apply tspec_ok|apply tspec_err]. Qed.
Lemma t_sk_spec bs a : tspec (t_sk bs a) (dec_sk bs) a.
Proof. unfold t_sk, dec_sk. apply (t_array_spec 32 bs a _ (fun b r => if sk_ok b then Some (VBytes b, r) else None)). intros b r _. destruct (sk_ok b); [apply tspec_ok|apply tspec_err]. Qed.

Lemma t_prog_spec O tr bs a : tspec (t_prog O tr bs a) (dec_prog O tr bs) a.
Proof.
  unfold t_prog, dec_prog. destruct (prog_len O tr bs) as [n|]; [|cbn; split; [reflexivity|lia]].
  destruct (N.ltb_spec (nlen bs) n) as [Hlt|Hge].
  - destruct (N.leb_spec n (nlen bs)); [lia|]. cbn. split; [reflexivity|lia].
  - destruct (N.leb_spec n (nlen bs)); [|lia]. cbn. split; [reflexivity|lia].
Qed.

Lemma t_opt_spec (dec : bytes -> N -> tres) (d : bytes -> dres) bs a :
  (forall bs a, tspec (dec bs a) (d bs) a) -> tspec (t_opt dec bs a) (dec_opt d bs) a.
Proof.
  intros Hd. unfold t_opt, dec_opt.
  apply (t_byte_spec bs a _ (fun x r => match x with 0 => Some (VNone, r) | 1 => '(v, r') <- d r ;; Some (VSome v, r') | _ => None end)).
  intros x r.
  destruct x as [|[p|p|]]; try apply tspec_err; [apply tspec_ok|].
  pose proof (tspec_bind (dec r a) (d r) a (fun v r' a' => TOk (VSome v) r' a') (fun v r' => Some (VSome v, r')) (Hd r a)) as H.
  apply H. intros. apply tspec_ok.
Qed.

Lemma t_pos_spec O tr bs a : tspec (t_pos O tr bs a) (dec_pos O tr bs) a.
Proof. unfold t_pos. destruct (dec_pos O tr bs) as [[v r]|]; unfold tspec; split; try reflexivity; apply N.le_add_r. Qed.
Lemma t_gentail_spec O tr bs a : tspec (t_gentail O tr bs a) (dec_gentail O tr bs) a.
Proof. unfold t_gentail. destruct (dec_gentail O tr bs) as [[v r]|]; unfold tspec; split; try reflexivity; [apply N.le_add_r|rewrite <- N.add_assoc; apply N.le_add_r]. Qed.

(* ---------- loops ---------- *)
Lemma rev_append_nil {A} (l : list A) : rev_append l [] = rev l.
Proof. rewrite rev_append_rev. apply app_nil_r. Qed.

Definition tspec_l (x : tres) (d : option (list value * bytes)) (acc : list value) (a : N) : Prop :=
  match x with
  | TOk v r a' => exists l, d = Some (l, r) /\ v = VList (rev acc ++ l) /\ a <= a'
  | TErr a' => d = None /\ a <= a'
  | TPanic => False
  end.

Lemma t_vec_loop_spec dec1 d1 :
  (forall bs a, tspec (dec1 bs a) (d1 bs) a) ->
  forall n sz cap cnt acc bs a, tspec_l (t_vec_loop dec1 n sz cap cnt acc bs a) (dec_rep d1 n bs) acc a.
Proof.
  intros Hd. induction n as [|n IH]; intros sz cap cnt acc bs a; cbn [t_vec_loop dec_rep].
  - cbn. exists []. rewrite rev_append_nil, app_nil_r. repeat split; lia.
  - specialize (Hd bs a). destruct (dec1 bs a) as [v r a1|a1|]; cbn [tspec] in Hd; [| |contradiction].
    + destruct Hd as [-> Ha].
      destruct ((sz =? 0) || (cnt <? cap)).
      * specialize (IH sz cap (cnt + 1) (v :: acc) r a1).
        destruct (t_vec_loop dec1 n sz cap (cnt + 1) (v :: acc) r a1) as [v' r' a'|a'|]; cbn [tspec_l] in *; [| |contradiction].
        -- destruct IH as (l & -> & -> & Ha'). exists (v :: l). cbn [rev]. rewrite <- app_assoc. repeat split; lia.
        -- destruct IH as [-> Ha']. split; [reflexivity|lia].
      * specialize (IH sz (grow_cap cap sz) (cnt + 1) (v :: acc) r (a1 + grow_cap cap sz * sz)).
        destruct (t_vec_loop dec1 n sz (grow_cap cap sz) (cnt + 1) (v :: acc) r (a1 + grow_cap cap sz * sz)) as [v' r' a'|a'|]; cbn [tspec_l] in *; [| |contradiction].
        -- destruct IH as (l & -> & -> & Ha'). exists (v :: l). cbn [rev]. rewrite <- app_assoc. repeat split; lia.
        -- destruct IH as [-> Ha']. split; [reflexivity|lia].
    + destruct Hd as [-> Ha]. cbn. split; [reflexivity|lia].
Qed.

Lemma t_rep_spec dec1 d1 :
  (forall bs a, tspec (dec1 bs a) (d1 bs) a) ->
  forall n acc bs a, tspec_l (t_rep dec1 n acc bs a) (dec_rep d1 n bs) acc a.
Proof.
  intros Hd. induction n as [|n IH]; intros acc bs a; cbn [t_rep dec_rep].
  - cbn. exists []. rewrite rev_append_nil, app_nil_r. repeat split; lia.
  - specialize (Hd bs a). destruct (dec1 bs a) as [v r a1|a1|]; cbn [tspec] in Hd; [| |contradiction].
    + destruct Hd as [-> Ha]. specialize (IH (v :: acc) r a1).
      destruct (t_rep dec1 n (v :: acc) r a1) as [v' r' a'|a'|]; cbn [tspec_l] in *; [| |contradiction].
      * destruct IH as (l & -> & -> & Ha'). exists (v :: l). cbn [rev]. rewrite <- app_assoc. repeat split; lia.
      * destruct IH as [-> Ha']. split; [reflexivity|lia].
    + destruct Hd as [-> Ha]. cbn. split; [reflexivity|lia].
Qed.

Lemma t_seq_spec (dec : ty -> bytes -> N -> tres) (d : ty -> bytes -> dres) ts :
  Forall (fun t => forall bs a, tspec (dec t bs a) (d t bs) a) ts ->
  forall acc bs a, tspec_l (t_seq dec ts acc bs a) (dec_seq d ts bs) acc a.
Proof.
  induction 1 as [|t ts Ht _ IH]; intros acc bs a; cbn [t_seq dec_seq].
  - cbn. exists []. rewrite rev_append_nil, app_nil_r. repeat split; lia.
  - specialize (Ht bs a). destruct (dec t bs a) as [v r a1|a1|]; cbn [tspec] in Ht; [| |contradiction].
    + destruct Ht as [-> Ha]. specialize (IH (v :: acc) r a1).
      destruct (t_seq dec ts (v :: acc) r a1) as [v' r' a'|a'|]; cbn [tspec_l] in *; [| |contradiction].
      * destruct IH as (l & -> & -> & Ha'). exists (v :: l). cbn [rev]. rewrite <- app_assoc. repeat split; lia.
      * destruct IH as [-> Ha']. split; [reflexivity|lia].
    + destruct Ht as [-> Ha]. cbn. split; [reflexivity|lia].
Qed.

Lemma t_fields_spec (dec : ty -> bytes -> N -> tres) (d : ty -> bytes -> dres) fs :
  Forall (fun f => (forall bs a, tspec (dec (snd f) bs a) (d (snd f) bs) a) /\
                   (forall bs v r, d (snd f) bs = Some (v, r) -> exists vs, unpack (snd f) v = Some vs)) fs ->
  forall acc bs a, tspec_l (t_fields dec fs acc bs a) (dec_fields d fs bs) acc a.
Proof.
  induction 1 as [|f fs [Hf Hu] _ IH]; intros acc bs a; cbn [t_fields dec_fields].
  - cbn. exists []. rewrite rev_append_nil, app_nil_r. repeat split; lia.
  - specialize (Hf bs a). destruct (dec (snd f) bs a) as [v r a1|a1|]; cbn [tspec] in Hf; [| |contradiction].
    + destruct Hf as [Hd Ha]. rewrite Hd. destruct (Hu _ _ _ Hd) as (vs & Hvs). rewrite Hvs.
      specialize (IH (rev_append vs acc) r a1).
      destruct (t_fields dec fs (rev_append vs acc) r a1) as [v' r' a'|a'|]; cbn [tspec_l] in *; [| |contradiction].
      * destruct IH as (l & -> & -> & Ha'). exists (vs ++ l). rewrite rev_append_rev, rev_app_distr, rev_involutive, <- app_assoc.
        repeat split; lia.
      * destruct IH as [-> Ha']. split; [reflexivity|lia].
    + destruct Hf as [-> Ha]. cbn. split; [reflexivity|lia].
Qed.

(* ================= part p15 ================= *)

Lemma decode_unpack O tr t bs v r : decode O tr t bs = Some (v, r) -> exists vs, unpack t v = Some vs.
Proof.
  intros H. destruct t; try (eexists; reflexivity).
  - cbn [decode] in H. inv_as H p r1 Ep.
    destruct p as [|[[q|q|]|[q|q|]|]]; try discriminate H.
    + injection H as <- <-. eexists; reflexivity.
    + inv_as H x r2 Ex. inv_as H y r3 Ey. injection H as <- <-. eexists; reflexivity.
    + inv_as H y r2 Ey. injection H as <- <-. eexists; reflexivity.
    + inv_as H x r2 Ex. injection H as <- <-. eexists; reflexivity.
  - cbn [decode] in H. unfold dec_gentail in H. inv_as H p r1 Ep.
    destruct (p / 2 =? 0).
    + inv_as H g r2 Eg. inv_as H n r3 En. destruct (n * 4 <=? nlen r3); [|discriminate].
      inv_as H refs r4 Er. injection H as <- <-. eexists; reflexivity.
    + destruct (p / 2 =? 1); [|discriminate]. inv_as H b r2 Eb. injection H as <- <-. eexists; reflexivity.
Qed.

Section Total.
  Variable O : oracles.
  Variable tr : bool.

  Theorem tdecode_spec t : forall bs a, tspec (tdecode O tr t bs a) (decode O tr t bs) a.
  Proof.
    induction t using ty_ind'; intros bs a; cbn [tdecode decode].
    - apply t_u_spec.
    - apply t_i_spec.
    - apply t_bool_spec.
    - apply t_bytesn_spec.
    - apply t_bytes_spec.
    - apply t_str_spec.
    - apply t_opt_spec. exact IHt.
    - (* Vec *)
      apply (t_u_n_spec 4 bs a _ (fun n r => if (min_size t =? 0) || (n <=? nlen r)
                                             then '(l, r') <- dec_rep (decode O tr t) (N.to_nat n) r ;; Some (VList l, r') else None)).
      intros n r.
      set (fits := (min_size t =? 0) || (n <=? nlen r)).
      set (n' := if fits then n else nlen r + 1).
      pose proof (t_vec_loop_spec _ _ IHt (N.to_nat n') (mem_size t) (vec_cap0 (mem_size t) n) 0 [] r
                                  (a + vec_cap0 (mem_size t) n * mem_size t)) as Hl.
      destruct (t_vec_loop (tdecode O tr t) (N.to_nat n') (mem_size t) (vec_cap0 (mem_size t) n) 0 [] r
                           (a + vec_cap0 (mem_size t) n * mem_size t)) as [v r' a'|a'|]; cbn [tspec_l] in Hl; [| |contradiction].
      + destruct Hl as (l & Hd & -> & Ha). cbn [rev app]. unfold n' in Hd.
        destruct fits; [rewrite Hd|]; cbn; split; try reflexivity; lia.
      + destruct Hl as [Hd Ha]. unfold n' in Hd.
        destruct fits; [rewrite Hd|]; cbn; split; try reflexivity; lia.
    - (* Tup *)
      pose proof (t_seq_spec _ _ ts H [] bs a) as Hl.
      destruct (t_seq (tdecode O tr) ts [] bs a) as [v r' a'|a'|]; cbn [tspec_l] in Hl; [| |contradiction].
      + destruct Hl as (l & -> & -> & Ha). cbn. split; [reflexivity|lia].
      + destruct Hl as [-> Ha]. cbn. split; [reflexivity|lia].
    - (* Arr *)
      pose proof (t_rep_spec _ _ IHt n [] bs a) as Hl.
      destruct (t_rep (tdecode O tr t) n [] bs a) as [v r' a'|a'|]; cbn [tspec_l] in Hl; [| |contradiction].
      + destruct Hl as (l & -> & -> & Ha). cbn. split; [reflexivity|lia].
      + destruct Hl as [-> Ha]. cbn. split; [reflexivity|lia].
    - (* Enum *)
      apply (t_u_n_spec 1 bs a _ (fun n r => if existsb (N.eqb n) ds then Some (VInt (Z.of_N n), r) else None)).
      intros n r. destruct (existsb (N.eqb n) ds); [apply tspec_ok|apply tspec_err].
    - (* Struct *)
      assert (Hall : Forall (fun f => (forall bs a, tspec (tdecode O tr (snd f) bs a) (decode O tr (snd f) bs) a) /\
                                      (forall bs v r, decode O tr (snd f) bs = Some (v, r) -> exists vs, unpack (snd f) v = Some vs)) fs).
      { eapply Forall_impl; [|exact H]. intros f Hf. split; [exact Hf|]. intros. eapply decode_unpack; eauto. }
      pose proof (t_fields_spec _ _ fs Hall [] bs a) as Hl.
      destruct (t_fields (tdecode O tr) fs [] bs a) as [v r' a'|a'|]; cbn [tspec_l] in Hl; [| |contradiction].
      + destruct Hl as (l & -> & -> & Ha). cbn. split; [reflexivity|lia].
      + destruct Hl as [-> Ha]. cbn. split; [reflexivity|lia].
    - apply t_g1_spec.
    - apply t_g2_spec.
    - apply t_prog_spec.
    - apply t_sk_spec.
    - (* Opt2 *)
      apply (t_u_n_spec 1 bs a _ (fun p r =>
        match p with
        | 0 => Some (VList [VNone; VNone], r)
        | 1 => '(x, r1) <- decode O tr t1 r ;; Some (VList [VSome x; VNone], r1)
        | 2 => '(y, r1) <- decode O tr t2 r ;; Some (VList [VNone; VSome y], r1)
        | 3 => '(x, r1) <- decode O tr t1 r ;; '(y, r2) <- decode O tr t2 r1 ;; Some (VList [VSome x; VSome y], r2)
        | _ => None
        end)).
      intros p r. destruct p as [|[[q|q|]|[q|q|]|]]; try apply tspec_err.
      + apply tspec_ok.
      + apply (tspec_bind _ _ _ _ (fun x r1 => '(y, r2) <- decode O tr t2 r1 ;; Some (VList [VSome x; VSome y], r2)) (IHt1 r a)).
        intros x r1 a1 Ha1.
        apply (tspec_bind _ _ _ _ (fun y r2 => Some (VList [VSome x; VSome y], r2)) (IHt2 r1 a1)).
        intros. apply tspec_ok.
      + apply (tspec_bind _ _ _ _ (fun y r1 => Some (VList [VNone; VSome y], r1)) (IHt2 r a)). intros. apply tspec_ok.
      + apply (tspec_bind _ _ _ _ (fun x r1 => Some (VList [VSome x; VNone], r1)) (IHt1 r a)). intros. apply tspec_ok.
    - apply t_pos_spec.
    - apply t_gentail_spec.
  Qed.

  (* never a panic *)
  Corollary tdecode_no_panic t bs a : tdecode O tr t bs a <> TPanic.
  Proof. intros H. pose proof (tdecode_spec t bs a) as Hs. rewrite H in Hs. exact Hs. Qed.

  Corollary t_from_bytes_no_panic t bs : t_from_bytes O tr t bs <> FPanic.
  Proof.
    unfold t_from_bytes. pose proof (tdecode_spec t bs 0) as Hs.
    destruct (tdecode O tr t bs 0) as [v r a|a|]; [destruct r; discriminate|discriminate|contradiction].
  Qed.

  (* the instrumented decoder computes what the plain one computes *)
  Corollary tdecode_ok t bs a v r a' : tdecode O tr t bs a = TOk v r a' -> decode O tr t bs = Some (v, r).
  Proof. intros H. pose proof (tdecode_spec t bs a) as Hs. rewrite H in Hs. apply Hs. Qed.
  Corollary tdecode_err t bs a a' : tdecode O tr t bs a = TErr a' -> decode O tr t bs = None.
  Proof. intros H. pose proof (tdecode_spec t bs a) as Hs. rewrite H in Hs. apply Hs. Qed.

  Corollary t_from_bytes_ok_iff t bs v :
    (exists a, t_from_bytes O tr t bs = FOk v a) <-> from_bytes_gen O tr t bs = Some v.
  Proof.
    unfold t_from_bytes, from_bytes_gen. pose proof (tdecode_spec t bs 0) as Hs.
    destruct (tdecode O tr t bs 0) as [v' r a|a|]; cbn [tspec] in Hs; [| |contradiction].
    - destruct Hs as [-> _]. destruct r; split.
      + intros (a0 & [= -> _]). reflexivity.
      + intros [= ->]. now exists a.
      + intros (a0 & H). discriminate.
      + discriminate.
    - destruct Hs as [-> _]. split; [intros (a0 & H); discriminate|discriminate].
  Qed.
End Total.


(* ================= part p16 ================= *)

Definition np_spec (dig : value -> digres) (chk : value -> bool) (ex : value -> bool) : Prop :=
  forall v, chk v = true -> ex v = false -> exists b, dig v = DOk b.

Lemma dig_list_np dig1 chk1 ex1 :
  np_spec dig1 chk1 ex1 -> forall l, forallb chk1 l = true -> existsb ex1 l = false -> exists b, dig_list dig1 l = DOk b.
Proof.
  intros Hs. induction l as [|x l IH]; cbn [forallb existsb dig_list]; intros Hc Hx; [eexists; reflexivity|].
  apply andb_prop in Hc as [Hc1 Hc2]. apply orb_false_elim in Hx as [Hx1 Hx2].
  destruct (Hs x Hc1 Hx1) as (b1 & ->). destruct (IH Hc2 Hx2) as (b2 & ->). eexists; reflexivity.
Qed.

Lemma dig_seq_np (dig : ty -> value -> digres) chk ex ts :
  Forall (fun t => np_spec (dig t) (chk t) (ex t)) ts ->
  forall l, chk_seq chk ts l = true -> ex_seq ex ts l = false -> exists b, dig_seq dig ts l = DOk b.
Proof.
  induction 1 as [|t ts Ht _ IH]; intros [|x l]; cbn [chk_seq ex_seq dig_seq]; try discriminate; intros Hc Hx; try (eexists; reflexivity).
  apply andb_prop in Hc as [Hc1 Hc2]. apply orb_false_elim in Hx as [Hx1 Hx2].
  destruct (Ht x Hc1 Hx1) as (b1 & ->). destruct (IH l Hc2 Hx2) as (b2 & ->). eexists; reflexivity.
Qed.

Lemma dig_fields_np (dig : ty -> value -> digres) chk ex fs :
  Forall (fun f => np_spec (dig (snd f)) (chk (snd f)) (ex (snd f))) fs ->
  forall l, chk_fields chk fs l = true -> ex_fields ex fs l = false -> exists b, dig_fields dig fs l = DOk b.
Proof.
  induction 1 as [|f fs Hf _ IH]; intros l; cbn [chk_fields ex_fields dig_fields]; intros Hc Hx; [eexists; reflexivity|].
  destruct (pack (snd f) l) as [[v l']|]; [|discriminate].
  apply andb_prop in Hc as [Hc1 Hc2]. apply orb_false_elim in Hx as [Hx1 Hx2].
  destruct (Hf v Hc1 Hx1) as (b1 & ->). destruct (IH l' Hc2 Hx2) as (b2 & ->). eexists; reflexivity.
Qed.

Lemma dig_pos_np O tr : np_spec (dig_pos O) (wf_pos O tr) (pos_bad_quality O).
Proof.
  intros v Hw Hx. destruct (pos_is_v2 v) eqn:Ev.
  - destruct (dig_pos_v2 O tr v Hw Ev) as (head & pf & He & Hd). rewrite Hd.
    apply wf_pos_inv in Hw as (ch & pk & c & ppk & ver & pi & mg & st & sz & pf' & -> & _).
    cbn [pos_is_v2] in Ev. unfold pos_bad_quality in Hx. rewrite Ev, He in Hx. cbn [andb] in Hx.
    destruct (quality O (head ++ n2be 4 (nlen pf) ++ pf)); [eexists; reflexivity|discriminate].
  - destruct (pos_rt O tr v Hw) as (e & He & _). rewrite (dig_pos_v1 O tr v e Hw Ev He). eexists; reflexivity.
Qed.

Lemma dig_gentail_np O tr full v : wf_gentail O tr v = true -> exists b, dig_gentail full v = DOk b.
Proof.
  intros Hw.
  apply wf_gentail_inv in Hw as (gn & refs & buf & ver & -> & Hgn & Hok & Hrefs & Hbuf & Hver & Hsh).
  unfold dig_gentail. cbn [gentail_shape_ok] in Hsh.
  destruct (in_range_u1_cases ver Hver) as [-> | [-> | [E0 E1]]]; [| |rewrite E0, E1 in Hsh; discriminate].
  - replace (0 =? 0)%Z with true by reflexivity.
    destruct (enc_opt_bytes gn); [destruct (enc_u32s refs)|]; eexists; reflexivity.
  - replace (1 =? 0)%Z with false by reflexivity. replace (1 =? 1)%Z with true by reflexivity.
    destruct Hbuf as [-> | (l & -> & _)]; [eexists; reflexivity|]. destruct (bytes_of_ints l); eexists; reflexivity.
Qed.

Section Ops.
  Variable O : oracles.
  Variable tr : bool.

  Theorem digest_no_panic t : np_spec (digest O t) (wf O tr t) (has_bad_pos O t).
  Proof.
    unfold has_bad_pos.
    induction t using ty_ind'; intros v Hw Hx; cbn [wf has_pos digest] in *;
      try (destruct v; try discriminate; eexists; reflexivity).
    - (* Opt *) destruct v; try discriminate; cbn [wf_optval] in Hw; try (eexists; reflexivity).
      destruct (IHt v Hw Hx) as (b & ->). eexists; reflexivity.
    - (* Vec *) destruct v; try discriminate. apply andb_prop in Hw as [_ Hf].
      destruct (dig_list_np _ _ _ IHt l Hf Hx) as (b & ->). eexists; reflexivity.
    - (* Tup *) destruct v; try discriminate. eapply dig_seq_np; eauto.
    - (* Arr *) destruct v; try discriminate. apply andb_prop in Hw as [_ Hf]. eapply dig_list_np; eauto.
    - (* Struct *) destruct v; try discriminate. eapply dig_fields_np; eauto.
    - (* Opt2 *) destruct v; try discriminate. destruct l as [|oa [|ob [|? ?]]]; try discriminate.
      apply andb_prop in Hw as [Ha Hb]. apply orb_false_elim in Hx as [Hxa Hxb].
      destruct oa as [| | | |x|]; try discriminate; destruct ob as [| | | |y|]; try discriminate;
        cbn [wf_optval dig_optval] in *.
      + eexists; reflexivity.
      + destruct (IHt2 y Hb Hxb) as (b & ->). eexists; reflexivity.
      + destruct (IHt1 x Ha Hxa) as (b & ->). eexists; reflexivity.
      + destruct (IHt1 x Ha Hxa) as (b1 & ->). destruct (IHt2 y Hb Hxb) as (b2 & ->). eexists; reflexivity.
    - (* PoS *) eapply dig_pos_np; eauto.
    - (* GenTail *) eapply dig_gentail_np; eauto.
  Qed.
End Ops.

Lemma value_eqb_refl v : ValText.value_eqb v v = true.
Proof.
  revert v. fix IH 1. intros [z|b|b| |x|l]; cbn [ValText.value_eqb].
  - apply Z.eqb_refl.
  - now destruct b.
  - apply bytes_eqb_refl.
  - reflexivity.
  - apply IH.
  - induction l as [|x l IHl]; [reflexivity|]. rewrite (IH x). exact IHl.
Qed.

(* every operation a receiver performs on a decoded value completes, except hashing a value of the known class *)
Theorem ops_on_decoded_total O (Hs : prog_len_stable_hyp O) tr t bs v r :
  decode O tr t bs = Some (v, r) ->
  (exists e, encode t v = Some e) /\
  (has_bad_pos O t v = false -> exists b, digest O t v = DOk b) /\
  ValText.value_eqb v v = true.
Proof.
  intros H. apply (decode_sound O Hs) in H as (Hw & e & He & _).
  split; [now exists e|]. split; [|apply value_eqb_refl].
  intros Hx. now apply (digest_no_panic O tr t v Hw Hx).
Qed.

(* the known class is real: a decodable v2 proof of space without a quality string; hashing it panics *)
Lemma pos_hash_refuted :
  from_bytes toy_oracles PoS f_c14_1_witness = Some f_c14_1_value /\
  from_bytes_unchecked toy_oracles PoS f_c14_1_witness = Some f_c14_1_value /\
  encode PoS f_c14_1_value = Some f_c14_1_witness /\
  digest toy_oracles PoS f_c14_1_value = DPanic /\ has_bad_pos toy_oracles PoS f_c14_1_value = true.
Proof. vm_compute. repeat split; reflexivity. Qed.

(* ================= part p17 ================= *)
(* ================= consumed <= length; trailing / missing bytes ================= *)
Lemma consumed_le_length O (Hs : prog_len_stable_hyp O) tr t bs v r :
  decode O tr t bs = Some (v, r) -> nlen r <= nlen bs.
Proof. intros H. apply (decode_sound O Hs) in H as (_ & e & _ & ->). rewrite nlen_app. lia. Qed.

Lemma t_consumed_le_length O (Hs : prog_len_stable_hyp O) tr t bs a v r a' :
  tdecode O tr t bs a = TOk v r a' -> nlen r <= nlen bs.
Proof. intros H. apply tdecode_ok in H. eapply consumed_le_length; eauto. Qed.

Lemma t_trailing_rejected O (Hs : prog_len_stable_hyp O) (Hp : prog_len_pos_hyp O) tr t bs v a extra :
  t_from_bytes O tr t bs = FOk v a -> extra <> [] -> exists a', t_from_bytes O tr t (bs ++ extra) = FErr a'.
Proof.
  intros H Hx. assert (Hf : from_bytes_gen O tr t bs = Some v) by (apply t_from_bytes_ok_iff; eauto).
  pose proof (trailing_rejected O Hs Hp tr t bs v extra Hf Hx) as Hn.
  destruct (t_from_bytes O tr t (bs ++ extra)) as [v' a'|a'|] eqn:E.
  - assert (from_bytes_gen O tr t (bs ++ extra) = Some v') by (apply t_from_bytes_ok_iff; eauto). congruence.
  - eauto.
  - now apply t_from_bytes_no_panic in E.
Qed.

Lemma t_missing_rejected O (Hs : prog_len_stable_hyp O) (Hp : prog_len_pos_hyp O) tr t bs v a extra :
  t_from_bytes O tr t (bs ++ extra) = FOk v a -> extra <> [] -> exists a', t_from_bytes O tr t bs = FErr a'.
Proof.
  intros H Hx. assert (Hf : from_bytes_gen O tr t (bs ++ extra) = Some v) by (apply t_from_bytes_ok_iff; eauto).
  pose proof (missing_rejected O Hs Hp tr t bs v extra Hf Hx) as Hn.
  destruct (t_from_bytes O tr t bs) as [v' a'|a'|] eqn:E.
  - assert (from_bytes_gen O tr t bs = Some v') by (apply t_from_bytes_ok_iff; eauto). congruence.
  - eauto.
  - now apply t_from_bytes_no_panic in E.
Qed.

(* ================= allocation: what is proved ================= *)
(* Vec::with_capacity(min(2 MiB / size_of::<T>(), len)) never reserves more than 2 MiB, whatever length is claimed *)
Lemma vec_prealloc_bounded sz n : vec_cap0 sz n * sz <= MiB2 /\ vec_cap0 sz n <= n.
Proof.
  unfold vec_cap0. destruct (N.eqb_spec sz 0) as [->|Hz]; [split; lia|].
  split; [|lia].
  apply N.le_trans with (MiB2 / sz * sz).
  - apply N.mul_le_mono_r. lia.
  - rewrite N.mul_comm. apply N.mul_div_le. exact Hz.
Qed.

(* the allocating leaves retain at most what they consumed (Program: plus the per-byte scratch charge) *)
Lemma t_bytes_alloc bs a v r a' : t_bytes bs a = TOk v r a' -> a' + nlen r + 4 <= a + nlen bs.
Proof.
  intros H. pose proof (t_bytes_spec bs a) as Hs. rewrite H in Hs. destruct Hs as [Hd _].
  apply dec_bytes_spec in Hd as (b & -> & Hl & ->).
  unfold t_bytes, t_lenpref, t_u_n, t_array in H.
  rewrite read_bytes_app in H by apply n2be_length. rewrite n2be_length, Nat.eqb_refl in H.
  rewrite be2n_n2be in H by (change (256 ^ N.of_nat 4) with (pow256 4); rewrite <- u32_max_pow; lia).
  replace (N.to_nat (N.min (nlen b) (nlen (b ++ r) + 1))) with (length b) in H by (rewrite nlen_app; unfold nlen; lia).
  rewrite read_bytes_app in H by reflexivity. injection H as <-.
  rewrite !nlen_app, nlen_n2be. lia.
Qed.

Lemma t_prog_alloc O tr bs a v r a' :
  t_prog O tr bs a = TOk v r a' -> a' <= a + (1 + clvm_per_byte) * (nlen bs - nlen r) /\ nlen r <= nlen bs.
Proof.
  unfold t_prog. destruct (prog_len O tr bs) as [n|]; [|discriminate].
  destruct (N.ltb_spec (nlen bs) n); [discriminate|]. destruct (N.leb_spec n (nlen bs)); [|discriminate].
  intros [= <- <- <-].
  assert (Hr : nlen (skipn (N.to_nat n) bs) = nlen bs - n) by (unfold nlen; rewrite skipn_length; lia).
  rewrite Hr. split; [|lia]. replace (nlen bs - (nlen bs - n)) with n by lia.
  rewrite N.min_l by lia. destruct tr; lia.
Qed.

(* the 2 MiB of the model is the constant translated from chia-traits/src/streamable.rs on this run *)
Lemma vec_limit_translated : MiB2 = vec_prealloc_limit_bytes.
Proof. reflexivity. Qed.

(* ================= allocation bound, part a1 ================= *)

(* allocation invariant of one instrumented decoding step:
   c bytes of memory per consumed byte, d unbacked 2 MiB reservations on failure, at least m bytes consumed *)
Definition aspec (x : tres) (bs : bytes) (a c d m : N) : Prop :=
  match x with
  | TOk v r a' => nlen r + m <= nlen bs /\ a' <= a + c * (nlen bs - nlen r)
  | TErr a' => a' <= a + c * nlen bs + d * MiB2
  | TPanic => True
  end.

Lemma aspec_weaken x bs a c d m c' d' m' :
  aspec x bs a c d m -> c <= c' -> d <= d' -> m' <= m -> aspec x bs a c' d' m'.
Proof.
  destruct x as [v r a'|a'|]; cbn [aspec]; [| |auto].
  - intros [H1 H2] Hc Hd Hm. split; [lia|]. apply N.le_trans with (a + c * (nlen bs - nlen r)); [exact H2|].
    apply N.add_le_mono_l. apply N.mul_le_mono_r. exact Hc.
  - intros H Hc Hd Hm. apply N.le_trans with (a + c * nlen bs + d * MiB2); [exact H|].
    apply N.add_le_mono; [apply N.add_le_mono_l; apply N.mul_le_mono_r; exact Hc|apply N.mul_le_mono_r; exact Hd].
Qed.

Lemma aspec_err bs a c d m : aspec (TErr a) bs a c d m.
Proof. cbn [aspec]. rewrite <- N.add_assoc. apply N.le_add_r. Qed.
Lemma aspec_ok_same v r bs a c d m : nlen r + m <= nlen bs -> aspec (TOk v r a) bs a c d m.
Proof. cbn [aspec]. intros H. split; [exact H|apply N.le_add_r]. Qed.

Lemma t_array_cases n bs a k :
  t_array n bs a k = TErr a \/ exists b r, bs = b ++ r /\ length b = n /\ t_array n bs a k = k b r.
Proof.
  unfold t_array. destruct (read_bytes n bs) as [[b r]|] eqn:E; [|left; reflexivity].
  apply read_bytes_spec in E as [-> Hl]. right. exists b, r. rewrite (proj2 (Nat.eqb_eq _ _) Hl). auto.
Qed.

Lemma t_u_n_cases n bs a k :
  t_u_n n bs a k = TErr a \/ exists x r, nlen r + N.of_nat n = nlen bs /\ t_u_n n bs a k = k x r.
Proof.
  unfold t_u_n. destruct (t_array_cases n bs a (fun b r => k (be2n b) r)) as [H|(b & r & -> & Hl & H)]; [left; exact H|].
  right. exists (be2n b), r. split; [rewrite nlen_app; unfold nlen; lia|exact H].
Qed.

Lemma t_byte_cases bs a k :
  t_byte bs a k = TErr a \/ exists x r, nlen r + 1 = nlen bs /\ t_byte bs a k = k x r.
Proof.
  unfold t_byte. destruct (read_bytes 1 bs) as [[b r]|] eqn:E; [|left; reflexivity].
  apply read_bytes_spec in E as [-> Hl]. destruct b as [|x [|y b]]; try discriminate.
  right. exists (b2n x), r. split; [rewrite nlen_app; cbn; lia|reflexivity].
Qed.

(* results that neither allocate nor consume beyond what was read *)
Definition simple_res (x : tres) (r : bytes) (a : N) : Prop := x = TErr a \/ exists v, x = TOk v r a.

Lemma aspec_array n bs a k c d :
  (forall b r, simple_res (k b r) r a) -> aspec (t_array n bs a k) bs a c d (N.of_nat n).
Proof.
  intros Hk. destruct (t_array_cases n bs a k) as [->|(b & r & -> & Hl & ->)]; [apply aspec_err|].
  destruct (Hk b r) as [->|(v & ->)]; [apply aspec_err|]. apply aspec_ok_same. rewrite nlen_app. unfold nlen. lia.
Qed.

Lemma aspec_u n bs a c d : aspec (t_u n bs a) bs a c d (N.of_nat n).
Proof. apply aspec_array. intros. right. eauto. Qed.
Lemma aspec_i n bs a c d : aspec (t_i n bs a) bs a c d (N.of_nat n).
Proof. apply aspec_array. intros. right. eauto. Qed.
Lemma aspec_bytesn n bs a c d : aspec (t_bytesn n bs a) bs a c d (N.of_nat n).
Proof. apply aspec_array. intros. right. eauto. Qed.
Lemma aspec_g1 O tr bs a c d : aspec (t_g1 O tr bs a) bs a c d 48.
Proof. apply (aspec_array 48). intros b r. destruct (g1_ok O tr b); [right; eauto|left; reflexivity]. Qed.
Lemma aspec_g2 O tr bs a c d : aspec (t_g2 O tr bs a) bs a c d 96.
Proof. apply (aspec_array 96). intros b r. destruct (g2_ok O tr b); [right; eauto|left; reflexivity]. Qed.
Lemma aspec_sk bs a c d : aspec (t_sk bs a) bs a c d 32.
Proof. apply (aspec_array 32). intros b r. destruct (sk_ok b); [right; eauto|left; reflexivity]. Qed.

Lemma aspec_bool bs a c d : aspec (t_bool bs a) bs a c d 1.
Proof.
  unfold t_bool. destruct (t_byte_cases bs a (fun x r => match x with 0 => TOk (VBool false) r a | 1 => TOk (VBool true) r a | _ => TErr a end))
    as [->|(x & r & Hl & ->)]; [apply aspec_err|].
  destruct x as [|[p|p|]]; try apply aspec_err; apply aspec_ok_same; lia.
Qed.

Lemma aspec_enum ds bs a c d :
  aspec (t_u_n 1 bs a (fun n r => if existsb (N.eqb n) ds then TOk (VInt (Z.of_N n)) r a else TErr a)) bs a c d 1.
Proof.
  destruct (t_u_n_cases 1 bs a (fun n r => if existsb (N.eqb n) ds then TOk (VInt (Z.of_N n)) r a else TErr a))
    as [->|(x & r & Hl & ->)]; [apply aspec_err|].
  destruct (existsb (N.eqb x) ds); [apply aspec_ok_same; lia|apply aspec_err].
Qed.

(* Bytes / String: the copy is as long as what was consumed *)
Lemma t_lenpref_like bs a (ok : bytes -> bool) :
  let x := t_u_n 4 bs a (fun n r => match read_bytes (N.to_nat (N.min n (nlen r + 1))) r with
                                     | None => TErr a
                                     | Some (b, r') => if ok b then TOk (VBytes b) r' (a + nlen b) else TErr a
                                     end) in
  aspec x bs a 1 0 4.
Proof.
  cbv zeta.
  match goal with |- aspec (t_u_n 4 bs a ?k) _ _ _ _ _ => destruct (t_u_n_cases 4 bs a k) as [->|(n & r & Hl & ->)] end; [apply aspec_err|].
  destruct (read_bytes _ r) as [[b r']|] eqn:E; [|apply aspec_err].
  apply read_bytes_spec in E as [-> _]. destruct (ok b); [|apply aspec_err].
  cbn [aspec]. rewrite nlen_app in Hl. split; lia.
Qed.

Lemma aspec_bytes bs a : aspec (t_bytes bs a) bs a 1 0 4.
Proof.
  pose proof (t_lenpref_like bs a (fun _ => true)) as H. cbv zeta in H. unfold t_bytes, t_lenpref.
  exact H.
Qed.
Lemma aspec_str bs a : aspec (t_str bs a) bs a 1 0 4.
Proof. exact (t_lenpref_like bs a utf8_ok). Qed.

Lemma aspec_pos O tr bs a : aspec (t_pos O tr bs a) bs a 1 0 87.
Proof.
  unfold t_pos. destruct (dec_pos O tr bs) as [[v r]|] eqn:E; cbn [aspec]; [|lia].
  apply dec_pos_sound in E as (Hw & e & He & ->). pose proof (enc_pos_min O tr v e Hw He) as Hm.
  rewrite nlen_app. split; lia.
Qed.

(* ================= allocation bound, part a2 ================= *)

(* ---------- arithmetic of chaining two steps ---------- *)
Lemma comb_ok a a1 a' c1 C x y z :
  c1 <= C -> z <= y -> y <= x -> a1 <= a + c1 * (x - y) -> a' <= a1 + C * (y - z) -> a' <= a + C * (x - z).
Proof.
  intros Hc Hz Hy H1 H2.
  assert (c1 * (x - y) <= C * (x - y)) by (apply N.mul_le_mono_r; exact Hc).
  assert (C * (x - z) = C * (x - y) + C * (y - z)) by (rewrite <- N.mul_add_distr_l; f_equal; lia). lia.
Qed.
Lemma comb_err a a1 a' c1 C x y E :
  c1 <= C -> y <= x -> a1 <= a + c1 * (x - y) -> a' <= a1 + C * y + E -> a' <= a + C * x + E.
Proof.
  intros Hc Hy H1 H2.
  assert (c1 * (x - y) <= C * (x - y)) by (apply N.mul_le_mono_r; exact Hc).
  assert (C * x = C * (x - y) + C * y) by (rewrite <- N.mul_add_distr_l; f_equal; lia). lia.
Qed.
Lemma mul_mono_le c x y : x <= y -> c * x <= c * y.
Proof. apply N.mul_le_mono_l. Qed.

(* ---------- Program ---------- *)
Lemma aspec_prog O (Hp : prog_len_pos_hyp O) tr bs a : aspec (t_prog O tr bs a) bs a (1 + clvm_per_byte) 0 1.
Proof.
  unfold t_prog, clvm_per_byte. destruct (prog_len O tr bs) as [n|] eqn:En.
  - pose proof (Hp _ _ _ En) as Hn.
    destruct (N.ltb_spec (nlen bs) n) as [Hlt|Hge].
    + cbn [aspec]. destruct tr; lia.
    + destruct (N.leb_spec n (nlen bs)); [|exact Logic.I]. cbn [aspec].
      assert (Hr : nlen (skipn (N.to_nat n) bs) = nlen bs - n) by (unfold nlen; rewrite skipn_length; lia).
      rewrite Hr. split; [lia|]. replace (nlen bs - (nlen bs - n)) with n by lia. rewrite N.min_l by lia. destruct tr; lia.
  - cbn [aspec]. destruct tr; lia.
Qed.

(* ---------- generator tail ---------- *)
Lemma dec_prog_shrinks O tr bs v r : dec_prog O tr bs = Some (v, r) -> nlen r <= nlen bs.
Proof.
  unfold dec_prog. destruct (prog_len O tr bs) as [n|]; [|discriminate]. destruct (n <=? nlen bs); [|discriminate].
  intros [= _ <-]. unfold nlen. rewrite skipn_length. lia.
Qed.

Lemma dec_gentail_shrinks O tr bs v r : dec_gentail O tr bs = Some (v, r) -> nlen r + 1 <= nlen bs.
Proof.
  unfold dec_gentail. intros H. inv_as H pfx r1 Ep. apply dec_u1_spec in Ep as [_ ->]. rewrite nlen_cons.
  destruct (pfx / 2 =? 0).
  - inv_as H gn r2 Eg. inv_as H n r3 En. apply dec_u_n_spec in En as [_ ->].
    destruct (n * 4 <=? nlen r3); [|discriminate]. inv_as H refs r4 Er. injection H as _ <-.
    apply dec_u32s_sound in Er as (_ & _ & e & _ & ->).
    assert (nlen (n2be 4 n ++ e ++ r4) <= nlen r1).
    { destruct (N.land pfx 1 =? 1).
      - inv_as Eg p r' Ep. injection Eg as _ <-. now apply dec_prog_shrinks in Ep.
      - injection Eg as _ <-. lia. }
    rewrite !nlen_app in H. lia.
  - destruct (pfx / 2 =? 1); [|discriminate]. inv_as H buf r2 Eb. injection H as _ <-.
    destruct (N.land pfx 1 =? 1).
    + inv_as Eb b r' El. injection Eb as _ <-. apply dec_lenpref_spec in El as [_ ->]. rewrite !nlen_app. lia.
    + injection Eb as _ <-. lia.
Qed.

Lemma aspec_gentail O tr bs a : aspec (t_gentail O tr bs a) bs a gentail_fac 1 1.
Proof.
  unfold t_gentail. destruct (dec_gentail O tr bs) as [[v r]|] eqn:E; cbn [aspec].
  - apply dec_gentail_shrinks in E. split; [exact E|lia].
  - lia.
Qed.

(* ---------- Option prefix ---------- *)
Lemma aspec_opt (dec : bytes -> N -> tres) c d m bs a :
  (forall bs a, aspec (dec bs a) bs a c d m) -> aspec (t_opt dec bs a) bs a c d 1.
Proof.
  intros Hd. unfold t_opt.
  match goal with |- aspec (t_byte bs a ?k) _ _ _ _ _ => destruct (t_byte_cases bs a k) as [->|(x & r & Hl & ->)] end; [apply aspec_err|].
  destruct x as [|[p|p|]]; try apply aspec_err; [apply aspec_ok_same; lia|].
  specialize (Hd r a). destruct (dec r a) as [v r' a'|a'|]; cbn [tbind aspec] in *; [| |exact Logic.I].
  - destruct Hd as [H1 H2]. split; [lia|].
    apply N.le_trans with (a + c * (nlen r - nlen r')); [exact H2|]. apply N.add_le_mono_l, mul_mono_le. lia.
  - apply N.le_trans with (a + c * nlen r + d * MiB2); [exact Hd|]. apply N.add_le_mono_r, N.add_le_mono_l, mul_mono_le. lia.
Qed.

(* ---------- sequences ---------- *)
Section Seq.
  Variable dec : ty -> bytes -> N -> tres.
  Variables cf vd ms : ty -> N.
  Variables C D : N.

  Definition step_ok (t : ty) : Prop :=
    (forall bs a, aspec (dec t bs a) bs a (cf t) (vd t) (ms t)) /\ cf t <= C /\ vd t <= D.

  Lemma t_seq_aspec ts : Forall step_ok ts ->
    forall acc bs a, aspec (t_seq dec ts acc bs a) bs a C D (fold_right (fun t s => ms t + s) 0 ts).
  Proof.
    induction 1 as [|t ts (Ht & Hc & Hdd) _ IH]; intros acc bs a; cbn [t_seq fold_right].
    - apply aspec_ok_same. lia.
    - specialize (Ht bs a). destruct (dec t bs a) as [v r a1|a1|]; cbn [aspec] in Ht; [| |exact Logic.I].
      + destruct Ht as [H1 H2]. specialize (IH (v :: acc) r a1).
        destruct (t_seq dec ts (v :: acc) r a1) as [v' r' a'|a'|]; cbn [aspec] in *; [| |exact Logic.I].
        * destruct IH as [I1 I2]. split; [lia|]. eapply (comb_ok a a1 a' (cf t) C (nlen bs) (nlen r) (nlen r')); eauto; lia.
        * eapply (comb_err a a1 a' (cf t) C (nlen bs) (nlen r)); eauto; lia.
      + apply N.le_trans with (a + cf t * nlen bs + vd t * MiB2); [exact Ht|].
        apply N.add_le_mono; [apply N.add_le_mono_l, N.mul_le_mono_r; exact Hc|apply N.mul_le_mono_r; exact Hdd].
  Qed.

  Lemma t_fields_aspec fs : Forall (fun f => step_ok (snd f)) fs ->
    forall acc bs a, aspec (t_fields dec fs acc bs a) bs a C D (fold_right (fun f s => ms (snd f) + s) 0 fs).
  Proof.
    induction 1 as [|f fs (Ht & Hc & Hdd) _ IH]; intros acc bs a; cbn [t_fields fold_right].
    - apply aspec_ok_same. lia.
    - specialize (Ht bs a). destruct (dec (snd f) bs a) as [v r a1|a1|]; cbn [aspec] in Ht; [| |exact Logic.I].
      + destruct Ht as [H1 H2]. destruct (unpack (snd f) v) as [vs|]; [|exact Logic.I].
        specialize (IH (rev_append vs acc) r a1).
        destruct (t_fields dec fs (rev_append vs acc) r a1) as [v' r' a'|a'|]; cbn [aspec] in *; [| |exact Logic.I].
        * destruct IH as [I1 I2]. split; [lia|]. eapply (comb_ok a a1 a' (cf (snd f)) C (nlen bs) (nlen r) (nlen r')); eauto; lia.
        * eapply (comb_err a a1 a' (cf (snd f)) C (nlen bs) (nlen r)); eauto; lia.
      + apply N.le_trans with (a + cf (snd f) * nlen bs + vd (snd f) * MiB2); [exact Ht|].
        apply N.add_le_mono; [apply N.add_le_mono_l, N.mul_le_mono_r; exact Hc|apply N.mul_le_mono_r; exact Hdd].
  Qed.
End Seq.

(* [T; N] *)
Lemma t_rep_aspec dec1 c d m :
  (forall bs a, aspec (dec1 bs a) bs a c d m) ->
  forall n acc bs a, aspec (t_rep dec1 n acc bs a) bs a c d (N.of_nat n * m).
Proof.
  intros Hd. induction n as [|n IH]; intros acc bs a; cbn [t_rep].
  - apply aspec_ok_same. lia.
  - specialize (Hd bs a). destruct (dec1 bs a) as [v r a1|a1|]; cbn [aspec] in Hd; [| |exact Logic.I].
    + destruct Hd as [H1 H2]. specialize (IH (v :: acc) r a1).
      destruct (t_rep dec1 n (v :: acc) r a1) as [v' r' a'|a'|]; cbn [aspec] in *; [| |exact Logic.I].
      * destruct IH as [I1 I2]. split; [lia|]. eapply (comb_ok a a1 a' c c (nlen bs) (nlen r) (nlen r')); eauto; lia.
      * eapply (comb_err a a1 a' c c (nlen bs) (nlen r)); eauto; lia.
    + exact Hd.
Qed.

(* ================= allocation bound, part a3 ================= *)

Lemma grow_cap_facts cap sz : 2 * cap <= grow_cap cap sz /\ cap + 1 <= grow_cap cap sz /\ grow_cap cap sz <= 2 * cap + 8.
Proof.
  unfold grow_cap, min_non_zero_cap. destruct (sz =? 1); [lia|]. destruct (sz <=? 1024); lia.
Qed.

(* slots allocated by RawVec growth during the next n pushes, in terms of the ghost g = slots grown so far *)
Definition growth_bound (g cap cnt n : N) : N := if cnt + n <=? cap then g else 2 * (2 * (cnt + n) + 8).

Section VecLoop.
  Variable dec1 : bytes -> N -> tres.
  Variables c d m sz : N.
  Hypothesis Hdec : forall bs a, aspec (dec1 bs a) bs a c d m.

  Lemma t_vec_loop_aspec : forall n cap cnt g acc bs a,
    (sz <> 0 -> cnt <= cap /\ g <= 2 * cap) ->
    match t_vec_loop dec1 n sz cap cnt acc bs a with
    | TOk v r a' => nlen r + N.of_nat n * m <= nlen bs /\
                    a' + g * sz <= a + growth_bound g cap cnt (N.of_nat n) * sz + c * (nlen bs - nlen r)
    | TErr a' => a' + g * sz <= a + growth_bound g cap cnt (N.of_nat n) * sz + c * nlen bs + d * MiB2
    | TPanic => True
    end.
  Proof.
    induction n as [|k IH]; intros cap cnt g acc bs a Hinv; cbn [t_vec_loop].
    - split; [lia|]. unfold growth_bound. rewrite N.sub_diag.
      destruct (N.eq_dec sz 0) as [->|Hz]; [rewrite !N.mul_0_r; lia|]. destruct (Hinv Hz) as [H1 _].
      destruct (N.leb_spec (cnt + N.of_nat 0) cap); [rewrite N.mul_0_r; lia|lia].
    - pose proof (Hdec bs a) as He. destruct (dec1 bs a) as [v r a1|a1|]; cbn [aspec] in He; [| |exact Logic.I].
      + destruct He as [E1 E2].
        assert (HS : N.of_nat (S k) = N.of_nat k + 1) by lia.
        destruct ((sz =? 0) || (cnt <? cap)) eqn:Hb.
        * (* push without growth *)
          assert (Hinv' : sz <> 0 -> cnt + 1 <= cap /\ g <= 2 * cap).
          { intros Hz. destruct (Hinv Hz). destruct (N.eqb_spec sz 0); [contradiction|]. cbn [orb] in Hb. apply N.ltb_lt in Hb. lia. }
          specialize (IH cap (cnt + 1) g (v :: acc) r a1 Hinv').
          assert (HX : growth_bound g cap (cnt + 1) (N.of_nat k) = growth_bound g cap cnt (N.of_nat (S k))).
          { unfold growth_bound. rewrite HS. replace (cnt + 1 + N.of_nat k) with (cnt + (N.of_nat k + 1)) by lia. reflexivity. }
          rewrite HX in IH. set (XS := growth_bound g cap cnt (N.of_nat (S k)) * sz) in *. set (G := g * sz) in *.
          destruct (t_vec_loop dec1 k sz cap (cnt + 1) (v :: acc) r a1) as [v' r' a'|a'|]; [| |exact Logic.I].
          -- destruct IH as [I1 I2]. split; [lia|].
             apply (comb_ok (a + XS) (a1 + XS) (a' + G) c c (nlen bs) (nlen r) (nlen r')); lia.
          -- apply (comb_err (a + XS) (a1 + XS) (a' + G) c c (nlen bs) (nlen r) (d * MiB2)); lia.
        * (* push with growth: cnt = cap *)
          destruct (N.eqb_spec sz 0) as [|Hz]; [discriminate|]. cbn [orb] in Hb. apply N.ltb_ge in Hb.
          destruct (Hinv Hz) as [Hc Hg]. assert (cnt = cap) by lia. subst cnt.
          destruct (grow_cap_facts cap sz) as (F1 & F2 & F3). set (cap' := grow_cap cap sz) in *.
          assert (Hinv' : sz <> 0 -> cap + 1 <= cap' /\ g + cap' <= 2 * cap') by (intros _; lia).
          specialize (IH cap' (cap + 1) (g + cap') (v :: acc) r (a1 + cap' * sz) Hinv').
          assert (HX : growth_bound (g + cap') cap' (cap + 1) (N.of_nat k) <= growth_bound g cap cap (N.of_nat (S k))).
          { unfold growth_bound. rewrite HS.
            destruct (N.leb_spec (cap + (N.of_nat k + 1)) cap); [lia|].
            destruct (N.leb_spec (cap + 1 + N.of_nat k) cap'); lia. }
          apply (N.mul_le_mono_r _ _ sz) in HX.
          set (XS := growth_bound g cap cap (N.of_nat (S k)) * sz) in *.
          set (XS' := growth_bound (g + cap') cap' (cap + 1) (N.of_nat k) * sz) in *.
          rewrite N.mul_add_distr_r in IH. set (G := g * sz) in *. set (K := cap' * sz) in *.
          destruct (t_vec_loop dec1 k sz cap' (cap + 1) (v :: acc) r (a1 + K)) as [v' r' a'|a'|]; [| |exact Logic.I].
          -- destruct IH as [I1 I2]. split; [lia|].
             apply (comb_ok (a + XS) (a1 + XS) (a' + G) c c (nlen bs) (nlen r) (nlen r')); lia.
          -- apply (comb_err (a + XS) (a1 + XS) (a' + G) c c (nlen bs) (nlen r) (d * MiB2)); lia.
      + (* the element fails *)
        assert (Hg : g * sz <= growth_bound g cap cnt (N.of_nat (S k)) * sz).
        { destruct (N.eq_dec sz 0) as [->|Hz]; [lia|]. destruct (Hinv Hz). apply N.mul_le_mono_r.
          unfold growth_bound. destruct (N.leb_spec (cnt + N.of_nat (S k)) cap); lia. }
        lia.
  Qed.
End VecLoop.

(* ================= allocation bound, part a4 ================= *)

(* Vec<T>::parse: reservation + push loop *)
Lemma aspec_vec dec1 c d m sz bs a :
  (forall bs a, aspec (dec1 bs a) bs a c d m) -> (1 <= m \/ sz = 0) ->
  aspec (t_u_n 4 bs a (fun n r =>
           let cap := vec_cap0 sz n in
           let a0 := a + cap * sz in
           let fits := (m =? 0) || (n <=? nlen r) in
           let n' := if fits then n else nlen r + 1 in
           match t_vec_loop dec1 (N.to_nat n') sz cap 0 [] r a0 with
           | TOk v r' a' => if fits then TOk v r' a' else TErr a'
           | other => other
           end)) bs a (7 * sz + c) (1 + d) 4.
Proof.
  intros Hdec Hside.
  match goal with |- aspec (t_u_n 4 bs a ?k) _ _ _ _ _ => destruct (t_u_n_cases 4 bs a k) as [->|(n & r0 & Hl & ->)] end; [apply aspec_err|].
  cbv zeta. set (cap0 := vec_cap0 sz n). set (fits := (m =? 0) || (n <=? nlen r0)). set (n' := if fits then n else nlen r0 + 1).
  destruct (vec_prealloc_bounded sz n) as [Hcap1 Hcap2]. fold cap0 in Hcap1, Hcap2.
  pose proof (t_vec_loop_aspec dec1 c d m sz Hdec (N.to_nat n') cap0 0 0 [] r0 (a + cap0 * sz)) as HL.
  rewrite N2Nat.id in HL. specialize (HL ltac:(intros _; lia)).
  assert (HX : growth_bound 0 cap0 0 n' <= (if n' <=? cap0 then 0 else 4 * n' + 16)).
  { unfold growth_bound. rewrite N.add_0_l. destruct (n' <=? cap0); lia. }
  apply (N.mul_le_mono_r _ _ sz) in HX.
  set (XS := growth_bound 0 cap0 0 n' * sz) in *.
  (* facts about the iteration count when elements occupy memory *)
  assert (Hcount : sz <> 0 -> n' <= nlen r0 + 1 /\ (fits = true -> n <= nlen r0)).
  { intros Hz. destruct Hside as [Hm|]; [|contradiction]. unfold n', fits.
    destruct (N.eqb_spec m 0); [lia|]. cbn [orb]. destruct (N.leb_spec n (nlen r0)); split; try lia; discriminate. }
  destruct (N.eq_dec sz 0) as [Hz|Hz].
  - (* zero-sized elements: nothing is allocated for the buffer *)
    subst sz. subst XS.
    destruct (t_vec_loop dec1 (N.to_nat n') 0 cap0 0 [] r0 (a + cap0 * 0)) as [v r a'|a'|]; [| |exact Logic.I].
    + destruct HL as [L1 L2]. rewrite !N.mul_0_r, !N.add_0_r in L2. destruct fits; cbn [aspec].
      * split; [lia|]. rewrite N.mul_0_r, N.add_0_l. apply N.le_trans with (a + c * (nlen r0 - nlen r)); [lia|].
        apply N.add_le_mono_l, mul_mono_le. lia.
      * rewrite N.mul_0_r, N.add_0_l. assert (c * (nlen r0 - nlen r) <= c * nlen bs) by (apply mul_mono_le; lia). lia.
    + rewrite !N.mul_0_r, !N.add_0_r in HL. cbn [aspec]. rewrite N.mul_0_r, N.add_0_l.
      assert (c * nlen r0 <= c * nlen bs) by (apply mul_mono_le; lia).
      assert (d * MiB2 <= (1 + d) * MiB2) by (apply N.mul_le_mono_r; lia). lia.
  - destruct (Hcount Hz) as [Hn' Hfit]. destruct Hside as [Hm|]; [|contradiction].
    assert (Herr : forall a' rest, a' <= a + cap0 * sz + XS + c * rest + d * MiB2 -> rest <= nlen r0 ->
                                   a' <= a + (7 * sz + c) * nlen bs + (1 + d) * MiB2).
    { intros a' rest Ha Hr.
      assert (c * rest <= c * nlen r0) by (apply mul_mono_le; exact Hr).
      rewrite N.mul_add_distr_r, (N.mul_add_distr_r 1 d MiB2), N.mul_1_l.
      assert (Hbs : nlen bs = nlen r0 + 4) by lia. rewrite Hbs, N.mul_add_distr_l.
      destruct (N.leb_spec n' cap0).
      - rewrite N.mul_0_l in HX. lia.
      - assert (cap0 * sz + (4 * n' + 16) * sz <= 7 * sz * (nlen r0 + 4)).
        { rewrite <- N.mul_add_distr_r. rewrite (N.mul_comm (7 * sz)), N.mul_assoc. apply N.mul_le_mono_r. lia. }
        lia. }
    destruct (t_vec_loop dec1 (N.to_nat n') sz cap0 0 [] r0 (a + cap0 * sz)) as [v r a'|a'|]; [| |exact Logic.I].
    + destruct HL as [L1 L2]. rewrite N.mul_0_l, N.add_0_r in L2. destruct fits eqn:Ef; cbn [aspec].
      * specialize (Hfit eq_refl). unfold n' in *. try rewrite Ef in *.
        split; [lia|].
        assert (Hq : n <= nlen r0 - nlen r) by nia.
        set (q := nlen r0 - nlen r) in *. replace (nlen bs - nlen r) with (q + 4) by lia.
        assert (cap0 * sz + XS <= 7 * sz * (q + 4)).
        { apply N.le_trans with (cap0 * sz + (4 * n + 16) * sz).
          - destruct (n <=? cap0); [rewrite N.mul_0_l in HX|]; lia.
          - rewrite <- N.mul_add_distr_r. rewrite (N.mul_comm (7 * sz)), N.mul_assoc. apply N.mul_le_mono_r. lia. }
        rewrite N.mul_add_distr_r. assert (c * q <= c * (q + 4)) by (apply mul_mono_le; lia). lia.
      * apply (Herr a' (nlen r0 - nlen r)); lia.
    + rewrite N.mul_0_l, N.add_0_r in HL. cbn [aspec]. apply (Herr a' (nlen r0)); lia.
Qed.

(* ================= allocation bound, part a5 ================= *)

Lemma aspec_map_ok x r bs a c d m k (f : value -> value) :
  aspec x r a c d m -> nlen r + k <= nlen bs ->
  aspec (tbind x (fun v r' a' => TOk (f v) r' a')) bs a c d k.
Proof.
  intros Hx Hk. destruct x as [v r' a'|a'|]; cbn [tbind aspec] in *; [| |exact Logic.I].
  - destruct Hx as [H1 H2]. split; [lia|].
    apply N.le_trans with (a + c * (nlen r - nlen r')); [exact H2|]. apply N.add_le_mono_l, mul_mono_le. lia.
  - apply N.le_trans with (a + c * nlen r + d * MiB2); [exact Hx|]. apply N.add_le_mono_r, N.add_le_mono_l, mul_mono_le. lia.
Qed.

Section Bound.
  Variable O : oracles.
  Hypothesis Hpos : prog_len_pos_hyp O.
  Variable tr : bool.

  Definition I (t : ty) : Prop :=
    vec_ok t = true -> forall bs a, aspec (tdecode O tr t bs a) bs a (cfac t) (vdepth t) (min_size t).

  Lemma seq_steps ts : Forall I ts -> all_t vec_ok ts = true ->
    forall C D, fold_right (fun t acc => N.max (cfac t) acc) 1 ts <= C ->
                fold_right (fun t acc => N.max (vdepth t) acc) 0 ts <= D ->
                Forall (step_ok (tdecode O tr) cfac vdepth min_size C D) ts.
  Proof.
    induction 1 as [|t ts Ht _ IH]; cbn [all_t fold_right]; intros Hok C D HC HD; [constructor|].
    apply andb_prop in Hok as [Hk Hr]. constructor.
    - split; [exact (Ht Hk)|]. lia.
    - apply IH; [exact Hr|lia|lia].
  Qed.

  Lemma field_steps fs : Forall (fun f => I (snd f)) fs -> all_f vec_ok fs = true ->
    forall C D, fold_right (fun f acc => N.max (cfac (snd f)) acc) 1 fs <= C ->
                fold_right (fun f acc => N.max (vdepth (snd f)) acc) 0 fs <= D ->
                Forall (fun f => step_ok (tdecode O tr) cfac vdepth min_size C D (snd f)) fs.
  Proof.
    induction 1 as [|f fs Ht _ IH]; cbn [all_f fold_right]; intros Hok C D HC HD; [constructor|].
    apply andb_prop in Hok as [Hk Hr]. constructor.
    - split; [exact (Ht Hk)|]. lia.
    - apply IH; [exact Hr|lia|lia].
  Qed.

  Theorem tdecode_alloc t : I t.
  Proof.
    induction t using ty_ind'; intros Hok bs a; cbn [tdecode cfac vdepth min_size]; cbn [vec_ok] in Hok.
    - apply aspec_u.
    - apply aspec_i.
    - apply aspec_bool.
    - apply aspec_bytesn.
    - apply aspec_bytes.
    - apply aspec_str.
    - (* Opt *) apply (aspec_opt _ _ _ (min_size t)). exact (IHt Hok).
    - (* Vec *) apply andb_prop in Hok as [Hs Hk]. unfold vec_ratio.
      apply (aspec_vec (tdecode O tr t) (cfac t) (vdepth t) (min_size t) (mem_size t) bs a (IHt Hk)).
      apply orb_prop in Hs as [Hs|Hs]; [left; apply N.leb_le; exact Hs|right; apply N.eqb_eq; exact Hs].
    - (* Tup *) apply (t_seq_aspec (tdecode O tr) cfac vdepth min_size). apply seq_steps; [exact H|exact Hok|lia|lia].
    - (* Arr *) apply t_rep_aspec. exact (IHt Hok).
    - (* Enum *) apply aspec_enum.
    - (* Struct *) apply (t_fields_aspec (tdecode O tr) cfac vdepth min_size). apply field_steps; [exact H|exact Hok|lia|lia].
    - apply aspec_g1.
    - apply aspec_g2.
    - apply aspec_prog. exact Hpos.
    - apply aspec_sk.
    - (* Opt2 *)
      apply andb_prop in Hok as [Hk1 Hk2].
      match goal with |- aspec (t_u_n 1 bs a ?k) _ _ _ _ _ => destruct (t_u_n_cases 1 bs a k) as [->|(p & r & Hl & ->)] end; [apply aspec_err|].
      destruct p as [|[[q|q|]|[q|q|]|]]; try apply aspec_err.
      + apply aspec_ok_same. lia.
      + (* both present *)
        pose proof (IHt1 Hk1 r a) as H1. destruct (tdecode O tr t1 r a) as [v r1 a1|a1|]; cbn [tbind aspec] in *; [| |exact Logic.I].
        * destruct H1 as [L1 L2]. pose proof (IHt2 Hk2 r1 a1) as H2.
          destruct (tdecode O tr t2 r1 a1) as [w r2 a2|a2|]; cbn [tbind aspec] in *; [| |exact Logic.I].
          -- destruct H2 as [M1 M2]. split; [lia|].
             assert (a2 <= a + N.max (cfac t1) (cfac t2) * (nlen r - nlen r2))
               by (apply (comb_ok a a1 a2 (cfac t1) (N.max (cfac t1) (cfac t2)) (nlen r) (nlen r1) (nlen r2)); try lia;
                   apply N.le_trans with (a1 + cfac t2 * (nlen r1 - nlen r2)); [exact M2|apply N.add_le_mono_l, N.mul_le_mono_r; lia]).
             apply N.le_trans with (a + N.max (cfac t1) (cfac t2) * (nlen r - nlen r2)); [assumption|].
             apply N.add_le_mono_l, mul_mono_le. lia.
          -- assert (a2 <= a + N.max (cfac t1) (cfac t2) * nlen r + N.max (vdepth t1) (vdepth t2) * MiB2).
             { apply (comb_err a a1 a2 (cfac t1) (N.max (cfac t1) (cfac t2)) (nlen r) (nlen r1)); try lia.
               apply N.le_trans with (a1 + cfac t2 * nlen r1 + vdepth t2 * MiB2); [exact H2|].
               apply N.add_le_mono; [apply N.add_le_mono_l, N.mul_le_mono_r; lia|apply N.mul_le_mono_r; lia]. }
             apply N.le_trans with (a + N.max (cfac t1) (cfac t2) * nlen r + N.max (vdepth t1) (vdepth t2) * MiB2); [assumption|].
             apply N.add_le_mono_r, N.add_le_mono_l, mul_mono_le. lia.
        * apply N.le_trans with (a + cfac t1 * nlen r + vdepth t1 * MiB2); [exact H1|].
          apply N.add_le_mono; [apply N.add_le_mono_l; apply N.le_trans with (N.max (cfac t1) (cfac t2) * nlen r);
            [apply N.mul_le_mono_r; lia|apply mul_mono_le; lia]|apply N.mul_le_mono_r; lia].
      + (* second only *)
        apply (aspec_weaken _ bs a (cfac t2) (vdepth t2) 1); try lia.
        apply (aspec_map_ok _ r bs a _ _ (min_size t2) 1 (fun y => VList [VNone; VSome y])); [exact (IHt2 Hk2 r a)|lia].
      + (* first only *)
        apply (aspec_weaken _ bs a (cfac t1) (vdepth t1) 1); try lia.
        apply (aspec_map_ok _ r bs a _ _ (min_size t1) 1 (fun x => VList [VSome x; VNone])); [exact (IHt1 Hk1 r a)|lia].
    - apply aspec_pos.
    - apply aspec_gentail.
  Qed.

  (* the statement of C14: peak allocation (meter + the one transient clvmr scratch reserve) is bounded by
     alloc_bound t |bs| = (vdepth t + 1) * 2 MiB + cfac t * |bs|, whatever the bytes and the outcome *)

  Theorem alloc_bounded t bs :
    vec_ok t = true -> meter_of (tdecode O tr t bs 0) + scratch_reserve tr t <= alloc_bound t (nlen bs).
  Proof.
    intros Hok. pose proof (tdecode_alloc t Hok bs 0) as H. unfold alloc_bound.
    assert (Hs : scratch_reserve tr t <= MiB2) by (unfold scratch_reserve, clvm_reserve, MiB2; destruct (negb tr && has_prog t); lia).
    rewrite N.mul_add_distr_r, N.mul_1_l.
    destruct (tdecode O tr t bs 0) as [v r a'|a'|]; cbn [aspec meter_of] in *.
    - destruct H as [_ H]. assert (cfac t * (nlen bs - nlen r) <= cfac t * nlen bs) by (apply mul_mono_le; lia). lia.
    - lia.
    - lia.
  Qed.
End Bound.

(* ================= allocation bound, part a6 ================= *)

Lemma round_up_0 al : round_up 0 al = 0.
Proof.
  unfold round_up. destruct (N.eqb_spec al 0); [reflexivity|].
  rewrite N.add_0_l. rewrite N.div_small by lia. reflexivity.
Qed.

Lemma lay_fold_zero_t ts : Forall (fun t => mem_size t = 0) ts ->
  fold_left (fun acc t => lay acc (mem_size t) (mem_align t)) ts 0 = 0.
Proof.
  induction 1 as [|t ts Ht _ IH]; [reflexivity|]. cbn [fold_left]. unfold lay at 2. rewrite Ht, round_up_0. exact IH.
Qed.
Lemma lay_fold_zero_f (fs : list (string * ty)) : Forall (fun f => mem_size (snd f) = 0) fs ->
  fold_left (fun acc f => lay acc (mem_size (snd f)) (mem_align (snd f))) fs 0 = 0.
Proof.
  induction 1 as [|t ts Ht _ IH]; [reflexivity|]. cbn [fold_left]. unfold lay at 2. rewrite Ht, round_up_0. exact IH.
Qed.

(* an element type with an empty encoding occupies no memory: there is nothing a Vec of it could allocate *)
Lemma min0_mem0 t : min_size t = 0 -> mem_size t = 0.
Proof.
  induction t using ty_ind'; cbn [min_size mem_size]; intros Hm; try lia.
  all: try (apply N.eq_mul_0 in Hm as [Hn|Ha]; [rewrite Hn; lia|rewrite (IHt Ha); lia]).
  - (* Tup *)
    assert (Hall : Forall (fun t => mem_size t = 0) ts).
    { induction H as [|t ts Ht _ IH]; [constructor|]. cbn [fold_right] in Hm. constructor; [apply Ht; lia|apply IH; lia]. }
    rewrite (lay_fold_zero_t ts Hall). apply round_up_0.
  - (* Struct *)
    assert (Hall : Forall (fun f => mem_size (snd f) = 0) fs).
    { induction H as [|f fs Hf _ IH]; [constructor|]. cbn [fold_right] in Hm. constructor; [apply Hf; lia|apply IH; lia]. }
    rewrite (lay_fold_zero_f fs Hall). apply round_up_0.
Qed.

Lemma vec_ok_all t : vec_ok t = true.
Proof.
  induction t using ty_ind'; cbn [vec_ok]; try reflexivity; try assumption.
  - rewrite IHt, andb_true_r. destruct (N.eqb_spec (min_size t) 0) as [E|E].
    + rewrite (min0_mem0 t E). apply orb_true_r.
    + replace (1 <=? min_size t) with true by (symmetry; apply N.leb_le; lia). reflexivity.
  - induction H as [|t ts Ht _ IH]; [reflexivity|]. cbn [all_t]. now rewrite Ht, IH.
  - induction H as [|f fs Hf _ IH]; [reflexivity|]. cbn [all_f]. now rewrite Hf, IH.
  - now rewrite IHt1, IHt2.
Qed.

(* C14, allocation clause, for every type of the universe, every byte string, both modes, any oracle whose CLVM
   serializations have at least one byte *)
Theorem alloc_bounded_all O (Hpos : prog_len_pos_hyp O) tr t bs :
  meter_of (tdecode O tr t bs 0) + scratch_reserve tr t <= alloc_bound t (nlen bs).
Proof. apply alloc_bounded; [exact Hpos|apply vec_ok_all]. Qed.

(* ---------- what is NOT proportional to the input: the number of elements of a Vec of zero-width elements ---------- *)
Lemma vec_elems_consume_translated : forallb (fun p => vec_elems_consume (snd p)) stream_types = true.
Proof. vm_compute. reflexivity. Qed.

Lemma dec_rep_units (f : bytes -> dres) k :
  f [] = Some (VList [], @nil byte) -> dec_rep f k [] = Some (repeat (VList []) k, []).
Proof. intros Hf. induction k as [|k IH]; [reflexivity|]. cbn [dec_rep repeat]. rewrite Hf, IH. reflexivity. Qed.

(* four input bytes decode to a vector of n unit values for every n < 2^32 (Rust: Vec<()>; no memory, but n loop
   iterations): element COUNT and decoding TIME are not bounded by the input length for such a type *)
Lemma zero_width_vec_unbounded_count O tr n : n < 2 ^ 32 ->
  decode O tr (Vec (Tup [])) (n2be 4 n) = Some (VList (repeat (VList []) (N.to_nat n)), []).
Proof.
  intros Hn. cbn [decode]. rewrite <- (app_nil_r (n2be 4 n)). rewrite dec_u_n_app by (change (pow256 4) with (2 ^ 32); exact Hn).
  cbn [min_size fold_right]. replace (0 =? 0) with true by reflexivity. cbn [orb]. cbv beta iota. rewrite dec_rep_units by reflexivity. reflexivity.
Qed.

Theorem alloc_step_invariant O (Hpos : prog_len_pos_hyp O) tr t bs a :
  match tdecode O tr t bs a with
  | TOk v r a' => nlen r + min_size t <= nlen bs /\ a' <= a + cfac t * (nlen bs - nlen r)
  | TErr a' => a' <= a + cfac t * nlen bs + vdepth t * MiB2
  | TPanic => True
  end.
Proof. exact (tdecode_alloc O Hpos tr t (vec_ok_all t) bs a). Qed.
