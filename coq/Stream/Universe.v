(* Stream/Universe.v — deep embedding of the Streamable types of chia_rs (C13, C14, C20).

   ty      the universe of wire types (one constructor per `impl Streamable` of chia-traits,
           chia-protocol/bytes.rs, program.rs, chia-bls, the derive macro, and the hand-written
           codecs: Opt2 = utils.rs two-options-in-one-byte, PoS = ProofOfSpace, GenTail = the
           version-packed generator tail of FullBlock / UnfinishedBlock)
   value   one universal value type; `wf tr t v` (Codec.v) says by recursion on t which values
           inhabit t (and are well formed for decoding mode tr)
   oracles what is not modelled: blst point decompression / subgroup membership, clvmr
           serialized_length_from_bytes(_trusted), the chia-pos2 quality string
   primitive codecs used by every other file.  Definitions only. *)
From Coq Require Import String Ascii.
From ChiaV.Base Require Import Bytes.
Open Scope N_scope.

Inductive sshape := SNamed | STuple.      (* struct with named fields / tuple struct *)

Inductive ty : Type :=
| U (n : nat)                (* unsigned big-endian integer of n bytes: u8 u16 u32 u64 u128 *)
| I (n : nat)                (* signed, two's complement *)
| Bool
| BytesN (n : nat)           (* BytesImpl<N>; GTElement is BytesN 576 (raw copy both ways) *)
| Bytes                      (* u32 length prefix + data *)
| Str                        (* u32 length prefix + UTF-8 *)
| Opt (t : ty)
| Vec (t : ty)
| Tup (l : list ty)          (* (), (T,U), (T,U,V), (T,U,V,W) *)
| Arr (n : nat) (t : ty)     (* [T; N] *)
| Enum (ds : list N)         (* #[repr(u8)] enum, listed discriminants *)
| Struct (name : string) (sh : sshape) (fs : list (string * ty))
| G1 | G2 | Prog | Sk
| Opt2 (a b : ty)            (* chia-protocol/src/utils.rs: prefix 0..3, then first?, second? *)
| PoS                        (* ProofOfSpace, proof_of_space.rs *)
| GenTail (full : bool).     (* last four fields of FullBlock (true) / UnfinishedBlock (false) *)

(* A Struct entry whose type is Opt2 / GenTail stands for 2 / 4 consecutive Rust fields; its name
   is the ','-joined list of their names.  The VALUE of a struct is always the flat list of the
   Rust fields in wire order. *)

Inductive value : Type :=
| VInt (z : Z)               (* U, I, Enum (its discriminant) *)
| VBool (b : bool)
| VBytes (b : bytes)         (* BytesN, Bytes, Str (its UTF-8 bytes), G1, G2 (compressed), Prog, Sk *)
| VNone
| VSome (v : value)
| VList (l : list value).    (* Vec, Tup, Arr, Struct, Opt2 [first?; second?], PoS (10), GenTail (4) *)

Record oracles := {
  g1_unc : bytes -> bool;              (* blst_p1_uncompress succeeds *)
  g1_grp : bytes -> bool;              (* PublicKey::is_valid of the uncompressed point *)
  g2_unc : bytes -> bool;              (* blst_p2_uncompress succeeds *)
  g2_grp : bytes -> bool;              (* Signature::is_valid *)
  prog_len : bool -> bytes -> option N;(* clvmr serialized_length_from_bytes(_trusted) *)
  quality : bytes -> option bytes      (* ProofOfSpace::quality_string, keyed by the encoding *)
}.

(* ---------- option monad ---------- *)
Notation "' p <- a ;; b" := (match a with Some p => b | None => None end)
  (at level 61, p pattern, a at next level, right associativity).
Notation "x <- a ;; b" := (match a with Some x => b | None => None end)
  (at level 61, a at next level, right associativity).

Definition dres := option (value * bytes).   (* decoded value and the unread rest; None = Err *)

(* read_bytes of streamable.rs *)
Definition read_bytes (n : nat) (bs : bytes) : option (bytes * bytes) :=
  if (n <=? length bs)%nat then Some (firstn n bs, skipn n bs) else None.

Definition pow256 (n : nat) : N := 256 ^ N.of_nat n.

(* ---------- integers ---------- *)
Definition in_range_u (n : nat) (z : Z) : bool := ((0 <=? z) && (z <? Z.of_N (pow256 n)))%Z.
Definition in_range_i (n : nat) (z : Z) : bool :=
  ((- Z.of_N (pow256 n) <=? 2 * z) && (2 * z <? Z.of_N (pow256 n)))%Z.

Definition enc_u (n : nat) (z : Z) : bytes := n2be n (Z.to_N z).
Definition enc_i (n : nat) (z : Z) : bytes := n2be n (Z.to_N (z mod Z.of_N (pow256 n))%Z).

Definition u_of_bytes (b : bytes) : Z := Z.of_N (be2n b).
Definition i_of_bytes (n : nat) (b : bytes) : Z :=
  let u := be2n b in
  if 2 * u <? pow256 n then Z.of_N u else (Z.of_N u - Z.of_N (pow256 n))%Z.

Definition dec_u (n : nat) (bs : bytes) : dres :=
  '(b, r) <- read_bytes n bs ;; Some (VInt (u_of_bytes b), r).
Definition dec_i (n : nat) (bs : bytes) : dres :=
  '(b, r) <- read_bytes n bs ;; Some (VInt (i_of_bytes n b), r).

Definition dec_u_n (n : nat) (bs : bytes) : option (N * bytes) :=
  '(b, r) <- read_bytes n bs ;; Some (be2n b, r).

Definition u32_max : N := 4294967295.

(* ---------- bool / raw bytes / length-prefixed bytes ---------- *)
Definition dec_bool (bs : bytes) : dres :=
  '(b, r) <- read_bytes 1 bs ;;
  match be2n b with 0 => Some (VBool false, r) | 1 => Some (VBool true, r) | _ => None end.

Definition dec_bytesn (n : nat) (bs : bytes) : dres :=
  '(b, r) <- read_bytes n bs ;; Some (VBytes b, r).

(* Bytes::stream: Err when len > u32::MAX *)
Definition enc_lenpref (b : bytes) : option bytes :=
  if nlen b <=? u32_max then Some (n2be 4 (nlen b) ++ b) else None.
(* update_digest of Bytes / String / Vec: `len as u32` truncates silently *)
Definition dig_lenpref (b : bytes) : bytes := n2be 4 (nlen b mod 2 ^ 32) ++ b.

Definition dec_lenpref (bs : bytes) : option (bytes * bytes) :=
  '(n, r) <- dec_u_n 4 bs ;; read_bytes (N.to_nat (N.min n (nlen r + 1))) r.
  (* N.min: a length beyond the buffer fails in read_bytes either way; avoids a huge unary nat *)

Definition dec_bytes (bs : bytes) : dres := '(b, r) <- dec_lenpref bs ;; Some (VBytes b, r).

(* ---------- UTF-8 (std::str::from_utf8: Unicode 3.9 table 3-7) ---------- *)
Definition inr (lo hi : N) (b : byte) : bool := (lo <=? b2n b) && (b2n b <=? hi).
Definition cont (b : byte) : bool := inr 128 191 b.

Fixpoint utf8_ok (bs : bytes) : bool :=
  match bs with
  | [] => true
  | b0 :: r0 =>
      if b2n b0 <=? 127 then utf8_ok r0
      else match r0 with
      | [] => false
      | b1 :: r1 =>
          if inr 194 223 b0 then cont b1 && utf8_ok r1
          else match r1 with
          | [] => false
          | b2 :: r2 =>
              if inr 224 239 b0 then
                (if b2n b0 =? 224 then inr 160 191 b1
                 else if b2n b0 =? 237 then inr 128 159 b1 else cont b1) && cont b2 && utf8_ok r2
              else match r2 with
              | [] => false
              | b3 :: r3 =>
                  if inr 240 244 b0 then
                    (if b2n b0 =? 240 then inr 144 191 b1
                     else if b2n b0 =? 244 then inr 128 143 b1 else cont b1)
                    && cont b2 && cont b3 && utf8_ok r3
                  else false
              end
          end
      end
  end.

Definition dec_str (bs : bytes) : dres :=
  '(b, r) <- dec_lenpref bs ;; if utf8_ok b then Some (VBytes b, r) else None.

(* ---------- BLS leaves ---------- *)
Fixpoint all_zero (bs : bytes) : bool :=
  match bs with [] => true | b :: r => (b2n b =? 0) && all_zero r end.

(* PublicKey::from_bytes_unchecked: the flag-bit rules live in Rust, decompression in blst *)
Definition g1_unchecked (O : oracles) (b : bytes) : bool :=
  match b with
  | [] => false
  | b0 :: rest =>
      let z := all_zero rest in
      if N.land (b2n b0) 192 =? 192 then (b2n b0 =? 192) && z
      else if negb (N.land (b2n b0) 192 =? 128) then false
      else if z then false
      else g1_unc O b
  end.
Definition g1_ok (O : oracles) (tr : bool) (b : bytes) : bool :=
  g1_unchecked O b && (tr || g1_grp O b).
Definition g2_ok (O : oracles) (tr : bool) (b : bytes) : bool :=
  g2_unc O b && (tr || g2_grp O b).

Definition dec_g1 (O : oracles) (tr : bool) (bs : bytes) : dres :=
  '(b, r) <- read_bytes 48 bs ;; if g1_ok O tr b then Some (VBytes b, r) else None.
Definition dec_g2 (O : oracles) (tr : bool) (bs : bytes) : dres :=
  '(b, r) <- read_bytes 96 bs ;; if g2_ok O tr b then Some (VBytes b, r) else None.

(* SecretKey::from_bytes: zero allowed, otherwise blst_sk_check (0 < sk < r) *)
Definition bls_r : N := 0x73eda753299d7d483339d80809a1d80553bda402fffe5bfeffffffff00000001.
Definition sk_ok (b : bytes) : bool := be2n b <? bls_r.
Definition dec_sk (bs : bytes) : dres :=
  '(b, r) <- read_bytes 32 bs ;; if sk_ok b then Some (VBytes b, r) else None.

(* ---------- Program ---------- *)
(* Program::parse: length from clvmr, `if buf.len() < len { Err }`, keeps the raw bytes *)
Definition dec_prog (O : oracles) (tr : bool) (bs : bytes) : dres :=
  n <- prog_len O tr bs ;;
  if n <=? nlen bs then Some (VBytes (firstn (N.to_nat n) bs), skipn (N.to_nat n) bs) else None.

(* ---------- Option prefix ---------- *)
Definition dec_opt (dec : bytes -> dres) (bs : bytes) : dres :=
  '(b, r) <- read_bytes 1 bs ;;
  match be2n b with
  | 0 => Some (VNone, r)
  | 1 => '(v, r') <- dec r ;; Some (VSome v, r')
  | _ => None
  end.

Definition is_some (v : value) : bool := match v with VSome _ => true | _ => false end.

(* names of a multi-field entry *)
Definition comma : byte := x2c.
Fixpoint split_string (sep : Ascii.ascii) (s : string) (cur : string) : list string :=
  match s with
  | EmptyString => [cur]
  | String c r =>
      if Ascii.eqb c sep then cur :: split_string sep r EmptyString
      else split_string sep r (cur ++ String c EmptyString)%string
  end.
Definition split_names (s : string) : list string := split_string (Ascii.ascii_of_nat 44) s EmptyString.
