(* Stream/ClvmLen.v — executable reading of clvmr 0.17.7 serde/tools.rs
   serialized_length_from_bytes_trusted / serialized_length_from_bytes (model of a DEPENDENCY,
   tied by execution only; the theorems of this unit take the length function as an oracle). *)
From ChiaV.Base Require Import Bytes.
From ChiaV.Stream Require Import Universe.
Open Scope N_scope.

Fixpoint leading_ones (fuel : nat) (b : N) (mask : N) : nat :=
  match fuel with
  | O => O
  | S f => if N.land b mask =? 0 then O else S (leading_ones f b (mask / 2))
  end.

(* parse_atom.rs decode_size_with_offset: first byte already read; returns (size, rest) *)
Definition decode_size (bs : bytes) (b0 : N) : option (N * bytes) :=
  let k := leading_ones 8 b0 128 in
  if (8 <=? k)%nat then None
  else
    let first := N.land b0 (255 / 2 ^ N.of_nat k) in
    '(more, r) <- read_bytes (k - 1) bs ;;
    if (6 <? k)%nat then None
    else
      let sz := first * 256 ^ N.of_nat (k - 1) + be2n more in
      if 17179869184 <=? sz then None else Some (sz, r).      (* 0x400000000 *)

Definition skip_blob (sz : N) (r : bytes) : option bytes :=
  if sz <=? nlen r then Some (skipn (N.to_nat sz) r) else None.

Fixpoint len_trusted (fuel : nat) (ops : N) (bs : bytes) (total : N) : option N :=
  if ops =? 0 then Some (total - nlen bs)
  else match fuel with
  | O => None
  | S f =>
      match bs with
      | [] => None
      | b :: r =>
          let n := b2n b in
          if n =? 255 then len_trusted f (ops + 1) r total
          else if n =? 254 then
            match r with
            | [] => None
            | fb :: r2 =>
                if 127 <? b2n fb then
                  '(sz, r3) <- decode_size r2 (b2n fb) ;;
                  r4 <- skip_blob sz r3 ;; len_trusted f (ops - 1) r4 total
                else len_trusted f (ops - 1) r2 total
            end
          else if (n =? 128) || (n <=? 127) then len_trusted f (ops - 1) r total
          else
            '(sz, r3) <- decode_size r n ;;
            r4 <- skip_blob sz r3 ;; len_trusted f (ops - 1) r4 total
      end
  end.

Definition serialized_length_trusted (bs : bytes) : option N :=
  len_trusted (S (length bs)) 1 bs (nlen bs).

(* the untrusted variant tracks the tree SHAPE of what was parsed to validate back references *)
Inductive shape := SL | SP (a b : shape).

Fixpoint traverse_pos (p : positive) (s : shape) : option shape :=
  match p with
  | xH => Some s
  | xO q => match s with SP l _ => traverse_pos q l | SL => None end
  | xI q => match s with SP _ r => traverse_pos q r | SL => None end
  end.
Definition traverse_path (path : bytes) (args : shape) : option shape :=
  match be2n path with
  | 0 => Some SL
  | Npos p => traverse_pos p args
  end.

(* parse_path / parse_atom_ptr: one byte <= 0x7f is the path itself, otherwise a sized blob *)
Definition parse_path (bs : bytes) : option (bytes * bytes) :=
  match bs with
  | [] => None
  | b1 :: r =>
      if b2n b1 <=? 127 then Some ([b1], r)
      else
        '(sz, r3) <- decode_size r (b2n b1) ;;
        if sz <=? nlen r3 then Some (firstn (N.to_nat sz) r3, skipn (N.to_nat sz) r3) else None
  end.

(* ops: false = ParseOp::SExp, true = ParseOp::Cons; head of the list = top of the stack *)
Fixpoint len_untrusted (fuel : nat) (ops : list bool) (values : shape) (bs : bytes) (total : N) : option N :=
  match ops with
  | [] => match values with SP _ _ => Some (total - nlen bs) | SL => None end
  | op :: ops' =>
      match fuel with
      | O => None
      | S f =>
          if op then
            match values with
            | SP v1 (SP v3 v4) => len_untrusted f ops' (SP (SP v3 v1) v4) bs total
            | _ => None
            end
          else
            match bs with
            | [] => None
            | b :: r =>
                let n := b2n b in
                if n =? 255 then len_untrusted f (false :: false :: true :: ops') values r total
                else if n =? 254 then
                  '(path, r2) <- parse_path r ;;
                  br <- traverse_path path values ;;
                  len_untrusted f ops' (SP br values) r2 total
                else if (n =? 128) || (n <=? 127) then len_untrusted f ops' (SP SL values) r total
                else
                  '(sz, r3) <- decode_size r n ;;
                  r4 <- skip_blob sz r3 ;; len_untrusted f ops' (SP SL values) r4 total
            end
      end
  end.

Definition serialized_length_untrusted (bs : bytes) : option N :=
  len_untrusted (2 * length bs + 2) [false] SL bs (nlen bs).

Definition clvm_prog_len (trusted : bool) (bs : bytes) : option N :=
  if trusted then serialized_length_trusted bs else serialized_length_untrusted bs.
