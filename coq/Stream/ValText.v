(* Stream/ValText.v — the text form of universe values used on the case lines of the
   correspondence check (the Rust harness prints / parses the same syntax):
     v ::= INT | -INT | t | f | x HEX* | n | j v | [ v , ... , v ]
   plus boolean equality of values.  Definitions only. *)
From ChiaV.Base Require Import Bytes.
From ChiaV.Stream Require Import Universe.
Open Scope N_scope.

Definition c_lbr : byte := x5b.  Definition c_rbr : byte := x5d.
Definition c_x : byte := x78.    Definition c_n : byte := x6e.
Definition c_j : byte := x6a.    Definition c_t : byte := x74.
Definition c_f : byte := x66.    Definition c_minus : byte := x2d.

Fixpoint render (v : value) : bytes :=
  match v with
  | VInt z => if (z <? 0)%Z then c_minus :: to_dec (Z.to_N (- z)) else to_dec (Z.to_N z)
  | VBool b => [if b then c_t else c_f]
  | VBytes b => c_x :: to_hex b
  | VNone => [c_n]
  | VSome x => c_j :: render x
  | VList l =>
      c_lbr :: (fix go (l : list value) : bytes :=
                  match l with
                  | [] => [c_rbr]
                  | [x] => render x ++ [c_rbr]
                  | x :: r => render x ++ comma :: go r
                  end) l
  end.

Definition is_digit (c : byte) : bool := (48 <=? b2n c) && (b2n c <=? 57).
Definition is_hex (c : byte) : bool := match hexval c with Some _ => true | None => false end.

Fixpoint span (p : byte -> bool) (cs : bytes) : bytes * bytes :=
  match cs with
  | c :: r => if p c then let '(a, b) := span p r in (c :: a, b) else ([], cs)
  | [] => ([], [])
  end.

Fixpoint parse_items (g : nat) (pv : bytes -> option (value * bytes)) (cs : bytes) : option (list value * bytes) :=
  match g with
  | O => None
  | S g' =>
      '(v, r') <- pv cs ;;
      match r' with
      | c3 :: r3 =>
          if byte_eqb c3 comma then '(l, r4) <- parse_items g' pv r3 ;; Some (v :: l, r4)
          else if byte_eqb c3 c_rbr then Some ([v], r3)
          else None
      | [] => None
      end
  end.

(* parse one value; returns the unread rest *)
Fixpoint parse_val (fuel : nat) (cs : bytes) : option (value * bytes) :=
  match fuel with
  | O => None
  | S f =>
      match cs with
      | [] => None
      | c :: r =>
          if byte_eqb c c_t then Some (VBool true, r)
          else if byte_eqb c c_f then Some (VBool false, r)
          else if byte_eqb c c_n then Some (VNone, r)
          else if byte_eqb c c_j then '(v, r') <- parse_val f r ;; Some (VSome v, r')
          else if byte_eqb c c_x then
            let '(h, r') := span is_hex r in b <- of_hex h ;; Some (VBytes b, r')
          else if byte_eqb c c_minus then
            let '(d, r') := span is_digit r in n <- of_dec d ;; Some (VInt (- Z.of_N n), r')
          else if is_digit c then
            let '(d, r') := span is_digit cs in n <- of_dec d ;; Some (VInt (Z.of_N n), r')
          else if byte_eqb c c_lbr then
            match r with
            | c2 :: r2 =>
                if byte_eqb c2 c_rbr then Some (VList [], r2)
                else '(l, r') <- parse_items (S (length r)) (parse_val f) r ;; Some (VList l, r')
            | [] => None
            end
          else None
      end
  end.

Definition parse_value (cs : bytes) : option value :=
  '(v, r) <- parse_val (S (length cs)) cs ;; match r with [] => Some v | _ => None end.

Fixpoint value_eqb (a b : value) : bool :=
  match a, b with
  | VInt x, VInt y => (x =? y)%Z
  | VBool x, VBool y => Bool.eqb x y
  | VBytes x, VBytes y => bytes_eqb x y
  | VNone, VNone => true
  | VSome x, VSome y => value_eqb x y
  | VList l, VList m =>
      (fix go (l m : list value) : bool :=
         match l, m with
         | [], [] => true
         | x :: l', y :: m' => value_eqb x y && go l' m'
         | _, _ => false
         end) l m
  | _, _ => false
  end.
