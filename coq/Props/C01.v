(* Props/C01.v — property C01, stage S1: the tables the rules are written in and the
   classification of opcodes, over definitions translated from the Rust source on this run.
   (S2/S3 — refinement of the whole mirror to a declarative rule set — see DESIGN §5 C01.) *)
From ChiaV.Base Require Import Bytes.
From ChiaV.Clvm Require Import Sexp Ints.
From ChiaV.Gen Require Import Opcodes.
From ChiaV.Cond Require Import Model Spec Facts.
Open Scope N_scope.

(* the condition codes in opcodes.rs are the consensus codes *)
Theorem C01_opcodes_are_consensus :
  [REMARK; AGG_SIG_PARENT; AGG_SIG_PUZZLE; AGG_SIG_AMOUNT; AGG_SIG_PUZZLE_AMOUNT; AGG_SIG_PARENT_AMOUNT;
   AGG_SIG_PARENT_PUZZLE; AGG_SIG_UNSAFE; AGG_SIG_ME; CREATE_COIN; RESERVE_FEE; CREATE_COIN_ANNOUNCEMENT;
   ASSERT_COIN_ANNOUNCEMENT; CREATE_PUZZLE_ANNOUNCEMENT; ASSERT_PUZZLE_ANNOUNCEMENT; ASSERT_CONCURRENT_SPEND;
   ASSERT_CONCURRENT_PUZZLE; SEND_MESSAGE; RECEIVE_MESSAGE; ASSERT_MY_COIN_ID; ASSERT_MY_PARENT_ID;
   ASSERT_MY_PUZZLEHASH; ASSERT_MY_AMOUNT; ASSERT_MY_BIRTH_SECONDS; ASSERT_MY_BIRTH_HEIGHT; ASSERT_EPHEMERAL;
   ASSERT_SECONDS_RELATIVE; ASSERT_SECONDS_ABSOLUTE; ASSERT_HEIGHT_RELATIVE; ASSERT_HEIGHT_ABSOLUTE;
   ASSERT_BEFORE_SECONDS_RELATIVE; ASSERT_BEFORE_SECONDS_ABSOLUTE; ASSERT_BEFORE_HEIGHT_RELATIVE;
   ASSERT_BEFORE_HEIGHT_ABSOLUTE; SOFTFORK]
  = Spec.known_one_byte.
Proof. exact opcodes_are_consensus. Qed.

(* which atoms are condition codes: the whitelist of parse_opcode (translated) accepts exactly the
   35 consensus one-byte codes, plus every two-byte atom whose first byte is non-zero *)
Theorem C01_parse_opcode_spec : forall t op,
  parse_opcode t = Some op <->
  (exists b, t = Atom [b] /\ op = b2n b /\ In op Spec.known_one_byte) \/
  (exists b0 b1, t = Atom [b0; b1] /\ b2n b0 <> 0 /\ op = b2n b0 * 256 + b2n b1).
Proof. exact parse_opcode_spec. Qed.

(* flag bits, limits and spend-flag bits are the consensus values *)
Theorem C01_flags_are_consensus :
  FLAG_DONT_VALIDATE_SIGNATURE = Spec.DONT_VALIDATE_SIGNATURE /\ FLAG_NO_UNKNOWN_CONDS = Spec.NO_UNKNOWN_CONDS /\
  FLAG_STRICT_ARGS_COUNT = Spec.STRICT_ARGS_COUNT /\ FLAG_COST_CONDITIONS = Spec.COST_CONDITIONS /\
  FLAG_LIMIT_SPENDS = Spec.LIMIT_SPENDS /\ MAX_SPENDS_PER_BLOCK = Spec.MAX_SPENDS_PER_BLOCK /\
  ANNOUNCE_LIMIT = Spec.ANNOUNCE_LIMIT /\ ELIGIBLE_FOR_DEDUP = Spec.ELIGIBLE_FOR_DEDUP /\
  HAS_RELATIVE_CONDITION = Spec.HAS_RELATIVE_CONDITION /\ ELIGIBLE_FOR_FF = Spec.ELIGIBLE_FOR_FF.
Proof. exact flags_are_consensus. Qed.

(* ---- stages S2/S3 (in progress): syntax / semantics split and the deferred validation ---- *)
From ChiaV.Cond Require Import Invariants Syntax Collect Rules Refine.

(* S2: parse_spends = syntax (the tree denotes spends with parsed conditions; depends only on the tree
   and the strictness flags) followed by semantics on the parsed bundle; both directions *)
Theorem C01_syntax_then_semantics : forall vk H K fl V t max_cost clvm_cost r,
  parse_spends vk H K fl V t max_cost clvm_cost = Ok r <->
  exists ps, tree_syntax fl t = Ok ps /\ bundle_sem vk H K fl V ps max_cost clvm_cost = Ok r.
Proof. exact parse_spends_split. Qed.

(* S3, deferred stage: after all spends and conditions have been applied, the bundle passes the
   deferred validation EXACTLY when: no value is minted and the reserved fee is covered, the absolute
   before/after locks are compatible, and every cross-spend assertion has its counterpart in the
   bundle — concurrent spend / puzzle, coin / puzzle announcements (id = H(coin id or puzzle hash ++
   message)), ASSERT_EPHEMERAL on a coin created by another spend of the bundle, no relative or birth
   condition on such a coin, and every message key sent as often as received *)
Theorem C01_deferred_validation_iff : forall vk H K fl V ps max_cost clvm_cost ret state cl,
  spends_sem vk H K fl V ps empty_bundle empty_state max_cost
             (if f_limit_spends fl then Some MAX_SPENDS_PER_BLOCK else None) clvm_cost = Ok (ret, state, cl) ->
  (validate_conditions H ret (post_process H V (fast_rev (b_spends_rev ret)) state) state = Ok tt <->
   b_addition ret + b_reserve_fee ret <= b_removal ret /\
   match b_before_height_absolute ret with Some bh => b_height_absolute ret < bh | None => True end /\
   match b_before_seconds_absolute ret with Some bs => b_seconds_absolute ret < bs | None => True end /\
   CrossRules H ps).
Proof. exact deferred_stage_iff. Qed.

(* whatever parse_spends accepts parses into a bundle satisfying every cross-spend rule *)
Theorem C01_accepted_satisfies_cross_rules : forall vk H K fl V t max_cost clvm_cost r,
  parse_spends vk H K fl V t max_cost clvm_cost = Ok r ->
  exists ps, tree_syntax fl t = Ok ps /\ CrossRules H ps.
Proof. exact accepted_satisfies_cross_rules. Qed.

(* S3: acceptance characterised over pure data.  parse_spends accepts a tree exactly when the tree
   parses syntactically into a bundle ps for which (a) the fold of per-condition guards — a boolean
   function of ps, the cost limit and the flags: self-assertions, duplicate outputs, relative-lock and
   birth consistency, reserve-fee range, key validity and the AGG_SIG_UNSAFE suffix ban, announcement
   count before the fork, cost budget, double spends, spend limit — is true, and (b) the bundle rules
   hold: value conservation, absolute before/after locks compatible, every cross-spend assertion
   matched.  No validation state appears on the right-hand side. *)
From ChiaV.Cond Require Import Guards Accept Totals Final.
Theorem C01_accept_characterisation : forall vk H K fl V t max_cost clvm_cost,
  (exists r, parse_spends vk H K fl V t max_cost clvm_cost = Ok r) <->
  exists ps,
    tree_syntax fl t = Ok ps /\
    spends_guards vk H K fl ps max_cost 0 [] (if f_limit_spends fl then Some MAX_SPENDS_PER_BLOCK else None) = true /\
    BundleRules H ps.
Proof. exact accept_characterisation. Qed.

(* the guards of one condition step, and that a step succeeds exactly when its guard holds *)
Theorem C01_step_guard_sound : forall vk K fl st cva st',
  apply_condition vk K fl st cva = Ok st' ->
  aguard vk K fl (acore_of st) cva = true /\ acore_of st' = aeffect fl (acore_of st) cva.
Proof. exact apply_condition_a. Qed.

Theorem C01_step_guard_complete : forall vk K fl st cva,
  aguard vk K fl (acore_of st) cva = true -> exists st', apply_condition vk K fl st cva = Ok st'.
Proof. exact apply_condition_ok. Qed.

(* S3 complete for accept/reject: the rules, fully declaratively.  A generator output is accepted
   exactly when it parses (list/terminator/argument rules, Syntax.v) into spends ps such that
   - no coin id occurs twice; at most 6000 spends under LIMIT_SPENDS;
   - the table cost (spend cost + per-condition cost + SOFTFORK arguments) is within the limit;
   - the reserved fees sum to less than 2^64;
   - every spend obeys the local rules: self-assertions equal the coin's attributes, keys are valid and
     not infinity and AGG_SIG_UNSAFE messages pass the suffix ban, message modes are valid, no two
     outputs with the same (puzzle hash, amount), every relative "after" bound below every relative
     "before" bound, birth assertions all equal, at most 1024 announcement-class conditions before the fork;
   - the bundle rules hold (value conservation, absolute locks, cross-spend assertions matched). *)
From ChiaV.Cond Require Import Local LocalRules Declarative.
Theorem C01_accept_iff_rules : forall vk H K fl V t max_cost clvm_cost,
  (exists r, parse_spends vk H K fl V t max_cost clvm_cost = Ok r) <->
  exists ps,
    tree_syntax fl t = Ok ps /\
    NoDup (map (pid H) ps) /\
    (f_limit_spends fl = true -> N.of_nat (length ps) <= MAX_SPENDS_PER_BLOCK) /\
    total_cost fl ps <= max_cost /\
    tot_fee ps < 2 ^ 64 /\
    Forall (LocalRules vk K fl H) ps /\
    BundleRules H ps.
Proof. exact accept_iff_rules. Qed.

(* the summary: an accepted result reports exactly what the rules derive from the parsed bundle —
   per spend (coin identity, created coins, relative locks as max/min, birth assertions, signature lists,
   the relative-condition flag) and per bundle (amounts, reserved fee, absolute locks as max/min, unsafe
   signatures, and the (key, message ++ attributes ++ constant) pairs handed to the verifier) *)
From ChiaV.Cond Require Import Summary.
Theorem C01_accepted_summary : forall vk H K fl V t max_cost clvm_cost b spends pairs,
  parse_spends vk H K fl V t max_cost clvm_cost = Ok (b, spends, pairs) ->
  exists ps,
    tree_syntax fl t = Ok ps /\
    Forall2 (fun s p => sident s = pident H p /\
                        sp_seconds_relative s = fold_left omax (flat_map c_sr (kn p)) None /\
                        sp_before_seconds_relative s = fold_left omin (flat_map c_bsr (kn p)) None /\
                        sp_height_relative s = fold_left omax (flat_map c_hr (kn p)) None /\
                        sp_before_height_relative s = fold_left omin (flat_map c_bhr (kn p)) None /\
                        sp_birth_seconds s = fold_left (fun _ v => Some v) (flat_map c_bsec (kn p)) None /\
                        sp_birth_height s = fold_left (fun _ v => Some v) (flat_map c_bhei (kn p)) None /\
                        sp_agg_sig s = flat_map c_sig (kn p) /\
                        sp_has_relative s = existsb relative_class (kn p)) spends ps /\
    b_removal b = tot_removal ps /\ b_addition b = tot_addition ps /\ b_reserve_fee b = tot_fee ps /\
    b_height_absolute b = fold_left N.max (flat_map c_ha (all_known ps)) 0 /\
    b_seconds_absolute b = fold_left N.max (flat_map c_sa (all_known ps)) 0 /\
    b_before_height_absolute b = fold_left omin (flat_map c_bha (all_known ps)) None /\
    b_before_seconds_absolute b = fold_left omin (flat_map c_bsa (all_known ps)) None /\
    b_agg_sig_unsafe b = all_unsafe ps /\
    pairs = (if f_dont_validate fl then [] else all_pairs H K ps).
Proof. exact accepted_summary. Qed.

(* the mempool eligibility flags of every reported spend (mempool visitor; the block visitor reports none):
   ELIGIBLE_FOR_DEDUP <=> no AGG_SIG_*, SEND_MESSAGE or RECEIVE_MESSAGE condition and created >= spent amount;
   ELIGIBLE_FOR_FF <=> odd amount, only fast-forward-compatible conditions (ff_ok: no coin-id / relative / birth /
   ephemeral assertion, no coin announcement, no signature or message committing to the parent, ASSERT_MY_PARENT_ID
   only as the second condition), an output re-creating the same puzzle hash and amount, no
   ASSERT_CONCURRENT_SPEND of the bundle naming this coin and none of its outputs spent in the same bundle *)
From ChiaV.Cond Require Import Flags.
Theorem C01_accepted_flags : forall vk H K fl V t max_cost clvm_cost b spends pairs,
  parse_spends vk H K fl V t max_cost clvm_cost = Ok (b, spends, pairs) ->
  exists ps, tree_syntax fl t = Ok ps /\
    Forall2 (fun s p => sp_ff s = ff_rule H V ps p /\ sp_dedup s = dedup_rule V p) spends ps.
Proof. exact accepted_flags. Qed.
