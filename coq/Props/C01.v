(* Props/C01.v — property C01, stage S1: the tables the rules are written in and the
   classification of opcodes, over definitions translated from the Rust source on this run.
   (S2/S3 — refinement of the whole mirror to a declarative rule set — see DESIGN §5 C01.) *)
From ChiaV.Base Require Import Bytes.
From ChiaV.Clvm Require Import Sexp Ints.
From ChiaV.Gen Require Import Opcodes.
From ChiaV.Cond Require Import Model Spec Facts.
Open Scope N_scope.

(* the condition codes in opcodes.rs are the consensus codes *)
Theorem C01_opcodes_are_consensus :
  [REMARK; AGG_SIG_PARENT; AGG_SIG_PUZZLE; AGG_SIG_AMOUNT; AGG_SIG_PUZZLE_AMOUNT; AGG_SIG_PARENT_AMOUNT;
   AGG_SIG_PARENT_PUZZLE; AGG_SIG_UNSAFE; AGG_SIG_ME; CREATE_COIN; RESERVE_FEE; CREATE_COIN_ANNOUNCEMENT;
   ASSERT_COIN_ANNOUNCEMENT; CREATE_PUZZLE_ANNOUNCEMENT; ASSERT_PUZZLE_ANNOUNCEMENT; ASSERT_CONCURRENT_SPEND;
   ASSERT_CONCURRENT_PUZZLE; SEND_MESSAGE; RECEIVE_MESSAGE; ASSERT_MY_COIN_ID; ASSERT_MY_PARENT_ID;
   ASSERT_MY_PUZZLEHASH; ASSERT_MY_AMOUNT; ASSERT_MY_BIRTH_SECONDS; ASSERT_MY_BIRTH_HEIGHT; ASSERT_EPHEMERAL;
   ASSERT_SECONDS_RELATIVE; ASSERT_SECONDS_ABSOLUTE; ASSERT_HEIGHT_RELATIVE; ASSERT_HEIGHT_ABSOLUTE;
   ASSERT_BEFORE_SECONDS_RELATIVE; ASSERT_BEFORE_SECONDS_ABSOLUTE; ASSERT_BEFORE_HEIGHT_RELATIVE;
   ASSERT_BEFORE_HEIGHT_ABSOLUTE; SOFTFORK]
  = Spec.known_one_byte.
Proof. exact opcodes_are_consensus. Qed.

(* which atoms are condition codes: the whitelist of parse_opcode (translated) accepts exactly the
   35 consensus one-byte codes, plus every two-byte atom whose first byte is non-zero *)
Theorem C01_parse_opcode_spec : forall t op,
  parse_opcode t = Some op <->
  (exists b, t = Atom [b] /\ op = b2n b /\ In op Spec.known_one_byte) \/
  (exists b0 b1, t = Atom [b0; b1] /\ b2n b0 <> 0 /\ op = b2n b0 * 256 + b2n b1).
Proof. exact parse_opcode_spec. Qed.

(* flag bits, limits and spend-flag bits are the consensus values *)
Theorem C01_flags_are_consensus :
  FLAG_DONT_VALIDATE_SIGNATURE = Spec.DONT_VALIDATE_SIGNATURE /\ FLAG_NO_UNKNOWN_CONDS = Spec.NO_UNKNOWN_CONDS /\
  FLAG_STRICT_ARGS_COUNT = Spec.STRICT_ARGS_COUNT /\ FLAG_COST_CONDITIONS = Spec.COST_CONDITIONS /\
  FLAG_LIMIT_SPENDS = Spec.LIMIT_SPENDS /\ MAX_SPENDS_PER_BLOCK = Spec.MAX_SPENDS_PER_BLOCK /\
  ANNOUNCE_LIMIT = Spec.ANNOUNCE_LIMIT /\ ELIGIBLE_FOR_DEDUP = Spec.ELIGIBLE_FOR_DEDUP /\
  HAS_RELATIVE_CONDITION = Spec.HAS_RELATIVE_CONDITION /\ ELIGIBLE_FOR_FF = Spec.ELIGIBLE_FOR_FF.
Proof. exact flags_are_consensus. Qed.
