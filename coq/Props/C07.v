(* Props/C07.v — property C07 (both block-generator execution paths agree): statements only.
   Each theorem is closed by `exact`.

   legacy = run_block_generator  (generator ROM evaluated inside CLVM, then parse_spends)
   native = run_block_generator2 (the ROM's loop in Rust, fused with process_single_spend)
   Both are mirrors over the Cond mirror (Cond/Model.v); CLVM evaluation is the oracle `run`
   constrained by `run_oracle_ok` (Chain/GeneratorSpec.v). *)
From ChiaV.Base Require Import Bytes.
From ChiaV.Clvm Require Import Sexp TreeHash.
From ChiaV.Gen Require Import ChainConsts.
From ChiaV.Cond Require Import Model.
From ChiaV.Chain Require Import Backref Rom Generator GeneratorSpec RomProofs GeneratorProofs.
Open Scope N_scope.

(* For every program, block references, flags and limit for which neither side runs out of cost or
   interpreter resources: legacy accepts iff native accepts, and then spends, conditions, amounts, fee,
   locks, condition cost and signature pairs are equal, the native path executes for no more, and (outside
   INTERNED_GENERATOR mode) costs no more in total.  (Since fix e4597dd2 both paths reject block references
   under SIMPLE_GENERATOR, so no premise about them is needed.) *)
Theorem C07_agree : forall run valid_key sig_ok H K, run_oracle_ok run H ->
  forall program refs max_cost gf,
    max_cost <= COST_MAX ->
    run_block_generator run valid_key sig_ok H K program refs max_cost gf <> Err CostExceeded ->
    run_block_generator2 run valid_key sig_ok H K program refs max_cost gf <> Err CostExceeded ->
    ((exists s1, run_block_generator run valid_key sig_ok H K program refs max_cost gf = Ok s1) <->
     (exists s2, run_block_generator2 run valid_key sig_ok H K program refs max_cost gf = Ok s2)) /\
    (forall s1 s2, run_block_generator run valid_key sig_ok H K program refs max_cost gf = Ok s1 ->
                   run_block_generator2 run valid_key sig_ok H K program refs max_cost gf = Ok s2 ->
                   same_summary gf s1 s2).
Proof. exact agree_thm. Qed.

(* the only permitted asymmetry: where the native path accepts, the legacy path either agrees or fails
   by exhausting cost / interpreter resources *)
Theorem C07_cost_asymmetry : forall run valid_key sig_ok H K, run_oracle_ok run H ->
  forall program refs max_cost gf s2,
    max_cost <= COST_MAX ->
    run_block_generator2 run valid_key sig_ok H K program refs max_cost gf = Ok s2 ->
    run_block_generator run valid_key sig_ok H K program refs max_cost gf = Err CostExceeded \/
    exists s1, run_block_generator run valid_key sig_ok H K program refs max_cost gf = Ok s1 /\ same_summary gf s1 s2.
Proof. exact asymmetry_thm. Qed.

(* list shapes: extract_n::<5> succeeds exactly where the ROM's destructuring succeeds *)
Theorem C07_spend_tuple_shape : forall spend,
  (exists x, extract_5 spend = Ok x) <-> (exists y, rom_destructure spend = Ok y).
Proof. exact spend_shape. Qed.

(* a non-nil atom terminating the spend list is rejected on both sides: the ROM raises on (f atom) ... *)
Theorem C07_non_nil_terminator_rom : forall run H t, terminator t <> [] -> exists e, recurse run H t = Err e.
Proof. exact non_nil_terminator_rom. Qed.

(* ... and the native loop stops at exactly that atom, which the explicit check after the loop rejects *)
Theorem C07_non_nil_terminator_native : forall run vk H K fl t ret st m ex sl r s l e' term,
  native_loop run vk H K t ret st m ex sl fl = Ok (r, s, l, e', term) -> term = Atom (terminator t).
Proof. exact non_nil_terminator_native. Qed.

(* the condition mirror does not depend on the budget or on the execution cost it is told, up to CostExceeded *)
Theorem C07_spend_budget_independent : forall valid_key K fl H retN st parent ph amount conds mL mN c,
  process_single_spend valid_key H K fl VEmpty (erase_b retN) st parent ph amount conds mL 0 <> Err CostExceeded ->
  process_single_spend valid_key H K fl VEmpty retN st parent ph amount conds mN c <> Err CostExceeded ->
  match process_single_spend valid_key H K fl VEmpty (erase_b retN) st parent ph amount conds mL 0,
        process_single_spend valid_key H K fl VEmpty retN st parent ph amount conds mN c return Prop with
  | Ok (rL, sL, lL), Ok (rN, sN, lN) => rL = erase_b rN /\ sL = sN /\ lL <= mL /\ lN <= mN /\ mL - lL = mN - lN
  | Err _, Err _ => True
  | _, _ => False
  end.
Proof. exact psp_agree. Qed.

(* the generator receives the same deserializer program on both paths *)
Theorem C07_rom_deserializer_is_native_deserializer : rom_local_deserialize_mod = DESERIALIZER.
Proof. exact rom_deserializer_const. Qed.

(* the ROM's puzzle hash is the tree hash the native path computes *)
Theorem C07_rom_sha256tree_is_tree_hash : forall H t, sha256tree H t = th H t.
Proof. exact sha256tree_th. Qed.

(* REFUTED clause (known finding F-C07-2): in INTERNED_GENERATOR mode the native path's total cost
   exceeds the legacy path's (interned storage cost > byte cost + ROM overhead) *)
Theorem C07_interned_cost_refuted :
  exists run H, run_oracle_ok run H /\
  exists vk sig K program refs max_cost gf s1 s2,
    g_interned gf = true /\ max_cost <= COST_MAX /\
    run_block_generator run vk sig H K program refs max_cost gf = Ok s1 /\
    run_block_generator2 run vk sig H K program refs max_cost gf = Ok s2 /\
    b_cost (fst (fst s1)) < b_cost (fst (fst s2)).
Proof. exact interned_cost_refuted. Qed.

(* non-vacuity: the hypotheses are satisfiable, with a one-spend generator accepted by both paths *)
Theorem C07_hypotheses_satisfiable :
  exists run H, run_oracle_ok run H /\
  exists vk sig K program refs max_cost gf s1 s2,
    max_cost <= COST_MAX /\
    run_block_generator run vk sig H K program refs max_cost gf = Ok s1 /\
    run_block_generator2 run vk sig H K program refs max_cost gf = Ok s2 /\
    length (snd (fst s1)) = 1%nat /\ b_cost (fst (fst s2)) < b_cost (fst (fst s1)).
Proof. exact hypotheses_satisfiable. Qed.
