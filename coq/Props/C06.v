(* Props/C06.v *)
From ChiaV.Base Require Import Bytes.
