(* Props/C06.v — property C06, first clause: statements only. *)
From ChiaV.Base Require Import Bytes.
From ChiaV.Clvm Require Import Sexp Ints.
From ChiaV.Cond Require Import Model Strict.
Open Scope N_scope.

(* Clearing any of NO_UNKNOWN_CONDS / STRICT_ARGS_COUNT / LIMIT_SPENDS (same fork flags, same
   signature mode) never turns an accepted bundle into a rejected one and never changes the result:
   for every tree, visitor, limit, key oracle and hash function. *)
Theorem C06_strict_implies_lenient : forall vk H K V fl fl',
  (f_cost_conds fl' = f_cost_conds fl /\ f_dont_validate fl' = f_dont_validate fl /\
   (f_no_unknown fl' = true -> f_no_unknown fl = true) /\
   (f_strict fl' = true -> f_strict fl = true) /\
   (f_limit_spends fl' = true -> f_limit_spends fl = true)) ->
  forall t max_cost clvm_cost r,
  parse_spends vk H K fl V t max_cost clvm_cost = Ok r ->
  parse_spends vk H K fl' V t max_cost clvm_cost = Ok r.
Proof. exact strict_implies_lenient. Qed.

(* the same holds one level down, for the argument parser of a single condition *)
Theorem C06_parse_args_strict_implies_lenient : forall fl fl',
  (f_cost_conds fl' = f_cost_conds fl /\ f_dont_validate fl' = f_dont_validate fl /\
   (f_no_unknown fl' = true -> f_no_unknown fl = true) /\
   (f_strict fl' = true -> f_strict fl = true) /\
   (f_limit_spends fl' = true -> f_limit_spends fl = true)) ->
  forall c op cva, parse_args fl c op = Ok cva -> parse_args fl' c op = Ok cva.
Proof. exact parse_args_weaker. Qed.

(* Second clause.  Two generator outputs whose parsed bundles are reorderings of each other — spends
   permuted, conditions permuted inside spends (bundle_perm) — are accepted alike, and the table cost,
   the reserved fee, the amounts and the multiset of all conditions (hence every max/min/sum aggregate of
   the summary) are equal.  Listing order and the positional fast-forward flag are outside the statement. *)
From ChiaV.Cond Require Import Syntax Collect Totals Final Declarative Perm.
From Coq Require Import Permutation.
Theorem C06_permutation_invariance : forall vk H K fl V t t' ps ps' max_cost clvm_cost,
  tree_syntax fl t = Ok ps -> tree_syntax fl t' = Ok ps' -> bundle_perm ps ps' ->
  ((exists r, parse_spends vk H K fl V t max_cost clvm_cost = Ok r) <->
   (exists r, parse_spends vk H K fl V t' max_cost clvm_cost = Ok r)) /\
  total_cost fl ps = total_cost fl ps' /\ tot_fee ps = tot_fee ps' /\ tot_removal ps = tot_removal ps' /\
  tot_addition ps = tot_addition ps' /\ Permutation (all_known ps) (all_known ps').
Proof. exact permutation_invariance. Qed.
