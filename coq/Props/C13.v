(* Props/C13.v — property C13: statements only.  Each theorem is closed by `exact`.
   All theorems quantify over EVERY type of the universe `ty` (hence over every descriptor of
   Gen/StreamTypes.v, translated from the Rust source on each run), every value / byte string, both
   decoding modes `tr` (true = from_bytes_unchecked, false = from_bytes), and an arbitrary oracle O for
   blst / clvmr / chia-pos2 subject to the hypotheses written out in each statement:
     prog_len_stable_hyp  the CLVM length function only depends on the bytes it counts
     prog_len_pos_hyp     a CLVM serialization has at least one byte
     prog_len_trust_hyp   what the validating length function accepts, the trusting one measures alike *)
From Coq Require Import String.
From ChiaV.Base Require Import Bytes.
From ChiaV.Stream Require Import Universe Versioned Codec CodecProofs.
From ChiaV.Gen Require Import StreamTypes.
Open Scope N_scope.

(* canonicity: whatever decodes is well formed and is exactly its own encoding followed by the rest *)
Theorem C13_decode_canonical : forall O, prog_len_stable_hyp O -> forall tr t bs v r,
  decode O tr t bs = Some (v, r) ->
  wf O tr t v = true /\ exists e, encode t v = Some e /\ bs = e ++ r.
Proof. exact decode_sound. Qed.

(* round trip: every well-formed value encodes, and decoding the encoding (followed by anything) returns it *)
Theorem C13_encode_decode_roundtrip : forall O, prog_len_stable_hyp O -> prog_len_pos_hyp O -> forall tr t v,
  wf O tr t v = true ->
  exists e, encode t v = Some e /\ forall r, decode O tr t (e ++ r) = Some (v, r).
Proof. exact encode_decode. Qed.

(* from_bytes level: re-encoding an accepted input reproduces exactly those bytes *)
Theorem C13_from_bytes_reencodes : forall O, prog_len_stable_hyp O -> forall tr t bs v,
  from_bytes_gen O tr t bs = Some v -> wf O tr t v = true /\ encode t v = Some bs.
Proof. exact from_bytes_canonical. Qed.

(* each value has one encoding (across both decoding modes) *)
Theorem C13_one_encoding_per_value : forall O, prog_len_stable_hyp O -> forall tr tr' t bs bs' v,
  from_bytes_gen O tr t bs = Some v -> from_bytes_gen O tr' t bs' = Some v -> bs = bs'.
Proof. exact one_encoding_per_value. Qed.

Theorem C13_to_bytes_from_bytes : forall O, prog_len_stable_hyp O -> prog_len_pos_hyp O -> forall tr t v,
  wf O tr t v = true -> exists e, encode t v = Some e /\ from_bytes_gen O tr t e = Some v.
Proof. exact to_bytes_from_bytes. Qed.

(* the streaming hash is H of the encoding (H arbitrary: holds for the real SHA-256) for every value that holds
   no v2 proof of space ... *)
Theorem C13_hash_is_H_of_encoding : forall O tr (H : bytes -> bytes) t v e,
  wf O tr t v = true -> has_v2_pos t v = false -> encode t v = Some e -> hash_of H O t v = Some (H e).
Proof. exact hash_is_hash_of_encoding. Qed.

(* ... and for a v2 proof of space the digest input is the encoding with the (length-prefixed) proof replaced by
   its quality-string commitment; without a quality string update_digest panics (this is finding F-C14-1) *)
Theorem C13_pos_v2_hash_commits_to_quality : forall O tr v,
  wf_pos O tr v = true -> pos_is_v2 v = true ->
  exists head pf, enc_pos v = Some (head ++ n2be 4 (nlen pf) ++ pf) /\
    dig_pos O v = match quality O (head ++ n2be 4 (nlen pf) ++ pf) with
                  | Some q => DOk (head ++ q)
                  | None => DPanic
                  end.
Proof. exact dig_pos_v2. Qed.

(* trusted decoding accepts everything untrusted decoding accepts, with the same value and rest *)
Theorem C13_untrusted_implies_trusted : forall O, prog_len_trust_hyp O -> forall t bs v r,
  decode O false t bs = Some (v, r) -> decode O true t bs = Some (v, r).
Proof. exact untrusted_trusted. Qed.
Theorem C13_from_bytes_unchecked_superset : forall O, prog_len_trust_hyp O -> forall t bs v,
  from_bytes O t bs = Some v -> from_bytes_unchecked O t bs = Some v.
Proof. exact from_bytes_unchecked_superset. Qed.

(* lengths of 2^32 or more do not encode *)
Theorem C13_vec_too_long_fails : forall a l, 2 ^ 32 <= N.of_nat (length l) -> encode (Vec a) (VList l) = None.
Proof. exact encode_vec_too_long. Qed.
Theorem C13_bytes_too_long_fails : forall b, 2 ^ 32 <= nlen b -> encode Bytes (VBytes b) = None.
Proof. exact encode_bytes_too_long. Qed.

(* from_bytes / from_bytes_unchecked accept only when the parser consumed the whole input *)
Theorem C13_from_bytes_consumes_all : forall O tr t bs v,
  from_bytes_gen O tr t bs = Some v -> decode O tr t bs = Some (v, []).
Proof. exact from_bytes_gen_decode. Qed.

(* the oracle hypotheses are satisfiable *)
Theorem C13_hypotheses_satisfiable :
  prog_len_stable_hyp toy_oracles /\ prog_len_pos_hyp toy_oracles /\ prog_len_trust_hyp toy_oracles.
Proof. exact toy_oracles_ok. Qed.
