(* Props/C13.v — property C13: statements only.  Each theorem is closed by `exact`. *)
From Coq Require Import String.
From ChiaV.Base Require Import Bytes.
From ChiaV.Stream Require Import Universe Versioned Codec CodecProofs.
From ChiaV.Gen Require Import StreamTypes.
Open Scope N_scope.

(* from_bytes / from_bytes_unchecked accept only when the parser consumed the whole input *)
Theorem C13_from_bytes_consumes_all : forall O tr t bs v,
  from_bytes_gen O tr t bs = Some v -> decode O tr t bs = Some (v, []).
Proof. exact from_bytes_gen_decode. Qed.
