(* Props/C18.v — property C18: statements only.  Each theorem is closed by `exact`.

   Layers: L0 plain map (Dl/Map.v), L1 tree (Dl/Tree.v), L2 blob mirror (Dl/Blob.v).
   H : bytes -> bytes is an arbitrary hash function; the only assumption made of it is that it never
   returns the empty string (the Auto insert location reads a seed byte), stated where needed.
   After the repairs a9e08b84 / c5be66b8 / 9e5ac516 in /repo there is no KnownClass any more: the former
   classes (batch with a duplicate, upsert with another leaf's hash, insert at a stale index) are ordinary
   rejected operations of the mirror and are covered by the theorems below without extra hypotheses. *)
From Coq Require Import Permutation.
From ChiaV.Base Require Import Bytes Sha256.
From ChiaV.Gen Require Import Dl.
From ChiaV.Dl Require Import Format Map Tree Blob Abs Inv History Spec PreFix FormatProofs Refuted TreeProofs BlobLemmas BlobOps BlobOps6 BlobOps7 BlobHash BlobProof BlobReload BlobIntegrity BlobOps8.
Open Scope N_scope.

(* ================= L1 -> L0, all histories ================= *)

(* every L1 operation has the effect of the plain-map operation:
   same success/failure, the refinement relation (same entries, duplicate-free keys and hashes,
   tree well-formed) is preserved, and a failed operation leaves the tree unchanged *)
Theorem C18_tree_op_refines_map : forall H, (forall x, H x <> []) -> forall o ot m,
  tree_refines H ot m ->
  let '(ok1, ot1) := step1 H o ot in
  let '(ok0, m0) := step0 o m in
  ok1 = ok0 /\ tree_refines H ot1 m0 /\ (ok1 = false -> ot1 = ot).
Proof. exact step_refines. Qed.

(* induction over the operation list, no bound *)
Theorem C18_tree_history_refines_map : forall H, (forall x, H x <> []) -> forall ops,
  tree_refines H (run1 H ops None) (run0 ops []).
Proof. intros H Hne ops. exact (history_refines H Hne ops None [] (R_empty H)). Qed.

(* lazy hashing: the root equals the independent recursive recomputation, everything is clean *)
Theorem C18_root_is_recomputation : forall H t, twf H t ->
  t_hash (t_rehash H t) = merkle H t /\ twf H (t_rehash H t) /\ t_all_clean (t_rehash H t) = true.
Proof. intros H t Hw. split; [exact (rehash_root H t Hw)|exact (rehash_twf H t Hw)]. Qed.

(* on a hashed tree every key has a proof of inclusion that is valid, ends in the root and starts
   at the leaf hash the map holds for the key *)
Theorem C18_proofs_valid : forall H t k, twf H t -> t_all_clean t = true -> In k (tkeys t) ->
  exists p, t_proof k t = Some p /\ proof_valid H p = true /\ proof_root_hash p = t_hash t /\
            exists v, m_get k (t_kv t) = Some (v, p_node_hash p).
Proof. exact proofs_valid. Qed.

(* the two together, for every history followed by calculate_lazy_hashes *)
Theorem C18_history_root_and_proofs : forall H, (forall x, H x <> []) -> forall ops,
  let m := run0 ops [] in
  match run1 H (ops ++ [THash]) None with
  | None => m = []
  | Some t =>
      Permutation (t_kv t) m /\ t_hash t = merkle H t /\
      forall k, m_mem k m = true ->
        exists p, t_proof k t = Some p /\ proof_valid H p = true /\ proof_root_hash p = t_hash t /\
                  exists v, m_get k m = Some (v, p_node_hash p)
  end.
Proof. exact history_root_and_proofs. Qed.

(* ================= L2: format ================= *)

(* every in-range block fits in BLOCK_SIZE bytes of the translated layout and decodes to itself *)
Theorem C18_block_codec : forall b, wf_block b ->
  exists bs, encode_block b = Ok bs /\ length bs = N.to_nat BLOCK_SIZE /\ decode_block bs = Ok b.
Proof. exact encode_block_ok. Qed.

(* ================= L2 -> L1, staged per operation ================= *)
(* Abs H s ot (Dl/Inv.v): s is the empty blob and ot = None, or Inv_tree H s t (the representation
   invariant: block 0 is the root, every node's block decodes to the node with the right parent and
   children, indexes distinct, free list = unreachable indexes, caches = leaves, ranges, L1 well-formed)
   and ot = Some (erase t).
   step_ok H o s ot t (Dl/Spec.v): the commuting square of one operation: no Panic / OutOfFuel, success
   iff the L1 operation succeeds, Abs for the results, a failed operation leaves the blob unchanged.
   Extra hypotheses, all forced by the proofs: H returns 32 bytes; inputs in i64 / Bytes32 range; the blob
   has room for two more blocks below 2^32 (TreeIndex is u32, the model does not wrap). *)

(* the Prop invariant implies what the executable abstraction computes on every history of the stream *)
Theorem C18_inv_abs : forall H s t, Inv_tree H s t -> abs s = Some (Some (erase t)).
Proof. exact Inv_tree_abs. Qed.

(* insert: every location (Auto walk, AsRoot, reference key, raw index of a live leaf / of an internal
   node / out of range / of a freed block with stale leaf bytes), every outcome (insert_first, insert_second,
   insert_third_or_later, rejected).  The stale index (former F-C18-4) is now a rejected location. *)
Theorem C18_blob_insert_refines_tree : forall H, (forall x, length (H x) = HASH_BYTES) ->
  forall s ot k v h loc,
  Abs H s ot -> in_range k v h -> room s ->
  step_ok H (OInsert k v h loc) s ot (op_to_top s (OInsert k v h loc)).
Proof. exact insert_step. Qed.

(* delete: absent key, last leaf (blob cleared), child of the root (sibling moved to index 0 and its
   children re-parented), inner leaf (sibling promoted, lineage marked dirty) *)
Theorem C18_blob_delete_refines_tree : forall H s ot k,
  Abs H s ot -> step_ok H (ODelete k) s ot (TDelete k).
Proof. exact delete_step. Qed.

(* upsert: present key (in place; rejected without any change if the new hash belongs to another leaf,
   former F-C18-2) or absent key (insert at Auto) *)
Theorem C18_blob_upsert_refines_tree : forall H, (forall x, length (H x) = HASH_BYTES) ->
  forall s ot k v h,
  Abs H s ot -> in_range k v h -> room s -> step_ok H (OUpsert k v h) s ot (TUpsert k v h).
Proof. exact upsert_step. Qed.

(* batch_insert, rejected case: a batch the plain map rejects (a key or hash already present or twice in the
   batch, former F-C18-1 / F-C18-3) is rejected by the blob as well and nothing changes *)
Theorem C18_blob_batch_rejects_duplicates : forall H s ot items,
  Abs H s ot -> m_batch items (ot_kv ot) = None ->
  exists e, step2 H (OBatch items) s = (Err e, s) /\ step1 H (TBatch items) ot = (false, ot).
Proof. exact batch_rejected_step. Qed.

(* under Abs and the L1 -> L0 relation, what get_keys_values returns is exactly the plain map *)
Theorem C18_blob_content_is_map : forall H s ot m, Abs H s ot -> tree_refines H ot m -> content_is s m.
Proof. exact content_is_map. Qed.

(* calculate_lazy_hashes: the iterator with the dirty predicate yields exactly the dirty internal nodes in
   post-order (dirty is upward closed, so a clean node hides nothing dirty); after it the blob represents
   t_rehash of the tree.  A dirty bit that is not propagated (upsert, insert, delete) breaks Inv (twf) and with
   it these proofs. *)
Theorem C18_blob_hash_refines_tree : forall H, (forall x, length (H x) = HASH_BYTES) ->
  forall s ot, Abs H s ot -> step_ok H OHash s ot THash.
Proof. exact hash_step. Qed.

(* after hashing, the root hash the blob hands out is the independent recursive recomputation over the
   tree, and no node is dirty *)
Theorem C18_blob_root_after_hashing : forall H, (forall x, length (H x) = HASH_BYTES) ->
  forall s t s', Inv_tree H s t -> calculate_lazy_hashes H s = (Ok tt, s') ->
  get_hash_at_index s' 0 = Ok (Some (merkle H (erase t))) /\
  abs s' = Some (Some (t_rehash H (erase t))) /\ t_all_clean (t_rehash H (erase t)) = true.
Proof. exact lazy_hashes_root. Qed.

(* on a blob without dirty nodes get_proof_of_inclusion returns exactly the L1 proof, which
   C18_proofs_valid shows valid, ending in the root and starting at the map's leaf hash *)
Theorem C18_blob_proof_is_tree_proof : forall H s t k,
  Inv_tree H s t -> t_all_clean (erase t) = true -> In k (it_keys t) ->
  exists p, get_proof_of_inclusion s k = Ok p /\ t_proof k (erase t) = Some p.
Proof. exact blob_proof_is_tree_proof. Qed.

(* check_integrity (both passes, with the lazy hashing of the clone in between) succeeds under Inv *)
Theorem C18_blob_check_integrity_ok : forall H, (forall x, length (H x) = HASH_BYTES) ->
  forall s t, Inv_tree H s t -> check_integrity H s = Ok tt.
Proof. exact integrity_ok. Qed.

(* MerkleBlob::new on the serialized bytes succeeds and gives an equivalent blob that satisfies Inv for
   the same tree *)
Theorem C18_blob_reload_equivalent : forall H s t, Inv_tree H s t ->
  exists s', reload (bytes_of_blocks (blocks s)) = Ok s' /\ blob_equiv s s' /\ Inv_tree H s' t.
Proof. exact reload_ok. Qed.

(* batch_insert, accepted case: the blob operation (the two leading inserts at the Auto location when the tree
   has at most one leaf, one new leaf block per remaining item, pairwise joining level by level, attachment
   left of the first leaf in breadth-first order) has exactly the effect of the L1 batch; Inv is preserved.
   room_for: a batch of n items needs at most 2 n + 2 new blocks below 2^32. *)
Theorem C18_blob_batch_refines_tree : forall H, (forall x, length (H x) = HASH_BYTES) ->
  forall s ot m items m',
  Abs H s ot -> tree_refines H ot m -> op_in_range (OBatch items) -> room_for (OBatch items) s ->
  m_batch items m = Some m' -> step_ok H (OBatch items) s ot (TBatch items).
Proof. exact accepted_batch_step. Qed.

(* THE END-TO-END STATEMENT, for ALL raw histories (induction over the operation list, no bound) of insert
   (any location), delete, upsert, batch_insert (accepted or rejected), calculate_lazy_hashes and reload:
   no operation panics or runs out of fuel, the final blob satisfies Inv, its content is the plain map the
   history produces, check_integrity = Ok tt, reloading its bytes gives an equivalent blob; it represents the
   L1 tree (abs), which refines the plain map.  Hypotheses: H returns 32 bytes; inputs in the range of the Rust
   types; before every operation the blob has room below 2^32 blocks (TreeIndex is u32; the model does not wrap). *)
Theorem C18_blob_history_refines_map : forall H, (forall x, length (H x) = HASH_BYTES) -> forall ops,
  Forall op_in_range ops -> rooms H ops empty_blob ->
  let '(s', m', fine) := run_joint H ops empty_blob [] in
  fine = true /\ Inv H s' /\ good_state H s' m' /\
  exists ot', Abs H s' ot' /\ abs s' = Some ot' /\ tree_refines H ot' m'.
Proof. intros H Hlen. exact (blob_history_good H Hlen). Qed.

(* alias under the former name (referred to by MANIFEST.json); the statement is the complete one above *)
Theorem C18_blob_history_refines_map_partial : forall H, (forall x, length (H x) = HASH_BYTES) -> forall ops,
  Forall op_in_range ops -> rooms H ops empty_blob ->
  let '(s', m', fine) := run_joint H ops empty_blob [] in
  fine = true /\ Inv H s' /\ good_state H s' m' /\
  exists ot', Abs H s' ot' /\ abs s' = Some ot' /\ tree_refines H ot' m'.
Proof. exact C18_blob_history_refines_map. Qed.

(* ================= non-vacuity ================= *)
Theorem C18_invariant_inhabited : exists s t, Inv_tree sha256 s t /\ abs s = Some (Some (erase t)).
Proof. exact inv_inhabited. Qed.

(* ================= the former finding classes (documentation of the pre-fix behaviour) ================= *)
(* On the operations as they were before the repairs (Dl/PreFix.v: insert_pre, batch_insert_pre, upsert_pre)
   the witness histories violate C18; on the repaired mirror the same calls return Err and change nothing. *)
(* former F-C18-1, fixed by a9e08b84 *)
Theorem C18_prefix_batch_duplicate_refuted :
  (let '(x, s) := batch_insert_pre sha256 w_batch_dup empty_blob in
   is_ok x = true /\ check_integrity sha256 s <> Ok tt) /\
  exists e, batch_insert sha256 w_batch_dup empty_blob = (Err e, empty_blob).
Proof. exact prefix_batch_duplicate_refuted. Qed.

(* former F-C18-2, fixed by c5be66b8 *)
Theorem C18_prefix_upsert_other_hash_refuted :
  let s3 := run2 sha256 w_three empty_blob in
  check_integrity sha256 s3 = Ok tt /\
  (let '(x, s) := upsert_pre sha256 1 5 (hh 2) s3 in
   is_ok x = true /\ check_integrity sha256 s <> Ok tt /\ is_ok (reload (bytes_of_blocks (blocks s))) = false) /\
  exists e, upsert sha256 1 5 (hh 2) s3 = (Err e, s3).
Proof. exact prefix_upsert_other_hash_refuted. Qed.

(* former F-C18-3, fixed by a9e08b84 *)
Theorem C18_prefix_batch_not_atomic_refuted :
  (let '(x, s) := batch_insert_pre sha256 w_batch_partial empty_blob in
   is_ok x = false /\ blocks s <> blocks empty_blob) /\
  exists e, batch_insert sha256 w_batch_partial empty_blob = (Err e, empty_blob).
Proof. exact prefix_batch_not_atomic_refuted. Qed.

(* former F-C18-4, fixed by 9e5ac516 *)
Theorem C18_prefix_stale_index_refuted :
  let s3 := run2 sha256 w_two_minus_one empty_blob in
  get_keys_values s3 = Ok [(1, 1)] /\
  (let '(x, s) := insert_pre sha256 3 3 (hh 3) (LLeaf 2 SLeft) s3 in
   is_ok x = true /\ get_keys_values s = Ok [(2, 2); (3, 3)]) /\
  exists e, insert sha256 3 3 (hh 3) (LLeaf 2 SLeft) s3 = (Err e, s3).
Proof. exact prefix_stale_index_refuted. Qed.
