(* Props/C18.v — property C18: statements only.  Each theorem is closed by `exact`.

   Layers: L0 plain map (Dl/Map.v), L1 tree (Dl/Tree.v), L2 blob mirror (Dl/Blob.v).
   H : bytes -> bytes is an arbitrary hash function; the only assumption made of it is that it never
   returns the empty string (the Auto insert location reads a seed byte), stated where needed.
   KnownClass = known_hist / known_top / known_hist2 (Dl/History.v): batch_insert the plain map rejects
   (duplicate key or hash: F-C18-1, F-C18-3), upsert with the hash of another leaf (F-C18-2),
   insert at a stale block index (F-C18-4). *)
From Coq Require Import Permutation.
From ChiaV.Base Require Import Bytes Sha256.
From ChiaV.Gen Require Import Dl.
From ChiaV.Dl Require Import Format Map Tree Blob Abs Inv History Spec FormatProofs Refuted TreeProofs BlobLemmas BlobOps.
Open Scope N_scope.

(* ================= L1 -> L0, all histories ================= *)

(* every L1 operation outside the known classes has the effect of the plain-map operation:
   same success/failure, the refinement relation (same entries, duplicate-free keys and hashes,
   tree well-formed) is preserved, and a failed operation leaves the tree unchanged *)
Theorem C18_tree_op_refines_map : forall H, (forall x, H x <> []) -> forall o ot m,
  tree_refines H ot m -> known_top m o = false ->
  let '(ok1, ot1) := step1 H o ot in
  let '(ok0, m0) := step0 o m in
  ok1 = ok0 /\ tree_refines H ot1 m0 /\ (ok1 = false -> ot1 = ot).
Proof. exact step_refines. Qed.

(* induction over the operation list, no bound *)
Theorem C18_tree_history_refines_map : forall H, (forall x, H x <> []) -> forall ops,
  known_hist ops [] = false -> tree_refines H (run1 H ops None) (run0 ops []).
Proof. intros H Hne ops. exact (history_refines H Hne ops None [] (R_empty H)). Qed.

(* lazy hashing: the root equals the independent recursive recomputation, everything is clean *)
Theorem C18_root_is_recomputation : forall H t, twf H t ->
  t_hash (t_rehash H t) = merkle H t /\ twf H (t_rehash H t) /\ t_all_clean (t_rehash H t) = true.
Proof. intros H t Hw. split; [exact (rehash_root H t Hw)|exact (rehash_twf H t Hw)]. Qed.

(* on a hashed tree every key has a proof of inclusion that is valid, ends in the root and starts
   at the leaf hash the map holds for the key *)
Theorem C18_proofs_valid : forall H t k, twf H t -> t_all_clean t = true -> In k (tkeys t) ->
  exists p, t_proof k t = Some p /\ proof_valid H p = true /\ proof_root_hash p = t_hash t /\
            exists v, m_get k (t_kv t) = Some (v, p_node_hash p).
Proof. exact proofs_valid. Qed.

(* the two together, for every history followed by calculate_lazy_hashes *)
Theorem C18_history_root_and_proofs : forall H, (forall x, H x <> []) -> forall ops,
  known_hist ops [] = false ->
  let m := run0 ops [] in
  match run1 H (ops ++ [THash]) None with
  | None => m = []
  | Some t =>
      Permutation (t_kv t) m /\ t_hash t = merkle H t /\
      forall k, m_mem k m = true ->
        exists p, t_proof k t = Some p /\ proof_valid H p = true /\ proof_root_hash p = t_hash t /\
                  exists v, m_get k m = Some (v, p_node_hash p)
  end.
Proof. exact history_root_and_proofs. Qed.

(* ================= L2: format ================= *)

(* every in-range block fits in BLOCK_SIZE bytes of the translated layout and decodes to itself *)
Theorem C18_block_codec : forall b, wf_block b ->
  exists bs, encode_block b = Ok bs /\ length bs = N.to_nat BLOCK_SIZE /\ decode_block bs = Ok b.
Proof. exact encode_block_ok. Qed.

(* ================= L2 -> L1, staged per operation ================= *)

(* the Prop invariant implies what the executable abstraction computes on every history of the stream *)
Theorem C18_inv_abs : forall H s t, Inv_tree H s t -> abs s = Some (Some (erase t)).
Proof. exact Inv_tree_abs. Qed.

(* mark_lineage_as_dirty: marks exactly the ancestors (stopping early is sound because dirty is
   upward closed), touches no other block, no cache, not the free list *)
Theorem C18_blob_mark_lineage : forall c s hole fuel,
  ctx_rep s c hole -> closed c -> blen_ok s -> NoDup (ctx_indices c) -> hole < 2 ^ 32 -> Forall wf_frame c ->
  (forall f, In f c -> ~ In (fr_idx f) (free s)) ->
  (length c < fuel)%nat ->
  match c with
  | [] => True
  | f :: _ =>
      exists s', mark_lineage fuel (fr_idx f) s = (Ok tt, s') /\
        ctx_rep s' (map set_dirty c) hole /\
        (forall j, ~ In j (map fr_idx c) -> get_block s' j = get_block s j) /\
        nblocks s' = nblocks s /\ blen_ok s' /\ free s' = free s /\ k2i s' = k2i s /\ h2i s' = h2i s
  end.
Proof. exact mark_ctx. Qed.

(* upsert of a present key: Inv preserved, L1 effect.  The hypothesis on h is exactly the
   complement of class F-C18-2 and is what the proof needs (the code does not check it). *)
Theorem C18_blob_upsert_refines_tree : forall H s t k v h,
  Inv_tree H s t -> v < 2 ^ 64 -> length h = HASH_BYTES ->
  In k (it_keys t) ->
  (forall i' k' v', In (i', k', v', h) (it_leaves t) -> k' = k) ->
  exists s' t', upsert H k v h s = (Ok tt, s') /\ Inv_tree H s' t' /\
    t_upsert H k v h (Some (erase t)) = (true, Some (erase t')).
Proof. exact upsert_existing. Qed.

(* insert into the empty blob (Auto or AsRoot) *)
Theorem C18_blob_insert_first_refines_tree : forall H k v h loc,
  k < 2 ^ 64 -> v < 2 ^ 64 -> length h = HASH_BYTES -> loc = LAuto \/ loc = LRoot ->
  exists s', insert H k v h loc empty_blob = (Ok 0, s') /\ Inv_tree H s' (ILeaf 0 k v h) /\
    t_insert H k v h (match loc with LAuto => TAuto | _ => TRoot end) None = (true, Some (erase (ILeaf 0 k v h))).
Proof. exact insert_first_ok. Qed.

(* delete of the only leaf clears the blob *)
Theorem C18_blob_delete_last_refines_tree : forall H s i k v h,
  Inv_tree H s (ILeaf i k v h) ->
  delete k s = (Ok tt, empty_blob) /\ t_delete k (Some (erase (ILeaf i k v h))) = (true, None).
Proof. exact delete_last_ok. Qed.

(* FULL STATEMENT (not proved; see notes/dl.md):
     forall H ops, (forall x, H x <> []) -> ops_in_range ops -> known_hist2 H ops empty_blob [] = false ->
       let '(s, m, fine) := run_joint H ops empty_blob [] in
       fine = true /\ Inv H s /\ good_state H s m
   i.e. every operation preserves Inv with the L1 effect, check_integrity = Ok, reload (bytes s) equivalent to s.
   Proved: the theorems above (insert into empty, delete of the last leaf, upsert of a present key,
   mark_lineage_as_dirty, the codec, Inv => abs).  Missing: insert_second / insert_third_or_later / Auto walk,
   delete with sibling promotion, batch_insert, calculate_lazy_hashes, check_integrity and reload from Inv.
   For those the link is validated by execution: abs, inv_b, reload equivalence and the L1 step are
   evaluated by the model runner after every operation of every history (flag 'a' in stream dl.hist). *)
Theorem C18_blob_history_refines_map_partial : forall H s t k v h,
  Inv_tree H s t -> v < 2 ^ 64 -> length h = HASH_BYTES -> In k (it_keys t) ->
  (forall i' k' v', In (i', k', v', h) (it_leaves t) -> k' = k) ->
  exists s' t', step2 H (OUpsert k v h) s = (Ok None, s') /\ Inv_tree H s' t' /\
    abs s = Some (Some (erase t)) /\ abs s' = Some (Some (erase t')) /\
    step1 H (TUpsert k v h) (Some (erase t)) = (true, Some (erase t')).
Proof. exact upsert_step_link. Qed.

(* ================= non-vacuity ================= *)
Example C18_invariant_inhabited : exists s t, Inv_tree sha256 s t /\ abs s = Some (Some (erase t)).
Proof. exact inv_inhabited. Qed.

(* ================= known finding classes: the faithful model violates C18 there ================= *)
(* F-C18-1 *)
Theorem C18_batch_duplicate_refuted :
  exists items, known_top [] (TBatch items) = true /\
    let '(x, s) := step2 sha256 (OBatch items) empty_blob in
    is_ok x = true /\ check_integrity sha256 s <> Ok tt.
Proof. exact batch_duplicate_refuted. Qed.

(* F-C18-2 *)
Theorem C18_upsert_other_hash_refuted :
  exists ops, known_hist2 sha256 ops empty_blob [] = true /\
    let s3 := run2 sha256 (removelast ops) empty_blob in
    let '(x, s) := step2 sha256 (last ops OHash) s3 in
    check_integrity sha256 s3 = Ok tt /\ is_ok x = true /\
    check_integrity sha256 s <> Ok tt /\ is_ok (reload (bytes_of_blocks (blocks s))) = false.
Proof. exact upsert_other_hash_refuted. Qed.

(* F-C18-3 *)
Theorem C18_batch_not_atomic_refuted :
  exists o, known_top [] (match op_to_top empty_blob o with Some t => t | None => THash end) = true /\
    let '(x, s) := step2 sha256 o empty_blob in
    is_ok x = false /\ blocks s <> blocks empty_blob.
Proof. exact batch_not_atomic_refuted. Qed.

(* F-C18-4 *)
Theorem C18_stale_index_refuted :
  exists ops, known_hist2 sha256 ops empty_blob [] = true /\
    let s3 := run2 sha256 (removelast ops) empty_blob in
    let '(x, s) := step2 sha256 (last ops OHash) s3 in
    get_keys_values s3 = Ok [(1, 1)] /\ is_ok x = true /\
    get_keys_values s = Ok [(2, 2); (3, 3)].
Proof. exact stale_index_refuted. Qed.
