(* Props/C08.v — "What the mempool validated is what the block yields": statements only. *)
From ChiaV.Base Require Import Bytes.
From ChiaV.Clvm Require Import Sexp Ints.
From ChiaV.Bundle Require Import SolutionGen SexpProofs SolutionGenProofs.
Open Scope N_scope.

(* (1) the plain serializer is inverted by the plain deserializer, for every tree it can serialize
   (atoms below 2^34 bytes), whatever follows in the buffer *)
Theorem C08_roundtrip : forall (t : sexp) (b rest : bytes),
  ser t = Some b -> deser (b ++ rest) = Some (t, rest).
Proof. exact deser_ser. Qed.

Theorem C08_node_from_bytes_ser : forall (t : sexp) (b : bytes), ser t = Some b -> node_from_bytes b = Some t.
Proof. exact node_from_bytes_ser. Qed.

(* (4) the predicted generator length is the actual length of the plain generator, for all bundles of
   plainly serialized reveals/solutions, 32-byte parent ids and u64 amounts *)
Theorem C08_length : forall spends : list cspend,
  Forall plain_spend spends ->
  option_map nlen (solution_generator spends) = Some (calculate_generator_length spends).
Proof. exact generator_length. Qed.

(* non-vacuity: a one-spend bundle with puzzle (q . nil), solution nil and amount 2^63 satisfies the hypothesis *)
Theorem C08_length_nonvacuous :
  let s := {| cs_parent := repeat_byte 32 x07; cs_ph := []; cs_amount := 2 ^ 63;
              cs_puzzle := [xff; x01; x80]; cs_solution := [x80] |} in
  Forall plain_spend [s] /\ option_map nlen (solution_generator [s]) = Some 58.
Proof.
  split.
  - constructor; [|constructor]. split; [exists (Pair (Atom [x01]) nil); reflexivity|].
    split; [exists nil; reflexivity|]. split; [reflexivity|]. cbn. lia.
  - vm_compute. reflexivity.
Qed.
