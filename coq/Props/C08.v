(* Props/C08.v — "What the mempool validated is what the block yields": statements only. *)
From ChiaV.Base Require Import Bytes.
From ChiaV.Clvm Require Import Sexp Ints.
From ChiaV.Clvm Require Import TreeHash.
From ChiaV.Gen Require Import Opcodes Builder.
From ChiaV.Cond Require Import Model.
From ChiaV.Bundle Require Import SolutionGen Interned SpendBundle BlockPath SexpProofs SolutionGenProofs AgreeProofs OrderProofs OrderFullProofs.
From Coq Require Import Permutation.
Open Scope N_scope.

(* (1) the plain serializer is inverted by the plain deserializer, for every tree it can serialize
   (atoms below 2^34 bytes), whatever follows in the buffer *)
Theorem C08_roundtrip : forall (t : sexp) (b rest : bytes),
  ser t = Some b -> deser (b ++ rest) = Some (t, rest).
Proof. exact deser_ser. Qed.

Theorem C08_node_from_bytes_ser : forall (t : sexp) (b : bytes), ser t = Some b -> node_from_bytes b = Some t.
Proof. exact node_from_bytes_ser. Qed.

(* (4) the predicted generator length is the actual length of the plain generator, for all bundles of
   plainly serialized reveals/solutions, 32-byte parent ids and u64 amounts *)
Theorem C08_length : forall spends : list cspend,
  Forall plain_spend spends ->
  option_map nlen (solution_generator spends) = Some (calculate_generator_length spends).
Proof. exact generator_length. Qed.

(* non-vacuity: a one-spend bundle with puzzle (q . nil), solution nil and amount 2^63 satisfies the hypothesis *)
Theorem C08_length_nonvacuous :
  let s := {| cs_parent := repeat_byte 32 x07; cs_ph := []; cs_amount := 2 ^ 63;
              cs_puzzle := [xff; x01; x80]; cs_solution := [x80] |} in
  Forall plain_spend [s] /\ option_map nlen (solution_generator [s]) = Some 58.
Proof. exact length_nonvacuous. Qed.

(* (2),(3) mempool path = block path, plain generator, non-interned mode.
   FULL STATEMENT (not proved): for every bundle b satisfying the hypotheses, [mempool_path b] and the block path on
   ser (build_generator b) agree.  PROVED: the same with the mempool path run on the REVERSED bundle — build_generator
   lists the spends in reverse, and both paths then process the same spends in the same order.  Missing for the full
   statement: permutation invariance of the spend loop (property C06, unit cond), and the INTERNED_GENERATOR mode
   (there the base costs are equal for the same bundle, C08_interned_base_cost, but not obviously for the reversed one).
   Hypotheses: reveals/solutions are plain serializations, 32-byte parents, u64 amounts, declared puzzle hash = tree
   hash ([good_spend]); the oracle evaluates the generator's quote to its argument at cost 20; at most
   MAX_SPENDS_PER_BLOCK spends.  [mempool_path] = run_spendbundle under DONT_VALIDATE_SIGNATURE, else
   validate_clvm_and_signature.  [same_summary o b m]: equal up to the two mempool-only flag bits, cost_b = cost_m + o,
   execution_cost_b = execution_cost_m + 20, same (key, message) pairs. *)
Theorem C08_agree_rev_partial : forall valid_key (H : bytes -> bytes) K run sig_ok cpb fl gen_args,
  (forall x args budget,
     run (Pair (Atom [x01]) x) args budget = if budget <? 20 then Err CostExceeded else Ok (20, x)) ->
  forall spends g program max_cost,
  Forall (good_spend H) spends ->
  bf_interned fl = false ->
  N.of_nat (length spends) <= MAX_SPENDS_PER_BLOCK ->
  build_generator spends = Some g -> ser g = Some program ->
  match mempool_path valid_key H K run sig_ok cpb fl (rev spends) max_cost,
        run_block_generator2 valid_key H K run sig_ok cpb fl gen_args program (nlen program) (max_cost + overhead cpb) with
  | Ok m, Ok b => same_summary (overhead cpb) b m
  | Err _, Err _ => True
  | _, _ => False
  end.
Proof. exact agree_rev. Qed.

(* the fixed wrapper overhead, over the translated QUOTE_BYTES *)
Theorem C08_overhead_value : forall cpb, overhead cpb = 20 + 2 * cpb.
Proof. exact overhead_value. Qed.

(* INTERNED_GENERATOR: the mempool path charges the interned size of the very tree the block path decodes *)
Theorem C08_interned_base_cost : forall cpb fl spends g program,
  bf_interned fl = true -> build_generator spends = Some g -> ser g = Some program ->
  calculate_base_cost cpb fl spends = Ok (interned_vbytes g * cpb) /\ parse_node program = Ok g.
Proof. exact interned_base_cost. Qed.

(* (2),(3) for the SAME bundle (no reversal): mempool path of b vs block path of ser (build_generator b).
   Additional hypotheses, all about oracles and stated explicitly: [run] has budget-independent results (a program has a
   cost and a result and fails with CostExceeded exactly below that cost, or it fails whatever the budget);
   aggregate_verify ([sig_ok]) does not depend on the order of the (key, message) pairs.
   PROVED: same accept/reject decision; on acceptance [agree_summary]: cost_block = cost_mempool + overhead, equal
   reserve fee, removal and addition amounts, absolute height/seconds locks (after and before), and the (key, message)
   pairs as a Permutation (the block path lists the spends in reverse).
   `_partial`: NOT yet stated for the same bundle: the per-spend summaries as a Permutation (up to the two mempool-only
   flag bits), agg_sig_unsafe as a Permutation, condition_cost and execution_cost (+20).  For the reversed bundle all of
   these are in C08_agree_rev_partial; what is missing is only the transport of the per-spend records across the
   reversal of the mempool path (Cond/Summary.accepted_summary + Cond/Flags.accepted_flags applied to the interleaved
   loop of OrderProofs.v), not any further fact about the code.  Still excluded: INTERNED_GENERATOR, > MAX_SPENDS_PER_BLOCK. *)
Theorem C08_agree_partial : forall valid_key (H : bytes -> bytes) K run sig_ok cpb fl gen_args,
  (forall x args budget,
     run (Pair (Atom [x01]) x) args budget = if budget <? 20 then Err CostExceeded else Ok (20, x)) ->
  (forall p s, (exists c r, forall b, run p s b = (if b <? c then Err CostExceeded else Ok (c, r))) \/
               (forall b, exists e, run p s b = Err e)) ->
  (forall l l', Permutation l l' -> sig_ok l = sig_ok l') ->
  forall spends g program max_cost,
  Forall (good_spend H) spends ->
  bf_interned fl = false ->
  N.of_nat (length spends) <= MAX_SPENDS_PER_BLOCK ->
  build_generator spends = Some g -> ser g = Some program ->
  match mempool_path valid_key H K run sig_ok cpb fl spends max_cost,
        run_block_generator2 valid_key H K run sig_ok cpb fl gen_args program (nlen program) (max_cost + overhead cpb) with
  | Ok m, Ok b => agree_summary (overhead cpb) b m
  | Err _, Err _ => True
  | _, _ => False
  end.
Proof. exact agree_same. Qed.

(* the mempool path alone: the order of the coin spends changes neither the verdict nor the aggregates *)
Theorem C08_mempool_order : forall vk (H : bytes -> bytes) K run cpb fl,
  (forall p s, (exists c r, forall b, run p s b = (if b <? c then Err CostExceeded else Ok (c, r))) \/
               (forall b, exists e, run p s b = Err e)) ->
  bf_interned fl = false ->
  forall L max_cost,
  match run_spendbundle vk H K run cpb fl (rev L) max_cost, run_spendbundle vk H K run cpb fl L max_cost with
  | Ok r', Ok r => agg_eq r' r
  | Err _, Err _ => True
  | _, _ => False
  end.
Proof. exact mempool_order. Qed.

(* the oracle hypotheses are jointly satisfiable (an evaluator that knows only `quote`; a verifier that accepts) *)
Theorem C08_oracle_hyps_nonvacuous :
  (forall x args budget, quote_run (Pair (Atom [x01]) x) args budget = if budget <? 20 then Err CostExceeded else Ok (20, x)) /\
  (forall p s, (exists c r, forall b, quote_run p s b = (if b <? c then Err CostExceeded else Ok (c, r))) \/
               (forall b, exists e, quote_run p s b = Err e)) /\
  (forall l l' : list (bytes * bytes), Permutation l l' -> (fun _ => true) l = (fun _ => true) l').
Proof. exact oracle_hyps_inhabited. Qed.

(* (2),(3) COMPLETE for the same bundle: mempool path of b vs block path of ser (build_generator b), under the same flags,
   constants, keys and oracles: the same accept/reject decision, and on acceptance [agree_full]:
     - everything of C08_agree_partial (cost_block = cost_mempool + overhead, reserve fee, removal/addition amounts,
       absolute locks, (key, message) pairs as a Permutation),
     - the reported spends of the block path are the mempool path's IN REVERSE ORDER, record by record equal up to the two
       mempool-only flag bits ELIGIBLE_FOR_FF / ELIGIBLE_FOR_DEDUP (coin id, parent, puzzle hash, amount, relative locks,
       birth assertions, created coins, AGG_SIG lists, HAS_RELATIVE_CONDITION, execution and condition cost),
     - agg_sig_unsafe as a Permutation, condition_cost equal, execution_cost_block = execution_cost_mempool + 20.
   Hypotheses: [good_spend] (plain serializations, 32-byte parents, u64 amounts, declared puzzle hash = tree hash for an
   arbitrary hash function H), the three oracle hypotheses of C08_agree_partial (satisfiable: C08_oracle_hyps_nonvacuous).
   Stated exclusions: INTERNED_GENERATOR, more than MAX_SPENDS_PER_BLOCK spends, back-reference-compressed generators. *)
Theorem C08_agree : forall valid_key (H : bytes -> bytes) K run sig_ok cpb fl gen_args,
  (forall x args budget,
     run (Pair (Atom [x01]) x) args budget = if budget <? 20 then Err CostExceeded else Ok (20, x)) ->
  (forall p s, (exists c r, forall b, run p s b = (if b <? c then Err CostExceeded else Ok (c, r))) \/
               (forall b, exists e, run p s b = Err e)) ->
  (forall l l', Permutation l l' -> sig_ok l = sig_ok l') ->
  forall spends g program max_cost,
  Forall (good_spend H) spends ->
  bf_interned fl = false ->
  N.of_nat (length spends) <= MAX_SPENDS_PER_BLOCK ->
  build_generator spends = Some g -> ser g = Some program ->
  match mempool_path valid_key H K run sig_ok cpb fl spends max_cost,
        run_block_generator2 valid_key H K run sig_ok cpb fl gen_args program (nlen program) (max_cost + overhead cpb) with
  | Ok m, Ok b => agree_full (overhead cpb) b m
  | Err _, Err _ => True
  | _, _ => False
  end.
Proof. exact agree_full_same. Qed.

(* the mempool path alone, complete: reversing the coin spends reverses the reported spends and changes nothing else *)
Theorem C08_mempool_order_full : forall vk (H : bytes -> bytes) K run cpb fl,
  (forall p s, (exists c r, forall b, run p s b = (if b <? c then Err CostExceeded else Ok (c, r))) \/
               (forall b, exists e, run p s b = Err e)) ->
  bf_interned fl = false ->
  forall L max_cost,
  match run_spendbundle vk H K run cpb fl (rev L) max_cost, run_spendbundle vk H K run cpb fl L max_cost with
  | Ok r', Ok r => full_eq r' r
  | Err _, Err _ => True
  | _, _ => False
  end.
Proof. exact mempool_order_full. Qed.

(* INTERNED_GENERATOR lifted.  What the code does (spendbundle_conditions.rs::calculate_base_cost, run_block_generator2):
   the mempool path builds the generator tree of the bundle INCLUDING the (q . ((spends))) wrapper, interns it and charges
   interned_vbytes * cost_per_byte; the block path decodes the generator it is given — the same tree — interns it and
   charges the same amount; both subtract it from the budget they are passed.  The only difference left is the execution
   cost of the quote: cost_block = cost_mempool + 20, no QUOTE_BYTES term.  Everything else as in C08_agree ([agree_full]
   with overhead 20): same verdict, reserve fee, amounts, absolute locks, pairs and agg_sig_unsafe as Permutations, the
   reported spends reversed and equal up to the two mempool-only flag bits, condition_cost equal, execution_cost + 20.
   Stated exclusions: more than MAX_SPENDS_PER_BLOCK spends, back-reference-compressed generators. *)
Theorem C08_agree_interned : forall valid_key (H : bytes -> bytes) K run sig_ok cpb fl gen_args,
  (forall x args budget,
     run (Pair (Atom [x01]) x) args budget = if budget <? 20 then Err CostExceeded else Ok (20, x)) ->
  (forall p s, (exists c r, forall b, run p s b = (if b <? c then Err CostExceeded else Ok (c, r))) \/
               (forall b, exists e, run p s b = Err e)) ->
  (forall l l', Permutation l l' -> sig_ok l = sig_ok l') ->
  forall spends g program max_cost,
  Forall (good_spend H) spends ->
  bf_interned fl = true ->
  N.of_nat (length spends) <= MAX_SPENDS_PER_BLOCK ->
  build_generator spends = Some g -> ser g = Some program ->
  match mempool_path valid_key H K run sig_ok cpb fl spends max_cost,
        run_block_generator2 valid_key H K run sig_ok cpb fl gen_args program (nlen program) (max_cost + 20) with
  | Ok m, Ok b => agree_full 20 b m
  | Err _, Err _ => True
  | _, _ => False
  end.
Proof. exact agree_full_same_interned. Qed.
