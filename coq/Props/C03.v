(* Props/C03.v — property C03 (time-lock aggregation and checking equal per-condition semantics):
   statements only.  Each theorem is closed by `exact`.
   Vocabulary (Locks/TimeLocks.v): [holds recs h t (coin, kind, v)] is the arithmetic definition of one
   assertion on the chain state (h = previous transaction-block height, t = timestamp, recs = coin id ->
   (confirmed_block_index, timestamp)), sums saturating at the type maximum; [check_time_locks recs b spends h t
   nowrap] mirrors check_time_locks.rs on the owned summary; [bundle_assertions H fl spends] / [bundle_coins H spends]
   read every lock/birth assertion / every spent coin id off the serialized bundle with Cond.Model.parse_opcode and
   parse_args, independently of any folding; [apply_all] iterates Cond.Model.apply_condition. *)
From ChiaV.Base Require Import Bytes Sha256.
From ChiaV.Clvm Require Import Sexp Ints.
From ChiaV.Gen Require Import Opcodes.
From ChiaV.Cond Require Import Model.
From ChiaV.Locks Require Import TimeLocks FoldProofs ParseProofs TimeLocksProofs.
Open Scope N_scope.

(* (1) For EVERY bundle Cond.Model.parse_spends accepts (any flags, visitor, key oracle, hash function) and EVERY
   chain state: the non-legacy check_time_locks passes on the folded summary iff every spent coin has a record and
   every individual assertion of the bundle holds. *)
Theorem C03_fold_sound_complete :
  forall (vk : bytes -> bool) (H : bytes -> bytes) (K : consts) (fl : cflags) (V : visitor)
         (spends : sexp) (max_cost clvm_cost : N) ret sps pairs (recs : coin_records) (h t : N),
    parse_spends vk H K fl V spends max_cost clvm_cost = Ok (ret, sps, pairs) ->
    (check_time_locks recs ret sps h t true = Ok tt <->
       Forall (fun c => recs c <> None) (bundle_coins H spends) /\
       Forall (holds recs h t) (bundle_assertions H fl spends)).
Proof. exact parse_spends_time_locks. Qed.

(* (1, per spend) the same for the fold itself: Cond.Model.apply_condition iterated over ANY list of parsed
   conditions of one spend, starting where process_single_spend starts (no lock field set) *)
Theorem C03_fold_list_sound_complete :
  forall (vk : bytes -> bool) (K : consts) (fl : cflags) (st : lstate) (cs : list condition) (st' : lstate)
         (recs : coin_records) (h t : N),
    apply_all vk K fl st cs = Ok st' -> no_lock_fields (l_spend st) ->
    (check_time_locks recs (l_ret st') [l_spend st'] h t true = Ok tt <->
       check_time_locks recs (l_ret st) [] h t true = Ok tt /\
       recs (sp_coin_id (l_spend st)) <> None /\
       Forall (holds recs h t) (locks_of (sp_coin_id (l_spend st)) cs)).
Proof. exact fold_list_sound_complete. Qed.

(* (3) parse_spends rejects with an Impossible* code only if NO chain state (any records, height, timestamp)
   satisfies the bundle's assertions *)
Theorem C03_impossible_only_if :
  forall (vk : bytes -> bool) (H : bytes -> bytes) (K : consts) (fl : cflags) (V : visitor)
         (spends : sexp) (max_cost clvm_cost : N) (e : ecode),
    parse_spends vk H K fl V spends max_cost clvm_cost = Err e -> is_impossible e = true ->
    forall (recs : coin_records) (h t : N), ~ Forall (holds recs h t) (bundle_assertions H fl spends).
Proof. exact parse_spends_impossible_only_if. Qed.

(* (3, per spend) the fold over one spend's conditions rejects with an Impossible* code, or with the
   birth-mismatch code, only if no chain state satisfies that spend's assertions *)
Theorem C03_fold_list_reject_only_if :
  forall (vk : bytes -> bool) (K : consts) (fl : cflags) (st : lstate) (cs : list condition) (e : ecode),
    apply_all vk K fl st cs = Err e -> no_lock_fields (l_spend st) ->
    is_impossible e = true \/ e = AssertMyBirthHeightFailed \/ e = AssertMyBirthSecondsFailed ->
    forall (recs : coin_records) (h t : N), ~ Forall (holds recs h t) (locks_of (sp_coin_id (l_spend st)) cs).
Proof. exact fold_list_reject_only_if. Qed.

(* (2) argument classes.  For each of the ten opcodes (constants translated from opcodes.rs) and ANY argument atom b
   (z = the integer it denotes), with the argument-list terminator accepted: parse_args either keeps the argument as a
   value of the type (in range), or fails, or skips the condition; failure is justified by the arithmetic definition
   being unsatisfiable in every chain state of the types, skipping by it being a tautology.  Out-of-range arguments are
   read with exact integer sums ([holdsZ]); negative RELATIVE arguments need the chain invariant that a spent coin was
   confirmed no later than the previous transaction block (see C03_negative_relative_needs_invariant). *)
Theorem C03_argument_classes :
  forall (fl : cflags) (k : kind) (b : bytes) (tl : sexp),
    let c := Pair (Atom b) tl in
    let z := atom_val b in
    maybe_check_args_terminator fl c = Ok tt ->
    match sanitize_uint b (kind_size k) with
    | SOk v =>
        parse_args fl c (kind_opcode k) = Ok (cond_of_kind k v) /\ Z.of_N v = z /\ v < kind_width k
    | SPosOverflow =>
        (Z.of_N (kind_width k) <= z)%Z /\
        if oversize_fails k
        then (exists e, parse_args fl c (kind_opcode k) = Err e) /\
             (forall cbi ts h t, state_in_range cbi ts h t -> ~ holdsZ cbi ts h t k z)
        else (exists cva, parse_args fl c (kind_opcode k) = Ok cva /\ lock_of cva = None) /\
             (forall cbi ts h t, state_in_range cbi ts h t -> holdsZ cbi ts h t k z)
    | SNegOverflow =>
        (z < 0)%Z /\
        if negative_fails k
        then (exists e, parse_args fl c (kind_opcode k) = Err e) /\
             (forall cbi ts h t, (is_relative k = true -> coin_not_from_future cbi ts h t) -> ~ holdsZ cbi ts h t k z)
        else (exists cva, parse_args fl c (kind_opcode k) = Ok cva /\ lock_of cva = None) /\
             (forall cbi ts h t, (is_relative k = true -> coin_not_from_future cbi ts h t) -> holdsZ cbi ts h t k z)
    | SErr => exists e, parse_args fl c (kind_opcode k) = Err e
    end.
Proof. exact argument_classes. Qed.

(* for an argument of the type, the saturating definition equals the exact integer reading unless the sum leaves the type *)
Theorem C03_saturating_vs_exact :
  forall k v cbi ts h t,
    v < kind_width k -> state_in_range cbi ts h t ->
    (if kind_is_height k then cbi + v < U32 else ts + v < U64) \/ is_relative k = false \/ k = KBirthHeight \/ k = KBirthSeconds ->
    (holds_on cbi ts h t k v <-> holdsZ cbi ts h t k (Z.of_N v)).
Proof. exact holds_on_exact. Qed.

(* ... and when it does: "not before" kinds hold exactly at the type maximum, "before" kinds everywhere below it *)
Theorem C03_saturating_at_overflow :
  forall k v cbi ts h t,
    v < kind_width k -> state_in_range cbi ts h t ->
    (if kind_is_height k then U32 <= cbi + v else U64 <= ts + v) ->
    match k with
    | KHeightRelative => holds_on cbi ts h t k v <-> h = U32 - 1
    | KSecondsRelative => holds_on cbi ts h t k v <-> t = U64 - 1
    | KBeforeHeightRelative => holds_on cbi ts h t k v <-> h < U32 - 1
    | KBeforeSecondsRelative => holds_on cbi ts h t k v <-> t < U64 - 1
    | _ => True
    end.
Proof. exact holds_on_overflow. Qed.

Theorem C03_negative_relative_needs_invariant :
  exists cbi ts h t z, (z < 0)%Z /\ state_in_range cbi ts h t /\ negative_fails KHeightRelative = false /\
                       ~ holdsZ cbi ts h t KHeightRelative z.
Proof. exact negative_relative_needs_invariant. Qed.

(* (4) If parse_spends accepts a bundle, no spend carrying a relative or birth condition -- including one whose
   negative/oversized argument turned it into a skipped no-op -- spends a coin created in the same bundle
   (Cond.Model.is_ephemeral on the returned spends and the coin-id index of the bundle). *)
Theorem C03_ephemeral_relative_rejected :
  forall (vk : bytes -> bool) (H : bytes -> bytes) (K : consts) (fl : cflags) (V : visitor)
         (iter tl : sexp) (max_cost clvm_cost : N) ret sps pairs,
    parse_spends vk H K fl V (Pair iter tl) max_cost clvm_cost = Ok (ret, sps, pairs) ->
    forall i sp, spend_nth iter i = Some sp ->
      existsb marks_relative (conds_of fl (spend_conditions sp)) = true ->
      is_ephemeral sps (spent_index H iter 0 []) i = false.
Proof. exact ephemeral_relative_rejected. Qed.

(* (5) the legacy (wrapping) mode is NOT equivalent: it accepts a bundle whose assertion fails ... *)
Theorem C03_legacy_differs_refuted :
  exists cs st' h t,
    apply_all (fun _ => false) ex_consts ex_flags ex_state cs = Ok st' /\ h < U32 /\ t < U64 /\
    check_time_locks ex_recs (l_ret st') [l_spend st'] h t false = Ok tt /\
    check_time_locks ex_recs (l_ret st') [l_spend st'] h t true <> Ok tt /\
    ~ Forall (holds ex_recs h t) (locks_of ex_id cs).
Proof. exact legacy_accepts_failed_assertion. Qed.

(* ... and rejects one whose assertion holds *)
Theorem C03_legacy_rejects_true_refuted :
  exists cs st' h t,
    apply_all (fun _ => false) ex_consts ex_flags ex_state cs = Ok st' /\ h < U32 /\ t < U64 /\
    check_time_locks ex_recs (l_ret st') [l_spend st'] h t false <> Ok tt /\
    check_time_locks ex_recs (l_ret st') [l_spend st'] h t true = Ok tt /\
    Forall (holds ex_recs h t) (locks_of ex_id cs).
Proof. exact legacy_rejects_true_assertion. Qed.

(* non-vacuity: a list with all ten kinds is accepted by the fold and holds; a conflicting pair is rejected *)
Theorem C03_nonvacuous_accept :
  exists st', apply_all (fun _ => false) ex_consts ex_flags ex_state ex_conds = Ok st' /\
              no_lock_fields (l_spend ex_state) /\
              check_time_locks ex_recs (l_ret st') [l_spend st'] 20 1000 true = Ok tt /\
              Forall (holds ex_recs 20 1000) (locks_of ex_id ex_conds) /\
              length (locks_of ex_id ex_conds) = 12%nat.
Proof. exact ex_fold_accepts_and_holds. Qed.

Theorem C03_nonvacuous_reject :
  apply_all (fun _ => false) ex_consts ex_flags ex_state [CAssertBeforeHeightRelative 5; CAssertHeightRelative 5]
    = Err ImpossibleHeightRelativeConstraints /\ is_impossible ImpossibleHeightRelativeConstraints = true.
Proof. exact ex_fold_rejects. Qed.

(* non-vacuity at the level of parse_spends (coin ids by the Gallina SHA-256) *)
Theorem C03_nonvacuous_parse :
  exists ret sps pairs,
    parse_spends (fun _ => false) sha256 ex_consts ex_flags VEmpty (ex_bundle sha256) 11000000000 0 = Ok (ret, sps, pairs) /\
    bundle_coins sha256 (ex_bundle sha256) = [ex_coin] /\
    bundle_assertions sha256 ex_flags (ex_bundle sha256) =
      [ (ex_coin, KHeightRelative, 5); (ex_coin, KBeforeSecondsAbsolute, 2000); (ex_coin, KBirthHeight, 10);
        (ex_coin, KHeightRelative, 7) ] /\
    check_time_locks (recs_of_list [(ex_coin, (10, 100))]) ret sps 17 1000 true = Ok tt /\
    check_time_locks (recs_of_list [(ex_coin, (10, 100))]) ret sps 16 1000 true <> Ok tt.
Proof. exact ex_parse_accepts. Qed.

Theorem C03_nonvacuous_ephemeral :
  parse_spends (fun _ => false) sha256 ex_consts ex_flags VEmpty
    (ex_eph_bundle sha256 [ex_cond ASSERT_HEIGHT_RELATIVE [Atom []]]) 11000000000 0 = Err EphemeralRelativeCondition /\
  parse_spends (fun _ => false) sha256 ex_consts ex_flags VEmpty
    (ex_eph_bundle sha256 [ex_cond ASSERT_SECONDS_RELATIVE [Atom [xff]]]) 11000000000 0 = Err EphemeralRelativeCondition /\
  parse_spends (fun _ => false) sha256 ex_consts ex_flags VEmpty
    (ex_eph_bundle sha256 [ex_cond ASSERT_MY_BIRTH_SECONDS [Atom [x64]]]) 11000000000 0 = Err EphemeralRelativeCondition /\
  exists r, parse_spends (fun _ => false) sha256 ex_consts ex_flags VEmpty
    (ex_eph_bundle sha256 [ex_cond ASSERT_HEIGHT_ABSOLUTE [Atom [x64]]]) 11000000000 0 = Ok r.
Proof. exact ex_ephemeral_relative_rejected. Qed.

Theorem C03_nonvacuous_impossible :
  parse_spends (fun _ => false) sha256 ex_consts ex_flags VEmpty
    (Pair (ex_list [ex_spend ex_p1 ex_ph1 [x0a]
       [ex_cond ASSERT_BEFORE_HEIGHT_ABSOLUTE [Atom [x64]]; ex_cond ASSERT_HEIGHT_ABSOLUTE [Atom [x64]]]]) (Atom []))
    11000000000 0 = Err ImpossibleHeightAbsoluteConstraints.
Proof. exact ex_parse_impossible. Qed.
