(* Props/C05.v *)
From ChiaV.Base Require Import Bytes.
