(* Props/C05.v — property C05 (message construction and key/suffix rules): statements only. *)
From ChiaV.Base Require Import Bytes.
From ChiaV.Clvm Require Import Sexp Ints.
From ChiaV.Gen Require Import Opcodes Ladders.
From ChiaV.Cond Require Import Model Spec Facts SigFacts.
Open Scope N_scope.

(* what is appended to the message of each bound AGG_SIG opcode: the coin attributes the opcode
   selects, then that opcode's domain-separation constant *)
Theorem C05_suffix_table : forall K s,
  agg_sig_suffix K Spec.AGG_SIG_ME s = sp_coin_id s ++ c_me K /\
  agg_sig_suffix K Spec.AGG_SIG_PARENT s = sp_parent s ++ c_parent K /\
  agg_sig_suffix K Spec.AGG_SIG_PUZZLE s = sp_ph s ++ c_puzzle K /\
  agg_sig_suffix K Spec.AGG_SIG_AMOUNT s = u64_to_bytes (sp_amount s) ++ c_amount K /\
  agg_sig_suffix K Spec.AGG_SIG_PUZZLE_AMOUNT s = sp_ph s ++ u64_to_bytes (sp_amount s) ++ c_puzzle_amount K /\
  agg_sig_suffix K Spec.AGG_SIG_PARENT_AMOUNT s = sp_parent s ++ u64_to_bytes (sp_amount s) ++ c_parent_amount K /\
  agg_sig_suffix K Spec.AGG_SIG_PARENT_PUZZLE s = sp_parent s ++ sp_ph s ++ c_parent_puzzle K.
Proof. exact suffix_table. Qed.

(* amounts enter the signed text in the canonical CLVM integer form *)
Theorem C05_amount_suffix_canonical : forall K s, sp_amount s < 2 ^ 64 ->
  agg_sig_suffix K Spec.AGG_SIG_AMOUNT s = canon_n (sp_amount s) ++ c_amount K /\
  agg_sig_suffix K Spec.AGG_SIG_PUZZLE_AMOUNT s = sp_ph s ++ canon_n (sp_amount s) ++ c_puzzle_amount K /\
  agg_sig_suffix K Spec.AGG_SIG_PARENT_AMOUNT s = sp_parent s ++ canon_n (sp_amount s) ++ c_parent_amount K.
Proof. exact suffix_amount_canonical. Qed.

(* an applied AGG_SIG condition: the key is valid and not infinity, an UNSAFE message passed the
   suffix ban, and with signature checking on exactly one pair (key, message ++ suffix) is added *)
Theorem C05_condition_adds_exactly_its_pair : forall vk K fl st op pk msg st',
  apply_condition vk K fl st (CAggSig op pk msg) = Ok st' ->
  vk pk = true /\
  (op = AGG_SIG_UNSAFE -> check_agg_sig_unsafe_message K msg = Ok tt) /\
  s_pkm_pairs_rev (l_state st') =
    if f_dont_validate fl then s_pkm_pairs_rev (l_state st)
    else (pk, if op =? AGG_SIG_UNSAFE then msg else msg ++ agg_sig_suffix K op (l_spend st)) :: s_pkm_pairs_rev (l_state st).
Proof. exact agg_sig_pushes_pair. Qed.

Theorem C05_invalid_or_infinity_key_rejected : forall vk K fl st op pk msg,
  vk pk = false -> exists e, apply_condition vk K fl st (CAggSig op pk msg) = Err e.
Proof. exact agg_sig_invalid_key_rejected. Qed.

(* AGG_SIG_UNSAFE messages of 32 bytes or more ending in any of the seven constants are rejected *)
Theorem C05_unsafe_suffix_banned : forall K msg,
  check_agg_sig_unsafe_message K msg = Ok tt <->
  (length msg < 32)%nat \/
  Forall (fun c => ends_with msg c = false)
         [c_me K; c_parent K; c_puzzle K; c_amount K; c_puzzle_amount K; c_parent_amount K; c_parent_puzzle K].
Proof. exact unsafe_suffix_banned. Qed.

Theorem C05_ends_with_is_suffix : forall buf suffix,
  ends_with buf suffix = true <-> exists pre, buf = pre ++ suffix.
Proof. exact ends_with_spec. Qed.

(* any single altered component (message, attribute bytes of the same length, constant) alters the text *)
Theorem C05_signed_text_injective : forall msg msg' attr attr' k k' : bytes,
  (msg ++ attr ++ k = msg' ++ attr ++ k -> msg = msg') /\
  (length attr = length attr' -> msg ++ attr ++ k = msg ++ attr' ++ k -> attr = attr') /\
  (msg ++ attr ++ k = msg ++ attr ++ k' -> k = k').
Proof. exact signed_text_injective. Qed.

(* the complete list: for every accepted bundle the (key, message) pairs the aggregate signature must
   verify are exactly, in condition order over the spends in order, one pair per AGG_SIG condition:
   (key, message) for AGG_SIG_UNSAFE and (key, message ++ attributes ++ constant) for the seven bound
   opcodes — nothing missing, nothing extra (with signature checking off the list is empty) *)
From ChiaV.Cond Require Import Invariants Syntax Collect Summary.
Theorem C05_pairs_exactly_the_prescribed_ones : forall vk H K fl V t max_cost clvm_cost b spends pairs,
  parse_spends vk H K fl V t max_cost clvm_cost = Ok (b, spends, pairs) ->
  exists ps, tree_syntax fl t = Ok ps /\
    pairs = (if f_dont_validate fl then []
             else flat_map (fun p => flat_map (c_pair K (spend0 H p)) (kn p)) ps).
Proof.
  intros vk H K fl V t max_cost clvm_cost b spends pairs Hp.
  destruct (accepted_summary vk H K fl V t max_cost clvm_cost b spends pairs Hp) as [ps [Hs [_ [_ [_ [_ [_ [_ [_ [_ [_ Hpairs]]]]]]]]]]].
  exists ps. split; [exact Hs|exact Hpairs].
Qed.
