(* Props/C14.v — property C14: statements only.  Each theorem is closed by `exact`.
   tdecode = the instrumented mirror of Streamable::parse::<TRUSTED> (Stream/Total.v): outcomes TOk | TErr | TPanic,
   with a Panic branch wherever the Rust has an unwrap / index / slice, and an allocation meter.
   All statements are for every type of the universe, every byte string, both decoding modes, any oracle O. *)
From Coq Require Import String.
From ChiaV.Base Require Import Bytes.
From ChiaV.Stream Require Import Universe Versioned Codec Total ValText TotalProofs.
From ChiaV.Gen Require Import StreamTypes.
Open Scope N_scope.

(* decoding never panics (none of the unwrap / index / slice branches is reachable) *)
Theorem C14_decode_never_panics : forall O tr t bs a, tdecode O tr t bs a <> TPanic.
Proof. exact tdecode_no_panic. Qed.
Theorem C14_from_bytes_never_panics : forall O tr t bs, t_from_bytes O tr t bs <> FPanic.
Proof. exact t_from_bytes_no_panic. Qed.

(* the instrumented decoder computes exactly what the plain decoder of C13 computes; the meter never decreases *)
Theorem C14_instrumented_refines_decode : forall O tr t bs a,
  match tdecode O tr t bs a with
  | TOk v r a' => decode O tr t bs = Some (v, r) /\ a <= a'
  | TErr a' => decode O tr t bs = None /\ a <= a'
  | TPanic => False
  end.
Proof. exact tdecode_spec. Qed.
Theorem C14_from_bytes_ok_iff : forall O tr t bs v,
  (exists a, t_from_bytes O tr t bs = FOk v a) <-> from_bytes_gen O tr t bs = Some v.
Proof. exact t_from_bytes_ok_iff. Qed.

(* never consumes more than the input *)
Theorem C14_consumed_le_length : forall O, prog_len_stable_hyp O -> forall tr t bs a v r a',
  tdecode O tr t bs a = TOk v r a' -> nlen r <= nlen bs.
Proof. exact t_consumed_le_length. Qed.

(* from_bytes rejects trailing bytes and missing bytes (the encodings form a prefix-free code) *)
Theorem C14_trailing_bytes_rejected : forall O, prog_len_stable_hyp O -> prog_len_pos_hyp O -> forall tr t bs v a extra,
  t_from_bytes O tr t bs = FOk v a -> extra <> [] -> exists a', t_from_bytes O tr t (bs ++ extra) = FErr a'.
Proof. exact t_trailing_rejected. Qed.
Theorem C14_missing_bytes_rejected : forall O, prog_len_stable_hyp O -> prog_len_pos_hyp O -> forall tr t bs v a extra,
  t_from_bytes O tr t (bs ++ extra) = FOk v a -> extra <> [] -> exists a', t_from_bytes O tr t bs = FErr a'.
Proof. exact t_missing_rejected. Qed.

(* operations on a decoded value: re-encoding succeeds, equality is reflexive, and hashing completes for every
   value outside KnownClass := has_bad_pos (contains a v2 ProofOfSpace without a quality string, F-C14-1) *)
Theorem C14_ops_on_decoded_values_total : forall O, prog_len_stable_hyp O -> forall tr t bs v r,
  decode O tr t bs = Some (v, r) ->
  (exists e, encode t v = Some e) /\
  (has_bad_pos O t v = false -> exists b, digest O t v = DOk b) /\
  value_eqb v v = true.
Proof. exact ops_on_decoded_total. Qed.

(* the unrestricted statement is FALSE: a decodable (trusted and untrusted) v2 ProofOfSpace whose hash() panics *)
Theorem C14_pos_hash_refuted :
  from_bytes toy_oracles PoS f_c14_1_witness = Some f_c14_1_value /\
  from_bytes_unchecked toy_oracles PoS f_c14_1_witness = Some f_c14_1_value /\
  encode PoS f_c14_1_value = Some f_c14_1_witness /\
  digest toy_oracles PoS f_c14_1_value = DPanic /\ has_bad_pos toy_oracles PoS f_c14_1_value = true.
Proof. exact pos_hash_refuted. Qed.

(* allocation.  Full statement (NOT proved in Coq, validated per case by the check: the model's meter and the real
   peak of the counting allocator are both compared with alloc_bound on every input):
     forall O tr t bs, vec elements non-empty on the wire ->
       meter (tdecode O tr t bs 0) + scratch_reserve tr t <= alloc_bound t (nlen bs) = (vdepth t + 1) * 2 MiB + cfac t * nlen bs
   Proved parts: a Vec reservation never exceeds 2 MiB nor the claimed length, whatever length prefix is sent; the
   allocating leaves retain no more than they consumed (Program: plus 64 bytes of scratch per byte).
   Missing: the induction through nested Vec with the RawVec doubling invariant. *)
Theorem C14_alloc_bound_partial_vec_reservation : forall sz n, vec_cap0 sz n * sz <= MiB2 /\ vec_cap0 sz n <= n.
Proof. exact vec_prealloc_bounded. Qed.
Theorem C14_alloc_bound_partial_bytes : forall bs a v r a',
  t_bytes bs a = TOk v r a' -> a' + nlen r + 4 <= a + nlen bs.
Proof. exact t_bytes_alloc. Qed.
Theorem C14_alloc_bound_partial_program : forall O tr bs a v r a',
  t_prog O tr bs a = TOk v r a' -> a' <= a + (1 + clvm_per_byte) * (nlen bs - nlen r) /\ nlen r <= nlen bs.
Proof. exact t_prog_alloc. Qed.

(* the reservation limit used by the model is the one in the Rust source of this run *)
Theorem C14_vec_limit_is_translated : MiB2 = vec_prealloc_limit_bytes.
Proof. exact vec_limit_translated. Qed.
