(* Props/C14.v — property C14: statements only.  Each theorem is closed by `exact`.
   tdecode = the instrumented mirror of Streamable::parse::<TRUSTED> (Stream/Total.v): outcomes TOk | TErr | TPanic,
   with a Panic branch wherever the Rust has an unwrap / index / slice, and an allocation meter.
   All statements are for every type of the universe, every byte string, both decoding modes, any oracle O. *)
From Coq Require Import String.
From ChiaV.Base Require Import Bytes.
From ChiaV.Stream Require Import Universe Versioned Codec Total ValText TotalProofs.
From ChiaV.Gen Require Import StreamTypes.
Open Scope N_scope.

(* decoding never panics (none of the unwrap / index / slice branches is reachable) *)
Theorem C14_decode_never_panics : forall O tr t bs a, tdecode O tr t bs a <> TPanic.
Proof. exact tdecode_no_panic. Qed.
Theorem C14_from_bytes_never_panics : forall O tr t bs, t_from_bytes O tr t bs <> FPanic.
Proof. exact t_from_bytes_no_panic. Qed.

(* the instrumented decoder computes exactly what the plain decoder of C13 computes; the meter never decreases *)
Theorem C14_instrumented_refines_decode : forall O tr t bs a,
  match tdecode O tr t bs a with
  | TOk v r a' => decode O tr t bs = Some (v, r) /\ a <= a'
  | TErr a' => decode O tr t bs = None /\ a <= a'
  | TPanic => False
  end.
Proof. exact tdecode_spec. Qed.
Theorem C14_from_bytes_ok_iff : forall O tr t bs v,
  (exists a, t_from_bytes O tr t bs = FOk v a) <-> from_bytes_gen O tr t bs = Some v.
Proof. exact t_from_bytes_ok_iff. Qed.

(* never consumes more than the input *)
Theorem C14_consumed_le_length : forall O, prog_len_stable_hyp O -> forall tr t bs a v r a',
  tdecode O tr t bs a = TOk v r a' -> nlen r <= nlen bs.
Proof. exact t_consumed_le_length. Qed.

(* from_bytes rejects trailing bytes and missing bytes (the encodings form a prefix-free code) *)
Theorem C14_trailing_bytes_rejected : forall O, prog_len_stable_hyp O -> prog_len_pos_hyp O -> forall tr t bs v a extra,
  t_from_bytes O tr t bs = FOk v a -> extra <> [] -> exists a', t_from_bytes O tr t (bs ++ extra) = FErr a'.
Proof. exact t_trailing_rejected. Qed.
Theorem C14_missing_bytes_rejected : forall O, prog_len_stable_hyp O -> prog_len_pos_hyp O -> forall tr t bs v a extra,
  t_from_bytes O tr t (bs ++ extra) = FOk v a -> extra <> [] -> exists a', t_from_bytes O tr t bs = FErr a'.
Proof. exact t_missing_rejected. Qed.

(* operations on a decoded value: re-encoding succeeds, equality is reflexive, and hashing completes for every
   value outside KnownClass := has_bad_pos (contains a v2 ProofOfSpace without a quality string, F-C14-1) *)
Theorem C14_ops_on_decoded_values_total : forall O, prog_len_stable_hyp O -> forall tr t bs v r,
  decode O tr t bs = Some (v, r) ->
  (exists e, encode t v = Some e) /\
  (has_bad_pos O t v = false -> exists b, digest O t v = DOk b) /\
  value_eqb v v = true.
Proof. exact ops_on_decoded_total. Qed.

(* the unrestricted statement is FALSE: a decodable (trusted and untrusted) v2 ProofOfSpace whose hash() panics *)
Theorem C14_pos_hash_refuted :
  from_bytes toy_oracles PoS f_c14_1_witness = Some f_c14_1_value /\
  from_bytes_unchecked toy_oracles PoS f_c14_1_witness = Some f_c14_1_value /\
  encode PoS f_c14_1_value = Some f_c14_1_witness /\
  digest toy_oracles PoS f_c14_1_value = DPanic /\ has_bad_pos toy_oracles PoS f_c14_1_value = true.
Proof. exact pos_hash_refuted. Qed.

(* ---- allocation: memory is proportional to the input, for every type of the universe ----
   meter  = bytes requested from the allocator while decoding (cumulative, hence >= peak): Vec::with_capacity(
            min(2 MiB / size_of::<T>(), len)), RawVec doubling on push, Bytes/String/Program copies, clvmr scratch;
   cfac t = bytes of memory per input byte along the most expensive path (7 * mem_size T + cfac T for a Vec<T>,
            65 for a Program, 70 for the generator tail, max over struct fields, 1 for plain data);
   vdepth t = nesting depth of Vec (each level may hold ONE reservation of at most 2 MiB not yet backed by input
            when decoding fails).
   Step invariant (any start value a of the meter): on success at most cfac t bytes per CONSUMED byte and at least
   min_size t bytes consumed; on failure at most cfac t per input byte plus vdepth t reservations.
   Hypothesis: a CLVM serialization has at least one byte (prog_len_pos_hyp; true of clvmr). *)
Theorem C14_alloc_step_invariant : forall O, prog_len_pos_hyp O -> forall tr t bs a,
  match tdecode O tr t bs a with
  | TOk v r a' => nlen r + min_size t <= nlen bs /\ a' <= a + cfac t * (nlen bs - nlen r)
  | TErr a' => a' <= a + cfac t * nlen bs + vdepth t * MiB2
  | TPanic => True
  end.
Proof. exact alloc_step_invariant. Qed.

(* the bound of the property: peak <= meter + the single transient clvmr scratch reserve
   <= alloc_bound t |bs| = (vdepth t + 1) * 2 MiB + cfac t * |bs|, whatever the bytes and the outcome *)
Theorem C14_alloc_bounded : forall O, prog_len_pos_hyp O -> forall tr t bs,
  meter_of (tdecode O tr t bs 0) + scratch_reserve tr t <= alloc_bound t (nlen bs).
Proof. exact alloc_bounded_all. Qed.

(* a Vec reservation never exceeds 2 MiB nor the claimed length, whatever length prefix is sent *)
Theorem C14_vec_reservation_bounded : forall sz n, vec_cap0 sz n * sz <= MiB2 /\ vec_cap0 sz n <= n.
Proof. exact vec_prealloc_bounded. Qed.

(* where proportionality could fail, and why it does not for memory: a type with an EMPTY encoding occupies no
   memory (a Vec of it allocates nothing) ... *)
Theorem C14_empty_encoding_has_no_size : forall t, min_size t = 0 -> mem_size t = 0.
Proof. exact min0_mem0. Qed.

(* ... but the naive claim "the number of decoded elements (and the decoding time) is bounded by the input length"
   is FALSE in the universe at large: four bytes decode to n unit values for every n < 2^32 (Rust: Vec<()>) *)
Theorem C14_proportional_element_count_refuted : forall O tr n, n < 2 ^ 32 ->
  decode O tr (Vec (Tup [])) (n2be 4 n) = Some (VList (repeat (VList []) (N.to_nat n)), []).
Proof. exact zero_width_vec_unbounded_count. Qed.

(* no type translated from the Rust source on this run contains a Vec of zero-width elements *)
Theorem C14_no_zero_width_vec_in_translated_types : forallb (fun p => vec_elems_consume (snd p)) stream_types = true.
Proof. exact vec_elems_consume_translated. Qed.

(* the reservation limit used by the model is the one in the Rust source of this run *)
Theorem C14_vec_limit_is_translated : MiB2 = vec_prealloc_limit_bytes.
Proof. exact vec_limit_translated. Qed.
