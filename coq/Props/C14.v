(* Props/C14.v — property C14: statements only.  Each theorem is closed by `exact`. *)
From Coq Require Import String.
From ChiaV.Base Require Import Bytes.
From ChiaV.Stream Require Import Universe Versioned Codec Total TotalProofs.
From ChiaV.Gen Require Import StreamTypes.
Open Scope N_scope.

(* from_bytes accepts only when the parser consumed exactly the input *)
Theorem C14_from_bytes_consumes_all : forall O tr t bs v a,
  t_from_bytes O tr t bs = FOk v a -> tdecode O tr t bs 0 = TOk v [] a.
Proof. exact t_from_bytes_ok. Qed.
