(* Props/C16.v — property C16: statements only.  Each theorem is closed by `exact`.
   The scalar layer is exact (N/Z arithmetic at blst's group order).  The group layer is over the ABSTRACT pairing
   interface (`pairing_laws P` explicit premise).  The encoding statements (`_partial`) are relative to hypotheses about
   blst's compression and subgroup test and are NOT proved of blst (DESIGN §9): they are validated by execution against
   an independent reference in driver/props/C16.py. *)
From ChiaV.Base Require Import Bytes.
From ChiaV.Bls Require Import Algebra Verify Keys Toy.
From ChiaV.Gen Require Import BlsConsts.
From ChiaV.Bls Require Import KeysProofs ToyProofs.
Open Scope N_scope.

(* GROUP_ORDER_BYTES of derive_synthetic.rs (translated on this run) is the group order blst works with *)
Theorem C16_group_order_constant :
  group_order_bytes_value = r_bls.
Proof. exact group_order_bytes_is_r. Qed.

(* every secret key survives to_bytes / from_bytes *)
Theorem C16_secret_key_roundtrip :
  forall sk : N, sk < r_bls -> sk_from_bytes r_bls (sk_to_bytes sk) = Some sk.
Proof. exact sk_roundtrip_bls. Qed.

(* SecretKey::from_bytes accepts exactly the 32-byte strings below the group order (zero included) *)
Theorem C16_secret_key_parse_exact :
  forall (r : N) (b : bytes) (sk : N),
  sk_from_bytes r b = Some sk <-> length b = 32%nat /\ be2n b = sk /\ (sk = 0 \/ sk < r).
Proof. exact sk_from_bytes_spec. Qed.

(* the accepted string is the unique encoding of the key *)
Theorem C16_secret_key_encoding_unique :
  forall (r : N) (b : bytes) (sk : N), sk_from_bytes r b = Some sk -> sk_to_bytes sk = b.
Proof. exact sk_encoding_unique. Qed.

(* mod_by_group_order d = ((signed_be d mod r) + r) mod r as 32 big-endian bytes (Rust's truncating % mirrored by Z.rem) *)
Theorem C16_mod_by_group_order :
  forall b : bytes,
  mod_by_group_order b =
  n2be 32 (Z.to_N ((signed_be b mod Z.of_N r_bls + Z.of_N r_bls) mod Z.of_N r_bls)).
Proof. exact mod_by_group_order_spec. Qed.

(* the byte-order detour of PublicKey::derive_unhardened (scalar_from_lendian, bendian_from_scalar, little-endian p1_mult)
   multiplies by the big-endian value of the digest *)
Theorem C16_pk_derive_byte_order :
  forall digest : bytes, length digest = 32%nat -> pk_derive_scalar digest = be2n digest.
Proof. exact pk_derive_scalar_is_be. Qed.

(* pk (derive_unhardened sk i) = derive_unhardened (pk sk) i *)
Theorem C16_derive_unhardened_commutes :
  forall (G1 G2 GT : Type) (P : pairing_ops G1 G2 GT), pairing_laws P ->
  forall H : bytes -> bytes, (forall x : bytes, length (H x) = 32%nat) ->
  forall sk idx sk' : N,
  sk_derive_unhardened P H sk idx = Ok sk' -> pk_of P sk' = pk_derive_unhardened P H (pk_of P sk) idx.
Proof. exact @derive_unhardened_commutes. Qed.

(* SecretKey::derive_unhardened never fails otherwise: it panics (assert!) exactly when the digest or digest + sk is 0 mod r *)
Theorem C16_derive_unhardened_outcomes :
  forall (G1 G2 GT : Type) (P : pairing_ops G1 G2 GT) (H : bytes -> bytes) (sk idx : N),
  let d := be2n (derive_digest P H (pk_of P sk) idx) in
  sk_derive_unhardened P H sk idx = Panic /\ (d mod order P = 0 \/ (d mod order P + sk) mod order P = 0) \/
  sk_derive_unhardened P H sk idx = Ok ((d mod order P + sk) mod order P) /\
  d mod order P <> 0 /\ (d mod order P + sk) mod order P <> 0.
Proof. exact @sk_derive_unhardened_cases. Qed.

(* paths are folds: the law lifts to every derivation path *)
Theorem C16_derive_path_commutes :
  forall (G1 G2 GT : Type) (P : pairing_ops G1 G2 GT), pairing_laws P ->
  forall H : bytes -> bytes, (forall x : bytes, length (H x) = 32%nat) ->
  forall (path : list N) (sk sk' : N),
  sk_derive_path P H sk path = Ok sk' -> pk_derive_path P H (pk_of P sk) path = Ok (pk_of P sk').
Proof. exact @derive_path_commutes_checked. Qed.

(* in particular master_to_wallet_unhardened (path prefix translated from derive_keys.rs on this run) *)
Theorem C16_master_to_wallet_unhardened_commutes :
  forall (G1 G2 GT : Type) (P : pairing_ops G1 G2 GT), pairing_laws P ->
  forall H : bytes -> bytes, (forall x : bytes, length (H x) = 32%nat) ->
  forall sk idx sk' : N,
  master_to_wallet_unhardened_sk P H sk idx = Ok sk' ->
  master_to_wallet_unhardened_pk P H (pk_of P sk) idx = Ok (pk_of P sk').
Proof. exact @master_to_wallet_unhardened_commutes. Qed.

(* adding secret keys commutes with adding public keys *)
Theorem C16_add_commutes :
  forall (G1 G2 GT : Type) (P : pairing_ops G1 G2 GT), pairing_laws P ->
  forall a b : N, pk_of P (sk_add (order P) a b) = gadd (o1 P) (pk_of P a) (pk_of P b).
Proof. exact @pk_of_sk_add. Qed.

(* the synthetic offset is the signed digest reduced into [0, r): from_bytes(...).unwrap() never panics *)
Theorem C16_synthetic_offset :
  forall (G1 G2 GT : Type) (P : pairing_ops G1 G2 GT) (H : bytes -> bytes),
  order P = group_order_bytes_value ->
  forall (pk : G1) (hidden : bytes),
  synthetic_offset P H pk hidden = Ok (Z.to_N (signed_be (H (enc1 P pk ++ hidden)) mod Z.of_N r_bls)).
Proof. exact @synthetic_offset_total. Qed.

(* pk (derive_synthetic sk) = derive_synthetic (pk sk) *)
Theorem C16_synthetic_commutes :
  forall (G1 G2 GT : Type) (P : pairing_ops G1 G2 GT), pairing_laws P ->
  forall H : bytes -> bytes, order P = group_order_bytes_value ->
  forall (sk : N) (hidden : bytes),
  exists s : N, sk_derive_synthetic P H sk hidden = Ok s /\
               pk_derive_synthetic P H (pk_of P sk) hidden = Ok (pk_of P s).
Proof. exact @derive_synthetic_commutes. Qed.

(* signing is a function of (key mod r, message) — determinism is the fact that sign is a function *)
Theorem C16_sign_depends_on_key_mod_r :
  forall (G1 G2 GT : Type) (P : pairing_ops G1 G2 GT), pairing_laws P ->
  forall (sk : N) (m : bytes), sign P (sk mod order P) m = sign P sk m.
Proof. exact @sign_mod. Qed.

(* a signature verifies under the signer's public key (any non-infinity key, in particular derived / synthetic ones) *)
Theorem C16_sign_verifies :
  forall (G1 G2 GT : Type) (P : pairing_ops G1 G2 GT), pairing_laws P ->
  forall (sk : N) (m : bytes),
  pk_of P sk <> gzero (o1 P) -> verify P (SIn (sign P sk m)) (pk_of P sk) m = true.
Proof. exact @sign_verifies. Qed.

(* signing is additive in the key *)
Theorem C16_sign_additive_in_key :
  forall (G1 G2 GT : Type) (P : pairing_ops G1 G2 GT), pairing_laws P ->
  forall (a b : N) (msg : bytes),
  sign_raw P (sk_add (order P) a b) msg = gadd (o2 P) (sign_raw P a msg) (sign_raw P b msg).
Proof. exact @sign_raw_additive. Qed.

(* PARTIAL (relative to the blst decompression oracle): unchecked parsing accepts a superset of checked parsing *)
Theorem C16_pk_checked_subset_of_unchecked_partial :
  forall (C1 : Type) (uncompress1 : bytes -> option C1) (c1_is_inf c1_in_g1 : C1 -> bool) (c1_inf : C1) (b : bytes) (p : C1),
  pk_from_bytes uncompress1 c1_is_inf c1_in_g1 c1_inf b = Some p ->
  pk_from_bytes_unchecked uncompress1 c1_inf b = Some p.
Proof. exact @pk_unchecked_superset. Qed.

(* PARTIAL: checked parsing returns only points that pass the subgroup test (infinity allowed) *)
Theorem C16_pk_checked_only_subgroup_partial :
  forall (C1 : Type) (uncompress1 : bytes -> option C1) (c1_is_inf c1_in_g1 : C1 -> bool) (c1_inf : C1) (b : bytes) (p : C1),
  pk_from_bytes uncompress1 c1_is_inf c1_in_g1 c1_inf b = Some p ->
  c1_is_valid c1_is_inf c1_in_g1 p = true.
Proof. exact @pk_checked_only_subgroup. Qed.

(* PARTIAL: an accepted 48-byte string is the encoding of the point (given that blst's decompression is canonical) *)
Theorem C16_pk_encoding_unique_partial :
  forall (C1 : Type) (uncompress1 : bytes -> option C1) (compress1 : C1 -> bytes) (c1_inf : C1),
  (forall (b : bytes) (p : C1), uncompress1 b = Some p -> compress1 p = b) ->
  compress1 c1_inf = inf48 ->
  forall (b : bytes) (p : C1), pk_from_bytes_unchecked uncompress1 c1_inf b = Some p -> compress1 p = b.
Proof. exact @pk_encoding_unique_partial. Qed.

(* PARTIAL: every valid public key survives to_bytes / from_bytes (given blst's compress/uncompress round trip, its flag bits,
   and that no subgroup point has x = 0) *)
Theorem C16_pk_roundtrip_partial :
  forall (C1 : Type) (uncompress1 : bytes -> option C1) (compress1 : C1 -> bytes)
         (c1_is_inf c1_in_g1 : C1 -> bool) (c1_inf : C1),
  (forall p : C1, uncompress1 (compress1 p) = Some p) ->
  (forall p : C1, length (compress1 p) = 48%nat) ->
  (forall p : C1, c1_is_inf p = true -> p = c1_inf) ->
  compress1 c1_inf = inf48 ->
  (forall p : C1, c1_is_inf p = false ->
     match compress1 p with [] => False | b0 :: _ => N.land (b2n b0) 192 = 128 end) ->
  (forall p : C1, c1_is_inf p = false -> c1_in_g1 p = true -> is_all_zero (tl (compress1 p)) = false) ->
  forall p : C1, c1_is_valid c1_is_inf c1_in_g1 p = true ->
  pk_from_bytes uncompress1 c1_is_inf c1_in_g1 c1_inf (compress1 p) = Some p.
Proof. exact @pk_roundtrip_partial. Qed.

(* PARTIAL: every valid signature survives to_bytes / from_bytes *)
Theorem C16_sig_roundtrip_partial :
  forall (C2 : Type) (uncompress2 : bytes -> option C2) (compress2 : C2 -> bytes) (c2_is_inf c2_in_g2 : C2 -> bool),
  (forall p : C2, uncompress2 (compress2 p) = Some p) ->
  (forall p : C2, length (compress2 p) = 96%nat) ->
  forall p : C2, c2_is_valid c2_is_inf c2_in_g2 p = true ->
  sig_from_bytes uncompress2 c2_is_inf c2_in_g2 (compress2 p) = Some p.
Proof. exact @sig_roundtrip_partial. Qed.

(* PARTIAL: an accepted 96-byte string is the encoding of the point *)
Theorem C16_sig_encoding_unique_partial :
  forall (C2 : Type) (uncompress2 : bytes -> option C2) (compress2 : C2 -> bytes),
  (forall (b : bytes) (p : C2), uncompress2 b = Some p -> compress2 p = b) ->
  forall (b : bytes) (p : C2), sig_from_bytes_unchecked uncompress2 b = Some p -> compress2 p = b.
Proof. exact @sig_encoding_unique_partial. Qed.

(* PARTIAL: checked signature parsing returns only points that pass the subgroup test, and is a subset of unchecked parsing *)
Theorem C16_sig_checked_only_subgroup_partial :
  forall (C2 : Type) (uncompress2 : bytes -> option C2) (c2_is_inf c2_in_g2 : C2 -> bool) (b : bytes) (p : C2),
  sig_from_bytes uncompress2 c2_is_inf c2_in_g2 b = Some p ->
  c2_is_valid c2_is_inf c2_in_g2 p = true /\ sig_from_bytes_unchecked uncompress2 b = Some p.
Proof. exact @sig_checked_both. Qed.

(* GTElement: from_bytes / to_bytes are the identity on 576-byte strings (round trip, unique encoding) *)
Theorem C16_gt_roundtrip :
  forall g : bytes, length g = gt_size -> gt_from_bytes (gt_to_bytes g) = Some g /\
  (forall b, gt_from_bytes b = Some g -> gt_to_bytes g = b).
Proof. exact gt_both. Qed.

(* non-vacuity: pairing_laws has an (executable) instance *)
Theorem C16_premises_satisfiable :
  pairing_laws toy.
Proof. exact toy_laws. Qed.

(* non-vacuity of the synthetic-key premises: an instance of the laws whose order is GROUP_ORDER_BYTES *)
Theorem C16_premises_satisfiable_at_group_order :
  pairing_laws toy_bls /\ order toy_bls = group_order_bytes_value.
Proof. exact (conj toy_bls_laws toy_bls_order). Qed.

