(* Props/C11.v — property C11: statements only.  Each theorem is closed by `exact`. *)
From ChiaV.Base Require Import Bytes.
From ChiaV.Clvm Require Import Ints Sexp IntsProofs LadderProofs.
From ChiaV.Gen Require Import Ladders.
Open Scope N_scope.

(* the bytes Coin::coin_id hashes for the amount (ladder translated from coin.rs on this run) *)
Theorem C11_coin_id_amount_canonical : forall v, v < 2 ^ 64 -> coin_amount_bytes v = canon_n v.
Proof. exact coin_amount_bytes_canon. Qed.

(* u64_to_bytes (signature message suffixes), translated from make_aggsig_final_message.rs *)
Theorem C11_u64_to_bytes_canonical : forall v, v < 2 ^ 64 -> u64_to_bytes v = canon_n v.
Proof. exact u64_to_bytes_canon. Qed.

(* clvm_bytes_len (generator length prediction), translated from solution_generator.rs *)
Theorem C11_generator_length_ladder : forall v, v < 2 ^ 64 ->
  Some (clvm_bytes_len v) = option_map nlen (ser (Atom (canon_n v))).
Proof. exact clvm_bytes_len_ser. Qed.

(* the canonical form is the unique minimal non-negative encoding *)
Theorem C11_canonical_form_unique : forall bs,
  is_minimal bs = true -> match bs with [] => True | b :: _ => b2n b < 128 end ->
  canon_n (be2n bs) = bs.
Proof. exact canon_n_unique. Qed.

Theorem C11_canonical_decodes : forall n, be2n (canon_n n) = n.
Proof. exact be2n_canon_n. Qed.
