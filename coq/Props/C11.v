(* Props/C11.v — property C11: statements only.  Each theorem is closed by `exact`. *)
From ChiaV.Base Require Import Bytes.
From ChiaV.Clvm Require Import Ints Sexp IntsProofs LadderProofs WidthProofs SignedProofs.
From ChiaV.Gen Require Import Ladders.
Open Scope N_scope.

(* the bytes Coin::coin_id hashes for the amount (ladder translated from coin.rs on this run) *)
Theorem C11_coin_id_amount_canonical : forall v, v < 2 ^ 64 -> coin_amount_bytes v = canon_n v.
Proof. exact coin_amount_bytes_canon. Qed.

(* u64_to_bytes (signature message suffixes), translated from make_aggsig_final_message.rs *)
Theorem C11_u64_to_bytes_canonical : forall v, v < 2 ^ 64 -> u64_to_bytes v = canon_n v.
Proof. exact u64_to_bytes_canon. Qed.

(* clvm_bytes_len (generator length prediction), translated from solution_generator.rs *)
Theorem C11_generator_length_ladder : forall v, v < 2 ^ 64 ->
  Some (clvm_bytes_len v) = option_map nlen (ser (Atom (canon_n v))).
Proof. exact clvm_bytes_len_ser. Qed.

(* the canonical form is the unique minimal non-negative encoding ... *)
Theorem C11_canonical_form_unique : forall bs,
  is_minimal bs = true -> match bs with [] => True | b :: _ => b2n b < 128 end ->
  canon_n (be2n bs) = bs.
Proof. exact canon_n_unique. Qed.

(* ... it is minimal, non-negative, and decodes to the value *)
Theorem C11_canonical_is_minimal : forall n, is_minimal (canon_n n) = true.
Proof. exact canon_n_minimal. Qed.

Theorem C11_canonical_decodes : forall n, be2n (canon_n n) = n.
Proof. exact be2n_canon_n. Qed.

(* condition integers (mirror of sanitize_uint, any width k):
   accepted exactly on the canonical form of a value below 256^k ... *)
Theorem C11_sanitize_accepts_exactly_canonical : forall bs k n,
  sanitize_uint bs k = SOk n <-> bs = canon_n n /\ n < 256 ^ N.of_nat k.
Proof. exact sanitize_uint_ok_iff. Qed.

(* ... redundant leading zero bytes are rejected ... *)
Theorem C11_sanitize_rejects_redundant_zero : forall bs k,
  sanitize_uint bs k = SErr <->
  match bs with
  | [b] => b2n b = 0
  | b0 :: b1 :: _ => b2n b0 = 0 /\ b2n b1 < 128
  | [] => False
  end.
Proof. exact sanitize_uint_err_iff. Qed.

(* ... a set top bit is a negative overflow, and a canonical value that does not fit is a
   positive overflow: nothing is ever truncated *)
Theorem C11_sanitize_negative : forall bs k,
  sanitize_uint bs k = SNegOverflow <-> match bs with b :: _ => 128 <= b2n b | [] => False end.
Proof. exact sanitize_uint_neg_iff. Qed.

Theorem C11_sanitize_positive_overflow : forall bs k,
  sanitize_uint bs k = SPosOverflow <-> exists n, bs = canon_n n /\ 256 ^ N.of_nat k <= n.
Proof. exact sanitize_uint_pos_iff. Qed.

(* clvm-traits value conversion (mirror of int_encoding.rs), every unsigned width LEN (u8 ... u128, usize):
   encode_number on to_be_bytes(v) is the canonical form, for ANY big-endian input string ... *)
Theorem C11_encode_number_unsigned_canonical : forall s, encode_number s false = canon_n (be2n s).
Proof. exact encode_number_unsigned. Qed.

Theorem C11_encode_number_width : forall LEN v, v < 256 ^ N.of_nat LEN -> encode_number (n2be LEN v) false = canon_n v.
Proof. exact encode_number_width. Qed.

(* ... and decode_number::<LEN> returns to_be_bytes(v) from the canonical form of every v of the width *)
Theorem C11_decode_number_unsigned : forall LEN v,
  v < 256 ^ N.of_nat LEN -> decode_number LEN false (canon_n v) = Some (n2be LEN v).
Proof. exact decode_number_unsigned. Qed.

(* Signed widths (i8 ... i128, isize): to_be_bytes(v) is two's complement (be_fixed); encoding it gives the
   canonical CLVM atom of v and decoding the canonical atom gives back to_be_bytes(v), for EVERY width > 0. *)
Theorem C11_encode_number_signed : forall LEN v,
  (0 < LEN)%nat -> (- Z.of_N (256 ^ N.of_nat LEN / 2) <= v < Z.of_N (256 ^ N.of_nat LEN / 2))%Z ->
  encode_number (be_fixed LEN v) (v <? 0)%Z = canon v.
Proof. exact encode_number_signed. Qed.

Theorem C11_decode_number_signed : forall LEN v,
  (0 < LEN)%nat -> (- Z.of_N (256 ^ N.of_nat LEN / 2) <= v < Z.of_N (256 ^ N.of_nat LEN / 2))%Z ->
  decode_number LEN true (canon v) = Some (be_fixed LEN v).
Proof. exact decode_number_signed. Qed.
