(* Props/C20.v — property C20: statements only.  Each theorem is closed by `exact`. *)
From Coq Require Import String.
From ChiaV.Base Require Import Bytes.
From ChiaV.Stream Require Import Universe Versioned Codec Json JsonProofs.
From ChiaV.Gen Require Import StreamTypes.
Open Scope N_scope.

(* ---- malformed JSON is rejected, never truncated / wrapped / defaulted ---- *)
(* a fixed-size byte string of the wrong length *)
Theorem C20_reject_wrong_byte_length : forall O n h b,
  of_hex h = Some b -> length b <> n -> from_json O (BytesN n) (JStr (x30 :: x78 :: h)) = None.
Proof. exact reject_wrong_byte_length. Qed.

(* a character that is not a hex digit / an odd number of digits (of_hex fails) *)
Theorem C20_reject_invalid_hex_fixed : forall O n h,
  of_hex h = None -> from_json O (BytesN n) (JStr (x30 :: x78 :: h)) = None.
Proof. exact reject_invalid_hex_fixed. Qed.
Theorem C20_reject_invalid_hex_bytes : forall O h,
  of_hex h = None -> from_json O Bytes (JStr (x30 :: x78 :: h)) = None.
Proof. exact reject_invalid_hex_bytes. Qed.

(* integers outside the range of their type, every width *)
Theorem C20_reject_uint_out_of_range : forall O n z,
  in_range_u n z = false -> from_json O (U n) (JInt z) = None.
Proof. exact reject_uint_out_of_range. Qed.
Theorem C20_reject_sint_out_of_range : forall O n z,
  in_range_i n z = false -> from_json O (I n) (JInt z) = None.
Proof. exact reject_sint_out_of_range. Qed.

(* wrong element counts *)
Theorem C20_reject_tuple_wrong_count : forall O ts l,
  length l <> length ts -> from_json O (Tup ts) (JList l) = None.
Proof. exact reject_tuple_wrong_count. Qed.
Theorem C20_reject_array_wrong_count : forall O n a l,
  length l <> n -> from_json O (Arr n a) (JList l) = None.
Proof. exact reject_array_wrong_count. Qed.

(* a missing key, for any field (also Option-typed ones: no defaulting) *)
Theorem C20_reject_missing_key : forall O name fs kvs k,
  In k (keys_of fs) -> dict_get k kvs = None -> from_json O (Struct name SNamed fs) (JDict kvs) = None.
Proof. exact reject_missing_key. Qed.

(* null (or any non-dict) where a struct with at least one field is required *)
Theorem C20_reject_struct_not_dict : forall O name f fs j,
  (forall kvs, j <> JDict kvs) -> from_json O (Struct name SNamed (f :: fs)) j = None.
Proof. exact reject_struct_not_dict. Qed.
