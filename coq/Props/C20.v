(* Props/C20.v — property C20: statements only.  Each theorem is closed by `exact`. *)
From Coq Require Import String.
From ChiaV.Base Require Import Bytes.
From ChiaV.Stream Require Import Universe Versioned Codec Json JsonProofs.
From ChiaV.Gen Require Import StreamTypes.
Open Scope N_scope.

(* ---- round trip ---- *)
(* json_ok t: the boolean side condition "no Option whose payload can itself be None (directly nested Option),
   only 2- and 3-tuples, distinct dict keys" — computed for every translated type below.
   wf O false t v: v is a well-formed value of type t (valid points, valid UTF-8, lengths < 2^32, ...). *)
Theorem C20_json_roundtrip : forall O t v,
  json_ok t = true -> wf O false t v = true ->
  exists j, to_json t v = Some j /\ from_json O t j = Some v.
Proof. exact json_roundtrip. Qed.

(* ... hence identical byte encoding and identical digest input (hash) *)
Theorem C20_json_roundtrip_same_bytes_and_hash : forall O t v,
  json_ok t = true -> wf O false t v = true ->
  exists j, to_json t v = Some j /\
    forall v', from_json O t j = Some v' -> v' = v /\ encode t v' = encode t v /\ digest O t v' = digest O t v.
Proof. exact json_roundtrip_same_bytes_and_hash. Qed.

(* the side condition holds for every type translated from the Rust source on this run *)
Theorem C20_json_ok_every_translated_type : forallb (fun p => json_ok (snd p)) stream_types = true.
Proof. exact json_ok_all. Qed.

(* ---- malformed JSON is rejected, never truncated / wrapped / defaulted ---- *)
(* a fixed-size byte string of the wrong length *)
Theorem C20_reject_wrong_byte_length : forall O n h b,
  of_hex h = Some b -> length b <> n -> from_json O (BytesN n) (JStr (x30 :: x78 :: h)) = None.
Proof. exact reject_wrong_byte_length. Qed.

(* a character that is not a hex digit / an odd number of digits (of_hex fails) *)
Theorem C20_reject_invalid_hex_fixed : forall O n h,
  of_hex h = None -> from_json O (BytesN n) (JStr (x30 :: x78 :: h)) = None.
Proof. exact reject_invalid_hex_fixed. Qed.
Theorem C20_reject_invalid_hex_bytes : forall O h,
  of_hex h = None -> from_json O Bytes (JStr (x30 :: x78 :: h)) = None.
Proof. exact reject_invalid_hex_bytes. Qed.

(* integers outside the range of their type, every width *)
Theorem C20_reject_uint_out_of_range : forall O n z,
  in_range_u n z = false -> from_json O (U n) (JInt z) = None.
Proof. exact reject_uint_out_of_range. Qed.
Theorem C20_reject_sint_out_of_range : forall O n z,
  in_range_i n z = false -> from_json O (I n) (JInt z) = None.
Proof. exact reject_sint_out_of_range. Qed.

(* wrong element counts *)
Theorem C20_reject_tuple_wrong_count : forall O ts l,
  length l <> length ts -> from_json O (Tup ts) (JList l) = None.
Proof. exact reject_tuple_wrong_count. Qed.
Theorem C20_reject_array_wrong_count : forall O n a l,
  length l <> n -> from_json O (Arr n a) (JList l) = None.
Proof. exact reject_array_wrong_count. Qed.

(* a missing key, for any field (also Option-typed ones: no defaulting) *)
Theorem C20_reject_missing_key : forall O name fs kvs k,
  In k (keys_of fs) -> dict_get k kvs = None -> from_json O (Struct name SNamed fs) (JDict kvs) = None.
Proof. exact reject_missing_key. Qed.

(* null (or any non-dict) where a struct with at least one field is required *)
Theorem C20_reject_struct_not_dict : forall O name f fs j,
  (forall kvs, j <> JDict kvs) -> from_json O (Struct name SNamed (f :: fs)) j = None.
Proof. exact reject_struct_not_dict. Qed.
