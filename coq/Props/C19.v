(* Props/C19.v — property C19: statements only.  Each theorem is closed by `exact`.
   "Mempool rewrites (fast-forward, dedup) preserve spend validity and meaning." *)
From ChiaV.Base Require Import Bytes Sha256.
From ChiaV.Clvm Require Import Sexp Ints TreeHash.
From ChiaV.Gen Require Import Opcodes.
From ChiaV.Cond Require Import Model.
From ChiaV.Mempool Require Import FastForward Fingerprint Dedup FastForwardProofs DedupProofs Examples.
Open Scope N_scope.

(* ================= fast forward ================= *)

(* the model runner executes fast_forward_singleton_shared (mod / inner puzzle hashed once); it is the mirror *)
Theorem C19_runner_definition_is_the_mirror : forall H MOD_HASH puzzle solution c nc np,
  fast_forward_singleton_shared H MOD_HASH puzzle solution c nc np
  = fast_forward_singleton H MOD_HASH puzzle solution c nc np.
Proof. exact ff_shared_eq. Qed.

(* (d) exact characterisation: accepted <=> odd amounts, equal puzzle hashes, the puzzle is the mod (hash MOD_HASH)
   curried with (MOD_HASH . (launcher . launcher_ph)) and an inner puzzle, the solution holds a lineage proof and
   the coin's amount, the lineage proof hashes to the coin's parent id, inner puzzle hash = lineage's, puzzle hash
   = coin's, new_parent is the parent of new_coin; and then the result is the re-encoded solution *)
Theorem C19_ff_accepts_exactly_genuine_spends : forall H MOD_HASH puzzle solution c nc np sol',
  fast_forward_singleton H MOD_HASH puzzle solution c nc np = FfOk sol'
  <-> ff_accepts H MOD_HASH puzzle solution c nc np sol'.
Proof. exact ff_iff. Qed.

Theorem C19_ff_refuses_everything_else : forall H MOD_HASH puzzle solution c nc np,
  (forall sol', ~ ff_accepts H MOD_HASH puzzle solution c nc np sol') ->
  exists e, fast_forward_singleton H MOD_HASH puzzle solution c nc np = FfErr e.
Proof. exact ff_refuses_everything_else. Qed.

(* (a) canonical solution: only parent_parent_coin_info, parent_amount, amount change *)
Theorem C19_ff_canonical_only_three_fields : forall H MOD_HASH puzzle c nc np sol' pp piph pa amount isol,
  fast_forward_singleton H MOD_HASH puzzle (canonical_solution pp piph pa amount isol) c nc np = FfOk sol' ->
  coin_amount np < 2 ^ 64 -> coin_amount nc < 2 ^ 64 ->
  sol' = canonical_solution (coin_parent np) piph (coin_amount np) (coin_amount nc) isol.
Proof. exact ff_canonical_three_fields. Qed.

(* (a) strict form: nil-terminated lists suffice (the integers, being replaced, may be non-canonical) *)
Theorem C19_ff_proper_lists_only_three_fields : forall H MOD_HASH puzzle c nc np sol' a b d e isol,
  fast_forward_singleton H MOD_HASH puzzle (Pair (Pair a (Pair b (Pair d nil))) (Pair e (Pair isol nil))) c nc np = FfOk sol' ->
  coin_amount np < 2 ^ 64 -> coin_amount nc < 2 ^ 64 ->
  patch_three_fields (Pair (Pair a (Pair b (Pair d nil))) (Pair e (Pair isol nil)))
                     (coin_parent np) (canon_n (coin_amount np)) (canon_n (coin_amount nc)) = Some sol'.
Proof. exact ff_proper_lists_three_fields. Qed.

(* any accepted solution: the result is the canonical solution over the parsed fields (trailing material dropped,
   integers re-encoded), and the fields the singleton layer / inner puzzle read survive a re-parse unchanged *)
Theorem C19_ff_normalises : forall H MOD_HASH puzzle solution c nc np sol',
  fast_forward_singleton H MOD_HASH puzzle solution c nc np = FfOk sol' ->
  coin_amount np < 2 ^ 64 -> coin_amount nc < 2 ^ 64 -> length (coin_parent np) = 32%nat ->
  exists pp piph pa isol,
    parse_solution solution = Some (Lineage pp piph pa, coin_amount c, isol) /\
    sol' = canonical_solution (coin_parent np) piph (coin_amount np) (coin_amount nc) isol /\
    parse_solution sol' = Some (Lineage (coin_parent np) piph (coin_amount np), coin_amount nc, isol).
Proof. exact ff_normalises. Qed.

(* F-C19-1: the strict "differs only in the three fields" reading FAILS for a solution with trailing material *)
Theorem C19_ff_three_fields_only_refuted :
  exists H M puzzle solution c nc np sol',
    fast_forward_singleton H M puzzle solution c nc np = FfOk sol' /\
    patch_three_fields solution (coin_parent np) (canon_n (coin_amount np)) (canon_n (coin_amount nc)) <> Some sol'.
Proof. exact ff_three_fields_only_refuted. Qed.

(* (b) the parent id and amount the singleton layer asserts on the rewritten solution are the new coin's *)
Theorem C19_ff_new_solution_asserts_new_coin : forall H MOD_HASH puzzle solution c nc np sol',
  fast_forward_singleton H MOD_HASH puzzle solution c nc np = FfOk sol' ->
  coin_amount np < 2 ^ 64 -> coin_amount nc < 2 ^ 64 ->
  exists program lid lph inner,
    parse_singleton puzzle = Some (program, (MOD_HASH, lid, lph), inner) /\
    th H puzzle = coin_ph nc /\
    asserted_parent_id H MOD_HASH lid lph sol' = Some (coin_parent nc) /\
    asserted_amount sol' = Some (canon_n (coin_amount nc)).
Proof. exact ff_asserts_new_coin. Qed.

(* (c) the inner solution is the same node (the puzzle, hence the inner puzzle, is not an output at all) *)
Theorem C19_ff_inner_untouched : forall H MOD_HASH puzzle solution c nc np sol',
  fast_forward_singleton H MOD_HASH puzzle solution c nc np = FfOk sol' ->
  exists lp amount isol rest,
    solution = Pair lp (Pair amount (Pair isol rest)) /\ inner_solution_of sol' = Some isol.
Proof. exact ff_inner_untouched. Qed.

(* u64 codec used by the list matchers: canonical encode, lenient decode *)
Theorem C19_u64_encode_canonical : forall v, v < 2 ^ 64 -> encode_u64 v = canon_n v.
Proof. exact encode_u64_canon. Qed.

Theorem C19_u64_decode_of_canonical : forall v, v < 2 ^ 64 -> decode_u64 (Atom (canon_n v)) = Some v.
Proof. exact decode_u64_canon. Qed.

(* non-vacuity (H = SHA-256): an accepted, non-canonical input *)
Theorem C19_ff_accepts_satisfiable :
  fast_forward_singleton sha256 ex_mod_hash ex_puzzle ex_solution ex_coin ex_new_coin ex_new_parent
  = FfOk (canonical_solution (repeat_byte 32 x44) (th sha256 ex_inner) 3 5 (Atom [x55])).
Proof. exact ff_accepts_satisfiable. Qed.

(* ================= dedup ================= *)

(* ELIGIBLE_FOR_DEDUP after post_spend => no AGG_SIG_* / SEND_MESSAGE / RECEIVE_MESSAGE condition in the list
   and the created amounts cover the coin amount (over the Cond/Model.v mirror of MempoolVisitor) *)
Theorem C19_dedup_flag_sound : forall valid_key H K fl ret state parent_id puzzle_hash amount conds max_cost clvm_cost
                                      ret2 state2 cost2 s,
  process_single_spend valid_key H K fl VMempool ret state parent_id puzzle_hash amount conds max_cost clvm_cost
    = Ok (ret2, state2, cost2) ->
  hd_error (b_spends_rev ret2) = Some s ->
  sp_dedup s = true ->
  Forall (fun op => is_agg_sig op = false /\ is_message_op op = false) (known_ops conds)
  /\ sp_amount s <= sum_created s.
Proof. exact dedup_flag_sound. Qed.

(* the fingerprint stream is the concatenation of the length-prefixed frames *)
Theorem C19_fp_stream_is_frames : forall c,
  fp_stream c = (fs <- fp_frames c ;; Ok (enc_frames fs)).
Proof. exact fp_stream_frames. Qed.

(* ... and is uniquely decodable into them *)
Theorem C19_fp_stream_uniquely_decodable : forall c1 c2 s fs1 fs2,
  small_atoms c1 -> small_atoms c2 ->
  fp_stream c1 = Ok s -> fp_stream c2 = Ok s ->
  fp_frames c1 = Ok fs1 -> fp_frames c2 = Ok fs2 -> fs1 = fs2.
Proof. exact fp_stream_uniquely_decodable. Qed.

(* equal streams => identical parsed conditions, for mempool-valid lists *)
Theorem C19_fp_stream_determines_conditions : forall fl c1 c2 s l1 l2,
  f_strict fl = true -> f_no_unknown fl = true -> small_atoms c1 -> small_atoms c2 ->
  fp_stream c1 = Ok s -> fp_stream c2 = Ok s ->
  parsed_conditions fl c1 = Ok l1 -> parsed_conditions fl c2 = Ok l2 -> l1 = l2.
Proof. exact fp_stream_determines_conditions. Qed.

(* parse_conditions is a function of the parsed list (so "identical parsed conditions" means identical results) *)
Theorem C19_conditions_loop_is_fold_of_parsed : forall valid_key K fl V c l st,
  parsed_conditions fl c = Ok l ->
  conditions_loop valid_key K fl V c st = run_parsed valid_key K fl V l st.
Proof. exact conditions_loop_run. Qed.

(* two spends of the same coin that pass mempool-mode validation with equal fingerprints have identical results,
   or the two fingerprint streams are an explicit collision of H *)
Theorem C19_equal_fingerprint_identical_spend : forall valid_key H K fl ret state par ph am c1 c2 mc cc r1 r2 f,
  f_strict fl = true -> f_no_unknown fl = true -> small_atoms c1 -> small_atoms c2 ->
  process_single_spend valid_key H K fl VMempool ret state par ph am c1 mc cc = Ok r1 ->
  process_single_spend valid_key H K fl VMempool ret state par ph am c2 mc cc = Ok r2 ->
  compute_puzzle_fingerprint H c1 = Ok f -> compute_puzzle_fingerprint H c2 = Ok f ->
  r1 = r2 \/ exists s1 s2, fp_stream c1 = Ok s1 /\ fp_stream c2 = Ok s2 /\ s1 <> s2 /\ H s1 = H s2.
Proof. exact equal_fingerprint_identical_spend. Qed.

(* run_spendbundle on a one-spend bundle (the function the fp.bundle stream executes): the dedup rule holds for the
   reported spend, and a fingerprint is produced only for a spend that is still dedup-eligible *)
Theorem C19_bundle_dedup_flag_sound : forall valid_key H K fl cf parent ph amount conds mc cc b spends fp,
  run_single_spend_bundle valid_key H K fl cf parent ph amount conds mc cc = Ok (b, spends, fp) ->
  exists s, spends = [s] /\
    (sp_dedup s = true ->
     Forall (fun op => is_agg_sig op = false /\ is_message_op op = false) (known_ops conds) /\ sp_amount s <= sum_created s) /\
    (fp <> None -> sp_dedup s = true /\ cf = true /\ exists st, fp_stream conds = Ok st /\ fp = Some (H st)).
Proof. exact bundle_dedup_flag_sound. Qed.

(* the N-spend loop of the runner (fp.bundle with N spends), on one spend, is that function *)
Theorem C19_bundle_runner_single : forall valid_key H K fl cf parent ph amount conds mc cc,
  run_spend_bundle valid_key H K fl cf [(parent, ph, amount, conds)] mc cc
  = (r <- run_single_spend_bundle valid_key H K fl cf parent ph amount conds mc cc ;;
     let '(b, spends, fp) := r in Ok (b, spends, [fp])).
Proof. exact run_spend_bundle_single. Qed.

(* the dedup-flag rule for EVERY spend of an N-spend bundle (the loop of run_spendbundle), each against the
   condition list its own puzzle returned *)
Theorem C19_bundle_flag_rule_all_spends : forall valid_key H K fl cf l mc cc b spends fps,
  run_spend_bundle valid_key H K fl cf l mc cc = Ok (b, spends, fps) ->
  Forall2 (fun (x : bytes * bytes * N * sexp) s =>
             sp_dedup s = true ->
             Forall (fun op => is_agg_sig op = false /\ is_message_op op = false) (known_ops (snd x))
             /\ sp_amount s <= sum_created s) l spends.
Proof. exact bundle_flag_rule. Qed.

(* MempoolVisitor::post_process never touches the dedup flag, the amount or the created coins *)
Theorem C19_post_process_keeps_dedup : forall H V spends state,
  Forall2 (fun a b => sp_dedup a = sp_dedup b /\ sp_amount a = sp_amount b /\ sp_create_coin a = sp_create_coin b)
          spends (post_process H V spends state).
Proof. exact post_process_same. Qed.

(* non-vacuity: two different trees (hint absent / empty-atom hint), same stream, both valid, flag set *)
Theorem C19_dedup_hypotheses_satisfiable :
  ex_conds1 <> ex_conds2 /\
  fp_stream ex_conds1 = fp_stream ex_conds2 /\
  (exists r, ex_run ex_conds1 = Ok r /\ ex_run ex_conds2 = Ok r /\
             match b_spends_rev (fst (fst r)) with s :: _ => sp_dedup s = true | [] => False end).
Proof. exact dedup_hypotheses_satisfiable. Qed.
