(* Props/C02.v — property C02 on the mirror of conditions.rs: statements only. *)
From ChiaV.Base Require Import Bytes.
From ChiaV.Clvm Require Import Sexp Ints.
From ChiaV.Clvm Require Import IntsProofs LadderProofs.
From ChiaV.Gen Require Import Ladders.
From ChiaV.Cond Require Import Model Invariants.
Open Scope N_scope.

(* Every result parse_spends accepts (any tree, flags, visitor, cost limit, key oracle, hash):
   created + reserved fee <= spent; the totals are the sums over the listed spends / outputs;
   no coin id twice; no spend creates the same (puzzle hash, amount) twice; every coin id is
   H(parent ++ puzzle_hash ++ canonical amount) with 32-byte hashes and a u64 amount. *)
Theorem C02_accepted_conserves : forall vk H K fl V t max_cost clvm_cost b spends pairs,
  parse_spends vk H K fl V t max_cost clvm_cost = Ok (b, spends, pairs) ->
  b_addition b + b_reserve_fee b <= b_removal b /\
  b_removal b = sumN (map sp_amount spends) /\
  b_addition b = sumN (map created spends) /\
  NoDup (map sp_coin_id spends) /\
  Forall (fun s =>
            NoDup (map (fun c => (nc_ph c, nc_amount c)) (sp_create_coin s)) /\
            sp_coin_id s = H (sp_parent s ++ sp_ph s ++ canon_n (sp_amount s)) /\
            length (sp_parent s) = 32%nat /\ length (sp_ph s) = 32%nat /\ sp_amount s < 2 ^ 64) spends.
Proof. exact accepted_conserves. Qed.

(* the coin-id function of chia-protocol (Coin::coin_id; its amount ladder is translated from coin.rs on
   every run) hashes the same canonical amount: for every u64 the bytes it feeds to SHA-256 after parent
   and puzzle hash are the minimal big-endian form, so Coin::coin_id = H(parent ++ puzzle_hash ++ canonical amount) *)
Theorem C02_coin_id_function_hashes_canonical_amount : forall v, v < 2 ^ 64 -> coin_amount_bytes v = canon_n v.
Proof. exact coin_amount_bytes_canon. Qed.
