(* Props/C04.v — property C04 (condition / spend cost part): statements only. *)
From ChiaV.Base Require Import Bytes.
From ChiaV.Clvm Require Import Sexp Ints.
From ChiaV.Gen Require Import Opcodes.
From ChiaV.Cond Require Import Model Spec Facts Invariants CostFacts LimitExact.
Open Scope N_scope.

(* the cost constants translated from opcodes.rs on this run are the consensus cost table *)
Theorem C04_cost_constants_are_consensus :
  AGG_SIG_COST = Spec.AGG_SIG_COST /\ CREATE_COIN_COST = Spec.CREATE_COIN_COST /\
  NEW_CREATE_COIN_COST = Spec.NEW_CREATE_COIN_COST /\ SPEND_COST = Spec.SPEND_COST /\
  MESSAGE_CONDITION_COST = Spec.MESSAGE_CONDITION_COST /\ GENERIC_CONDITION_COST = Spec.GENERIC_CONDITION_COST.
Proof. exact cost_constants_are_consensus. Qed.

(* two-byte opcodes: the transcription of calculate_cost_table (source text tied by the translator)
   yields the 256 consensus values; finite, by computation *)
Theorem C04_two_byte_cost_table : COSTS = Spec.two_byte_costs.
Proof. exact cost_table_is_consensus. Qed.

Theorem C04_unknown_condition_cost : forall op,
  compute_unknown_condition_cost op = if op <? 256 then 0 else nth (N.to_nat (op mod 256)) Spec.two_byte_costs 0.
Proof. exact unknown_cost_spec. Qed.

(* accounting: for every accepted result of parse_spends, reported cost = condition cost = sum of the
   per-spend condition costs, and it never exceeds the limit it was given *)
Theorem C04_cost_accounting : forall vk H K fl V t max_cost clvm_cost b spends pairs,
  parse_spends vk H K fl V t max_cost clvm_cost = Ok (b, spends, pairs) ->
  b_cost b = b_cond_cost b /\ b_cond_cost b = sumN (map sp_cond_cost spends) /\ b_cost b <= max_cost.
Proof. exact cost_accounting. Qed.

(* the limit is exact: an accepted result is reproduced identically under limit = its reported cost,
   and every smaller limit fails with CostExceeded (all trees, flags, visitors, oracles) *)
Theorem C04_limit_exact : forall vk H K fl V t max_cost clvm_cost b spends pairs,
  parse_spends vk H K fl V t max_cost clvm_cost = Ok (b, spends, pairs) ->
  b_cost b <= max_cost /\
  parse_spends vk H K fl V t (b_cost b) clvm_cost = Ok (b, spends, pairs) /\
  (forall m, m < b_cost b -> parse_spends vk H K fl V t m clvm_cost = Err CostExceeded).
Proof. exact limit_exact. Qed.
