(* Props/C04.v *)
From ChiaV.Base Require Import Bytes.
