(* Props/C12.v — property C12: statements only.  Each theorem is closed by `exact`. *)
From ChiaV.Base Require Import Bytes Sha256.
From ChiaV.Gen Require Import Mset.
From ChiaV.Merkle Require Import MerkleSpec MerkleSet MerkleTree MerkleConstProofs.
Open Scope N_scope.

(* EMPTY_NODE_HASH (merkle_tree.rs) is SHA-256 of BLANK (merkle_set.rs), both read from the source on this run *)
Theorem C12_empty_node_hash : EMPTY_NODE_HASH = sha256 BLANK.
Proof. exact empty_node_hash_is_sha_blank. Qed.
