(* Props/C12.v — property C12 (Merkle set roots are canonical, proofs complete and sound):
   statements only.  Each theorem is closed by `exact`.
   H is an arbitrary hash function; nothing is assumed about it unless stated. *)
From ChiaV.Base Require Import Bytes Sha256.
From ChiaV.Gen Require Import Mset.
From ChiaV.Merkle Require Import MerkleSpec MerkleSet MerkleTree MerkleConstProofs MerkleSetProofs MerkleProofSpec MerkleTreeProofs.
Open Scope N_scope.

(* EMPTY_NODE_HASH (merkle_tree.rs) is SHA-256 of BLANK (merkle_set.rs), both read from the source on this run *)
Theorem C12_empty_node_hash : EMPTY_NODE_HASH = sha256 BLANK.
Proof. exact empty_node_hash_is_sha_blank. Qed.

(* (1) compute_merkle_set_root (two-pointer in-place radix sort) never panics / runs out of fuel and
   returns the reference root: the hash of the collapsed binary trie of the SET of leaves *)
Theorem C12_root_is_spec : forall (H : bytes -> bytes) l, Forall leaf32 l ->
  compute_merkle_set_root H l = Ok (spec_root H l).
Proof. exact compute_root_spec. Qed.

(* the reference root depends only on membership *)
Theorem C12_spec_root_of_set : forall (H : bytes -> bytes) l l', Forall leaf32 l ->
  (forall x, In x l <-> In x l') -> spec_root H l = spec_root H l'.
Proof. exact spec_root_ext. Qed.

(* hence: the root is invariant under permutation and duplication of the leaf list *)
Theorem C12_root_of_set : forall (H : bytes -> bytes) l l', Forall leaf32 l -> Forall leaf32 l' ->
  (forall x, In x l <-> In x l') -> compute_merkle_set_root H l = compute_merkle_set_root H l'.
Proof. exact compute_root_set_invariant. Qed.

(* (2) MerkleSet::from_leafs (node vector with cached hashes) succeeds and its get_root equals compute_merkle_set_root *)
Theorem C12_tree_root_agrees : forall (H : bytes -> bytes) l, Forall leaf32 l ->
  exists t, from_leafs H l = Ok t /\ get_root H t = compute_merkle_set_root H l.
Proof. exact from_leafs_root. Qed.
