(* Props/C12.v — property C12 (Merkle set roots are canonical, proofs complete and sound):
   statements only.  Each theorem is closed by `exact`.
   H is an arbitrary hash function; nothing is assumed about it unless stated. *)
From ChiaV.Base Require Import Bytes Sha256.
From ChiaV.Gen Require Import Mset.
From ChiaV.Merkle Require Import MerkleSpec MerkleSet MerkleTree MerkleConstProofs MerkleSetProofs MerkleProofSpec MerkleTreeProofs MerkleDeserProofs MerkleSoundProofs MerkleCompleteProofs MerkleExamples MerkleDepth MerkleDepthProofs.
Open Scope N_scope.

(* EMPTY_NODE_HASH (merkle_tree.rs) is SHA-256 of BLANK (merkle_set.rs), both read from the source on this run *)
Theorem C12_empty_node_hash : EMPTY_NODE_HASH = sha256 BLANK.
Proof. exact empty_node_hash_is_sha_blank. Qed.

(* (1) compute_merkle_set_root (two-pointer in-place radix sort) never panics / runs out of fuel and
   returns the reference root: the hash of the collapsed binary trie of the SET of leaves *)
Theorem C12_root_is_spec : forall (H : bytes -> bytes) l, Forall leaf32 l ->
  compute_merkle_set_root H l = Ok (spec_root H l).
Proof. exact compute_root_spec. Qed.

(* the reference root depends only on membership *)
Theorem C12_spec_root_of_set : forall (H : bytes -> bytes) l l', Forall leaf32 l ->
  (forall x, In x l <-> In x l') -> spec_root H l = spec_root H l'.
Proof. exact spec_root_ext. Qed.

(* hence: the root is invariant under permutation and duplication of the leaf list *)
Theorem C12_root_of_set : forall (H : bytes -> bytes) l l', Forall leaf32 l -> Forall leaf32 l' ->
  (forall x, In x l <-> In x l') -> compute_merkle_set_root H l = compute_merkle_set_root H l'.
Proof. exact compute_root_set_invariant. Qed.

(* (2) MerkleSet::from_leafs (node vector with cached hashes) succeeds and its get_root equals compute_merkle_set_root *)
Theorem C12_tree_root_agrees : forall (H : bytes -> bytes) l, Forall leaf32 l ->
  exists t, from_leafs H l = Ok t /\ get_root H t = compute_merkle_set_root H l.
Proof. exact from_leafs_root. Qed.

(* (4) soundness for ARBITRARY proof bytes: if validate_merkle_proof accepts a byte string against the
   root of S and reports b for item x, then b is the truth about membership -- unless the run exhibits
   two distinct inputs with equal digest, or an input whose digest is the all-zero BLANK
   (BLANK doubles as the root of the empty set, so such a preimage would make a non-empty set look empty).
   Only hypothesis on H: digests are 32 bytes long. *)
Theorem C12_proof_sound : forall (H : bytes -> bytes), (forall m, length (H m) = 32%nat) ->
  forall S x proof root b, Forall leaf32 S -> leaf32 x ->
  compute_merkle_set_root H S = Ok root ->
  validate_merkle_proof H proof x root = Ok b ->
  b = mem x S \/ collision H \/ zero_preimage H.
Proof. exact proof_sound. Qed.

(* the hypothesis of C12_proof_sound holds for the executable SHA-256 *)
Theorem C12_sha256_digest_length : forall m, length (sha256 m) = 32%nat.
Proof. exact sha256_len. Qed.

(* (3) completeness: for every set and every item, from_leafs succeeds, generate_proof returns the true
   inclusion flag together with proof bytes, and validate_merkle_proof accepts exactly those bytes against
   the computed root with the same flag.  No panic, no fuel exhaustion, no collision disjunct. *)
Theorem C12_proof_complete : forall (H : bytes -> bytes), (forall m, length (H m) = 32%nat) ->
  forall S x, Forall leaf32 S -> leaf32 x ->
  exists t p root, from_leafs H S = Ok t /\ generate_proof t x = Ok (mem x S, p) /\
    compute_merkle_set_root H S = Ok root /\ validate_merkle_proof H p x root = Ok (mem x S).
Proof. exact proof_complete. Qed.

(* non-vacuity: concrete runs with the executable SHA-256 (a 3-element set given with a duplicate,
   a member and a non-member), checked by vm_compute *)
Theorem C12_example_member : ex_run ex_a = Some (true, true).
Proof. exact example_member. Qed.
Theorem C12_example_non_member : ex_run ex_x = Some (false, false).
Proof. exact example_non_member. Qed.

(* (5) the u8 depth arithmetic never overflows on the paths reachable from honest proof generation:
   on every tree built by from_leafs, generate_proof with overflow-CHECKED `depth + 1` (debug-build semantics:
   Panic on overflow, MerkleDepth.v) returns exactly what the wrapping (release-build) mirror returns -- which by
   C12_proof_complete is Ok.  Holds for every H, every leaf list and every queried item. *)
Theorem C12_depth_never_overflows : forall (H : bytes -> bytes) S x, Forall leaf32 S ->
  exists t, from_leafs H S = Ok t /\ generate_proof_chk t x = generate_proof t x.
Proof. exact depth_never_overflows. Qed.
