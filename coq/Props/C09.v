(* Props/C09.v — property C09 (trusted fast paths report what full validation reports): statements only.
   Each theorem is closed by `exact`.

   native = run_block_generator2 (full validation; mirror in Chain/Generator.v over the Cond mirror);
   helpers = mirrors in Chain/Trusted.v.  CLVM evaluation is the oracle `run` (budget-monotone and exact). *)
From Coq Require Import Permutation.
From ChiaV.Base Require Import Bytes.
From ChiaV.Clvm Require Import Sexp TreeHash.
From ChiaV.Gen Require Import Opcodes ChainConsts.
From ChiaV.Cond Require Import Model.
From ChiaV.Chain Require Import Backref Rom Generator GeneratorSpec Trusted TrustedSpec TrustedProofs TrustedRebuildProofs.
From ChiaV.Chain Require Import TrustedOrderSpec TrustedOrderProofs.
Open Scope N_scope.

(* For every generator full validation accepts (within the block cost limit): additions_and_removals succeeds;
   its removals are exactly [(coin id, coin)] of the validated spends, in order; its additions are exactly the
   created coins of the validated spends (per spend, in condition order) with exactly the hints the validated
   summary reports (an empty first memo is "no hint" on both sides since fix 0a21e864). *)
Theorem C09_additions_and_removals : forall run valid_key sig_ok H K, run_exact_hyp run ->
  forall program refs max_cost gf b spends pairs,
    run_block_generator2 run valid_key sig_ok H K program refs max_cost gf = Ok (b, spends, pairs) ->
    max_cost <= MAX_BLOCK_COST_CLVM ->
    additions_and_removals run H program refs gf =
      Ok (concat (map expected_additions spends), map removal_of spends).
Proof. exact trusted_additions_and_removals. Qed.

(* the helper never reports the empty hint *)
Theorem C09_no_empty_hint : forall run H program refs gf adds rems,
  additions_and_removals run H program refs gf = Ok (adds, rems) -> Forall hint_nonempty adds.
Proof. exact additions_hints. Qed.

(* finer: per spend, the reported group maps onto the validated created coins with
   nc_hint = the reported hint's bytes (None and Some "" both become "no hint") *)
Theorem C09_additions_per_spend : forall run valid_key sig_ok H K, run_exact_hyp run ->
  forall program refs max_cost gf b spends pairs,
    run_block_generator2 run valid_key sig_ok H K program refs max_cost gf = Ok (b, spends, pairs) ->
    max_cost <= MAX_BLOCK_COST_CLVM ->
    exists groups,
      additions_and_removals run H program refs gf = Ok (concat groups, map removal_of spends) /\
      Forall2 group_ok spends groups.
Proof. exact ar_correct. Qed.

(* the former witness of F-C09-1 (empty-atom first memo), now a positive instance *)
Theorem C09_empty_memo_example :
  exists run H, run_exact_hyp run /\
  exists vk sig K program refs max_cost gf b spends pairs adds rems,
    max_cost <= MAX_BLOCK_COST_CLVM /\
    run_block_generator2 run vk sig H K program refs max_cost gf = Ok (b, spends, pairs) /\
    additions_and_removals run H program refs gf = Ok (adds, rems) /\
    map snd adds = [None] /\ adds = concat (map expected_additions spends).
Proof. exact empty_memo_example. Qed.

(* Lookup: for every accepted generator, looking up the i-th removed coin in the generator's output returns the
   i-th tuple's puzzle and solution (spend-level extras are ignored since fix 1aa0e3f6) *)
Theorem C09_lookup : forall run valid_key sig_ok H K program refs max_cost gf b spends pairs,
  run_block_generator2 run valid_key sig_ok H K program refs max_cost gf = Ok (b, spends, pairs) ->
  exists out iter,
    native_generator_output run program refs max_cost gf = Ok out /\ first out = Ok iter /\
    Forall2 (fun sp t => let '(_, pz, _, sol) := t in
                         get_puzzle_and_solution_for_coin H out (snd (removal_of sp)) = Ok (pz, sol))
            spends (spend_tuples iter).
Proof. exact lookup_correct. Qed.

(* the former witness of F-C09-2 (a spend-level extra after the solution), now a positive instance *)
Theorem C09_lookup_extras_example :
  exists run H, run_exact_hyp run /\
  exists vk sig K program refs max_cost gf b sp pairs out ps,
    run_block_generator2 run vk sig H K program refs max_cost gf = Ok (b, [sp], pairs) /\
    native_generator_output run program refs max_cost gf = Ok out /\
    get_puzzle_and_solution_for_coin H out (snd (removal_of sp)) = Ok ps.
Proof. exact lookup_extras_example. Qed.

(* Recovered coin spends: for every accepted generator, get_coinspends_for_trusted_block returns one coin spend per
   validated spend, in order: the validated coin with the serialized puzzle reveal and solution of its tuple *)
Theorem C09_coin_spends : forall run valid_key sig_ok H K, run_exact_hyp run ->
  forall program refs max_cost gf b spends pairs,
    run_block_generator2 run valid_key sig_ok H K program refs max_cost gf = Ok (b, spends, pairs) ->
    max_cost <= MAX_BLOCK_COST_CLVM ->
    exists out iter,
      native_generator_output run program refs max_cost gf = Ok out /\ first out = Ok iter /\
      length spends = length (spend_tuples iter) /\
      get_coinspends_for_trusted_block run H program refs gf =
        Ok (map (fun st => coin_spend_of_tuple (fst st) (snd st)) (combine spends (spend_tuples iter))).
Proof. exact coinspends_correct. Qed.

(* non-vacuity: an accepted block with a 32-byte hint on which the helper agrees with validation *)
Theorem C09_example : 
  exists run H, run_exact_hyp run /\
  exists vk sig K program refs max_cost gf b spends pairs adds,
    max_cost <= MAX_BLOCK_COST_CLVM /\
    run_block_generator2 run vk sig H K program refs max_cost gf = Ok (b, spends, pairs) /\
    additions_and_removals run H program refs gf = Ok (adds, map removal_of spends) /\
    map snd adds = [Some (repeat x33 32)].
Proof. exact trusted_example. Qed.

(* Rebuild: for every accepted generator, feed the recovered coin spends to solution_generator in REVERSE order
   (build_generator conses every spend onto the front of the list, see C09_build_generator_reverses): if every puzzle
   reveal and solution serializes within node_to_bytes' 2 MB limit (otherwise Program::from_clvm has replaced it by
   the nil program), build_generator succeeds with the accepted spend tuples in their order, spend-level extras
   dropped; and whenever solution_generator returns a program (the whole generator is within 2 MB), full validation
   of that program under the same flags, with no block references and ANY cost limit, either runs out of cost or
   accepts with the same summary up to costs: `neutral` = equal spends in order with all their conditions, created
   coins and hints, signatures, locks and flags, per-spend and total condition cost, reserve fee, absolute locks,
   removal/addition amounts (hence fee), unsafe signatures and the (key, message) pairs.  What may differ: total cost
   (byte/interned cost of the new serialization, generator execution cost = 20), and the spend-level extras. *)
Theorem C09_rebuild : forall run valid_key sig_ok H K, run_exact_hyp run -> run_quote_hyp run ->
  forall program refs max_cost gf b spends pairs,
    run_block_generator2 run valid_key sig_ok H K program refs max_cost gf = Ok (b, spends, pairs) ->
    max_cost <= MAX_BLOCK_COST_CLVM ->
    exists out iter cs,
      native_generator_output run program refs max_cost gf = Ok out /\ first out = Ok iter /\
      get_coinspends_for_trusted_block run H program refs gf = Ok cs /\
      (Forall fits_tuple (spend_tuples iter) ->
       build_generator (rev cs) = Some (rebuilt_generator iter) /\
       forall program' max_cost',
         solution_generator (rev cs) = Some program' ->
         match run_block_generator2 run valid_key sig_ok H K program' [] max_cost' gf return Prop with
         | Ok s' => neutral s' = neutral (b, spends, pairs)
         | Err e => e = CostExceeded
         end).
Proof. exact rebuild_correct. Qed.

(* build_generator lists the spends in reverse order of its input *)
Theorem C09_build_generator_reverses : forall l items,
  Forall2 (fun c it => spend_item c = Some it) l items ->
  forall acc, prepend_spends l acc = Some (fold_right Pair acc (rev items)).
Proof. exact prepend_in_order. Qed.

(* IN-ORDER feed (former C09_rebuild_in_order_partial), by a bridge from this unit's mirror of run_block_generator2 to
   unit bundle's (Bundle/BlockPath.v) and unit bundle's agreement/order theorems (AgreeProofs.agree_rev,
   OrderFullProofs.agree_full_same).  Hypotheses on the oracle: unit bundle's two (run_intrinsic_hyp: every
   evaluation has an intrinsic cost and result, below which it reports the cost error; run_quote_exact_hyp: (q . x)
   costs exactly 20), which imply this unit's run_exact_hyp and run_quote_hyp; and the signature check does not
   depend on the order of the pairs.  Scope: not INTERNED_GENERATOR; at most MAX_SPENDS_PER_BLOCK spends; puzzles
   and solutions within the 2 MB Program limit (fits_tuple); budget of the form m + REBUILD_OVERHEAD.
   For the recovered coin spends cs, pF = solution_generator(cs) (in order) and pR = solution_generator(rev cs):
   full validation gives the same verdict on both (both accept, or both reject and pR's error is the cost limit), and
   on acceptance
     - EQUAL between pF and pR (reversed_summary): cost, execution cost, condition cost, removal and addition
       amounts, reserve fee, the four absolute locks;
     - EQUAL between pR and the original accepted block: the whole neutral summary (C09_rebuild);
     - REVERSED: the reported spends of pF are those of pR (hence of the original, up to the per-spend execution-cost
       bookkeeping erased by erase_s) in reverse order, up to the two mempool-only flag bits
       ELIGIBLE_FOR_FF / ELIGIBLE_FOR_DEDUP (erase_flags);
     - PERMUTATION only: agg_sig_unsafe and the (public key, message) pairs.
   Total cost and execution cost of pF are equal to pR's, not to the original block's (the rebuilt program has a
   different size and costs 20 to run). *)
Theorem C09_rebuild_in_order : forall run valid_key sig_ok H K,
  run_intrinsic_hyp run -> run_quote_exact_hyp run ->
  (forall l l' : list (bytes * bytes), Permutation l l' -> sig_ok l = sig_ok l') ->
  forall program refs max_cost gf b spends pairs,
    run_block_generator2 run valid_key sig_ok H K program refs max_cost gf = Ok (b, spends, pairs) ->
    max_cost <= MAX_BLOCK_COST_CLVM ->
    g_interned gf = false -> N.of_nat (length spends) <= MAX_SPENDS_PER_BLOCK ->
    exists out iter cs,
      native_generator_output run program refs max_cost gf = Ok out /\ first out = Ok iter /\
      get_coinspends_for_trusted_block run H program refs gf = Ok cs /\
      (Forall fits_tuple (spend_tuples iter) ->
       forall pF pR m,
         solution_generator cs = Some pF -> solution_generator (rev cs) = Some pR ->
         match run_block_generator2 run valid_key sig_ok H K pF [] (m + REBUILD_OVERHEAD) gf,
               run_block_generator2 run valid_key sig_ok H K pR [] (m + REBUILD_OVERHEAD) gf return Prop with
         | Ok sF, Ok sR => reversed_summary sF sR /\ neutral sR = neutral (b, spends, pairs) /\
                           reversed_of_original sF (b, spends, pairs)
         | Err _, Err eR => eR = CostExceeded
         | _, _ => False
         end).
Proof. exact rebuild_in_order_thm. Qed.

(* unit bundle's oracle hypotheses imply this unit's *)
Theorem C09_intrinsic_implies_exact : forall run, run_intrinsic_hyp run -> run_exact_hyp run.
Proof. exact intrinsic_exact. Qed.

Theorem C09_quote_exact_implies_quote : forall run, run_quote_exact_hyp run -> run_quote_hyp run.
Proof. exact quote_exact_quote. Qed.

(* joint non-vacuity: one oracle satisfies every hypothesis used in C07/C09 (this unit's and unit bundle's) together;
   on a two-spend generator the in-order rebuild differs from the original program, is accepted, and reports the two
   spends in the other order *)
Theorem C09_rebuild_in_order_example :
  exists run H, run_oracle_ok run H /\ run_intrinsic_hyp run /\ run_quote_exact_hyp run /\
  exists vk sig K program max_cost gf b spends pairs cs pF sF m,
    (forall l l' : list (bytes * bytes), Permutation l l' -> sig l = sig l') /\
    run_block_generator2 run vk sig H K program [] max_cost gf = Ok (b, spends, pairs) /\
    length spends = 2%nat /\
    get_coinspends_for_trusted_block run H program [] gf = Ok cs /\
    solution_generator cs = Some pF /\ pF <> program /\
    run_block_generator2 run vk sig H K pF [] (m + REBUILD_OVERHEAD) gf = Ok sF /\
    reversed_of_original sF (b, spends, pairs) /\
    map erase_flags (map erase_s (snd (fst sF))) <> map erase_flags (map erase_s spends).
Proof. exact in_order_example. Qed.

(* SpendBundle::additions on the recovered coin spends of an accepted block, under NO_UNKNOWN_CONDS (a bundle valid
   in mempool mode): it lists exactly the created coins of the validated spends, in order, or runs out of its own
   (more conservative) cost budget.  Without NO_UNKNOWN_CONDS the helper fails on a condition whose operator is a
   pair, which consensus-mode validation ignores as unknown (observation F-C09-3 in notes/gen.md). *)
Theorem C09_spend_bundle_additions : forall run valid_key sig_ok H K, run_exact_hyp run ->
  forall program refs max_cost gf b spends pairs,
    run_block_generator2 run valid_key sig_ok H K program refs max_cost gf = Ok (b, spends, pairs) ->
    max_cost <= MAX_BLOCK_COST_CLVM ->
    f_no_unknown (g_cond gf) = true ->
    exists out iter cs,
      native_generator_output run program refs max_cost gf = Ok out /\ first out = Ok iter /\
      get_coinspends_for_trusted_block run H program refs gf = Ok cs /\
      (Forall fits_tuple (spend_tuples iter) ->
       match spend_bundle_additions run H cs return Prop with
       | Ok coins => coins = map fst (concat (map expected_additions spends))
       | Err e => e = CostExceeded
       end).
Proof. exact sbadd_correct. Qed.

(* get_coinspends_with_conditions_for_trusted_block: one entry per validated spend, in order: the same coin spend as
   get_coinspends_for_trusted_block and the helper's condition view (csc_conditions) of the puzzle's output *)
Theorem C09_coin_spends_with_conditions : forall run valid_key sig_ok H K, run_exact_hyp run ->
  forall program refs max_cost gf b spends pairs,
    run_block_generator2 run valid_key sig_ok H K program refs max_cost gf = Ok (b, spends, pairs) ->
    max_cost <= MAX_BLOCK_COST_CLVM ->
    exists out iter,
      native_generator_output run program refs max_cost gf = Ok out /\ first out = Ok iter /\
      get_coinspends_with_conditions_for_trusted_block run H program refs gf =
        Ok (map (csc_of run) (combine spends (spend_tuples iter))).
Proof. exact coinspends_with_conditions_correct. Qed.

(* non-vacuity of the three: toy oracle (satisfies both hypotheses), the generator with a spend-level extra, under
   NO_UNKNOWN_CONDS: the rebuilt program differs from the original, is accepted with the same summary, and
   SpendBundle::additions lists the one created coin *)
Theorem C09_rebuild_example :
  exists run H, run_exact_hyp run /\ run_quote_hyp run /\
  exists vk sig K program refs max_cost gf b spends pairs cs program' s',
    run_block_generator2 run vk sig H K program refs max_cost gf = Ok (b, spends, pairs) /\
    get_coinspends_for_trusted_block run H program refs gf = Ok cs /\
    solution_generator (rev cs) = Some program' /\ program' <> program /\
    run_block_generator2 run vk sig H K program' [] max_cost gf = Ok s' /\
    neutral s' = neutral (b, spends, pairs) /\
    spend_bundle_additions run H cs = Ok (map fst (concat (map expected_additions spends))) /\
    length (concat (map expected_additions spends)) = 1%nat.
Proof. exact rebuild_example. Qed.
