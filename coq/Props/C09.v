(* Props/C09.v — property C09 (trusted fast paths report what full validation reports): statements only.
   Each theorem is closed by `exact`.

   native = run_block_generator2 (full validation; mirror in Chain/Generator.v over the Cond mirror);
   helpers = mirrors in Chain/Trusted.v.  CLVM evaluation is the oracle `run` (budget-monotone and exact). *)
From ChiaV.Base Require Import Bytes.
From ChiaV.Clvm Require Import Sexp TreeHash.
From ChiaV.Gen Require Import ChainConsts.
From ChiaV.Cond Require Import Model.
From ChiaV.Chain Require Import Backref Rom Generator GeneratorSpec Trusted TrustedSpec TrustedProofs.
Open Scope N_scope.

(* For every generator full validation accepts (within the block cost limit): additions_and_removals succeeds;
   its removals are exactly [(coin id, coin)] of the validated spends, in order; its additions are exactly the
   created coins of the validated spends (per spend, in condition order) with exactly the hints the validated
   summary reports (an empty first memo is "no hint" on both sides since fix 0a21e864). *)
Theorem C09_additions_and_removals : forall run valid_key sig_ok H K, run_exact_hyp run ->
  forall program refs max_cost gf b spends pairs,
    run_block_generator2 run valid_key sig_ok H K program refs max_cost gf = Ok (b, spends, pairs) ->
    max_cost <= MAX_BLOCK_COST_CLVM ->
    additions_and_removals run H program refs gf =
      Ok (concat (map expected_additions spends), map removal_of spends).
Proof. exact trusted_additions_and_removals. Qed.

(* the helper never reports the empty hint *)
Theorem C09_no_empty_hint : forall run H program refs gf adds rems,
  additions_and_removals run H program refs gf = Ok (adds, rems) -> Forall hint_nonempty adds.
Proof. exact additions_hints. Qed.

(* finer: per spend, the reported group maps onto the validated created coins with
   nc_hint = the reported hint's bytes (None and Some "" both become "no hint") *)
Theorem C09_additions_per_spend : forall run valid_key sig_ok H K, run_exact_hyp run ->
  forall program refs max_cost gf b spends pairs,
    run_block_generator2 run valid_key sig_ok H K program refs max_cost gf = Ok (b, spends, pairs) ->
    max_cost <= MAX_BLOCK_COST_CLVM ->
    exists groups,
      additions_and_removals run H program refs gf = Ok (concat groups, map removal_of spends) /\
      Forall2 group_ok spends groups.
Proof. exact ar_correct. Qed.

(* the former witness of F-C09-1 (empty-atom first memo), now a positive instance *)
Theorem C09_empty_memo_example :
  exists run H, run_exact_hyp run /\
  exists vk sig K program refs max_cost gf b spends pairs adds rems,
    max_cost <= MAX_BLOCK_COST_CLVM /\
    run_block_generator2 run vk sig H K program refs max_cost gf = Ok (b, spends, pairs) /\
    additions_and_removals run H program refs gf = Ok (adds, rems) /\
    map snd adds = [None] /\ adds = concat (map expected_additions spends).
Proof. exact empty_memo_example. Qed.

(* Lookup: for every accepted generator, looking up the i-th removed coin in the generator's output returns the
   i-th tuple's puzzle and solution (spend-level extras are ignored since fix 1aa0e3f6) *)
Theorem C09_lookup : forall run valid_key sig_ok H K program refs max_cost gf b spends pairs,
  run_block_generator2 run valid_key sig_ok H K program refs max_cost gf = Ok (b, spends, pairs) ->
  exists out iter,
    native_generator_output run program refs max_cost gf = Ok out /\ first out = Ok iter /\
    Forall2 (fun sp t => let '(_, pz, _, sol) := t in
                         get_puzzle_and_solution_for_coin H out (snd (removal_of sp)) = Ok (pz, sol))
            spends (spend_tuples iter).
Proof. exact lookup_correct. Qed.

(* the former witness of F-C09-2 (a spend-level extra after the solution), now a positive instance *)
Theorem C09_lookup_extras_example :
  exists run H, run_exact_hyp run /\
  exists vk sig K program refs max_cost gf b sp pairs out ps,
    run_block_generator2 run vk sig H K program refs max_cost gf = Ok (b, [sp], pairs) /\
    native_generator_output run program refs max_cost gf = Ok out /\
    get_puzzle_and_solution_for_coin H out (snd (removal_of sp)) = Ok ps.
Proof. exact lookup_extras_example. Qed.

(* Recovered coin spends: for every accepted generator, get_coinspends_for_trusted_block returns one coin spend per
   validated spend, in order: the validated coin with the serialized puzzle reveal and solution of its tuple *)
Theorem C09_coin_spends : forall run valid_key sig_ok H K, run_exact_hyp run ->
  forall program refs max_cost gf b spends pairs,
    run_block_generator2 run valid_key sig_ok H K program refs max_cost gf = Ok (b, spends, pairs) ->
    max_cost <= MAX_BLOCK_COST_CLVM ->
    exists out iter,
      native_generator_output run program refs max_cost gf = Ok out /\ first out = Ok iter /\
      length spends = length (spend_tuples iter) /\
      get_coinspends_for_trusted_block run H program refs gf =
        Ok (map (fun st => coin_spend_of_tuple (fst st) (snd st)) (combine spends (spend_tuples iter))).
Proof. exact coinspends_correct. Qed.

(* non-vacuity: an accepted block with a 32-byte hint on which the helper agrees with validation *)
Theorem C09_example : 
  exists run H, run_exact_hyp run /\
  exists vk sig K program refs max_cost gf b spends pairs adds,
    max_cost <= MAX_BLOCK_COST_CLVM /\
    run_block_generator2 run vk sig H K program refs max_cost gf = Ok (b, spends, pairs) /\
    additions_and_removals run H program refs gf = Ok (adds, map removal_of spends) /\
    map snd adds = [Some (repeat x33 32)].
Proof. exact trusted_example. Qed.

(* C09_rebuild_partial / C09_spend_bundle_additions_partial / C09_coin_spends_with_conditions_partial:
   the clauses "solution_generator of the recovered coin spends yields a generator with the same conditions",
   "SpendBundle::additions lists the same created coins" and the agreement of
   get_coinspends_with_conditions_for_trusted_block are NOT proved: the first two need serialize/deserialize
   round-trip lemmas for Clvm/Sexp.v + Chain/Backref.v and a mirror of solution_generator (unit of C08).  They are
   validated by execution only (streams gen.trusted, gen.sbadd and the implementation-level oracle gen.oracle09). *)
