(* Props/C09.v — property C09 (trusted fast paths report what full validation reports): statements only.
   Each theorem is closed by `exact`.

   native = run_block_generator2 (full validation; mirror in Chain/Generator.v over the Cond mirror);
   helpers = mirrors in Chain/Trusted.v.  CLVM evaluation is the oracle `run` (budget-monotone and exact). *)
From ChiaV.Base Require Import Bytes.
From ChiaV.Clvm Require Import Sexp TreeHash.
From ChiaV.Gen Require Import ChainConsts.
From ChiaV.Cond Require Import Model.
From ChiaV.Chain Require Import Backref Rom Generator GeneratorSpec Trusted TrustedSpec TrustedProofs TrustedRebuildProofs.
Open Scope N_scope.

(* For every generator full validation accepts (within the block cost limit): additions_and_removals succeeds;
   its removals are exactly [(coin id, coin)] of the validated spends, in order; its additions are exactly the
   created coins of the validated spends (per spend, in condition order) with exactly the hints the validated
   summary reports (an empty first memo is "no hint" on both sides since fix 0a21e864). *)
Theorem C09_additions_and_removals : forall run valid_key sig_ok H K, run_exact_hyp run ->
  forall program refs max_cost gf b spends pairs,
    run_block_generator2 run valid_key sig_ok H K program refs max_cost gf = Ok (b, spends, pairs) ->
    max_cost <= MAX_BLOCK_COST_CLVM ->
    additions_and_removals run H program refs gf =
      Ok (concat (map expected_additions spends), map removal_of spends).
Proof. exact trusted_additions_and_removals. Qed.

(* the helper never reports the empty hint *)
Theorem C09_no_empty_hint : forall run H program refs gf adds rems,
  additions_and_removals run H program refs gf = Ok (adds, rems) -> Forall hint_nonempty adds.
Proof. exact additions_hints. Qed.

(* finer: per spend, the reported group maps onto the validated created coins with
   nc_hint = the reported hint's bytes (None and Some "" both become "no hint") *)
Theorem C09_additions_per_spend : forall run valid_key sig_ok H K, run_exact_hyp run ->
  forall program refs max_cost gf b spends pairs,
    run_block_generator2 run valid_key sig_ok H K program refs max_cost gf = Ok (b, spends, pairs) ->
    max_cost <= MAX_BLOCK_COST_CLVM ->
    exists groups,
      additions_and_removals run H program refs gf = Ok (concat groups, map removal_of spends) /\
      Forall2 group_ok spends groups.
Proof. exact ar_correct. Qed.

(* the former witness of F-C09-1 (empty-atom first memo), now a positive instance *)
Theorem C09_empty_memo_example :
  exists run H, run_exact_hyp run /\
  exists vk sig K program refs max_cost gf b spends pairs adds rems,
    max_cost <= MAX_BLOCK_COST_CLVM /\
    run_block_generator2 run vk sig H K program refs max_cost gf = Ok (b, spends, pairs) /\
    additions_and_removals run H program refs gf = Ok (adds, rems) /\
    map snd adds = [None] /\ adds = concat (map expected_additions spends).
Proof. exact empty_memo_example. Qed.

(* Lookup: for every accepted generator, looking up the i-th removed coin in the generator's output returns the
   i-th tuple's puzzle and solution (spend-level extras are ignored since fix 1aa0e3f6) *)
Theorem C09_lookup : forall run valid_key sig_ok H K program refs max_cost gf b spends pairs,
  run_block_generator2 run valid_key sig_ok H K program refs max_cost gf = Ok (b, spends, pairs) ->
  exists out iter,
    native_generator_output run program refs max_cost gf = Ok out /\ first out = Ok iter /\
    Forall2 (fun sp t => let '(_, pz, _, sol) := t in
                         get_puzzle_and_solution_for_coin H out (snd (removal_of sp)) = Ok (pz, sol))
            spends (spend_tuples iter).
Proof. exact lookup_correct. Qed.

(* the former witness of F-C09-2 (a spend-level extra after the solution), now a positive instance *)
Theorem C09_lookup_extras_example :
  exists run H, run_exact_hyp run /\
  exists vk sig K program refs max_cost gf b sp pairs out ps,
    run_block_generator2 run vk sig H K program refs max_cost gf = Ok (b, [sp], pairs) /\
    native_generator_output run program refs max_cost gf = Ok out /\
    get_puzzle_and_solution_for_coin H out (snd (removal_of sp)) = Ok ps.
Proof. exact lookup_extras_example. Qed.

(* Recovered coin spends: for every accepted generator, get_coinspends_for_trusted_block returns one coin spend per
   validated spend, in order: the validated coin with the serialized puzzle reveal and solution of its tuple *)
Theorem C09_coin_spends : forall run valid_key sig_ok H K, run_exact_hyp run ->
  forall program refs max_cost gf b spends pairs,
    run_block_generator2 run valid_key sig_ok H K program refs max_cost gf = Ok (b, spends, pairs) ->
    max_cost <= MAX_BLOCK_COST_CLVM ->
    exists out iter,
      native_generator_output run program refs max_cost gf = Ok out /\ first out = Ok iter /\
      length spends = length (spend_tuples iter) /\
      get_coinspends_for_trusted_block run H program refs gf =
        Ok (map (fun st => coin_spend_of_tuple (fst st) (snd st)) (combine spends (spend_tuples iter))).
Proof. exact coinspends_correct. Qed.

(* non-vacuity: an accepted block with a 32-byte hint on which the helper agrees with validation *)
Theorem C09_example : 
  exists run H, run_exact_hyp run /\
  exists vk sig K program refs max_cost gf b spends pairs adds,
    max_cost <= MAX_BLOCK_COST_CLVM /\
    run_block_generator2 run vk sig H K program refs max_cost gf = Ok (b, spends, pairs) /\
    additions_and_removals run H program refs gf = Ok (adds, map removal_of spends) /\
    map snd adds = [Some (repeat x33 32)].
Proof. exact trusted_example. Qed.

(* Rebuild: for every accepted generator, feed the recovered coin spends to solution_generator in REVERSE order
   (build_generator conses every spend onto the front of the list, see C09_build_generator_reverses): if every puzzle
   reveal and solution serializes within node_to_bytes' 2 MB limit (otherwise Program::from_clvm has replaced it by
   the nil program), build_generator succeeds with the accepted spend tuples in their order, spend-level extras
   dropped; and whenever solution_generator returns a program (the whole generator is within 2 MB), full validation
   of that program under the same flags, with no block references and ANY cost limit, either runs out of cost or
   accepts with the same summary up to costs: `neutral` = equal spends in order with all their conditions, created
   coins and hints, signatures, locks and flags, per-spend and total condition cost, reserve fee, absolute locks,
   removal/addition amounts (hence fee), unsafe signatures and the (key, message) pairs.  What may differ: total cost
   (byte/interned cost of the new serialization, generator execution cost = 20), and the spend-level extras. *)
Theorem C09_rebuild : forall run valid_key sig_ok H K, run_exact_hyp run -> run_quote_hyp run ->
  forall program refs max_cost gf b spends pairs,
    run_block_generator2 run valid_key sig_ok H K program refs max_cost gf = Ok (b, spends, pairs) ->
    max_cost <= MAX_BLOCK_COST_CLVM ->
    exists out iter cs,
      native_generator_output run program refs max_cost gf = Ok out /\ first out = Ok iter /\
      get_coinspends_for_trusted_block run H program refs gf = Ok cs /\
      (Forall fits_tuple (spend_tuples iter) ->
       build_generator (rev cs) = Some (rebuilt_generator iter) /\
       forall program' max_cost',
         solution_generator (rev cs) = Some program' ->
         match run_block_generator2 run valid_key sig_ok H K program' [] max_cost' gf return Prop with
         | Ok s' => neutral s' = neutral (b, spends, pairs)
         | Err e => e = CostExceeded
         end).
Proof. exact rebuild_correct. Qed.

(* build_generator lists the spends in reverse order of its input *)
Theorem C09_build_generator_reverses : forall l items,
  Forall2 (fun c it => spend_item c = Some it) l items ->
  forall acc, prepend_spends l acc = Some (fold_right Pair acc (rev items)).
Proof. exact prepend_in_order. Qed.

(* C09_rebuild_in_order_partial: feeding the coin spends IN ORDER gives (by C09_build_generator_reverses) the generator
   whose spend list is reversed; that full validation accepts it with the reversed spends and otherwise equal
   aggregates is NOT proved here: it needs the order invariance of the block path (property C06; unit bundle has it
   for the mempool path and, through C08_agree, for its own block-path mirror Bundle/BlockPath.v, which differs from
   Chain/Generator.v in result type, execution-cost bookkeeping and the plain parser).  Missing step: a bridge lemma
   Chain.Generator.run_block_generator2 = Bundle.BlockPath.run_block_generator2 on plain, reference-free programs. *)

(* SpendBundle::additions on the recovered coin spends of an accepted block, under NO_UNKNOWN_CONDS (a bundle valid
   in mempool mode): it lists exactly the created coins of the validated spends, in order, or runs out of its own
   (more conservative) cost budget.  Without NO_UNKNOWN_CONDS the helper fails on a condition whose operator is a
   pair, which consensus-mode validation ignores as unknown (observation F-C09-3 in notes/gen.md). *)
Theorem C09_spend_bundle_additions : forall run valid_key sig_ok H K, run_exact_hyp run ->
  forall program refs max_cost gf b spends pairs,
    run_block_generator2 run valid_key sig_ok H K program refs max_cost gf = Ok (b, spends, pairs) ->
    max_cost <= MAX_BLOCK_COST_CLVM ->
    f_no_unknown (g_cond gf) = true ->
    exists out iter cs,
      native_generator_output run program refs max_cost gf = Ok out /\ first out = Ok iter /\
      get_coinspends_for_trusted_block run H program refs gf = Ok cs /\
      (Forall fits_tuple (spend_tuples iter) ->
       match spend_bundle_additions run H cs return Prop with
       | Ok coins => coins = map fst (concat (map expected_additions spends))
       | Err e => e = CostExceeded
       end).
Proof. exact sbadd_correct. Qed.

(* get_coinspends_with_conditions_for_trusted_block: one entry per validated spend, in order: the same coin spend as
   get_coinspends_for_trusted_block and the helper's condition view (csc_conditions) of the puzzle's output *)
Theorem C09_coin_spends_with_conditions : forall run valid_key sig_ok H K, run_exact_hyp run ->
  forall program refs max_cost gf b spends pairs,
    run_block_generator2 run valid_key sig_ok H K program refs max_cost gf = Ok (b, spends, pairs) ->
    max_cost <= MAX_BLOCK_COST_CLVM ->
    exists out iter,
      native_generator_output run program refs max_cost gf = Ok out /\ first out = Ok iter /\
      get_coinspends_with_conditions_for_trusted_block run H program refs gf =
        Ok (map (csc_of run) (combine spends (spend_tuples iter))).
Proof. exact coinspends_with_conditions_correct. Qed.

(* non-vacuity of the three: toy oracle (satisfies both hypotheses), the generator with a spend-level extra, under
   NO_UNKNOWN_CONDS: the rebuilt program differs from the original, is accepted with the same summary, and
   SpendBundle::additions lists the one created coin *)
Theorem C09_rebuild_example :
  exists run H, run_exact_hyp run /\ run_quote_hyp run /\
  exists vk sig K program refs max_cost gf b spends pairs cs program' s',
    run_block_generator2 run vk sig H K program refs max_cost gf = Ok (b, spends, pairs) /\
    get_coinspends_for_trusted_block run H program refs gf = Ok cs /\
    solution_generator (rev cs) = Some program' /\ program' <> program /\
    run_block_generator2 run vk sig H K program' [] max_cost gf = Ok s' /\
    neutral s' = neutral (b, spends, pairs) /\
    spend_bundle_additions run H cs = Ok (map fst (concat (map expected_additions spends))) /\
    length (concat (map expected_additions spends)) = 1%nat.
Proof. exact rebuild_example. Qed.
