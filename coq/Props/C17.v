(* Props/C17.v — property C17 "every tree-hash routine computes the same hash": statements only.
   Each theorem is closed by `exact`.  H is an arbitrary hash function unless sha256 is named. *)
From ChiaV.Base Require Import Bytes Sha256.
From ChiaV.Clvm Require Import Sexp Ints TreeHash.
From ChiaV.Gen Require Import Precomputed CurryFF.
From ChiaV.Thash Require Import Heap Mirror Curry DeBr HeapProofs PrecomputedProofs TreeHashProofs CurryProofs.
Open Scope N_scope.

(* (4) the table read from tree_hash.rs on this run: every one of its 24 entries is
   SHA-256 (1 :: canonical bytes of its index), computed with the Gallina SHA-256 *)
Theorem C17_precomputed_table_24 :
  length precomputed_hashes = 24%nat /\
  forall i : N, i < 24 -> nth (N.to_nat i) precomputed_hashes [] = sha256 (x01 :: canon_n i).
Proof. exact (conj precomputed_length precomputed_entry). Qed.

(* the mirror's use of the table (guarded index, else hash the canonical bytes) is the reference hash *)
Theorem C17_small_atom_table_use : forall v : N,
  small_atom_hash sha256 v = th sha256 (Atom (canon_n v)).
Proof. exact small_atom_hash_sha256. Qed.

(* (1) tree_hash (explicit op/hash stacks), any well-formed heap, any sharing *)
Theorem C17_tree_hash_stack : forall (H : bytes -> bytes), table_ok H ->
  forall h n fuel, wf h -> valid h n -> (2 * node_count (den h n) <= fuel)%nat ->
  tree_hash_stack H fuel h n = Ok (th H (den h n)).
Proof. exact tree_hash_stack_correct. Qed.

Theorem C17_tree_hash_stack_sha256 : forall h n fuel,
  wf h -> valid h n -> (2 * node_count (den h n) <= fuel)%nat ->
  tree_hash_stack sha256 fuel h n = Ok (th sha256 (den h n)).
Proof. exact (tree_hash_stack_correct sha256 table_ok_sha256). Qed.

(* with any fuel: no panic and no wrong hash *)
Theorem C17_tree_hash_stack_any_fuel : forall (H : bytes -> bytes), table_ok H ->
  forall h n fuel, wf h -> valid h n ->
  tree_hash_stack H fuel h n = OutOfFuel \/ tree_hash_stack H fuel h n = Ok (th H (den h n)).
Proof. exact tree_hash_stack_sound. Qed.

(* (5) currying on hashes = tree hash of the actual curried program *)
Theorem C17_curry_tree_hash : forall (H : bytes -> bytes) p args,
  curry_tree_hash H (th H p) (map (th H) args) = th H (curried_program p args).
Proof. exact curry_tree_hash_correct. Qed.

(* fast_forward.rs curry_and_treehash (generated from its source): the singleton puzzle *)
Theorem C17_ff_curry_and_treehash : forall (H : bytes -> bytes) mod_tree inner mod_hash launcher_id launcher_puzzle_hash,
  th H mod_tree = mod_hash ->
  ff_curry_and_treehash H (th H inner) mod_hash launcher_id launcher_puzzle_hash
  = th H (singleton_puzzle mod_tree inner mod_hash launcher_id launcher_puzzle_hash).
Proof. exact ff_curry_and_treehash_correct. Qed.
