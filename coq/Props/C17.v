(* Props/C17.v — property C17 "every tree-hash routine computes the same hash": statements only.
   Each theorem is closed by `exact`.  H is an arbitrary hash function unless sha256 is named. *)
From ChiaV.Base Require Import Bytes Sha256.
From ChiaV.Clvm Require Import Sexp Ints TreeHash.
From ChiaV.Gen Require Import Precomputed CurryFF.
From ChiaV.Thash Require Import Heap Mirror Curry DeBr HeapProofs PrecomputedProofs TreeHashProofs CurryProofs
  CacheProofs DeBrProofs SerProofs Agree Examples.
Open Scope N_scope.

(* (4) the table read from tree_hash.rs on this run: every one of its 24 entries is
   SHA-256 (1 :: canonical bytes of its index), computed with the Gallina SHA-256 *)
Theorem C17_precomputed_table_24 :
  length precomputed_hashes = 24%nat /\
  forall i : N, i < 24 -> nth (N.to_nat i) precomputed_hashes [] = sha256 (x01 :: canon_n i).
Proof. exact (conj precomputed_length precomputed_entry). Qed.

(* the mirror's use of the table (guarded index, else hash the canonical bytes) is the reference hash *)
Theorem C17_small_atom_table_use : forall v : N,
  small_atom_hash sha256 v = th sha256 (Atom (canon_n v)).
Proof. exact small_atom_hash_sha256. Qed.

(* (1) tree_hash (explicit op/hash stacks), any well-formed heap, any sharing *)
Theorem C17_tree_hash_stack : forall (H : bytes -> bytes), table_ok H ->
  forall h n fuel, wf h -> valid h n -> (2 * node_count (den h n) <= fuel)%nat ->
  tree_hash_stack H fuel h n = Ok (th H (den h n)).
Proof. exact tree_hash_stack_correct. Qed.

Theorem C17_tree_hash_stack_sha256 : forall h n fuel,
  wf h -> valid h n -> (2 * node_count (den h n) <= fuel)%nat ->
  tree_hash_stack sha256 fuel h n = Ok (th sha256 (den h n)).
Proof. exact (tree_hash_stack_correct sha256 table_ok_sha256). Qed.

(* with any fuel: no panic and no wrong hash *)
Theorem C17_tree_hash_stack_any_fuel : forall (H : bytes -> bytes), table_ok H ->
  forall h n fuel, wf h -> valid h n ->
  tree_hash_stack H fuel h n = OutOfFuel \/ tree_hash_stack H fuel h n = Ok (th H (den h n)).
Proof. exact tree_hash_stack_sound. Qed.

(* (5) currying on hashes = tree hash of the actual curried program *)
Theorem C17_curry_tree_hash : forall (H : bytes -> bytes) p args,
  curry_tree_hash H (th H p) (map (th H) args) = th H (curried_program p args).
Proof. exact curry_tree_hash_correct. Qed.

(* fast_forward.rs curry_and_treehash (generated from its source): the singleton puzzle *)
Theorem C17_ff_curry_and_treehash : forall (H : bytes -> bytes) mod_tree inner mod_hash launcher_id launcher_puzzle_hash,
  th H mod_tree = mod_hash ->
  ff_curry_and_treehash H (th H inner) mod_hash launcher_id launcher_puzzle_hash
  = th H (singleton_puzzle mod_tree inner mod_hash launcher_id launcher_puzzle_hash).
Proof. exact ff_curry_and_treehash_correct. Qed.

(* (2) tree_hash_cached from ANY cache state reachable by visit_tree / tree_hash_cached calls,
   on an allocator that may have grown in between (R_grow): the reference hash, no panic *)
Theorem C17_tree_hash_cached_any_history : forall (H : bytes -> bytes), table_ok H ->
  forall h c n fuel, reachable H h c -> valid h n ->
  (length (h_pairs h) + 2 * node_count (den h n) <= fuel)%nat ->
  exists c', tree_hash_cached H fuel h n c = Ok (th H (den h n), c') /\ reachable H h c'.
Proof. exact tree_hash_cached_any_history. Qed.

Theorem C17_tree_hash_cached_any_history_sha256 : forall h c n fuel,
  reachable sha256 h c -> valid h n ->
  (length (h_pairs h) + 2 * node_count (den h n) <= fuel)%nat ->
  exists c', tree_hash_cached sha256 fuel h n c = Ok (th sha256 (den h n), c') /\ reachable sha256 h c'.
Proof. exact (tree_hash_cached_any_history sha256 table_ok_sha256). Qed.

Theorem C17_tree_hash_cached_any_fuel : forall (H : bytes -> bytes), table_ok H ->
  forall h c n fuel, reachable H h c -> valid h n ->
  match tree_hash_cached H fuel h n c with
  | Ok (x, _) => x = th H (den h n)
  | Panic => False
  | OutOfFuel => True
  end.
Proof. exact tree_hash_cached_any_history_any_fuel. Qed.

(* the invariant behind it, for any cache satisfying it (not only reachable ones) *)
Theorem C17_tree_hash_cached_invariant : forall (H : bytes -> bytes), table_ok H ->
  forall h n c fuel, wf h -> valid h n -> cache_ok H h c ->
  (length (h_pairs h) + 2 * node_count (den h n) <= fuel)%nat ->
  exists c', tree_hash_cached H fuel h n c = Ok (th H (den h n), c') /\ cache_ok H h c'.
Proof. exact tree_hash_cached_correct. Qed.

(* visit_tree alone: keeps the invariant, no panic, terminates within the number of pairs *)
Theorem C17_visit_tree : forall (H : bytes -> bytes) h n c fuel,
  wf h -> valid h n -> cache_ok H h c -> (length (h_pairs h) <= fuel)%nat ->
  exists c', visit_tree fuel h n c = Ok c' /\ cache_ok H h c'.
Proof. exact visit_tree_total. Qed.

(* (3) tree_hash_from_bytes: whatever the input deserializes to (back-references included) *)
Theorem C17_tree_hash_from_bytes : forall (H : bytes -> bytes), table_ok H ->
  forall bs t fuel, deser_br bs = DOk t ->
  (4 * length bs + 4 + 2 * node_count t <= fuel)%nat ->
  tree_hash_from_bytes H fuel bs = FOk (th H t).
Proof. exact tree_hash_from_bytes_ok. Qed.

Theorem C17_tree_hash_from_bytes_plain : forall (H : bytes -> bytes), table_ok H ->
  forall bs t rest fuel, deser bs = Some (t, rest) ->
  (4 * length bs + 4 + 2 * node_count t <= fuel)%nat ->
  tree_hash_from_bytes H fuel bs = FOk (th H t).
Proof. exact tree_hash_from_bytes_plain. Qed.

Theorem C17_tree_hash_from_bytes_sha256 : forall bs t fuel, deser_br bs = DOk t ->
  (4 * length bs + 4 + 2 * node_count t <= fuel)%nat ->
  tree_hash_from_bytes sha256 fuel bs = FOk (th sha256 t).
Proof. exact (tree_hash_from_bytes_ok sha256 table_ok_sha256). Qed.

Theorem C17_tree_hash_from_bytes_rejects : forall (H : bytes -> bytes), table_ok H ->
  forall bs fuel, deser_br bs = DErr -> tree_hash_from_bytes H fuel bs = FErr.
Proof. exact tree_hash_from_bytes_err. Qed.

Theorem C17_tree_hash_from_bytes_no_panic : forall (H : bytes -> bytes), table_ok H ->
  forall bs fuel, tree_hash_from_bytes H fuel bs <> FPanic.
Proof. exact tree_hash_from_bytes_no_panic. Qed.

(* the tree-level deserializer is total: a tree or an error, for every input *)
Theorem C17_deser_br_total : forall bs, deser_br bs <> DPanic /\ deser_br bs <> DFuel.
Proof. exact deser_br_total. Qed.

(* on plain serializations it is the plain deserializer *)
Theorem C17_deser_br_extends_plain : forall bs t rest, deser bs = Some (t, rest) -> deser_br bs = DOk t.
Proof. exact deser_br_plain. Qed.

(* both allocator-level deserializers denote the tree the specification reads, with the same
   accept/reject verdict and never a panic: the Vec-based one that tree_hash_from_bytes runs
   (lazily materialised, cached stack lists) and the older stack-as-cons-list one *)
Theorem C17_backrefs_vec_refines_tree : forall bs,
  match deser_br bs, node_from_bytes_backrefs bs with
  | DOk t, DOk (h, n) =>
      wf h /\ valid h n /\ den h n = t /\ (length (h_pairs h) <= 2 * debr_fuel bs)%nat
  | DErr, DErr => True
  | _, _ => False
  end.
Proof. exact node_from_bytes_backrefs_refines. Qed.

Theorem C17_backrefs_conslist_refines_tree : forall bs,
  match deser_br bs, node_from_bytes_backrefs_old bs with
  | DOk t, DOk (h, n) =>
      wf h /\ valid h n /\ den h n = t /\ (length (h_pairs h) <= 2 * debr_fuel bs)%nat
  | DErr, DErr => True
  | _, _ => False
  end.
Proof. exact node_from_bytes_backrefs_old_refines. Qed.

Theorem C17_tree_hash_from_bytes_via_conslist : forall (H : bytes -> bytes), table_ok H ->
  forall bs t fuel, deser_br bs = DOk t ->
  (4 * length bs + 4 + 2 * node_count t <= fuel)%nat ->
  tree_hash_from_bytes_old H fuel bs = FOk (th H t).
Proof. exact tree_hash_from_bytes_old_ok. Qed.

(* plain serialization: deser inverts ser (trailing bytes are left over), so the hash of the bytes
   node_to_bytes writes for a tree is the reference hash of that tree *)
Theorem C17_plain_roundtrip : forall t bs extra, ser t = Some bs -> deser (bs ++ extra) = Some (t, extra).
Proof. exact deser_ser. Qed.

Theorem C17_tree_hash_from_bytes_of_plain_serialization : forall (H : bytes -> bytes), table_ok H ->
  forall t bs extra fuel, ser t = Some bs -> (6 * length (bs ++ extra) + 4 <= fuel)%nat ->
  tree_hash_from_bytes H fuel (bs ++ extra) = FOk (th H t).
Proof. exact tree_hash_from_bytes_of_ser. Qed.

(* all routines side by side: two unrelated heaps denoting the same tree, any reachable cache, any
   bytes that deserialize to that tree *)
Theorem C17_all_routines_agree : forall (H : bytes -> bytes), table_ok H ->
  forall h1 n1 h2 n2 c bs t fuel,
  wf h1 -> valid h1 n1 -> den h1 n1 = t ->
  reachable H h2 c -> valid h2 n2 -> den h2 n2 = t ->
  deser_br bs = DOk t ->
  (length (h_pairs h2) + 4 * length bs + 4 + 2 * node_count t <= fuel)%nat ->
  tree_hash_stack H fuel h1 n1 = Ok (th H t) /\
  (exists c', tree_hash_cached H fuel h2 n2 c = Ok (th H t, c')) /\
  tree_hash_from_bytes H fuel bs = FOk (th H t).
Proof. exact all_routines_agree. Qed.

(* ---- non-vacuity ---- *)
Theorem C17_example_shared_heap_reachable_cache :
  wf ex_heap /\ valid ex_heap (NPair 2) /\
  (den ex_heap (NPair 2) = let p0 := Pair (Atom [x01; x02; x03]) (Atom [x05]) in Pair (Pair p0 p0) p0) /\
  exists c, reachable sha256 ex_heap c /\ c_hashes c <> [].
Proof. exact (conj ex_heap_wf (conj ex_valid (conj ex_den ex_reachable))). Qed.

Theorem C17_example_backref_bytes :
  deser_br ex_br_bytes = DOk (Pair (Atom ex_foobar) (Pair (Atom ex_foobar) nil)) /\ deser ex_br_bytes = None.
Proof. exact (conj ex_deser_br ex_plain_rejects). Qed.
