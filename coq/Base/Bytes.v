(* Base/Bytes.v — byte strings, big-endian conversions, hex and ASCII rendering.
   Definitions only plus the small arithmetic lemmas every other file needs. *)
From Coq Require Import String Ascii.
From Coq Require Export List NArith ZArith Lia Bool.
From Coq.Strings Require Export Byte.
Export ListNotations.
Open Scope N_scope.

Arguments N.add : simpl never.
Arguments N.sub : simpl never.
Arguments N.mul : simpl never.
Arguments N.eqb : simpl never.
Arguments N.ltb : simpl never.
Arguments N.leb : simpl never.
Arguments N.div : simpl never.
Arguments N.modulo : simpl never.
Arguments N.pow : simpl never.
Arguments N.shiftl : simpl never.
Arguments N.shiftr : simpl never.
Arguments N.land : simpl never.
Arguments N.lor : simpl never.
Arguments N.lxor : simpl never.

Definition bytes := list byte.

Definition b2n (b : byte) : N := Byte.to_N b.
Definition n2b (n : N) : byte :=
  match Byte.of_N (n mod 256) with Some b => b | None => x00 end.

Lemma b2n_lt b : b2n b < 256.
Proof. unfold b2n. pose proof (Byte.to_N_bounded b). lia. Qed.

Lemma n2b_b2n b : n2b (b2n b) = b.
Proof.
  unfold n2b, b2n. rewrite N.mod_small by apply b2n_lt.
  now rewrite Byte.of_to_N.
Qed.

Lemma b2n_n2b n : n < 256 -> b2n (n2b n) = n.
Proof.
  intros H. unfold n2b, b2n. rewrite N.mod_small by exact H.
  destruct (Byte.of_N n) eqn:E.
  - now apply Byte.to_of_N.
  - apply Byte.of_N_None_iff in E. lia.
Qed.

Lemma b2n_inj a b : b2n a = b2n b -> a = b.
Proof. intros H. rewrite <- (n2b_b2n a), <- (n2b_b2n b). now rewrite H. Qed.

Definition byte_eqb (a b : byte) : bool := N.eqb (b2n a) (b2n b).
Lemma byte_eqb_spec a b : reflect (a = b) (byte_eqb a b).
Proof.
  unfold byte_eqb. destruct (N.eqb_spec (b2n a) (b2n b)) as [E|E]; constructor.
  - now apply b2n_inj.
  - intros ->. now apply E.
Qed.

Fixpoint bytes_eqb (a b : bytes) : bool :=
  match a, b with
  | [], [] => true
  | x :: a', y :: b' => byte_eqb x y && bytes_eqb a' b'
  | _, _ => false
  end.

Lemma bytes_eqb_spec a b : reflect (a = b) (bytes_eqb a b).
Proof.
  revert b; induction a as [|x a IH]; intros [|y b]; cbn [bytes_eqb]; try (constructor; congruence).
  destruct (byte_eqb_spec x y) as [->|Hn]; cbn [andb].
  - destruct (IH b) as [->|Hn]; constructor; congruence.
  - constructor; congruence.
Qed.

Lemma bytes_eqb_refl a : bytes_eqb a a = true.
Proof. destruct (bytes_eqb_spec a a); congruence. Qed.

Lemma bytes_eqb_eq a b : bytes_eqb a b = true <-> a = b.
Proof. destruct (bytes_eqb_spec a b); split; congruence. Qed.

(* big endian *)
Definition be2n (bs : bytes) : N := fold_left (fun acc b => acc * 256 + b2n b) bs 0.

Fixpoint n2be (len : nat) (n : N) : bytes :=
  match len with
  | O => []
  | S k => n2b (n / 256 ^ N.of_nat k) :: n2be k (n mod 256 ^ N.of_nat k)
  end.

Definition nlen (bs : bytes) : N := N.of_nat (length bs).

Fixpoint repeat_byte (n : nat) (b : byte) : bytes :=
  match n with O => [] | S k => b :: repeat_byte k b end.

(* little endian, used by a few datalayer / bls layouts *)
Definition le2n (bs : bytes) : N := be2n (rev bs).
Definition n2le (len : nat) (n : N) : bytes := rev (n2be len n).

(* ---------- hex / ascii ---------- *)
Definition hexdigit (n : N) : byte :=
  if n <? 10 then n2b (48 + n) else n2b (87 + n).   (* 0-9 a-f *)

Fixpoint to_hex (bs : bytes) : bytes :=
  match bs with
  | [] => []
  | b :: r => hexdigit (b2n b / 16) :: hexdigit (b2n b mod 16) :: to_hex r
  end.

Definition hexval (c : byte) : option N :=
  let n := b2n c in
  if (48 <=? n) && (n <=? 57) then Some (n - 48)
  else if (97 <=? n) && (n <=? 102) then Some (n - 87)
  else if (65 <=? n) && (n <=? 70) then Some (n - 55)
  else None.

Fixpoint of_hex (cs : bytes) : option bytes :=
  match cs with
  | [] => Some []
  | a :: b :: r =>
      match hexval a, hexval b, of_hex r with
      | Some x, Some y, Some t => Some (n2b (x * 16 + y) :: t)
      | _, _, _ => None
      end
  | _ => None
  end.

(* decimal rendering of N as ASCII *)
Fixpoint dec_digits (fuel : nat) (n : N) (acc : bytes) : bytes :=
  match fuel with
  | O => acc
  | S f =>
      let acc' := n2b (48 + n mod 10) :: acc in
      if n / 10 =? 0 then acc' else dec_digits f (n / 10) acc'
  end.
Definition to_dec (n : N) : bytes := dec_digits (S (N.to_nat (N.log2 n))) n [].

Fixpoint of_dec_aux (cs : bytes) (acc : N) : option N :=
  match cs with
  | [] => Some acc
  | c :: r =>
      let n := b2n c in
      if (48 <=? n) && (n <=? 57) then of_dec_aux r (acc * 10 + (n - 48)) else None
  end.
Definition of_dec (cs : bytes) : option N :=
  match cs with [] => None | _ => of_dec_aux cs 0 end.

(* ASCII literals: Coq strings are handy in sources, bytes at run time *)
Fixpoint str (s : string) : bytes :=
  match s with
  | EmptyString => []
  | String c r => byte_of_ascii c :: str r
  end.

Arguments str s%string.

Definition sp : byte := x20.

(* stdlib [rev] is quadratic; this one is linear (and equal: [rev_append_rev]) *)
Definition fast_rev {A} (l : list A) : list A := rev_append l [].

Fixpoint split_on (sep : byte) (cs : bytes) (cur : bytes) : list bytes :=
  match cs with
  | [] => [fast_rev cur]
  | c :: r => if byte_eqb c sep then fast_rev cur :: split_on sep r [] else split_on sep r (c :: cur)
  end.
Definition tokens (line : bytes) : list bytes := split_on sp line [].

Fixpoint join (sep : bytes) (l : list bytes) : bytes :=
  match l with
  | [] => []
  | [x] => x
  | x :: r => x ++ sep ++ join sep r
  end.

(* ---------- arithmetic lemmas on be2n / n2be ---------- *)
Lemma be2n_snoc a x : be2n (a ++ [x]) = be2n a * 256 + b2n x.
Proof. unfold be2n. rewrite fold_left_app. reflexivity. Qed.

Lemma be2n_app a b : be2n (a ++ b) = be2n a * 256 ^ nlen b + be2n b.
Proof.
  unfold nlen.
  induction b as [|x b IH] using rev_ind.
  - rewrite app_nil_r. cbn. lia.
  - rewrite app_assoc, !be2n_snoc, IH, app_length. cbn [length].
    replace (N.of_nat (length b + 1)) with (N.succ (N.of_nat (length b))) by lia.
    rewrite N.pow_succ_r'. lia.
Qed.

Lemma be2n_cons x b : be2n (x :: b) = b2n x * 256 ^ nlen b + be2n b.
Proof.
  change (x :: b) with ([x] ++ b). rewrite be2n_app. unfold be2n at 1. cbn [fold_left]. lia.
Qed.

Lemma be2n_lt bs : be2n bs < 256 ^ nlen bs.
Proof.
  induction bs as [|x b IH].
  - cbn. lia.
  - rewrite be2n_cons. unfold nlen in *. cbn [length].
    replace (N.of_nat (S (length b))) with (N.succ (N.of_nat (length b))) by lia.
    rewrite N.pow_succ_r'. pose proof (b2n_lt x). nia.
Qed.

Lemma n2be_length len n : length (n2be len n) = len.
Proof. revert n; induction len as [|k IH]; intros n; cbn [n2be length]; [reflexivity|now rewrite IH]. Qed.

Lemma be2n_n2be len n : n < 256 ^ N.of_nat len -> be2n (n2be len n) = n.
Proof.
  revert n; induction len as [|k IH]; intros n H.
  - cbn in *. lia.
  - cbn [n2be]. rewrite be2n_cons. unfold nlen. rewrite n2be_length.
    assert (Hp : 256 ^ N.of_nat k <> 0) by (apply N.pow_nonzero; lia).
    rewrite IH by (apply N.mod_lt; exact Hp).
    rewrite b2n_n2b.
    + pose proof (N.div_mod n (256 ^ N.of_nat k) Hp). lia.
    + replace (N.of_nat (S k)) with (N.succ (N.of_nat k)) in H by lia.
      rewrite N.pow_succ_r' in H. apply N.div_lt_upper_bound; [exact Hp|lia].
Qed.

Lemma n2be_be2n bs : n2be (length bs) (be2n bs) = bs.
Proof.
  induction bs as [|x b IH]; [reflexivity|].
  cbn [length n2be]. rewrite be2n_cons. unfold nlen.
  assert (Hp : 256 ^ N.of_nat (length b) <> 0) by (apply N.pow_nonzero; lia).
  pose proof (be2n_lt b) as Hl. unfold nlen in Hl.
  rewrite N.div_add_l by exact Hp. rewrite N.div_small by exact Hl. rewrite N.add_0_r.
  rewrite n2b_b2n. f_equal.
  rewrite N.add_comm, N.mod_add by exact Hp. rewrite N.mod_small by exact Hl. exact IH.
Qed.
