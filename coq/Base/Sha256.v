(* Base/Sha256.v — executable SHA-256 (FIPS 180-4) over N words.
   Used only to *execute* models; theorems never depend on its internals
   (they are stated for an arbitrary H or carry explicit collision disjuncts). *)
From Coq Require Import String.
From ChiaV.Base Require Import Bytes.
Open Scope N_scope.

Definition w32 : N := 4294967296.
Definition add32 (a b : N) : N := (a + b) mod w32.
Definition rotr (n x : N) : N := N.lor (N.shiftr x n) ((N.shiftl x (32 - n)) mod w32).
Definition not32 (x : N) : N := N.lxor x 4294967295.
Definition ch (x y z : N) := N.lxor (N.land x y) (N.land (not32 x) z).
Definition maj (x y z : N) := N.lxor (N.lxor (N.land x y) (N.land x z)) (N.land y z).
Definition bsig0 x := N.lxor (N.lxor (rotr 2 x) (rotr 13 x)) (rotr 22 x).
Definition bsig1 x := N.lxor (N.lxor (rotr 6 x) (rotr 11 x)) (rotr 25 x).
Definition ssig0 x := N.lxor (N.lxor (rotr 7 x) (rotr 18 x)) (N.shiftr x 3).
Definition ssig1 x := N.lxor (N.lxor (rotr 17 x) (rotr 19 x)) (N.shiftr x 10).

Definition K256 : list N :=
 [0x428a2f98;0x71374491;0xb5c0fbcf;0xe9b5dba5;0x3956c25b;0x59f111f1;0x923f82a4;0xab1c5ed5;
  0xd807aa98;0x12835b01;0x243185be;0x550c7dc3;0x72be5d74;0x80deb1fe;0x9bdc06a7;0xc19bf174;
  0xe49b69c1;0xefbe4786;0x0fc19dc6;0x240ca1cc;0x2de92c6f;0x4a7484aa;0x5cb0a9dc;0x76f988da;
  0x983e5152;0xa831c66d;0xb00327c8;0xbf597fc7;0xc6e00bf3;0xd5a79147;0x06ca6351;0x14292967;
  0x27b70a85;0x2e1b2138;0x4d2c6dfc;0x53380d13;0x650a7354;0x766a0abb;0x81c2c92e;0x92722c85;
  0xa2bfe8a1;0xa81a664b;0xc24b8b70;0xc76c51a3;0xd192e819;0xd6990624;0xf40e3585;0x106aa070;
  0x19a4c116;0x1e376c08;0x2748774c;0x34b0bcb5;0x391c0cb3;0x4ed8aa4a;0x5b9cca4f;0x682e6ff3;
  0x748f82ee;0x78a5636f;0x84c87814;0x8cc70208;0x90befffa;0xa4506ceb;0xbef9a3f7;0xc67178f2].

Definition H0 : list N :=
 [0x6a09e667;0xbb67ae85;0x3c6ef372;0xa54ff53a;0x510e527f;0x9b05688c;0x1f83d9ab;0x5be0cd19].

(* message schedule; [r] holds the words computed so far, most recent first *)
Fixpoint expand (n : nat) (r : list N) : list N :=
  match n with
  | O => r
  | S k =>
      let w := add32 (add32 (ssig1 (nth 1 r 0)) (nth 6 r 0))
                     (add32 (ssig0 (nth 14 r 0)) (nth 15 r 0)) in
      expand k (w :: r)
  end.

Record st8 := St8 { sa : N; sb : N; sc : N; sd : N; se : N; sf : N; sg : N; sh : N }.

Definition round (s : st8) (kw : N * N) : st8 :=
  let '(k, w) := kw in
  let t1 := add32 (add32 (add32 (sh s) (bsig1 (se s))) (add32 (ch (se s) (sf s) (sg s)) k)) w in
  let t2 := add32 (bsig0 (sa s)) (maj (sa s) (sb s) (sc s)) in
  St8 (add32 t1 t2) (sa s) (sb s) (sc s) (add32 (sd s) t1) (se s) (sf s) (sg s).

Fixpoint words_of (bs : bytes) : list N :=
  match bs with
  | a :: b :: c :: d :: r => be2n [a; b; c; d] :: words_of r
  | _ => []
  end.

Definition compress (h : st8) (block : bytes) : st8 :=
  let w16 := words_of block in
  let w64 := rev (expand 48 (rev w16)) in
  let s := fold_left round (combine K256 w64) h in
  St8 (add32 (sa h) (sa s)) (add32 (sb h) (sb s)) (add32 (sc h) (sc s)) (add32 (sd h) (sd s))
      (add32 (se h) (se s)) (add32 (sf h) (sf s)) (add32 (sg h) (sg s)) (add32 (sh h) (sh s)).

Fixpoint blocks (fuel : nat) (h : st8) (bs : bytes) : st8 :=
  match fuel with
  | O => h
  | S f =>
      match bs with
      | [] => h
      | _ => blocks f (compress h (firstn 64 bs)) (skipn 64 bs)
      end
  end.

Definition pad (msg : bytes) : bytes :=
  let l := length msg in
  let zeros := Nat.modulo (119 - Nat.modulo l 64) 64 in
  msg ++ [x80] ++ repeat_byte zeros x00 ++ n2be 8 (N.of_nat l * 8).

Definition sha256 (msg : bytes) : bytes :=
  let p := pad msg in
  let s := blocks (S (Nat.div (length p) 64)) (St8 0x6a09e667 0xbb67ae85 0x3c6ef372 0xa54ff53a
                                            0x510e527f 0x9b05688c 0x1f83d9ab 0x5be0cd19) p in
  n2be 4 (sa s) ++ n2be 4 (sb s) ++ n2be 4 (sc s) ++ n2be 4 (sd s) ++
  n2be 4 (se s) ++ n2be 4 (sf s) ++ n2be 4 (sg s) ++ n2be 4 (sh s).

(* FIPS 180-4 test vectors, checked by the kernel's VM *)
Example sha256_empty :
  to_hex (sha256 []) = str "e3b0c44298fc1c149afbf4c8996fb92427ae41e4649b934ca495991b7852b855".
Proof. vm_compute. reflexivity. Qed.
Example sha256_abc :
  to_hex (sha256 (str "abc")) = str "ba7816bf8f01cfea414140de5dae2223b00361a396177a9cb410ff61f20015ad".
Proof. vm_compute. reflexivity. Qed.
Example sha256_two_blocks :
  to_hex (sha256 (str "abcdbcdecdefdefgefghfghighijhijkijkljklmklmnlmnomnopnopq"))
  = str "248d6a61d20638b8e5c026930c3e6039a33ce45964ff2167f6ecedd419db06c1".
Proof. vm_compute. reflexivity. Qed.
