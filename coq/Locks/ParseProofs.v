(* Locks/ParseProofs.v — C03, proof layer 2: Cond.Model's parsing functions (parse_args, process_condition,
   conditions_loop, process_single_spend, spends_loop, parse_spends) act on the lock fields as the pure fold. *)
From ChiaV.Base Require Import Bytes.
From ChiaV.Clvm Require Import Sexp Ints.
From ChiaV.Gen Require Import Opcodes.
From ChiaV.Cond Require Import Model.
From ChiaV.Locks Require Import TimeLocks FoldProofs.
From Coq Require Import ZifyBool ZifyNat ZifyN.
Ltac Zify.zify_post_hook ::= Z.div_mod_to_equations.
Open Scope N_scope.

(* ---------- argument parsing never reports "impossible constraints" ---------- *)
Definition ni (e : ecode) : Prop := is_impossible e = false.

Lemma first_err t e : first t = Err e -> e = InvalidCondition.
Proof. destruct t; cbn; congruence. Qed.
Lemma rest_err t e : rest t = Err e -> e = InvalidCondition.
Proof. destruct t; cbn; congruence. Qed.
Lemma check_nil_err t e : check_nil t = Err e -> e = InvalidCondition.
Proof. destruct t as [[|? ?]|]; cbn; congruence. Qed.
Lemma atom_of_err t e0 e : atom_of t e0 = Err e -> e = e0.
Proof. destruct t; cbn; congruence. Qed.
Lemma sanitize_hash_err t n e0 e : sanitize_hash t n e0 = Err e -> e = e0.
Proof.
  unfold sanitize_hash. destruct (atom_of t e0) eqn:A; cbn [bind].
  - destruct (Nat.eqb _ _); congruence.
  - intros X; inversion X; subst. eapply atom_of_err; eauto.
Qed.
Lemma sanitize_announce_msg_err t e0 e : sanitize_announce_msg t e0 = Err e -> e = e0.
Proof.
  unfold sanitize_announce_msg. destruct (atom_of t e0) eqn:A; cbn [bind].
  - destruct (Nat.ltb _ _); congruence.
  - intros X; inversion X; subst. eapply atom_of_err; eauto.
Qed.
Lemma sanitize_uint_node_err t n e0 e : sanitize_uint_node t n e0 = Err e -> e = e0.
Proof. unfold sanitize_uint_node. destruct t; [destruct (sanitize_uint _ _)|]; congruence. Qed.
Lemma parse_amount_err t e0 e : parse_amount t e0 = Err e -> e = e0.
Proof.
  unfold parse_amount. destruct (sanitize_uint_node t 8 e0) as [s|] eqn:A; cbn [bind].
  - destruct s; congruence.
  - intros X; inversion X; subst. eapply sanitize_uint_node_err; eauto.
Qed.
Lemma sanitize_message_mode_err t e : sanitize_message_mode t = Err e -> e = InvalidMessageMode.
Proof. unfold sanitize_message_mode. destruct t; [destruct (small_number _); [destruct (_ <? _)|]|]; congruence. Qed.
Lemma terminator_err fl t e : maybe_check_args_terminator fl t = Err e -> e = InvalidCondition.
Proof.
  unfold maybe_check_args_terminator. destruct (f_strict fl); [|discriminate].
  destruct (rest t) eqn:R; cbn [bind]; [apply check_nil_err | intros X; inversion X; subst; eapply rest_err; eauto].
Qed.

Ltac bind_err E :=
  repeat match type of E with
  | bind ?r _ = Err _ => let D := fresh "D" in destruct r eqn:D; cbn [bind] in E
  | (let '(_, _) := ?p in _) = Err _ => destruct p
  end.

Lemma lock_arg_err fl c size e0 pos neg mk e :
  lock_arg fl c size e0 pos neg mk = Err e -> e = e0 \/ e = InvalidCondition.
Proof.
  unfold lock_arg. intros E. bind_err E.
  - match type of E with match ?s with SOk _ => _ | SPosOverflow => _ | SNegOverflow => _ | SErr => _ end = _ => destruct s end;
    [discriminate | destruct pos | destruct neg | ]; inversion E; auto.
  - inversion E; subst. left. eapply sanitize_uint_node_err; eauto.
  - inversion E; subst. right. eapply first_err; eauto.
  - inversion E; subst. right. eapply terminator_err; eauto.
Qed.
Lemma hash_arg_err fl c e0 mk e : hash_arg fl c e0 mk = Err e -> e = e0 \/ e = InvalidCondition.
Proof.
  unfold hash_arg. intros E. bind_err E; try discriminate; inversion E; subst.
  - left. eapply sanitize_hash_err; eauto.
  - right. eapply first_err; eauto.
  - right. eapply terminator_err; eauto.
Qed.
Lemma msg_arg_err fl c e0 mk e : msg_arg fl c e0 mk = Err e -> e = e0 \/ e = InvalidCondition.
Proof.
  unfold msg_arg. intros E. bind_err E; try discriminate; inversion E; subst.
  - left. eapply sanitize_announce_msg_err; eauto.
  - right. eapply first_err; eauto.
  - right. eapply terminator_err; eauto.
Qed.

Lemma rest_check_nil_err (t : sexp) e : (r <- rest t ;; check_nil r) = Err e -> e = InvalidCondition.
Proof.
  destruct (rest t) eqn:R; cbn [bind]; [apply check_nil_err | intros X; inversion X; subst; eapply rest_err; eauto].
Qed.

Ltac ni_leaf :=
  match goal with
  | D : bind (rest _) _ = Err _ |- _ => apply rest_check_nil_err in D
  | D : first _ = Err _ |- _ => apply first_err in D
  | D : rest _ = Err _ |- _ => apply rest_err in D
  | D : check_nil _ = Err _ |- _ => apply check_nil_err in D
  | D : sanitize_hash _ _ _ = Err _ |- _ => apply sanitize_hash_err in D
  | D : sanitize_announce_msg _ _ = Err _ |- _ => apply sanitize_announce_msg_err in D
  | D : sanitize_uint_node _ _ _ = Err _ |- _ => apply sanitize_uint_node_err in D
  | D : parse_amount _ _ = Err _ |- _ => apply parse_amount_err in D
  | D : sanitize_message_mode _ = Err _ |- _ => apply sanitize_message_mode_err in D
  | D : maybe_check_args_terminator _ _ = Err _ |- _ => apply terminator_err in D
  end.

Lemma sid_hash_block_err (args : sexp) e0 e :
  (f <- first args ;; p <- sanitize_hash f 32 e0 ;; r <- rest args ;; Ok (p, r)) = Err e ->
  e = e0 \/ e = InvalidCondition.
Proof.
  intros E. bind_err E; try discriminate; inversion E; subst; ni_leaf; auto.
Qed.
Lemma sid_amount_block_err (args : sexp) e :
  (f <- first args ;;
   s <- sanitize_uint_node f 8 InvalidCoinAmount ;;
   match s with
   | SPosOverflow => Err CoinAmountExceedsMaximum
   | SNegOverflow => Err CoinAmountNegative
   | SOk n => r <- rest args ;; Ok (n, r)
   | SErr => Err InvalidCoinAmount
   end) = Err e -> ni e.
Proof.
  intros E. bind_err E.
  - match type of E with match ?s with SOk _ => _ | SPosOverflow => _ | SNegOverflow => _ | SErr => _ end = _ => destruct s end;
      bind_err E; try discriminate; inversion E; subst; try ni_leaf; subst; reflexivity.
  - inversion E; subst; ni_leaf; subst; reflexivity.
  - inversion E; subst; ni_leaf; subst; reflexivity.
Qed.

Lemma spend_id_parse_err args mode e : spend_id_parse args mode = Err e -> ni e.
Proof.
  unfold spend_id_parse. intros E.
  destruct (mode =? MODE_COINID).
  { bind_err E; try discriminate; inversion E; subst; ni_leaf; subst; reflexivity. }
  match type of E with bind ?r _ = _ => destruct r as [[parent args1]|e1] eqn:D1; cbn [bind] in E end.
  2:{ inversion E; subst. destruct (negb _); [|discriminate].
      apply sid_hash_block_err in D1. destruct D1; subst; reflexivity. }
  match type of E with bind ?r _ = _ => destruct r as [[puzzle args2]|e2] eqn:D2; cbn [bind] in E end.
  2:{ inversion E; subst. destruct (negb (N.land mode MODE_PUZZLE =? 0)); [|discriminate].
      apply sid_hash_block_err in D2. destruct D2; subst; reflexivity. }
  match type of E with bind ?r _ = _ => destruct r as [[amount args3]|e3] eqn:D3; cbn [bind] in E end.
  2:{ inversion E; subst. destruct (negb (N.land mode MODE_AMOUNT =? 0)); [|discriminate].
      apply sid_amount_block_err in D3. exact D3. }
  repeat (destruct (mode =? _); [discriminate|]). inversion E; reflexivity.
Qed.

Ltac ni_done E :=
  first
  [ discriminate E
  | match goal with D : Ok _ = Err _ |- _ => discriminate D end
  | apply lock_arg_err in E; destruct E; subst; reflexivity
  | apply hash_arg_err in E; destruct E; subst; reflexivity
  | apply msg_arg_err in E; destruct E; subst; reflexivity
  | inversion E; subst; reflexivity
  | inversion E; subst; ni_leaf; subst; reflexivity
  | inversion E; subst; match goal with D : spend_id_parse _ _ = Err _ |- _ => exact (spend_id_parse_err _ _ _ D) end ].

Lemma parse_args_err_ni fl c op e : parse_args fl c op = Err e -> ni e.
Proof.
  unfold parse_args. intros E.
  destruct (is_agg_sig op).
  { bind_err E; try ni_done E. destruct (f_strict fl); bind_err E; ni_done E. }
  destruct (op =? CREATE_COIN).
  { bind_err E; try ni_done E.
    match type of E with match ?s with SOk _ => _ | SPosOverflow => _ | SNegOverflow => _ | SErr => _ end = _ => destruct s end;
      try ni_done E.
    bind_err E; try ni_done E.
    match type of E with match ?s with Atom _ => _ | Pair _ _ => _ end = _ => destruct s as [aa|params tl] end.
    - bind_err E; try ni_done E. destruct (f_strict fl); ni_done E.
    - bind_err E; try ni_done E. destruct params as [|[param|] ?]; try ni_done E. destruct (Nat.leb _ _); ni_done E. }
  destruct (op =? SOFTFORK).
  { destruct (f_no_unknown fl); [ni_done E|]. bind_err E; try ni_done E.
    match type of E with match ?s with SOk _ => _ | SPosOverflow => _ | SNegOverflow => _ | SErr => _ end = _ => destruct s end; ni_done E. }
  destruct ((256 <=? op) && (op <=? 65535)).
  { destruct (f_no_unknown fl); ni_done E. }
  destruct (op =? RESERVE_FEE). { bind_err E; ni_done E. }
  repeat match type of E with
  | (if ?b then _ else _) = _ => destruct b; [try ni_done E|]
  end.
  all: try ni_done E.
  all: bind_err E; try ni_done E.
  all: try (destruct (f_strict fl); bind_err E; ni_done E).
Qed.

Section Loop.
  Variable vk : bytes -> bool.
  Variable H : bytes -> bytes.
  Variable K : consts.
  Variable fl : cflags.
  Variable V : visitor.

  Lemma lk_precharge st op st1 : precharge fl st op = Ok st1 -> lk st1 = lk st.
  Proof.
    unfold precharge. intros E.
    repeat match type of E with (if ?b then _ else _) = _ => destruct b end;
      first [ apply lk_charge in E; exact E | inversion E; reflexivity ].
  Qed.
  Lemma precharge_err st op e : precharge fl st op = Err e -> e = CostExceeded.
  Proof.
    unfold precharge. intros E.
    repeat match type of E with (if ?b then _ else _) = _ => destruct b end;
      first [ apply charge_err in E; exact E | discriminate E ].
  Qed.
  Lemma lk_visit st cva : lk (visit V st cva) = lk st.
  Proof. unfold visit. destruct V; [reflexivity|]. destruct (mempool_condition _ _ _ _). reflexivity. Qed.

  Lemma process_condition_ok c st st' :
    process_condition vk K fl V c st = Ok st' ->
    match cond_of fl c with
    | Some cva => exists st1, lk st1 = lk st /\ apply_condition vk K fl st1 cva = Ok st'
    | None => lk st' = lk st
    end.
  Proof.
    unfold process_condition, cond_of. destruct c as [a|f c1]; cbn [first rest bind]; [discriminate|].
    destruct (parse_opcode f) as [op|].
    - intros E. destruct (precharge fl st op) as [st1|e1] eqn:P; cbn [bind] in E; [|discriminate].
      destruct (parse_args fl c1 op) as [cva|e2]; cbn [bind] in E; [|discriminate].
      exists (visit V st1 cva). split; [|exact E]. rewrite lk_visit. eapply lk_precharge; eauto.
    - destruct (f_no_unknown fl); [discriminate|]. destruct (f_cost_conds fl).
      + apply lk_charge.
      + intros E; inversion E; reflexivity.
  Qed.

  Lemma process_condition_err c st e :
    process_condition vk K fl V c st = Err e -> is_impossible e = true ->
    exists cva st1, cond_of fl c = Some cva /\ lk st1 = lk st /\ apply_condition vk K fl st1 cva = Err e.
  Proof.
    unfold process_condition, cond_of. destruct c as [a|f c1]; cbn [first rest bind].
    { intros E; inversion E; subst; discriminate. }
    destruct (parse_opcode f) as [op|].
    - intros E He. destruct (precharge fl st op) as [st1|e1] eqn:P; cbn [bind] in E.
      2:{ inversion E; subst. apply precharge_err in P; subst; discriminate. }
      destruct (parse_args fl c1 op) as [cva|e2] eqn:PA; cbn [bind] in E.
      2:{ inversion E; subst. apply parse_args_err_ni in PA. unfold ni in PA. congruence. }
      exists cva, (visit V st1 cva). split; [reflexivity|]. split; [|exact E].
      rewrite lk_visit. eapply lk_precharge; eauto.
    - intros E He. destruct (f_no_unknown fl); [inversion E; subst; discriminate|]. destruct (f_cost_conds fl).
      + apply charge_err in E; subst; discriminate.
      + discriminate.
  Qed.

  Lemma conditions_loop_run iter : forall st st',
    conditions_loop vk K fl V iter st = Ok st' -> run vk K fl st (conds_of fl iter) st'.
  Proof.
    induction iter as [a|c _ nxt IH]; intros st st' E; cbn [conditions_loop conds_of] in *.
    - destruct a; [|discriminate]. inversion E; subst. apply run_nil. reflexivity.
    - destruct (process_condition vk K fl V c st) as [st2|e] eqn:PC; cbn [bind] in E; [|discriminate].
      apply process_condition_ok in PC. specialize (IH st2 st' E).
      destruct (cond_of fl c) as [cva|].
      + destruct PC as (st1 & L1 & A1). eapply run_cons; eauto.
      + eapply run_lk_l; eauto.
  Qed.

  Lemma conditions_loop_runerr iter : forall st e,
    conditions_loop vk K fl V iter st = Err e -> is_impossible e = true ->
    runerr vk K fl st (conds_of fl iter) e.
  Proof.
    induction iter as [a|c _ nxt IH]; intros st e E He; cbn [conditions_loop conds_of] in *.
    - destruct a; [discriminate|]. inversion E; subst; discriminate.
    - destruct (process_condition vk K fl V c st) as [st2|e2] eqn:PC; cbn [bind] in E.
      + apply process_condition_ok in PC. specialize (IH st2 e E He).
        destruct (cond_of fl c) as [cva|].
        * destruct PC as (st1 & L1 & A1). eapply runerr_later; eauto.
        * eapply runerr_lk_l; eauto.
      + inversion E; subst e2. destruct (process_condition_err c st e PC He) as (cva & st1 & C1 & L1 & A1).
        rewrite C1. eapply runerr_here; eauto.
  Qed.
End Loop.

Lemma sanitize_hash_ok t n e b : sanitize_hash t n e = Ok b -> t = Atom b.
Proof.
  unfold sanitize_hash. destruct t as [a|]; cbn [atom_of bind]; [|discriminate].
  destruct (Nat.eqb _ _); [|discriminate]. intros X; inversion X; reflexivity.
Qed.
Lemma atom_of_ok t e b : atom_of t e = Ok b -> t = Atom b.
Proof. destruct t; cbn; [intros X; inversion X; reflexivity | discriminate]. Qed.

Lemma sok_no_locks cbi ts h t : sok cbi ts h t no_locks.
Proof. unfold sok, no_locks; cbn. tauto. Qed.
Lemma s_ok_no_locks recs h t id : s_ok recs h t id no_locks <-> recs id <> None.
Proof.
  unfold s_ok. split.
  - intros (cbi & ts & E & _). congruence.
  - destruct (recs id) as [[cbi ts]|]; [|congruence]. intros _. exists cbi, ts. split; [reflexivity | apply sok_no_locks].
Qed.
Lemma aok_empty h t : aok h t (proj_a empty_bundle).
Proof. unfold aok; cbn. repeat split; lia. Qed.

Section Bundle.
  Variable vk : bytes -> bool.
  Variable H : bytes -> bytes.
  Variable K : consts.
  Variable fl : cflags.
  Variable V : visitor.

  Lemma parse_single_spend_shape sp parent_id puzzle_hash amount conds :
    parse_single_spend sp = Ok (parent_id, puzzle_hash, amount, conds) ->
    exists tl, sp = Pair parent_id (Pair puzzle_hash (Pair amount (Pair conds tl))).
  Proof.
    unfold parse_single_spend.
    destruct sp as [|p s1]; cbn [first rest bind]; [discriminate|].
    destruct s1 as [|q s2]; cbn [first rest bind]; [discriminate|].
    destruct s2 as [|a s3]; cbn [first rest bind]; [discriminate|].
    destruct s3 as [|c tl]; cbn [first rest bind]; [discriminate|].
    intros X; inversion X; subst. eexists; reflexivity.
  Qed.

  (* one spend: what process_single_spend adds to the summary *)
  Lemma process_single_spend_ok ret state sp parent_id puzzle_hash amount conds max_cost clvm_cost ret2 state2 cost2 :
    parse_single_spend sp = Ok (parent_id, puzzle_hash, amount, conds) ->
    process_single_spend vk H K fl V ret state parent_id puzzle_hash amount conds max_cost clvm_cost
      = Ok (ret2, state2, cost2) ->
    let id := spend_coin_id H sp in
    let asr := locks_of id (conds_of fl (spend_conditions sp)) in
    forall recs h t,
      (aok h t (proj_a ret2) <-> aok h t (proj_a ret) /\ Forall (holds_abs h t) asr) /\
      (Forall (spend_ok recs h t) (b_spends_rev ret2) <->
         Forall (spend_ok recs h t) (b_spends_rev ret) /\ recs id <> None /\ Forall (holds_rel recs h t) asr).
  Proof.
    intros PS E. destruct (parse_single_spend_shape _ _ _ _ _ PS) as (tl & ->). clear PS.
    unfold process_single_spend in E.
    destruct (sanitize_hash parent_id 32 InvalidParentId) as [parent|] eqn:S1; cbn [bind] in E; [|discriminate].
    destruct (sanitize_hash puzzle_hash 32 InvalidPuzzleHash) as [ph|] eqn:S2; cbn [bind] in E; [|discriminate].
    destruct (parse_amount amount InvalidCoinAmount) as [my_amount|] eqn:S3; cbn [bind] in E; [|discriminate].
    destruct (atom_of amount InvalidCoinAmount) as [amount_buf|] eqn:S4; cbn [bind] in E; [|discriminate].
    apply sanitize_hash_ok in S1. apply sanitize_hash_ok in S2. apply atom_of_ok in S4. subst parent_id puzzle_hash amount.
    cbn [spend_coin_id spend_conditions].
    set (id := H (parent ++ ph ++ amount_buf)) in *.
    destruct (lookup_idx id (s_spent_coins state)); [discriminate|].
    match type of E with bind ?r _ = _ => destruct r as [st1|] eqn:C1; cbn [bind] in E; [|discriminate] end.
    match type of E with bind (conditions_loop _ _ _ _ _ ?s) _ = _ =>
      set (stA := s) in *; destruct (conditions_loop vk K fl V conds stA) as [st2|] eqn:CL; cbn [bind] in E; [|discriminate] end.
    inversion E; subst ret2 state2 cost2; clear E.
    assert (LA : lk stA = (no_locks, proj_a ret, id, b_spends_rev ret)).
    { assert (L1 : lk st1 = (no_locks, proj_a ret, id, b_spends_rev ret)).
      { destruct (f_cost_conds fl); [apply lk_charge in C1; rewrite C1; reflexivity | inversion C1; reflexivity]. }
      rewrite <- L1. subst stA. destruct V; reflexivity. }
    apply lk_inv in LA. destruct LA as (Q1 & Q2 & Q3 & Q4).
    apply conditions_loop_run in CL. apply run_sim in CL. destruct CL as ([L' A'] & HF & HL).
    rewrite Q1, Q2 in HF. unfold lk_of in HL; cbn [fst snd] in HL. rewrite Q3, Q4 in HL.
    apply lk_inv in HL. destruct HL as (R1 & R2 & R3 & R4).
    intros recs h t.
    destruct (fold_lk_ok _ _ _ _ _ HF recs h t id) as [IA IS].
    rewrite <- locks_of_kvs in IA, IS.
    split.
    - cbn [b_with proj_a a_ha a_sa a_bha a_bsa b_height_absolute b_seconds_absolute b_before_height_absolute b_before_seconds_absolute].
      change (aok h t (proj_a (l_ret st2)) <-> aok h t (proj_a ret) /\ Forall (holds_abs h t) (locks_of id (conds_of fl conds))).
      rewrite R2. exact IA.
    - cbn [b_with b_spends_rev]. rewrite R4.
      assert (SP : spend_ok recs h t (post_spend V (l_spend st2)) <-> s_ok recs h t id L').
      { unfold spend_ok. assert (X : proj_s (post_spend V (l_spend st2)) = L' /\ sp_coin_id (post_spend V (l_spend st2)) = id).
        { unfold post_spend. destruct V; cbn; rewrite <- R1, <- R3; split; reflexivity. }
        destruct X as [X1 X2]. rewrite X1, X2. tauto. }
      rewrite s_ok_no_locks in IS.
      split.
      + intros X; inversion X; subst. apply SP in H2. apply IS in H2. tauto.
      + intros (X & Y & Z). constructor; [|exact X]. apply SP. apply IS. tauto.
  Qed.

  Lemma spends_loop_ok iter : forall ret state cost sl clvm ret' state' cost',
    spends_loop vk H K fl V iter ret state cost sl clvm = Ok (ret', state', cost') ->
    forall recs h t,
      (aok h t (proj_a ret') <-> aok h t (proj_a ret) /\ Forall (holds_abs h t) (spends_assertions H fl iter)) /\
      (Forall (spend_ok recs h t) (b_spends_rev ret') <->
         Forall (spend_ok recs h t) (b_spends_rev ret) /\
         Forall (fun c => recs c <> None) (spends_coins H iter) /\
         Forall (holds_rel recs h t) (spends_assertions H fl iter)).
  Proof.
    induction iter as [a|sp _ nxt IH]; intros ret state cost sl clvm ret' state' cost' E recs h t;
      cbn [spends_loop spends_assertions spends_coins] in *.
    - destruct a; [|discriminate]. inversion E; subst. split.
      + split; [intros X; split; [exact X | constructor] | tauto].
      + split; [intros X; split; [exact X | split; constructor] | tauto].
    - assert (E' : (' (parent_id, puzzle_hash, amount, conds) <- parse_single_spend sp ;;
                    ' (ret1, state1, cost1) <- process_single_spend vk H K fl V ret state parent_id puzzle_hash amount conds cost clvm ;;
                    spends_loop vk H K fl V nxt ret1 state1 cost1 (option_map N.pred sl) clvm) = Ok (ret', state', cost')).
      { destruct sl as [[|p]|]; [discriminate | exact E | exact E]. }
      clear E.
      destruct (parse_single_spend sp) as [[[[parent_id puzzle_hash] amount] conds]|] eqn:PS; cbn [bind] in E'; [|discriminate].
      destruct (process_single_spend vk H K fl V ret state parent_id puzzle_hash amount conds cost clvm)
        as [[[ret1 state1] cost1]|] eqn:PSS; cbn [bind] in E'; [|discriminate].
      destruct (process_single_spend_ok _ _ _ _ _ _ _ _ _ _ _ _ PS PSS recs h t) as [A1 S1].
      destruct (IH _ _ _ _ _ _ _ _ E' recs h t) as [A2 S2].
      split.
      + rewrite A2, A1, Forall_app. tauto.
      + rewrite S2, S1, Forall_app. split.
        * intros ((X1 & X2 & X3) & X4 & X5). repeat split; auto.
        * intros (X1 & X2 & X3 & X4). inversion X2; subst. repeat split; auto.
  Qed.

  Lemma spend_ok_clear_ff recs h t s : spend_ok recs h t (clear_ff s) <-> spend_ok recs h t s.
  Proof. unfold spend_ok, clear_ff. cbn. tauto. Qed.

  Lemma Forall_map_iff {A B} (P : B -> Prop) (Q : A -> Prop) (f : A -> B) l :
    (forall x, P (f x) <-> Q x) -> (Forall P (map f l) <-> Forall Q l).
  Proof.
    intros Hf. induction l as [|x r IH]; cbn [map].
    - split; auto.
    - split; intros X; inversion X; subst; constructor; try (apply Hf; assumption); apply IH; assumption.
  Qed.

  Lemma Forall_combine_seq {A} (P : A -> Prop) (f : nat * A -> A) l :
    (forall i x, P (f (i, x)) <-> P x) ->
    forall n, Forall P (map f (combine (seq n (length l)) l)) <-> Forall P l.
  Proof.
    intros Hf. induction l as [|x r IH]; intros n; cbn [length seq combine map].
    - split; auto.
    - split; intros X; inversion X; subst; constructor; try (apply (Hf n x); assumption); apply (IH (S n)); assumption.
  Qed.

  Lemma post_process_ok recs h t spends state :
    Forall (spend_ok recs h t) (post_process H V spends state) <-> Forall (spend_ok recs h t) spends.
  Proof.
    unfold post_process. destruct V; [tauto|].
    rewrite (Forall_map_iff (spend_ok recs h t) (spend_ok recs h t)).
    - apply Forall_combine_seq. intros i x. destruct (existsb _ _); [apply spend_ok_clear_ff | tauto].
    - intros x. destruct (_ && _); [apply spend_ok_clear_ff | tauto].
  Qed.

  (* ---------- (1) the bundle passes time-lock checking iff every individual assertion holds ---------- *)
  Theorem parse_spends_time_locks spends max_cost clvm_cost ret sps pairs recs h t :
    parse_spends vk H K fl V spends max_cost clvm_cost = Ok (ret, sps, pairs) ->
    (check_time_locks recs ret sps h t true = Ok tt <->
       Forall (fun c => recs c <> None) (bundle_coins H spends) /\
       Forall (holds recs h t) (bundle_assertions H fl spends)).
  Proof.
    unfold parse_spends. intros E.
    destruct spends as [a|iter tl]; cbn [first bind] in E; [discriminate|].
    cbn [bundle_coins bundle_assertions].
    match type of E with bind ?r _ = _ => destruct r as [[[ret0 state] cost_left]|] eqn:SL; cbn [bind] in E; [|discriminate] end.
    destruct (validate_conditions H ret0 _ state) eqn:VC; cbn [bind] in E; [|discriminate].
    inversion E; subst ret sps pairs; clear E.
    destruct (spends_loop_ok _ _ _ _ _ _ _ _ _ SL recs h t) as [A1 S1].
    rewrite check_time_locks_iff. unfold bundle_ok.
    rewrite post_process_ok. unfold fast_rev. rewrite <- rev_alt.
    assert (RV : Forall (spend_ok recs h t) (rev (b_spends_rev ret0)) <-> Forall (spend_ok recs h t) (b_spends_rev ret0)).
    { rewrite !Forall_forall. split; intros X x Hx; apply X; [rewrite <- in_rev | rewrite in_rev]; exact Hx. }
    rewrite RV, S1.
    match goal with |- aok h t (proj_a ?b) /\ _ <-> _ => change (proj_a b) with (proj_a ret0) end.
    rewrite A1, Forall_holds_split.
    cbn [empty_bundle b_spends_rev]. pose proof (aok_empty h t). split.
    - intros ((_ & X1) & _ & X2 & X3). split; [exact X2 | split; [exact X1 | exact X3]].
    - intros (X1 & X2 & X3). split; [split; [assumption | exact X2] | split; [constructor | split; [exact X1 | exact X3]]].
  Qed.
End Bundle.
