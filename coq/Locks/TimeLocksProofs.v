(* Locks/TimeLocksProofs.v — C03: the theorems stated in Props/C03.v.
   (1) fold sound and complete, list level and parse_spends level (the latter in ParseProofs.v);
   (3) rejection only if unsatisfiable; (5) legacy mode witnesses; (2) argument classes;
   (4) relative/birth assertions on an ephemeral coin; non-vacuity examples. *)
From ChiaV.Base Require Import Bytes Sha256.
From ChiaV.Clvm Require Import Sexp Ints.
From ChiaV.Gen Require Import Opcodes.
From ChiaV.Cond Require Import Model.
From ChiaV.Locks Require Import TimeLocks FoldProofs ParseProofs.
From Coq Require Import ZifyBool ZifyNat ZifyN.
Ltac Zify.zify_post_hook ::= Z.div_mod_to_equations.
Open Scope N_scope.

Lemma no_lock_fields_proj s : no_lock_fields s -> proj_s s = no_locks.
Proof. intros (A & B & C & D & E & F). unfold proj_s, no_locks. congruence. Qed.

(* ---------- (1) list level: Cond.Model.apply_condition iterated over one spend's conditions ---------- *)
Lemma fold_list_sound_complete vk K fl st cs st' recs h t :
  apply_all vk K fl st cs = Ok st' -> no_lock_fields (l_spend st) ->
  (check_time_locks recs (l_ret st') [l_spend st'] h t true = Ok tt <->
     check_time_locks recs (l_ret st) [] h t true = Ok tt /\
     recs (sp_coin_id (l_spend st)) <> None /\
     Forall (holds recs h t) (locks_of (sp_coin_id (l_spend st)) cs)).
Proof.
  intros E NL. apply no_lock_fields_proj in NL.
  apply apply_all_run in E. apply run_sim in E. destruct E as ([L' A'] & HF & HL).
  rewrite NL in HF. unfold lk_of in HL; cbn [fst snd] in HL.
  apply lk_inv in HL. destruct HL as (R1 & R2 & R3 & R4).
  set (id := sp_coin_id (l_spend st)) in *.
  destruct (fold_lk_ok _ _ _ _ _ HF recs h t id) as [IA IS].
  rewrite <- locks_of_kvs in IA, IS. rewrite s_ok_no_locks in IS.
  rewrite !check_time_locks_iff. unfold bundle_ok. rewrite R2, IA, Forall_holds_split.
  assert (SP : Forall (spend_ok recs h t) [l_spend st'] <-> s_ok recs h t id L').
  { split.
    - intros X; inversion X as [|? ? X1 _]. unfold spend_ok in X1. rewrite R1, R3 in X1. exact X1.
    - intros X; constructor; [|constructor]. unfold spend_ok. rewrite R1, R3. exact X. }
  rewrite SP, IS. split.
  - intros ((X1 & X2) & X3 & X4). split; [split; [exact X1 | constructor] | split; [exact X3 | split; [exact X2 | exact X4]]].
  - intros ((X1 & _) & X2 & X3 & X4). split; [split; [exact X1 | exact X3] | split; [exact X2 | exact X4]].
Qed.

(* ---------- (3) rejection by the fold only if unsatisfiable ---------- *)
(* per spend: the fold over a condition list rejects with an Impossible*RelativeConstraints code (or with
   the birth-mismatch code) only if no chain state satisfies the spend's assertions *)
Lemma fold_list_reject_only_if vk K fl st cs e :
  apply_all vk K fl st cs = Err e -> no_lock_fields (l_spend st) ->
  is_impossible e = true \/ e = AssertMyBirthHeightFailed \/ e = AssertMyBirthSecondsFailed ->
  forall recs h t, ~ Forall (holds recs h t) (locks_of (sp_coin_id (l_spend st)) cs).
Proof.
  intros E NL He recs h t HF. apply no_lock_fields_proj in NL.
  apply apply_all_runerr in E. apply runerr_sim in E; [|exact He]. rewrite NL in E.
  apply Forall_holds_split in HF. destruct HF as [_ HR]. rewrite locks_of_kvs in HR.
  revert HR. eapply fold_lk_err; [exact E|]. intros; apply sok_no_locks.
Qed.

Section Bundle.
  Variable vk : bytes -> bool.
  Variable H : bytes -> bytes.
  Variable K : consts.
  Variable fl : cflags.
  Variable V : visitor.

  Lemma process_single_spend_err ret state sp parent_id puzzle_hash amount conds max_cost clvm_cost e :
    parse_single_spend sp = Ok (parent_id, puzzle_hash, amount, conds) ->
    process_single_spend vk H K fl V ret state parent_id puzzle_hash amount conds max_cost clvm_cost = Err e ->
    is_impossible e = true ->
    forall recs h t, ~ Forall (holds_rel recs h t) (locks_of (spend_coin_id H sp) (conds_of fl (spend_conditions sp))).
  Proof.
    intros PS E He. destruct (parse_single_spend_shape _ _ _ _ _ PS) as (tl & ->). clear PS.
    unfold process_single_spend in E.
    destruct (sanitize_hash parent_id 32 InvalidParentId) as [parent|] eqn:S1; cbn [bind] in E.
    2:{ inversion E; subst. apply sanitize_hash_err in S1; subst; discriminate. }
    destruct (sanitize_hash puzzle_hash 32 InvalidPuzzleHash) as [ph|] eqn:S2; cbn [bind] in E.
    2:{ inversion E; subst. apply sanitize_hash_err in S2; subst; discriminate. }
    destruct (parse_amount amount InvalidCoinAmount) as [my_amount|] eqn:S3; cbn [bind] in E.
    2:{ inversion E; subst. apply parse_amount_err in S3; subst; discriminate. }
    destruct (atom_of amount InvalidCoinAmount) as [amount_buf|] eqn:S4; cbn [bind] in E.
    2:{ inversion E; subst. apply atom_of_err in S4; subst; discriminate. }
    apply sanitize_hash_ok in S1. apply sanitize_hash_ok in S2. apply atom_of_ok in S4. subst parent_id puzzle_hash amount.
    cbn [spend_coin_id spend_conditions].
    set (id := H (parent ++ ph ++ amount_buf)) in *.
    destruct (lookup_idx id (s_spent_coins state)); [inversion E; subst; discriminate|].
    match type of E with bind ?r _ = _ => destruct r as [st1|e1] eqn:C1; cbn [bind] in E end.
    2:{ inversion E; subst. destruct (f_cost_conds fl); [apply charge_err in C1; subst; discriminate | discriminate]. }
    match type of E with bind (conditions_loop _ _ _ _ _ ?s) _ = _ =>
      set (stA := s) in *; destruct (conditions_loop vk K fl V conds stA) as [st2|e2] eqn:CL; cbn [bind] in E; [discriminate|] end.
    inversion E; subst e2; clear E.
    assert (LA : lk stA = (no_locks, proj_a ret, id, b_spends_rev ret)).
    { assert (L1 : lk st1 = (no_locks, proj_a ret, id, b_spends_rev ret)).
      { destruct (f_cost_conds fl); [apply lk_charge in C1; rewrite C1; reflexivity | inversion C1; reflexivity]. }
      rewrite <- L1. subst stA. destruct V; reflexivity. }
    apply lk_inv in LA. destruct LA as (Q1 & Q2 & Q3 & Q4).
    apply conditions_loop_runerr in CL; [|exact He]. apply runerr_sim in CL; [|left; exact He].
    rewrite Q1 in CL. intros recs h t. rewrite locks_of_kvs.
    eapply fold_lk_err; [exact CL|]. intros; apply sok_no_locks.
  Qed.

  Lemma spends_loop_err iter : forall ret state cost sl clvm e,
    spends_loop vk H K fl V iter ret state cost sl clvm = Err e -> is_impossible e = true ->
    forall recs h t, ~ Forall (holds_rel recs h t) (spends_assertions H fl iter).
  Proof.
    induction iter as [a|sp _ nxt IH]; intros ret state cost sl clvm e E He recs h t;
      cbn [spends_loop spends_assertions] in *.
    - destruct a; [discriminate|]. inversion E; subst; discriminate.
    - assert (E' : (' (parent_id, puzzle_hash, amount, conds) <- parse_single_spend sp ;;
                    ' (ret1, state1, cost1) <- process_single_spend vk H K fl V ret state parent_id puzzle_hash amount conds cost clvm ;;
                    spends_loop vk H K fl V nxt ret1 state1 cost1 (option_map N.pred sl) clvm) = Err e).
      { destruct sl as [[|p]|]; [inversion E; subst; discriminate | exact E | exact E]. }
      clear E. rewrite Forall_app. intros [F1 F2].
      destruct (parse_single_spend sp) as [[[[parent_id puzzle_hash] amount] conds]|e1] eqn:PS; cbn [bind] in E'.
      2:{ inversion E'; subst. unfold parse_single_spend in PS.
          repeat match type of PS with bind ?r _ = _ => let D := fresh "D" in destruct r eqn:D; cbn [bind] in PS end;
            try discriminate PS; inversion PS; subst;
            repeat match goal with D : first _ = Err _ |- _ => apply first_err in D | D : rest _ = Err _ |- _ => apply rest_err in D end;
            subst; discriminate. }
      destruct (process_single_spend vk H K fl V ret state parent_id puzzle_hash amount conds cost clvm)
        as [[[ret1 state1] cost1]|e2] eqn:PSS; cbn [bind] in E'.
      + exact (IH _ _ _ _ _ _ E' He recs h t F2).
      + inversion E'; subst e2. exact (process_single_spend_err _ _ _ _ _ _ _ _ _ _ PS PSS He recs h t F1).
  Qed.

  Lemma validate_conditions_impossible ret sps state e :
    validate_conditions H ret sps state = Err e -> is_impossible e = true -> forall h t, ~ aok h t (proj_a ret).
  Proof.
    unfold validate_conditions. intros E He h t (A1 & A2 & A3 & A4).
    cbn [proj_a a_ha a_sa a_bha a_bsa] in *.
    destruct (_ <? _); [inversion E; subst; discriminate|].
    destruct (_ <? _); [inversion E; subst; discriminate|].
    destruct (b_before_height_absolute ret) as [bh|].
    1: destruct (bh <=? b_height_absolute ret) eqn:C; [cbn in A3; lia|].
    all: destruct (b_before_seconds_absolute ret) as [bs|].
    all: try (destruct (bs <=? b_seconds_absolute ret) eqn:C2; [cbn in A4; lia|]).
    all: repeat match type of E with (if ?b then _ else _) = _ => destruct b; [inversion E; subst; discriminate|] end;
         discriminate E.
  Qed.

  (* whole bundle: parse_spends rejects with an Impossible* code only if no chain state satisfies the
     bundle's assertions *)
  Theorem parse_spends_impossible_only_if spends max_cost clvm_cost e :
    parse_spends vk H K fl V spends max_cost clvm_cost = Err e -> is_impossible e = true ->
    forall recs h t, ~ Forall (holds recs h t) (bundle_assertions H fl spends).
  Proof.
    unfold parse_spends. intros E He recs h t HF.
    destruct spends as [a|iter tl]; cbn [first bind] in E; [inversion E; subst; discriminate|].
    cbn [bundle_assertions] in HF. apply Forall_holds_split in HF. destruct HF as [HA HR].
    match type of E with bind ?r _ = _ => destruct r as [[[ret0 state] cost_left]|e1] eqn:SL; cbn [bind] in E end.
    2:{ inversion E; subst e1. exact (spends_loop_err _ _ _ _ _ _ _ SL He recs h t HR). }
    destruct (validate_conditions H ret0 _ state) eqn:VC; cbn [bind] in E; [discriminate|].
    inversion E; subst. apply (validate_conditions_impossible _ _ _ _ VC He h t).
    destruct (spends_loop_ok _ _ _ _ _ _ _ _ _ _ _ _ _ _ SL recs h t) as [A1 _].
    apply A1. split; [apply aok_empty | exact HA].
  Qed.
End Bundle.

(* ---------- executable version of the definition ---------- *)
Lemma holds_onb_iff cbi ts h t k v : holds_onb cbi ts h t k v = true <-> holds_on cbi ts h t k v.
Proof. destruct k; cbn [holds_onb holds_on]; lia. Qed.
Lemma holdsb_iff recs h t a : holdsb recs h t a = true <-> holds recs h t a.
Proof.
  destruct a as [[coin k] v]. unfold holdsb, holds. destruct (is_relative k).
  - destruct (recs coin) as [[cbi ts]|]; [apply holds_onb_iff | split; [discriminate | tauto]].
  - apply holds_onb_iff.
Qed.
Lemma Forall_holdsb recs h t l : Forall (holds recs h t) l <-> forallb (holdsb recs h t) l = true.
Proof. rewrite forallb_forall, Forall_forall. split; intros X x Hx; apply holdsb_iff; auto. Qed.

(* ---------- (5) the wrapping (legacy) mode is not equivalent ---------- *)
Lemma legacy_accepts_failed_assertion :
  exists cs st' h t,
    apply_all (fun _ => false) ex_consts ex_flags ex_state cs = Ok st' /\ h < U32 /\ t < U64 /\
    check_time_locks ex_recs (l_ret st') [l_spend st'] h t false = Ok tt /\
    check_time_locks ex_recs (l_ret st') [l_spend st'] h t true <> Ok tt /\
    ~ Forall (holds ex_recs h t) (locks_of ex_id cs).
Proof.
  (* ASSERT_SECONDS_RELATIVE 2^64-50 on a coin with timestamp 100, checked at time 1000:
     100 + (2^64-50) wraps to 50 <= 1000 *)
  exists [CAssertSecondsRelative (2 ^ 64 - 50)]. eexists. exists 20, 1000.
  split; [vm_compute; reflexivity|]. split; [vm_compute; reflexivity|]. split; [vm_compute; reflexivity|].
  split; [vm_compute; reflexivity|]. split; [vm_compute; discriminate|].
  rewrite Forall_holdsb. vm_compute. discriminate.
Qed.

Lemma legacy_rejects_true_assertion :
  exists cs st' h t,
    apply_all (fun _ => false) ex_consts ex_flags ex_state cs = Ok st' /\ h < U32 /\ t < U64 /\
    check_time_locks ex_recs (l_ret st') [l_spend st'] h t false <> Ok tt /\
    check_time_locks ex_recs (l_ret st') [l_spend st'] h t true = Ok tt /\
    Forall (holds ex_recs h t) (locks_of ex_id cs).
Proof.
  (* ASSERT_BEFORE_HEIGHT_RELATIVE 2^32-5 on a coin confirmed at height 10, checked at height 20:
     10 + (2^32-5) wraps to 5 <= 20 *)
  exists [CAssertBeforeHeightRelative (2 ^ 32 - 5)]. eexists. exists 20, 1000.
  split; [vm_compute; reflexivity|]. split; [vm_compute; reflexivity|]. split; [vm_compute; reflexivity|].
  split; [vm_compute; discriminate|]. split; [vm_compute; reflexivity|].
  rewrite Forall_holdsb. vm_compute. reflexivity.
Qed.

(* ---------- non-vacuity ---------- *)
Lemma ex_fold_accepts_and_holds :
  exists st', apply_all (fun _ => false) ex_consts ex_flags ex_state ex_conds = Ok st' /\
              no_lock_fields (l_spend ex_state) /\
              check_time_locks ex_recs (l_ret st') [l_spend st'] 20 1000 true = Ok tt /\
              Forall (holds ex_recs 20 1000) (locks_of ex_id ex_conds) /\
              length (locks_of ex_id ex_conds) = 12%nat.
Proof.
  eexists. split; [vm_compute; reflexivity|]. split; [repeat split|].
  split; [vm_compute; reflexivity|]. split; [rewrite Forall_holdsb; vm_compute; reflexivity | reflexivity].
Qed.
(* the fold rejects a conflicting pair with an Impossible* code *)
Lemma ex_fold_rejects :
  apply_all (fun _ => false) ex_consts ex_flags ex_state [CAssertBeforeHeightRelative 5; CAssertHeightRelative 5]
    = Err ImpossibleHeightRelativeConstraints /\ is_impossible ImpossibleHeightRelativeConstraints = true.
Proof. split; vm_compute; reflexivity. Qed.

(* ---------- (2) argument classes ---------- *)
Lemma pow256_mono a b : (a <= b)%nat -> 256 ^ N.of_nat a <= 256 ^ N.of_nat b.
Proof. intros. apply N.pow_le_mono_r; lia. Qed.

Lemma sanitize_uint_ok b size v :
  sanitize_uint b size = SOk v -> Z.of_N v = atom_val b /\ v < 256 ^ N.of_nat size.
Proof.
  unfold sanitize_uint, atom_val. destruct b as [|b0 tl]; [intros X; inversion X; subst; split; [reflexivity | assert (256 ^ N.of_nat size <> 0) by (apply N.pow_nonzero; lia); lia]|].
  destruct (128 <=? b2n b0) eqn:E0; [discriminate|].
  destruct (match tl with [] => b2n b0 =? 0 | b1 :: _ => (b2n b0 =? 0) && (b2n b1 <? 128) end); [discriminate|].
  destruct (Nat.ltb _ _) eqn:EL; [discriminate|]. intros X; inversion X; subst v; clear X.
  split; [reflexivity|].
  apply PeanoNat.Nat.ltb_ge in EL.
  destruct (b2n b0 =? 0) eqn:Z0.
  - rewrite be2n_cons. assert (b2n b0 = 0) by lia. rewrite H. cbn [length] in EL.
    pose proof (be2n_lt tl). unfold nlen in *. pose proof (pow256_mono (length tl) size ltac:(lia)). lia.
  - pose proof (be2n_lt (b0 :: tl)). unfold nlen in *. pose proof (pow256_mono (length (b0 :: tl)) size EL). lia.
Qed.

Lemma sanitize_uint_pos b size :
  sanitize_uint b size = SPosOverflow -> (Z.of_N (256 ^ N.of_nat size) <= atom_val b)%Z.
Proof.
  unfold sanitize_uint, atom_val. destruct b as [|b0 tl]; [discriminate|].
  destruct (128 <=? b2n b0) eqn:E0; [discriminate|].
  destruct tl as [|b1 tl'].
  - destruct (b2n b0 =? 0) eqn:Z0; [discriminate|]. cbn [length].
    destruct (Nat.ltb _ _) eqn:EL; [|discriminate]. intros _.
    apply PeanoNat.Nat.ltb_lt in EL. assert (size = 0%nat) by lia. subst size.
    unfold be2n; cbn [fold_left]. change (256 ^ N.of_nat 0) with 1. lia.
  - destruct ((b2n b0 =? 0) && (b2n b1 <? 128)) eqn:ER; [discriminate|].
    destruct (Nat.ltb _ _) eqn:EL; [|discriminate]. intros _.
    apply PeanoNat.Nat.ltb_lt in EL.
    destruct (b2n b0 =? 0) eqn:Z0.
    + cbn [length] in EL. rewrite be2n_cons. assert (b2n b0 = 0) by lia. rewrite H.
      rewrite be2n_cons. unfold nlen. pose proof (pow256_mono size (length tl') ltac:(lia)).
      assert (128 <= b2n b1) by lia. nia.
    + rewrite be2n_cons. unfold nlen. cbn [length] in *. pose proof (pow256_mono size (S (length tl')) ltac:(lia)).
      assert (1 <= b2n b0) by lia. nia.
Qed.

Lemma sanitize_uint_neg b size : sanitize_uint b size = SNegOverflow -> (atom_val b < 0)%Z.
Proof.
  unfold sanitize_uint, atom_val. destruct b as [|b0 tl]; [discriminate|].
  destruct (128 <=? b2n b0) eqn:E0.
  - intros _. pose proof (be2n_lt (b0 :: tl)). unfold nlen in H.
    assert (Z.of_N (256 ^ N.of_nat (length (b0 :: tl))) = (256 ^ Z.of_nat (length (b0 :: tl)))%Z).
    { rewrite N2Z.inj_pow. f_equal; lia. }
    lia.
  - destruct (match tl with [] => b2n b0 =? 0 | b1 :: _ => (b2n b0 =? 0) && (b2n b1 <? 128) end); [discriminate|].
    destruct (Nat.ltb _ _); discriminate.
Qed.

Definition kind_err (k : kind) : ecode :=
  match k with
  | KHeightRelative => AssertHeightRelativeFailed | KSecondsRelative => AssertSecondsRelativeFailed
  | KBeforeHeightRelative => AssertBeforeHeightRelativeFailed | KBeforeSecondsRelative => AssertBeforeSecondsRelativeFailed
  | KHeightAbsolute => AssertHeightAbsoluteFailed | KSecondsAbsolute => AssertSecondsAbsoluteFailed
  | KBeforeHeightAbsolute => AssertBeforeHeightAbsoluteFailed | KBeforeSecondsAbsolute => AssertBeforeSecondsAbsoluteFailed
  | KBirthHeight => AssertMyBirthHeightFailed | KBirthSeconds => AssertMyBirthSecondsFailed
  end.
Definition kind_pos (k : kind) : ovf :=
  match k with
  | KBeforeHeightRelative | KBeforeSecondsRelative => OvfSkipRel
  | KBeforeHeightAbsolute | KBeforeSecondsAbsolute => OvfSkip
  | _ => OvfErr
  end.
Definition kind_neg (k : kind) : ovf :=
  match k with
  | KHeightRelative | KSecondsRelative => OvfSkipRel
  | KHeightAbsolute | KSecondsAbsolute => OvfSkip
  | _ => OvfErr
  end.

(* parse_args dispatches each of the ten opcodes (by the constants translated from opcodes.rs) to lock_arg *)
Lemma parse_args_kind fl c k :
  parse_args fl c (kind_opcode k) = lock_arg fl c (kind_size k) (kind_err k) (kind_pos k) (kind_neg k) (cond_of_kind k).
Proof. destruct k; reflexivity. Qed.

Lemma kind_width_size k : kind_width k = 256 ^ N.of_nat (kind_size k).
Proof. destruct k; reflexivity. Qed.

Lemma lock_of_cond_of_kind k v : lock_of (cond_of_kind k v) = Some (k, v).
Proof. destruct k; reflexivity. Qed.

Lemma oversize_unsat k z cbi ts h t :
  oversize_fails k = true -> (Z.of_N (kind_width k) <= z)%Z -> state_in_range cbi ts h t -> ~ holdsZ cbi ts h t k z.
Proof.
  unfold state_in_range, U32, U64. intros Hk Hz (A & B & C & D).
  destruct k; try discriminate Hk; cbn [holdsZ kind_width kind_is_height] in *; unfold U32, U64 in *; lia.
Qed.
Lemma oversize_taut k z cbi ts h t :
  oversize_fails k = false -> (Z.of_N (kind_width k) <= z)%Z -> state_in_range cbi ts h t -> holdsZ cbi ts h t k z.
Proof.
  unfold state_in_range, U32, U64. intros Hk Hz (A & B & C & D).
  destruct k; try discriminate Hk; cbn [holdsZ kind_width kind_is_height] in *; unfold U32, U64 in *; lia.
Qed.
Lemma negative_unsat k z cbi ts h t :
  negative_fails k = true -> (z < 0)%Z -> (is_relative k = true -> coin_not_from_future cbi ts h t) -> ~ holdsZ cbi ts h t k z.
Proof.
  unfold coin_not_from_future. intros Hk Hz HF.
  destruct k; try discriminate Hk; cbn [holdsZ is_relative] in *; try specialize (HF eq_refl); lia.
Qed.
Lemma negative_taut k z cbi ts h t :
  negative_fails k = false -> (z < 0)%Z -> (is_relative k = true -> coin_not_from_future cbi ts h t) -> holdsZ cbi ts h t k z.
Proof.
  unfold coin_not_from_future. intros Hk Hz HF.
  destruct k; try discriminate Hk; cbn [holdsZ is_relative] in *; try specialize (HF eq_refl); lia.
Qed.

Theorem argument_classes fl k b tl :
  let c := Pair (Atom b) tl in
  let z := atom_val b in
  maybe_check_args_terminator fl c = Ok tt ->
  match sanitize_uint b (kind_size k) with
  | SOk v =>
      parse_args fl c (kind_opcode k) = Ok (cond_of_kind k v) /\ Z.of_N v = z /\ v < kind_width k
  | SPosOverflow =>
      (Z.of_N (kind_width k) <= z)%Z /\
      if oversize_fails k
      then (exists e, parse_args fl c (kind_opcode k) = Err e) /\
           (forall cbi ts h t, state_in_range cbi ts h t -> ~ holdsZ cbi ts h t k z)
      else (exists cva, parse_args fl c (kind_opcode k) = Ok cva /\ lock_of cva = None) /\
           (forall cbi ts h t, state_in_range cbi ts h t -> holdsZ cbi ts h t k z)
  | SNegOverflow =>
      (z < 0)%Z /\
      if negative_fails k
      then (exists e, parse_args fl c (kind_opcode k) = Err e) /\
           (forall cbi ts h t, (is_relative k = true -> coin_not_from_future cbi ts h t) -> ~ holdsZ cbi ts h t k z)
      else (exists cva, parse_args fl c (kind_opcode k) = Ok cva /\ lock_of cva = None) /\
           (forall cbi ts h t, (is_relative k = true -> coin_not_from_future cbi ts h t) -> holdsZ cbi ts h t k z)
  | SErr => exists e, parse_args fl c (kind_opcode k) = Err e
  end.
Proof.
  intros c z HT. rewrite parse_args_kind. unfold lock_arg. rewrite HT. subst c. cbn [bind first sanitize_uint_node].
  destruct (sanitize_uint b (kind_size k)) as [v| | |] eqn:S; cbn [bind].
  - apply sanitize_uint_ok in S. rewrite kind_width_size. tauto.
  - apply sanitize_uint_pos in S. rewrite <- kind_width_size in S. split; [exact S|].
    destruct (oversize_fails k) eqn:OF.
    + split; [destruct k; try discriminate OF; cbn; eauto | intros; eapply oversize_unsat; eauto].
    + split; [destruct k; try discriminate OF; cbn; eauto | intros; eapply oversize_taut; eauto].
  - apply sanitize_uint_neg in S. split; [exact S|].
    destruct (negative_fails k) eqn:NF.
    + split; [destruct k; try discriminate NF; cbn; eauto | intros; eapply negative_unsat; eauto].
    + split; [destruct k; try discriminate NF; cbn; eauto | intros; eapply negative_taut; eauto].
  - eauto.
Qed.

(* what the capped sums of [holds_on] mean next to the exact integer reading, for arguments of the type *)
Lemma holds_on_exact k v cbi ts h t :
  v < kind_width k -> state_in_range cbi ts h t ->
  (if kind_is_height k then cbi + v < U32 else ts + v < U64) \/ is_relative k = false \/ k = KBirthHeight \/ k = KBirthSeconds ->
  (holds_on cbi ts h t k v <-> holdsZ cbi ts h t k (Z.of_N v)).
Proof.
  unfold state_in_range, U32, U64, sat_add. intros Hv (A & B & C & D) Hs.
  destruct k; cbn [holds_on holdsZ kind_width kind_is_height is_relative] in *; unfold U32, U64, sat_add in *;
    (destruct Hs as [Hs|[Hs|[Hs|Hs]]]; try discriminate Hs); lia.
Qed.
(* when the exact sum leaves the type: the "not before" kinds hold exactly at the type maximum, the
   "before" kinds hold everywhere below it *)
Lemma holds_on_overflow k v cbi ts h t :
  v < kind_width k -> state_in_range cbi ts h t ->
  (if kind_is_height k then U32 <= cbi + v else U64 <= ts + v) ->
  match k with
  | KHeightRelative => holds_on cbi ts h t k v <-> h = U32 - 1
  | KSecondsRelative => holds_on cbi ts h t k v <-> t = U64 - 1
  | KBeforeHeightRelative => holds_on cbi ts h t k v <-> h < U32 - 1
  | KBeforeSecondsRelative => holds_on cbi ts h t k v <-> t < U64 - 1
  | _ => True
  end.
Proof.
  unfold state_in_range, U32, U64, sat_add. intros Hv (A & B & C & D) Hs.
  destruct k; cbn [holds_on kind_width kind_is_height] in *; unfold U32, U64, sat_add in *; try exact I; lia.
Qed.

(* the chain invariant "a spent coin was confirmed no later than the previous transaction block" is needed for
   the negative relative class: without it the skipped condition is not a tautology *)
Lemma negative_relative_needs_invariant :
  exists cbi ts h t z, (z < 0)%Z /\ state_in_range cbi ts h t /\ negative_fails KHeightRelative = false /\
                       ~ holdsZ cbi ts h t KHeightRelative z.
Proof.
  exists 100, 0, 50, 0, (-1)%Z. unfold state_in_range, U32, U64. cbn [holdsZ negative_fails].
  repeat split; try lia.
Qed.

(* ---------- (4) relative / birth assertions on an ephemeral coin are rejected ---------- *)
(* what the ephemeral bookkeeping of a loop state consists of *)
Definition ev (st : lstate) : bool * list nat * nat * list (bytes * nat) :=
  (sp_has_relative (l_spend st), s_assert_not_ephemeral (l_state st), length (b_spends_rev (l_ret st)),
   s_spent_coins (l_state st)).
Definition ev_mark (e : bool * list nat * nat * list (bytes * nat)) : bool * list nat * nat * list (bytes * nat) :=
  let '(hr, l, n, sc) := e in if hr then e else (true, n :: l, n, sc).
Definition ev_step (e : bool * list nat * nat * list (bytes * nat)) (c : condition) :=
  if marks_relative c then ev_mark e else e.

Lemma ev_mark_not_ephemeral st : ev (mark_not_ephemeral st) = ev_mark (ev st).
Proof. unfold mark_not_ephemeral, ev, ev_mark. destruct (sp_has_relative (l_spend st)) eqn:E; [rewrite E|]; reflexivity. Qed.

Lemma ev_charge st c st' : charge st c = Ok st' -> ev st' = ev st.
Proof. unfold charge. destruct (_ <? _); [discriminate|]. intros E; inversion E; reflexivity. Qed.
Lemma ev_decrement fl st st' : decrement fl st = Ok st' -> ev st' = ev st.
Proof.
  unfold decrement. destruct (f_cost_conds fl); [intros E; inversion E; reflexivity|].
  destruct (_ =? _); [discriminate|]. intros E; inversion E; reflexivity.
Qed.
Lemma ev_push_pair fl st pk msg : ev (push_pair fl st pk msg) = ev st.
Proof. unfold push_pair. destruct (f_dont_validate fl); reflexivity. Qed.

Lemma apply_condition_ev vk K fl st c st' :
  apply_condition vk K fl st c = Ok st' -> ev st' = ev_step (ev st) c.
Proof.
  unfold ev_step. intros E. destruct c; cbn [marks_relative lock_of is_relative]; cbn [apply_condition] in E.
  all: split_binds E; try discriminate E.
  all: try (inversion E; subst; clear E; rewrite ?ev_push_pair, ?ev_mark_not_ephemeral;
            first [ reflexivity
                  | match goal with D : decrement _ _ = Ok ?s1 |- _ =>
                      transitivity (ev s1); [reflexivity | eapply ev_decrement; eassumption] end ]).
  all: try (apply ev_charge in E; exact E).
  all: repeat match type of E with
       | match ?o with Some _ => _ | None => _ end = _ => destruct o eqn:?
       | (if ?b then _ else _) = _ => destruct b eqn:?
       end; try discriminate E; inversion E; subst; rewrite ev_mark_not_ephemeral; reflexivity.
Qed.

Section Eph.
  Variable vk : bytes -> bool.
  Variable H : bytes -> bytes.
  Variable K : consts.
  Variable fl : cflags.
  Variable V : visitor.

  Lemma ev_precharge st op st1 : precharge fl st op = Ok st1 -> ev st1 = ev st.
  Proof.
    unfold precharge. intros E.
    repeat match type of E with (if ?b then _ else _) = _ => destruct b end;
      first [ apply ev_charge in E; exact E | inversion E; reflexivity ].
  Qed.
  Lemma ev_visit st cva : ev (visit V st cva) = ev st.
  Proof. unfold visit. destruct V; [reflexivity|]. destruct (mempool_condition _ _ _ _). reflexivity. Qed.

  Lemma process_condition_ev c st st' :
    process_condition vk K fl V c st = Ok st' ->
    ev st' = match cond_of fl c with Some cva => ev_step (ev st) cva | None => ev st end.
  Proof.
    unfold process_condition, cond_of. destruct c as [a|f c1]; cbn [first rest bind]; [discriminate|].
    destruct (parse_opcode f) as [op|].
    - intros E. destruct (precharge fl st op) as [st1|e1] eqn:P; cbn [bind] in E; [|discriminate].
      destruct (parse_args fl c1 op) as [cva|e2]; cbn [bind] in E; [|discriminate].
      apply apply_condition_ev in E. rewrite E, ev_visit. apply ev_precharge in P. rewrite P. reflexivity.
    - destruct (f_no_unknown fl); [discriminate|]. destruct (f_cost_conds fl).
      + apply ev_charge.
      + intros E; inversion E; reflexivity.
  Qed.

  Lemma conditions_loop_ev iter : forall st st',
    conditions_loop vk K fl V iter st = Ok st' -> ev st' = fold_left ev_step (conds_of fl iter) (ev st).
  Proof.
    induction iter as [a|c _ nxt IH]; intros st st' E; cbn [conditions_loop conds_of] in *.
    - destruct a; [|discriminate]. inversion E; reflexivity.
    - destruct (process_condition vk K fl V c st) as [st2|e] eqn:PC; cbn [bind] in E; [|discriminate].
      apply process_condition_ev in PC. rewrite (IH st2 st' E), PC.
      destruct (cond_of fl c); reflexivity.
  Qed.

  (* the pure bookkeeping: marking is idempotent, monotone, and records the index *)
  Definition ev_wf (e : bool * list nat * nat * list (bytes * nat)) : Prop :=
    let '(hr, l, n, _) := e in hr = true -> In n l.
  Definition ev_marked (e : bool * list nat * nat * list (bytes * nat)) : Prop :=
    let '(hr, l, n, _) := e in hr = true /\ In n l.

  Lemma ev_fold cs : forall e,
    let e' := fold_left ev_step cs e in
    snd (fst e') = snd (fst e) /\ snd e' = snd e /\ incl (snd (fst (fst e))) (snd (fst (fst e'))) /\
    (ev_wf e -> ev_wf e') /\ (ev_marked e -> ev_marked e') /\
    (ev_wf e -> existsb marks_relative cs = true -> ev_marked e').
  Proof.
    induction cs as [|c r IH]; intros e; cbn [fold_left existsb].
    - repeat split; auto using incl_refl. discriminate.
    - specialize (IH (ev_step e c)). cbn zeta in IH. destruct IH as (I1 & I2 & I3 & I4 & I5 & I6).
      destruct e as [[[hr l] n] sc]. unfold ev_step in *.
      destruct (marks_relative c) eqn:M; cbn [orb].
      + unfold ev_mark in *. destruct hr; cbn [fst snd] in *.
        * repeat split; auto. intros W _. apply I5. split; auto.
        * repeat split; auto.
          -- eapply incl_tran; [|exact I3]. apply incl_tl, incl_refl.
          -- intros _. apply I4. intros _. left; reflexivity.
          -- intros [X _]; discriminate.
          -- intros _ _. apply I5. split; [reflexivity | left; reflexivity].
      + repeat split; auto.
  Qed.

  Lemma process_single_spend_ev ret state parent_id puzzle_hash amount conds max_cost clvm_cost ret2 state2 cost2 sp :
    parse_single_spend sp = Ok (parent_id, puzzle_hash, amount, conds) ->
    process_single_spend vk H K fl V ret state parent_id puzzle_hash amount conds max_cost clvm_cost
      = Ok (ret2, state2, cost2) ->
    length (b_spends_rev ret2) = S (length (b_spends_rev ret)) /\
    s_spent_coins state2 = (spend_coin_id H sp, length (b_spends_rev ret)) :: s_spent_coins state /\
    incl (s_assert_not_ephemeral state) (s_assert_not_ephemeral state2) /\
    (existsb marks_relative (conds_of fl (spend_conditions sp)) = true ->
     In (length (b_spends_rev ret)) (s_assert_not_ephemeral state2)).
  Proof.
    intros PS E. destruct (parse_single_spend_shape _ _ _ _ _ PS) as (tl & ->). clear PS.
    unfold process_single_spend in E.
    destruct (sanitize_hash parent_id 32 InvalidParentId) as [parent|] eqn:S1; cbn [bind] in E; [|discriminate].
    destruct (sanitize_hash puzzle_hash 32 InvalidPuzzleHash) as [ph|] eqn:S2; cbn [bind] in E; [|discriminate].
    destruct (parse_amount amount InvalidCoinAmount) as [my_amount|] eqn:S3; cbn [bind] in E; [|discriminate].
    destruct (atom_of amount InvalidCoinAmount) as [amount_buf|] eqn:S4; cbn [bind] in E; [|discriminate].
    apply sanitize_hash_ok in S1. apply sanitize_hash_ok in S2. apply atom_of_ok in S4. subst parent_id puzzle_hash amount.
    cbn [spend_coin_id spend_conditions].
    set (id := H (parent ++ ph ++ amount_buf)) in *.
    destruct (lookup_idx id (s_spent_coins state)); [discriminate|].
    match type of E with bind ?r _ = _ => destruct r as [st1|] eqn:C1; cbn [bind] in E; [|discriminate] end.
    match type of E with bind (conditions_loop _ _ _ _ _ ?s) _ = _ =>
      set (stA := s) in *; destruct (conditions_loop vk K fl V conds stA) as [st2|] eqn:CL; cbn [bind] in E; [|discriminate] end.
    inversion E; subst ret2 state2 cost2; clear E.
    set (n := length (b_spends_rev ret)) in *.
    assert (EA : ev stA = (false, s_assert_not_ephemeral state, n, (id, n) :: s_spent_coins state)).
    { assert (L1 : ev st1 = (false, s_assert_not_ephemeral state, n, (id, n) :: s_spent_coins state)).
      { destruct (f_cost_conds fl); [apply ev_charge in C1; rewrite C1; reflexivity | inversion C1; reflexivity]. }
      rewrite <- L1. subst stA. destruct V; reflexivity. }
    apply conditions_loop_ev in CL. rewrite EA in CL.
    destruct (ev_fold (conds_of fl conds) (false, s_assert_not_ephemeral state, n, (id, n) :: s_spent_coins state))
      as (I1 & I2 & I3 & _ & _ & I6).
    rewrite <- CL in I1, I2, I3, I6. unfold ev in I1, I2, I3, I6. cbn [fst snd] in I1, I2, I3, I6.
    cbn [b_with b_spends_rev length].
    split; [f_equal; exact I1|]. split; [exact I2|]. split; [exact I3|].
    intros M. assert (W : ev_wf (false, s_assert_not_ephemeral state, n, (id, n) :: s_spent_coins state)) by (intros X; discriminate X).
    specialize (I6 W M). destruct I6 as [_ X]. rewrite I1 in X. exact X.
  Qed.

  Lemma spends_loop_ev iter : forall ret state cost sl clvm ret' state' cost',
    spends_loop vk H K fl V iter ret state cost sl clvm = Ok (ret', state', cost') ->
    s_spent_coins state' = spent_index H iter (length (b_spends_rev ret)) (s_spent_coins state) /\
    incl (s_assert_not_ephemeral state) (s_assert_not_ephemeral state') /\
    (forall i sp, spend_nth iter i = Some sp ->
       existsb marks_relative (conds_of fl (spend_conditions sp)) = true ->
       In (length (b_spends_rev ret) + i)%nat (s_assert_not_ephemeral state')).
  Proof.
    induction iter as [a|sp0 _ nxt IH]; intros ret state cost sl clvm ret' state' cost' E;
      cbn [spends_loop spent_index spend_nth] in *.
    - destruct a; [|discriminate]. inversion E; subst. split; [reflexivity|]. split; [apply incl_refl|].
      intros i sp X; discriminate X.
    - assert (E' : (' (parent_id, puzzle_hash, amount, conds) <- parse_single_spend sp0 ;;
                    ' (ret1, state1, cost1) <- process_single_spend vk H K fl V ret state parent_id puzzle_hash amount conds cost clvm ;;
                    spends_loop vk H K fl V nxt ret1 state1 cost1 (option_map N.pred sl) clvm) = Ok (ret', state', cost')).
      { destruct sl as [[|p]|]; [discriminate | exact E | exact E]. }
      clear E.
      destruct (parse_single_spend sp0) as [[[[parent_id puzzle_hash] amount] conds]|] eqn:PS; cbn [bind] in E'; [|discriminate].
      destruct (process_single_spend vk H K fl V ret state parent_id puzzle_hash amount conds cost clvm)
        as [[[ret1 state1] cost1]|] eqn:PSS; cbn [bind] in E'; [|discriminate].
      destruct (process_single_spend_ev _ _ _ _ _ _ _ _ _ _ _ _ PS PSS) as (L1 & S1 & N1 & M1).
      destruct (IH _ _ _ _ _ _ _ _ E') as (S2 & N2 & M2).
      rewrite L1, S1 in S2. split; [exact S2|]. split; [eapply incl_tran; eauto|].
      intros [|j] sp Hn HM.
      + inversion Hn; subst sp. apply N2. rewrite PeanoNat.Nat.add_0_r. apply M1. exact HM.
      + specialize (M2 j sp Hn HM). rewrite L1 in M2. replace (length (b_spends_rev ret) + S j)%nat with (S (length (b_spends_rev ret)) + j)%nat by lia. exact M2.
  Qed.

  Lemma validate_conditions_not_ephemeral ret sps state :
    validate_conditions H ret sps state = Ok tt ->
    forall i, In i (s_assert_not_ephemeral state) -> is_ephemeral sps (s_spent_coins state) i = false.
  Proof.
    unfold validate_conditions. intros E i Hi.
    repeat match type of E with
    | (if existsb (is_ephemeral _ _) _ then _ else _) = _ => fail 1
    | (if ?b then _ else _) = _ => destruct b; [discriminate|]
    end.
    destruct (existsb (is_ephemeral sps (s_spent_coins state)) (s_assert_not_ephemeral state)) eqn:X; [discriminate|].
    destruct (is_ephemeral sps (s_spent_coins state) i) eqn:Y; [|reflexivity].
    assert (existsb (is_ephemeral sps (s_spent_coins state)) (s_assert_not_ephemeral state) = true)
      by (apply existsb_exists; eauto). congruence.
  Qed.

  (* whole bundle: if parse_spends accepts, no spend carrying a relative or birth condition (even one skipped
     for a negative/oversized argument) is ephemeral, in Cond.Model's own sense of is_ephemeral: its parent is
     the coin id of a spend of the same bundle that creates a coin with its puzzle hash and amount *)
  Theorem ephemeral_relative_rejected iter tl max_cost clvm_cost ret sps pairs :
    parse_spends vk H K fl V (Pair iter tl) max_cost clvm_cost = Ok (ret, sps, pairs) ->
    forall i sp, spend_nth iter i = Some sp ->
      existsb marks_relative (conds_of fl (spend_conditions sp)) = true ->
      is_ephemeral sps (spent_index H iter 0 []) i = false.
  Proof.
    unfold parse_spends. cbn [first bind]. intros E i sp Hn HM.
    match type of E with bind ?r _ = _ => destruct r as [[[ret0 state] cost_left]|] eqn:SL; cbn [bind] in E; [|discriminate] end.
    destruct (validate_conditions H ret0 _ state) as [[]|] eqn:VC; cbn [bind] in E; [|discriminate].
    inversion E; subst ret sps pairs; clear E.
    destruct (spends_loop_ev _ _ _ _ _ _ _ _ _ SL) as (S1 & _ & M1).
    cbn [empty_bundle b_spends_rev length empty_state s_spent_coins] in S1, M1.
    rewrite <- S1. apply (validate_conditions_not_ephemeral _ _ _ VC). exact (M1 i sp Hn HM).
  Qed.
End Eph.

(* ---------- non-vacuity at the level of parse_spends (Gallina SHA-256 for the coin ids) ---------- *)
Lemma ex_parse_accepts :
  exists ret sps pairs,
    parse_spends (fun _ => false) sha256 ex_consts ex_flags VEmpty (ex_bundle sha256) 11000000000 0 = Ok (ret, sps, pairs) /\
    bundle_coins sha256 (ex_bundle sha256) = [ex_coin] /\
    bundle_assertions sha256 ex_flags (ex_bundle sha256) =
      [ (ex_coin, KHeightRelative, 5); (ex_coin, KBeforeSecondsAbsolute, 2000); (ex_coin, KBirthHeight, 10);
        (ex_coin, KHeightRelative, 7) ] /\
    check_time_locks (recs_of_list [(ex_coin, (10, 100))]) ret sps 17 1000 true = Ok tt /\
    check_time_locks (recs_of_list [(ex_coin, (10, 100))]) ret sps 16 1000 true <> Ok tt.
Proof.
  eexists; eexists; eexists. split; [vm_compute; reflexivity|].
  split; [vm_compute; reflexivity|]. split; [vm_compute; reflexivity|].
  split; [vm_compute; reflexivity | vm_compute; discriminate].
Qed.

Lemma ex_ephemeral_relative_rejected :
  parse_spends (fun _ => false) sha256 ex_consts ex_flags VEmpty
    (ex_eph_bundle sha256 [ex_cond ASSERT_HEIGHT_RELATIVE [Atom []]]) 11000000000 0 = Err EphemeralRelativeCondition /\
  parse_spends (fun _ => false) sha256 ex_consts ex_flags VEmpty
    (ex_eph_bundle sha256 [ex_cond ASSERT_SECONDS_RELATIVE [Atom [xff]]]) 11000000000 0 = Err EphemeralRelativeCondition /\
  parse_spends (fun _ => false) sha256 ex_consts ex_flags VEmpty
    (ex_eph_bundle sha256 [ex_cond ASSERT_MY_BIRTH_SECONDS [Atom [x64]]]) 11000000000 0 = Err EphemeralRelativeCondition /\
  exists r, parse_spends (fun _ => false) sha256 ex_consts ex_flags VEmpty
    (ex_eph_bundle sha256 [ex_cond ASSERT_HEIGHT_ABSOLUTE [Atom [x64]]]) 11000000000 0 = Ok r.
Proof.
  split; [vm_compute; reflexivity|]. split; [vm_compute; reflexivity|]. split; [vm_compute; reflexivity|].
  eexists. vm_compute. reflexivity.
Qed.

Lemma ex_parse_impossible :
  parse_spends (fun _ => false) sha256 ex_consts ex_flags VEmpty
    (Pair (ex_list [ex_spend ex_p1 ex_ph1 [x0a]
       [ex_cond ASSERT_BEFORE_HEIGHT_ABSOLUTE [Atom [x64]]; ex_cond ASSERT_HEIGHT_ABSOLUTE [Atom [x64]]]]) (Atom []))
    11000000000 0 = Err ImpossibleHeightAbsoluteConstraints.
Proof. vm_compute. reflexivity. Qed.
