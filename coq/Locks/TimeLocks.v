(* Locks/TimeLocks.v — property C03: time-lock semantics and the mirror of
   chia-consensus/src/check_time_locks.rs.  Definitions only (proofs: TimeLocksProofs.v).

   1. The ten lock/birth kinds as arithmetic predicates [holds recs h t (coin, kind, value)] on a
      chain state: previous transaction-block height [h] (u32), timestamp [t] (u64) and the coin
      records [recs : coin id -> (confirmed_block_index u32, timestamp u64)], with sums that
      SATURATE at the type maximum.
   2. [check_time_locks]: mirror of the Rust function on the owned summary (the lock fields of
      Cond.Model's bundle/spend records), both modes of its nowrap flag; the order of checks, the
      error returned by each, InvalidCoinId on a missing coin record.
   3. The folds the theorems are stated over: [apply_all] (the per-spend loop body of
      parse_conditions = Cond.Model.apply_condition, iterated) and the declarative extraction of
      the assertions of a serialized bundle ([bundle_assertions]), independent of any fold.
   4. Integer-valued reading of an argument atom ([atom_val]) and the arithmetic definition over Z
      ([holdsZ]) for arguments outside the type's range (negative / oversized). *)
From ChiaV.Base Require Import Bytes Sha256.
From ChiaV.Clvm Require Import Sexp Ints.
From ChiaV.Gen Require Import Opcodes.
From ChiaV.Cond Require Import Model.
Open Scope N_scope.

(* ---------- types, sums ---------- *)
Definition U32 : N := 2 ^ 32.
Definition U64 : N := 2 ^ 64.

(* u32/u64 saturating_add and wrapping_add on operands of the type (W = 2^32 or 2^64) *)
Definition sat_add (W a b : N) : N := N.min (a + b) (W - 1).
Definition wrap_add (W a b : N) : N := (a + b) mod W.

Inductive kind :=
| KHeightRelative | KSecondsRelative | KBeforeHeightRelative | KBeforeSecondsRelative
| KHeightAbsolute | KSecondsAbsolute | KBeforeHeightAbsolute | KBeforeSecondsAbsolute
| KBirthHeight | KBirthSeconds.

(* (coin id of the spend that emitted it, kind, argument) *)
Definition assertion : Type := bytes * kind * N.

(* coin id -> (confirmed_block_index, timestamp) *)
Definition coin_records : Type := bytes -> option (N * N).

Definition is_relative (k : kind) : bool :=
  match k with
  | KHeightAbsolute | KSecondsAbsolute | KBeforeHeightAbsolute | KBeforeSecondsAbsolute => false
  | _ => true
  end.

(* the arithmetic definition on one coin record *)
Definition holds_on (cbi ts h t : N) (k : kind) (v : N) : Prop :=
  match k with
  | KHeightRelative => sat_add U32 cbi v <= h
  | KSecondsRelative => sat_add U64 ts v <= t
  | KBeforeHeightRelative => h < sat_add U32 cbi v
  | KBeforeSecondsRelative => t < sat_add U64 ts v
  | KHeightAbsolute => v <= h
  | KSecondsAbsolute => v <= t
  | KBeforeHeightAbsolute => h < v
  | KBeforeSecondsAbsolute => t < v
  | KBirthHeight => cbi = v
  | KBirthSeconds => ts = v
  end.

Definition holds (recs : coin_records) (h t : N) (a : assertion) : Prop :=
  let '(coin, k, v) := a in
  if is_relative k then
    match recs coin with
    | Some (cbi, ts) => holds_on cbi ts h t k v
    | None => False                      (* relative/birth assertion on a coin without record *)
    end
  else holds_on 0 0 h t k v.

(* executable version (runner, examples) *)
Definition holds_onb (cbi ts h t : N) (k : kind) (v : N) : bool :=
  match k with
  | KHeightRelative => sat_add U32 cbi v <=? h
  | KSecondsRelative => sat_add U64 ts v <=? t
  | KBeforeHeightRelative => h <? sat_add U32 cbi v
  | KBeforeSecondsRelative => t <? sat_add U64 ts v
  | KHeightAbsolute => v <=? h
  | KSecondsAbsolute => v <=? t
  | KBeforeHeightAbsolute => h <? v
  | KBeforeSecondsAbsolute => t <? v
  | KBirthHeight => cbi =? v
  | KBirthSeconds => ts =? v
  end.

Definition holdsb (recs : coin_records) (h t : N) (a : assertion) : bool :=
  let '(coin, k, v) := a in
  if is_relative k then
    match recs coin with
    | Some (cbi, ts) => holds_onb cbi ts h t k v
    | None => false
    end
  else holds_onb 0 0 h t k v.

(* which parsed conditions are lock/birth assertions *)
Definition lock_of (c : condition) : option (kind * N) :=
  match c with
  | CAssertHeightRelative v => Some (KHeightRelative, v)
  | CAssertSecondsRelative v => Some (KSecondsRelative, v)
  | CAssertBeforeHeightRelative v => Some (KBeforeHeightRelative, v)
  | CAssertBeforeSecondsRelative v => Some (KBeforeSecondsRelative, v)
  | CAssertHeightAbsolute v => Some (KHeightAbsolute, v)
  | CAssertSecondsAbsolute v => Some (KSecondsAbsolute, v)
  | CAssertBeforeHeightAbsolute v => Some (KBeforeHeightAbsolute, v)
  | CAssertBeforeSecondsAbsolute v => Some (KBeforeSecondsAbsolute, v)
  | CAssertMyBirthHeight v => Some (KBirthHeight, v)
  | CAssertMyBirthSeconds v => Some (KBirthSeconds, v)
  | _ => None
  end.

Fixpoint locks_of (coin : bytes) (cs : list condition) : list assertion :=
  match cs with
  | [] => []
  | c :: r => match lock_of c with
              | Some (k, v) => (coin, k, v) :: locks_of coin r
              | None => locks_of coin r
              end
  end.

(* the opcode of each kind (Gen/Opcodes.v, translated from opcodes.rs on every run) *)
Definition kind_opcode (k : kind) : N :=
  match k with
  | KHeightRelative => ASSERT_HEIGHT_RELATIVE | KSecondsRelative => ASSERT_SECONDS_RELATIVE
  | KBeforeHeightRelative => ASSERT_BEFORE_HEIGHT_RELATIVE | KBeforeSecondsRelative => ASSERT_BEFORE_SECONDS_RELATIVE
  | KHeightAbsolute => ASSERT_HEIGHT_ABSOLUTE | KSecondsAbsolute => ASSERT_SECONDS_ABSOLUTE
  | KBeforeHeightAbsolute => ASSERT_BEFORE_HEIGHT_ABSOLUTE | KBeforeSecondsAbsolute => ASSERT_BEFORE_SECONDS_ABSOLUTE
  | KBirthHeight => ASSERT_MY_BIRTH_HEIGHT | KBirthSeconds => ASSERT_MY_BIRTH_SECONDS
  end.

(* is the kind a height (u32) or a seconds (u64) kind: the range of its argument and operands *)
Definition kind_is_height (k : kind) : bool :=
  match k with
  | KHeightRelative | KBeforeHeightRelative | KHeightAbsolute | KBeforeHeightAbsolute | KBirthHeight => true
  | _ => false
  end.
Definition kind_width (k : kind) : N := if kind_is_height k then U32 else U64.
Definition kind_size (k : kind) : nat := if kind_is_height k then 4%nat else 8%nat.

(* ---------- mirror of check_time_locks ---------- *)
Definition lock_add (W : N) (nowrap : bool) (a b : N) : N :=
  if nowrap then sat_add W a b else wrap_add W a b.

Definition ofails (o : option N) (bad : N -> bool) : bool :=
  match o with Some v => bad v | None => false end.

(* the body of `for spend in &bundle_conds.spends` *)
Definition check_spend (recs : coin_records) (h t : N) (nowrap : bool) (s : spend) : res unit :=
  match recs (sp_coin_id s) with
  | None => Err InvalidCoinId
  | Some (cbi, ts) =>
      if ofails (sp_birth_height s) (fun b => negb (b =? cbi)) then Err AssertMyBirthHeightFailed
      else if ofails (sp_birth_seconds s) (fun b => negb (b =? ts)) then Err AssertMyBirthSecondsFailed
      else if ofails (sp_height_relative s) (fun v => h <? lock_add U32 nowrap cbi v)
      then Err AssertHeightRelativeFailed
      else if ofails (sp_seconds_relative s) (fun v => t <? lock_add U64 nowrap ts v)
      then Err AssertSecondsRelativeFailed
      else if ofails (sp_before_height_relative s) (fun v => lock_add U32 nowrap cbi v <=? h)
      then Err AssertBeforeHeightRelativeFailed
      else if ofails (sp_before_seconds_relative s) (fun v => lock_add U64 nowrap ts v <=? t)
      then Err AssertBeforeSecondsRelativeFailed
      else Ok tt
  end.

Fixpoint check_spends (recs : coin_records) (h t : N) (nowrap : bool) (l : list spend) : res unit :=
  match l with
  | [] => Ok tt
  | s :: r => _ <- check_spend recs h t nowrap s ;; check_spends recs h t nowrap r
  end.

(* check_time_locks(removal_coin_records, bundle_conds, prev_transaction_block_height, timestamp, nowrap);
   [spends] is OwnedSpendBundleConditions.spends (in bundle order), [b] carries the bundle-wide fields *)
Definition check_time_locks (recs : coin_records) (b : bundle) (spends : list spend) (h t : N)
           (nowrap : bool) : res unit :=
  if h <? b_height_absolute b then Err AssertHeightAbsoluteFailed
  else if t <? b_seconds_absolute b then Err AssertSecondsAbsoluteFailed
  else if ofails (b_before_height_absolute b) (fun v => v <=? h) then Err AssertBeforeHeightAbsoluteFailed
  else if ofails (b_before_seconds_absolute b) (fun v => v <=? t) then Err AssertBeforeSecondsAbsoluteFailed
  else check_spends recs h t nowrap spends.

(* coin records given as an association list (runner; first entry wins) *)
Fixpoint recs_of_list (l : list (bytes * (N * N))) : coin_records :=
  fun id => match l with
            | [] => None
            | (k, v) :: r => if bytes_eqb id k then Some v else recs_of_list r id
            end.

(* ---------- the folds the theorems speak about ---------- *)
Section Folds.
  Variable valid_key : bytes -> bool.
  Variable H : bytes -> bytes.
  Variable K : consts.
  Variable fl : cflags.
  Variable V : visitor.

  (* the loop of parse_conditions on already-parsed conditions: Cond.Model.apply_condition iterated *)
  Fixpoint apply_all (st : lstate) (cs : list condition) : res lstate :=
    match cs with
    | [] => Ok st
    | c :: r => st' <- apply_condition valid_key K fl st c ;; apply_all st' r
    end.

  (* the condition Cond.Model.process_condition applies for one element of a condition list (if any):
     opcode recognised by parse_opcode and arguments accepted by parse_args *)
  Definition cond_of (c : sexp) : option condition :=
    match c with
    | Pair f c1 =>
        match parse_opcode f with
        | Some op => match parse_args fl c1 op with Ok cva => Some cva | Err _ => None end
        | None => None
        end
    | Atom _ => None
    end.

  Fixpoint conds_of (iter : sexp) : list condition :=
    match iter with
    | Pair c nxt => match cond_of c with Some x => x :: conds_of nxt | None => conds_of nxt end
    | Atom _ => []
    end.

  (* coin id of a spend tuple (parent puzzle_hash amount conditions ...), as process_single_spend computes it *)
  Definition spend_coin_id (sp : sexp) : bytes :=
    match sp with
    | Pair (Atom parent) (Pair (Atom ph) (Pair (Atom amount) _)) => H (parent ++ ph ++ amount)
    | _ => []
    end.
  Definition spend_conditions (sp : sexp) : sexp :=
    match sp with
    | Pair _ (Pair _ (Pair _ (Pair conds _))) => conds
    | _ => Atom []
    end.

  (* all lock/birth assertions of a spend list, read off the tree independently of any folding *)
  Fixpoint spends_assertions (iter : sexp) : list assertion :=
    match iter with
    | Pair sp nxt => locks_of (spend_coin_id sp) (conds_of (spend_conditions sp)) ++ spends_assertions nxt
    | Atom _ => []
    end.
  Fixpoint spends_coins (iter : sexp) : list bytes :=
    match iter with
    | Pair sp nxt => spend_coin_id sp :: spends_coins nxt
    | Atom _ => []
    end.
  Definition bundle_assertions (spends : sexp) : list assertion :=
    match spends with Pair iter _ => spends_assertions iter | Atom _ => [] end.
  Definition bundle_coins (spends : sexp) : list bytes :=
    match spends with Pair iter _ => spends_coins iter | Atom _ => [] end.
End Folds.

(* ---------- arguments outside the type's range ---------- *)
(* the integer an argument atom denotes (CLVM: big-endian two's complement; empty = 0) *)
Definition atom_val (b : bytes) : Z :=
  match b with
  | [] => 0%Z
  | b0 :: _ => if 128 <=? b2n b0 then (Z.of_N (be2n b) - 256 ^ Z.of_nat (length b))%Z else Z.of_N (be2n b)
  end.

(* the arithmetic definition for an arbitrary integer argument z, exact integer sums; chain-state
   values are of the type (0 <= cbi,h < 2^32, 0 <= ts,t < 2^64).  For 0 <= z < W it differs from
   [holds_on] only in that sums are not capped (see holdsZ_in_range_* in TimeLocksProofs.v). *)
Definition holdsZ (cbi ts h t : N) (k : kind) (z : Z) : Prop :=
  match k with
  | KHeightRelative => (Z.of_N cbi + z <= Z.of_N h)%Z
  | KSecondsRelative => (Z.of_N ts + z <= Z.of_N t)%Z
  | KBeforeHeightRelative => (Z.of_N h < Z.of_N cbi + z)%Z
  | KBeforeSecondsRelative => (Z.of_N t < Z.of_N ts + z)%Z
  | KHeightAbsolute => (z <= Z.of_N h)%Z
  | KSecondsAbsolute => (z <= Z.of_N t)%Z
  | KBeforeHeightAbsolute => (Z.of_N h < z)%Z
  | KBeforeSecondsAbsolute => (Z.of_N t < z)%Z
  | KBirthHeight => Z.of_N cbi = z
  | KBirthSeconds => Z.of_N ts = z
  end.

(* a chain state of the types, where every coin was confirmed no later than the previous
   transaction block (what the blockchain guarantees for a coin being spent) *)
Definition state_in_range (cbi ts h t : N) : Prop := cbi < U32 /\ h < U32 /\ ts < U64 /\ t < U64.
Definition coin_not_from_future (cbi ts h t : N) : Prop := cbi <= h /\ ts <= t.

(* a spend summary at the start of its condition list (new_spend): no lock field set yet *)
Definition no_lock_fields (s : spend) : Prop :=
  sp_height_relative s = None /\ sp_seconds_relative s = None /\ sp_before_height_relative s = None /\
  sp_before_seconds_relative s = None /\ sp_birth_height s = None /\ sp_birth_seconds s = None.

(* the parsed condition of a kind with an in-range argument *)
Definition cond_of_kind (k : kind) (v : N) : condition :=
  match k with
  | KHeightRelative => CAssertHeightRelative v | KSecondsRelative => CAssertSecondsRelative v
  | KBeforeHeightRelative => CAssertBeforeHeightRelative v | KBeforeSecondsRelative => CAssertBeforeSecondsRelative v
  | KHeightAbsolute => CAssertHeightAbsolute v | KSecondsAbsolute => CAssertSecondsAbsolute v
  | KBeforeHeightAbsolute => CAssertBeforeHeightAbsolute v | KBeforeSecondsAbsolute => CAssertBeforeSecondsAbsolute v
  | KBirthHeight => CAssertMyBirthHeight v | KBirthSeconds => CAssertMyBirthSeconds v
  end.

(* the rejection codes of parse_spends the property calls "impossible constraints" *)
Definition is_impossible (e : ecode) : bool :=
  match e with
  | ImpossibleSecondsRelativeConstraints | ImpossibleHeightRelativeConstraints
  | ImpossibleHeightAbsoluteConstraints | ImpossibleSecondsAbsoluteConstraints => true
  | _ => false
  end.

(* relative or birth condition, including one whose negative/oversized argument made it a no-op *)
Definition marks_relative (c : condition) : bool :=
  match c with
  | CSkipRelativeCondition => true
  | _ => match lock_of c with Some (k, _) => is_relative k | None => false end
  end.

(* ---------- concrete data of the examples / witnesses (Props/C03.v) ---------- *)
Definition ex_consts : consts :=
  {| c_me := []; c_parent := []; c_puzzle := []; c_amount := []; c_puzzle_amount := [];
     c_parent_amount := []; c_parent_puzzle := [] |}.
Definition ex_flags : cflags := flags_of_bits 0.
Definition ex_id : bytes := [x01].
Definition ex_state : lstate :=
  {| l_ret := empty_bundle; l_state := empty_state; l_spend := new_spend [] 1 [] ex_id 0;
     l_max_cost := 11000000000; l_countdown := ANNOUNCE_LIMIT; l_counter := 0 |}.
(* a coin confirmed at (height 10, time 100) *)
Definition ex_recs : coin_records := recs_of_list [(ex_id, (10, 100))].

(* a list with all ten kinds that the fold accepts and that holds in a chain state *)
Definition ex_conds : list condition :=
  [ CAssertHeightRelative 5; CAssertBeforeHeightRelative 20; CAssertSecondsRelative 50; CAssertBeforeSecondsRelative 5000;
    CAssertHeightAbsolute 15; CAssertBeforeHeightAbsolute 1000; CAssertSecondsAbsolute 900; CAssertBeforeSecondsAbsolute 2000;
    CAssertMyBirthHeight 10; CAssertMyBirthSeconds 100; CAssertHeightRelative 7; CAssertBeforeHeightAbsolute 30 ].

(* ---------- what parse_args does with an out-of-range argument, per kind ---------- *)
(* oversized (>= 2^32 / 2^64): the condition fails (true) or is a tautology that is skipped (false) *)
Definition oversize_fails (k : kind) : bool :=
  match k with
  | KBeforeHeightRelative | KBeforeSecondsRelative | KBeforeHeightAbsolute | KBeforeSecondsAbsolute => false
  | _ => true
  end.
(* negative: the condition fails (true) or is a tautology that is skipped (false) *)
Definition negative_fails (k : kind) : bool :=
  match k with
  | KHeightRelative | KSecondsRelative | KHeightAbsolute | KSecondsAbsolute => false
  | _ => true
  end.

(* ---------- the ephemeral rule, on the serialized bundle ---------- *)
(* the i-th spend tuple of a spend list *)
Fixpoint spend_nth (iter : sexp) (i : nat) : option sexp :=
  match iter, i with
  | Pair sp _, O => Some sp
  | Pair _ nxt, S j => spend_nth nxt j
  | Atom _, _ => None
  end.
(* coin id -> index of its spend (what ParseState.spent_coins holds after the loop; last spend first) *)
Fixpoint spent_index (H : bytes -> bytes) (iter : sexp) (n : nat) (acc : list (bytes * nat)) : list (bytes * nat) :=
  match iter with
  | Pair sp nxt => spent_index H nxt (S n) ((spend_coin_id H sp, n) :: acc)
  | Atom _ => acc
  end.

(* ---------- concrete serialized bundles for the examples (Props/C03.v) ---------- *)
Definition ex_list (l : list sexp) : sexp := fold_right Pair (Atom []) l.
Definition ex_cond (op : N) (args : list sexp) : sexp := Pair (Atom [n2b op]) (ex_list args).
Definition ex_spend (parent ph amount : bytes) (conds : list sexp) : sexp :=
  ex_list [Atom parent; Atom ph; Atom amount; ex_list conds].
Definition ex_p1 : bytes := repeat_byte 32 x11.
Definition ex_ph1 : bytes := repeat_byte 32 x22.
Definition ex_ph2 : bytes := repeat_byte 32 x33.
(* one spend (amount 10) with relative, absolute and birth assertions *)
Definition ex_bundle (H : bytes -> bytes) : sexp :=
  Pair (ex_list [ ex_spend ex_p1 ex_ph1 [x0a]
                    [ ex_cond ASSERT_HEIGHT_RELATIVE [Atom [x05]]; ex_cond ASSERT_BEFORE_SECONDS_ABSOLUTE [Atom [x07; xd0]];
                      ex_cond ASSERT_MY_BIRTH_HEIGHT [Atom [x0a]]; ex_cond ASSERT_HEIGHT_RELATIVE [Atom [x07]] ] ])
       (Atom []).
(* a parent (amount 10) creating a coin (ex_ph2, 5) and the spend of that coin in the same bundle, which
   carries [conds] *)
Definition ex_eph_bundle (H : bytes -> bytes) (conds : list sexp) : sexp :=
  Pair (ex_list [ ex_spend ex_p1 ex_ph1 [x0a] [ ex_cond CREATE_COIN [Atom ex_ph2; Atom [x05]] ];
                  ex_spend (H (ex_p1 ++ ex_ph1 ++ [x0a])) ex_ph2 [x05] conds ])
       (Atom []).
Definition ex_coin : bytes := sha256 (ex_p1 ++ ex_ph1 ++ [x0a]).
