(* Locks/FoldProofs.v — C03, proof layer 1: the lock fields of the summaries as small records,
   the fold of conditions.rs as pure functions (step_s / step_a / fold_lk), their arithmetic against the
   saturating definition, and Cond.Model.apply_condition refines them (run / runerr chains). *)
From ChiaV.Base Require Import Bytes.
From ChiaV.Clvm Require Import Sexp Ints.
From ChiaV.Gen Require Import Opcodes.
From ChiaV.Cond Require Import Model.
From ChiaV.Locks Require Import TimeLocks.
From Coq Require Import ZifyBool ZifyNat ZifyN.
Ltac Zify.zify_post_hook ::= Z.div_mod_to_equations.
Open Scope N_scope.

(* ---------- projections: the lock fields of the summaries ---------- *)
Record slocks := { l_hr : option N; l_sr : option N; l_bhr : option N; l_bsr : option N;
                   l_bh : option N; l_bs : option N }.
Record alocks := { a_ha : N; a_sa : N; a_bha : option N; a_bsa : option N }.

Definition proj_s (s : spend) : slocks :=
  {| l_hr := sp_height_relative s; l_sr := sp_seconds_relative s; l_bhr := sp_before_height_relative s;
     l_bsr := sp_before_seconds_relative s; l_bh := sp_birth_height s; l_bs := sp_birth_seconds s |}.
Definition proj_a (b : bundle) : alocks :=
  {| a_ha := b_height_absolute b; a_sa := b_seconds_absolute b; a_bha := b_before_height_absolute b;
     a_bsa := b_before_seconds_absolute b |}.

Definition no_locks : slocks := {| l_hr := None; l_sr := None; l_bhr := None; l_bsr := None; l_bh := None; l_bs := None |}.

Definition oall (P : N -> Prop) (o : option N) : Prop := match o with Some v => P v | None => True end.

Definition sok (cbi ts h t : N) (L : slocks) : Prop :=
  oall (holds_on cbi ts h t KBirthHeight) (l_bh L) /\ oall (holds_on cbi ts h t KBirthSeconds) (l_bs L) /\
  oall (holds_on cbi ts h t KHeightRelative) (l_hr L) /\ oall (holds_on cbi ts h t KSecondsRelative) (l_sr L) /\
  oall (holds_on cbi ts h t KBeforeHeightRelative) (l_bhr L) /\ oall (holds_on cbi ts h t KBeforeSecondsRelative) (l_bsr L).

Definition aok (h t : N) (A : alocks) : Prop :=
  a_ha A <= h /\ a_sa A <= t /\ oall (fun v => h < v) (a_bha A) /\ oall (fun v => t < v) (a_bsa A).

(* a spend's summary passes: its coin has a record and the folded fields hold on it *)
Definition s_ok (recs : coin_records) (h t : N) (id : bytes) (L : slocks) : Prop :=
  exists cbi ts, recs id = Some (cbi, ts) /\ sok cbi ts h t L.

Definition spend_ok (recs : coin_records) (h t : N) (s : spend) : Prop := s_ok recs h t (sp_coin_id s) (proj_s s).

Lemma ofails_false o bad (P : N -> Prop) :
  (forall v, bad v = false <-> P v) -> (ofails o bad = false <-> oall P o).
Proof. intros Hb. destruct o; cbn; [apply Hb | tauto]. Qed.

Lemma check_spend_iff recs h t s : check_spend recs h t true s = Ok tt <-> spend_ok recs h t s.
Proof.
  unfold check_spend, spend_ok, s_ok.
  destruct (recs (sp_coin_id s)) as [[cbi ts]|].
  2:{ split; [discriminate | intros (? & ? & ? & _); discriminate]. }
  assert (E1 := ofails_false (sp_birth_height s) (fun b => negb (b =? cbi)) (holds_on cbi ts h t KBirthHeight)).
  assert (E2 := ofails_false (sp_birth_seconds s) (fun b => negb (b =? ts)) (holds_on cbi ts h t KBirthSeconds)).
  assert (E3 := ofails_false (sp_height_relative s) (fun v => h <? lock_add U32 true cbi v) (holds_on cbi ts h t KHeightRelative)).
  assert (E4 := ofails_false (sp_seconds_relative s) (fun v => t <? lock_add U64 true ts v) (holds_on cbi ts h t KSecondsRelative)).
  assert (E5 := ofails_false (sp_before_height_relative s) (fun v => lock_add U32 true cbi v <=? h) (holds_on cbi ts h t KBeforeHeightRelative)).
  assert (E6 := ofails_false (sp_before_seconds_relative s) (fun v => lock_add U64 true ts v <=? t) (holds_on cbi ts h t KBeforeSecondsRelative)).
  cbn [holds_on lock_add] in *.
  unfold sok; cbn [proj_s l_hr l_sr l_bhr l_bsr l_bh l_bs holds_on].
  split.
  - intros Hc. exists cbi, ts. split; [reflexivity|].
    destruct (ofails (sp_birth_height s) _) eqn:F1; [discriminate|].
    destruct (ofails (sp_birth_seconds s) _) eqn:F2; [discriminate|].
    destruct (ofails (sp_height_relative s) _) eqn:F3; [discriminate|].
    destruct (ofails (sp_seconds_relative s) _) eqn:F4; [discriminate|].
    destruct (ofails (sp_before_height_relative s) _) eqn:F5; [discriminate|].
    destruct (ofails (sp_before_seconds_relative s) _) eqn:F6; [discriminate|].
    repeat split; [apply E1|apply E2|apply E3|apply E4|apply E5|apply E6]; auto; intros; lia.
  - intros (c & s' & Heq & H1 & H2 & H3 & H4 & H5 & H6). inversion Heq; subst c s'.
    apply E1 in H1; [|intros; lia]. apply E2 in H2; [|intros; lia]. apply E3 in H3; [|intros; lia].
    apply E4 in H4; [|intros; lia]. apply E5 in H5; [|intros; lia]. apply E6 in H6; [|intros; lia].
    rewrite H1, H2, H3, H4, H5, H6. reflexivity.
Qed.

Lemma check_spends_iff recs h t l : check_spends recs h t true l = Ok tt <-> Forall (spend_ok recs h t) l.
Proof.
  induction l as [|s r IH]; cbn [check_spends].
  - split; auto.
  - destruct (check_spend recs h t true s) as [[]|e] eqn:E; cbn [bind].
    + rewrite IH. split; [intros; constructor; auto; now apply check_spend_iff | intros X; now inversion X].
    + split; [discriminate|]. intros X; inversion X as [|? ? Hs _]; subst. apply check_spend_iff in Hs. congruence.
Qed.

Definition bundle_ok (recs : coin_records) (h t : N) (b : bundle) (spends : list spend) : Prop :=
  aok h t (proj_a b) /\ Forall (spend_ok recs h t) spends.

Lemma check_time_locks_iff recs b spends h t :
  check_time_locks recs b spends h t true = Ok tt <-> bundle_ok recs h t b spends.
Proof.
  unfold check_time_locks, bundle_ok, aok; cbn [proj_a a_ha a_sa a_bha a_bsa].
  assert (E3 := ofails_false (b_before_height_absolute b) (fun v => v <=? h) (fun v => h < v)).
  assert (E4 := ofails_false (b_before_seconds_absolute b) (fun v => v <=? t) (fun v => t < v)).
  destruct (h <? b_height_absolute b) eqn:F1.
  { split; [discriminate | intros [(? & _) _]; lia]. }
  destruct (t <? b_seconds_absolute b) eqn:F2.
  { split; [discriminate | intros [(_ & ? & _) _]; lia]. }
  destruct (ofails (b_before_height_absolute b) _) eqn:F3.
  { split; [discriminate | intros [(_ & _ & X & _) _]]. apply E3 in X; [congruence | intros; lia]. }
  destruct (ofails (b_before_seconds_absolute b) _) eqn:F4.
  { split; [discriminate | intros [(_ & _ & _ & X) _]]. apply E4 in X; [congruence | intros; lia]. }
  rewrite check_spends_iff.
  assert (X3 : oall (fun v => h < v) (b_before_height_absolute b)) by (apply E3; [intros; lia | reflexivity]).
  assert (X4 : oall (fun v => t < v) (b_before_seconds_absolute b)) by (apply E4; [intros; lia | reflexivity]).
  split; [intros; repeat split; auto; lia | tauto].
Qed.

(* ---------- the fold as pure functions on the projections ---------- *)
Definition step_s (L : slocks) (k : kind) (v : N) : res slocks :=
  match k with
  | KHeightRelative =>
      let L' := {| l_hr := omax (l_hr L) v; l_sr := l_sr L; l_bhr := l_bhr L; l_bsr := l_bsr L; l_bh := l_bh L; l_bs := l_bs L |} in
      match l_bhr L with Some b => if b <=? v then Err ImpossibleHeightRelativeConstraints else Ok L' | None => Ok L' end
  | KSecondsRelative =>
      let L' := {| l_hr := l_hr L; l_sr := omax (l_sr L) v; l_bhr := l_bhr L; l_bsr := l_bsr L; l_bh := l_bh L; l_bs := l_bs L |} in
      match l_bsr L with Some b => if b <=? v then Err ImpossibleSecondsRelativeConstraints else Ok L' | None => Ok L' end
  | KBeforeHeightRelative =>
      let L' := {| l_hr := l_hr L; l_sr := l_sr L; l_bhr := omin (l_bhr L) v; l_bsr := l_bsr L; l_bh := l_bh L; l_bs := l_bs L |} in
      match l_hr L with Some a => if v <=? a then Err ImpossibleHeightRelativeConstraints else Ok L' | None => Ok L' end
  | KBeforeSecondsRelative =>
      let L' := {| l_hr := l_hr L; l_sr := l_sr L; l_bhr := l_bhr L; l_bsr := omin (l_bsr L) v; l_bh := l_bh L; l_bs := l_bs L |} in
      match l_sr L with Some a => if v <=? a then Err ImpossibleSecondsRelativeConstraints else Ok L' | None => Ok L' end
  | KBirthHeight =>
      let L' := {| l_hr := l_hr L; l_sr := l_sr L; l_bhr := l_bhr L; l_bsr := l_bsr L; l_bh := Some v; l_bs := l_bs L |} in
      match l_bh L with Some e => if e =? v then Ok L' else Err AssertMyBirthHeightFailed | None => Ok L' end
  | KBirthSeconds =>
      let L' := {| l_hr := l_hr L; l_sr := l_sr L; l_bhr := l_bhr L; l_bsr := l_bsr L; l_bh := l_bh L; l_bs := Some v |} in
      match l_bs L with Some e => if e =? v then Ok L' else Err AssertMyBirthSecondsFailed | None => Ok L' end
  | _ => Ok L
  end.

Definition step_a (A : alocks) (k : kind) (v : N) : alocks :=
  match k with
  | KHeightAbsolute => {| a_ha := N.max (a_ha A) v; a_sa := a_sa A; a_bha := a_bha A; a_bsa := a_bsa A |}
  | KSecondsAbsolute => {| a_ha := a_ha A; a_sa := N.max (a_sa A) v; a_bha := a_bha A; a_bsa := a_bsa A |}
  | KBeforeHeightAbsolute => {| a_ha := a_ha A; a_sa := a_sa A; a_bha := omin (a_bha A) v; a_bsa := a_bsa A |}
  | KBeforeSecondsAbsolute => {| a_ha := a_ha A; a_sa := a_sa A; a_bha := a_bha A; a_bsa := omin (a_bsa A) v |}
  | _ => A
  end.

(* ---------- arithmetic: max/min folding against the saturating definition ---------- *)
Lemma sat_add_mono W a b c : b <= c -> sat_add W a b <= sat_add W a c.
Proof. unfold sat_add. lia. Qed.

Lemma oall_omax (P : N -> Prop) o v :
  (forall a b, P (N.max a b) <-> P a /\ P b) -> (oall P (omax o v) <-> oall P o /\ P v).
Proof. intros HP. destruct o; cbn; [apply HP | tauto]. Qed.
Lemma oall_omin (P : N -> Prop) o v :
  (forall a b, P (N.min a b) <-> P a /\ P b) -> (oall P (omin o v) <-> oall P o /\ P v).
Proof. intros HP. destruct o; cbn; [apply HP | tauto]. Qed.

Lemma step_s_abs L k v : is_relative k = false -> step_s L k v = Ok L.
Proof. destruct k; cbn; intros; congruence. Qed.
Lemma step_a_rel A k v : is_relative k = true -> step_a A k v = A.
Proof. destruct k; cbn; intros; congruence. Qed.

Lemma step_s_sem cbi ts h t L k v L' :
  is_relative k = true -> step_s L k v = Ok L' ->
  (sok cbi ts h t L' <-> sok cbi ts h t L /\ holds_on cbi ts h t k v).
Proof.
  intros Hk Hs. destruct L as [hr sr bhr bsr bh bs].
  destruct k; try discriminate Hk; cbn [step_s l_hr l_sr l_bhr l_bsr l_bh l_bs] in Hs.
  - assert (L' = {| l_hr := omax hr v; l_sr := sr; l_bhr := bhr; l_bsr := bsr; l_bh := bh; l_bs := bs |})
      by (destruct bhr; [destruct (_ <=? _)|]; congruence). subst L'.
    unfold sok; cbn [l_hr l_sr l_bhr l_bsr l_bh l_bs].
    rewrite (oall_omax (holds_on cbi ts h t KHeightRelative)); [tauto|].
    intros; cbn [holds_on]; unfold sat_add; lia.
  - assert (L' = {| l_hr := hr; l_sr := omax sr v; l_bhr := bhr; l_bsr := bsr; l_bh := bh; l_bs := bs |})
      by (destruct bsr; [destruct (_ <=? _)|]; congruence). subst L'.
    unfold sok; cbn [l_hr l_sr l_bhr l_bsr l_bh l_bs].
    rewrite (oall_omax (holds_on cbi ts h t KSecondsRelative)); [tauto|].
    intros; cbn [holds_on]; unfold sat_add; lia.
  - assert (L' = {| l_hr := hr; l_sr := sr; l_bhr := omin bhr v; l_bsr := bsr; l_bh := bh; l_bs := bs |})
      by (destruct hr; [destruct (_ <=? _)|]; congruence). subst L'.
    unfold sok; cbn [l_hr l_sr l_bhr l_bsr l_bh l_bs].
    rewrite (oall_omin (holds_on cbi ts h t KBeforeHeightRelative)); [tauto|].
    intros; cbn [holds_on]; unfold sat_add; lia.
  - assert (L' = {| l_hr := hr; l_sr := sr; l_bhr := bhr; l_bsr := omin bsr v; l_bh := bh; l_bs := bs |})
      by (destruct sr; [destruct (_ <=? _)|]; congruence). subst L'.
    unfold sok; cbn [l_hr l_sr l_bhr l_bsr l_bh l_bs].
    rewrite (oall_omin (holds_on cbi ts h t KBeforeSecondsRelative)); [tauto|].
    intros; cbn [holds_on]; unfold sat_add; lia.
  - unfold sok; destruct bh as [e|]; [destruct (e =? v) eqn:E; [|discriminate]|]; inversion Hs; subst L';
      cbn [l_hr l_sr l_bhr l_bsr l_bh l_bs oall holds_on]; [assert (e = v) by lia; subst|]; tauto.
  - unfold sok; destruct bs as [e|]; [destruct (e =? v) eqn:E; [|discriminate]|]; inversion Hs; subst L';
      cbn [l_hr l_sr l_bhr l_bsr l_bh l_bs oall holds_on]; [assert (e = v) by lia; subst|]; tauto.
Qed.

(* any rejection by the per-spend fold contradicts the assertions folded so far *)
Lemma step_s_err cbi ts h t L k v e :
  step_s L k v = Err e -> sok cbi ts h t L -> ~ holds_on cbi ts h t k v.
Proof.
  intros Hs (H1 & H2 & H3 & H4 & H5 & H6). destruct L as [hr sr bhr bsr bh bs].
  cbn [l_hr l_sr l_bhr l_bsr l_bh l_bs] in *.
  destruct k; cbn [step_s l_hr l_sr l_bhr l_bsr l_bh l_bs] in Hs; try discriminate Hs; cbn [holds_on].
  - destruct bhr as [b|]; [|discriminate]. destruct (b <=? v) eqn:E; [|discriminate].
    cbn [oall holds_on] in H5. assert (X := sat_add_mono U32 cbi b v). lia.
  - destruct bsr as [b|]; [|discriminate]. destruct (b <=? v) eqn:E; [|discriminate].
    cbn [oall holds_on] in H6. assert (X := sat_add_mono U64 ts b v). lia.
  - destruct hr as [a|]; [|discriminate]. destruct (v <=? a) eqn:E; [|discriminate].
    cbn [oall holds_on] in H3. assert (X := sat_add_mono U32 cbi v a). lia.
  - destruct sr as [a|]; [|discriminate]. destruct (v <=? a) eqn:E; [|discriminate].
    cbn [oall holds_on] in H4. assert (X := sat_add_mono U64 ts v a). lia.
  - destruct bh as [b|]; [|discriminate]. destruct (b =? v) eqn:E; [discriminate|].
    cbn [oall holds_on] in H1. lia.
  - destruct bs as [b|]; [|discriminate]. destruct (b =? v) eqn:E; [discriminate|].
    cbn [oall holds_on] in H2. lia.
Qed.

Lemma step_a_sem h t A k v :
  is_relative k = false -> (aok h t (step_a A k v) <-> aok h t A /\ holds_on 0 0 h t k v).
Proof.
  intros Hk. destruct A as [ha sa bha bsa]. destruct k; try discriminate Hk;
    unfold aok; cbn [step_a a_ha a_sa a_bha a_bsa holds_on].
  - split; [intros (? & ? & ? & ?) | intros ((? & ? & ? & ?) & ?)]; repeat split; auto; lia.
  - split; [intros (? & ? & ? & ?) | intros ((? & ? & ? & ?) & ?)]; repeat split; auto; lia.
  - rewrite (oall_omin (fun v => h < v)); [tauto | intros; lia].
  - rewrite (oall_omin (fun v => t < v)); [tauto | intros; lia].
Qed.

(* ---------- apply_condition acts on the lock fields exactly as step_s / step_a ---------- *)
Definition lk (st : lstate) : slocks * alocks * bytes * list spend :=
  (proj_s (l_spend st), proj_a (l_ret st), sp_coin_id (l_spend st), b_spends_rev (l_ret st)).

Lemma lk_mark_not_ephemeral st : lk (mark_not_ephemeral st) = lk st.
Proof. unfold mark_not_ephemeral. destruct (sp_has_relative (l_spend st)); reflexivity. Qed.

Lemma lk_charge st c st' : charge st c = Ok st' -> lk st' = lk st.
Proof. unfold charge. destruct (_ <? _); [discriminate|]. intros E; inversion E; reflexivity. Qed.
Lemma charge_err st c e : charge st c = Err e -> e = CostExceeded.
Proof. unfold charge. destruct (_ <? _); congruence. Qed.
Lemma lk_decrement fl st st' : decrement fl st = Ok st' -> lk st' = lk st.
Proof.
  unfold decrement. destruct (f_cost_conds fl); [intros E; inversion E; reflexivity|].
  destruct (_ =? _); [discriminate|]. intros E; inversion E; reflexivity.
Qed.
Lemma decrement_err fl st e : decrement fl st = Err e -> e = TooManyAnnouncements.
Proof. unfold decrement. destruct (f_cost_conds fl); [discriminate|]. destruct (_ =? _); congruence. Qed.
Lemma lk_push_pair fl st pk msg : lk (push_pair fl st pk msg) = lk st.
Proof. unfold push_pair. destruct (f_dont_validate fl); reflexivity. Qed.
Lemma spend_id_from_self_err m a b c d e : spend_id_from_self m a b c d = Err e -> e = InvalidMessageMode.
Proof. unfold spend_id_from_self. repeat (destruct (_ =? _); [discriminate|]). congruence. Qed.

Lemma apply_condition_lock vk K fl st c k v :
  lock_of c = Some (k, v) ->
  match step_s (proj_s (l_spend st)) k v with
  | Ok L' => exists st', apply_condition vk K fl st c = Ok st' /\
               lk st' = (L', step_a (proj_a (l_ret st)) k v, sp_coin_id (l_spend st), b_spends_rev (l_ret st))
  | Err e => apply_condition vk K fl st c = Err e
  end.
Proof.
  intros Hl. destruct c; try discriminate Hl; cbn [lock_of] in Hl; inversion Hl; subst k v; clear Hl;
    cbn [step_s apply_condition proj_s l_hr l_sr l_bhr l_bsr l_bh l_bs].
  all: try (eexists; split; [reflexivity|]; reflexivity).
  all: repeat match goal with
       | |- context [match ?o with Some _ => _ | None => _ end] => destruct o eqn:?
       | |- context [if ?b then _ else _] => destruct b eqn:?
       end; try reflexivity;
       (eexists; split; [reflexivity|]; rewrite lk_mark_not_ephemeral; reflexivity).
Qed.


Lemma check_unsafe_err K msg e : check_agg_sig_unsafe_message K msg = Err e -> e = InvalidMessage.
Proof. unfold check_agg_sig_unsafe_message. destruct (Nat.ltb _ _); [discriminate|]. destruct (existsb _ _); congruence. Qed.

Ltac split_binds E :=
  repeat match type of E with
  | context [if ?b then _ else _] => destruct b eqn:?
  | bind ?r _ = _ => let D := fresh "D" in destruct r eqn:D; cbn [bind] in E
  end.

Lemma apply_condition_other vk K fl st c :
  lock_of c = None ->
  (forall st', apply_condition vk K fl st c = Ok st' -> lk st' = lk st) /\
  (forall e, apply_condition vk K fl st c = Err e ->
     is_impossible e = false /\ e <> AssertMyBirthHeightFailed /\ e <> AssertMyBirthSecondsFailed).
Proof.
  intros Hl. destruct c; try discriminate Hl; clear Hl; cbn [apply_condition]; split; intros x E.
  all: split_binds E; try discriminate E.
  all: try (inversion E; subst; clear E;
            rewrite ?lk_push_pair, ?lk_mark_not_ephemeral;
            first [ reflexivity
                  | match goal with D : decrement _ _ = Ok ?s1 |- _ =>
                      transitivity (lk s1); [reflexivity | eapply lk_decrement; eassumption] end
                  | repeat split; discriminate ]).
  all: try (apply lk_charge in E; exact E).
  all: try (apply charge_err in E; subst; repeat split; discriminate).
  all: try match goal with D : decrement _ _ = Err _ |- _ => apply decrement_err in D; inversion E; subst; repeat split; discriminate end.
  all: try match goal with D : spend_id_from_self _ _ _ _ _ = Err _ |- _ => apply spend_id_from_self_err in D; inversion E; subst; repeat split; discriminate end.
  all: try match goal with D : check_agg_sig_unsafe_message _ _ = Err _ |- _ => apply check_unsafe_err in D; inversion E; subst; repeat split; discriminate end.

Qed.

(* ---------- the pure fold over (kind, value) pairs ---------- *)
Fixpoint kvs_of (cs : list condition) : list (kind * N) :=
  match cs with
  | [] => []
  | c :: r => match lock_of c with Some kv => kv :: kvs_of r | None => kvs_of r end
  end.
Definition tag (coin : bytes) (kv : kind * N) : assertion := (coin, fst kv, snd kv).

Lemma locks_of_kvs coin cs : locks_of coin cs = map (tag coin) (kvs_of cs).
Proof.
  induction cs as [|c r IH]; cbn [locks_of kvs_of map]; [reflexivity|].
  destruct (lock_of c) as [[k v]|]; cbn [map]; rewrite IH; reflexivity.
Qed.

Fixpoint fold_lk (L : slocks) (A : alocks) (ks : list (kind * N)) : res (slocks * alocks) :=
  match ks with
  | [] => Ok (L, A)
  | (k, v) :: r => match step_s L k v with Ok L' => fold_lk L' (step_a A k v) r | Err e => Err e end
  end.

Definition holds_abs (h t : N) (a : assertion) : Prop :=
  let '(_, k, v) := a in is_relative k = false -> holds_on 0 0 h t k v.
Definition holds_rel (recs : coin_records) (h t : N) (a : assertion) : Prop :=
  let '(_, k, _) := a in is_relative k = true -> holds recs h t a.

Lemma holds_split recs h t a : holds recs h t a <-> holds_abs h t a /\ holds_rel recs h t a.
Proof.
  destruct a as [[coin k] v]. unfold holds_abs, holds_rel, holds.
  destruct (is_relative k).
  - split; [intros X; split; [intros; discriminate | auto] | intros [_ Y]; apply Y; reflexivity].
  - split; [intros X; split; [auto | intros; discriminate] | intros [X _]; apply X; reflexivity].
Qed.

Lemma Forall_holds_split recs h t l :
  Forall (holds recs h t) l <-> Forall (holds_abs h t) l /\ Forall (holds_rel recs h t) l.
Proof.
  induction l as [|a r IH].
  - split; auto.
  - split.
    + intros X; inversion X; subst. apply holds_split in H1. apply IH in H2. split; constructor; tauto.
    + intros [X Y]; inversion X; inversion Y; subst. constructor; [apply holds_split; tauto | apply IH; tauto].
Qed.

Lemma s_ok_step recs h t id L k v L' :
  step_s L k v = Ok L' ->
  (s_ok recs h t id L' <-> s_ok recs h t id L /\ holds_rel recs h t (id, k, v)).
Proof.
  intros Hs. unfold s_ok, holds_rel, holds.
  destruct (is_relative k) eqn:Hk.
  - split.
    + intros (cbi & ts & Hr & Hok). apply (step_s_sem cbi ts h t L k v L' Hk Hs) in Hok.
      split; [exists cbi, ts; tauto | intros _; rewrite Hr; tauto].
    + intros ((cbi & ts & Hr & Hok) & Hh). specialize (Hh eq_refl). rewrite Hr in Hh.
      exists cbi, ts. split; [exact Hr|]. apply (step_s_sem cbi ts h t L k v L' Hk Hs). tauto.
  - rewrite step_s_abs in Hs by exact Hk. inversion Hs; subst. split; [intros X; split; [exact X | discriminate] | tauto].
Qed.

Lemma aok_step h t A k v (id : bytes) : aok h t (step_a A k v) <-> aok h t A /\ holds_abs h t (id, k, v).
Proof.
  unfold holds_abs. destruct (is_relative k) eqn:Hk.
  - rewrite step_a_rel by exact Hk. split; [intros X; split; [exact X | discriminate] | tauto].
  - rewrite (step_a_sem h t A k v Hk). split; [tauto | intros [X Y]; split; auto].
Qed.

Lemma fold_lk_ok ks : forall L A L' A', fold_lk L A ks = Ok (L', A') ->
  forall recs h t id,
    (aok h t A' <-> aok h t A /\ Forall (holds_abs h t) (map (tag id) ks)) /\
    (s_ok recs h t id L' <-> s_ok recs h t id L /\ Forall (holds_rel recs h t) (map (tag id) ks)).
Proof.
  induction ks as [|[k v] r IH]; intros L A L' A' Hf recs h t id; cbn [fold_lk map] in *.
  - inversion Hf; subst. split; (split; [intros; split; auto | tauto]).
  - destruct (step_s L k v) as [L1|e] eqn:Hs; [|discriminate].
    destruct (IH _ _ _ _ Hf recs h t id) as [IA IS]. split.
    + rewrite IA, (aok_step h t A k v id). unfold tag at 2; cbn [fst snd]. split.
      * intros ((X & Y) & Z). split; [exact X|]. constructor; [exact Y | exact Z].
      * intros (X & Z). inversion Z; subst. split; [split|]; assumption.
    + rewrite IS, (s_ok_step recs h t id L k v L1 Hs). unfold tag at 2; cbn [fst snd]. split.
      * intros ((X & Y) & Z). split; [exact X|]. constructor; [exact Y | exact Z].
      * intros (X & Z). inversion Z; subst. split; [split|]; assumption.
Qed.

(* any rejection of the fold means the relative/birth assertions seen so far cannot all hold *)
Lemma fold_lk_err ks : forall L A e, fold_lk L A ks = Err e ->
  forall recs h t id, (forall cbi ts, recs id = Some (cbi, ts) -> sok cbi ts h t L) ->
  ~ Forall (holds_rel recs h t) (map (tag id) ks).
Proof.
  induction ks as [|[k v] r IH]; intros L A e Hf recs h t id Hw; cbn [fold_lk map] in *; [discriminate|].
  intros HF; inversion HF as [|? ? Hh Hr]; subst. unfold tag in Hh; cbn [fst snd] in Hh.
  destruct (step_s L k v) as [L1|e1] eqn:Hs.
  - apply (IH _ _ _ Hf recs h t id); [|exact Hr].
    intros cbi ts Hrec. destruct (is_relative k) eqn:Hk.
    + apply (step_s_sem cbi ts h t L k v L1 Hk Hs). split; [eauto|].
      unfold holds_rel, holds in Hh. rewrite Hk, Hrec in Hh. auto.
    + rewrite step_s_abs in Hs by exact Hk. inversion Hs; subst; eauto.
  - inversion Hf; subst e1. unfold holds_rel, holds in Hh.
    destruct (is_relative k) eqn:Hk.
    + specialize (Hh eq_refl). destruct (recs id) as [[cbi ts]|] eqn:Hrec; [|exact Hh].
      exact (step_s_err cbi ts h t L k v e Hs (Hw cbi ts eq_refl) Hh).
    + rewrite step_s_abs in Hs by exact Hk. discriminate.
Qed.

Lemma lk_inv st' L A i sp : lk st' = (L, A, i, sp) ->
  proj_s (l_spend st') = L /\ proj_a (l_ret st') = A /\ sp_coin_id (l_spend st') = i /\ b_spends_rev (l_ret st') = sp.
Proof.
  unfold lk. intros E. repeat split.
  - apply (f_equal (fun x => fst (fst (fst x)))) in E. exact E.
  - apply (f_equal (fun x => snd (fst (fst x)))) in E. exact E.
  - apply (f_equal (fun x => snd (fst x))) in E. exact E.
  - apply (f_equal snd) in E. exact E.
Qed.

(* ---------- apply_all (Cond.Model.apply_condition iterated) refines the pure fold ---------- *)
Lemma apply_all_sim vk K fl cs : forall st,
  match fold_lk (proj_s (l_spend st)) (proj_a (l_ret st)) (kvs_of cs) with
  | Ok (L', A') => forall st', apply_all vk K fl st cs = Ok st' ->
        lk st' = (L', A', sp_coin_id (l_spend st), b_spends_rev (l_ret st))
  | Err e => exists e', apply_all vk K fl st cs = Err e'
  end.
Proof.
  induction cs as [|c r IH]; intros st; cbn [kvs_of fold_lk apply_all].
  - intros st' E; inversion E; reflexivity.
  - destruct (lock_of c) as [[k v]|] eqn:Hl.
    + cbn [fold_lk]. assert (X := apply_condition_lock vk K fl st c k v Hl).
      destruct (step_s (proj_s (l_spend st)) k v) as [L1|e1] eqn:Hs.
      * destruct X as (st1 & E1 & Hlk). rewrite E1; cbn [bind].
        specialize (IH st1). apply lk_inv in Hlk. destruct Hlk as (P1 & P2 & P3 & P4).
        rewrite P1, P2 in IH. destruct (fold_lk L1 _ (kvs_of r)) as [[L' A']|e]; [|exact IH].
        intros st' E. rewrite (IH st' E). congruence.
      * rewrite X. cbn [bind]. eauto.
    + destruct (apply_condition_other vk K fl st c Hl) as [HO HE].
      destruct (apply_condition vk K fl st c) as [st1|e1] eqn:E1; cbn [bind].
      * specialize (HO st1 eq_refl). specialize (IH st1). apply lk_inv in HO. destruct HO as (P1 & P2 & P3 & P4).
        rewrite P1, P2 in IH. destruct (fold_lk _ _ (kvs_of r)) as [[L' A']|e]; [|exact IH].
        intros st' E. rewrite (IH st' E). congruence.
      * destruct (fold_lk _ _ (kvs_of r)) as [[L' A']|e]; [discriminate | eauto].
Qed.

Section Runs.
  Variable vk : bytes -> bool.
  Variable K : consts.
  Variable fl : cflags.

  (* a chain of apply_condition steps, with lock-neutral steps in between (cost charging, visitor) *)
  Inductive run : lstate -> list condition -> lstate -> Prop :=
  | run_nil st st' : lk st' = lk st -> run st [] st'
  | run_cons st st1 st2 c r st' :
      lk st1 = lk st -> apply_condition vk K fl st1 c = Ok st2 -> run st2 r st' -> run st (c :: r) st'.

  (* ... that ends in the rejection e of some condition *)
  Inductive runerr : lstate -> list condition -> ecode -> Prop :=
  | runerr_here st st1 c r e : lk st1 = lk st -> apply_condition vk K fl st1 c = Err e -> runerr st (c :: r) e
  | runerr_later st st1 st2 c r e :
      lk st1 = lk st -> apply_condition vk K fl st1 c = Ok st2 -> runerr st2 r e -> runerr st (c :: r) e.

  Lemma run_lk_l st0 st cs st' : lk st = lk st0 -> run st cs st' -> run st0 cs st'.
  Proof.
    intros E R. inversion R; subst.
    - apply run_nil. etransitivity; eassumption.
    - eapply run_cons; [|eassumption|eassumption]. etransitivity; eassumption.
  Qed.
  Lemma runerr_lk_l st0 st cs e : lk st = lk st0 -> runerr st cs e -> runerr st0 cs e.
  Proof.
    intros E R. inversion R; subst.
    - eapply runerr_here; [|eassumption]. etransitivity; eassumption.
    - eapply runerr_later; [|eassumption|eassumption]. etransitivity; eassumption.
  Qed.

  Definition lk_of (st : lstate) (LA : slocks * alocks) : slocks * alocks * bytes * list spend :=
    (fst LA, snd LA, sp_coin_id (l_spend st), b_spends_rev (l_ret st)).

  Lemma lk_proj st st' : lk st' = lk st ->
    proj_s (l_spend st') = proj_s (l_spend st) /\ proj_a (l_ret st') = proj_a (l_ret st) /\
    sp_coin_id (l_spend st') = sp_coin_id (l_spend st) /\ b_spends_rev (l_ret st') = b_spends_rev (l_ret st).
  Proof. intros E. apply (lk_inv st'). exact E. Qed.

  Lemma run_sim st cs st' : run st cs st' ->
    exists LA, fold_lk (proj_s (l_spend st)) (proj_a (l_ret st)) (kvs_of cs) = Ok LA /\ lk st' = lk_of st LA.
  Proof.
    induction 1 as [st st' E | st st1 st2 c r st' E1 EA R IH].
    - cbn [kvs_of fold_lk]. eexists; split; [reflexivity|]. exact E.
    - cbn [kvs_of]. apply lk_proj in E1. destruct E1 as (Q1 & Q2 & Q3 & Q4).
      destruct IH as (LA & HF & HL).
      destruct (lock_of c) as [[k v]|] eqn:Hl.
      + cbn [fold_lk]. assert (X := apply_condition_lock vk K fl st1 c k v Hl).
        rewrite Q1 in X. destruct (step_s (proj_s (l_spend st)) k v) as [L1|e1] eqn:Hs.
        * destruct X as (st2' & E2 & Hlk). rewrite EA in E2. inversion E2; subst st2'.
          apply lk_inv in Hlk. destruct Hlk as (P1 & P2 & P3 & P4).
          rewrite P1, P2, Q2 in HF. exists LA. split; [exact HF|].
          rewrite HL. unfold lk_of. congruence.
        * congruence.
      + destruct (apply_condition_other vk K fl st1 c Hl) as [HO _].
        specialize (HO st2 EA). apply lk_proj in HO. destruct HO as (P1 & P2 & P3 & P4).
        rewrite P1, P2, Q1, Q2 in HF. exists LA. split; [exact HF|].
        rewrite HL. unfold lk_of. congruence.
  Qed.

  Definition lock_reject (e : ecode) : Prop :=
    is_impossible e = true \/ e = AssertMyBirthHeightFailed \/ e = AssertMyBirthSecondsFailed.

  Lemma runerr_sim st cs e : runerr st cs e -> lock_reject e ->
    fold_lk (proj_s (l_spend st)) (proj_a (l_ret st)) (kvs_of cs) = Err e.
  Proof.
    induction 1 as [st st1 c r e E1 EA | st st1 st2 c r e E1 EA R IH]; intros He;
      cbn [kvs_of]; apply lk_proj in E1; destruct E1 as (Q1 & Q2 & Q3 & Q4).
    - destruct (lock_of c) as [[k v]|] eqn:Hl.
      + cbn [fold_lk]. assert (X := apply_condition_lock vk K fl st1 c k v Hl).
        rewrite Q1 in X. destruct (step_s (proj_s (l_spend st)) k v) as [L1|e1] eqn:Hs.
        * destruct X as (st2' & E2 & _). congruence.
        * congruence.
      + destruct (apply_condition_other vk K fl st1 c Hl) as [_ HE].
        destruct (HE e EA) as (N1 & N2 & N3). destruct He as [He|[He|He]]; congruence.
    - specialize (IH He).
      destruct (lock_of c) as [[k v]|] eqn:Hl.
      + cbn [fold_lk]. assert (X := apply_condition_lock vk K fl st1 c k v Hl).
        rewrite Q1 in X. destruct (step_s (proj_s (l_spend st)) k v) as [L1|e1] eqn:Hs.
        * destruct X as (st2' & E2 & Hlk). rewrite EA in E2. inversion E2; subst st2'.
          apply lk_inv in Hlk. destruct Hlk as (P1 & P2 & P3 & P4).
          rewrite P1, P2, Q2 in IH. exact IH.
        * congruence.
      + destruct (apply_condition_other vk K fl st1 c Hl) as [HO _].
        specialize (HO st2 EA). apply lk_proj in HO. destruct HO as (P1 & P2 & P3 & P4).
        rewrite P1, P2, Q1, Q2 in IH. exact IH.
  Qed.

  (* apply_all is such a chain *)
  Lemma apply_all_run cs : forall st st', apply_all vk K fl st cs = Ok st' -> run st cs st'.
  Proof.
    induction cs as [|c r IH]; intros st st' E; cbn [apply_all] in E.
    - inversion E; subst. apply run_nil. reflexivity.
    - destruct (apply_condition vk K fl st c) as [st2|e] eqn:EA; cbn [bind] in E; [|discriminate].
      eapply run_cons; [reflexivity | exact EA | apply IH; exact E].
  Qed.
  Lemma apply_all_runerr cs : forall st e, apply_all vk K fl st cs = Err e -> runerr st cs e.
  Proof.
    induction cs as [|c r IH]; intros st e E; cbn [apply_all] in E; [discriminate|].
    destruct (apply_condition vk K fl st c) as [st2|e1] eqn:EA; cbn [bind] in E.
    - eapply runerr_later; [reflexivity | exact EA | apply IH; exact E].
    - inversion E; subst. eapply runerr_here; [reflexivity | exact EA].
  Qed.
End Runs.
