(* Bundle/BuilderConsensus.v — "the returned cost equals the cost consensus charges", interned builder.
   For every history from new() in which the overflow-checking build does not panic (C10_interned_never_overflows: never,
   given the size hypotheses) and every ACCEPTED attempt's declared cost is truthful (execution cost of its puzzles + cost of
   their conditions, nothing for storage: the API contract of add_spend_bundles; [truthful_mempool]: it is what the mempool
   path reports minus its base cost), the total returned by finalize is the cost run_block_generator2 (INTERNED_GENERATOR)
   reports for the finalized generator whenever it accepts it, and it accepts it exactly when the mempool path accepts the
   concatenation of the accepted bundles as ONE bundle ([interned_consensus_accept] spells out the cross-bundle conditions).
   Ingredients: interned_history_spec (total = interned size cost + 20 + declared), agree_full_same_interned (C08, same tree
   interned on both paths, + 20), rsb_core_reported (mempool cost = base + execution + condition costs, additive over spends). *)
From ChiaV.Base Require Import Bytes.
From ChiaV.Clvm Require Import Sexp Ints TreeHash.
From ChiaV.Gen Require Import Opcodes Ladders Builder.
From ChiaV.Cond Require Import Model Invariants Syntax Declarative.
From ChiaV.Bundle Require Import SolutionGen Interned SpendBundle BlockPath Builder BuilderExec InternedProofs BuilderProofs AgreeProofs OrderProofs OrderFullProofs.
From Coq Require Import Permutation ZifyBool ZifyNat ZifyN.
Open Scope N_scope.

Lemma cons_list_nil l : cons_list l nil = list_to_sexp l.
Proof. induction l as [|x l IH]; cbn; [reflexivity|now rewrite IH]. Qed.

Lemma costs_app (a b : list ipair) : costs (a ++ b) = costs a + costs b.
Proof. unfold costs. rewrite map_app. apply sumN_app. Qed.
Lemma parsed_app (a b : list ipair) : parsed (a ++ b) = parsed a ++ parsed b.
Proof. unfold parsed. apply map_app. Qed.
Lemma total_cost_app fl a b : total_cost fl (a ++ b) = total_cost fl a + total_cost fl b.
Proof. unfold total_cost. rewrite map_app. apply sumN_app. Qed.

Lemma items_of_good H spends : Forall (good_spend H) spends -> items_of spends = Some (map the_item spends).
Proof.
  induction 1 as [|s r Hs Hr IH]; [reflexivity|].
  destruct (good_parts H s Hs) as (p & sol & _ & _ & _ & Hi).
  cbn [items_of map]. rewrite Hi, IH. unfold the_item. now rewrite Hi.
Qed.

Section Consensus.
  Variable Sig : Type.
  Variable sig_one : Sig.
  Variable sig_mul : Sig -> Sig -> Sig.
  Variable valid_key : bytes -> bool.
  Variable H : bytes -> bytes.
  Variable K : consts.
  Variable run : sexp -> sexp -> N -> res (N * sexp).
  Variable sig_ok : list (bytes * bytes) -> bool.
  Variable cpb maxc : N.
  Variable fl : bflags.
  Variable gen_args : sexp.
  Hypothesis Hquote : forall x args budget,
    run (Pair (Atom [x01]) x) args budget = if budget <? 20 then Err CostExceeded else Ok (20, x).
  Hypothesis Hrun : forall p s,
    (exists c r, forall b, run p s b = (if b <? c then Err CostExceeded else Ok (c, r))) \/
    (forall b, exists e, run p s b = Err e).
  Hypothesis Hsig : forall l l', Permutation l l' -> sig_ok l = sig_ok l'.
  Hypothesis Hi : bf_interned fl = true.

  Notation cfl := (bf_cond fl).
  Notation sdata := (spend_data H run fl).

  Definition att_spends (a : iattempt Sig) : list cspend := batch_spends Sig (ia_bundles Sig a).
  Definition all_spends (acc : list (iattempt Sig)) : list cspend := concat (map att_spends acc).

  (* the declared cost of an attempt is TRUTHFUL: the execution cost of its puzzles (the run oracle's) plus the cost of their
     conditions, and nothing for storage.  [truthful_mempool] below: this is what run_spendbundle reports for the batch
     minus its base (storage) cost *)
  Definition truthful (a : iattempt Sig) : Prop :=
    exists LL, Forall2 sdata (att_spends a) LL /\ ia_cost Sig a = costs LL + total_cost cfl (parsed LL).

  Lemma truthful_mempool L base max_cost r :
    rsb_core valid_key H K run fl base L max_cost = Ok r ->
    exists LL, Forall2 sdata L LL /\ b_cost (fst (fst r)) = base + (costs LL + total_cost cfl (parsed LL)).
  Proof.
    intros E. destruct (rsb_core_reported valid_key H K run fl Hrun base L max_cost r E) as (LL & F & (P1 & _)).
    exists LL. split; assumption.
  Qed.

  Lemma content_items acc :
    Forall (good_spend H) (all_spends acc) ->
    i_content Sig acc [] = rev (map the_item (all_spends acc)).
  Proof.
    assert (G : forall acc items0, Forall (good_spend H) (all_spends acc) ->
                i_content Sig acc items0 = rev (map the_item (all_spends acc)) ++ items0).
    { clear acc. induction acc as [|a acc IH]; intros items0 Hall; [reflexivity|].
      unfold all_spends in *. cbn [map concat] in *. apply Forall_app in Hall. destruct Hall as [Ha Hr].
      unfold i_content. cbn [fold_left]. fold (i_content Sig acc (rev (the_items Sig a) ++ items0)).
      rewrite (IH _ Hr). unfold the_items. fold (att_spends a). rewrite (items_of_good H _ Ha).
      rewrite map_app, rev_app_distr, <- app_assoc. reflexivity. }
    intros Hall. rewrite (G acc [] Hall). apply app_nil_r.
  Qed.

  Lemma declared_sum acc :
    Forall truthful acc ->
    exists LL, Forall2 sdata (all_spends acc) LL /\ i_declared Sig acc = costs LL + total_cost cfl (parsed LL).
  Proof.
    induction 1 as [|a acc (LLa & Fa & Ea) Hr (LL & F & E)].
    - exists []. split; [constructor|reflexivity].
    - exists (LLa ++ LL). unfold all_spends. cbn [map concat]. split; [now apply Forall2_app|].
      unfold i_declared. cbn [fold_right]. fold (i_declared Sig acc).
      rewrite E, Ea, costs_app, parsed_app, total_cost_app. lia.
  Qed.

  Theorem interned_consensus_cost h st rs :
    maxc + I_MIN_COST_THRESHOLD < U64 ->
    I_INITIAL_BLOCK_COST + WRAPPER_VBYTES * cpb <= maxc ->
    run_hist (i_step Sig sig_one sig_mul (checked_cfg cpb maxc)) (i_init Sig sig_one) h = (st, rs) ->
    ~ In RPanic rs ->
    let acc := accepted h rs in
    let S := all_spends acc in
    Forall (good_spend H) S -> N.of_nat (length S) <= MAX_SPENDS_PER_BLOCK -> Forall truthful acc ->
    exists gen total,
      i_finalize Sig (checked_cfg cpb maxc) st = IFOk Sig gen (i_sigs Sig sig_one sig_mul acc sig_one) total /\
      build_generator S = Some gen /\
      forall program max_cost, ser gen = Some program ->
        match mempool_path valid_key H K run sig_ok cpb fl S max_cost,
              run_block_generator2 valid_key H K run sig_ok cpb fl gen_args program (nlen program) (max_cost + 20) with
        | Ok m, Ok b => agree_full 20 b m /\ b_cost (fst (fst b)) = total
        | Err _, Err _ => True
        | _, _ => False
        end.
  Proof.
    intros Hmax Hfit Hrun' Hnp acc S Hgood Hlen Htr.
    destruct (interned_history_spec Sig sig_one sig_mul cpb maxc Hmax Hfit h st rs Hrun' Hnp) as (F1 & _).
    fold acc in F1.
    set (gen := wrap_generator (list_to_sexp (i_content Sig acc []))) in *.
    set (total := interned_vbytes gen * cpb + (I_INITIAL_BLOCK_COST + i_declared Sig acc)) in *.
    assert (Hgen : build_generator S = Some gen).
    { unfold build_generator. rewrite (prepend_good H S nil Hgood). unfold gen. rewrite cons_list_nil.
      fold S in Hgood. now rewrite (content_items acc Hgood). }
    exists gen, total. split; [exact F1|]. split; [exact Hgen|].
    intros program max_cost Hser.
    pose proof (agree_full_same_interned valid_key H K run sig_ok cpb fl gen_args Hquote Hrun Hsig S gen program max_cost
                  Hgood Hi Hlen Hgen Hser) as A.
    destruct (mempool_path valid_key H K run sig_ok cpb fl S max_cost) as [m|] eqn:Em;
      destruct (run_block_generator2 _ _ _ _ _ _ _ _ _ _ _) as [b|]; try exact A.
    split; [exact A|].
    destruct A as ((Hc & _) & _).
    (* the mempool path's cost for the concatenated bundle *)
    rewrite (mempool_path_interned valid_key H K run sig_ok cpb fl S gen max_cost Hi Hgen) in Em.
    assert (Ecore : rsb_core valid_key H K run fl (interned_vbytes gen * cpb) S max_cost = Ok m).
    { unfold mempool_core, check_signature, bind in Em. destruct (f_dont_validate cfl); [exact Em|].
      destruct (rsb_core _ _ _ _ _ _ _ _) as [m0|]; [|discriminate]. destruct (sig_ok (snd m0)); [congruence|discriminate]. }
    destruct (truthful_mempool _ _ _ _ Ecore) as (LL & F & Ec).
    destruct (declared_sum acc Htr) as (LL' & F' & Ed). fold S in F'.
    assert (LL' = LL) by (eapply (Forall2_fun _ (spend_data_fun valid_key H run fl Hrun)); eassumption). subst LL'.
    rewrite Hc, Ec. unfold total. rewrite Ed. assert (I_INITIAL_BLOCK_COST = 20) by reflexivity. lia.
  Qed.

  (* when does consensus accept the finalized generator?  Exactly when the CONCATENATION of the accepted bundles is acceptable
     as one bundle: the cross-bundle conditions are the clauses of [IRules] over all spends together (no coin spent twice across
     bundles, announcements / messages / concurrent-spend assertions / ephemeral coins resolved over the union, value and
     absolute locks of the union, total cost within the budget) -- per-bundle validity does not imply them *)
  Theorem interned_consensus_accept S gen program max_cost :
    f_dont_validate cfl = true ->
    Forall (good_spend H) S -> N.of_nat (length S) <= MAX_SPENDS_PER_BLOCK ->
    build_generator S = Some gen -> ser gen = Some program ->
    ((exists b, run_block_generator2 valid_key H K run sig_ok cpb fl gen_args program (nlen program) (max_cost + 20) = Ok b) <->
     interned_vbytes gen * cpb <= max_cost /\
     (f_limit_spends cfl = true -> N.of_nat (length S) <= MAX_SPENDS_PER_BLOCK) /\
     exists LL, Forall2 sdata S LL /\ IRules valid_key H K cfl LL (max_cost - interned_vbytes gen * cpb)).
  Proof.
    intros Hdv Hgood Hlen Hgen Hser.
    pose proof (agree_full_same_interned valid_key H K run sig_ok cpb fl gen_args Hquote Hrun Hsig S gen program max_cost
                  Hgood Hi Hlen Hgen Hser) as A.
    rewrite (mempool_path_interned valid_key H K run sig_ok cpb fl S gen max_cost Hi Hgen) in A.
    unfold mempool_core in A. rewrite Hdv in A.
    rewrite <- (rsb_core_iff valid_key H K run fl Hrun (interned_vbytes gen * cpb) S max_cost).
    destruct (rsb_core _ _ _ _ _ _ _ _) as [m|]; destruct (run_block_generator2 _ _ _ _ _ _ _ _ _ _ _) as [b|]; try contradiction.
    - split; intros _; eexists; reflexivity.
    - split; intros [x Hx]; discriminate.
  Qed.
End Consensus.

(* non-vacuity of [truthful]: one bundle, one spend of amount 1 with puzzle (q . ()) and solution (), the quote-only oracle,
   a constant 32-byte "hash", flags = INTERNED_GENERATOR only: the truthful declared cost is 20 *)
Definition nv_H (_ : bytes) : bytes := repeat_byte 32 x00.
Definition nv_fl : bflags := bflags_of_bits FLAG_INTERNED_GENERATOR.
Definition nv_spend : cspend :=
  {| cs_parent := repeat_byte 32 x07; cs_ph := repeat_byte 32 x00; cs_amount := 1; cs_puzzle := [xff; x01; x80]; cs_solution := [x80] |}.
Definition nv_attempt : iattempt xsig := {| ia_bundles := [ {| sb_spends := [nv_spend]; sb_sig := [] |} ]; ia_cost := 20 |}.

Lemma truthful_inhabited : truthful xsig nv_H quote_run nv_fl nv_attempt.
Proof.
  unfold truthful, att_spends, nv_attempt, batch_spends. cbn [ia_bundles map sb_spends concat app ia_cost].
  eexists [(20, _)]. split.
  - constructor; [|constructor]. unfold spend_data. cbn [fst snd].
    exists (Pair (Atom [x01]) nil), nil, nil. do 5 eexists. repeat split; try reflexivity.
  - vm_compute. reflexivity.
Qed.
