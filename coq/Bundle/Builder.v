(* Bundle/Builder.v — mirrors of the two block builders
     chia-consensus/src/build_compressed_block.rs   BlockBuilder          (c_init / c_step / c_cost / c_finalize)
     chia-consensus/src/build_interned_block.rs     InternedBlockBuilder  (i_init / i_step / i_cost / i_finalize)
   Definitions only.

   u64 / u32 arithmetic is written EXPLICITLY: every `+`, `*`, `+=` of the Rust code is a [wadd]/[wmul] in
   one of two modes: [Wrap] (release build: result mod 2^64) and [Checked] (overflow-checks build: panic).
   A panic leaves behind exactly the state the Rust code has mutated up to that point (the object survives a
   panic caught by the caller, e.g. pyo3's PanicException), so [step] always returns a state.
   `assert!`s are [Panic] outcomes.  Signatures are elements of an abstract commutative monoid (Section).

   Compressed builder: clvmr's incremental back-reference [Serializer] is an ORACLE, a Section interface with
   the operations the builder calls (add at the sentinel, restore, size, the finishing add of nil, into_inner);
   what is assumed about it is stated in BuilderProofs.v (serializer hypotheses), nothing here.
   [hint] is whatever the interface needs per add to be executable (unit for the real serializer; the recorded
   size when the model is executed against recorded values).
   Interned builder: sizes are [Interned.interned_vbytes].

   Abstract content of a builder = the list of spend items in the order in which they appear in the spend list of
   the generator it will emit.  Within one attempt spends are prepended one by one (reversed); the compressed
   builder puts a later attempt AFTER the earlier ones (the sentinel is the tail), the interned builder BEFORE.

   Simplifications: reveals/solutions are parsed with the plain parser (no back-references inside reveals);
   allocator failures are not modelled; `ser.add` of a spend list never reports `done` because the list's tail is
   the sentinel (so `done ||` in the last test is dropped). *)
From ChiaV.Base Require Import Bytes.
From ChiaV.Clvm Require Import Sexp Ints.
From ChiaV.Gen Require Import Builder.
From ChiaV.Bundle Require Import SolutionGen Interned.
Open Scope N_scope.

Inductive amode := Wrap | Checked.

Definition U64 : N := 2 ^ 64.
Definition U32 : N := 2 ^ 32.

(* None = arithmetic overflow panic *)
Definition wadd (m : amode) (modulus a b : N) : option N :=
  if a + b <? modulus then Some (a + b)
  else match m with Wrap => Some ((a + b) mod modulus) | Checked => None end.

Definition wmul (m : amode) (modulus a b : N) : option N :=
  if a * b <? modulus then Some (a * b)
  else match m with Wrap => Some ((a * b) mod modulus) | Checked => None end.

Definition obind {A B} (o : option A) (f : A -> option B) : option B :=
  match o with Some a => f a | None => None end.

(* a + b + c and a + b + c + d, left to right *)
Definition add3 (m : amode) (a b c : N) : option N := obind (wadd m U64 a b) (fun x => wadd m U64 x c).
Definition add4 (m : amode) (a b c d : N) : option N := obind (add3 m a b c) (fun x => wadd m U64 x d).

Record bcfg := {
  c_mode : amode;
  c_cpb : N;            (* constants.cost_per_byte *)
  c_max : N             (* constants.max_block_cost_clvm *)
}.

(* outcome of one add_spend_bundles call *)
Inductive result :=
| RAdded (done : bool)        (* Ok((true, Done | KeepGoing)) *)
| RRejected (done : bool)     (* Ok((false, Done | KeepGoing)) *)
| RErr                        (* Err(..): a reveal or solution does not parse *)
| RPanic.

Definition is_added (r : result) : bool := match r with RAdded _ => true | _ => false end.

Section Builders.
  Variable Sig : Type.
  Variable sig_one : Sig.                       (* Signature::default() *)
  Variable sig_mul : Sig -> Sig -> Sig.         (* aggregate *)

  Record sbundle := { sb_spends : list cspend; sb_sig : Sig }.

  (* the items of a batch in processing order; None = a parse error somewhere in the batch *)
  Fixpoint items_of (spends : list cspend) : option (list sexp) :=
    match spends with
    | [] => Some []
    | s :: r =>
        match item_of s with
        | None => None
        | Some i => match items_of r with Some l => Some (i :: l) | None => None end
        end
    end.

  Definition batch_spends (bundles : list sbundle) : list cspend := concat (map sb_spends bundles).
  Definition batch_sig (bundles : list sbundle) : Sig := fold_left (fun acc b => sig_mul acc (sb_sig b)) bundles sig_one.

  Definition result_of (max_skipped num_skipped : N) : bool := max_skipped <? num_skipped.   (* true = Done *)

  (* ================================================================ compressed builder *)
  Section Compressed.
    Variable sstate : Type.                                    (* clvmr Serializer *)
    Variable hint : Type.
    Variable s_add : sstate -> hint -> list sexp -> sstate.   (* add(list of the items, reversed, tail = sentinel) *)
    Variable s_restore : sstate -> sstate -> sstate.          (* [s_restore after before]: restore(undo taken in [before]) *)
    Variable s_size : sstate -> N.
    Variable s_finish : sstate -> sstate.                     (* add(nil): closes the two lists *)
    Variable s_output : sstate -> bytes.                      (* into_inner *)

    Record cattempt := { ca_bundles : list sbundle; ca_cost : N; ca_hint : hint }.

    Record cstate := {
      cb_ser : sstate; cb_sig : Sig; cb_block_cost : N; cb_byte_cost : N; cb_skipped : N
    }.

    Definition c_init (s0 : sstate) : cstate :=
      {| cb_ser := s0; cb_sig := sig_one; cb_block_cost := C_INITIAL_BLOCK_COST; cb_byte_cost := 0; cb_skipped := 0 |}.

    Definition c_with (st : cstate) ser bc skipped : cstate :=
      {| cb_ser := ser; cb_sig := cb_sig st; cb_block_cost := cb_block_cost st; cb_byte_cost := bc; cb_skipped := skipped |}.

    Variable cfg : bcfg.
    Let m := c_mode cfg.
    Let cpb := c_cpb cfg.
    Let maxc := c_max cfg.

    (* (self.ser.size() + 2) * constants.cost_per_byte *)
    Definition byte_cost_of (s : sstate) : option N :=
      obind (wadd m U64 (s_size s) C_CLOSING_BYTES) (fun x => wmul m U64 x cpb).

    (* self.num_skipped += 1; Ok((false, result(self.num_skipped))) *)
    Definition c_skip (st : cstate) (ser : sstate) (bc : N) (force_done : bool) : cstate * result :=
      match wadd m U32 (cb_skipped st) 1 with
      | None => (c_with st ser bc (cb_skipped st), RPanic)
      | Some k => (c_with st ser bc k, RRejected (force_done || result_of C_MAX_SKIPPED_ITEMS k))
      end.

    (* [guard] = the test `cost > constants.max_block_cost_clvm ||` in front of the second sum (commit "fix: block
       builders reject a declared cost above the block limit before summing").  [c_step] below is the code as it is;
       guard = false is the code BEFORE that fix, kept only for the documentation witnesses of BuilderRefuted.v. *)
    Definition c_step_gen (guard : bool) (st : cstate) (a : cattempt) : cstate * result :=
      let cost := ca_cost a in
      match add3 m (cb_byte_cost st) (cb_block_cost st) C_MIN_COST_THRESHOLD with
      | None => (st, RPanic)
      | Some t1 =>
          if maxc <? t1 then c_skip st (cb_ser st) (cb_byte_cost st) true
          else if guard && (maxc <? cost) then c_skip st (cb_ser st) (cb_byte_cost st) false   (* `||` short-circuits *)
          else
            match add3 m (cb_byte_cost st) (cb_block_cost st) cost with
            | None => (st, RPanic)
            | Some t2 =>
                if maxc <? t2 then c_skip st (cb_ser st) (cb_byte_cost st) false
                else
                  match items_of (batch_spends (ca_bundles a)) with
                  | None => (st, RErr)
                  | Some items =>
                      let ser1 := s_add (cb_ser st) (ca_hint a) items in
                      match byte_cost_of ser1 with
                      | None => (c_with st ser1 (cb_byte_cost st) (cb_skipped st), RPanic)
                      | Some bc1 =>
                          let st1 := c_with st ser1 bc1 (cb_skipped st) in
                          match add3 m bc1 (cb_block_cost st) cost with
                          | None => (st1, RPanic)
                          | Some t3 =>
                              if maxc <? t3 then
                                let ser2 := s_restore ser1 (cb_ser st) in
                                match byte_cost_of ser2 with
                                | None => (c_with st ser2 bc1 (cb_skipped st), RPanic)
                                | Some bc2 => c_skip st ser2 bc2 false
                                end
                              else
                                match wadd m U64 (cb_block_cost st) cost with
                                | None => (st1, RPanic)
                                | Some blk =>
                                    let st2 := {| cb_ser := ser1; cb_sig := sig_mul (cb_sig st) (batch_sig (ca_bundles a));
                                                  cb_block_cost := blk; cb_byte_cost := bc1; cb_skipped := cb_skipped st |} in
                                    match add3 m bc1 blk C_MIN_COST_THRESHOLD with
                                    | None => (st2, RPanic)
                                    | Some t4 => (st2, RAdded (maxc <? t4))
                                    end
                                end
                          end
                      end
                  end
            end
      end.

    Definition c_step := c_step_gen C_DECLARED_COST_GUARD.       (* Gen/Builder.v: the translator insists on the guard *)
    Definition c_step_prefix := c_step_gen false.

    (* cost(): None = overflow panic *)
    Definition c_cost (st : cstate) : option N := wadd m U64 (cb_byte_cost st) (cb_block_cost st).

    Inductive cfin := CFOk (generator : bytes) (sig : Sig) (cost : N) | CFPanic.

    Definition c_finalize (st : cstate) : cfin :=
      let ser1 := s_finish (cb_ser st) in              (* assert!(done): a serializer hypothesis, see BuilderProofs.v *)
      match obind (wmul m U64 (s_size ser1) cpb) (fun bc => wadd m U64 (cb_block_cost st) bc) with
      | None => CFPanic
      | Some total =>
          if maxc <? total then CFPanic                (* assert!(self.block_cost <= constants.max_block_cost_clvm) *)
          else CFOk (s_output ser1) (cb_sig st) total
      end.
  End Compressed.

  (* ================================================================ interned builder *)
  Section Interned.
    Record iattempt := { ia_bundles : list sbundle; ia_cost : N }.

    Record istate := {
      ib_items : list sexp; ib_sig : Sig; ib_block_cost : N; ib_byte_cost : N; ib_skipped : N
    }.

    Definition i_init : istate :=
      {| ib_items := []; ib_sig := sig_one; ib_block_cost := I_INITIAL_BLOCK_COST; ib_byte_cost := 0; ib_skipped := 0 |}.

    Variable cfg : bcfg.
    Let m := c_mode cfg.
    Let cpb := c_cpb cfg.
    Let maxc := c_max cfg.

    (* spend_vbytes: interned_vbytes(&interned) + COST_CONS *)
    Definition spend_vbytes (item : sexp) : option N := wadd m U64 (interned_vbytes item) COST_CONS.

    Inductive batch_res := BOk (items : list sexp) (new_byte_cost : N) | BErr | BPanic.

    (* the double loop: per spend `new_byte_cost += Self::spend_vbytes(spend)? * self.cost_per_byte`, then the item *)
    Fixpoint i_batch (spends : list cspend) (items_rev : list sexp) (nbc : N) : batch_res :=
      match spends with
      | [] => BOk (rev items_rev) nbc
      | s :: r =>
          match item_of s with
          | None => BErr
          | Some item =>
              match obind (obind (spend_vbytes item) (fun v => wmul m U64 v cpb)) (fun c => wadd m U64 nbc c) with
              | None => BPanic
              | Some nbc' => i_batch r (item :: items_rev) nbc'
              end
          end
      end.

    Definition i_skip (st : istate) : istate * result :=
      match wadd m U32 (ib_skipped st) 1 with
      | None => (st, RPanic)
      | Some k => ({| ib_items := ib_items st; ib_sig := ib_sig st; ib_block_cost := ib_block_cost st;
                      ib_byte_cost := ib_byte_cost st; ib_skipped := k |},
                   RRejected (result_of I_MAX_SKIPPED_ITEMS k))
      end.

    (* [guard]: `cost > self.max_block_cost ||` in front of the second sum; see c_step_gen *)
    Definition i_step_gen (guard : bool) (st : istate) (a : iattempt) : istate * result :=
      let cost := ia_cost a in
      match wmul m U64 WRAPPER_VBYTES cpb with
      | None => (st, RPanic)
      | Some wrapper =>
          match add4 m (ib_byte_cost st) wrapper (ib_block_cost st) I_MIN_COST_THRESHOLD with
          | None => (st, RPanic)
          | Some t1 =>
              if maxc <? t1 then (st, RRejected true)            (* NOT counted as a skip *)
              else if guard && (maxc <? cost) then i_skip st
              else
                match add4 m (ib_byte_cost st) wrapper (ib_block_cost st) cost with
                | None => (st, RPanic)
                | Some t2 =>
                    if maxc <? t2 then i_skip st
                    else
                      match i_batch (batch_spends (ia_bundles a)) [] 0 with
                      | BErr => (st, RErr)
                      | BPanic => (st, RPanic)
                      | BOk items nbc =>
                          match wadd m U64 (ib_byte_cost st) nbc with
                          | None => (st, RPanic)
                          | Some total =>
                              match add4 m total wrapper (ib_block_cost st) cost with
                              | None => (st, RPanic)
                              | Some t3 =>
                                  if maxc <? t3 then i_skip st       (* allocator restored to the checkpoint *)
                                  else
                                    match wadd m U64 (ib_block_cost st) cost with
                                    | None =>
                                        (* byte_cost and spend_list are already assigned *)
                                        ({| ib_items := rev items ++ ib_items st; ib_sig := ib_sig st;
                                            ib_block_cost := ib_block_cost st; ib_byte_cost := total;
                                            ib_skipped := ib_skipped st |}, RPanic)
                                    | Some blk =>
                                        let st2 := {| ib_items := rev items ++ ib_items st;
                                                      ib_sig := sig_mul (ib_sig st) (batch_sig (ia_bundles a));
                                                      ib_block_cost := blk; ib_byte_cost := total;
                                                      ib_skipped := ib_skipped st |} in
                                        match add4 m total wrapper blk I_MIN_COST_THRESHOLD with
                                        | None => (st2, RPanic)
                                        | Some t4 => (st2, RAdded (maxc <? t4))
                                        end
                                    end
                              end
                          end
                      end
                end
          end
      end.

    Definition i_step := i_step_gen I_DECLARED_COST_GUARD.
    Definition i_step_prefix := i_step_gen false.

    (* self.byte_cost + WRAPPER_VBYTES * self.cost_per_byte + self.block_cost *)
    Definition i_cost (st : istate) : option N :=
      obind (wmul m U64 WRAPPER_VBYTES cpb) (fun w =>
      obind (wadd m U64 (ib_byte_cost st) w) (fun x => wadd m U64 x (ib_block_cost st))).

    Definition i_generator (st : istate) : sexp := wrap_generator (list_to_sexp (ib_items st)).

    (* the emitted bytes are node_to_bytes_backrefs(root) (clvmr's compressor, an oracle): the mirror returns the tree *)
    Inductive ifin := IFOk (generator : sexp) (sig : Sig) (cost : N) | IFPanic.

    Definition i_finalize (st : istate) : ifin :=
      let root := i_generator st in
      match obind (wmul m U64 (interned_vbytes root) cpb) (fun bc => wadd m U64 bc (ib_block_cost st)) with
      | None => IFPanic
      | Some total =>
          if maxc <? total then IFPanic                  (* assert!(total_cost <= self.max_block_cost) *)
          else IFOk root (ib_sig st) total
      end.
  End Interned.

  (* ================================================================ histories *)
  (* fold a step function over a list of attempts, stopping at the first panic (what a caller sees) *)
  Fixpoint run_hist {S A} (step : S -> A -> S * result) (st : S) (l : list A) : S * list result :=
    match l with
    | [] => (st, [])
    | a :: r =>
        let '(st', res) := step st a in
        match res with
        | RPanic => (st', [RPanic])
        | _ => let '(st'', rs) := run_hist step st' r in (st'', res :: rs)
        end
    end.
End Builders.
