(* Bundle/AgreeProofs.v — the mempool path (run_spendbundle / validate_clvm_and_signature) and the block path
   (run_block_generator2 on the plain serialization of build_generator) agree: same accept/reject decision, same
   conditions, cost offset = 20 + QUOTE_BYTES * cost_per_byte, execution cost offset = 20.
   Structure:
     1. erasure: forget the two mempool-only flag bits of a spend (ELIGIBLE_FOR_FF / _DEDUP) and the two bundle
        fields the callers maintain (cost, execution cost); process_single_spend commutes with erasure whatever the
        visitor ([pss_rel]) — this is "the visitor is irrelevant";
     2. execution cost is preserved and the budget only decreases through process_single_spend;
     3. the two spend loops correspond on the same spends in the same order ([loops_rel]); the WrongPuzzleHash check is
        void under "declared hash = tree hash", extract_n succeeds on items built by build_generator, the nil
        terminator check passes;
     4. the frames around the loops ([agree_rev]): serializer round trip, length predictor, quote oracle, base costs.
   The generator lists the spends of a bundle in REVERSE order, so the theorem relates the block path of a bundle to
   the mempool path of the reversed bundle; equality for the same bundle additionally needs the permutation
   invariance of the spend loop (property C06, unit cond). *)
From ChiaV.Base Require Import Bytes.
From ChiaV.Clvm Require Import Sexp Ints TreeHash IntsProofs.
From ChiaV.Gen Require Import Opcodes Ladders Builder.
From ChiaV.Cond Require Import Model.
From ChiaV.Bundle Require Import SolutionGen Interned SpendBundle BlockPath SexpProofs SolutionGenProofs.
From Coq Require Import ZifyBool ZifyNat ZifyN.
Open Scope N_scope.

(* forget the two mempool-only flag bits of a spend; of a bundle also the two fields the callers of
   process_single_spend maintain themselves (cost, execution cost) *)
Definition erase_sp (s : spend) : spend := sp_set_flags s false false (sp_has_relative s).
Definition erase_b (b : bundle) : bundle :=
  {| b_spends_rev := map erase_sp (b_spends_rev b); b_reserve_fee := b_reserve_fee b; b_height_absolute := b_height_absolute b;
     b_seconds_absolute := b_seconds_absolute b; b_agg_sig_unsafe := b_agg_sig_unsafe b;
     b_before_height_absolute := b_before_height_absolute b; b_before_seconds_absolute := b_before_seconds_absolute b;
     b_cost := 0; b_exec_cost := 0; b_cond_cost := b_cond_cost b;
     b_removal := b_removal b; b_addition := b_addition b |}.
Definition erase_l (st : lstate) : lstate :=
  {| l_ret := erase_b (l_ret st); l_state := l_state st; l_spend := erase_sp (l_spend st); l_max_cost := l_max_cost st;
     l_countdown := l_countdown st; l_counter := 0 |}.

Definition lift {A B} (f : A -> B) (r : res A) : res B := match r with Ok a => Ok (f a) | Err e => Err e end.

Ltac crunch :=
  repeat (cbn -[N.add N.leb N.eqb N.ltb N.pow check_agg_sig_unsafe_message];
          match goal with
          | |- context [match ?x with _ => _ end] =>
              lazymatch x with
              | context [match _ with _ => _ end] => fail
              | _ => destruct x eqn:?
              end
          end).

Section A.
  Variable valid_key : bytes -> bool.
  Variable K : consts.
  Variable fl : cflags.

  Lemma erase_l_idem st : erase_l (erase_l st) = erase_l st.
  Proof.
    destruct st as [ret state sp mc cd cnt]. destruct sp. destruct ret.
    unfold erase_l, erase_b, erase_sp, sp_set_flags; cbn. rewrite map_map.
    repeat f_equal.
  Qed.

  Lemma apply_erase st cva :
    lift erase_l (apply_condition valid_key K fl st cva) = lift erase_l (apply_condition valid_key K fl (erase_l st) cva).
  Proof.
    destruct st as [ret state sp mc cd cnt].
    destruct ret as [spr rf ha sa au bha bsa bc bec bcc brem badd].
    destruct sp as [par amt ph cid hr sr bhr bsr bh bs cc ag ff dd hrel ec ccst].
    destruct cva;
      unfold apply_condition, bind, push_pair, decrement, charge, mark_not_ephemeral, with_ret, with_state, with_spend;
      crunch; try reflexivity.
    all: unfold erase_l, erase_b, erase_sp, sp_set_flags, b_with; cbn; rewrite ?map_length, ?map_map; reflexivity.
  Qed.

  Lemma lift_eq_cases {A B} (f : A -> B) (r1 r2 : res A) :
    lift f r1 = lift f r2 ->
    (exists a1 a2, r1 = Ok a1 /\ r2 = Ok a2 /\ f a1 = f a2) \/ (exists e, r1 = Err e /\ r2 = Err e).
  Proof.
    destruct r1 as [a1|e1], r2 as [a2|e2]; cbn; intros E; inversion E; [left; eauto|right; eauto].
  Qed.

  Lemma charge_erase st c : lift erase_l (charge st c) = charge (erase_l st) c.
  Proof.
    unfold charge. cbn [erase_l l_max_cost]. destruct (l_max_cost st <? c); [reflexivity|].
    destruct st as [ret state sp mc cd cnt]. destruct sp. destruct ret. reflexivity.
  Qed.

  Lemma charge_rel st1 st2 c : erase_l st1 = erase_l st2 -> lift erase_l (charge st1 c) = lift erase_l (charge st2 c).
  Proof. intros E. now rewrite !charge_erase, E. Qed.

  Lemma visit_erase V st c : erase_l (visit V st c) = erase_l st.
  Proof.
    destruct V; [reflexivity|]. unfold visit.
    destruct (mempool_condition _ _ _ _) as [ff dd].
    destruct st as [ret state sp mc cd cnt]. destruct sp. reflexivity.
  Qed.

  Lemma precharge_rel st1 st2 op :
    erase_l st1 = erase_l st2 -> lift erase_l (precharge fl st1 op) = lift erase_l (precharge fl st2 op).
  Proof.
    intros E. unfold precharge.
    repeat match goal with |- context [if ?x then _ else _] => destruct x end;
      try (apply charge_rel; exact E); cbn [lift]; now rewrite E.
  Qed.

  Lemma pc_rel V1 V2 c st1 st2 :
    erase_l st1 = erase_l st2 ->
    lift erase_l (process_condition valid_key K fl V1 c st1) = lift erase_l (process_condition valid_key K fl V2 c st2).
  Proof.
    intros E. unfold process_condition, bind.
    destruct (first c) as [f|e]; [|reflexivity].
    destruct (parse_opcode f) as [op|].
    - destruct (lift_eq_cases _ _ _ (precharge_rel st1 st2 op E)) as [(a1 & a2 & -> & -> & Ea)|(e & -> & ->)]; [|reflexivity].
      destruct (rest c) as [c1|e]; [|reflexivity].
      destruct (parse_args fl c1 op) as [cva|e]; [|reflexivity].
      rewrite (apply_erase (visit V1 a1 cva)), (apply_erase (visit V2 a2 cva)).
      now rewrite !visit_erase, Ea.
    - destruct (f_no_unknown fl); [reflexivity|].
      destruct (f_cost_conds fl); [now apply charge_rel|]. cbn [lift]. now rewrite E.
  Qed.

  Lemma loop_rel V1 V2 iter : forall st1 st2,
    erase_l st1 = erase_l st2 ->
    lift erase_l (conditions_loop valid_key K fl V1 iter st1) = lift erase_l (conditions_loop valid_key K fl V2 iter st2).
  Proof.
    induction iter as [a|c _ nxt IH]; intros st1 st2 E; cbn [conditions_loop].
    - destruct a; [cbn [lift]; now rewrite E|reflexivity].
    - unfold bind.
      destruct (lift_eq_cases _ _ _ (pc_rel V1 V2 c st1 st2 E)) as [(a1 & a2 & -> & -> & Ea)|(e & -> & ->)]; [|reflexivity].
      now apply IH.
  Qed.
End A.



Definition erase3 (x : bundle * pstate * N) : bundle * pstate * N :=
  let '(b, s, c) := x in (erase_b b, s, c).

Section B.
  Variable valid_key : bytes -> bool.
  Variable H : bytes -> bytes.
  Variable K : consts.
  Variable fl : cflags.

  Lemma erase_b_fields r1 r2 :
    erase_b r1 = erase_b r2 ->
    map erase_sp (b_spends_rev r1) = map erase_sp (b_spends_rev r2) /\
    b_reserve_fee r1 = b_reserve_fee r2 /\ b_height_absolute r1 = b_height_absolute r2 /\
    b_seconds_absolute r1 = b_seconds_absolute r2 /\ b_agg_sig_unsafe r1 = b_agg_sig_unsafe r2 /\
    b_before_height_absolute r1 = b_before_height_absolute r2 /\ b_before_seconds_absolute r1 = b_before_seconds_absolute r2 /\
    b_cond_cost r1 = b_cond_cost r2 /\
    b_removal r1 = b_removal r2 /\ b_addition r1 = b_addition r2.
  Proof. destruct r1, r2. unfold erase_b. cbn. intros E. inversion E. repeat split; assumption. Qed.

  Lemma post_spend_erase V s : erase_sp (post_spend V s) = erase_sp s.
  Proof. destruct V; [reflexivity|]. destruct s. reflexivity. Qed.

  Lemma pss_rel V1 V2 ret1 ret2 state parent_id puzzle_hash amount conditions max_cost clvm_cost :
    erase_b ret1 = erase_b ret2 ->
    lift erase3 (process_single_spend valid_key H K fl V1 ret1 state parent_id puzzle_hash amount conditions max_cost clvm_cost)
    = lift erase3 (process_single_spend valid_key H K fl V2 ret2 state parent_id puzzle_hash amount conditions max_cost clvm_cost).
  Proof.
    intros E. destruct (erase_b_fields _ _ E) as (E1 & E2 & E3 & E4 & E5 & E6 & E7 & E10 & E11 & E12).
    assert (Elen : length (b_spends_rev ret1) = length (b_spends_rev ret2)).
    { rewrite <- (map_length erase_sp (b_spends_rev ret1)), E1. apply map_length. }
    unfold process_single_spend, bind.
    destruct (sanitize_hash parent_id 32 InvalidParentId) as [parent|e]; [|reflexivity].
    destruct (sanitize_hash puzzle_hash 32 InvalidPuzzleHash) as [ph|e]; [|reflexivity].
    destruct (parse_amount amount InvalidCoinAmount) as [my_amount|e]; [|reflexivity].
    destruct (atom_of amount InvalidCoinAmount) as [amount_buf|e]; [|reflexivity].
    destruct (lookup_idx _ _); [reflexivity|].
    rewrite Elen.
    set (state1 := {| s_announce_coin := s_announce_coin state; s_announce_puzzle := _ |}).
    match goal with |- lift erase3 (match ?i1 with _ => _ end) = lift erase3 (match ?i2 with _ => _ end) =>
      assert (Hi : lift erase_l i1 = lift erase_l i2) end.
    { destruct (f_cost_conds fl).
      - apply charge_rel. unfold erase_l, erase_b, b_with. cbn. rewrite E1, E2, E3, E4, E5, E6, E7, E10, E11, E12. reflexivity.
      - cbn [lift]. f_equal. unfold erase_l, erase_b, b_with. cbn. rewrite E1, E2, E3, E4, E5, E6, E7, E10, E11, E12. reflexivity. }
    destruct (lift_eq_cases _ _ _ Hi) as [(a1 & a2 & -> & -> & Ea)|(e & -> & ->)]; [|reflexivity].
    match goal with |- lift erase3 (match conditions_loop _ _ _ _ _ ?s1 with _ => _ end) =
                       lift erase3 (match conditions_loop _ _ _ _ _ ?s2 with _ => _ end) =>
      assert (Hs : erase_l s1 = erase_l s2) end.
    { destruct a1 as [r1 p1 s1 m1 c1 n1], a2 as [r2 p2 s2 m2 c2 n2].
      pose proof (f_equal l_ret Ea) as Hr. pose proof (f_equal l_state Ea) as Hp. pose proof (f_equal l_spend Ea) as Hsp.
      pose proof (f_equal l_max_cost Ea) as Hm. pose proof (f_equal l_countdown Ea) as Hc.
      cbn [erase_l l_ret l_state l_spend l_max_cost l_countdown] in Hr, Hp, Hsp, Hm, Hc. subst.
      assert (Hflags : forall s a b, erase_sp (sp_set_flags s a b (sp_has_relative s)) = erase_sp s) by (intros s a b; destruct s; reflexivity).
      unfold erase_l, with_spend. cbn [l_ret l_state l_spend l_max_cost l_countdown]. rewrite Hr. f_equal.
      destruct V1, V2; rewrite ?Hflags; exact Hsp. }
    destruct (lift_eq_cases _ _ _ (loop_rel valid_key K fl V1 V2 conditions _ _ Hs)) as [(b1 & b2 & -> & -> & Eb)|(e & -> & ->)]; [|reflexivity].
    cbn [lift erase3]. f_equal.
    destruct b1 as [r1 p1 s1 m1 c1 n1], b2 as [r2 p2 s2 m2 c2 n2].
    pose proof (f_equal l_ret Eb) as Hr. pose proof (f_equal l_state Eb) as Hp. pose proof (f_equal l_spend Eb) as Hsp.
    pose proof (f_equal l_max_cost Eb) as Hm.
    cbn [erase_l l_ret l_state l_spend l_max_cost l_countdown] in Hr, Hp, Hsp, Hm. subst. cbn [l_ret l_state l_max_cost l_spend].
    do 2 f_equal.
    destruct (erase_b_fields _ _ Hr) as (F1 & F2 & F3 & F4 & F5 & F6 & F7 & F10 & F11 & F12).
    unfold erase_b, b_with.
    cbn [map b_spends_rev b_reserve_fee b_height_absolute b_seconds_absolute b_agg_sig_unsafe b_before_height_absolute
         b_before_seconds_absolute b_cost b_exec_cost b_cond_cost b_removal b_addition].
    rewrite F1, F2, F3, F4, F5, F6, F7, F10, F11, F12.
    rewrite !post_spend_erase, Hsp. reflexivity.
  Qed.
End B.



Section C.
  Variable valid_key : bytes -> bool.
  Variable H : bytes -> bytes.
  Variable K : consts.
  Variable fl : cflags.

  Definition ex (st : lstate) : N := b_exec_cost (l_ret st).

  Lemma apply_exec st cva st' : apply_condition valid_key K fl st cva = Ok st' -> ex st' = ex st.
  Proof.
    destruct st as [ret state sp mc cd cnt].
    destruct ret as [spr rf ha sa au bha bsa bc bec bcc brem badd].
    destruct cva;
      unfold apply_condition, bind, push_pair, decrement, charge, mark_not_ephemeral, with_ret, with_state, with_spend;
      crunch; intros E; inversion E; reflexivity.
  Qed.

  Lemma charge_exec st c st' : charge st c = Ok st' -> ex st' = ex st.
  Proof. unfold charge. destruct (_ <? _); [discriminate|]. intros E; inversion E. reflexivity. Qed.

  Lemma visit_exec V st c : ex (visit V st c) = ex st.
  Proof. destruct V; [reflexivity|]. unfold visit. destruct (mempool_condition _ _ _ _). reflexivity. Qed.

  Lemma pc_exec V c st st' : process_condition valid_key K fl V c st = Ok st' -> ex st' = ex st.
  Proof.
    unfold process_condition, bind. destruct (first c) as [f|]; [|discriminate].
    destruct (parse_opcode f) as [op|].
    - destruct (precharge fl st op) as [st1|] eqn:Ep; [|discriminate].
      assert (E1 : ex st1 = ex st).
      { unfold precharge in Ep.
        repeat match type of Ep with context [if ?x then _ else _] => destruct x end;
          try (now apply charge_exec in Ep); inversion Ep; reflexivity. }
      destruct (rest c); [|discriminate]. destruct (parse_args fl _ op) as [cva|]; [|discriminate].
      intros E. apply apply_exec in E. now rewrite E, visit_exec.
    - destruct (f_no_unknown fl); [discriminate|]. destruct (f_cost_conds fl); [apply charge_exec|intros E; inversion E; reflexivity].
  Qed.

  Lemma loop_exec V iter : forall st st', conditions_loop valid_key K fl V iter st = Ok st' -> ex st' = ex st.
  Proof.
    induction iter as [a|c _ nxt IH]; intros st st'; cbn [conditions_loop].
    - destruct a; [intros E; inversion E; reflexivity|discriminate].
    - unfold bind. destruct (process_condition _ _ _ _ c st) as [st1|] eqn:E1; [|discriminate].
      intros E. apply IH in E. apply pc_exec in E1. congruence.
  Qed.

  Lemma pss_exec V ret state a b c d mc cc ret' state' mc' :
    process_single_spend valid_key H K fl V ret state a b c d mc cc = Ok (ret', state', mc') ->
    b_exec_cost ret' = b_exec_cost ret.
  Proof.
    unfold process_single_spend, bind.
    destruct (sanitize_hash a 32 _); [|discriminate]. destruct (sanitize_hash b 32 _); [|discriminate].
    destruct (parse_amount c _); [|discriminate]. destruct (atom_of c _); [|discriminate].
    destruct (lookup_idx _ _); [discriminate|].
    match goal with |- context [match (if f_cost_conds fl then ?x else ?y) with _ => _ end] =>
      destruct (if f_cost_conds fl then x else y) as [st1|] eqn:E1 end; [|discriminate].
    assert (H1 : ex st1 = b_exec_cost ret).
    { destruct (f_cost_conds fl); [apply charge_exec in E1; rewrite E1|inversion E1]; reflexivity. }
    destruct (conditions_loop _ _ _ _ _ _) as [st2|] eqn:E2; [|discriminate].
    apply loop_exec in E2. intros E; inversion E. cbn. unfold ex in *. cbn in E2. congruence.
  Qed.

  (* ---- the cost budget only decreases ---- *)
  Definition mcost (st : lstate) : N := l_max_cost st.

  Lemma apply_mc st cva st' : apply_condition valid_key K fl st cva = Ok st' -> mcost st' <= mcost st.
  Proof.
    destruct st as [ret state sp mc cd cnt].
    destruct cva;
      unfold apply_condition, bind, push_pair, decrement, charge, mark_not_ephemeral, with_ret, with_state, with_spend;
      crunch; intros E; inversion E; unfold mcost; cbn [l_max_cost]; lia.
  Qed.

  Lemma charge_mc st c st' : charge st c = Ok st' -> mcost st' <= mcost st.
  Proof. unfold charge. destruct (_ <? _); [discriminate|]. intros E; inversion E. unfold mcost. cbn. lia. Qed.

  Lemma visit_mc V st c : mcost (visit V st c) = mcost st.
  Proof. destruct V; [reflexivity|]. unfold visit. destruct (mempool_condition _ _ _ _). reflexivity. Qed.

  Lemma pc_mc V c st st' : process_condition valid_key K fl V c st = Ok st' -> mcost st' <= mcost st.
  Proof.
    unfold process_condition, bind. destruct (first c) as [f|]; [|discriminate].
    destruct (parse_opcode f) as [op|].
    - destruct (precharge fl st op) as [st1|] eqn:Ep; [|discriminate].
      assert (E1 : mcost st1 <= mcost st).
      { unfold precharge in Ep.
        repeat match type of Ep with context [if ?x then _ else _] => destruct x end;
          try (now apply charge_mc in Ep); inversion Ep; lia. }
      destruct (rest c); [|discriminate]. destruct (parse_args fl _ op) as [cva|]; [|discriminate].
      intros E. apply apply_mc in E. rewrite visit_mc in E. lia.
    - destruct (f_no_unknown fl); [discriminate|]. destruct (f_cost_conds fl); [apply charge_mc|intros E; inversion E; lia].
  Qed.

  Lemma loop_mc V iter : forall st st', conditions_loop valid_key K fl V iter st = Ok st' -> mcost st' <= mcost st.
  Proof.
    induction iter as [a|c _ nxt IH]; intros st st'; cbn [conditions_loop].
    - destruct a; [intros E; inversion E; lia|discriminate].
    - unfold bind. destruct (process_condition _ _ _ _ c st) as [st1|] eqn:E1; [|discriminate].
      intros E. apply IH in E. apply pc_mc in E1. lia.
  Qed.

  Lemma pss_mc V ret state a b c d mc cc ret' state' mc' :
    process_single_spend valid_key H K fl V ret state a b c d mc cc = Ok (ret', state', mc') -> mc' <= mc.
  Proof.
    unfold process_single_spend, bind.
    destruct (sanitize_hash a 32 _); [|discriminate]. destruct (sanitize_hash b 32 _); [|discriminate].
    destruct (parse_amount c _); [|discriminate]. destruct (atom_of c _); [|discriminate].
    destruct (lookup_idx _ _); [discriminate|].
    match goal with |- context [match (if f_cost_conds fl then ?x else ?y) with _ => _ end] =>
      destruct (if f_cost_conds fl then x else y) as [st1|] eqn:E1 end; [|discriminate].
    assert (H1 : mcost st1 <= mc).
    { destruct (f_cost_conds fl); [apply charge_mc in E1; exact E1|inversion E1; unfold mcost; cbn; lia]. }
    destruct (conditions_loop _ _ _ _ _ _) as [st2|] eqn:E2; [|discriminate].
    apply loop_mc in E2. intros E; inversion E. subst. unfold mcost in *. cbn in E2. lia.
  Qed.
End C.



Fixpoint cons_list (l : list sexp) (tl : sexp) : sexp :=
  match l with [] => tl | x :: r => Pair x (cons_list r tl) end.

Lemma cons_list_app a b tl : cons_list (a ++ b) tl = cons_list a (cons_list b tl).
Proof. induction a as [|x a IH]; cbn; [reflexivity|now rewrite IH]. Qed.

Section Agree.
  Variable valid_key : bytes -> bool.
  Variable H : bytes -> bytes.
  Variable K : consts.
  Variable run : sexp -> sexp -> N -> res (N * sexp).
  Variable sig_ok : list (bytes * bytes) -> bool.
  Variable cpb : N.
  Variable fl : bflags.
  Variable gen_args : sexp.

  (* the oracle hypothesis about the generator's quote *)
  Hypothesis Hquote : forall x args budget,
    run (Pair (Atom [x01]) x) args budget = if budget <? 20 then Err CostExceeded else Ok (20, x).

  (* the hypotheses of C08 on one coin spend *)
  Definition good_spend (s : cspend) : Prop :=
    plain_spend s /\ exists p, node_from_bytes (cs_puzzle s) = Some p /\ cs_ph s = th H p.

  Lemma good_parts s : good_spend s ->
    exists p sol, node_from_bytes (cs_puzzle s) = Some p /\ node_from_bytes (cs_solution s) = Some sol /\
                  cs_ph s = th H p /\ item_of s = Some (spend_item (cs_parent s) p (cs_amount s) sol).
  Proof.
    intros (((p0 & Hp0) & (sol & Hsol) & _ & _) & (p & Hp & Hh)).
    exists p, sol. pose proof (node_from_bytes_ser _ _ Hsol) as Hs.
    repeat split; auto. unfold item_of. now rewrite Hs, Hp.
  Qed.

  Definition the_item (s : cspend) : sexp := match item_of s with Some i => i | None => nil end.

  Lemma prepend_good spends : forall acc,
    Forall good_spend spends -> prepend_spends spends acc = Some (cons_list (rev (map the_item spends)) acc).
  Proof.
    induction spends as [|s r IH]; intros acc Hall; [reflexivity|].
    inversion Hall as [|? ? Hs Hr]; subst.
    destruct (good_parts s Hs) as (p & sol & _ & _ & _ & Hi).
    cbn [prepend_spends map rev]. rewrite Hi, (IH _ Hr), cons_list_app. unfold the_item. now rewrite Hi.
  Qed.

  Notation pss V := (process_single_spend valid_key H K (bf_cond fl) V).

  (* the two spend loops, on the same spends in the same order *)
  Lemma loops_rel L : forall retE retM state cost sl,
    Forall good_spend L ->
    erase_b retE = erase_b retM -> b_exec_cost retE = b_exec_cost retM + 20 ->
    match sl with Some k => N.of_nat (length L) <= k | None => True end ->
    match sb_loop valid_key H K run fl L retM state cost,
          gen_loop valid_key H K run fl (cons_list (map the_item L) nil) retE state cost sl with
    | Ok (rm, sm, cm), Ok (re, se, ce, term) =>
        erase_b re = erase_b rm /\ b_exec_cost re = b_exec_cost rm + 20 /\ se = sm /\ ce = cm /\ term = nil
    | Err _, Err _ => True
    | _, _ => False
    end.
  Proof.
    induction L as [|s r IH]; intros retE retM state cost sl Hall He Hx Hsl.
    - cbn. auto.
    - inversion Hall as [|? ? Hs Hr]; subst.
      destruct (good_parts s Hs) as (p & sol & Hp & Hsol & Hh & Hi).
      assert (Hti : the_item s = spend_item (cs_parent s) p (cs_amount s) sol) by (unfold the_item; now rewrite Hi).
      cbn [sb_loop map cons_list gen_loop]. rewrite Hti.
      assert (Hsl0 : match sl with Some 0 => False | _ => True end).
      { destruct sl as [[|k]|]; auto. }
      destruct sl as [[|k]|]; [contradiction| |].
      all: unfold spend_item; cbn [extract_n]; unfold parse_node; rewrite Hp, Hsol; unfold bind.
      all: destruct (run p sol cost) as [[clvm_cost conds]|e]; [|exact I].
      all: unfold subtract_cost; destruct (cost <? clvm_cost); [exact I|].
      all: rewrite Hh, bytes_eqb_refl; cbn [negb].
      all: assert (He1 : erase_b (b_add_exec retE clvm_cost) = erase_b (b_add_exec retM clvm_cost))
             by (unfold erase_b, b_add_exec in *; cbn in *; inversion He; congruence).
      all: pose proof (pss_rel valid_key H K (bf_cond fl) VEmpty VMempool _ _ state
                        (Atom (cs_parent s)) (Atom (th H p)) (Atom (canon_n (cs_amount s))) conds (cost - clvm_cost) clvm_cost He1) as Hrel.
      all: destruct (lift_eq_cases _ _ _ Hrel) as [(a1 & a2 & E1 & E2 & Ea)|(e & E1 & E2)]; rewrite E1, E2; [|exact I].
      all: destruct a1 as [[re1 se1] ce1], a2 as [[rm1 sm1] cm1]; cbn [erase3] in Ea.
      all: pose proof (f_equal (fun x => fst (fst x)) Ea) as Hb; pose proof (f_equal (fun x => snd (fst x)) Ea) as Hs2;
           pose proof (f_equal snd Ea) as Hc2; cbn [fst snd] in Hb, Hs2, Hc2; subst se1 ce1.
      all: apply pss_exec in E1; apply pss_exec in E2.
      all: apply IH; auto; try (cbn [b_add_exec b_exec_cost] in *; lia).
      all: try exact I.
      cbn [option_map length] in *. lia.
  Qed.

  (* ---- bundle-level validation does not look at the erased information ---- *)
  Lemma is_ephemeral_erase spends spent idx :
    is_ephemeral (map erase_sp spends) spent idx = is_ephemeral spends spent idx.
  Proof.
    unfold is_ephemeral. rewrite nth_error_map. destruct (nth_error spends idx) as [s|]; [|reflexivity].
    cbn [option_map]. change (sp_parent (erase_sp s)) with (sp_parent s).
    destruct (lookup_idx _ _) as [pidx|]; [|reflexivity].
    rewrite nth_error_map. destruct (nth_error spends pidx) as [ps|]; reflexivity.
  Qed.

  Lemma validate_erase ret sp state :
    validate_conditions H (erase_b ret) (map erase_sp sp) state = validate_conditions H ret sp state.
  Proof.
    unfold validate_conditions.
    change (b_removal (erase_b ret)) with (b_removal ret). change (b_addition (erase_b ret)) with (b_addition ret).
    change (b_reserve_fee (erase_b ret)) with (b_reserve_fee ret).
    change (b_before_height_absolute (erase_b ret)) with (b_before_height_absolute ret).
    change (b_height_absolute (erase_b ret)) with (b_height_absolute ret).
    change (b_before_seconds_absolute (erase_b ret)) with (b_before_seconds_absolute ret).
    change (b_seconds_absolute (erase_b ret)) with (b_seconds_absolute ret).
    assert (E1 : forallb (is_ephemeral (map erase_sp sp) (s_spent_coins state)) (s_assert_ephemeral state) =
                 forallb (is_ephemeral sp (s_spent_coins state)) (s_assert_ephemeral state)).
    { apply forallb_ext_in || (induction (s_assert_ephemeral state) as [|i l IH]; cbn; [reflexivity|now rewrite is_ephemeral_erase, IH]). }
    assert (E2 : existsb (is_ephemeral (map erase_sp sp) (s_spent_coins state)) (s_assert_not_ephemeral state) =
                 existsb (is_ephemeral sp (s_spent_coins state)) (s_assert_not_ephemeral state)).
    { induction (s_assert_not_ephemeral state) as [|i l IH]; cbn; [reflexivity|now rewrite is_ephemeral_erase, IH]. }
    now rewrite E1, E2.
  Qed.

  Lemma validate_rel r1 r2 s1 s2 state :
    erase_b r1 = erase_b r2 -> map erase_sp s1 = map erase_sp s2 ->
    validate_conditions H r1 s1 state = validate_conditions H r2 s2 state.
  Proof. intros E1 E2. rewrite <- (validate_erase r1 s1), <- (validate_erase r2 s2). now rewrite E1, E2. Qed.

  Lemma map_snd_combine_seq {A} (l : list A) : forall n, map snd (combine (seq n (length l)) l) = l.
  Proof. induction l as [|x l IH]; intros n; cbn; [reflexivity|now rewrite IH]. Qed.

  Lemma post_process_erase spends state :
    map erase_sp (post_process H VMempool spends state) = map erase_sp spends.
  Proof.
    unfold post_process.
    assert (Hc : forall s, erase_sp (clear_ff s) = erase_sp s) by (intros s; destruct s; reflexivity).
    set (c := combine (seq 0 (length spends)) spends).
    transitivity (map erase_sp (map snd c)); [|unfold c; now rewrite map_snd_combine_seq].
    rewrite !map_map. apply map_ext. intros [i s]. cbn [snd].
    repeat match goal with |- context [if ?x then _ else _] => destruct x end; rewrite ?Hc; reflexivity.
  Qed.

  Lemma fast_rev_rev {A} (l : list A) : fast_rev l = rev l.
  Proof. unfold fast_rev. rewrite rev_append_rev. apply app_nil_r. Qed.

  (* ---- generator length is insensitive to the order of the spends, and at least genlen_base ---- *)
  Lemma genlen_sum l : forall k,
    fold_left (fun size s => size + spend_len s) l k = k + fold_right (fun s acc => spend_len s + acc) 0 l.
  Proof. induction l as [|x l IH]; intros k; cbn [fold_left fold_right]; [lia|]. rewrite IH. lia. Qed.
  Lemma genlen_eq l : calculate_generator_length l = genlen_base + fold_right (fun s acc => spend_len s + acc) 0 l.
  Proof. unfold calculate_generator_length. apply (genlen_sum l genlen_base). Qed.
  Lemma sum_app (a b : list cspend) :
    fold_right (fun s acc => spend_len s + acc) 0 (a ++ b) =
    fold_right (fun s acc => spend_len s + acc) 0 a + fold_right (fun s acc => spend_len s + acc) 0 b.
  Proof. induction a as [|x a IH]; cbn [app fold_right]; [lia|]. rewrite IH. lia. Qed.
  Lemma genlen_rev l : calculate_generator_length (rev l) = calculate_generator_length l.
  Proof.
    rewrite !genlen_eq. f_equal. induction l as [|x l IH]; [reflexivity|].
    cbn [rev fold_right]. rewrite sum_app, IH. cbn [fold_right]. lia.
  Qed.

  Lemma prepass_items L : Forall good_spend L -> prepass (cons_list (map the_item L) nil) = Ok tt.
  Proof.
    induction L as [|s r IH]; intros Hall; [reflexivity|].
    inversion Hall as [|? ? Hs Hr]; subst. destruct (good_parts s Hs) as (p & sol & _ & _ & _ & Hi).
    cbn [map cons_list prepass]. unfold the_item at 1. rewrite Hi. unfold spend_item. cbn [extract_n]. auto.
  Qed.

  Lemma sb_loop_mc L : forall ret state cost ret' state' cost',
    sb_loop valid_key H K run fl L ret state cost = Ok (ret', state', cost') -> cost' <= cost.
  Proof.
    induction L as [|s r IH]; intros ret state cost ret' state' cost'; cbn [sb_loop].
    - intros E; inversion E; lia.
    - unfold bind. destruct (parse_node _) as [p|]; [|discriminate]. destruct (parse_node _) as [sol|]; [|discriminate].
      destruct (run p sol cost) as [[c conds]|]; [|discriminate].
      unfold subtract_cost. destruct (N.ltb_spec cost c); [discriminate|].
      destruct (negb _); [discriminate|].
      destruct (process_single_spend _ _ _ _ _ _ _ _ _ _ _ _ _) as [[[r1 s1] c1]|] eqn:E1; [|discriminate].
      apply pss_mc in E1. intros E. apply IH in E. lia.
  Qed.

  (* what the two paths report, compared *)
  Definition same_summary (overhead : N) (b m : bundle * list spend * list (bytes * bytes)) : Prop :=
    erase_b (fst (fst b)) = erase_b (fst (fst m)) /\
    b_cost (fst (fst b)) = b_cost (fst (fst m)) + overhead /\
    b_exec_cost (fst (fst b)) = b_exec_cost (fst (fst m)) + 20 /\
    map erase_sp (snd (fst b)) = map erase_sp (snd (fst m)) /\
    snd b = snd m.

  Definition overhead : N := 20 + QUOTE_BYTES * cpb.

  Definition mempool_path (spends : list cspend) (max_cost : N) :=
    if f_dont_validate (bf_cond fl)
    then run_spendbundle valid_key H K run cpb fl spends max_cost                 (* get_conditions_from_spendbundle *)
    else validate_clvm_and_signature valid_key H K run sig_ok cpb fl spends max_cost.

  Theorem agree_rev spends g program max_cost :
    Forall good_spend spends ->
    bf_interned fl = false ->
    N.of_nat (length spends) <= MAX_SPENDS_PER_BLOCK ->
    build_generator spends = Some g -> ser g = Some program ->
    match mempool_path (rev spends) max_cost,
          run_block_generator2 valid_key H K run sig_ok cpb fl gen_args program (nlen program) (max_cost + overhead) with
    | Ok m, Ok b => same_summary overhead b m
    | Err _, Err _ => True
    | _, _ => False
    end.
  Proof.
    intros Hall Hni Hlim Hg Hser.
    assert (HallR : Forall good_spend (rev spends)) by (apply Forall_rev; exact Hall).
    (* the generator *)
    unfold build_generator in Hg. rewrite (prepend_good spends nil Hall) in Hg. inversion Hg as [Hg']; clear Hg.
    rewrite <- map_rev in Hg'. set (L := rev spends) in *. set (lst := cons_list (map the_item L) nil) in *. subst g.
    (* its length *)
    assert (Hplain : Forall plain_spend spends) by (eapply Forall_impl; [|exact Hall]; intros a [Ha _]; exact Ha).
    pose proof (generator_length spends Hplain) as Hlen.
    unfold solution_generator, build_generator in Hlen. rewrite (prepend_good spends nil Hall) in Hlen.
    rewrite <- map_rev in Hlen. fold L in Hlen. fold lst in Hlen. rewrite Hser in Hlen.
    cbn [option_map] in Hlen. inversion Hlen as [Hlen']; clear Hlen.
    assert (Hbase : genlen_base <= calculate_generator_length spends) by (rewrite genlen_eq; lia).
    assert (Hgb : genlen_base = 5) by reflexivity. assert (Hqb : QUOTE_BYTES = 2) by reflexivity.
    set (len := calculate_generator_length spends) in *.
    (* mempool path *)
    unfold mempool_path, validate_clvm_and_signature, check_signature, run_spendbundle, calculate_base_cost, bind.
    assert (HlenL : calculate_generator_length L = len) by (unfold L, len; apply genlen_rev).
    rewrite Hni, HlenL.
    (* block path *)
    unfold run_block_generator2, bind.
    assert (Hsq : starts_with_quote program = true).
    { unfold wrap_generator, quote_atom in Hser. cbn [ser] in Hser.
      change (ser_atom [x01]) with (Some [x01]) in Hser.
      destruct (match ser lst with Some x => _ | None => None end) as [y|]; [|discriminate].
      inversion Hser. reflexivity. }
    rewrite Hsq. cbn [negb]. rewrite Bool.andb_false_r.
    unfold parse_node. rewrite (node_from_bytes_ser _ _ Hser). rewrite Hni. rewrite Hlen'.
    unfold subtract_cost, overhead. rewrite Hqb.
    destruct (N.ltb_spec max_cost ((len - 2) * cpb)) as [Hlt|Hge].
    { (* below the base cost: both reject *)
      destruct (f_dont_validate (bf_cond fl)).
      all: destruct (N.ltb_spec (max_cost + (20 + 2 * cpb)) (len * cpb)); [exact I|].
      all: destruct (if bf_simple fl then _ else _); [|exact I].
      all: unfold wrap_generator, quote_atom; rewrite Hquote.
      all: destruct (N.ltb_spec (max_cost + (20 + 2 * cpb) - len * cpb) 20); [exact I|nia]. }
    assert (Hlim2 : (f_limit_spends (bf_cond fl) && (MAX_SPENDS_PER_BLOCK <? N.of_nat (length L))) = false).
    { unfold L. rewrite rev_length. destruct (N.ltb_spec MAX_SPENDS_PER_BLOCK (N.of_nat (length spends))); [lia|apply Bool.andb_false_r]. }
    destruct (N.ltb_spec (max_cost + (20 + 2 * cpb)) (len * cpb)) as [Hlt2|Hge2]; [nia|].
    assert (Hnode : (if bf_simple fl then match wrap_generator lst with
                       | Pair (Atom [b]) _ => if byte_eqb b x01 then Ok tt else Err GeneratorRuntimeError
                       | _ => Err GeneratorRuntimeError end else Ok tt) = Ok tt).
    { destruct (bf_simple fl); reflexivity. }
    rewrite Hnode. unfold wrap_generator, quote_atom. rewrite Hquote.
    assert (Hcl : max_cost + (20 + 2 * cpb) - len * cpb = (max_cost - (len - 2) * cpb) + 20) by nia.
    rewrite Hcl.
    destruct (N.ltb_spec (max_cost - (len - 2) * cpb + 20) 20) as [Hx|_]; [lia|].
    destruct (N.ltb_spec (max_cost - (len - 2) * cpb + 20) 20) as [Hx|_]; [lia|].
    replace (max_cost - (len - 2) * cpb + 20 - 20) with (max_cost - (len - 2) * cpb) by lia.
    cbn [first]. pose proof (prepass_items L HallR) as Hpre. fold lst in Hpre. rewrite Hpre.
    set (cost0 := max_cost - (len - 2) * cpb).
    assert (Hsl : match (if f_limit_spends (bf_cond fl) then Some MAX_SPENDS_PER_BLOCK else None) with
                  | Some k => N.of_nat (length L) <= k | None => True end).
    { destruct (f_limit_spends (bf_cond fl)); [unfold L; rewrite rev_length; exact Hlim|exact I]. }
    pose proof (loops_rel L (b_add_exec empty_bundle 20) empty_bundle empty_state cost0 _ HallR eq_refl eq_refl Hsl) as Hloop.
    fold lst in Hloop.
    destruct (f_dont_validate (bf_cond fl)) eqn:Hdv; rewrite Hlim2.
    all: destruct (sb_loop valid_key H K run fl L empty_bundle empty_state cost0) as [[[rm sm] cm]|em] eqn:Esb;
         destruct (gen_loop valid_key H K run fl lst (b_add_exec empty_bundle 20) empty_state cost0 _) as [[[[re se] ce] term]|ee];
         try contradiction; try exact I.
    all: destruct Hloop as (He & Hex & -> & -> & ->).
    all: apply sb_loop_mc in Esb.
    all: assert (Hc0 : cost0 <= max_cost) by (unfold cost0; apply N.le_sub_l).
    all: assert (Hcm : cm <= max_cost) by (eapply N.le_trans; [exact Esb|exact Hc0]).
    all: assert (Hsp : map erase_sp (fast_rev (b_spends_rev re)) = map erase_sp (post_process H VMempool (fast_rev (b_spends_rev rm)) sm))
           by (rewrite post_process_erase, !fast_rev_rev, !map_rev; f_equal;
               pose proof (f_equal b_spends_rev He) as Hq; cbn [erase_b b_spends_rev] in Hq; exact Hq).
    all: rewrite (validate_rel re rm _ _ sm He Hsp).
    all: destruct (validate_conditions H rm _ sm); [|exact I].
    all: destruct (N.ltb_spec max_cost cm) as [Hcm2|_]; [lia|]; cbn [negb andb snd].
    all: assert (Hsum : same_summary (20 + 2 * cpb)
                 (b_set_cost re (max_cost + (20 + 2 * cpb) - cm), fast_rev (b_spends_rev re), fast_rev (s_pkm_pairs_rev sm))
                 (b_set_cost rm (max_cost - cm), post_process H VMempool (fast_rev (b_spends_rev rm)) sm, fast_rev (s_pkm_pairs_rev sm)))
           by (unfold same_summary; cbn [fst snd];
               split; [pose proof He as He2; unfold erase_b, b_set_cost in He2 |- *; cbn in He2 |- *; inversion He2; congruence|];
               split; [cbn [b_set_cost b_cost]; lia|];
               split; [cbn [b_set_cost b_exec_cost]; exact Hex|];
               split; [exact Hsp|reflexivity]).
    - exact Hsum.
    - destruct (sig_ok (fast_rev (s_pkm_pairs_rev sm))); cbn [negb]; [exact Hsum|exact I].
  Qed.

  (* ---------- INTERNED_GENERATOR ---------- *)
  (* run_spendbundle after its base cost has been computed *)
  Definition rsb_core (base : N) (spends : list cspend) (max_cost : N)
    : res (bundle * list spend * list (bytes * bytes)) :=
    cost_left <- subtract_cost max_cost base ;;
    if f_limit_spends (bf_cond fl) && (MAX_SPENDS_PER_BLOCK <? N.of_nat (length spends)) then Err TooManySpends
    else
      '(ret, state, cost_left') <- sb_loop valid_key H K run fl spends empty_bundle empty_state cost_left ;;
      let spends1 := post_process H VMempool (fast_rev (b_spends_rev ret)) state in
      _ <- validate_conditions H ret spends1 state ;;
      if max_cost <? cost_left' then Err InternalPanic
      else Ok (b_set_cost ret (max_cost - cost_left'), spends1, fast_rev (s_pkm_pairs_rev state)).

  Lemma run_spendbundle_core spends max_cost :
    run_spendbundle valid_key H K run cpb fl spends max_cost =
    (base <- calculate_base_cost cpb fl spends ;; rsb_core base spends max_cost).
  Proof. reflexivity. Qed.

  Definition mempool_core (base : N) (spends : list cspend) (max_cost : N) :=
    if f_dont_validate (bf_cond fl) then rsb_core base spends max_cost
    else check_signature sig_ok (rsb_core base spends max_cost).

  (* the block path of a bundle vs the mempool loop of the reversed bundle charged the SAME interned base cost *)
  Theorem agree_rev_interned spends g program max_cost :
    Forall good_spend spends ->
    bf_interned fl = true ->
    N.of_nat (length spends) <= MAX_SPENDS_PER_BLOCK ->
    build_generator spends = Some g -> ser g = Some program ->
    match mempool_core (interned_vbytes g * cpb) (rev spends) max_cost,
          run_block_generator2 valid_key H K run sig_ok cpb fl gen_args program (nlen program) (max_cost + 20) with
    | Ok m, Ok b => same_summary 20 b m
    | Err _, Err _ => True
    | _, _ => False
    end.
  Proof.
    intros Hall Hi Hlim Hg Hser.
    assert (HallR : Forall good_spend (rev spends)) by (apply Forall_rev; exact Hall).
    unfold build_generator in Hg. rewrite (prepend_good spends nil Hall) in Hg. inversion Hg as [Hg']; clear Hg.
    rewrite <- map_rev in Hg'. set (L := rev spends) in *. set (lst := cons_list (map the_item L) nil) in *. subst g.
    set (base := interned_vbytes (wrap_generator lst) * cpb).
    unfold mempool_core, check_signature, rsb_core, bind.
    unfold run_block_generator2, bind.
    assert (Hsq : starts_with_quote program = true).
    { unfold wrap_generator, quote_atom in Hser. cbn [ser] in Hser.
      change (ser_atom [x01]) with (Some [x01]) in Hser.
      destruct (match ser lst with Some x => _ | None => None end) as [y|]; [|discriminate].
      inversion Hser. reflexivity. }
    rewrite Hsq. cbn [negb]. rewrite Bool.andb_false_r.
    unfold parse_node. rewrite (node_from_bytes_ser _ _ Hser). rewrite Hi.
    assert (Hb : interned_vbytes (wrap_generator (cons_list (rev (map the_item spends)) nil)) * cpb = base)
      by (unfold base, lst, L; now rewrite map_rev).
    rewrite ?Hb. fold base.
    unfold subtract_cost.
    destruct (N.ltb_spec max_cost base) as [Hlt|Hge].
    { destruct (f_dont_validate (bf_cond fl)).
      all: destruct (N.ltb_spec (max_cost + 20) base); [exact I|].
      all: destruct (if bf_simple fl then _ else _); [|exact I].
      all: change (wrap_generator lst) with (Pair (Atom [x01]) (Pair lst nil)); rewrite Hquote.
      all: destruct (N.ltb_spec (max_cost + 20 - base) 20); [exact I|lia]. }
    assert (Hlim2 : (f_limit_spends (bf_cond fl) && (MAX_SPENDS_PER_BLOCK <? N.of_nat (length L))) = false).
    { unfold L. rewrite rev_length. destruct (N.ltb_spec MAX_SPENDS_PER_BLOCK (N.of_nat (length spends))); [lia|apply Bool.andb_false_r]. }
    destruct (N.ltb_spec (max_cost + 20) base) as [Hlt2|Hge2]; [lia|].
    assert (Hnode : (if bf_simple fl then match wrap_generator lst with
                       | Pair (Atom [b]) _ => if byte_eqb b x01 then Ok tt else Err GeneratorRuntimeError
                       | _ => Err GeneratorRuntimeError end else Ok tt) = Ok tt).
    { destruct (bf_simple fl); reflexivity. }
    rewrite Hnode. clearbody base. change (wrap_generator lst) with (Pair (Atom [x01]) (Pair lst nil)). rewrite Hquote.
    assert (Hcl : max_cost + 20 - base = (max_cost - base) + 20) by lia.
    rewrite Hcl.
    destruct (N.ltb_spec (max_cost - base + 20) 20) as [Hx|_]; [lia|].
    destruct (N.ltb_spec (max_cost - base + 20) 20) as [Hx|_]; [lia|].
    replace (max_cost - base + 20 - 20) with (max_cost - base) by lia.
    cbn [first]. pose proof (prepass_items L HallR) as Hpre. fold lst in Hpre. rewrite Hpre.
    set (cost0 := max_cost - base).
    assert (Hsl : match (if f_limit_spends (bf_cond fl) then Some MAX_SPENDS_PER_BLOCK else None) with
                  | Some k => N.of_nat (length L) <= k | None => True end).
    { destruct (f_limit_spends (bf_cond fl)); [unfold L; rewrite rev_length; exact Hlim|exact I]. }
    pose proof (loops_rel L (b_add_exec empty_bundle 20) empty_bundle empty_state cost0 _ HallR eq_refl eq_refl Hsl) as Hloop.
    fold lst in Hloop.
    destruct (f_dont_validate (bf_cond fl)) eqn:Hdv; rewrite Hlim2.
    all: destruct (sb_loop valid_key H K run fl L empty_bundle empty_state cost0) as [[[rm sm] cm]|em] eqn:Esb;
         destruct (gen_loop valid_key H K run fl lst (b_add_exec empty_bundle 20) empty_state cost0 _) as [[[[re se] ce] term]|ee];
         try contradiction; try exact I.
    all: destruct Hloop as (He & Hex & -> & -> & ->).
    all: apply sb_loop_mc in Esb.
    all: assert (Hc0 : cost0 <= max_cost) by (unfold cost0; apply N.le_sub_l).
    all: assert (Hcm : cm <= max_cost) by (eapply N.le_trans; [exact Esb|exact Hc0]).
    all: assert (Hsp : map erase_sp (fast_rev (b_spends_rev re)) = map erase_sp (post_process H VMempool (fast_rev (b_spends_rev rm)) sm))
           by (rewrite post_process_erase, !fast_rev_rev, !map_rev; f_equal;
               pose proof (f_equal b_spends_rev He) as Hq; cbn [erase_b b_spends_rev] in Hq; exact Hq).
    all: rewrite (validate_rel re rm _ _ sm He Hsp).
    all: destruct (validate_conditions H rm _ sm); [|exact I].
    all: destruct (N.ltb_spec max_cost cm) as [Hcm2|_]; [lia|]; cbn [negb andb snd].
    all: assert (Hsum : same_summary 20
                 (b_set_cost re (max_cost + 20 - cm), fast_rev (b_spends_rev re), fast_rev (s_pkm_pairs_rev sm))
                 (b_set_cost rm (max_cost - cm), post_process H VMempool (fast_rev (b_spends_rev rm)) sm, fast_rev (s_pkm_pairs_rev sm)))
           by (unfold same_summary; cbn [fst snd];
               split; [pose proof He as He2; unfold erase_b, b_set_cost in He2 |- *; cbn in He2 |- *; inversion He2; congruence|];
               split; [cbn [b_set_cost b_cost]; lia|];
               split; [cbn [b_set_cost b_exec_cost]; exact Hex|];
               split; [exact Hsp|reflexivity]).
    - exact Hsum.
    - destruct (sig_ok (fast_rev (s_pkm_pairs_rev sm))); cbn [negb]; [exact Hsum|exact I].
  Qed.
End Agree.

(* the fixed wrapper overhead, over the translated QUOTE_BYTES *)
Lemma overhead_value cpb : overhead cpb = 20 + 2 * cpb.
Proof. reflexivity. Qed.

(* INTERNED_GENERATOR: the mempool path charges the interned size of the very tree the block path decodes *)
Lemma interned_base_cost cpb fl spends g program :
  bf_interned fl = true -> build_generator spends = Some g -> ser g = Some program ->
  calculate_base_cost cpb fl spends = Ok (interned_vbytes g * cpb) /\ parse_node program = Ok g.
Proof.
  intros Hi Hg Hs. unfold calculate_base_cost, parse_node. rewrite Hi, Hg.
  now rewrite (node_from_bytes_ser _ _ Hs).
Qed.
