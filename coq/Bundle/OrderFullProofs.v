(* Bundle/OrderFullProofs.v — completes OrderProofs.v: the per-spend records, agg_sig_unsafe, condition cost and execution
   cost of the mempool path as functions of the oracle outputs ([canon_spend], [reported_full]), their behaviour under
   reversal ([mempool_order_full]) and the complete same-bundle agreement theorem [agree_full_same].
   New per-spend facts: the execution-cost fields are never touched by the condition machinery ([ecore_of]); the
   condition cost of a spend is the budget it consumed (Cond/CostFacts.qstep lifted to sem_fold). *)
From ChiaV.Base Require Import Bytes.
From ChiaV.Clvm Require Import Sexp Ints TreeHash.
From ChiaV.Gen Require Import Opcodes Ladders Builder.
From ChiaV.Cond Require Import Model Invariants Syntax Collect Rules Refine Guards Accept Totals Final Local LocalRules Declarative Summary CostFacts Perm.
From ChiaV.Bundle Require Import SolutionGen Interned SpendBundle BlockPath AgreeProofs OrderProofs.
From Coq Require Import Permutation ZifyBool ZifyNat ZifyN.
Open Scope N_scope.

(* the two execution-cost fields are never touched by the condition machinery *)
Definition ecore_of (st : lstate) : N * N := (sp_exec_cost (l_spend st), b_exec_cost (l_ret st)).

Lemma charge_e st c st' : charge st c = Ok st' -> ecore_of st' = ecore_of st.
Proof. unfold charge. destruct (_ <? _); [discriminate|]. intros E; inversion E. reflexivity. Qed.

Lemma precharge_e fl st op st' : precharge fl st op = Ok st' -> ecore_of st' = ecore_of st.
Proof.
  unfold precharge. intros E.
  repeat match type of E with context [if ?x then _ else _] => destruct x end;
    try (now apply charge_e in E); inversion E; reflexivity.
Qed.

Lemma visit_e V st c : ecore_of (visit V st c) = ecore_of st.
Proof. destruct V; [reflexivity|]. unfold visit. destruct (mempool_condition _ _ _ _). reflexivity. Qed.

Lemma apply_condition_e vk K fl st cva st' : apply_condition vk K fl st cva = Ok st' -> ecore_of st' = ecore_of st.
Proof.
  destruct st as [ret state sp mc cd cnt].
  destruct ret as [spr rf ha sa au bha bsa bc bec bcc brem badd].
  destruct sp as [par amt ph cid hr sr bhr bsr bh bs cc ag ff dd hrel ec ccst].
  destruct cva;
    unfold apply_condition, bind, push_pair, decrement, charge, mark_not_ephemeral, with_ret, with_state, with_spend;
    crunch; intros E; inversion E; reflexivity.
Qed.

Section SemCosts.
  Variable vk : bytes -> bool.
  Variable H : bytes -> bytes.
  Variable K : consts.
  Variable fl : cflags.
  Variable V : visitor.

  Lemma sem_step_e st p st' : sem_step vk K fl V st p = Ok st' -> ecore_of st' = ecore_of st.
  Proof.
    destruct p as [[op cva]|]; cbn [sem_step]; unfold bind.
    - destruct (precharge fl st op) as [st1|] eqn:E1; [|discriminate]. intros E. apply apply_condition_e in E.
      apply precharge_e in E1. now rewrite E, visit_e.
    - destruct (f_cost_conds fl); [apply charge_e|intros E; now inversion E].
  Qed.
  Lemma sem_fold_e l : forall st st', sem_fold vk K fl V st l = Ok st' -> ecore_of st' = ecore_of st.
  Proof.
    induction l as [|p l IH]; intros st st'; cbn [sem_fold]; [intros E; now inversion E|].
    unfold bind. destruct (sem_step vk K fl V st p) as [st1|] eqn:E1; [|discriminate].
    intros E. apply IH in E. apply sem_step_e in E1. congruence.
  Qed.

  Lemma sem_step_q st p st' : sem_step vk K fl V st p = Ok st' -> qstep (q_of st) (q_of st').
  Proof.
    destruct p as [[op cva]|]; cbn [sem_step]; unfold bind.
    - destruct (precharge fl st op) as [st1|] eqn:E1; [|discriminate]. intros E. apply apply_condition_q in E.
      rewrite visit_q in E. apply precharge_q in E1. eapply qstep_trans; eassumption.
    - destruct (f_cost_conds fl); [apply charge_q|intros E; inversion E; apply qstep_refl].
  Qed.
  Lemma sem_fold_q l : forall st st', sem_fold vk K fl V st l = Ok st' -> qstep (q_of st) (q_of st').
  Proof.
    induction l as [|p l IH]; intros st st'; cbn [sem_fold]; [intros E; inversion E; apply qstep_refl|].
    unfold bind. destruct (sem_step vk K fl V st p) as [st1|] eqn:E1; [|discriminate].
    intros E. apply IH in E. apply sem_step_q in E1. eapply qstep_trans; eassumption.
  Qed.

  (* the cost fields after one spend *)
  Lemma spend_sem_costs ret state mc cc p ret2 state2 mc2 :
    spend_sem vk H K fl V ret state mc cc p = Ok (ret2, state2, mc2) ->
    exists sp2, b_spends_rev ret2 = sp2 :: b_spends_rev ret /\
      sp_exec_cost sp2 = cc /\ sp_cond_cost sp2 + mc2 = mc /\
      b_cond_cost ret2 + mc2 = b_cond_cost ret + mc /\ b_exec_cost ret2 = b_exec_cost ret.
  Proof.
    intros Hs. apply spend_sem_inv in Hs. destruct Hs as [_ [st1 [st2 [E1 [E2 Ex]]]]].
    unfold st_finish in Ex. inversion Ex; subst ret2 state2 mc2; clear Ex.
    set (st0 := st_init H ret state mc cc p) in *.
    assert (Q1 : qstep (q_of st0) (q_of st1)) by (destruct (f_cost_conds fl); [now apply charge_q in E1|inversion E1; apply qstep_refl]).
    assert (X1 : ecore_of st1 = ecore_of st0) by (destruct (f_cost_conds fl); [now apply charge_e in E1|now inversion E1]).
    assert (QA : q_of (st_visit V p st1) = q_of st1) by (unfold st_visit; destruct V; reflexivity).
    assert (XA : ecore_of (st_visit V p st1) = ecore_of st1) by (unfold st_visit; destruct V; reflexivity).
    pose proof (sem_fold_q _ _ _ E2) as Q2. rewrite QA in Q2.
    pose proof (sem_fold_e _ _ _ E2) as X2. rewrite XA, X1 in X2.
    destruct (qstep_trans _ _ _ Q1 Q2) as [c [Hc Hq]].
    unfold q_of in Hq, Hc. unfold ecore_of in X2.
    cbn [st0 st_init l_max_cost l_ret l_spend b_with b_cond_cost b_exec_cost b_spends_rev new_spend sp_cond_cost sp_exec_cost q_max q_bcc q_scc q_done] in Hq, Hc, X2.
    injection Hq as G1 G2 G3 G4. injection X2 as Y1 Y2.
    exists (post_spend V (l_spend st2)). cbn [b_with b_spends_rev b_cond_cost b_exec_cost].
    assert (Hpe : sp_exec_cost (post_spend V (l_spend st2)) = sp_exec_cost (l_spend st2)) by (unfold post_spend; destruct V; reflexivity).
    assert (Hpc : sp_cond_cost (post_spend V (l_spend st2)) = sp_cond_cost (l_spend st2)) by (unfold post_spend; destruct V; reflexivity).
    rewrite Hpe, Hpc, G1, G2, G3, G4, Y1, Y2. repeat split; lia.
  Qed.
End SemCosts.



Section Full.
  Variable vk : bytes -> bool.
  Variable H : bytes -> bytes.
  Variable K : consts.
  Variable fl : cflags.
  Notation V := VMempool.

  (* the reported record of one spend, without the two mempool-only flag bits, as a function of the oracle output *)
  Definition canon_spend (d : ipair) : spend :=
    let p := snd d in
    {| sp_parent := ps_parent p; sp_amount := ps_amount p; sp_ph := ps_ph p; sp_coin_id := pid H p;
       sp_height_relative := fold_left omax (flat_map c_hr (kn p)) None;
       sp_seconds_relative := fold_left omax (flat_map c_sr (kn p)) None;
       sp_before_height_relative := fold_left omin (flat_map c_bhr (kn p)) None;
       sp_before_seconds_relative := fold_left omin (flat_map c_bsr (kn p)) None;
       sp_birth_height := fold_left (fun _ v => Some v) (flat_map c_bhei (kn p)) None;
       sp_birth_seconds := fold_left (fun _ v => Some v) (flat_map c_bsec (kn p)) None;
       sp_create_coin := flat_map c_created (kn p); sp_agg_sig := flat_map c_sig (kn p);
       sp_ff := false; sp_dedup := false; sp_has_relative := existsb relative_class (kn p);
       sp_exec_cost := fst d; sp_cond_cost := spend_total_cost fl p |}.

  Lemma erase_canon sp2 c p :
    spend_matches H sp2 p -> sp_exec_cost sp2 = c -> sp_cond_cost sp2 = spend_total_cost fl p ->
    erase_sp sp2 = canon_spend (c, p).
  Proof.
    intros [M1 M2 M3 M4 M5 M6 M7 M8 M9] He Hc. destruct sp2.
    unfold sident, pident in M1. cbn in *. inversion M1. subst. reflexivity.
  Qed.

  Lemma isem_full L : forall ret state cl r s c',
    isem vk H K fl L ret state cl = Ok (r, s, c') -> b_reserve_fee ret < 2 ^ 64 ->
    map erase_sp (b_spends_rev r) = rev (map canon_spend L) ++ map erase_sp (b_spends_rev ret) /\
    b_agg_sig_unsafe r = b_agg_sig_unsafe ret ++ all_unsafe (parsed L) /\
    b_cond_cost r = b_cond_cost ret + total_cost fl (parsed L) /\
    b_exec_cost r = b_exec_cost ret + costs L.
  Proof.
    induction L as [|[c p] L IH]; intros ret state cl r s c'; cbn [isem parsed map snd].
    - intros E _; inversion E; subst. unfold all_unsafe, total_cost, costs. cbn. rewrite app_nil_r. repeat split; lia.
    - fold (parsed L). destruct (cl <? c); [discriminate|].
      destruct (spend_sem vk H K fl V (b_add_exec ret c) state (cl - c) c p) as [[[ret1 state1] cost1]|] eqn:E; cbn [bind]; [|discriminate].
      intros Hn Hfee.
      assert (Hg : spend_guard vk H K fl p (cl - c) (b_reserve_fee ret) (map fst (s_spent_coins state)) = true)
        by (apply (proj1 (spend_sem_guard vk H K fl V (b_add_exec ret c) state (cl - c) c p)); eexists; exact E).
      destruct (spend_sem_next _ _ _ _ _ _ _ _ _ _ _ _ _ E) as [N1 [N2 _]]. cbn [b_add_exec b_reserve_fee] in N1, N2.
      destruct (guard_after vk H K fl _ _ _ _ Hg) as [A1 A2]. rewrite A1 in N1. rewrite A2 in N2.
      apply (spend_guard_rules vk H K fl p (cl - c) _ _ Hfee) in Hg. destruct Hg as (_ & Hstc & Hf2 & _).
      destruct (spend_sem_costs vk H K fl V _ _ _ _ _ _ _ _ E) as (sp2 & S1 & S2 & S3 & S4 & S5).
      destruct (spend_sem_summary vk H K fl V _ _ _ _ _ _ _ _ E) as (sp2' & S1' & Hm & Hu & _).
      rewrite S1 in S1'. inversion S1'; subst sp2'. clear S1'.
      cbn [b_add_exec b_spends_rev b_agg_sig_unsafe b_cond_cost b_exec_cost] in S1, S4, S5, Hu.
      assert (Hfee1 : b_reserve_fee ret1 < 2 ^ 64) by (rewrite N2; exact Hf2).
      destruct (IH _ _ _ _ _ _ Hn Hfee1) as (I1 & I2 & I3 & I4).
      assert (Hcc : sp_cond_cost sp2 = spend_total_cost fl p) by lia.
      split; [|split; [|split]].
      + rewrite I1, S1. cbn [map rev]. rewrite (erase_canon sp2 c p Hm S2 Hcc). rewrite <- app_assoc. reflexivity.
      + rewrite I2, Hu. unfold all_unsafe. cbn [flat_map]. now rewrite app_assoc.
      + rewrite I3. rewrite (total_cost_cons fl p (parsed L)). lia.
      + rewrite I4, S5, costs_cons. lia.
  Qed.
End Full.



(* everything two accepted results of the mempool path for a bundle and its reversal have in common *)
Definition full_eq (r' r : bundle * list spend * list (bytes * bytes)) : Prop :=
  agg_eq r' r /\
  map erase_sp (snd (fst r')) = rev (map erase_sp (snd (fst r))) /\
  Permutation (b_agg_sig_unsafe (fst (fst r'))) (b_agg_sig_unsafe (fst (fst r))) /\
  b_cond_cost (fst (fst r')) = b_cond_cost (fst (fst r)) /\
  b_exec_cost (fst (fst r')) = b_exec_cost (fst (fst r)).

(* the complete C08 relation for the SAME bundle: block path result b, mempool path result m *)
Definition agree_full (o : N) (b m : bundle * list spend * list (bytes * bytes)) : Prop :=
  agree_summary o b m /\
  (* the reported spends: the mempool path's in reverse order, equal up to the two mempool-only flag bits *)
  map erase_sp (snd (fst b)) = rev (map erase_sp (snd (fst m))) /\
  Permutation (b_agg_sig_unsafe (fst (fst b))) (b_agg_sig_unsafe (fst (fst m))) /\
  b_cond_cost (fst (fst b)) = b_cond_cost (fst (fst m)) /\
  b_exec_cost (fst (fst b)) = b_exec_cost (fst (fst m)) + 20.

Section FullFrame.
  Variable vk : bytes -> bool.
  Variable H : bytes -> bytes.
  Variable K : consts.
  Variable run : sexp -> sexp -> N -> res (N * sexp).
  Variable cpb : N.
  Variable fl : bflags.
  Notation cfl := (bf_cond fl).
  Hypothesis Hrun : forall p s,
    (exists c r, forall b, run p s b = (if b <? c then Err CostExceeded else Ok (c, r))) \/
    (forall b, exists e, run p s b = Err e).
  Notation RSB := (run_spendbundle vk H K run cpb fl).
  Notation CORE := (rsb_core vk H K run fl).
  Notation sdata := (spend_data H run fl).

  Definition reported_full (LL : list ipair) (r : bundle * list spend * list (bytes * bytes)) : Prop :=
    map erase_sp (snd (fst r)) = map (canon_spend H cfl) LL /\
    b_agg_sig_unsafe (fst (fst r)) = all_unsafe (parsed LL) /\
    b_cond_cost (fst (fst r)) = total_cost cfl (parsed LL) /\
    b_exec_cost (fst (fst r)) = costs LL.

  Theorem rsb_core_reported_full base L max_cost r :
    CORE base L max_cost = Ok r -> exists LL, Forall2 sdata L LL /\ reported_core H K fl base LL r /\ reported_full LL r.
  Proof.
    intros Hr.
    destruct (rsb_core_reported vk H K run fl Hrun base L max_cost r Hr) as (LL & F & Rp).
    exists LL. split; [exact F|]. split; [exact Rp|].
    unfold rsb_core, bind, subtract_cost in Hr.
    destruct (_ <? _); [discriminate|].
    destruct (f_limit_spends cfl && _); [discriminate|].
    destruct (sb_loop _ _ _ _ _ _ _ _ _) as [[[ret st] cl]|] eqn:Es; [|discriminate].
    destruct (validate_conditions _ _ _ _) as [[]|]; [|discriminate].
    destruct (_ <? _); [discriminate|]. inversion Hr; subst r; clear Hr.
    apply (sb_isem vk H K run fl Hrun) in Es. destruct Es as (LL2 & F2 & Ei).
    assert (LL2 = LL) by (eapply (Forall2_fun _ (spend_data_fun vk H run fl Hrun)); eassumption). subst LL2.
    assert (Hf0 : b_reserve_fee empty_bundle < 2 ^ 64) by (cbn; apply N.neq_0_lt_0, N.pow_nonzero; lia).
    destruct (isem_full vk H K cfl LL _ _ _ _ _ _ Ei Hf0) as (I1 & I2 & I3 & I4).
    cbn [empty_bundle b_spends_rev b_agg_sig_unsafe b_cond_cost b_exec_cost map] in I1, I2, I3, I4.
    rewrite app_nil_r in I1.
    unfold reported_full.
    split; [|cbn [fst snd b_set_cost b_agg_sig_unsafe b_cond_cost b_exec_cost]; split; [exact I2|split; [lia|lia]]].
    transitivity (map erase_sp (post_process H VMempool (fast_rev (b_spends_rev ret)) st)); [reflexivity|].
    rewrite post_process_erase, fast_rev_rev, map_rev, I1. apply rev_involutive.
  Qed.

  Theorem mempool_order_full_core base L max_cost :
    match CORE base (rev L) max_cost, CORE base L max_cost with
    | Ok r', Ok r => full_eq r' r
    | Err _, Err _ => True
    | _, _ => False
    end.
  Proof.
    pose proof (mempool_order_core vk H K run fl Hrun base L max_cost) as O.
    destruct (CORE base L max_cost) as [r|e] eqn:E; destruct (CORE base (rev L) max_cost) as [r'|e'] eqn:E'; try exact O.
    destruct (rsb_core_reported_full _ _ _ _ E) as (LL & F & _ & (P1 & P2 & P3 & P4)).
    destruct (rsb_core_reported_full _ _ _ _ E') as (LL' & F' & _ & (Q1 & Q2 & Q3 & Q4)).
    assert (LL' = rev LL) by (eapply (Forall2_fun _ (spend_data_fun vk H run fl Hrun)); [exact F'|now apply Forall2_rev']). subst LL'.
    split; [exact O|]. rewrite Q1, Q2, Q3, Q4, P1, P2, P3, P4.
    destruct (totals_perm cfl _ _ (bundle_perm_rev (parsed LL))) as (T1 & _).
    rewrite parsed_rev, costs_rev, <- T1. repeat split.
    - apply map_rev.
    - unfold all_unsafe. apply flat_map_perm, Permutation_sym, Permutation_rev.
  Qed.

  Theorem mempool_order_full :
    bf_interned fl = false -> forall L max_cost,
    match RSB (rev L) max_cost, RSB L max_cost with
    | Ok r', Ok r => full_eq r' r
    | Err _, Err _ => True
    | _, _ => False
    end.
  Proof.
    intros Hni L max_cost.
    rewrite (rsb_eq vk H K run cpb fl L max_cost Hni), (rsb_eq vk H K run cpb fl (rev L) max_cost Hni), (base_cost_rev cpb).
    apply mempool_order_full_core.
  Qed.
End FullFrame.

Section AgreeFull.
  Variable valid_key : bytes -> bool.
  Variable H : bytes -> bytes.
  Variable K : consts.
  Variable run : sexp -> sexp -> N -> res (N * sexp).
  Variable sig_ok : list (bytes * bytes) -> bool.
  Variable cpb : N.
  Variable fl : bflags.
  Variable gen_args : sexp.
  Hypothesis Hquote : forall x args budget,
    run (Pair (Atom [x01]) x) args budget = if budget <? 20 then Err CostExceeded else Ok (20, x).
  Hypothesis Hrun : forall p s,
    (exists c r, forall b, run p s b = (if b <? c then Err CostExceeded else Ok (c, r))) \/
    (forall b, exists e, run p s b = Err e).
  Hypothesis Hsig : forall l l', Permutation l l' -> sig_ok l = sig_ok l'.

  Theorem agree_full_same spends g program max_cost :
    Forall (good_spend H) spends ->
    bf_interned fl = false ->
    N.of_nat (length spends) <= MAX_SPENDS_PER_BLOCK ->
    build_generator spends = Some g -> ser g = Some program ->
    match mempool_path valid_key H K run sig_ok cpb fl spends max_cost,
          run_block_generator2 valid_key H K run sig_ok cpb fl gen_args program (nlen program) (max_cost + overhead cpb) with
    | Ok m, Ok b => agree_full (overhead cpb) b m
    | Err _, Err _ => True
    | _, _ => False
    end.
  Proof.
    intros Hall Hni Hlim Hg Hser.
    pose proof (agree_rev valid_key H K run sig_ok cpb fl gen_args Hquote spends g program max_cost Hall Hni Hlim Hg Hser) as A.
    pose proof (mempool_order_full valid_key H K run cpb fl Hrun Hni spends max_cost) as O.
    assert (Hcomb : forall b m' m, same_summary (overhead cpb) b m' -> full_eq m' m -> agree_full (overhead cpb) b m).
    { intros b m' m Hs (G & G10 & G11 & G12 & G13).
      pose proof Hs as (S1 & S2 & S3 & S4 & S5).
      destruct G as (G1 & G2 & G3 & G4 & G5 & G6 & G7 & G8 & G9).
      destruct (erase_b_fields _ _ S1) as (_ & F2 & F3 & F4 & F5 & F6 & F7 & F8 & F11 & F12).
      split; [|split; [|split; [|split]]].
      - unfold agree_summary. rewrite S2, S5, F2, F3, F4, F6, F7, F11, F12, G1, G2, G3, G4, G5, G6, G7, G8. repeat split; auto.
      - rewrite S4. exact G10.
      - rewrite F5. exact G11.
      - rewrite F8. exact G12.
      - rewrite S3, G13. reflexivity. }
    unfold mempool_path, validate_clvm_and_signature, check_signature, bind in *.
    destruct (f_dont_validate (bf_cond fl)).
    - destruct (run_spendbundle valid_key H K run cpb fl (rev spends) max_cost) as [m'|];
      destruct (run_spendbundle valid_key H K run cpb fl spends max_cost) as [m|]; try contradiction;
      destruct (run_block_generator2 _ _ _ _ _ _ _ _ _ _ _) as [b|]; try contradiction; try exact I.
      now apply (Hcomb b m' m).
    - destruct (run_spendbundle valid_key H K run cpb fl (rev spends) max_cost) as [m'|];
      destruct (run_spendbundle valid_key H K run cpb fl spends max_cost) as [m|]; try contradiction.
      + assert (Es : sig_ok (snd m') = sig_ok (snd m)) by (apply Hsig; destruct O as ((_ & _ & _ & _ & _ & _ & _ & _ & P) & _); exact P).
        rewrite <- Es. destruct (sig_ok (snd m'));
          destruct (run_block_generator2 _ _ _ _ _ _ _ _ _ _ _) as [b|]; try contradiction; try exact I.
        now apply (Hcomb b m' m).
      + exact A.
  Qed.

  (* INTERNED_GENERATOR: both paths charge the interned size of the same tree; the only difference is the quote's execution cost *)
  Lemma mempool_path_interned spends g max_cost :
    bf_interned fl = true -> build_generator spends = Some g ->
    mempool_path valid_key H K run sig_ok cpb fl spends max_cost =
    mempool_core valid_key H K run sig_ok fl (interned_vbytes g * cpb) spends max_cost.
  Proof.
    intros Hi Hg. unfold mempool_path, mempool_core, validate_clvm_and_signature.
    rewrite run_spendbundle_core. unfold calculate_base_cost. rewrite Hi, Hg. reflexivity.
  Qed.

  Theorem agree_full_same_interned spends g program max_cost :
    Forall (good_spend H) spends ->
    bf_interned fl = true ->
    N.of_nat (length spends) <= MAX_SPENDS_PER_BLOCK ->
    build_generator spends = Some g -> ser g = Some program ->
    match mempool_path valid_key H K run sig_ok cpb fl spends max_cost,
          run_block_generator2 valid_key H K run sig_ok cpb fl gen_args program (nlen program) (max_cost + 20) with
    | Ok m, Ok b => agree_full 20 b m
    | Err _, Err _ => True
    | _, _ => False
    end.
  Proof.
    intros Hall Hi Hlim Hg Hser.
    rewrite (mempool_path_interned spends g max_cost Hi Hg).
    pose proof (agree_rev_interned valid_key H K run sig_ok cpb fl gen_args Hquote spends g program max_cost Hall Hi Hlim Hg Hser) as A.
    set (base := interned_vbytes g * cpb) in *.
    pose proof (mempool_order_full_core valid_key H K run fl Hrun base spends max_cost) as O.
    assert (Hcomb : forall b m' m, same_summary 20 b m' -> full_eq m' m -> agree_full 20 b m).
    { intros b m' m Hs (G & G10 & G11 & G12 & G13).
      pose proof Hs as (S1 & S2 & S3 & S4 & S5).
      destruct G as (G1 & G2 & G3 & G4 & G5 & G6 & G7 & G8 & G9).
      destruct (erase_b_fields _ _ S1) as (_ & F2 & F3 & F4 & F5 & F6 & F7 & F8 & F11 & F12).
      split; [|split; [|split; [|split]]].
      - unfold agree_summary. rewrite S2, S5, F2, F3, F4, F6, F7, F11, F12, G1, G2, G3, G4, G5, G6, G7, G8. repeat split; auto.
      - rewrite S4. exact G10.
      - rewrite F5. exact G11.
      - rewrite F8. exact G12.
      - rewrite S3, G13. reflexivity. }
    unfold mempool_core, check_signature, bind in *.
    destruct (f_dont_validate (bf_cond fl)).
    - destruct (rsb_core valid_key H K run fl base (rev spends) max_cost) as [m'|];
      destruct (rsb_core valid_key H K run fl base spends max_cost) as [m|]; try contradiction;
      destruct (run_block_generator2 _ _ _ _ _ _ _ _ _ _ _) as [b|]; try contradiction; try exact I.
      now apply (Hcomb b m' m).
    - destruct (rsb_core valid_key H K run fl base (rev spends) max_cost) as [m'|];
      destruct (rsb_core valid_key H K run fl base spends max_cost) as [m|]; try contradiction.
      + assert (Es : sig_ok (snd m') = sig_ok (snd m)) by (apply Hsig; destruct O as ((_ & _ & _ & _ & _ & _ & _ & _ & P) & _); exact P).
        rewrite <- Es. destruct (sig_ok (snd m'));
          destruct (run_block_generator2 _ _ _ _ _ _ _ _ _ _ _) as [b|]; try contradiction; try exact I.
        now apply (Hcomb b m' m).
      + exact A.
  Qed.
End AgreeFull.
