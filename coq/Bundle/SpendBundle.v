(* Bundle/SpendBundle.v — mirror of chia-consensus/src/spendbundle_conditions.rs (calculate_base_cost,
   run_spendbundle) and spendbundle_validation.rs (validate_clvm_and_signature).
   Definitions only.  Follows the Rust control flow:
     base cost first (INTERNED_GENERATOR: interned size of the generator tree; else generator length - QUOTE_BYTES),
     LIMIT_SPENDS on the vector length before anything runs,
     per spend: node_from_bytes (no back-references) of reveal and solution, amount via new_number (canonical atom),
       run, execution cost, WrongPuzzleHash check AFTER the run, process_single_spend::<MempoolVisitor>,
     MempoolVisitor::post_process, validate_conditions, assert!(max_cost >= cost_left).
   Oracles (Section variables): CLVM evaluation [run], key validity, the aggregate-signature verdict.
   Not modelled: COMPUTE_FINGERPRINT (mempool-internal, C19), allocator limits. *)
From ChiaV.Base Require Import Bytes.
From ChiaV.Clvm Require Import Sexp Ints TreeHash.
From ChiaV.Gen Require Import Opcodes Ladders Builder.
From ChiaV.Cond Require Import Model.
From ChiaV.Bundle Require Import SolutionGen Interned.
Open Scope N_scope.

Record bflags := {
  bf_cond : cflags;          (* the five condition-level flags of Cond/Model.v *)
  bf_interned : bool;        (* INTERNED_GENERATOR *)
  bf_simple : bool           (* SIMPLE_GENERATOR *)
}.

Definition bflags_of_bits (n : N) : bflags :=
  {| bf_cond := flags_of_bits n;
     bf_interned := negb (N.land n FLAG_INTERNED_GENERATOR =? 0);
     bf_simple := negb (N.land n FLAG_SIMPLE_GENERATOR =? 0) |}.

(* run_block_generator.rs subtract_cost *)
Definition subtract_cost (cost_left subtract : N) : res N :=
  if cost_left <? subtract then Err CostExceeded else Ok (cost_left - subtract).

Definition b_add_exec (b : bundle) (c : N) : bundle :=
  {| b_spends_rev := b_spends_rev b; b_reserve_fee := b_reserve_fee b; b_height_absolute := b_height_absolute b;
     b_seconds_absolute := b_seconds_absolute b; b_agg_sig_unsafe := b_agg_sig_unsafe b;
     b_before_height_absolute := b_before_height_absolute b; b_before_seconds_absolute := b_before_seconds_absolute b;
     b_cost := b_cost b; b_exec_cost := b_exec_cost b + c; b_cond_cost := b_cond_cost b;
     b_removal := b_removal b; b_addition := b_addition b |}.

Definition b_set_cost (b : bundle) (c : N) : bundle :=
  {| b_spends_rev := b_spends_rev b; b_reserve_fee := b_reserve_fee b; b_height_absolute := b_height_absolute b;
     b_seconds_absolute := b_seconds_absolute b; b_agg_sig_unsafe := b_agg_sig_unsafe b;
     b_before_height_absolute := b_before_height_absolute b; b_before_seconds_absolute := b_before_seconds_absolute b;
     b_cost := c; b_exec_cost := b_exec_cost b; b_cond_cost := b_cond_cost b;
     b_removal := b_removal b; b_addition := b_addition b |}.

Definition parse_node (b : bytes) : res sexp :=
  match node_from_bytes b with Some t => Ok t | None => Err GeneratorRuntimeError end.

Section SpendBundle.
  Variable valid_key : bytes -> bool.
  Variable H : bytes -> bytes.
  Variable K : consts.
  Variable run : sexp -> sexp -> N -> res (N * sexp).     (* run_program(puzzle, solution, max_cost) *)
  Variable sig_ok : list (bytes * bytes) -> bool.        (* aggregate_verify of the bundle's signature *)
  Variable cpb : N.                                      (* constants.cost_per_byte *)
  Variable fl : bflags.

  Definition calculate_base_cost (spends : list cspend) : res N :=
    if bf_interned fl then
      match build_generator spends with
      | None => Err GeneratorRuntimeError
      | Some g => Ok (interned_vbytes g * cpb)
      end
    else Ok ((calculate_generator_length spends - QUOTE_BYTES) * cpb).

  (* the `for coin_spend in &spend_bundle.coin_spends` loop *)
  Fixpoint sb_loop (spends : list cspend) (ret : bundle) (state : pstate) (cost_left : N)
    : res (bundle * pstate * N) :=
    match spends with
    | [] => Ok (ret, state, cost_left)
    | s :: r =>
        puz <- parse_node (cs_puzzle s) ;;
        sol <- parse_node (cs_solution s) ;;
        '(clvm_cost, conditions) <- run puz sol cost_left ;;
        let ret1 := b_add_exec ret clvm_cost in
        cost1 <- subtract_cost cost_left clvm_cost ;;
        let buf := th H puz in
        if negb (bytes_eqb (cs_ph s) buf) then Err WrongPuzzleHash
        else
          '(ret2, state2, cost2) <-
            process_single_spend valid_key H K (bf_cond fl) VMempool ret1 state
                                 (Atom (cs_parent s)) (Atom buf) (Atom (canon_n (cs_amount s))) conditions
                                 cost1 clvm_cost ;;
          sb_loop r ret2 state2 cost2
    end.

  Definition run_spendbundle (spends : list cspend) (max_cost : N)
    : res (bundle * list spend * list (bytes * bytes)) :=
    base_cost <- calculate_base_cost spends ;;
    cost_left <- subtract_cost max_cost base_cost ;;
    if f_limit_spends (bf_cond fl) && (MAX_SPENDS_PER_BLOCK <? N.of_nat (length spends)) then Err TooManySpends
    else
      '(ret, state, cost_left') <- sb_loop spends empty_bundle empty_state cost_left ;;
      let spends1 := post_process H VMempool (fast_rev (b_spends_rev ret)) state in
      _ <- validate_conditions H ret spends1 state ;;
      if max_cost <? cost_left' then Err InternalPanic                     (* assert!(max_cost >= cost_left) *)
      else Ok (b_set_cost ret (max_cost - cost_left'), spends1, fast_rev (s_pkm_pairs_rev state)).

  (* validate_clvm_and_signature: run_spendbundle, then aggregate_verify over the emitted pairs *)
  Definition check_signature (r0 : res (bundle * list spend * list (bytes * bytes)))
    : res (bundle * list spend * list (bytes * bytes)) :=
    r <- r0 ;;
    if sig_ok (snd r) then Ok r else Err BadAggregateSignature.

  Definition validate_clvm_and_signature (spends : list cspend) (max_cost : N)
    : res (bundle * list spend * list (bytes * bytes)) :=
    check_signature (run_spendbundle spends max_cost).
End SpendBundle.
