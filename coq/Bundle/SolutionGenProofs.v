(* Bundle/SolutionGenProofs.v — calculate_generator_length predicts the length of the plain generator
   (solution_generator) for every bundle whose reveals and solutions are plain serializations of trees.
   Uses Clvm/LadderProofs.clvm_bytes_len_ser about the TRANSLATED length ladder and the translated constants
   genlen_base / genlen_per_spend: a changed threshold or constant in solution_generator.rs breaks this proof. *)
From ChiaV.Base Require Import Bytes.
From ChiaV.Clvm Require Import Sexp Ints IntsProofs LadderProofs.
From ChiaV.Gen Require Import Ladders.
From ChiaV.Bundle Require Import SolutionGen SexpProofs.
From Coq Require Import ZifyBool ZifyNat ZifyN.
Ltac Zify.zify_post_hook ::= Z.div_mod_to_equations.
Open Scope N_scope.

(* the hypothesis of C08 on one coin spend: reveal and solution are plain serializations of trees,
   the parent id has 32 bytes, the amount is a u64 *)
Definition plain_spend (s : cspend) : Prop :=
  (exists p, ser p = Some (cs_puzzle s)) /\ (exists sol, ser sol = Some (cs_solution s)) /\
  length (cs_parent s) = 32%nat /\ cs_amount s < 2 ^ 64.

Lemma nlen_app a b : nlen (a ++ b) = nlen a + nlen b.
Proof. unfold nlen. rewrite app_length. lia. Qed.
Lemma nlen_cons x a : nlen (x :: a) = 1 + nlen a.
Proof. unfold nlen. cbn [length]. lia. Qed.

Lemma ser_parent p : length p = 32%nat -> ser (Atom p) = Some (n2b 160 :: p).
Proof.
  intros H. cbn [ser]. unfold ser_atom, atom_prefix, nlen. rewrite H.
  change (N.of_nat 32 =? 0) with false. change (N.of_nat 32 =? 1) with false. cbn [andb].
  change (N.of_nat 32 <? 64) with true. cbn [app]. reflexivity.
Qed.

Definition spend_len (s : cspend) : N :=
  genlen_per_spend + nlen (cs_puzzle s) + clvm_bytes_len (cs_amount s) + nlen (cs_solution s).

Lemma item_of_plain s :
  plain_spend s ->
  exists item ib, item_of s = Some item /\ ser item = Some ib /\ 1 + nlen ib = spend_len s.
Proof.
  intros ((p & Hp) & (sol & Hsol) & Hlen & Hamt).
  unfold item_of. rewrite (node_from_bytes_ser sol _ Hsol), (node_from_bytes_ser p _ Hp).
  pose proof (clvm_bytes_len_ser (cs_amount s) Hamt) as Ha.
  revert Ha. destruct (ser (Atom (canon_n (cs_amount s)))) as [ab|] eqn:Eab; intros Ha; [|discriminate].
  cbn [option_map] in Ha. inversion Ha as [Ha'].
  eexists; eexists; split; [reflexivity|].
  unfold spend_item. cbn [ser] in Eab |- *. rewrite Eab.
  change (ser_atom (cs_parent s)) with (ser (Atom (cs_parent s))). rewrite (ser_parent _ Hlen).
  rewrite Hp, Hsol. change (ser_atom []) with (Some [x80]).
  split; [reflexivity|].
  unfold spend_len, genlen_per_spend.
  repeat (rewrite ?nlen_cons, ?nlen_app). change (nlen []) with 0. unfold nlen at 1. rewrite Hlen. lia.
Qed.

Lemma prepend_len spends : forall acc accb,
  Forall plain_spend spends -> ser acc = Some accb ->
  exists l lb, prepend_spends spends acc = Some l /\ ser l = Some lb /\
               nlen lb = nlen accb + fold_left (fun n s => n + spend_len s) spends 0.
Proof.
  induction spends as [|s r IH]; intros acc accb Hall Hacc.
  - exists acc, accb. cbn. repeat split; auto. lia.
  - inversion Hall as [|? ? Hs Hr]; subst.
    destruct (item_of_plain s Hs) as (item & ib & Hi & Hib & Hl).
    cbn [prepend_spends]. rewrite Hi.
    assert (Hacc' : ser (Pair item acc) = Some (xff :: ib ++ accb)) by (cbn [ser]; now rewrite Hib, Hacc).
    destruct (IH (Pair item acc) _ Hr Hacc') as (l & lb & Hp & Hlb & Hn).
    exists l, lb. repeat split; auto.
    rewrite Hn. cbn [fold_left]. rewrite nlen_cons, nlen_app.
    assert (Hshift : forall l0 k, fold_left (fun n s0 => n + spend_len s0) l0 k = k + fold_left (fun n s0 => n + spend_len s0) l0 0).
    { induction l0 as [|x l0 IH0]; intros k; cbn [fold_left]; [lia|]. rewrite (IH0 (k + spend_len x)), (IH0 (0 + spend_len x)). lia. }
    rewrite (Hshift r (0 + spend_len s)). lia.
Qed.

Theorem generator_length spends :
  Forall plain_spend spends ->
  option_map nlen (solution_generator spends) = Some (calculate_generator_length spends).
Proof.
  intros Hall.
  destruct (prepend_len spends nil [x80] Hall eq_refl) as (l & lb & Hp & Hlb & Hn).
  unfold solution_generator, build_generator. rewrite Hp.
  unfold wrap_generator, quote_atom. cbn [ser]. rewrite Hlb.
  change (ser_atom [x01]) with (Some [x01]). change (ser nil) with (Some [x80]).
  cbn [option_map app]. f_equal.
  repeat (rewrite ?nlen_cons, ?nlen_app). rewrite Hn. change (nlen [x80]) with 1. change (nlen []) with 0.
  unfold calculate_generator_length, genlen_base.
  assert (Hshift : forall l0 k, fold_left (fun n s0 => n + spend_len s0) l0 k = k + fold_left (fun n s0 => n + spend_len s0) l0 0).
  { induction l0 as [|x l0 IH0]; intros k; cbn [fold_left]; [lia|]. rewrite (IH0 (k + spend_len x)), (IH0 (0 + spend_len x)). lia. }
  change (fun size s => size + (genlen_per_spend + nlen (cs_puzzle s) + clvm_bytes_len (cs_amount s) + nlen (cs_solution s)))
    with (fun n s => n + spend_len s).
  rewrite (Hshift spends 5). lia.
Qed.

(* non-vacuity: a one-spend bundle with puzzle (q . nil), solution nil and amount 2^63 satisfies the hypothesis *)
Lemma length_nonvacuous :
  let s := {| cs_parent := repeat_byte 32 x07; cs_ph := []; cs_amount := 2 ^ 63;
              cs_puzzle := [xff; x01; x80]; cs_solution := [x80] |} in
  Forall plain_spend [s] /\ option_map nlen (solution_generator [s]) = Some 58.
Proof.
  split.
  - constructor; [|constructor]. split; [exists (Pair (Atom [x01]) nil); reflexivity|].
    split; [exists nil; reflexivity|]. split; [reflexivity|]. cbn. lia.
  - vm_compute. reflexivity.
Qed.
