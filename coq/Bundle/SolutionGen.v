(* Bundle/SolutionGen.v — mirror of chia-consensus/src/solution_generator.rs:
     build_generator (as a tree), solution_generator (= plain serialization of that tree),
     calculate_generator_length (over the translated ladder Gen/Ladders.clvm_bytes_len and the
     translated constants genlen_base / genlen_per_spend).
   Definitions only.
   Simplification (recorded in notes/bundle.md): build_generator parses reveals and solutions with
   node_from_bytes_backrefs; the mirror uses the plain parser [node_from_bytes], i.e. it covers reveals
   without back-references (the hypothesis of C08 is "reveals/solutions are [ser] of some tree"). *)
From ChiaV.Base Require Import Bytes.
From ChiaV.Clvm Require Import Sexp Ints.
From ChiaV.Gen Require Import Ladders.
Open Scope N_scope.

(* chia_protocol::CoinSpend with the Coin inlined *)
Record cspend := {
  cs_parent : bytes;      (* coin.parent_coin_info, 32 bytes *)
  cs_ph : bytes;          (* coin.puzzle_hash, the DECLARED puzzle hash *)
  cs_amount : N;          (* coin.amount, u64 *)
  cs_puzzle : bytes;      (* puzzle_reveal, serialized *)
  cs_solution : bytes     (* solution, serialized *)
}.

Definition quote_atom : sexp := Atom [x01].       (* a.one() *)

(* ( parent-id puzzle-reveal amount solution ) *)
Definition spend_item (parent : bytes) (puzzle : sexp) (amount : N) (solution : sexp) : sexp :=
  Pair (Atom parent) (Pair puzzle (Pair (Atom (canon_n amount)) (Pair solution nil))).

(* the four allocations of one loop iteration; None = node_from_bytes failed (-> Err) *)
Definition item_of (s : cspend) : option sexp :=
  match node_from_bytes (cs_solution s) with
  | None => None
  | Some sol =>
      match node_from_bytes (cs_puzzle s) with
      | None => None
      | Some puz => Some (spend_item (cs_parent s) puz (cs_amount s) sol)
      end
  end.

(* `for s in spends { ...; spend_list = a.new_pair(item, spend_list)?; }`: each spend is PREPENDED,
   so the generator lists the spends in reverse order of the input *)
Fixpoint prepend_spends (spends : list cspend) (spend_list : sexp) : option sexp :=
  match spends with
  | [] => Some spend_list
  | s :: r =>
      match item_of s with
      | None => None
      | Some item => prepend_spends r (Pair item spend_list)
      end
  end.

(* (q . (spend_list)) *)
Definition wrap_generator (spend_list : sexp) : sexp := Pair quote_atom (Pair spend_list nil).

Definition build_generator (spends : list cspend) : option sexp :=
  match prepend_spends spends nil with
  | None => None
  | Some l => Some (wrap_generator l)
  end.

(* solution_generator: node_to_bytes of build_generator *)
Definition solution_generator (spends : list cspend) : option bytes :=
  match build_generator spends with
  | None => None
  | Some g => ser g
  end.

(* calculate_generator_length *)
Definition calculate_generator_length (spends : list cspend) : N :=
  fold_left (fun size s => size + (genlen_per_spend + nlen (cs_puzzle s) + clvm_bytes_len (cs_amount s) + nlen (cs_solution s)))
            spends genlen_base.
