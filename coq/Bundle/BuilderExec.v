(* Bundle/BuilderExec.v — executable instances of the two abstract interfaces of Bundle/Builder.v, used by the
   model runner (Run/BundleRun.v) and by the concrete witnesses of BuilderRefuted.v.  Definitions only.
     signatures : the free commutative monoid over key indices, as a list (compared after sorting)
     serializer : (items, size); the size after an add is the value RECORDED from clvmr's Serializer for that add
                  (the [hint]); restore returns the previous pair; finishing adds two bytes; the output is the
                  plain serialization of the generator (the real output is its back-reference compression). *)
From ChiaV.Base Require Import Bytes.
From ChiaV.Clvm Require Import Sexp Ints.
From ChiaV.Bundle Require Import SolutionGen Interned Builder.
Open Scope N_scope.

Definition xsig := list N.
Definition xsig_one : xsig := [].
Definition xsig_mul (a b : xsig) : xsig := a ++ b.

Definition xser := (list sexp * N)%type.
Definition x_add (s : xser) (h : N) (l : list sexp) : xser := (fst s ++ rev l, h).
Definition x_restore (after before : xser) : xser := before.
Definition x_size (s : xser) : N := snd s.
Definition x_finish (s : xser) : xser := (fst s, snd s + 2).
Definition x_output (s : xser) : bytes := ser' (wrap_generator (list_to_sexp (fst s))).
(* Serializer::new(sentinel) + add((q . (sentinel))) has written ff 01 ff *)
Definition x_init : xser := ([], 3).
