(* Bundle/SexpProofs.v — the plain CLVM serializer round trip over Clvm/Sexp.v:
     ser t = Some b  ->  deser (b ++ rest) = Some (t, rest)      (all trees whose atoms are < 2^34 bytes,
   which is exactly when [ser] succeeds), hence node_from_bytes (ser t) = t. *)
From ChiaV.Base Require Import Bytes.
From ChiaV.Clvm Require Import Sexp Ints IntsProofs.
From Coq Require Import ZifyBool ZifyNat ZifyN.
Ltac Zify.zify_post_hook ::= Z.div_mod_to_equations.
Open Scope N_scope.

Lemma b2n_n2b_mod n : b2n (n2b n) = n mod 256.
Proof. rewrite <- n2b_mod. apply b2n_n2b. apply N.mod_lt. lia. Qed.

Lemma firstn_app_exact {A} (a r : list A) : firstn (length a) (a ++ r) = a.
Proof. induction a; cbn; [destruct r; reflexivity|now f_equal]. Qed.
Lemma skipn_app_exact {A} (a r : list A) : skipn (length a) (a ++ r) = r.
Proof. induction a; cbn; auto. Qed.

(* the length prefix written by write_atom is read back by decode_size *)
Lemma decode_prefix a b0 p rest :
  atom_prefix b0 (nlen a) = Some p -> p <> [] -> nlen a <> 0 ->
  exists b tl, p = b :: tl /\ 128 <= b2n b /\ b2n b <> 255 /\ b2n b <> 128 /\
               decode_size (b2n b) (tl ++ a ++ rest) = Some (nlen a, a ++ rest).
Proof.
  unfold atom_prefix. set (size := nlen a). intros Hp Hne Hnz.
  destruct (N.eqb_spec size 0) as [|_]; [contradiction|].
  destruct ((size =? 1) && (b0 <? 128)); [inversion Hp; subst; contradiction|].
  destruct (N.ltb_spec size 0x40) as [H1|H1].
  { inversion Hp; subst p. exists (n2b (128 + size)), []. rewrite b2n_n2b_mod.
    replace ((128 + size) mod 256) with (128 + size) by lia.
    repeat split; try lia.
    unfold decode_size, leading_ones.
    destruct (N.ltb_spec (128 + size) 0xc0); [|lia].
    cbn [Nat.leb pred Nat.ltb length app firstn skipn].
    change (be2n []) with 0. change (N.of_nat 1) with 1. change (N.of_nat 0) with 0.
    change (2 ^ (8 - 1)) with 128. change (256 ^ 0) with 1.
    replace ((128 + size) mod 128 * 1 + 0) with size by lia.
    destruct (N.leb_spec 0x400000000 size); [lia|]. reflexivity. }
  destruct (N.ltb_spec size 0x2000) as [H2|H2].
  { inversion Hp; subst p. exists (n2b (192 + size / 256)), [n2b size]. rewrite b2n_n2b_mod.
    replace ((192 + size / 256) mod 256) with (192 + size / 256) by lia.
    repeat split; try lia.
    unfold decode_size, leading_ones.
    destruct (N.ltb_spec (192 + size / 256) 0xc0); [lia|].
    destruct (N.ltb_spec (192 + size / 256) 0xe0); [|lia].
    cbn [Nat.leb pred Nat.ltb length app firstn skipn].
    unfold be2n; cbn [fold_left]. rewrite b2n_n2b_mod.
    change (N.of_nat 2) with 2. change (N.of_nat 1) with 1.
    change (2 ^ (8 - 2)) with 64. change (256 ^ 1) with 256.
    replace ((192 + size / 256) mod 64 * 256 + (0 * 256 + size mod 256)) with size by lia.
    destruct (N.leb_spec 0x400000000 size); [lia|]. reflexivity. }
  destruct (N.ltb_spec size 0x100000) as [H3|H3].
  { inversion Hp; subst p. exists (n2b (224 + size / 65536)), [n2b (size / 256); n2b size]. rewrite b2n_n2b_mod.
    replace ((224 + size / 65536) mod 256) with (224 + size / 65536) by lia.
    repeat split; try lia.
    unfold decode_size, leading_ones.
    destruct (N.ltb_spec (224 + size / 65536) 0xc0); [lia|].
    destruct (N.ltb_spec (224 + size / 65536) 0xe0); [lia|].
    destruct (N.ltb_spec (224 + size / 65536) 0xf0); [|lia].
    cbn [Nat.leb pred Nat.ltb length app firstn skipn].
    unfold be2n; cbn [fold_left]. rewrite !b2n_n2b_mod.
    change (N.of_nat 3) with 3. change (N.of_nat 2) with 2.
    change (2 ^ (8 - 3)) with 32. change (256 ^ 2) with 65536.
    replace ((224 + size / 65536) mod 32 * 65536 + ((0 * 256 + (size / 256) mod 256) * 256 + size mod 256)) with size by lia.
    destruct (N.leb_spec 0x400000000 size); [lia|]. reflexivity. }
  destruct (N.ltb_spec size 0x8000000) as [H4|H4].
  { inversion Hp; subst p. exists (n2b (240 + size / 16777216)), [n2b (size / 65536); n2b (size / 256); n2b size]. rewrite b2n_n2b_mod.
    replace ((240 + size / 16777216) mod 256) with (240 + size / 16777216) by lia.
    repeat split; try lia.
    unfold decode_size, leading_ones.
    destruct (N.ltb_spec (240 + size / 16777216) 0xc0); [lia|].
    destruct (N.ltb_spec (240 + size / 16777216) 0xe0); [lia|].
    destruct (N.ltb_spec (240 + size / 16777216) 0xf0); [lia|].
    destruct (N.ltb_spec (240 + size / 16777216) 0xf8); [|lia].
    cbn [Nat.leb pred Nat.ltb length app firstn skipn].
    unfold be2n; cbn [fold_left]. rewrite !b2n_n2b_mod.
    change (N.of_nat 4) with 4. change (N.of_nat 3) with 3.
    change (2 ^ (8 - 4)) with 16. change (256 ^ 3) with 16777216.
    replace ((240 + size / 16777216) mod 16 * 16777216 +
             (((0 * 256 + (size / 65536) mod 256) * 256 + (size / 256) mod 256) * 256 + size mod 256)) with size by lia.
    destruct (N.leb_spec 0x400000000 size); [lia|]. reflexivity. }
  destruct (N.ltb_spec size 0x400000000) as [H5|H5]; [|discriminate].
  inversion Hp; subst p.
  exists (n2b (248 + size / 4294967296)), [n2b (size / 16777216); n2b (size / 65536); n2b (size / 256); n2b size].
  rewrite b2n_n2b_mod.
  replace ((248 + size / 4294967296) mod 256) with (248 + size / 4294967296) by lia.
  repeat split; try lia.
  unfold decode_size, leading_ones.
  destruct (N.ltb_spec (248 + size / 4294967296) 0xc0); [lia|].
  destruct (N.ltb_spec (248 + size / 4294967296) 0xe0); [lia|].
  destruct (N.ltb_spec (248 + size / 4294967296) 0xf0); [lia|].
  destruct (N.ltb_spec (248 + size / 4294967296) 0xf8); [lia|].
  destruct (N.ltb_spec (248 + size / 4294967296) 0xfc); [|lia].
  cbn [Nat.leb pred Nat.ltb length app firstn skipn].
  unfold be2n; cbn [fold_left]. rewrite !b2n_n2b_mod.
  change (N.of_nat 5) with 5. change (N.of_nat 4) with 4.
  change (2 ^ (8 - 5)) with 8. change (256 ^ 4) with 4294967296.
  replace ((248 + size / 4294967296) mod 8 * 4294967296 +
           ((((0 * 256 + (size / 16777216) mod 256) * 256 + (size / 65536) mod 256) * 256 + (size / 256) mod 256) * 256 + size mod 256)) with size by lia.
  destruct (N.leb_spec 0x400000000 size); [lia|]. reflexivity.
Qed.

Fixpoint height (t : sexp) : nat :=
  match t with Atom _ => 0%nat | Pair l r => S (Nat.max (height l) (height r)) end.

Lemma byte_eqb_false a b : b2n a <> b2n b -> byte_eqb a b = false.
Proof. intros H. unfold byte_eqb. now apply N.eqb_neq. Qed.

Lemma deser_atom a p rest f :
  ser_atom a = Some p -> deser_fuel (S f) (p ++ rest) = Some (Atom a, rest).
Proof.
  unfold ser_atom. destruct (atom_prefix _ _) as [pre|] eqn:Hp; [|discriminate].
  intros E; inversion E; subst p; clear E. rewrite <- app_assoc.
  destruct a as [|b0 a'].
  - (* empty atom: 0x80 *)
    cbn in Hp. inversion Hp; subst pre. cbn [app deser_fuel].
    change (byte_eqb x80 xff) with false. change (byte_eqb x80 x80) with true. reflexivity.
  - destruct pre as [|pb ptl].
    + (* single byte < 0x80, no prefix *)
      unfold atom_prefix in Hp.
      assert (Hlen : nlen (b0 :: a') <> 0) by (unfold nlen; cbn [length]; lia).
      destruct (N.eqb_spec (nlen (b0 :: a')) 0) as [|_]; [contradiction|].
      destruct (N.eqb_spec (nlen (b0 :: a')) 1) as [H1|H1]; cbn [andb] in Hp.
      * destruct (N.ltb_spec (b2n b0) 128) as [Hlt|Hge].
        -- destruct a' as [|x a'']; [|unfold nlen in H1; cbn [length] in H1; lia].
           cbn [app deser_fuel].
           rewrite (byte_eqb_false b0 xff) by (change (b2n xff) with 255; lia).
           rewrite (byte_eqb_false b0 x80) by (change (b2n x80) with 128; lia).
           unfold parse_atom. destruct (N.ltb_spec (b2n b0) 128); [reflexivity|lia].
        -- destruct (nlen (b0 :: a') <? 64); [discriminate|].
           destruct (nlen (b0 :: a') <? 8192); [discriminate|].
           destruct (nlen (b0 :: a') <? 1048576); [discriminate|].
           destruct (nlen (b0 :: a') <? 134217728); [discriminate|].
           destruct (nlen (b0 :: a') <? 17179869184); discriminate.
      * destruct (nlen (b0 :: a') <? 64); [discriminate|].
        destruct (nlen (b0 :: a') <? 8192); [discriminate|].
        destruct (nlen (b0 :: a') <? 1048576); [discriminate|].
        destruct (nlen (b0 :: a') <? 134217728); [discriminate|].
        destruct (nlen (b0 :: a') <? 17179869184); discriminate.
    + assert (Hlen : nlen (b0 :: a') <> 0) by (unfold nlen; cbn [length]; lia).
      destruct (decode_prefix (b0 :: a') (b2n b0) (pb :: ptl) rest Hp ltac:(discriminate) Hlen)
        as (b & tl & Heq & Hge & Hff & H80 & Hdec).
      inversion Heq; subst pb ptl.
      set (atom := b0 :: a') in *. clearbody atom.
      change ((b :: tl) ++ atom ++ rest) with (b :: (tl ++ atom ++ rest)). cbn [deser_fuel].
      rewrite (byte_eqb_false b xff) by (change (b2n xff) with 255; lia).
      rewrite (byte_eqb_false b x80) by (change (b2n x80) with 128; lia).
      unfold parse_atom. destruct (N.ltb_spec (b2n b) 128); [lia|].
      rewrite Hdec. unfold nlen.
      destruct (N.ltb_spec (N.of_nat (length (atom ++ rest))) (N.of_nat (length atom))) as [Hq|_];
        [rewrite app_length in Hq; lia|].
      rewrite Nat2N.id.
      destruct (Nat.ltb_spec (length (atom ++ rest)) (length atom)) as [Hl|Hl].
      { rewrite app_length in Hl. lia. }
      now rewrite firstn_app_exact, skipn_app_exact.
Qed.

Theorem deser_ser_fuel t : forall b rest f,
  ser t = Some b -> (height t < f)%nat -> deser_fuel f (b ++ rest) = Some (t, rest).
Proof.
  induction t as [a|l IHl r IHr]; intros b rest f Hs Hf.
  - destruct f as [|f]; [lia|]. cbn [ser] in Hs. now apply deser_atom.
  - cbn [ser] in Hs.
    destruct (ser l) as [x|] eqn:El; [|discriminate].
    destruct (ser r) as [y|] eqn:Er; [|discriminate].
    inversion Hs; subst b; clear Hs.
    destruct f as [|f]; [lia|]. cbn [height] in Hf.
    cbn [app deser_fuel]. change (byte_eqb xff xff) with true.
    rewrite <- app_assoc.
    rewrite (IHl x (y ++ rest) f eq_refl) by lia.
    rewrite (IHr y rest f eq_refl) by lia. reflexivity.
Qed.

Lemma ser_length_height t b : ser t = Some b -> (height t < length b)%nat.
Proof.
  revert b; induction t as [a|l IHl r IHr]; intros b Hs.
  - cbn [ser] in Hs. unfold ser_atom in Hs.
    destruct (atom_prefix _ _) as [p|] eqn:Hp; [|discriminate]. inversion Hs; subst b.
    cbn [height]. rewrite app_length.
    destruct a as [|b0 a']; [|cbn [length]; lia].
    cbn in Hp. inversion Hp. cbn. lia.
  - cbn [ser] in Hs.
    destruct (ser l) as [x|] eqn:El; [|discriminate].
    destruct (ser r) as [y|] eqn:Er; [|discriminate].
    inversion Hs; subst b. cbn [height length]. rewrite app_length.
    specialize (IHl x eq_refl). specialize (IHr y eq_refl). lia.
Qed.

Theorem deser_ser t b rest : ser t = Some b -> deser (b ++ rest) = Some (t, rest).
Proof.
  intros Hs. unfold deser. apply deser_ser_fuel; [exact Hs|].
  pose proof (ser_length_height t b Hs). rewrite app_length. lia.
Qed.

Corollary node_from_bytes_ser t b : ser t = Some b -> node_from_bytes b = Some t.
Proof.
  intros Hs. unfold node_from_bytes. rewrite <- (app_nil_r b). now rewrite (deser_ser t b [] Hs).
Qed.
